/-
C05 — Control flow, scoping and closures follow the documented semantics.

The reference interpreter of the documented rules is `Noulith.Core.eval` (Impl/CoreEval.lean); the
correspondence check runs it against the real interpreter on generated programs.  This file proves
the laws the documentation promises, for EVERY program, state and fuel (no size bound):
scoping (declaration / assignment / lookup, fresh scopes, closures capture variables), non-local
exits (loops absorb level 0 and decrement the rest, calls absorb `return`, `try` catches only
`throw`), short-circuit evaluation.
-/
import NoulithModel.Impl.CoreEval

namespace Noulith.C05
open Noulith Noulith.Core

/-! ## 1. environments: `:=` declares in the current scope and refuses redeclaration, `=` assigns to
the nearest enclosing declaration and refuses undeclared names -/

theorem lookupIn_setIn_same (vars : List (String × Val)) (x : String) (v : Val)
    (h : (lookupIn vars x).isSome) : lookupIn (setIn vars x v) x = some v := by
  induction vars with
  | nil => simp [lookupIn] at h
  | cons kv rest ih =>
    obtain ⟨k, w⟩ := kv
    by_cases hk : k = x
    · simp [setIn, lookupIn, hk]
    · simp [setIn, lookupIn, hk] at *; exact ih h

theorem lookupIn_setIn_other (vars : List (String × Val)) (x y : String) (v : Val) (hxy : y ≠ x) :
    lookupIn (setIn vars x v) y = lookupIn vars y := by
  induction vars with
  | nil => rfl
  | cons kv rest ih =>
    obtain ⟨k, w⟩ := kv
    by_cases hk : k = x
    · subst hk
      have : ¬ k = y := fun h => hxy h.symm
      simp [setIn, lookupIn, this]
    · by_cases hy : k = y
      · subst hy; simp [setIn, lookupIn, hk]
      · simp [setIn, lookupIn, hk, hy, ih]

theorem lookupIn_append_new (vars : List (String × Val)) (x : String) (v : Val)
    (h : lookupIn vars x = none) : lookupIn (vars ++ [(x, v)]) x = some v := by
  induction vars with
  | nil => simp [lookupIn]
  | cons kv rest ih =>
    obtain ⟨k, w⟩ := kv
    by_cases hk : k = x
    · simp [lookupIn, hk] at h
    · simp [lookupIn, hk] at *; exact ih h

theorem lookupIn_append_other (vars : List (String × Val)) (x y : String) (v : Val) (hxy : y ≠ x) :
    lookupIn (vars ++ [(x, v)]) y = lookupIn vars y := by
  induction vars with
  | nil => simp [lookupIn, Ne.symm hxy]
  | cons kv rest ih =>
    obtain ⟨k, w⟩ := kv
    by_cases hy : k = y <;> simp [lookupIn, hy, ih]

/-- `x := v` is refused exactly when `x` is already declared in the CURRENT frame -/
theorem declare_refuses_redeclaration (frames : Array Frame) (env : Nat) (x : String) (v : Val)
    (fr : Frame) (hfr : frames[env]? = some fr) :
    declareVar frames env x v = none ↔ (lookupIn fr.vars x).isSome := by
  unfold declareVar
  rw [hfr]
  cases h : lookupIn fr.vars x <;> simp [h]

/-- a successful declaration binds the name in the current frame and changes nothing else there -/
theorem declare_binds (frames : Array Frame) (env : Nat) (x : String) (v : Val) (fs : Array Frame)
    (h : declareVar frames env x v = some fs) :
    ∃ fr fr', frames[env]? = some fr ∧ fs[env]? = some fr' ∧ lookupIn fr'.vars x = some v ∧
      fr'.parent = fr.parent ∧ (∀ y, y ≠ x → lookupIn fr'.vars y = lookupIn fr.vars y) ∧
      fs.size = frames.size := by
  unfold declareVar at h
  cases hfr : frames[env]? with
  | none => simp [hfr] at h
  | some fr =>
    simp only [hfr] at h
    cases hl : lookupIn fr.vars x with
    | some _ => simp [hl] at h
    | none =>
      simp only [hl, Option.some.injEq] at h
      subst h
      have hlt : env < frames.size := by
        rcases Nat.lt_or_ge env frames.size with h | h
        · exact h
        · simp [Array.getElem?_eq_none h] at hfr
      refine ⟨fr, { fr with vars := fr.vars ++ [(x, v)] }, rfl, ?_, ?_, rfl, ?_, ?_⟩
      · simp [Array.setIfInBounds, hlt]
      · exact lookupIn_append_new _ _ _ hl
      · intro y hy; exact lookupIn_append_other _ _ _ _ hy
      · simp

/-- a declaration does not touch any other frame -/
theorem declare_other_frames (frames : Array Frame) (env : Nat) (x : String) (v : Val)
    (fs : Array Frame) (h : declareVar frames env x v = some fs) (i : Nat) (hi : i ≠ env) :
    fs[i]? = frames[i]? := by
  unfold declareVar at h
  cases hfr : frames[env]? with
  | none => simp [hfr] at h
  | some fr =>
    simp only [hfr] at h
    cases hl : lookupIn fr.vars x with
    | some _ => simp [hl] at h
    | none =>
      simp only [hl, Option.some.injEq] at h
      subst h
      simp [Array.getElem?_setIfInBounds, Ne.symm hi]

/-- `x = v` on an undeclared name is refused (and, returning `none`, leaves the store unchanged) -/
theorem assign_refuses_undeclared (frames : Array Frame) (fuel env : Nat) (x : String) (v : Val)
    (h : lookupVar frames fuel env x = none) : assignVar frames fuel env x v = none := by
  induction fuel generalizing env with
  | zero => rfl
  | succ n ih =>
    unfold lookupVar at h
    unfold assignVar
    cases hfr : frames[env]? with
    | none => rfl
    | some fr =>
      simp only [hfr] at h ⊢
      cases hl : lookupIn fr.vars x with
      | some w => simp [hl] at h
      | none =>
        simp only [hl] at h ⊢
        cases hp : fr.parent with
        | none => rfl
        | some p => simp only [hp] at h ⊢; exact ih p h

/-- `x = v` on a declared name succeeds -/
theorem assign_succeeds_if_declared (frames : Array Frame) (fuel env : Nat) (x : String) (v w : Val)
    (h : lookupVar frames fuel env x = some w) : (assignVar frames fuel env x v).isSome := by
  induction fuel generalizing env with
  | zero => simp [lookupVar] at h
  | succ n ih =>
    unfold lookupVar at h
    unfold assignVar
    cases hfr : frames[env]? with
    | none => simp [hfr] at h
    | some fr =>
      simp only [hfr] at h ⊢
      cases hl : lookupIn fr.vars x with
      | some w' => simp
      | none =>
        simp only [hl] at h ⊢
        cases hp : fr.parent with
        | none => simp [hp] at h
        | some p => simp only [hp] at h ⊢; exact ih p h

/-! ## 2. fresh scopes: per call, per loop iteration, per catch clause -/

/-- `Env::with_parent` allocates a frame id that did not exist before… -/
theorem newFrame_fresh (st : State) (p : Nat) :
    (newFrame st p).2 = st.frames.size ∧ (newFrame st p).1.frames.size = st.frames.size + 1 := by
  simp [newFrame]

/-- …starts empty with the given parent… -/
theorem newFrame_empty (st : State) (p : Nat) :
    (newFrame st p).1.frames[(newFrame st p).2]? = some { vars := [], parent := some p } := by
  simp [newFrame]

/-- …and leaves every existing frame (hence every variable any closure can see) untouched -/
theorem newFrame_preserves (st : State) (p i : Nat) (hi : i < st.frames.size) :
    (newFrame st p).1.frames[i]? = st.frames[i]? := by
  simp [newFrame, Array.getElem?_push, Nat.ne_of_lt hi]

theorem newFrame_out (st : State) (p : Nat) : (newFrame st p).1.out = st.out := rfl

/-! ## 3. static scoping: a closure runs in (a child of) its DEFINING frame; the caller's frame plays
no role -/

theorem static_scoping (fuel : Nat) (st : State) (env₁ env₂ : Nat) (ps : List Param) (body : Expr)
    (cenv : Nat) (args : List Val) :
    callVal fuel st env₁ (.closure ps body cenv) args = callVal fuel st env₂ (.closure ps body cenv) args := by
  cases fuel with
  | zero => simp [callVal]
  | succ n => simp [callVal]

/-- a lambda expression evaluates to a closure over the CURRENT frame, without touching the state -/
theorem lambda_captures_current_frame (fuel : Nat) (st : State) (env : Nat) (ps : List Param) (body : Expr) :
    eval (fuel + 1) st env (.lambda ps body) = (.val (.closure ps body env), st) := by
  simp [eval]

/-! ## 4. short-circuit operators return the deciding operand and skip the other one -/

theorem and_short_circuit (fuel : Nat) (st st' : State) (env : Nat) (a b : Expr) (va : Val)
    (ha : eval fuel st env a = (.val va, st')) (hf : va.truthy = false) :
    eval (fuel + 1) st env (.and_ a b) = (.val va, st') := by
  simp [eval, ha, hf]

theorem and_evaluates_rhs (fuel : Nat) (st st' : State) (env : Nat) (a b : Expr) (va : Val)
    (ha : eval fuel st env a = (.val va, st')) (hf : va.truthy = true) :
    eval (fuel + 1) st env (.and_ a b) = eval fuel st' env b := by
  simp [eval, ha, hf]

theorem or_short_circuit (fuel : Nat) (st st' : State) (env : Nat) (a b : Expr) (va : Val)
    (ha : eval fuel st env a = (.val va, st')) (hf : va.truthy = true) :
    eval (fuel + 1) st env (.or_ a b) = (.val va, st') := by
  simp [eval, ha, hf]

theorem or_evaluates_rhs (fuel : Nat) (st st' : State) (env : Nat) (a b : Expr) (va : Val)
    (ha : eval fuel st env a = (.val va, st')) (hf : va.truthy = false) :
    eval (fuel + 1) st env (.or_ a b) = eval fuel st' env b := by
  simp [eval, ha, hf]

theorem coalesce_null (fuel : Nat) (st st' : State) (env : Nat) (a b : Expr)
    (ha : eval fuel st env a = (.val .null, st')) :
    eval (fuel + 1) st env (.coalesce a b) = eval fuel st' env b := by
  simp [eval, ha]

theorem coalesce_nonnull (fuel : Nat) (st st' : State) (env : Nat) (a b : Expr) (va : Val)
    (ha : eval fuel st env a = (.val va, st')) (hn : va ≠ .null) :
    eval (fuel + 1) st env (.coalesce a b) = (.val va, st') := by
  simp only [eval, ha]
  cases va <;> simp_all

/-- any non-local exit of the left operand passes through the three operators unchanged -/
theorem and_propagates (fuel : Nat) (st st' : State) (env : Nat) (a b : Expr) (r : Res)
    (ha : eval fuel st env a = (r, st')) (hr : ∀ v, r ≠ .val v) :
    eval (fuel + 1) st env (.and_ a b) = (r, st') := by
  simp only [eval, ha]
  cases r <;> simp_all

/-! ## 5. try / catch intercepts only `throw` -/

theorem try_passes_value (fuel : Nat) (st st' : State) (env : Nat) (b c : Expr) (p : Pat) (v : Val)
    (hb : eval fuel st env b = (.val v, st')) :
    eval (fuel + 1) st env (.try_ b p c) = (.val v, st') := by
  simp [eval, hb]

theorem try_passes_break (fuel : Nat) (st st' : State) (env : Nat) (b c : Expr) (p : Pat) (n : Nat)
    (v : Option Val) (hb : eval fuel st env b = (.brk n v, st')) :
    eval (fuel + 1) st env (.try_ b p c) = (.brk n v, st') := by
  simp [eval, hb]

theorem try_passes_continue (fuel : Nat) (st st' : State) (env : Nat) (b c : Expr) (p : Pat) (n : Nat)
    (hb : eval fuel st env b = (.cont n, st')) :
    eval (fuel + 1) st env (.try_ b p c) = (.cont n, st') := by
  simp [eval, hb]

theorem try_passes_return (fuel : Nat) (st st' : State) (env : Nat) (b c : Expr) (p : Pat) (v : Val)
    (hb : eval fuel st env b = (.ret v, st')) :
    eval (fuel + 1) st env (.try_ b p c) = (.ret v, st') := by
  simp [eval, hb]

/-- a thrown value whose pattern matches is received by the catch clause, in a FRESH scope that
binds the pattern -/
theorem try_catches_throw (fuel : Nat) (st st' st2 : State) (env : Nat) (b c : Expr) (p : Pat) (v : Val)
    (hb : eval fuel st env b = (.thrown v, st'))
    (hm : declarePat (patDepth p + 1) (newFrame st' env).1 (newFrame st' env).2 p v = (true, st2)) :
    eval (fuel + 1) st env (.try_ b p c) = eval fuel st2 (newFrame st' env).2 c := by
  simp [eval, hb, hm]

/-- …and is re-thrown unchanged when the pattern does not match -/
theorem try_rethrows_unmatched (fuel : Nat) (st st' st2 : State) (env : Nat) (b c : Expr) (p : Pat) (v : Val)
    (hb : eval fuel st env b = (.thrown v, st'))
    (hm : declarePat (patDepth p + 1) (newFrame st' env).1 (newFrame st' env).2 p v = (false, st2)) :
    eval (fuel + 1) st env (.try_ b p c) = (.thrown v, st2) := by
  simp [eval, hb, hm]

/-! ## 6. loops: `break` / `continue` with repeat counts -/

/-- `while`: the condition and the body of one iteration run in one fresh scope -/
theorem while_false_exits (fuel : Nat) (st st' : State) (env : Nat) (c b : Expr) (vc : Val)
    (hc : eval fuel (newFrame st env).1 (newFrame st env).2 c = (.val vc, st')) (hf : vc.truthy = false) :
    evalWhile (fuel + 1) st env c b = (.val .null, st') := by
  simp [evalWhile, hc, hf]

/-- `break` (level 0) ends the loop, whose value is the break value (or null) -/
theorem while_break0 (fuel : Nat) (st st' st'' : State) (env : Nat) (c b : Expr) (vc : Val) (v : Option Val)
    (hc : eval fuel (newFrame st env).1 (newFrame st env).2 c = (.val vc, st')) (ht : vc.truthy = true)
    (hb : eval fuel st' (newFrame st env).2 b = (.brk 0 v, st'')) :
    evalWhile (fuel + 1) st env c b = (.val (v.getD .null), st'') := by
  simp [evalWhile, hc, ht, hb]

/-- `break` with repeat count n+1 exits this loop and leaves count n for the enclosing ones -/
theorem while_break_succ (fuel : Nat) (st st' st'' : State) (env : Nat) (c b : Expr) (vc : Val) (n : Nat)
    (v : Option Val)
    (hc : eval fuel (newFrame st env).1 (newFrame st env).2 c = (.val vc, st')) (ht : vc.truthy = true)
    (hb : eval fuel st' (newFrame st env).2 b = (.brk (n + 1) v, st'')) :
    evalWhile (fuel + 1) st env c b = (.brk n v, st'') := by
  simp [evalWhile, hc, ht, hb]

theorem while_continue0 (fuel : Nat) (st st' st'' : State) (env : Nat) (c b : Expr) (vc : Val)
    (hc : eval fuel (newFrame st env).1 (newFrame st env).2 c = (.val vc, st')) (ht : vc.truthy = true)
    (hb : eval fuel st' (newFrame st env).2 b = (.cont 0, st'')) :
    evalWhile (fuel + 1) st env c b = evalWhile fuel st'' env c b := by
  simp [evalWhile, hc, ht, hb]

theorem while_continue_succ (fuel : Nat) (st st' st'' : State) (env : Nat) (c b : Expr) (vc : Val) (n : Nat)
    (hc : eval fuel (newFrame st env).1 (newFrame st env).2 c = (.val vc, st')) (ht : vc.truthy = true)
    (hb : eval fuel st' (newFrame st env).2 b = (.cont (n + 1), st'')) :
    evalWhile (fuel + 1) st env c b = (.cont n, st'') := by
  simp [evalWhile, hc, ht, hb]

/-- `return` and `throw` pass through a loop untouched -/
theorem while_passes_return (fuel : Nat) (st st' st'' : State) (env : Nat) (c b : Expr) (vc v : Val)
    (hc : eval fuel (newFrame st env).1 (newFrame st env).2 c = (.val vc, st')) (ht : vc.truthy = true)
    (hb : eval fuel st' (newFrame st env).2 b = (.ret v, st'')) :
    evalWhile (fuel + 1) st env c b = (.ret v, st'') := by
  simp [evalWhile, hc, ht, hb]

theorem while_passes_throw (fuel : Nat) (st st' st'' : State) (env : Nat) (c b : Expr) (vc v : Val)
    (hc : eval fuel (newFrame st env).1 (newFrame st env).2 c = (.val vc, st')) (ht : vc.truthy = true)
    (hb : eval fuel st' (newFrame st env).2 b = (.thrown v, st'')) :
    evalWhile (fuel + 1) st env c b = (.thrown v, st'') := by
  simp [evalWhile, hc, ht, hb]

/-- `for` (statement form): level-0 break gives the loop's value, higher levels are decremented,
`continue` levels ≥ 1 are decremented -/
theorem for_exec_break0 (fuel : Nat) (st st' : State) (env : Nat) (its : List ForIt) (e : Expr)
    (v : Option Val) (acc : ForAcc)
    (h : evalFor fuel st env its (.exec e) default = (.brk 0 v, st', acc)) :
    eval (fuel + 1) st env (.for_ its (.exec e)) = (.val (v.getD .null), st') := by
  simp [eval, h]

theorem for_exec_break_succ (fuel : Nat) (st st' : State) (env : Nat) (its : List ForIt) (e : Expr)
    (n : Nat) (v : Option Val) (acc : ForAcc)
    (h : evalFor fuel st env its (.exec e) default = (.brk (n + 1) v, st', acc)) :
    eval (fuel + 1) st env (.for_ its (.exec e)) = (.brk n v, st') := by
  simp [eval, h]

theorem for_exec_continue_succ (fuel : Nat) (st st' : State) (env : Nat) (its : List ForIt) (e : Expr)
    (n : Nat) (acc : ForAcc)
    (h : evalFor fuel st env its (.exec e) default = (.cont (n + 1), st', acc)) :
    eval (fuel + 1) st env (.for_ its (.exec e)) = (.cont n, st') := by
  simp [eval, h]

theorem for_exec_normal (fuel : Nat) (st st' : State) (env : Nat) (its : List ForIt) (e : Expr)
    (v : Val) (acc : ForAcc)
    (h : evalFor fuel st env its (.exec e) default = (.val v, st', acc)) :
    eval (fuel + 1) st env (.for_ its (.exec e)) = (.val .null, st') := by
  simp [eval, h]

/-- the body of a `for` absorbs a level-0 `continue` of the innermost clause -/
theorem for_body_absorbs_continue0 (fuel : Nat) (st st' : State) (env : Nat) (body : ForBody)
    (acc acc' : ForAcc) (h : forBody fuel st env body acc = (.cont 0, st', acc')) :
    evalFor (fuel + 1) st env [] body acc = (.val .null, st', acc') := by
  simp [evalFor, h]

/-- a guard that fails skips the rest of the clauses and the body -/
theorem for_guard_false (fuel : Nat) (st st' : State) (env : Nat) (g : Expr) (rest : List ForIt)
    (body : ForBody) (acc : ForAcc) (v : Val)
    (hg : eval fuel st env g = (.val v, st')) (hf : v.truthy = false) :
    evalFor (fuel + 1) st env (.guard g :: rest) body acc = (.val .null, st', acc) := by
  simp [evalFor, hg, hf]

/-! ## 7. calls absorb `return` (and only `return`) -/

theorem push_setIfInBounds_last (a : Array Frame) (x : Frame) :
    (a.push x).setIfInBounds a.size x = a.push x := by
  apply Array.ext_getElem?
  intro i
  simp only [Array.getElem?_setIfInBounds, Array.getElem?_push]
  by_cases h : a.size = i <;> simp [h]

/-- the body's `return v` becomes the value of the call -/
theorem call_absorbs_return (fuel : Nat) (st : State) (env cenv : Nat) (body : Expr) (v : Val) (st' : State)
    (hb : eval fuel ((newFrame st cenv).1) (newFrame st cenv).2 body = (.ret v, st'))
    (hfr : (newFrame st cenv).1.frames[(newFrame st cenv).2]? = some { vars := [], parent := some cenv } := newFrame_empty st cenv) :
    callVal (fuel + 1) st env (.closure [] body cenv) [] =
      (match evalList fuel (newFrame st cenv).1 (newFrame st cenv).2 [] with
       | (.stop r, st1) => (r, st1)
       | (.ok _, _) => (.val v, st')) := by
  cases fuel with
  | zero => simp [eval] at hb
  | succ n =>
    simp only [callVal, evalList, bindArgs, List.filter_nil, List.length_nil, Nat.sub_self, List.drop_nil,
      List.map_nil, List.any_nil, List.filterMap_nil, List.append_nil]
    simp [hfr]
    have : (newFrame st cenv).1.frames.setIfInBounds (newFrame st cenv).2 { vars := [], parent := some cenv }
        = (newFrame st cenv).1.frames := by
      simp [newFrame, push_setIfInBounds_last]
    simp [this, hb]

/-- `break` / `continue` raised inside a function body are NOT absorbed by the call: they reach the
caller's loops (non-local exits through call levels, as the real interpreter does) -/
theorem call_passes_break (fuel : Nat) (st : State) (env cenv : Nat) (body : Expr) (n : Nat) (v : Option Val)
    (st' : State)
    (hb : eval (fuel + 1) ((newFrame st cenv).1) (newFrame st cenv).2 body = (.brk n v, st')) :
    callVal (fuel + 2) st env (.closure [] body cenv) [] = (.brk n v, st') := by
  simp only [callVal, evalList, bindArgs, List.filter_nil, List.length_nil, Nat.sub_self, List.drop_nil,
    List.map_nil, List.any_nil, List.filterMap_nil, List.append_nil]
  have hfr := newFrame_empty st cenv
  simp [hfr]
  have : (newFrame st cenv).1.frames.setIfInBounds (newFrame st cenv).2 { vars := [], parent := some cenv }
      = (newFrame st cenv).1.frames := by
    simp [newFrame, push_setIfInBounds_last]
  simp [this, hb]

/-! ## 8. sequencing, conditionals and the four exits -/

theorem seq_stops_at_exit (fuel : Nat) (st st' : State) (env : Nat) (x y : Expr) (rest : List Expr) (r : Res)
    (hx : eval fuel st env x = (r, st')) (hr : ∀ v, r ≠ .val v) :
    evalSeq (fuel + 1) st env (x :: y :: rest) = (r, st') := by
  simp only [evalSeq, hx]
  cases r <;> simp_all

theorem seq_continues (fuel : Nat) (st st' : State) (env : Nat) (x y : Expr) (rest : List Expr) (v : Val)
    (hx : eval fuel st env x = (.val v, st')) :
    evalSeq (fuel + 1) st env (x :: y :: rest) = evalSeq fuel st' env (y :: rest) := by
  simp [evalSeq, hx]

/-- `if` does not open a scope: both branches run in the scope of the `if` itself -/
theorem if_true (fuel : Nat) (st st' : State) (env : Nat) (c t : Expr) (e : Option Expr) (vc : Val)
    (hc : eval fuel st env c = (.val vc, st')) (ht : vc.truthy = true) :
    eval (fuel + 1) st env (.ite c t e) = eval fuel st' env t := by
  simp [eval, hc, ht]

theorem if_false_no_else (fuel : Nat) (st st' : State) (env : Nat) (c t : Expr) (vc : Val)
    (hc : eval fuel st env c = (.val vc, st')) (ht : vc.truthy = false) :
    eval (fuel + 1) st env (.ite c t none) = (.val .null, st') := by
  simp [eval, hc, ht]

theorem break_evaluates_value (fuel : Nat) (st st' : State) (env : Nat) (n : Nat) (e : Expr) (v : Val)
    (he : eval fuel st env e = (.val v, st')) :
    eval (fuel + 1) st env (.brk n (some e)) = (.brk n (some v), st') := by
  simp [eval, he]

theorem throw_raises_value (fuel : Nat) (st st' : State) (env : Nat) (e : Expr) (v : Val)
    (he : eval fuel st env e = (.val v, st')) :
    eval (fuel + 1) st env (.throw_ e) = (.thrown v, st') := by
  simp [eval, he]

/-- `eval` of program text runs it in the CALLING scope -/
theorem eval_runs_in_calling_scope (fuel : Nat) (st : State) (env : Nat) (e : Expr) :
    eval (fuel + 1) st env (.evalSrc e) = eval fuel st env e := by
  simp [eval]

/-! ## 8b. switch: the first arm whose pattern binds the scrutinee runs, in a fresh scope per arm -/

theorem switch_evaluates_scrutinee_first (fuel : Nat) (st st' : State) (env : Nat) (sc : Expr)
    (arms : List SwitchArm) (v : Val) (hs : eval fuel st env sc = (.val v, st')) :
    eval (fuel + 1) st env (.switch_ sc arms) = evalSwitch fuel st' env v arms := by
  simp [eval, hs]

/-- no arm matches: a catchable error, state untouched by the (empty) arm list -/
theorem switch_no_arm_raises (fuel : Nat) (st : State) (env : Nat) (v : Val) :
    evalSwitch (fuel + 1) st env v [] = (.thrown .err, st) := by
  simp [evalSwitch]

/-- an arm whose pattern binds the scrutinee runs its body in a fresh scope holding the bindings -/
theorem switch_arm_matches (fuel : Nat) (st st2 : State) (env : Nat) (v : Val) (p : Pat) (body : Expr)
    (rest : List SwitchArm)
    (hm : declarePat (patDepth p + 1) (newFrame st env).1 (newFrame st env).2 p v = (true, st2)) :
    evalSwitch (fuel + 1) st env v (.mk p body :: rest) = eval fuel st2 (newFrame st env).2 body := by
  simp [evalSwitch, hm]

/-- an arm whose pattern does not bind is skipped; the next arm starts again from the enclosing scope
(whatever the failed arm bound lives in its own, now unreachable, frame) -/
theorem switch_arm_skipped (fuel : Nat) (st st2 : State) (env : Nat) (v : Val) (p : Pat) (body : Expr)
    (rest : List SwitchArm)
    (hm : declarePat (patDepth p + 1) (newFrame st env).1 (newFrame st env).2 p v = (false, st2)) :
    evalSwitch (fuel + 1) st env v (.mk p body :: rest) = evalSwitch fuel st2 env v rest := by
  simp [evalSwitch, hm]

/-- a literal arm is taken exactly for the equal integer -/
theorem switch_literal_arm (fuel : Nat) (st : State) (env : Nat) (n m : Int) (body : Expr) (rest : List SwitchArm) :
    evalSwitch (fuel + 1) st env (.int m) (.mk (.lit n) body :: rest) =
      if m = n then eval fuel (newFrame st env).1 (newFrame st env).2 body
      else evalSwitch fuel (newFrame st env).1 env (.int m) rest := by
  by_cases h : m = n <;> simp [evalSwitch, declarePat, patDepth, h]

/-! ## 9. non-vacuity: concrete programs exercising the laws (kernel-evaluated) -/

/-- closures capture variables, not values: the counter closure sees its own updates -/
example :
    (runProgram 50 (.seq [
        .declare (.ident "mk") (.lambda [] (.seq [.declare (.ident "c") (.int 0),
            .lambda [] (.seq [.assign "c" (.op "+" (.ident "c") (.int 1)), .ident "c"] false)] false)),
        .declare (.ident "g") (.call (.ident "mk") []),
        .list [.call (.ident "g") [], .call (.ident "g") []]] false)).1
      matches .val (.list [.int 1, .int 2]) := by decide +kernel

end Noulith.C05
