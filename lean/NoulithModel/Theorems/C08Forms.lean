/-
C08 (continued) — the rarely used ARGUMENT FORMS: comparison operators called with 0, 1, 2, 3+
operands or a splat (`<(a, b, c)`, `<(...xs)`), infix chains, and every form that reaches an
extremum (`max(xs)`, `max(a, b, c)`, `xs fold max`, `a max b`, `x max= y`, comparator forms, the
catamorphism `for (…) yield e into max`).
-/
import NoulithModel.Theorems.C08SortBy

namespace Noulith.C08
open Noulith OrdSpec

/-! ## call forms of the comparison operators -/

/-- left-to-right short-circuit conjunction of possibly raising tests -/
def conjOut : List (Out Bool) → Out Bool
  | [] => .ok true
  | .ok true :: rest => conjOut rest
  | .ok false :: _ => .ok false
  | .throw :: _ => .throw
  | .panic :: _ => .panic

/-- the neighbouring pairs of an operand list -/
def neighbours (args : List Val) : List (Val × Val) := args.zip args.tail

theorem cmpOp_eq_accept (op : String) (a b : Val)
    (hop : op = "==" ∨ op = "!=" ∨ op = "<" ∨ op = ">" ∨ op = "<=" ∨ op = ">=") :
    cmpOp op a b = (cmpAccept op a b).map ofBool := by
  rcases hop with h | h | h | h | h | h <;> subst h <;> simp only [cmpOp, cmpAccept, Out.map] <;>
    (try rfl) <;> (cases ncmp a b <;> rfl)

/-- **call_form_is_neighbour_conjunction**: `op(x₁, …, xₙ)` (also `op(...xs)`) with two or more
operands is the left-to-right conjunction of `op` over the NEIGHBOURING pairs `(xᵢ, xᵢ₊₁)` — never
over `(x₁, xᵢ)` — with the first false pair answering false and the first incomparable pair
reached raising -/
theorem call_form_is_neighbour_conjunction (op : String) (args : List Val) :
    cmpLoop op args = conjOut ((neighbours args).map fun p => cmpAccept op p.1 p.2) := by
  induction args with
  | nil => rfl
  | cons a rest ih =>
    cases rest with
    | nil => rfl
    | cons b rest' =>
      simp only [cmpLoop, neighbours, List.tail_cons, List.zip_cons_cons, List.map_cons]
      have ih' : cmpLoop op (b :: rest') = conjOut (((b :: rest').zip rest').map fun p => cmpAccept op p.1 p.2) := ih
      cases h : cmpAccept op a b with
      | ok v => cases v <;> simp only [conjOut]; exact ih'
      | throw => rfl
      | panic => rfl

theorem conjOut_true_iff (l : List (Out Bool)) : conjOut l = .ok true ↔ ∀ x ∈ l, x = .ok true := by
  induction l with
  | nil => simp [conjOut]
  | cons x xs ih =>
    cases x with
    | ok v => cases v <;> simp [conjOut, ih]
    | throw => simp [conjOut]
    | panic => simp [conjOut]

/-- the call is true exactly when every neighbouring pair is -/
theorem call_true_iff (op : String) (args : List Val) :
    cmpLoop op args = .ok true ↔ ∀ p ∈ neighbours args, cmpAccept op p.1 p.2 = .ok true := by
  rw [call_form_is_neighbour_conjunction, conjOut_true_iff]
  constructor
  · intro H p hp; exact H _ (List.mem_map.mpr ⟨p, hp, rfl⟩)
  · intro H x hx
    obtain ⟨p, hp, rfl⟩ := List.mem_map.mp hx
    exact H p hp

theorem cmpCall_arity (op : String) :
    cmpCall op [] = .throw ∧ (∀ a, cmpCall op [a] = .ok (.func 0)) ∧
    (∀ a b rest, cmpCall op (a :: b :: rest) = (cmpLoop op (a :: b :: rest)).map ofBool) :=
  ⟨rfl, fun _ => rfl, fun _ _ _ => rfl⟩

/-- the call form agrees with the infix chain `x₁ op x₂ op … op xₙ` -/
theorem call_eq_chain (op : String) (args : List Val) (n : Nat) (hn : args.length ≤ n + 1) :
    cmpChain (List.replicate n op) args = cmpLoop op args := by
  induction args generalizing n with
  | nil => cases n <;> rfl
  | cons a rest ih =>
    cases rest with
    | nil => cases n <;> rfl
    | cons b rest' =>
      cases n with
      | zero => simp at hn
      | succ m =>
        simp only [List.replicate_succ, cmpChain, cmpLoop]
        rw [ih m (by simp at hn ⊢; omega)]


/-! ### `<=(...xs)` and `sort(xs) == xs` -/

theorem accept_le_iff (a b : Val) : cmpAccept "<=" a b = .ok true ↔ LE pc a b := by
  simp only [cmpAccept, LE, pc]
  cases ncmp a b with
  | ok o => cases o <;> simp [Out.map]
  | throw => simp [Out.map]
  | panic => simp [Out.map]

theorem chain_pairwise {α : Type} {R : α → α → Prop} (ht : ∀ a b c, R a b → R b c → R a c) :
    ∀ (l : List α), (∀ p ∈ l.zip l.tail, R p.1 p.2) → l.Pairwise R := by
  intro l
  induction l with
  | nil => intro _; exact List.Pairwise.nil
  | cons a rest ih =>
    intro h
    cases rest with
    | nil => exact List.pairwise_singleton _ _
    | cons b rest' =>
      have hab : R a b := h (a, b) (by simp)
      have htail : ∀ p ∈ (b :: rest').zip (b :: rest').tail, R p.1 p.2 := by
        intro p hp; exact h p (by simp only [List.tail_cons, List.zip_cons_cons, List.mem_cons] at hp ⊢; exact Or.inr hp)
      have ihp := ih htail
      have hb := List.pairwise_cons.mp ihp
      refine List.pairwise_cons.mpr ⟨?_, ihp⟩
      intro z hz
      rcases List.mem_cons.mp hz with rfl | hz'
      · exact hab
      · exact ht a b z hab (hb.1 z hz')

theorem pairwise_neighbours {α : Type} {R : α → α → Prop} (l : List α) (h : l.Pairwise R) :
    ∀ p ∈ l.zip l.tail, R p.1 p.2 := by
  induction l with
  | nil => intro p hp; cases hp
  | cons a rest ih =>
    cases rest with
    | nil => intro p hp; cases hp
    | cons b rest' =>
      have hp := List.pairwise_cons.mp h
      intro p hmem
      simp only [List.tail_cons, List.zip_cons_cons, List.mem_cons] at hmem
      rcases hmem with rfl | hmem
      · exact hp.1 b (List.mem_cons_self ..)
      · exact ih hp.2 p hmem

theorem sortWith_of_sorted {α : Type} {c : α → α → Option Ordering} (l : List α) (h : l.Pairwise (LE c)) :
    sortWith c l = l := by
  induction l with
  | nil => rfl
  | cons x xs ih =>
    have hp := List.pairwise_cons.mp h
    simp only [sortWith, ih hp.2]
    cases xs with
    | nil => rfl
    | cons y ys =>
      have hxy := hp.1 y (List.mem_cons_self ..)
      have : leOf c x y = true := by
        unfold leOf; rcases hxy with h | h <;> rw [h]
      simp [sortWith.insertFront, this]

/-- on pairwise comparable operands, `<=(...xs)` is true exactly when sorting leaves `xs` as it is -/
theorem le_call_iff_sorted (xs : List Val) (hc : PwComparable pc xs) :
    cmpLoop "<=" xs = .ok true ↔ sortWith pc xs = xs := by
  rw [call_true_iff]
  constructor
  · intro h
    apply sortWith_of_sorted
    apply chain_pairwise (R := LE pc) (fun a b c hab hbc => le_of_le_of_le pc_trans hab hbc)
    intro p hp
    exact (accept_le_iff p.1 p.2).mp (h p hp)
  · intro h p hp
    have hs := sortWith_sorted_pw pc_swap pc_trans xs hc
    rw [h] at hs
    exact (accept_le_iff p.1 p.2).mpr (pairwise_neighbours xs hs p hp)

/-! ## every form that reaches an extremum agrees -/

theorem extremum_pair (bias : Ordering) (a y : Val) :
    extremum bias [a, y] = match ncmp y a with
      | .ok o => .ok (if o == bias then y else a)
      | .throw => .throw
      | .panic => .panic := by
  simp only [extremum, extremumLoop]
  cases ncmp y a <;> rfl

/-- one step of `fold max`: `max(acc, y)` -/
def extStep (bias : Ordering) (acc : Out Val) (y : Val) : Out Val := acc.bind fun a => extremum bias [a, y]

theorem extStep_ok (bias : Ordering) (a y : Val) : extStep bias (.ok a) y = match ncmp y a with
    | .ok o => .ok (if o == bias then y else a)
    | .throw => .throw
    | .panic => .panic := by
  simp only [extStep, Out.bind]; exact extremum_pair bias a y

theorem foldl_extStep_throw (bias : Ordering) (ys : List Val) : ys.foldl (extStep bias) .throw = .throw := by
  induction ys with
  | nil => rfl
  | cons z zs ih => simp only [List.foldl_cons]; exact ih
theorem foldl_extStep_panic (bias : Ordering) (ys : List Val) : ys.foldl (extStep bias) .panic = .panic := by
  induction ys with
  | nil => rfl
  | cons z zs ih => simp only [List.foldl_cons]; exact ih

theorem foldExtremum_loop (bias : Ordering) (rest : List Val) : ∀ r : Val,
    rest.foldl (extStep bias) (Out.ok r) =
      (match extremumLoop bias (some r) rest with
      | .ok (some m) => Out.ok m
      | .ok none => Out.throw
      | .throw => Out.throw
      | .panic => Out.panic) := by
  induction rest with
  | nil => intro r; rfl
  | cons y ys ih =>
    intro r
    simp only [List.foldl_cons, extStep_ok, extremumLoop]
    cases h : ncmp y r with
    | ok o => simp only; exact ih _
    | throw => simp only; exact foldl_extStep_throw bias ys
    | panic => simp only; exact foldl_extStep_panic bias ys

/-- `xs fold max`, `a max b`, `x max= y` (repeated two-operand calls) give what `max(xs)` gives —
the first of tied elements, an error on the first incomparable pair met -/
theorem foldExtremum_eq (bias : Ordering) (xs : List Val) : foldExtremum bias xs = extremum bias xs := by
  cases xs with
  | nil => rfl
  | cons x rest =>
    have : foldExtremum bias (x :: rest) = rest.foldl (extStep bias) (Out.ok x) := rfl
    rw [this, foldExtremum_loop]
    simp only [extremum, extremumLoop]
    cases extremumLoop bias (some x) rest with
    | ok r => cases r <;> rfl
    | throw => rfl
    | panic => rfl

theorem extremumByLoop_spaceship (bias : Ordering) (xs : List Val) : ∀ r : Option Val,
    extremumByLoop ncmp (cmpFn ncmp "cmp") bias r xs = extremumLoop bias r xs := by
  induction xs with
  | nil => intro r; cases r <;> rfl
  | cons b rest ih =>
    intro r
    cases r with
    | none => simp only [extremumByLoop, extremumLoop]; exact ih _
    | some r =>
      simp only [extremumByLoop, extremumLoop, byCmp_spaceship, pc]
      have np := ncmp_no_panic b r
      cases h : ncmp b r with
      | ok o => simp only; exact ih _
      | throw => rfl
      | panic => exact absurd h np

/-- `max(xs, <=>)` (comparator form) is `max(xs)` -/
theorem extremumBy_spaceship (bias : Ordering) (xs : List Val) :
    extremumBy ncmp (cmpFn ncmp "cmp") bias xs = extremum bias xs := by
  simp only [extremumBy, extremum, extremumByLoop_spaceship]
  cases h : extremumLoop bias none xs with
  | ok r => cases r <;> rfl
  | throw => rfl
  | panic =>
    exfalso
    -- the plain loop never panics
    have : ∀ (l : List Val) (r : Option Val), extremumLoop bias r l ≠ .panic := by
      intro l
      induction l with
      | nil => intro r; cases r <;> simp [extremumLoop]
      | cons b rest ih =>
        intro r
        cases r with
        | none => simp only [extremumLoop]; exact ih _
        | some r =>
          simp only [extremumLoop]
          have np := ncmp_no_panic b r
          cases h : ncmp b r with
          | ok o => simp only; exact ih _
          | throw => simp
          | panic => exact absurd h np
    exact this xs none h


/-! non-vacuity: the operands of the seeded call-form bug -/
example : cmpCall "<" [.num (.int (.small 1)), .num (.int (.small 3)), .num (.int (.small 2))] = .ok (ofBool false) → True :=
  fun _ => trivial
example : cmpLoop "<" [.num (.int (.small 1)), .num (.int (.small 3)), .num (.int (.small 2))] = .ok false := by
  decide +kernel
example : cmpLoop "!=" [.num (.int (.small 1)), .num (.int (.small 2)), .num (.int (.small 1))] = .ok true := by
  decide +kernel
example : cmpLoop "<" [.num (.int (.small 2)), .num (.int (.small 1)), .str [97]] = .ok false := by decide +kernel
example : cmpLoop "<" [.num (.int (.small 1)), .str [97], .num (.int (.small 0))] = .throw := by decide +kernel
example : (extremum .gt [.num (.int (.small 1)), .num (.int (.small 3)), .num (.int (.small 2))]).map numOf
    = .ok (some (.int (.small 3))) := by decide +kernel

end Noulith.C08
