/-
C17 (supplement) — the induction behind `freeze_preserves_first_order` (statement, side condition and
invariants: Theorems/C17Preserve.lean).  `Pres n`: at fuel `n`, each of the eight evaluator functions
that first-order code runs through gives, on the frozen code, exactly the result and state it gives on
the original code, and maintains the invariants `Post`.  `Pres.step : Pres n → Pres (n + 1)` is proved
arm by arm.
-/
import NoulithModel.Theorems.C17Preserve

namespace Noulith.C17Preserve
open Noulith Noulith.Core Noulith.C17Closed Noulith.C17Frames

/-! ### what a successful freeze says about bound sets and tables -/

variable {look : String → Option Val}

theorem fzE_bound {s s' : FState Val} {e e' : Expr} (h : freezeExpr look s e = .ok (e', s')) :
    s'.bound = afterExpr s.bound e := ((fails_iff_all look).1 s e).1 e' s' h
theorem fzL_bound {s s' : FState Val} {es es' : List Expr} (h : freezeList look s es = .ok (es', s')) :
    s'.bound = afterList s.bound es := ((fails_iff_all look).2.2.2.2.2.2 s es).1 es' s' h
theorem fzO_bound {s s' : FState Val} {o o' : Option Expr} (h : freezeOpt look s o = .ok (o', s')) :
    s'.bound = afterOpt s.bound o := ((fails_iff_all look).2.2.2.1 s o).1 o' s' h
theorem fzI_bound {s s' : FState Val} {its its' : List ForIt} (h : freezeIts look s its = .ok (its', s')) :
    s'.bound = afterIts s.bound its := ((fails_iff_all look).2.2.2.2.2.1 s its).1 its' s' h
theorem fzB_bound {s s' : FState Val} {b b' : ForBody} (h : freezeBody look s b = .ok (b', s')) :
    s'.bound = afterBody s.bound b := ((fails_iff_all look).2.2.2.2.1 s b).1 b' s' h
theorem fzA_bound {s s' : FState Val} {a a' : List SwitchArm} (h : freezeArms look s a = .ok (a', s')) :
    s'.bound = s.bound := ((fails_iff_all look).2.1 s a).1 a' s' h

theorem fzE_mono {s s' : FState Val} {e e' : Expr} (h : freezeExpr look s e = .ok (e', s')) :
    ∀ x, x ∈ s.bound → x ∈ s'.bound := (bound_mono_all look).1 s e e' s' h
theorem fzL_mono {s s' : FState Val} {es es' : List Expr} (h : freezeList look s es = .ok (es', s')) :
    ∀ x, x ∈ s.bound → x ∈ s'.bound := (bound_mono_all look).2.2.2.2.2.2 s es es' s' h
theorem fzO_mono {s s' : FState Val} {o o' : Option Expr} (h : freezeOpt look s o = .ok (o', s')) :
    ∀ x, x ∈ s.bound → x ∈ s'.bound := (bound_mono_all look).2.2.2.1 s o o' s' h
theorem fzI_mono {s s' : FState Val} {its its' : List ForIt} (h : freezeIts look s its = .ok (its', s')) :
    ∀ x, x ∈ s.bound → x ∈ s'.bound := (bound_mono_all look).2.2.2.2.2.1 s its its' s' h
theorem fzB_mono {s s' : FState Val} {b b' : ForBody} (h : freezeBody look s b = .ok (b', s')) :
    ∀ x, x ∈ s.bound → x ∈ s'.bound := (bound_mono_all look).2.2.2.2.1 s b b' s' h

theorem fzE_tab {s s' : FState Val} {e e' : Expr} (h : freezeExpr look s e = .ok (e', s')) :
    s.tab <+: s'.tab := (tab_prefix_all look).1 s e e' s' h
theorem fzL_tab {s s' : FState Val} {es es' : List Expr} (h : freezeList look s es = .ok (es', s')) :
    s.tab <+: s'.tab := (tab_prefix_all look).2.2.2.2.2.2 s es es' s' h
theorem fzO_tab {s s' : FState Val} {o o' : Option Expr} (h : freezeOpt look s o = .ok (o', s')) :
    s.tab <+: s'.tab := (tab_prefix_all look).2.2.2.1 s o o' s' h
theorem fzI_tab {s s' : FState Val} {its its' : List ForIt} (h : freezeIts look s its = .ok (its', s')) :
    s.tab <+: s'.tab := (tab_prefix_all look).2.2.2.2.2.1 s its its' s' h
theorem fzB_tab {s s' : FState Val} {b b' : ForBody} (h : freezeBody look s b = .ok (b', s')) :
    s.tab <+: s'.tab := (tab_prefix_all look).2.2.2.2.1 s b b' s' h
theorem fzA_tab {s s' : FState Val} {a a' : List SwitchArm} (h : freezeArms look s a = .ok (a', s')) :
    s.tab <+: s'.tab := (tab_prefix_all look).2.1 s a a' s' h

/-- the surely-declared names stay among the bound names -/
theorem okE_sub {s s' : FState Val} {e e' : Expr} {S S' : List String}
    (h : freezeExpr look s e = .ok (e', s')) (hok : okExpr S s.bound e = some S')
    (hS : ∀ x, x ∈ S → x ∈ s.bound) : ∀ x, x ∈ S' → x ∈ s'.bound := by
  rw [fzE_bound h]; exact ok_sub_all.1 S s.bound e S' hok hS
theorem okL_sub {s s' : FState Val} {es es' : List Expr} {S S' : List String}
    (h : freezeList look s es = .ok (es', s')) (hok : okList S s.bound es = some S')
    (hS : ∀ x, x ∈ S → x ∈ s.bound) : ∀ x, x ∈ S' → x ∈ s'.bound := by
  rw [fzL_bound h]; exact ok_sub_all.2.2.2.2.2 S s.bound es S' hok hS
theorem okI_sub {s s' : FState Val} {its its' : List ForIt} {S S' : List String}
    (h : freezeIts look s its = .ok (its', s')) (hok : okIts S s.bound its = some S')
    (hS : ∀ x, x ∈ S → x ∈ s.bound) : ∀ x, x ∈ S' → x ∈ s'.bound := by
  rw [fzI_bound h]; exact ok_sub_all.2.2.2.1 S s.bound its S' hok hS

/-! ### the statements, one per evaluator function -/

syntax "eqok" : tactic
macro_rules
  | `(tactic| eqok) => `(tactic| first | trivial | rfl)

def IsVal (r : Res) : Prop := ∃ v, r = .val v
def IsOk (r : ResL) : Prop := ∃ vs, r = .ok vs

theorem not_isVal_of_ne {r : Res} (h : ∀ v, r ≠ .val v) : ¬ IsVal r := fun ⟨v, hv⟩ => h v hv

variable (look)

def EvOK (n : Nat) : Prop :=
  ∀ (s s' : FState Val) (e e' : Expr) (S S' : List String) (st : State) (env : Nat),
    freezeExpr look s e = .ok (e', s') → okExpr S s.bound e = some S' → (∀ x, x ∈ S → x ∈ s.bound) →
    s'.tab <+: st.frozenTab → Pre look s.bound st env →
    eval n st env e' = eval n st env e ∧
      Post look S st env s'.bound S' (IsVal (eval n st env e).1) (eval n st env e).2

def ListOK (n : Nat) : Prop :=
  ∀ (s s' : FState Val) (es es' : List Expr) (S S' : List String) (st : State) (env : Nat),
    freezeList look s es = .ok (es', s') → okList S s.bound es = some S' → (∀ x, x ∈ S → x ∈ s.bound) →
    s'.tab <+: st.frozenTab → Pre look s.bound st env →
    evalList n st env es' = evalList n st env es ∧
      Post look S st env s'.bound S' (IsOk (evalList n st env es).1) (evalList n st env es).2

def SeqOK (n : Nat) : Prop :=
  ∀ (s s' : FState Val) (es es' : List Expr) (S S' : List String) (st : State) (env : Nat),
    freezeList look s es = .ok (es', s') → okList S s.bound es = some S' → (∀ x, x ∈ S → x ∈ s.bound) →
    s'.tab <+: st.frozenTab → Pre look s.bound st env →
    evalSeq n st env es' = evalSeq n st env es ∧
      Post look S st env s'.bound S' (IsVal (evalSeq n st env es).1) (evalSeq n st env es).2

def SwitchOK (n : Nat) : Prop :=
  ∀ (s s' : FState Val) (arms arms' : List SwitchArm) (S : List String) (st : State) (env : Nat) (v : Val),
    freezeArms look s arms = .ok (arms', s') → okArms S s.bound arms = true → (∀ x, x ∈ S → x ∈ s.bound) →
    s'.tab <+: st.frozenTab → Pre look s.bound st env →
    evalSwitch n st env v arms' = evalSwitch n st env v arms ∧
      Post look S st env s.bound S (IsVal (evalSwitch n st env v arms).1) (evalSwitch n st env v arms).2

def WhileOK (n : Nat) : Prop :=
  ∀ (s s2 s3 : FState Val) (c c' b b' : Expr) (S S1 S2 : List String) (st : State) (env : Nat),
    freezeExpr look s c = .ok (c', s2) → freezeExpr look s2 b = .ok (b', s3) →
    okExpr S s.bound c = some S1 → okExpr S1 s2.bound b = some S2 → (∀ x, x ∈ S → x ∈ s.bound) →
    s3.tab <+: st.frozenTab → Pre look s.bound st env →
    evalWhile n st env c' b' = evalWhile n st env c b ∧
      Post look S st env s.bound S (IsVal (evalWhile n st env c b).1) (evalWhile n st env c b).2

def ForOK (n : Nat) : Prop :=
  ∀ (s s2 s3 : FState Val) (its its' : List ForIt) (body body' : ForBody) (S S2 : List String) (st : State)
    (env : Nat) (acc : ForAcc),
    freezeIts look s its = .ok (its', s2) → freezeBody look s2 body = .ok (body', s3) →
    okIts S s.bound its = some S2 → okBody S2 s2.bound body = true → (∀ x, x ∈ S → x ∈ s.bound) →
    s3.tab <+: st.frozenTab → Pre look s.bound st env →
    evalFor n st env its' body' acc = evalFor n st env its body acc ∧
      Post look S st env (headAfter s.bound its body) S (IsVal (evalFor n st env its body acc).1)
        (evalFor n st env its body acc).2.1

def ItemsOK (n : Nat) : Prop :=
  ∀ (s s2 s3 : FState Val) (b : List String) (p : Pat) (items : List Val) (rest rest' : List ForIt)
    (body body' : ForBody) (S S2 : List String) (st : State) (env : Nat) (acc : ForAcc),
    s.bound = b ++ Pat.idents p →
    freezeIts look s rest = .ok (rest', s2) → freezeBody look s2 body = .ok (body', s3) →
    okIts (S ++ Pat.idents p) s.bound rest = some S2 → okBody S2 s2.bound body = true →
    (∀ x, x ∈ S → x ∈ b) → s3.tab <+: st.frozenTab → Pre look b st env →
    forItems n st env p items rest' body' acc = forItems n st env p items rest body acc ∧
      Post look S st env b S (IsVal (forItems n st env p items rest body acc).1)
        (forItems n st env p items rest body acc).2.1

def BodyOK (n : Nat) : Prop :=
  ∀ (s s' : FState Val) (body body' : ForBody) (S : List String) (st : State) (env : Nat) (acc : ForAcc),
    freezeBody look s body = .ok (body', s') → okBody S s.bound body = true → (∀ x, x ∈ S → x ∈ s.bound) →
    s'.tab <+: st.frozenTab → Pre look s.bound st env →
    forBody n st env body' acc = forBody n st env body acc ∧
      Post look S st env s'.bound S (IsVal (forBody n st env body acc).1) (forBody n st env body acc).2.1

structure Pres (n : Nat) : Prop where
  ev : EvOK look n
  evList : ListOK look n
  evSeq : SeqOK look n
  evSwitch : SwitchOK look n
  evWhile : WhileOK look n
  evFor : ForOK look n
  fItems : ItemsOK look n
  fBody : BodyOK look n

theorem headAfter_mono : ∀ its bd body, ∀ x ∈ bd, x ∈ headAfter bd its body := by
  intro its
  induction its with
  | nil =>
    intro bd body x hx
    simp only [headAfter]
    cases body with
    | exec e => simp only [afterBody]; exact after_mono_all.1 _ _ x hx
    | yield e into =>
      simp only [afterBody]; exact after_mono_all.2.1 _ _ x (after_mono_all.1 _ _ x hx)
    | yieldItem k v into =>
      simp only [afterBody]
      exact after_mono_all.2.1 _ _ x (after_mono_all.1 _ _ x (after_mono_all.1 _ _ x hx))
  | cons it rest ih =>
    intro bd body x hx
    cases it with
    | guard g => simp only [headAfter]; exact ih _ _ x (after_mono_all.1 _ _ x hx)
    | iter k p e => simp only [headAfter]; exact after_mono_all.1 _ _ x hx

theorem Pres.zero : Pres look 0 where
  ev := fun s s' e e' S S' st env hf hok hS _ hp =>
    ⟨by simp only [eval], by
      simp only [eval]
      exact Post.abort (Post.refl (S := S) (SOut := S) True hp (fzE_mono hf) (fun _ h => h))
        (fun ⟨v, hv⟩ => by cases hv) (fun _ h => h)⟩
  evList := fun s s' es es' S S' st env hf hok hS _ hp =>
    ⟨by simp only [evalList], by
      simp only [evalList]
      exact Post.abort (Post.refl (S := S) (SOut := S) True hp (fzL_mono hf) (fun _ h => h))
        (fun ⟨v, hv⟩ => by cases hv) (fun _ h => h)⟩
  evSeq := fun s s' es es' S S' st env hf hok hS _ hp =>
    ⟨by simp only [evalSeq], by
      simp only [evalSeq]
      exact Post.abort (Post.refl (S := S) (SOut := S) True hp (fzL_mono hf) (fun _ h => h))
        (fun ⟨v, hv⟩ => by cases hv) (fun _ h => h)⟩
  evSwitch := fun s s' arms arms' S st env v hf hok hS _ hp =>
    ⟨by simp only [evalSwitch], by
      simp only [evalSwitch]; exact Post.refl _ hp (fun _ h => h) (fun _ h => h)⟩
  evWhile := fun s s2 s3 c c' b b' S S1 S2 st env _ _ _ _ _ _ hp =>
    ⟨by simp only [evalWhile], by
      simp only [evalWhile]; exact Post.refl _ hp (fun _ h => h) (fun _ h => h)⟩
  evFor := fun s s2 s3 its its' body body' S S2 st env acc _ _ _ _ _ _ hp =>
    ⟨by simp only [evalFor], by
      simp only [evalFor]; exact Post.refl _ hp (headAfter_mono its s.bound body) (fun _ h => h)⟩
  fItems := fun s s2 s3 b p items rest rest' body body' S S2 st env acc _ _ _ _ _ _ _ hp =>
    ⟨by simp only [forItems], by
      simp only [forItems]; exact Post.refl _ hp (fun _ h => h) (fun _ h => h)⟩
  fBody := fun s s' body body' S st env acc hf _ _ _ hp =>
    ⟨by simp only [forBody], by
      simp only [forBody]; exact Post.refl _ hp (fzB_mono hf) (fun _ h => h)⟩


/-! ### leaves -/

theorem eval_ident_lookOf (n : Nat) (st : State) (env : Nat) (x : String) :
    eval (n + 1) st env (.ident x) =
      (match lookOf st env x with | some v => Res.val v | none => Res.thrown .err, st) := by
  simp only [eval, lookOf]
  cases st.lookup env x with
  | some v => rfl
  | none =>
    dsimp only
    split <;> rfl

theorem tab_get {T T' : List Val} {v : Val} (t : List Val) (h1 : t ++ [v] = T) (h2 : T <+: T') :
    T'[t.length]? = some v := by
  obtain ⟨extra, rfl⟩ := h2
  subst h1
  simp

variable {look}

theorem ev_leaf {n : Nat} {s s' : FState Val} {e e' : Expr} {S S' : List String} {st : State} {env : Nat}
    (hf : freezeExpr look s e = .ok (e', s')) (he : e' = e) (hs : s' = s) (hS : S' = S)
    (hp : Pre look s.bound st env) (hst : (eval (n + 1) st env e).2 = st) :
    eval (n + 1) st env e' = eval (n + 1) st env e ∧
      Post look S st env s'.bound S' (IsVal (eval (n + 1) st env e).1) (eval (n + 1) st env e).2 := by
  subst he hs hS
  refine ⟨rfl, ?_⟩
  rw [hst]
  exact Post.refl _ hp (fun _ h => h) (fun _ h => h)

theorem ev_ident {n : Nat} {s s' : FState Val} {x : String} {e' : Expr} {S S' : List String} {st : State}
    {env : Nat} (hf : freezeExpr look s (.ident x) = .ok (e', s')) (hok : okExpr S s.bound (.ident x) = some S')
    (htab : s'.tab <+: st.frozenTab) (hp : Pre look s.bound st env) :
    eval (n + 1) st env e' = eval (n + 1) st env (.ident x) ∧
      Post look S st env s'.bound S' (IsVal (eval (n + 1) st env (.ident x)).1)
        (eval (n + 1) st env (.ident x)).2 := by
  simp only [okExpr, Option.some.injEq] at hok
  subst hok
  have hst : (eval (n + 1) st env (.ident x)).2 = st := by
    rw [eval_ident_lookOf]
  simp only [freezeExpr] at hf
  split at hf
  · simp only [Except.ok.injEq, Prod.mk.injEq] at hf
    obtain ⟨rfl, rfl⟩ := hf
    refine ⟨rfl, ?_⟩
    rw [hst]; exact Post.refl _ hp (fun _ h => h) (fun _ h => h)
  · rename_i hnb
    split at hf
    · rename_i v hv
      simp only [Except.ok.injEq, Prod.mk.injEq] at hf
      obtain ⟨rfl, rfl⟩ := hf
      have hx : x ∉ s.bound := by simpa using hnb
      have hag := hp.agree x hx
      have hget : st.frozenTab[s.tab.length]? = some v := tab_get s.tab rfl htab
      refine ⟨?_, ?_⟩
      · rw [eval_ident_lookOf, hag, hv]
        simp only [eval, hget]
      · rw [hst]; exact Post.refl _ hp (fun _ h => h) (fun _ h => h)
    · exact absurd hf (by simp)


theorem Post.imp {look S st env b1 S1 st1} {nm nm' : Prop} (h : Post look S st env b1 S1 nm st1)
    (hi : nm' → nm) : Post look S st env b1 S1 nm' st1 :=
  ⟨h.ext, h.wf, h.agree, h.kept, fun hv => h.safe (hi hv)⟩

theorem isVal_val (v : Val) : IsVal (.val v) := ⟨v, rfl⟩
theorem not_isVal_brk (k : Nat) (v : Option Val) : ¬ IsVal (.brk k v) := fun ⟨_, h⟩ => by cases h
theorem not_isVal_cont (k : Nat) : ¬ IsVal (.cont k) := fun ⟨_, h⟩ => by cases h
theorem not_isVal_ret (v : Val) : ¬ IsVal (.ret v) := fun ⟨_, h⟩ => by cases h
theorem not_isVal_thrown (v : Val) : ¬ IsVal (.thrown v) := fun ⟨_, h⟩ => by cases h
theorem not_isVal_fuelOut : ¬ IsVal .fuelOut := fun ⟨_, h⟩ => by cases h
theorem isOk_ok (vs : List Val) : IsOk (.ok vs) := ⟨vs, rfl⟩
theorem not_isOk_stop (r : Res) : ¬ IsOk (.stop r) := fun ⟨_, h⟩ => by cases h

/-- the frozen-table hypothesis moves along with the state -/
theorem tab_step {T : List Val} {st st1 : State} (h : T <+: st.frozenTab) (hx : Ext st st1) :
    T <+: st1.frozenTab := by rw [hx.2]; exact h

theorem ev_op {n : Nat} (ih : Pres look n) {s s' : FState Val} {name : String} {a b e' : Expr}
    {S S' : List String} {st : State} {env : Nat}
    (hf : freezeExpr look s (.op name a b) = .ok (e', s')) (hok : okExpr S s.bound (.op name a b) = some S')
    (hS : ∀ x, x ∈ S → x ∈ s.bound) (htab : s'.tab <+: st.frozenTab) (hp : Pre look s.bound st env) :
    eval (n + 1) st env e' = eval (n + 1) st env (.op name a b) ∧
      Post look S st env s'.bound S' (IsVal (eval (n + 1) st env (.op name a b)).1)
        (eval (n + 1) st env (.op name a b)).2 := by
  simp only [freezeExpr] at hf
  obtain ⟨a', s1, b', ha, hb, rfl⟩ := freeze_two_inv _ _ _ _ _ (fun x y => Expr.op name x y) _ hf
  simp only [okExpr] at hok
  split at hok
  · rename_i S1 hokA
    rw [← fzE_bound ha] at hok
    obtain ⟨ea, pa⟩ := ih.ev s s1 a a' S S1 st env ha hokA hS ((fzE_tab hb).trans htab) hp
    simp only [eval, ea]
    rcases hra : eval n st env a with ⟨ra, st1⟩
    rw [hra] at pa
    cases ra with
    | val va =>
      obtain ⟨eb, pb⟩ := ih.ev s1 s' b b' S1 S' st1 env hb hok (okE_sub ha hokA hS) (tab_step htab pa.ext)
        (pa.toPre hp.lt)
      simp only [eb]
      rcases hrb : eval n st1 env b with ⟨rb, st2⟩
      rw [hrb] at pb
      have pab := Post.seq (isVal_val va) pa pb
      cases rb with
      | val vb =>
        dsimp only
        cases applyOp name va vb with
        | ok v => exact ⟨by eqok, pab.imp (fun _ => isVal_val vb)⟩
        | raise => exact ⟨by eqok, pab.imp (fun h => absurd h (not_isVal_thrown _))⟩
      | _ => exact ⟨by eqok, pab⟩
    | _ => exact ⟨by eqok, pa.abort (by first | exact not_isVal_brk _ _ | exact not_isVal_cont _ | exact not_isVal_ret _ | exact not_isVal_thrown _ | exact not_isVal_fuelOut) (fzE_mono hb)⟩
  · exact absurd hok (by simp)


syntax "notval" : tactic
macro_rules
  | `(tactic| notval) => `(tactic|
      first | exact not_isVal_brk _ _ | exact not_isVal_cont _ | exact not_isVal_ret _
            | exact not_isVal_thrown _ | exact not_isVal_fuelOut | exact not_isOk_stop _)

theorem ev_index {n : Nat} (ih : Pres look n) {s s' : FState Val} {a b e' : Expr}
    {S S' : List String} {st : State} {env : Nat}
    (hf : freezeExpr look s (.index a b) = .ok (e', s')) (hok : okExpr S s.bound (.index a b) = some S')
    (hS : ∀ x, x ∈ S → x ∈ s.bound) (htab : s'.tab <+: st.frozenTab) (hp : Pre look s.bound st env) :
    eval (n + 1) st env e' = eval (n + 1) st env (.index a b) ∧
      Post look S st env s'.bound S' (IsVal (eval (n + 1) st env (.index a b)).1)
        (eval (n + 1) st env (.index a b)).2 := by
  simp only [freezeExpr] at hf
  obtain ⟨a', s1, b', ha, hb, rfl⟩ := freeze_two_inv _ _ _ _ _ (fun x y => Expr.index x y) _ hf
  simp only [okExpr] at hok
  split at hok
  · rename_i S1 hokA
    rw [← fzE_bound ha] at hok
    obtain ⟨ea, pa⟩ := ih.ev s s1 a a' S S1 st env ha hokA hS ((fzE_tab hb).trans htab) hp
    simp only [eval, ea]
    rcases hra : eval n st env a with ⟨ra, st1⟩
    rw [hra] at pa
    cases ra with
    | val va =>
      obtain ⟨eb, pb⟩ := ih.ev s1 s' b b' S1 S' st1 env hb hok (okE_sub ha hokA hS) (tab_step htab pa.ext)
        (pa.toPre hp.lt)
      simp only [eb]
      rcases hrb : eval n st1 env b with ⟨rb, st2⟩
      rw [hrb] at pb
      have pab := Post.seq (isVal_val va) pa pb
      cases rb with
      | val vb =>
        dsimp only
        cases indexVal va vb with
        | ok v => exact ⟨by eqok, pab.imp (fun _ => isVal_val vb)⟩
        | raise => exact ⟨by eqok, pab.imp (fun h => absurd h (not_isVal_thrown _))⟩
      | _ => exact ⟨by eqok, pab⟩
    | _ => exact ⟨by eqok, pa.abort (by notval) (fzE_mono hb)⟩
  · exact absurd hok (by simp)

/-- `and` / `or` / `coalesce`: the second operand is conditional -/
theorem ev_and {n : Nat} (ih : Pres look n) {s s' : FState Val} {a b e' : Expr}
    {S S' : List String} {st : State} {env : Nat}
    (hf : freezeExpr look s (.and_ a b) = .ok (e', s')) (hok : okExpr S s.bound (.and_ a b) = some S')
    (hS : ∀ x, x ∈ S → x ∈ s.bound) (htab : s'.tab <+: st.frozenTab) (hp : Pre look s.bound st env) :
    eval (n + 1) st env e' = eval (n + 1) st env (.and_ a b) ∧
      Post look S st env s'.bound S' (IsVal (eval (n + 1) st env (.and_ a b)).1)
        (eval (n + 1) st env (.and_ a b)).2 := by
  simp only [freezeExpr] at hf
  obtain ⟨a', s1, b', ha, hb, rfl⟩ := freeze_two_inv _ _ _ _ _ (fun x y => Expr.and_ x y) _ hf
  simp only [okExpr] at hok
  split at hok
  · rename_i S1 hokA
    rw [← fzE_bound ha] at hok
    split at hok
    · rename_i S2 hokB
      simp only [Option.some.injEq] at hok
      subst hok
      obtain ⟨ea, pa⟩ := ih.ev s s1 a a' S S1 st env ha hokA hS ((fzE_tab hb).trans htab) hp
      simp only [eval, ea]
      rcases hra : eval n st env a with ⟨ra, st1⟩
      rw [hra] at pa
      cases ra with
      | val va =>
        dsimp only
        cases va.truthy with
        | false => exact ⟨by simp, (pa.weaken (fzE_mono hb) (fun _ h => h)).imp (fun _ => isVal_val va)⟩
        | true =>
          obtain ⟨eb, pb⟩ := ih.ev s1 s' b b' S1 S2 st1 env hb hokB (okE_sub ha hokA hS)
            (tab_step htab pa.ext) (pa.toPre hp.lt)
          simp only [↓reduceIte, eb]
          exact ⟨by eqok, Post.seq_keep (isVal_val va) pa pb⟩
      | _ => exact ⟨by eqok, pa.abort (by notval) (fzE_mono hb)⟩
    · exact absurd hok (by simp)
  · exact absurd hok (by simp)


theorem ev_or {n : Nat} (ih : Pres look n) {s s' : FState Val} {a b e' : Expr}
    {S S' : List String} {st : State} {env : Nat}
    (hf : freezeExpr look s (.or_ a b) = .ok (e', s')) (hok : okExpr S s.bound (.or_ a b) = some S')
    (hS : ∀ x, x ∈ S → x ∈ s.bound) (htab : s'.tab <+: st.frozenTab) (hp : Pre look s.bound st env) :
    eval (n + 1) st env e' = eval (n + 1) st env (.or_ a b) ∧
      Post look S st env s'.bound S' (IsVal (eval (n + 1) st env (.or_ a b)).1)
        (eval (n + 1) st env (.or_ a b)).2 := by
  simp only [freezeExpr] at hf
  obtain ⟨a', s1, b', ha, hb, rfl⟩ := freeze_two_inv _ _ _ _ _ (fun x y => Expr.or_ x y) _ hf
  simp only [okExpr] at hok
  split at hok
  · rename_i S1 hokA
    rw [← fzE_bound ha] at hok
    split at hok
    · rename_i S2 hokB
      simp only [Option.some.injEq] at hok
      subst hok
      obtain ⟨ea, pa⟩ := ih.ev s s1 a a' S S1 st env ha hokA hS ((fzE_tab hb).trans htab) hp
      simp only [eval, ea]
      rcases hra : eval n st env a with ⟨ra, st1⟩
      rw [hra] at pa
      cases ra with
      | val va =>
        dsimp only
        cases va.truthy with
        | true => exact ⟨by simp, (pa.weaken (fzE_mono hb) (fun _ h => h)).imp (fun _ => isVal_val va)⟩
        | false =>
          obtain ⟨eb, pb⟩ := ih.ev s1 s' b b' S1 S2 st1 env hb hokB (okE_sub ha hokA hS)
            (tab_step htab pa.ext) (pa.toPre hp.lt)
          simp only [Bool.false_eq_true, ↓reduceIte, eb]
          exact ⟨by eqok, Post.seq_keep (isVal_val va) pa pb⟩
      | _ => exact ⟨by eqok, pa.abort (by notval) (fzE_mono hb)⟩
    · exact absurd hok (by simp)
  · exact absurd hok (by simp)

theorem ev_coalesce {n : Nat} (ih : Pres look n) {s s' : FState Val} {a b e' : Expr}
    {S S' : List String} {st : State} {env : Nat}
    (hf : freezeExpr look s (.coalesce a b) = .ok (e', s')) (hok : okExpr S s.bound (.coalesce a b) = some S')
    (hS : ∀ x, x ∈ S → x ∈ s.bound) (htab : s'.tab <+: st.frozenTab) (hp : Pre look s.bound st env) :
    eval (n + 1) st env e' = eval (n + 1) st env (.coalesce a b) ∧
      Post look S st env s'.bound S' (IsVal (eval (n + 1) st env (.coalesce a b)).1)
        (eval (n + 1) st env (.coalesce a b)).2 := by
  simp only [freezeExpr] at hf
  obtain ⟨a', s1, b', ha, hb, rfl⟩ := freeze_two_inv _ _ _ _ _ (fun x y => Expr.coalesce x y) _ hf
  simp only [okExpr] at hok
  split at hok
  · rename_i S1 hokA
    rw [← fzE_bound ha] at hok
    split at hok
    · rename_i S2 hokB
      simp only [Option.some.injEq] at hok
      subst hok
      obtain ⟨ea, pa⟩ := ih.ev s s1 a a' S S1 st env ha hokA hS ((fzE_tab hb).trans htab) hp
      simp only [eval, ea]
      rcases hra : eval n st env a with ⟨ra, st1⟩
      rw [hra] at pa
      cases ra with
      | val va =>
        have hcont : ∀ (hv : va = .null), _ := fun _ =>
          ih.ev s1 s' b b' S1 S2 st1 env hb hokB (okE_sub ha hokA hS) (tab_step htab pa.ext) (pa.toPre hp.lt)
        cases va with
        | null =>
          obtain ⟨eb, pb⟩ := hcont rfl
          simp only [eb]
          exact ⟨by eqok, Post.seq_keep (isVal_val _) pa pb⟩
        | _ => exact ⟨by eqok, (pa.weaken (fzE_mono hb) (fun _ h => h))⟩
      | _ => exact ⟨by eqok, pa.abort (by notval) (fzE_mono hb)⟩
    · exact absurd hok (by simp)
  · exact absurd hok (by simp)


theorem Pre.mono {b b' : List String} {st : State} {env : Nat} (h : Pre look b st env)
    (hb : ∀ x, x ∈ b → x ∈ b') : Pre look b' st env := ⟨h.wf, h.lt, h.agree.mono hb⟩

theorem ev_ite {n : Nat} (ih : Pres look n) {s s' : FState Val} {c t : Expr} {e : Option Expr} {e' : Expr}
    {S S' : List String} {st : State} {env : Nat}
    (hf : freezeExpr look s (.ite c t e) = .ok (e', s')) (hok : okExpr S s.bound (.ite c t e) = some S')
    (hS : ∀ x, x ∈ S → x ∈ s.bound) (htab : s'.tab <+: st.frozenTab) (hp : Pre look s.bound st env) :
    eval (n + 1) st env e' = eval (n + 1) st env (.ite c t e) ∧
      Post look S st env s'.bound S' (IsVal (eval (n + 1) st env (.ite c t e)).1)
        (eval (n + 1) st env (.ite c t e)).2 := by
  simp only [freezeExpr] at hf
  split at hf
  · exact absurd hf (by simp)
  · rename_i c' s1 hc
    split at hf
    · exact absurd hf (by simp)
    · rename_i t' s2 ht
      split at hf
      · exact absurd hf (by simp)
      · rename_i eo' s3 he
        simp only [Except.ok.injEq, Prod.mk.injEq] at hf
        obtain ⟨rfl, rfl⟩ := hf
        simp only [okExpr] at hok
        split at hok
        · rename_i S1 hokC
          rw [← fzE_bound hc] at hok
          split at hok
          · rename_i St hokT
            rw [← fzE_bound ht] at hok
            split at hok
            · rename_i Se hokE
              simp only [Option.some.injEq] at hok
              subst hok
              obtain ⟨ec, pc⟩ := ih.ev s s1 c c' S S1 st env hc hokC hS
                ((fzE_tab ht).trans ((fzO_tab he).trans htab)) hp
              simp only [eval, ec]
              rcases hrc : eval n st env c with ⟨rc, st1⟩
              rw [hrc] at pc
              have hS1 := okE_sub hc hokC hS
              cases rc with
              | val vc =>
                dsimp only
                cases vc.truthy with
                | true =>
                  obtain ⟨et, pt⟩ := ih.ev s1 s2 t t' S1 St st1 env ht hokT hS1
                    (tab_step ((fzO_tab he).trans htab) pc.ext) (pc.toPre hp.lt)
                  simp only [↓reduceIte, et]
                  exact ⟨by eqok, (Post.seq_keep (isVal_val vc) pc pt).weaken (fzO_mono he) (fun _ h => h)⟩
                | false =>
                  simp only [Bool.false_eq_true, ↓reduceIte]
                  cases e with
                  | none =>
                    simp only [freezeOpt, Except.ok.injEq, Prod.mk.injEq] at he
                    obtain ⟨rfl, rfl⟩ := he
                    exact ⟨by eqok, (pc.weaken (fzE_mono ht) (fun _ h => h)).imp (fun _ => isVal_val vc)⟩
                  | some e1 =>
                    simp only [freezeOpt] at he
                    split at he
                    · exact absurd he (by simp)
                    · rename_i e1' s3' he1
                      simp only [Except.ok.injEq, Prod.mk.injEq] at he
                      obtain ⟨rfl, rfl⟩ := he
                      simp only [okOpt] at hokE
                      have pc' := pc.weaken (b2 := s2.bound) (S2 := S1) (fzE_mono ht) (fun _ h => h)
                      obtain ⟨ee, pe⟩ := ih.ev s2 s3' e1 e1' S1 Se st1 env he1 hokE
                        (fun x hx => fzE_mono ht x (hS1 x hx)) (tab_step htab pc.ext) (pc'.toPre hp.lt)
                      simp only [ee]
                      exact ⟨by eqok, Post.seq_keep (isVal_val vc) pc' pe⟩
              | _ => exact ⟨by eqok, pc.abort (by notval) (fun x hx => fzO_mono he x (fzE_mono ht x hx))⟩
            · exact absurd hok (by simp)
          · exact absurd hok (by simp)
        · exact absurd hok (by simp)


/-! ### expression lists and sequences -/

theorem freezeList_cons_inv {s s' : FState Val} {x : Expr} {xs es' : List Expr}
    (h : freezeList look s (x :: xs) = .ok (es', s')) :
    ∃ x' s1 xs', freezeExpr look s x = .ok (x', s1) ∧ freezeList look s1 xs = .ok (xs', s') ∧ es' = x' :: xs' := by
  simp only [freezeList] at h
  split at h
  · exact absurd h (by simp)
  · rename_i x' s1 hx
    split at h
    · exact absurd h (by simp)
    · rename_i xs' s2 hxs
      simp only [Except.ok.injEq, Prod.mk.injEq] at h
      obtain ⟨rfl, rfl⟩ := h
      exact ⟨x', s1, xs', hx, hxs, rfl⟩

theorem okList_cons_inv {S S' bd : List String} {x : Expr} {xs : List Expr}
    (h : okList S bd (x :: xs) = some S') :
    ∃ S1, okExpr S bd x = some S1 ∧ okList S1 (afterExpr bd x) xs = some S' := by
  simp only [okList] at h
  split at h
  · rename_i S1 h1; exact ⟨S1, h1, h⟩
  · exact absurd h (by simp)

theorem list_step {n : Nat} (ih : Pres look n) : ListOK look (n + 1) := by
  intro s s' es es' S S' st env hf hok hS htab hp
  cases es with
  | nil =>
    simp only [freezeList, Except.ok.injEq, Prod.mk.injEq] at hf
    obtain ⟨rfl, rfl⟩ := hf
    simp only [okList, Option.some.injEq] at hok
    subst hok
    simp only [evalList]
    exact ⟨by eqok, Post.refl _ hp (fun _ h => h) (fun _ h => h)⟩
  | cons x xs =>
    obtain ⟨x', s1, xs', hx, hxs, rfl⟩ := freezeList_cons_inv hf
    obtain ⟨S1, hokX, hokXs⟩ := okList_cons_inv hok
    rw [← fzE_bound hx] at hokXs
    obtain ⟨ex, px⟩ := ih.ev s s1 x x' S S1 st env hx hokX hS ((fzL_tab hxs).trans htab) hp
    simp only [evalList, ex]
    rcases hrx : eval n st env x with ⟨rx, st1⟩
    rw [hrx] at px
    cases rx with
    | val v =>
      obtain ⟨el, pl⟩ := ih.evList s1 s' xs xs' S1 S' st1 env hxs hokXs (okE_sub hx hokX hS)
        (tab_step htab px.ext) (px.toPre hp.lt)
      simp only [el]
      rcases hrl : evalList n st1 env xs with ⟨rl, st2⟩
      rw [hrl] at pl
      have pxl := Post.seq (isVal_val v) px pl
      cases rl with
      | ok vs => exact ⟨by eqok, pxl.imp (fun _ => isOk_ok vs)⟩
      | stop r => exact ⟨by eqok, pxl⟩
    | _ => exact ⟨by eqok, px.abort (by notval) (fzL_mono hxs)⟩

theorem seq_step {n : Nat} (ih : Pres look n) : SeqOK look (n + 1) := by
  intro s s' es es' S S' st env hf hok hS htab hp
  cases es with
  | nil =>
    simp only [freezeList, Except.ok.injEq, Prod.mk.injEq] at hf
    obtain ⟨rfl, rfl⟩ := hf
    simp only [okList, Option.some.injEq] at hok
    subst hok
    simp only [evalSeq]
    exact ⟨by eqok, Post.refl _ hp (fun _ h => h) (fun _ h => h)⟩
  | cons x xs =>
    obtain ⟨x', s1, xs', hx, hxs, rfl⟩ := freezeList_cons_inv hf
    obtain ⟨S1, hokX, hokXs⟩ := okList_cons_inv hok
    rw [← fzE_bound hx] at hokXs
    obtain ⟨ex, px⟩ := ih.ev s s1 x x' S S1 st env hx hokX hS ((fzL_tab hxs).trans htab) hp
    cases xs with
    | nil =>
      simp only [freezeList, Except.ok.injEq, Prod.mk.injEq] at hxs
      obtain ⟨rfl, rfl⟩ := hxs
      simp only [okList, Option.some.injEq] at hokXs
      subst hokXs
      simp only [evalSeq, ex]
      exact ⟨by eqok, px⟩
    | cons y ys =>
      obtain ⟨y', s2, ys', hy, hys, rfl⟩ := freezeList_cons_inv hxs
      have hxs' : freezeList look s1 (y :: ys) = .ok (y' :: ys', s') := hxs
      simp only [evalSeq, ex]
      rcases hrx : eval n st env x with ⟨rx, st1⟩
      rw [hrx] at px
      cases rx with
      | val v =>
        obtain ⟨el, pl⟩ := ih.evSeq s1 s' (y :: ys) (y' :: ys') S1 S' st1 env hxs' hokXs (okE_sub hx hokX hS)
          (tab_step htab px.ext) (px.toPre hp.lt)
        simp only [el]
        exact ⟨by eqok, Post.seq (isVal_val v) px pl⟩
      | _ => exact ⟨by eqok, px.abort (by notval) (fzL_mono hxs')⟩


/-! ### the effect of the store operations on the invariants -/

theorem post_write {b S : List String} {st : State} {env : Nat} {x : String} {fs : Array Frame} {nm : Prop}
    (hp : Pre look b st env) (hxS : x ∈ S) (hxb : x ∈ b) (ws : WriteStep st.frames fs env x) :
    Post look S st env b S nm { st with frames := fs } := by
  refine ⟨⟨ws.ext, rfl⟩, ws.wf, ?_, ?_, ?_⟩
  · refine hp.agree.of_same hp.wf hp.lt (by show env < fs.size; rw [ws.size]; exact hp.lt) (fun y hy => ?_)
    exact ws.other y (fun h => hy (h ▸ hxb)) _
  · intro n B _ hs y hy
    rcases hs x hxS with hB | hd
    · exact ws.other y (fun h => hy (h ▸ hB)) n
    · exact ws.above n hd n (Nat.le_refl _) y
  · intro _ n B _ hs
    exact hs.ext ⟨ws.ext, rfl⟩

theorem post_assign {b S : List String} {st : State} {env : Nat} {x : String} {v : Val} {fs : Array Frame}
    {nm : Prop} (hp : Pre look b st env) (hxS : x ∈ S) (hxb : x ∈ b)
    (h : assignVar st.frames (st.frames.size + 1) env x v = some fs) :
    Post look S st env b S nm { st with frames := fs } :=
  post_write hp hxS hxb (assignVar_step st.frames hp.wf x v _ env fs h)

theorem post_drop {b S : List String} {st : State} {env : Nat} {x : String} {fs : Array Frame}
    {nm : Prop} (hp : Pre look b st env) (hxS : x ∈ S) (hxb : x ∈ b)
    (h : dropVar st.frames (st.frames.size + 1) env x = some fs) :
    Post look S st env b S nm { st with frames := fs } :=
  post_write hp hxS hxb (dropVar_step st.frames hp.wf x _ env fs h)

/-- a pattern declaration in the current scope -/
theorem post_declare {b bOut S : List String} {st : State} {env : Nat} {p : Pat} {v : Val} {fuel : Nat}
    {nm : Prop} (hp : Pre look b st env) (hb : ∀ x, x ∈ b → x ∈ bOut)
    (hpb : ∀ x, x ∈ Pat.idents p → x ∈ bOut) (hnm : nm → (declarePat fuel st env p v).1 = true) :
    Post look S st env bOut (S ++ Pat.idents p) nm (declarePat fuel st env p v).2 := by
  obtain ⟨fstep, htab, _, hdecl⟩ := declarePat_step fuel st env p v
  have hlt' : env < (declarePat fuel st env p v).2.frames.size := by rw [fstep.size]; exact hp.lt
  refine ⟨⟨fstep.ext, htab⟩, fstep.wf hp.wf, ?_, ?_, ?_⟩
  · refine (hp.agree.mono hb).of_same hp.wf hp.lt hlt' (fun y hy => ?_)
    exact fstep.other y (fun h => hy (hpb y h)) _
  · intro n B hle _ y _
    exact fstep.below n hle y
  · intro hn n B hle hs
    exact (hs.ext ⟨fstep.ext, htab⟩).add_declared hle (hdecl (hnm hn))


/-- the surely-declared names only grow -/
theorem ok_mono_all :
    (∀ S bd e, ∀ S', okExpr S bd e = some S' → ∀ x ∈ S, x ∈ S') ∧
    (∀ (_S _bd : List String) (_arms : List SwitchArm), True) ∧
    (∀ (_S _bd : List String) (_b : ForBody), True) ∧
    (∀ S bd its, ∀ S', okIts S bd its = some S' → ∀ x ∈ S, x ∈ S') ∧
    (∀ S bd o, ∀ S', okOpt S bd o = some S' → ∀ x ∈ S, x ∈ S') ∧
    (∀ S bd es, ∀ S', okList S bd es = some S' → ∀ x ∈ S, x ∈ S') := by
  apply okExpr.mutual_induct
    (motive_1 := fun S bd e => ∀ S', okExpr S bd e = some S' → ∀ x ∈ S, x ∈ S')
    (motive_2 := fun _ _ _ => True)
    (motive_3 := fun _ _ _ => True)
    (motive_4 := fun S bd its => ∀ S', okIts S bd its = some S' → ∀ x ∈ S, x ∈ S')
    (motive_5 := fun S bd o => ∀ S', okOpt S bd o = some S' → ∀ x ∈ S, x ∈ S')
    (motive_6 := fun S bd es => ∀ S', okList S bd es = some S' → ∀ x ∈ S, x ∈ S')
  all_goals
    intros
    first
      | trivial
      | (rename_i h x hx
         simp only [okExpr, okList, okOpt, okIts, *] at h
         grind)

theorem okE_mono {S S' bd : List String} {e : Expr} (h : okExpr S bd e = some S') : ∀ x, x ∈ S → x ∈ S' :=
  ok_mono_all.1 S bd e S' h

theorem evalList_stop_not_val : ∀ (n : Nat) (st : State) (env : Nat) (es : List Expr) (r : Res) (st' : State),
    evalList n st env es = (.stop r, st') → ¬ IsVal r := by
  intro n
  induction n with
  | zero => intro st env es r st' h; simp only [evalList, Prod.mk.injEq, ResL.stop.injEq] at h; rw [← h.1]; notval
  | succ k ih =>
    intro st env es r st' h
    cases es with
    | nil => simp [evalList] at h
    | cons x xs =>
      simp only [evalList] at h
      rcases hrx : eval k st env x with ⟨rx, st1⟩
      rw [hrx] at h
      cases rx with
      | val v =>
        dsimp only at h
        rcases hrl : evalList k st1 env xs with ⟨rl, st2⟩
        rw [hrl] at h
        cases rl with
        | ok vs => simp at h
        | stop r' =>
          simp only [Prod.mk.injEq, ResL.stop.injEq] at h
          rw [← h.1]; exact ih st1 env xs r' st2 hrl
      | _ => simp only [Prod.mk.injEq, ResL.stop.injEq] at h; rw [← h.1]; notval

/-! ### more arms of `eval` -/

theorem ev_list {n : Nat} (ih : Pres look n) {s s' : FState Val} {xs : List Expr} {e' : Expr}
    {S S' : List String} {st : State} {env : Nat}
    (hf : freezeExpr look s (.list xs) = .ok (e', s')) (hok : okExpr S s.bound (.list xs) = some S')
    (hS : ∀ x, x ∈ S → x ∈ s.bound) (htab : s'.tab <+: st.frozenTab) (hp : Pre look s.bound st env) :
    eval (n + 1) st env e' = eval (n + 1) st env (.list xs) ∧
      Post look S st env s'.bound S' (IsVal (eval (n + 1) st env (.list xs)).1)
        (eval (n + 1) st env (.list xs)).2 := by
  simp only [freezeExpr] at hf
  split at hf
  · rename_i xs' s1 hxs
    simp only [Except.ok.injEq, Prod.mk.injEq] at hf
    obtain ⟨rfl, rfl⟩ := hf
    simp only [okExpr] at hok
    obtain ⟨el, pl⟩ := ih.evList s s1 xs xs' S S' st env hxs hok hS htab hp
    simp only [eval, el]
    rcases hrl : evalList n st env xs with ⟨rl, st1⟩
    rw [hrl] at pl
    cases rl with
    | ok vs => exact ⟨by eqok, pl.imp (fun _ => isOk_ok vs)⟩
    | stop r =>
      exact ⟨by eqok, pl.imp (fun h => absurd h (evalList_stop_not_val n st env xs r st1 hrl))⟩
  · exact absurd hf (by simp)

theorem ev_seq {n : Nat} (ih : Pres look n) {s s' : FState Val} {xs : List Expr} {semi : Bool} {e' : Expr}
    {S S' : List String} {st : State} {env : Nat}
    (hf : freezeExpr look s (.seq xs semi) = .ok (e', s')) (hok : okExpr S s.bound (.seq xs semi) = some S')
    (hS : ∀ x, x ∈ S → x ∈ s.bound) (htab : s'.tab <+: st.frozenTab) (hp : Pre look s.bound st env) :
    eval (n + 1) st env e' = eval (n + 1) st env (.seq xs semi) ∧
      Post look S st env s'.bound S' (IsVal (eval (n + 1) st env (.seq xs semi)).1)
        (eval (n + 1) st env (.seq xs semi)).2 := by
  simp only [freezeExpr] at hf
  split at hf
  · rename_i xs' s1 hxs
    simp only [Except.ok.injEq, Prod.mk.injEq] at hf
    obtain ⟨rfl, rfl⟩ := hf
    simp only [okExpr] at hok
    obtain ⟨el, pl⟩ := ih.evSeq s s1 xs xs' S S' st env hxs hok hS htab hp
    simp only [eval, el]
    rcases hrl : evalSeq n st env xs with ⟨rl, st1⟩
    rw [hrl] at pl
    cases rl with
    | val v => exact ⟨by eqok, pl.imp (fun _ => isVal_val v)⟩
    | _ => exact ⟨by eqok, pl⟩
  · exact absurd hf (by simp)


theorem ev_declare {n : Nat} (ih : Pres look n) {s s' : FState Val} {p : Pat} {rhs e' : Expr}
    {S S' : List String} {st : State} {env : Nat}
    (hf : freezeExpr look s (.declare p rhs) = .ok (e', s')) (hok : okExpr S s.bound (.declare p rhs) = some S')
    (hS : ∀ x, x ∈ S → x ∈ s.bound) (htab : s'.tab <+: st.frozenTab) (hp : Pre look s.bound st env) :
    eval (n + 1) st env e' = eval (n + 1) st env (.declare p rhs) ∧
      Post look S st env s'.bound S' (IsVal (eval (n + 1) st env (.declare p rhs)).1)
        (eval (n + 1) st env (.declare p rhs)).2 := by
  simp only [freezeExpr] at hf
  split at hf
  · exact absurd hf (by simp)
  · rename_i rhs' s1 hr
    simp only [Except.ok.injEq, Prod.mk.injEq] at hf
    obtain ⟨rfl, rfl⟩ := hf
    simp only [okExpr] at hok
    split at hok
    · rename_i S1 hokR
      simp only [Option.some.injEq] at hok
      subst hok
      have hp0 : Pre look ({ s with bound := s.bound ++ Pat.idents p } : FState Val).bound st env :=
        hp.mono (fun x hx => List.mem_append_left _ hx)
      obtain ⟨er, pr⟩ := ih.ev { s with bound := s.bound ++ Pat.idents p } s1 rhs rhs' S S1 st env hr hokR
        (fun x hx => List.mem_append_left _ (hS x hx)) htab hp0
      simp only [eval, er]
      rcases hrr : eval n st env rhs with ⟨rr, st1⟩
      rw [hrr] at pr
      cases rr with
      | val v =>
        dsimp only
        have hpb : ∀ x, x ∈ Pat.idents p → x ∈ s1.bound :=
          fun x hx => fzE_mono hr x (List.mem_append_right _ hx)
        rcases hd : declarePat (patDepth p + 1) st1 env p v with ⟨ok, st2⟩
        cases ok with
        | true =>
          have pd := post_declare (look := look) (S := S1) (fuel := patDepth p + 1) (v := v)
            (nm := IsVal (.val .null)) (pr.toPre hp.lt) (fun _ h => h) hpb (fun _ => by rw [hd])
          rw [hd] at pd
          exact ⟨by eqok, Post.seq (isVal_val v) pr pd⟩
        | false =>
          have pd := post_declare (look := look) (S := S1) (fuel := patDepth p + 1) (v := v)
            (nm := IsVal (.thrown .err)) (pr.toPre hp.lt) (fun _ h => h) hpb
            (fun h => absurd h (not_isVal_thrown _))
          rw [hd] at pd
          exact ⟨by eqok, Post.seq (isVal_val v) pr pd⟩
      | _ => exact ⟨by eqok, pr.abort (by notval) (fun _ h => h)⟩
    · exact absurd hok (by simp)

theorem ev_assign {n : Nat} (ih : Pres look n) {s s' : FState Val} {x : String} {rhs e' : Expr}
    {S S' : List String} {st : State} {env : Nat}
    (hf : freezeExpr look s (.assign x rhs) = .ok (e', s')) (hok : okExpr S s.bound (.assign x rhs) = some S')
    (hS : ∀ x, x ∈ S → x ∈ s.bound) (htab : s'.tab <+: st.frozenTab) (hp : Pre look s.bound st env) :
    eval (n + 1) st env e' = eval (n + 1) st env (.assign x rhs) ∧
      Post look S st env s'.bound S' (IsVal (eval (n + 1) st env (.assign x rhs)).1)
        (eval (n + 1) st env (.assign x rhs)).2 := by
  simp only [okExpr] at hok
  split at hok
  · rename_i hxS
    have hxS' : x ∈ S := by simpa using hxS
    simp only [freezeExpr] at hf
    split at hf
    · exact absurd hf (by simp)
    · split at hf
      · exact absurd hf (by simp)
      · rename_i rhs' s1 hr
        simp only [Except.ok.injEq, Prod.mk.injEq] at hf
        obtain ⟨rfl, rfl⟩ := hf
        obtain ⟨er, pr⟩ := ih.ev s s1 rhs rhs' S S' st env hr hok hS htab hp
        simp only [eval, er]
        rcases hrr : eval n st env rhs with ⟨rr, st1⟩
        rw [hrr] at pr
        cases rr with
        | val v =>
          dsimp only
          cases ha : assignVar st1.frames (st1.frames.size + 1) env x v with
          | some fs =>
            have pa := post_assign (look := look) (S := S') (nm := IsVal (.val .null)) (pr.toPre hp.lt)
              (okE_mono hok x hxS') (fzE_mono hr x (hS x hxS')) ha
            exact ⟨by eqok, Post.seq (isVal_val v) pr pa⟩
          | none => exact ⟨by eqok, pr.imp (fun h => absurd h (not_isVal_thrown _))⟩
        | _ => exact ⟨by eqok, pr⟩
  · exact absurd hok (by simp)


theorem ev_opassign {n : Nat} (ih : Pres look n) {s s' : FState Val} {x opn : String} {rhs e' : Expr}
    {S S' : List String} {st : State} {env : Nat}
    (hf : freezeExpr look s (.opassign x opn rhs) = .ok (e', s'))
    (hok : okExpr S s.bound (.opassign x opn rhs) = some S')
    (hS : ∀ x, x ∈ S → x ∈ s.bound) (htab : s'.tab <+: st.frozenTab) (hp : Pre look s.bound st env) :
    eval (n + 1) st env e' = eval (n + 1) st env (.opassign x opn rhs) ∧
      Post look S st env s'.bound S' (IsVal (eval (n + 1) st env (.opassign x opn rhs)).1)
        (eval (n + 1) st env (.opassign x opn rhs)).2 := by
  simp only [okExpr] at hok
  split at hok
  · rename_i hxS
    have hxS' : x ∈ S := by simpa using hxS
    simp only [freezeExpr] at hf
    split at hf
    · exact absurd hf (by simp)
    · split at hf
      · exact absurd hf (by simp)
      · rename_i rhs' s1 hr
        simp only [Except.ok.injEq, Prod.mk.injEq] at hf
        obtain ⟨rfl, rfl⟩ := hf
        obtain ⟨er, pr⟩ := ih.ev s s1 rhs rhs' S S' st env hr hok hS htab hp
        simp only [eval, er]
        cases st.lookup env x with
        | none =>
          exact ⟨by eqok, Post.abort (Post.refl (S := S) (SOut := S) True hp (fzE_mono hr) (fun _ h => h))
            (not_isVal_thrown _) (fun _ h => h)⟩
        | some old =>
          dsimp only
          rcases hrr : eval n st env rhs with ⟨rr, st1⟩
          rw [hrr] at pr
          cases rr with
          | val v =>
            dsimp only
            have hx1 := okE_mono hok x hxS'
            have hxb := fzE_mono hr x (hS x hxS')
            cases hdv : dropVar st1.frames (st1.frames.size + 1) env x with
            | none => exact ⟨by eqok, pr.imp (fun h => absurd h (not_isVal_thrown _))⟩
            | some fs =>
              dsimp only
              have pd := post_drop (look := look) (S := S') (nm := True) (pr.toPre hp.lt) hx1 hxb hdv
              have prd := Post.seq (isVal_val v) pr pd
              cases applyOp opn old v with
              | raise => exact ⟨by eqok, prd.imp (fun h => absurd h (not_isVal_thrown _))⟩
              | ok nv =>
                dsimp only
                cases ha : assignVar fs (fs.size + 1) env x nv with
                | none => exact ⟨by eqok, prd.imp (fun h => absurd h (not_isVal_thrown _))⟩
                | some fs2 =>
                  have pa := post_assign (look := look) (S := S') (nm := IsVal (.val .null))
                    (st := { st1 with frames := fs }) (prd.toPre hp.lt) hx1 hxb ha
                  exact ⟨by eqok, Post.seq trivial prd pa⟩
          | _ => exact ⟨by eqok, pr⟩
  · exact absurd hok (by simp)

theorem freezeOpt_some_inv {s s' : FState Val} {e : Expr} {o' : Option Expr}
    (h : freezeOpt look s (some e) = .ok (o', s')) : ∃ e', freezeExpr look s e = .ok (e', s') ∧ o' = some e' := by
  simp only [freezeOpt] at h
  split at h
  · exact absurd h (by simp)
  · rename_i e' s1 he
    simp only [Except.ok.injEq, Prod.mk.injEq] at h
    obtain ⟨rfl, rfl⟩ := h
    exact ⟨e', he, rfl⟩

theorem ev_brk {n : Nat} (ih : Pres look n) {s s' : FState Val} {k : Nat} {e : Option Expr} {e' : Expr}
    {S S' : List String} {st : State} {env : Nat}
    (hf : freezeExpr look s (.brk k e) = .ok (e', s')) (hok : okExpr S s.bound (.brk k e) = some S')
    (hS : ∀ x, x ∈ S → x ∈ s.bound) (htab : s'.tab <+: st.frozenTab) (hp : Pre look s.bound st env) :
    eval (n + 1) st env e' = eval (n + 1) st env (.brk k e) ∧
      Post look S st env s'.bound S' (IsVal (eval (n + 1) st env (.brk k e)).1)
        (eval (n + 1) st env (.brk k e)).2 := by
  simp only [freezeExpr] at hf
  split at hf
  · exact absurd hf (by simp)
  · rename_i o' s1 ho
    simp only [Except.ok.injEq, Prod.mk.injEq] at hf
    obtain ⟨rfl, rfl⟩ := hf
    simp only [okExpr] at hok
    cases e with
    | none =>
      simp only [freezeOpt, Except.ok.injEq, Prod.mk.injEq] at ho
      obtain ⟨rfl, rfl⟩ := ho
      simp only [okOpt, Option.some.injEq] at hok
      subst hok
      simp only [eval]
      exact ⟨by eqok, Post.refl _ hp (fun _ h => h) (fun _ h => h)⟩
    | some e1 =>
      obtain ⟨e1', he1, rfl⟩ := freezeOpt_some_inv ho
      simp only [okOpt] at hok
      obtain ⟨ee, pe⟩ := ih.ev s s1 e1 e1' S S' st env he1 hok hS htab hp
      simp only [eval, ee]
      rcases hre : eval n st env e1 with ⟨re, st1⟩
      rw [hre] at pe
      cases re with
      | val v => exact ⟨by eqok, pe.imp (fun h => absurd h (not_isVal_brk _ _))⟩
      | _ => exact ⟨by eqok, pe⟩

theorem ev_ret {n : Nat} (ih : Pres look n) {s s' : FState Val} {e : Option Expr} {e' : Expr}
    {S S' : List String} {st : State} {env : Nat}
    (hf : freezeExpr look s (.ret e) = .ok (e', s')) (hok : okExpr S s.bound (.ret e) = some S')
    (hS : ∀ x, x ∈ S → x ∈ s.bound) (htab : s'.tab <+: st.frozenTab) (hp : Pre look s.bound st env) :
    eval (n + 1) st env e' = eval (n + 1) st env (.ret e) ∧
      Post look S st env s'.bound S' (IsVal (eval (n + 1) st env (.ret e)).1)
        (eval (n + 1) st env (.ret e)).2 := by
  simp only [freezeExpr] at hf
  split at hf
  · exact absurd hf (by simp)
  · rename_i o' s1 ho
    simp only [Except.ok.injEq, Prod.mk.injEq] at hf
    obtain ⟨rfl, rfl⟩ := hf
    simp only [okExpr] at hok
    cases e with
    | none =>
      simp only [freezeOpt, Except.ok.injEq, Prod.mk.injEq] at ho
      obtain ⟨rfl, rfl⟩ := ho
      simp only [okOpt, Option.some.injEq] at hok
      subst hok
      simp only [eval]
      exact ⟨by eqok, Post.refl _ hp (fun _ h => h) (fun _ h => h)⟩
    | some e1 =>
      obtain ⟨e1', he1, rfl⟩ := freezeOpt_some_inv ho
      simp only [okOpt] at hok
      obtain ⟨ee, pe⟩ := ih.ev s s1 e1 e1' S S' st env he1 hok hS htab hp
      simp only [eval, ee]
      rcases hre : eval n st env e1 with ⟨re, st1⟩
      rw [hre] at pe
      cases re with
      | val v => exact ⟨by eqok, pe.imp (fun h => absurd h (not_isVal_ret _))⟩
      | _ => exact ⟨by eqok, pe⟩

theorem ev_throw {n : Nat} (ih : Pres look n) {s s' : FState Val} {e e' : Expr}
    {S S' : List String} {st : State} {env : Nat}
    (hf : freezeExpr look s (.throw_ e) = .ok (e', s')) (hok : okExpr S s.bound (.throw_ e) = some S')
    (hS : ∀ x, x ∈ S → x ∈ s.bound) (htab : s'.tab <+: st.frozenTab) (hp : Pre look s.bound st env) :
    eval (n + 1) st env e' = eval (n + 1) st env (.throw_ e) ∧
      Post look S st env s'.bound S' (IsVal (eval (n + 1) st env (.throw_ e)).1)
        (eval (n + 1) st env (.throw_ e)).2 := by
  simp only [freezeExpr] at hf
  split at hf
  · exact absurd hf (by simp)
  · rename_i e1' s1 he1
    simp only [Except.ok.injEq, Prod.mk.injEq] at hf
    obtain ⟨rfl, rfl⟩ := hf
    simp only [okExpr] at hok
    obtain ⟨ee, pe⟩ := ih.ev s s1 e e1' S S' st env he1 hok hS htab hp
    simp only [eval, ee]
    rcases hre : eval n st env e with ⟨re, st1⟩
    rw [hre] at pe
    cases re with
    | val v => exact ⟨by eqok, pe.imp (fun h => absurd h (not_isVal_thrown _))⟩
    | _ => exact ⟨by eqok, pe⟩


/-! ### calls of builtins -/

/-- no builtin of the vocabulary touches the frames or the table of frozen values (only `print` changes
the state at all: the output) -/
theorem callVal_builtin_frames (fuel : Nat) (st : State) (env : Nat) (nm : String) (args : List Val) :
    (callVal fuel st env (.builtin nm) args).2.frames = st.frames ∧
    (callVal fuel st env (.builtin nm) args).2.frozenTab = st.frozenTab := by
  cases fuel with
  | zero => simp only [callVal]; exact ⟨by eqok, by eqok⟩
  | succ k =>
    rw [callVal.eq_def]
    simp only []
    split
    · rename_i h; exact absurd h (by simp)
    all_goals first
      | exact ⟨rfl, rfl⟩
      | (split <;> first | exact ⟨rfl, rfl⟩ | (split <;> first | exact ⟨rfl, rfl⟩ | (split <;> exact ⟨rfl, rfl⟩)))

/-- the names of builtins denote the builtins in the scope the freeze happens in (none is shadowed) -/
def HBuiltins (look : String → Option Val) : Prop := ∀ f, f ∈ builtinNames → look f = some (.builtin f)

theorem eval_builtin_ident {n : Nat} {b : List String} {st : State} {env : Nat} {g : String}
    (hB : HBuiltins look) (hp : Pre look b st env) (hg : g ∈ builtinNames) (hgb : g ∉ b) :
    eval n st env (.ident g) = (.fuelOut, st) ∨ eval n st env (.ident g) = (.val (.builtin g), st) := by
  cases n with
  | zero => left; simp only [eval]
  | succ k => right; rw [eval_ident_lookOf, hp.agree g hgb, hB g hg]

theorem ev_call {n : Nat} (ih : Pres look n) (hB : HBuiltins look) {s s' : FState Val} {f : Expr}
    {args : List Expr} {e' : Expr} {S S' : List String} {st : State} {env : Nat}
    (hf : freezeExpr look s (.call f args) = .ok (e', s')) (hok : okExpr S s.bound (.call f args) = some S')
    (hS : ∀ x, x ∈ S → x ∈ s.bound) (htab : s'.tab <+: st.frozenTab) (hp : Pre look s.bound st env) :
    eval (n + 1) st env e' = eval (n + 1) st env (.call f args) ∧
      Post look S st env s'.bound S' (IsVal (eval (n + 1) st env (.call f args)).1)
        (eval (n + 1) st env (.call f args)).2 := by
  cases f with
  | ident g =>
    simp only [okExpr] at hok
    split at hok
    · rename_i hcond
      simp only [Bool.and_eq_true, Bool.not_eq_true', List.contains_eq_mem, decide_eq_true_eq,
        decide_eq_false_iff_not] at hcond
      obtain ⟨hg, hgb⟩ := hcond
      simp only [freezeExpr] at hf
      split at hf
      · exact absurd hf (by simp)
      · rename_i f' s1 hfz
        split at hf
        · exact absurd hf (by simp)
        · rename_i args' s2 hargs
          simp only [Except.ok.injEq, Prod.mk.injEq] at hf
          obtain ⟨rfl, rfl⟩ := hf
          have hokF : okExpr S s.bound (.ident g) = some S := by simp only [okExpr]
          have hfz' : freezeExpr look s (.ident g) = .ok (f', s1) := by simp only [freezeExpr]; exact hfz
          obtain ⟨ef, pf⟩ := ih.ev s s1 (.ident g) f' S S st env hfz' hokF hS ((fzL_tab hargs).trans htab) hp
          have hb1 : s1.bound = s.bound := by rw [fzE_bound hfz']; simp only [afterExpr]
          rw [← hb1] at hok
          simp only [eval, ef]
          rcases eval_builtin_ident (n := n) hB hp hg hgb with h0 | h1
          · rw [h0]
            exact ⟨by eqok, Post.abort (Post.refl (S := S) (SOut := S) True hp
              (fun x hx => fzL_mono hargs x (fzE_mono hfz' x hx)) (fun _ h => h)) not_isVal_fuelOut (fun _ h => h)⟩
          · rw [h1] at pf ⊢
            dsimp only
            obtain ⟨el, pl⟩ := ih.evList s1 s2 args args' S S' st env hargs hok
              (fun x hx => fzE_mono hfz' x (hS x hx)) htab (pf.toPre hp.lt)
            simp only [el]
            rcases hrl : evalList n st env args with ⟨rl, st1⟩
            rw [hrl] at pl
            cases rl with
            | ok vs =>
              dsimp only
              obtain ⟨hfr, htb⟩ := callVal_builtin_frames n st1 env g vs
              have hp1 : Pre look s2.bound st1 env := (Post.seq (isVal_val _) pf pl).toPre hp.lt
              have pc : Post look S' st1 env s2.bound S' (IsVal (callVal n st1 env (.builtin g) vs).1)
                  (callVal n st1 env (.builtin g) vs).2 :=
                Post.of_frames_eq _ hp1 hfr htb (fun _ h => h) (fun _ h => h)
              exact ⟨by eqok, Post.seq (isOk_ok vs) (Post.seq (isVal_val _) pf pl) pc⟩
            | stop r =>
              exact ⟨by eqok, (Post.seq (isVal_val _) pf pl).imp
                (fun h => absurd h (evalList_stop_not_val n st env args r st1 hrl))⟩
    · exact absurd hok (by simp)
  | _ => simp [okExpr] at hok


/-! ### entering and leaving a fresh scope (`while` iteration, `for` binding, `catch`, `switch` arm) -/

theorem newFrame_frames (st : State) (env : Nat) :
    (newFrame st env).1.frames = st.frames.push { vars := [], parent := some env } ∧
    (newFrame st env).2 = st.frames.size ∧ (newFrame st env).1.frozenTab = st.frozenTab := ⟨rfl, rfl, rfl⟩

theorem onChain_new {st : State} {env i : Nat} (h : OnChain st.frames env i) :
    OnChain (newFrame st env).1.frames (newFrame st env).2 i := by
  have hx : ExtF st.frames (newFrame st env).1.frames := push_extF _ _
  refine .up (fr := { vars := [], parent := some env }) ?_ rfl (h.ext hx)
  simp [newFrame]

theorem lookOf_congr2 {st st' : State} {env env' : Nat} {x : String}
    (h : st'.lookup env' x = st.lookup env x) : lookOf st' env' x = lookOf st env x := by
  simp only [lookOf, h]

/-- the state in the fresh scope, after the binding pattern (names `N`) was declared there -/
theorem pre_clone {b bI N : List String} {st st1 : State} {env : Nat}
    (hp : Pre look b st env)
    (hfs : FrameStep (newFrame st env).1.frames st1.frames (newFrame st env).2 N)
    (hb : ∀ x, x ∈ b → x ∈ bI) (hN : ∀ x, x ∈ N → x ∈ bI) : Pre look bI st1 (newFrame st env).2 := by
  have hwfN : WFf (newFrame st env).1.frames := push_wf st.frames hp.wf [] env hp.lt []
  have hltN : (newFrame st env).2 < (newFrame st env).1.frames.size := by simp [newFrame]
  refine ⟨hfs.wf hwfN, by rw [hfs.size]; exact hltN, fun x hx => ?_⟩
  have hxb : x ∉ b := fun h => hx (hb x h)
  have hxN : x ∉ N := fun h => hx (hN x h)
  rw [← hp.agree x hxb]
  apply lookOf_congr2
  unfold State.lookup
  have e1 := lookup_congr x (newFrame st env).1.frames st1.frames hwfN (newFrame st env).2
    ((newFrame st env).1.frames.size + 1) (st1.frames.size + 1) (by omega) (by rw [hfs.size]; omega)
    (hfs.other x hxN _)
  rw [e1]
  exact lookup_new_frame x st.frames hp.wf env hp.lt (st.frames.size + 1) _ (by have := hp.lt; omega)
    (by simp [newFrame]; omega)

theorem post_clone {b S SI bI SO N N' : List String} {st st1 st2 : State} {env : Nat} {nmI nm : Prop}
    (hp : Pre look b st env) (hS : ∀ x, x ∈ S → x ∈ b)
    (hfs : FrameStep (newFrame st env).1.frames st1.frames (newFrame st env).2 N)
    (htab1 : st1.frozenTab = st.frozenTab)
    (hd : DeclaredIn st1.frames (newFrame st env).2 N')
    (hSI : ∀ x, x ∈ SI → x ∈ S ∨ x ∈ N')
    (inner : Post look SI st1 (newFrame st env).2 bI SO nmI st2) :
    Post look S st env b S nm st2 := by
  have hxN : ExtF st.frames (newFrame st env).1.frames := push_extF _ _
  have hx1 : Ext st st1 := ⟨hxN.trans hfs.ext, htab1⟩
  have hee : (newFrame st env).2 = st.frames.size := rfl
  -- the surely-declared names of the inner scope are safe for every threshold the outer ones are safe for,
  -- and for the new threshold `st.frames.size` with `B = b`
  have hsafeI : ∀ n B, n ≤ (newFrame st env).2 → (∀ x, x ∈ S → x ∈ B ∨ DeclAbove st.frames env n x) →
      SafeFor SI st1 (newFrame st env).2 n B := by
    intro n B hle hs x hx
    rcases hSI x hx with hxS | hxN'
    · rcases hs x hxS with hB | hda
      · exact Or.inl hB
      · right
        obtain ⟨i, fr, hc, hni, hfr, hdx⟩ := hda
        have : DeclAbove (newFrame st env).1.frames (newFrame st env).2 n x := by
          obtain ⟨fr', hfr', _, hn'⟩ := hxN.2 _ _ hfr
          exact ⟨i, fr', onChain_new hc, hni, hfr', hn' x hdx⟩
        exact this.ext hfs.ext
    · obtain ⟨fr, hfr, hdx⟩ := hd x hxN'
      exact Or.inr ⟨_, fr, .here _, hle, hfr, hdx⟩
  have hkeep0 : ∀ n, n ≤ st.frames.size → ∀ y, SameAt y n st.frames st1.frames := fun n hn y =>
    (push_sameAt y st.frames _ n hn).trans (hfs.below n (by rw [hee]; exact hn) y)
  refine ⟨hx1.trans inner.ext, inner.wf, ?_, ?_, fun _ n B _ hs => hs.ext (hx1.trans inner.ext)⟩
  · -- `Agree` for the outer scope: its frames are older than the new one and unchanged outside `b`
    have hk := inner.kept st.frames.size b (Nat.le_refl _) (hsafeI _ b (Nat.le_refl _) (fun x hx => Or.inl (hS x hx)))
    refine hp.agree.of_same hp.wf hp.lt (Nat.lt_of_lt_of_le hp.lt (hx1.trans inner.ext).1.1) (fun y hy => ?_)
    exact ((hkeep0 _ (Nat.le_refl _) y).trans (hk y hy)).mono hp.lt
  · intro n B hle hs y hy
    have hle' : n ≤ st.frames.size := Nat.le_trans hle (Nat.le_of_lt hp.lt)
    exact (hkeep0 n hle' y).trans (inner.kept n B hle' (hsafeI n B hle' hs) y hy)


/-- composition after a step of any outcome, restarting from the same surely-declared names -/
theorem Post.seq_ext {S st env b1 S1 st1 b2 S2 st2} {nm1 nm2 : Prop}
    (h1 : Post look S st env b1 S1 nm1 st1) (h2 : Post look S st1 env b2 S2 nm2 st2) :
    Post look S st env b2 S2 nm2 st2 :=
  ⟨h1.ext.trans h2.ext, h2.wf, h2.agree,
   fun n B hle hs => (h1.kept n B hle hs).trans (h2.kept n B hle (hs.ext h1.ext)),
   fun hv n B hle hs => h2.safe hv n B hle (hs.ext h1.ext)⟩

theorem declaredIn_nil (fs : Array Frame) (env : Nat) : DeclaredIn fs env [] :=
  fun _ h => absurd h (by simp)

/-- run `c` (frozen: `c'`) in a fresh child scope of `env` in which pattern `p` was bound to `v`: what
`catch`, a `switch` arm and a `for` binding do -/
theorem clone_body {n : Nat} (ih : Pres look n) {s2 s3 : FState Val} {b S Sc : List String} {p : Pat} {v : Val}
    {c c' : Expr} {st : State} {env : Nat} {nm : Prop}
    (hp : Pre look b st env) (hS : ∀ x, x ∈ S → x ∈ b) (hs2 : s2.bound = b ++ Pat.idents p)
    (hc : freezeExpr look s2 c = .ok (c', s3)) (hokC : okExpr (S ++ Pat.idents p) s2.bound c = some Sc)
    (htab : s3.tab <+: st.frozenTab) (st2 : State)
    (hd : declarePat (patDepth p + 1) (newFrame st env).1 (newFrame st env).2 p v = (true, st2)) :
    eval n st2 (newFrame st env).2 c' = eval n st2 (newFrame st env).2 c ∧
      Post look S st env b S nm (eval n st2 (newFrame st env).2 c).2 := by
  have hstep := declarePat_step (patDepth p + 1) (newFrame st env).1 (newFrame st env).2 p v
  rw [hd] at hstep
  obtain ⟨hfs, htab1, _, hdecl⟩ := hstep
  have hpI : Pre look s2.bound st2 (newFrame st env).2 := by
    rw [hs2]
    exact pre_clone hp hfs (fun x hx => List.mem_append_left _ hx) (fun x hx => List.mem_append_right _ hx)
  have hSI : ∀ x, x ∈ S ++ Pat.idents p → x ∈ s2.bound := by
    intro x hx; rw [hs2]
    rcases List.mem_append.mp hx with h | h
    · exact List.mem_append_left _ (hS x h)
    · exact List.mem_append_right _ h
  obtain ⟨ec, pc⟩ := ih.ev s2 s3 c c' (S ++ Pat.idents p) Sc st2 (newFrame st env).2 hc hokC hSI
    (by rw [htab1]; exact htab) hpI
  exact ⟨ec, post_clone hp hS hfs htab1 (hdecl rfl) (fun x hx => List.mem_append.mp hx) pc⟩

/-- …and when the pattern does not match: nothing but the (now unreachable) fresh scope was touched -/
theorem clone_fail {b S : List String} {p : Pat} {v : Val} {st : State} {env : Nat} {nm : Prop}
    (hp : Pre look b st env) (hS : ∀ x, x ∈ S → x ∈ b) (st2 : State)
    (hd : declarePat (patDepth p + 1) (newFrame st env).1 (newFrame st env).2 p v = (false, st2)) :
    Post look S st env b S nm st2 := by
  have hstep := declarePat_step (patDepth p + 1) (newFrame st env).1 (newFrame st env).2 p v
  rw [hd] at hstep
  obtain ⟨hfs, htab1, _, _⟩ := hstep
  have hpI : Pre look (b ++ Pat.idents p) st2 (newFrame st env).2 :=
    pre_clone hp hfs (fun x hx => List.mem_append_left _ hx) (fun x hx => List.mem_append_right _ hx)
  exact post_clone (SI := S) (N' := []) hp hS hfs htab1 (declaredIn_nil _ _) (fun x hx => Or.inl hx)
    (Post.refl (SOut := S) True hpI (fun _ h => h) (fun _ h => h))

theorem ev_try {n : Nat} (ih : Pres look n) {s s' : FState Val} {b c e' : Expr} {p : Pat}
    {S S' : List String} {st : State} {env : Nat}
    (hf : freezeExpr look s (.try_ b p c) = .ok (e', s')) (hok : okExpr S s.bound (.try_ b p c) = some S')
    (hS : ∀ x, x ∈ S → x ∈ s.bound) (htab : s'.tab <+: st.frozenTab) (hp : Pre look s.bound st env) :
    eval (n + 1) st env e' = eval (n + 1) st env (.try_ b p c) ∧
      Post look S st env s'.bound S' (IsVal (eval (n + 1) st env (.try_ b p c)).1)
        (eval (n + 1) st env (.try_ b p c)).2 := by
  simp only [freezeExpr] at hf
  split at hf
  · exact absurd hf (by simp)
  · rename_i b' s1 hb
    split at hf
    · exact absurd hf (by simp)
    · rename_i c' s3 hc
      simp only [Except.ok.injEq, Prod.mk.injEq] at hf
      obtain ⟨rfl, rfl⟩ := hf
      simp only [okExpr] at hok
      split at hok
      · rename_i Sb hokB
        rw [← fzE_bound hb] at hok
        split at hok
        · rename_i Sc hokC
          simp only [Option.some.injEq] at hok
          subst hok
          have htab3 : s3.tab <+: st.frozenTab := htab
          obtain ⟨eb, pb⟩ := ih.ev s s1 b b' S Sb st env hb hokB hS ((fzE_tab hc).trans htab3) hp
          simp only [eval, eb]
          rcases hrb : eval n st env b with ⟨rb, st1⟩
          rw [hrb] at pb
          cases rb with
          | thrown v =>
            dsimp only
            have hp1 := pb.toPre hp.lt
            have hS1 : ∀ x, x ∈ S → x ∈ s1.bound := fun x hx => fzE_mono hb x (hS x hx)
            rcases hd : declarePat (patDepth p + 1) (newFrame st1 env).1 (newFrame st1 env).2 p v with ⟨ok, st2⟩
            cases ok with
            | true =>
              obtain ⟨ec, pc⟩ := clone_body (nm := IsVal (eval n st2 (newFrame st1 env).2 c).1) ih hp1 hS1
                (s2 := { s1 with bound := s1.bound ++ Pat.idents p }) rfl hc hokC (tab_step htab3 pb.ext) st2 hd
              simp only [ec]
              exact ⟨by eqok, Post.seq_ext pb pc⟩
            | false =>
              exact ⟨by eqok, Post.seq_ext pb (clone_fail hp1 hS1 st2 hd)⟩
          | _ => exact ⟨by eqok, pb.keepS (fun _ h => h)⟩
        · exact absurd hok (by simp)
      · exact absurd hok (by simp)


theorem switch_step {n : Nat} (ih : Pres look n) : SwitchOK look (n + 1) := by
  intro s s' arms arms' S st env v hf hok hS htab hp
  cases arms with
  | nil =>
    simp only [freezeArms, Except.ok.injEq, Prod.mk.injEq] at hf
    obtain ⟨rfl, rfl⟩ := hf
    simp only [evalSwitch]
    exact ⟨by eqok, Post.refl _ hp (fun _ h => h) (fun _ h => h)⟩
  | cons a rest =>
    obtain ⟨p, body⟩ := a
    simp only [freezeArms] at hf
    split at hf
    · exact absurd hf (by simp)
    · rename_i body' s2 hbody
      split at hf
      · exact absurd hf (by simp)
      · rename_i rest' s3 hrest
        simp only [Except.ok.injEq, Prod.mk.injEq] at hf
        obtain ⟨rfl, rfl⟩ := hf
        simp only [okArms, Bool.and_eq_true, Option.isSome_iff_exists] at hok
        obtain ⟨⟨Sb, hokB⟩, hokR⟩ := hok
        have htab2 : s2.tab <+: st.frozenTab := (fzA_tab hrest).trans htab
        simp only [evalSwitch]
        rcases hd : declarePat (patDepth p + 1) (newFrame st env).1 (newFrame st env).2 p v with ⟨ok, st2⟩
        cases ok with
        | true =>
          obtain ⟨ec, pc⟩ := clone_body (nm := IsVal (eval n st2 (newFrame st env).2 body).1) ih hp hS
            (s2 := { s with bound := s.bound ++ Pat.idents p }) rfl hbody hokB htab2 st2 hd
          simp only [ec]
          exact ⟨by eqok, pc⟩
        | false =>
          have pf := clone_fail (look := look) (nm := True) hp hS st2 hd
          obtain ⟨er, pr⟩ := ih.evSwitch { s with tab := s2.tab } s3 rest rest' S st2 env v hrest hokR hS
            (tab_step htab pf.ext) (pf.toPre hp.lt)
          simp only [er]
          exact ⟨by eqok, Post.seq_ext pf pr⟩

theorem ev_switch {n : Nat} (ih : Pres look n) {s s' : FState Val} {sc e' : Expr} {arms : List SwitchArm}
    {S S' : List String} {st : State} {env : Nat}
    (hf : freezeExpr look s (.switch_ sc arms) = .ok (e', s')) (hok : okExpr S s.bound (.switch_ sc arms) = some S')
    (hS : ∀ x, x ∈ S → x ∈ s.bound) (htab : s'.tab <+: st.frozenTab) (hp : Pre look s.bound st env) :
    eval (n + 1) st env e' = eval (n + 1) st env (.switch_ sc arms) ∧
      Post look S st env s'.bound S' (IsVal (eval (n + 1) st env (.switch_ sc arms)).1)
        (eval (n + 1) st env (.switch_ sc arms)).2 := by
  simp only [freezeExpr] at hf
  split at hf
  · exact absurd hf (by simp)
  · rename_i sc' s1 hsc
    split at hf
    · exact absurd hf (by simp)
    · rename_i arms' s2 harms
      simp only [Except.ok.injEq, Prod.mk.injEq] at hf
      obtain ⟨rfl, rfl⟩ := hf
      simp only [okExpr] at hok
      split at hok
      · rename_i S1 hokS
        rw [← fzE_bound hsc] at hok
        split at hok
        · rename_i hokA
          simp only [Option.some.injEq] at hok
          subst hok
          have htab2 : s2.tab <+: st.frozenTab := htab
          obtain ⟨es, ps⟩ := ih.ev s s1 sc sc' S S1 st env hsc hokS hS ((fzA_tab harms).trans htab2) hp
          simp only [eval, es]
          rcases hrs : eval n st env sc with ⟨rs, st1⟩
          rw [hrs] at ps
          cases rs with
          | val v =>
            obtain ⟨ea, pa⟩ := ih.evSwitch s1 s2 arms arms' S1 st1 env v harms hokA (okE_sub hsc hokS hS)
              (tab_step htab2 ps.ext) (ps.toPre hp.lt)
            simp only [ea]
            exact ⟨by eqok, Post.seq (isVal_val v) ps pa⟩
          | _ => exact ⟨by eqok, ps.abort (by notval) (fun _ h => h)⟩
        · exact absurd hok (by simp)
      · exact absurd hok (by simp)


theorem while_step {n : Nat} (ih : Pres look n) : WhileOK look (n + 1) := by
  intro s s2 s3 c c' b b' S S1 S2 st env hc hb hokC hokB hS htab hp
  have hfs : FrameStep (newFrame st env).1.frames (newFrame st env).1.frames (newFrame st env).2 [] :=
    FrameStep.refl _ _ _
  have hpI : Pre look s.bound (newFrame st env).1 (newFrame st env).2 :=
    pre_clone hp hfs (fun _ h => h) (fun x hx => absurd hx (by simp))
  -- leaving the iteration's scope, whatever happened inside
  have hexit : ∀ {SO bI : List String} {nmI : Prop} {st2 : State} (nm : Prop),
      Post look S (newFrame st env).1 (newFrame st env).2 bI SO nmI st2 → Post look S st env s.bound S nm st2 :=
    fun nm inner => post_clone (SI := S) (N' := []) hp hS hfs rfl (declaredIn_nil _ _) (fun x hx => Or.inl hx) inner
  obtain ⟨ec, pc⟩ := ih.ev s s2 c c' S S1 (newFrame st env).1 (newFrame st env).2 hc hokC hS
    ((fzE_tab hb).trans htab) hpI
  simp only [evalWhile, ec]
  rcases hrc : eval n (newFrame st env).1 (newFrame st env).2 c with ⟨rc, st1⟩
  rw [hrc] at pc
  cases rc with
  | val vc =>
    dsimp only
    cases vc.truthy with
    | false => exact ⟨by eqok, hexit _ pc⟩
    | true =>
      obtain ⟨eb, pb⟩ := ih.ev s2 s3 b b' S1 S2 st1 (newFrame st env).2 hb hokB (okE_sub hc hokC hS)
        (tab_step (st := (newFrame st env).1) htab pc.ext) (pc.toPre hpI.lt)
      simp only [Bool.not_true, Bool.false_eq_true, ↓reduceIte, eb]
      rcases hrb : eval n st1 (newFrame st env).2 b with ⟨rb, st2⟩
      rw [hrb] at pb
      have pcb := Post.seq (isVal_val vc) pc pb
      have pout : Post look S st env s.bound S True st2 := hexit True pcb
      have hrec := ih.evWhile s s2 s3 c c' b b' S S1 S2 st2 env hc hb hokC hokB hS
        (tab_step htab pout.ext) (pout.toPre hp.lt)
      cases rb with
      | val v =>
        obtain ⟨er, pr⟩ := hrec
        simp only [er]
        exact ⟨by eqok, Post.seq_ext pout pr⟩
      | brk k v =>
        cases k with
        | zero => exact ⟨by eqok, hexit _ pcb⟩
        | succ k => exact ⟨by eqok, hexit _ pcb⟩
      | cont k =>
        cases k with
        | zero =>
          obtain ⟨er, pr⟩ := hrec
          simp only [er]
          exact ⟨by eqok, Post.seq_ext pout pr⟩
        | succ k => exact ⟨by eqok, hexit _ pcb⟩
      | _ => exact ⟨by eqok, hexit _ pcb⟩
  | _ => exact ⟨by eqok, hexit _ pc⟩

theorem ev_while {n : Nat} (ih : Pres look n) {s s' : FState Val} {c b e' : Expr}
    {S S' : List String} {st : State} {env : Nat}
    (hf : freezeExpr look s (.while_ c b) = .ok (e', s')) (hok : okExpr S s.bound (.while_ c b) = some S')
    (hS : ∀ x, x ∈ S → x ∈ s.bound) (htab : s'.tab <+: st.frozenTab) (hp : Pre look s.bound st env) :
    eval (n + 1) st env e' = eval (n + 1) st env (.while_ c b) ∧
      Post look S st env s'.bound S' (IsVal (eval (n + 1) st env (.while_ c b)).1)
        (eval (n + 1) st env (.while_ c b)).2 := by
  simp only [freezeExpr] at hf
  split at hf
  · exact absurd hf (by simp)
  · rename_i c' s2 hc
    split at hf
    · exact absurd hf (by simp)
    · rename_i b' s3 hb
      simp only [Except.ok.injEq, Prod.mk.injEq] at hf
      obtain ⟨rfl, rfl⟩ := hf
      simp only [okExpr] at hok
      split at hok
      · rename_i S1 hokC
        rw [← fzE_bound hc] at hok
        split at hok
        · rename_i S2 hokB
          simp only [Option.some.injEq] at hok
          subst hok
          obtain ⟨ew, pw⟩ := ih.evWhile s s2 s3 c c' b b' S S1 S2 st env hc hb hokC hokB hS htab hp
          simp only [eval, ew]
          exact ⟨by eqok, pw⟩
        · exact absurd hok (by simp)
      · exact absurd hok (by simp)


/-! ### `for` -/

theorem body_step {n : Nat} (ih : Pres look n) : BodyOK look (n + 1) := by
  intro s s' body body' S st env acc hf hok hS htab hp
  cases body with
  | exec e =>
    simp only [freezeBody] at hf
    split at hf
    · exact absurd hf (by simp)
    · rename_i e' s1 he
      simp only [Except.ok.injEq, Prod.mk.injEq] at hf
      obtain ⟨rfl, rfl⟩ := hf
      simp only [okBody, Option.isSome_iff_exists] at hok
      obtain ⟨Se, hokE⟩ := hok
      obtain ⟨ee, pe⟩ := ih.ev s s1 e e' S Se st env he hokE hS htab hp
      simp only [forBody, ee]
      rcases hre : eval n st env e with ⟨re, st1⟩
      rw [hre] at pe
      cases re <;> exact ⟨by eqok, pe.keepS (fun _ h => h)⟩
  | yield e into =>
    simp only [freezeBody] at hf
    split at hf
    · exact absurd hf (by simp)
    · rename_i e' s1 he
      split at hf
      · exact absurd hf (by simp)
      · rename_i into' s2 hi
        simp only [Except.ok.injEq, Prod.mk.injEq] at hf
        obtain ⟨rfl, rfl⟩ := hf
        simp only [okBody, Bool.and_eq_true, Option.isSome_iff_exists] at hok
        obtain ⟨⟨Se, hokE⟩, _⟩ := hok
        obtain ⟨ee, pe⟩ := ih.ev s s1 e e' S Se st env he hokE hS ((fzO_tab hi).trans htab) hp
        simp only [forBody, ee]
        rcases hre : eval n st env e with ⟨re, st1⟩
        rw [hre] at pe
        have pk : ∀ nm, Post look S st env s2.bound S nm st1 := fun nm => pe.keepS (fzO_mono hi)
        cases re with
        | val v =>
          dsimp only
          cases acc.cata.give v <;> exact ⟨by eqok, pk _⟩
        | _ => exact ⟨by eqok, pk _⟩
  | yieldItem k v into =>
    simp only [freezeBody] at hf
    split at hf
    · exact absurd hf (by simp)
    · rename_i k' s1 hk
      split at hf
      · exact absurd hf (by simp)
      · rename_i v' s2 hv
        split at hf
        · exact absurd hf (by simp)
        · rename_i into' s3 hi
          simp only [Except.ok.injEq, Prod.mk.injEq] at hf
          obtain ⟨rfl, rfl⟩ := hf
          simp only [okBody] at hok
          split at hok
          · rename_i Sk hokK
            rw [← fzE_bound hk] at hok
            simp only [Bool.and_eq_true, Option.isSome_iff_exists] at hok
            obtain ⟨⟨Sv, hokV⟩, _⟩ := hok
            obtain ⟨ek, pk⟩ := ih.ev s s1 k k' S Sk st env hk hokK hS
              ((fzE_tab hv).trans ((fzO_tab hi).trans htab)) hp
            simp only [forBody, ek]
            rcases hrk : eval n st env k with ⟨rk, st1⟩
            rw [hrk] at pk
            have hb13 : ∀ x, x ∈ s1.bound → x ∈ s3.bound := fun x hx => fzO_mono hi x (fzE_mono hv x hx)
            have pK : ∀ nm, Post look S st env s3.bound S nm st1 := fun nm => pk.keepS hb13
            cases rk with
            | val vk =>
              obtain ⟨ev, pv⟩ := ih.ev s1 s2 v v' Sk Sv st1 env hv hokV (okE_sub hk hokK hS)
                (tab_step ((fzO_tab hi).trans htab) pk.ext) (pk.toPre hp.lt)
              simp only [ev]
              rcases hrv : eval n st1 env v with ⟨rv, st2⟩
              rw [hrv] at pv
              have pV : ∀ nm, Post look S st env s3.bound S nm st2 :=
                fun nm => (Post.seq (isVal_val vk) pk pv).keepS (fzO_mono hi)
              refine ⟨by eqok, ?_⟩
              cases vk <;> dsimp only <;> first
                | exact pK _
                | (cases dictFind acc.dict _ with
                   | none =>
                     dsimp only
                     cases rv with
                     | val vv => dsimp only; cases acc.cata.give vv <;> exact pV _
                     | _ => exact pV _
                   | some cc =>
                     cases cc with
                     | inr _ => exact pK _
                     | inl c0 =>
                       dsimp only
                       cases rv with
                       | val vv => dsimp only; cases c0.give vv <;> exact pV _
                       | _ => exact pV _)
            | _ => exact ⟨by eqok, pK _⟩
          · exact absurd hok (by simp)


/-- the fresh child scope of `env` in which pattern `p` was bound: the invariants inside, and how to get
back out -/
theorem clone_scope {b S : List String} {p : Pat} {v : Val} {st : State} {env : Nat}
    (hp : Pre look b st env) (hS : ∀ x, x ∈ S → x ∈ b) (st2 : State)
    (hd : declarePat (patDepth p + 1) (newFrame st env).1 (newFrame st env).2 p v = (true, st2)) :
    Pre look (b ++ Pat.idents p) st2 (newFrame st env).2 ∧
    (∀ x, x ∈ S ++ Pat.idents p → x ∈ b ++ Pat.idents p) ∧
    st2.frozenTab = st.frozenTab ∧
    (∀ {bI SO : List String} {nmI : Prop} {st3 : State} (nm : Prop),
      Post look (S ++ Pat.idents p) st2 (newFrame st env).2 bI SO nmI st3 → Post look S st env b S nm st3) := by
  have hstep := declarePat_step (patDepth p + 1) (newFrame st env).1 (newFrame st env).2 p v
  rw [hd] at hstep
  obtain ⟨hfs, htab1, _, hdecl⟩ := hstep
  refine ⟨pre_clone hp hfs (fun x hx => List.mem_append_left _ hx) (fun x hx => List.mem_append_right _ hx),
    ?_, htab1, fun nm inner => post_clone hp hS hfs htab1 (hdecl rfl) (fun x hx => List.mem_append.mp hx) inner⟩
  intro x hx
  rcases List.mem_append.mp hx with h | h
  · exact List.mem_append_left _ (hS x h)
  · exact List.mem_append_right _ h

theorem items_step {n : Nat} (ih : Pres look n) : ItemsOK look (n + 1) := by
  intro s s2 s3 b p items rest rest' body body' S S2 st env acc hsb hrest hbody hokR hokB hS htab hp
  cases items with
  | nil =>
    simp only [forItems]
    exact ⟨by eqok, Post.refl _ hp (fun _ h => h) (fun _ h => h)⟩
  | cons x xs =>
    simp only [forItems]
    rcases hd : declarePat (patDepth p + 1) (newFrame st env).1 (newFrame st env).2 p x with ⟨ok, st2⟩
    cases ok with
    | false => exact ⟨by eqok, clone_fail hp hS st2 hd⟩
    | true =>
      obtain ⟨hpI, hSI, htab1, hexit⟩ := clone_scope hp hS st2 hd
      rw [← hsb] at hpI hSI
      obtain ⟨ef, pf⟩ := ih.evFor s s2 s3 rest rest' body body' (S ++ Pat.idents p) S2 st2 (newFrame st env).2 acc
        hrest hbody hokR hokB hSI (by rw [htab1]; exact htab) hpI
      simp only [ef]
      rcases hrf : evalFor n st2 (newFrame st env).2 rest body acc with ⟨rf, st3, acc3⟩
      rw [hrf] at pf
      have pout : Post look S st env b S True st3 := hexit True pf
      cases rf with
      | val v =>
        obtain ⟨er, pr⟩ := ih.fItems s s2 s3 b p xs rest rest' body body' S S2 st3 env acc3 hsb hrest hbody hokR hokB
          hS (tab_step htab pout.ext) (pout.toPre hp.lt)
        simp only [er]
        exact ⟨by eqok, Post.seq_ext pout pr⟩
      | _ => exact ⟨by eqok, hexit _ pf⟩


theorem for_step {n : Nat} (ih : Pres look n) : ForOK look (n + 1) := by
  intro s s2 s3 its its' body body' S S2 st env acc hits hbody hokI hokB hS htab hp
  cases its with
  | nil =>
    simp only [freezeIts, Except.ok.injEq, Prod.mk.injEq] at hits
    obtain ⟨rfl, rfl⟩ := hits
    simp only [okIts, Option.some.injEq] at hokI
    subst hokI
    obtain ⟨eb, pb⟩ := ih.fBody s s3 body body' S st env acc hbody hokB hS htab hp
    simp only [evalFor, eb, headAfter]
    rw [← fzB_bound hbody]
    rcases hrb : forBody n st env body acc with ⟨rb, st1, acc1⟩
    rw [hrb] at pb
    cases rb with
    | cont k => cases k <;> exact ⟨by eqok, pb.keepS (fun _ h => h)⟩
    | _ => exact ⟨by eqok, pb.keepS (fun _ h => h)⟩
  | cons it rest =>
    cases it with
    | guard g =>
      simp only [freezeIts] at hits
      split at hits
      · exact absurd hits (by simp)
      · rename_i g' s1 hg
        split at hits
        · exact absurd hits (by simp)
        · rename_i rest' s2' hrest
          simp only [Except.ok.injEq, Prod.mk.injEq] at hits
          obtain ⟨rfl, rfl⟩ := hits
          simp only [okIts] at hokI
          split at hokI
          · rename_i S1 hokG
            rw [← fzE_bound hg] at hokI
            obtain ⟨eg, pg⟩ := ih.ev s s1 g g' S S1 st env hg hokG hS
              ((fzI_tab hrest).trans ((fzB_tab hbody).trans htab)) hp
            simp only [evalFor, eg, headAfter]
            rw [← fzE_bound hg]
            rcases hrg : eval n st env g with ⟨rg, st1⟩
            rw [hrg] at pg
            cases rg with
            | val v =>
              dsimp only
              cases v.truthy with
              | false => exact ⟨by eqok, pg.keepS (headAfter_mono rest s1.bound body)⟩
              | true =>
                obtain ⟨er, pr⟩ := ih.evFor s1 s2' s3 rest rest' body body' S1 S2 st1 env acc hrest hbody hokI hokB
                  (okE_sub hg hokG hS) (tab_step htab pg.ext) (pg.toPre hp.lt)
                simp only [↓reduceIte, er]
                exact ⟨by eqok, (Post.seq (isVal_val v) pg pr).keepS (fun _ h => h)⟩
            | _ => exact ⟨by eqok, pg.keepS (headAfter_mono rest s1.bound body)⟩
          · exact absurd hokI (by simp)
    | iter kind p e =>
      simp only [freezeIts] at hits
      split at hits
      · exact absurd hits (by simp)
      · rename_i e' s1 he
        split at hits
        · exact absurd hits (by simp)
        · rename_i rest' s2' hrest
          simp only [Except.ok.injEq, Prod.mk.injEq] at hits
          obtain ⟨rfl, rfl⟩ := hits
          simp only [okIts] at hokI
          split at hokI
          · rename_i S1 hokE
            rw [← fzE_bound he] at hokI
            obtain ⟨ee, pe⟩ := ih.ev s s1 e e' S S1 st env he hokE hS
              ((fzI_tab hrest).trans ((fzB_tab hbody).trans htab)) hp
            simp only [evalFor, ee, headAfter]
            rw [← fzE_bound he]
            rcases hre : eval n st env e with ⟨re, st1⟩
            rw [hre] at pe
            have hS1 := okE_sub he hokE hS
            have hp1 := pe.toPre hp.lt
            have htab1 := tab_step htab pe.ext
            cases re with
            | val v =>
              dsimp only
              -- iteration over a list of items
              have hitems : ∀ items : List Val,
                  forItems n st1 env p items rest' body' acc = forItems n st1 env p items rest body acc ∧
                  Post look S st env s1.bound S (IsVal (forItems n st1 env p items rest body acc).1)
                    (forItems n st1 env p items rest body acc).2.1 := by
                intro items
                obtain ⟨ei, pi⟩ := ih.fItems { s1 with bound := s1.bound ++ Pat.idents p } s2' s3 s1.bound p items
                  rest rest' body body' S1 S2 st1 env acc rfl hrest hbody hokI hokB hS1 htab1 hp1
                exact ⟨ei, (Post.seq (isVal_val v) pe pi).keepS (fun _ h => h)⟩
              have hthrow : Post look S st env s1.bound S (IsVal (.thrown .err)) st1 := pe.keepS (fun _ h => h)
              cases kind with
              | declare =>
                dsimp only
                rcases hd : declarePat (patDepth p + 1) (newFrame st1 env).1 (newFrame st1 env).2 p v with ⟨ok, st2⟩
                cases ok with
                | false =>
                  exact ⟨by eqok, Post.seq_ext (pe.keepS (S1 := S1) (nm' := True) (fun _ h => h))
                    (clone_fail (hp1.mono (fun _ h => h)) (fun x hx => fzE_mono he x (hS x hx)) st2 hd)⟩
                | true =>
                  obtain ⟨hpI, hSI, htabI, hexit⟩ := clone_scope hp1 hS1 st2 hd
                  obtain ⟨er, pr⟩ := ih.evFor { s1 with bound := s1.bound ++ Pat.idents p } s2' s3 rest rest' body body'
                    (S1 ++ Pat.idents p) S2 st2 (newFrame st1 env).2 acc hrest hbody hokI hokB hSI
                    (by rw [htabI]; exact htab1) hpI
                  simp only [er]
                  exact ⟨by eqok, (Post.seq (isVal_val v) pe (hexit True pr)).keepS (fun _ h => h)⟩
              | normal =>
                dsimp only
                cases iterValues v with
                | some items => exact hitems items
                | none => exact ⟨by eqok, hthrow⟩
              | item =>
                dsimp only
                cases iterPairs v with
                | some items => exact hitems items
                | none => exact ⟨by eqok, hthrow⟩
            | _ => exact ⟨by eqok, pe.keepS (fun _ h => h)⟩
          · exact absurd hokI (by simp)


/-- `into`: nothing or a builtin -/
def PostFn (post : Option Val) : Prop := post = none ∨ ∃ f, post = some (.builtin f)

theorem finishDict_frames : ∀ (n : Nat) (st : State) (env : Nat) (post : Option Val)
    (d : List (Val × (Cata ⊕ Val))) (done : List (Val × Val)), PostFn post →
    (finishDict n st env post d done).2.frames = st.frames ∧
    (finishDict n st env post d done).2.frozenTab = st.frozenTab := by
  intro n
  induction n with
  | zero => intro st env post d done _; simp only [finishDict]; exact ⟨by eqok, by eqok⟩
  | succ k ih =>
    intro st env post d done hpf
    cases d with
    | nil => simp only [finishDict]; exact ⟨by eqok, by eqok⟩
    | cons kv rest =>
      obtain ⟨key, c⟩ := kv
      cases c with
      | inr v => simp only [finishDict]; exact ih st env post rest _ hpf
      | inl c0 =>
        simp only [finishDict]
        cases c0.finish with
        | raise => exact ⟨rfl, rfl⟩
        | ok v =>
          dsimp only
          rcases hpf with rfl | ⟨f, rfl⟩
          · exact ih st env none rest _ (Or.inl rfl)
          · dsimp only
            obtain ⟨hfr, htb⟩ := callVal_builtin_frames k st env f [v]
            rcases hc : callVal k st env (.builtin f) [v] with ⟨rc, st1⟩
            rw [hc] at hfr htb
            cases rc with
            | val v' =>
              dsimp only
              obtain ⟨h1, h2⟩ := ih st1 env (some (.builtin f)) rest (done ++ [(key, v')]) (Or.inr ⟨f, rfl⟩)
              exact ⟨h1.trans hfr, h2.trans htb⟩
            | _ => exact ⟨hfr, htb⟩

theorem evalInto_builtin (hB : HBuiltins look) {b : List String} {st : State} {env : Nat} {f : String}
    (hp : Pre look b st env) (hf : f ∈ builtinNames) (hfb : f ∉ b) (n : Nat) :
    evalInto n st env (some (.ident f)) = (.inr .fuelOut, st) ∨
    ∃ c post, evalInto n st env (some (.ident f)) = (.inl (c, post), st) ∧ PostFn post := by
  cases n with
  | zero => left; simp only [evalInto]
  | succ k =>
    simp only [evalInto]
    rcases eval_builtin_ident (n := k) hB hp hf hfb with h | h
    · left; rw [h]
    · right; rw [h]
      dsimp only
      cases cataOfBuiltin f with
      | some c => exact ⟨c, none, rfl, Or.inl rfl⟩
      | none => exact ⟨_, _, rfl, Or.inr ⟨f, rfl⟩⟩

/-- the frozen `into` function evaluates like the original -/
theorem evalInto_eq (hB : HBuiltins look) {sI s3 : FState Val} {o o' : Option Expr} {st : State} {env : Nat}
    (hi : freezeOpt look sI o = .ok (o', s3)) (hok : okInto sI.bound o = true)
    (hp : Pre look sI.bound st env) (htab : s3.tab <+: st.frozenTab) (n : Nat) :
    evalInto n st env o' = evalInto n st env o ∧
    (evalInto n st env o = (.inr .fuelOut, st) ∨
      ∃ c post, evalInto n st env o = (.inl (c, post), st) ∧ PostFn post) := by
  cases o with
  | none =>
    simp only [freezeOpt, Except.ok.injEq, Prod.mk.injEq] at hi
    obtain ⟨rfl, rfl⟩ := hi
    refine ⟨rfl, ?_⟩
    cases n with
    | zero => left; simp only [evalInto]
    | succ k => right; exact ⟨.list [], none, by simp only [evalInto], Or.inl rfl⟩
  | some e =>
    obtain ⟨e', he, rfl⟩ := freezeOpt_some_inv hi
    cases e with
    | ident f =>
      simp only [okInto, Bool.and_eq_true, Bool.not_eq_true', List.contains_eq_mem, decide_eq_true_eq,
        decide_eq_false_iff_not] at hok
      refine ⟨?_, evalInto_builtin hB hp hok.1 hok.2 n⟩
      cases n with
      | zero => simp only [evalInto]
      | succ k =>
        simp only [evalInto]
        cases k with
        | zero => simp only [eval]
        | succ j =>
          have hokE : okExpr ([] : List String) sI.bound (.ident f) = some [] := by simp only [okExpr]
          rw [(ev_ident (n := j) he hokE htab hp).1]
    | _ => simp [okInto] at hok


theorem ev_for {n : Nat} (ih : Pres look n) (hB : HBuiltins look) {s s' : FState Val} {its : List ForIt}
    {body : ForBody} {e' : Expr} {S S' : List String} {st : State} {env : Nat}
    (hf : freezeExpr look s (.for_ its body) = .ok (e', s')) (hok : okExpr S s.bound (.for_ its body) = some S')
    (hS : ∀ x, x ∈ S → x ∈ s.bound) (htab : s'.tab <+: st.frozenTab) (hp : Pre look s.bound st env) :
    eval (n + 1) st env e' = eval (n + 1) st env (.for_ its body) ∧
      Post look S st env s'.bound S' (IsVal (eval (n + 1) st env (.for_ its body)).1)
        (eval (n + 1) st env (.for_ its body)).2 := by
  simp only [freezeExpr] at hf
  split at hf
  · exact absurd hf (by simp)
  · rename_i its' s2 hits
    split at hf
    · exact absurd hf (by simp)
    · rename_i body' s3 hbody
      simp only [Except.ok.injEq, Prod.mk.injEq] at hf
      obtain ⟨rfl, rfl⟩ := hf
      simp only [okExpr] at hok
      split at hok
      · rename_i hhead
        have hhd : headAfter s.bound its body = s.bound := by simpa using hhead
        split at hok
        · rename_i S2 hokI
          rw [← fzI_bound hits] at hok
          split at hok
          · rename_i hokB
            simp only [Option.some.injEq] at hok
            subst hok
            have htab3 : s3.tab <+: st.frozenTab := htab
            -- the loop proper, for any accumulator
            have hfor : ∀ acc : ForAcc,
                evalFor n st env its' body' acc = evalFor n st env its body acc ∧
                ∀ nm, Post look S st env s.bound S nm (evalFor n st env its body acc).2.1 := by
              intro acc
              obtain ⟨ef, pf⟩ := ih.evFor s s2 s3 its its' body body' S S2 st env acc hits hbody hokI hokB hS htab3 hp
              rw [hhd] at pf
              exact ⟨ef, fun nm => pf.keepS (fun _ h => h)⟩
            have hstay : ∀ nm, Post look S st env s.bound S nm st :=
              fun nm => Post.refl nm hp (fun _ h => h) (fun _ h => h)
            -- a builtin applied afterwards does not touch the frames
            have hcall : ∀ (st1 : State) (f : String) (v : Val) (nm : Prop),
                (∀ nm, Post look S st env s.bound S nm st1) →
                Post look S st env s.bound S nm (callVal n st1 env (.builtin f) [v]).2 := by
              intro st1 f v nm h1
              obtain ⟨hfr, htb⟩ := callVal_builtin_frames n st1 env f [v]
              exact Post.seq_ext (h1 True)
                (Post.of_frames_eq nm ((h1 True).toPre hp.lt) hfr htb (fun _ h => h) (fun _ h => h))
            have hfin : ∀ (st1 : State) (post : Option Val) (d : List (Val × (Cata ⊕ Val))) (nm : Prop),
                PostFn post → (∀ nm, Post look S st env s.bound S nm st1) →
                Post look S st env s.bound S nm (finishDict n st1 env post d []).2 := by
              intro st1 post d nm hpf h1
              obtain ⟨hfr, htb⟩ := finishDict_frames n st1 env post d [] hpf
              exact Post.seq_ext (h1 True)
                (Post.of_frames_eq nm ((h1 True).toPre hp.lt) hfr htb (fun _ h => h) (fun _ h => h))
            cases body with
            | exec e =>
              simp only [freezeBody] at hbody
              split at hbody
              · exact absurd hbody (by simp)
              · simp only [Except.ok.injEq, Prod.mk.injEq] at hbody
                obtain ⟨rfl, rfl⟩ := hbody
                obtain ⟨ef, pf⟩ := hfor default
                simp only [eval, ef]
                rcases hrf : evalFor n st env its (.exec e) default with ⟨rf, st1, acc1⟩
                rw [hrf] at pf
                cases rf with
                | brk k v => cases k <;> exact ⟨by eqok, pf _⟩
                | cont k => cases k <;> exact ⟨by eqok, pf _⟩
                | _ => exact ⟨by eqok, pf _⟩
            | yield e into =>
              simp only [okBody, Bool.and_eq_true] at hokB
              simp only [freezeBody] at hbody
              split at hbody
              · exact absurd hbody (by simp)
              · rename_i e1' s2a he
                split at hbody
                · exact absurd hbody (by simp)
                · rename_i into' s3' hi
                  simp only [Except.ok.injEq, Prod.mk.injEq] at hbody
                  obtain ⟨rfl, rfl⟩ := hbody
                  have hokInto := hokB.2
                  rw [← fzE_bound he] at hokInto
                  have hpI : Pre look s2a.bound st env :=
                    hp.mono (fun x hx => fzE_mono he x (fzI_mono hits x hx))
                  obtain ⟨eI, hcase⟩ := evalInto_eq hB hi hokInto hpI htab3 n
                  simp only [eval, eI]
                  rcases hcase with h0 | ⟨c, post, h1, hpf⟩
                  · rw [h0]; exact ⟨by eqok, hstay _⟩
                  · rw [h1]
                    dsimp only
                    obtain ⟨ef, pf⟩ := hfor { cata := c, dict := [] }
                    simp only [ef]
                    rcases hrf : evalFor n st env its (.yield e into) { cata := c, dict := [] } with ⟨rf, st1, acc1⟩
                    rw [hrf] at pf
                    rcases hpf with rfl | ⟨f, rfl⟩
                    · cases rf with
                      | val v => dsimp only; cases acc1.cata.finish <;> exact ⟨by eqok, pf _⟩
                      | brk k v =>
                        cases k with
                        | zero =>
                          cases v with
                          | none => dsimp only; cases acc1.cata.finish <;> exact ⟨by eqok, pf _⟩
                          | some v => exact ⟨by eqok, pf _⟩
                        | succ k => exact ⟨by eqok, pf _⟩
                      | cont k => cases k <;> exact ⟨by eqok, pf _⟩
                      | _ => exact ⟨by eqok, pf _⟩
                    · cases rf with
                      | val v =>
                        dsimp only
                        cases acc1.cata.finish with
                        | ok w => exact ⟨by eqok, hcall st1 f w _ pf⟩
                        | raise => exact ⟨by eqok, pf _⟩
                      | brk k v =>
                        cases k with
                        | zero =>
                          cases v with
                          | none =>
                            dsimp only
                            cases acc1.cata.finish with
                            | ok w => exact ⟨by eqok, hcall st1 f w _ pf⟩
                            | raise => exact ⟨by eqok, pf _⟩
                          | some v => exact ⟨by eqok, hcall st1 f v _ pf⟩
                        | succ k => exact ⟨by eqok, pf _⟩
                      | cont k => cases k <;> exact ⟨by eqok, pf _⟩
                      | _ => exact ⟨by eqok, pf _⟩
            | yieldItem k v into =>
              simp only [okBody] at hokB
              split at hokB
              · rename_i Sk hokK
                simp only [Bool.and_eq_true] at hokB
                simp only [freezeBody] at hbody
                split at hbody
                · exact absurd hbody (by simp)
                · rename_i k1' s2a hk
                  split at hbody
                  · exact absurd hbody (by simp)
                  · rename_i v1' s2b hv
                    split at hbody
                    · exact absurd hbody (by simp)
                    · rename_i into' s3' hi
                      simp only [Except.ok.injEq, Prod.mk.injEq] at hbody
                      obtain ⟨rfl, rfl⟩ := hbody
                      have hokInto := hokB.2
                      rw [← fzE_bound hk, ← fzE_bound hv] at hokInto
                      have hpI : Pre look s2b.bound st env :=
                        hp.mono (fun x hx => fzE_mono hv x (fzE_mono hk x (fzI_mono hits x hx)))
                      obtain ⟨eI, hcase⟩ := evalInto_eq hB hi hokInto hpI htab3 n
                      have hshape : (into = none ∧ into' = none) ∨ (∃ e0 e0', into = some e0 ∧ into' = some e0') := by
                        cases into with
                        | none =>
                          simp only [freezeOpt, Except.ok.injEq, Prod.mk.injEq] at hi
                          exact Or.inl ⟨rfl, hi.1.symm⟩
                        | some e0 =>
                          obtain ⟨e0', _, h⟩ := freezeOpt_some_inv hi
                          exact Or.inr ⟨e0, e0', rfl, h⟩
                      simp only [eval, eI]
                      rcases hcase with h0 | ⟨c, post, h1, hpf⟩
                      · rw [h0]; exact ⟨by eqok, hstay _⟩
                      · rw [h1]
                        have htail : ∀ cataK : Cata,
                            (match evalFor n st env its' (.yieldItem k1' v1' into') { cata := cataK, dict := [] } with
                              | (res, st, acc) =>
                                match res with
                                | .val _ | .brk 0 none => finishDict n st env post acc.dict []
                                | .brk 0 (some v) => (.val v, st)
                                | .brk (n + 1) v => (.brk n v, st)
                                | .cont (n + 1) => (.cont n, st)
                                | r => (r, st)) =
                            (match evalFor n st env its (.yieldItem k v into) { cata := cataK, dict := [] } with
                              | (res, st, acc) =>
                                match res with
                                | .val _ | .brk 0 none => finishDict n st env post acc.dict []
                                | .brk 0 (some v) => (.val v, st)
                                | .brk (n + 1) v => (.brk n v, st)
                                | .cont (n + 1) => (.cont n, st)
                                | r => (r, st)) ∧
                            ∀ nm, Post look S st env s.bound S nm
                              (match evalFor n st env its (.yieldItem k v into) { cata := cataK, dict := [] } with
                              | (res, st, acc) =>
                                match res with
                                | .val _ | .brk 0 none => finishDict n st env post acc.dict []
                                | .brk 0 (some v) => (.val v, st)
                                | .brk (n + 1) v => (.brk n v, st)
                                | .cont (n + 1) => (.cont n, st)
                                | r => (r, st)).2 := by
                          intro cataK
                          obtain ⟨ef, pf⟩ := hfor { cata := cataK, dict := [] }
                          rw [ef]
                          refine ⟨rfl, fun nm => ?_⟩
                          rcases hrf : evalFor n st env its (.yieldItem k v into) { cata := cataK, dict := [] }
                            with ⟨rf, st1, acc1⟩
                          rw [hrf] at pf
                          cases rf with
                          | val v => exact hfin st1 post acc1.dict _ hpf pf
                          | brk k v =>
                            cases k with
                            | zero =>
                              cases v with
                              | none => exact hfin st1 post acc1.dict _ hpf pf
                              | some v => exact pf _
                            | succ k => exact pf _
                          | cont k => cases k <;> exact pf _
                          | _ => exact pf _
                        rcases hshape with ⟨rfl, rfl⟩ | ⟨e0, e0', rfl, rfl⟩
                        · exact ⟨(htail _).1, (htail _).2 _⟩
                        · cases post <;> exact ⟨(htail _).1, (htail _).2 _⟩
              · exact absurd hokB (by simp)
          · exact absurd hok (by simp)
        · exact absurd hok (by simp)
      · exact absurd hok (by simp)


/-! ### assembling -/

theorem eval_step {n : Nat} (ih : Pres look n) (hB : HBuiltins look) : EvOK look (n + 1) := by
  intro s s' e e' S S' st env hf hok hS htab hp
  cases e with
  | null =>
    simp only [freezeExpr, Except.ok.injEq, Prod.mk.injEq] at hf
    obtain ⟨rfl, rfl⟩ := hf
    simp only [okExpr, Option.some.injEq] at hok
    subst hok
    simp only [eval]
    exact ⟨by eqok, Post.refl _ hp (fun _ h => h) (fun _ h => h)⟩
  | int k =>
    simp only [freezeExpr, Except.ok.injEq, Prod.mk.injEq] at hf
    obtain ⟨rfl, rfl⟩ := hf
    simp only [okExpr, Option.some.injEq] at hok
    subst hok
    simp only [eval]
    exact ⟨by eqok, Post.refl _ hp (fun _ h => h) (fun _ h => h)⟩
  | str k =>
    simp only [freezeExpr, Except.ok.injEq, Prod.mk.injEq] at hf
    obtain ⟨rfl, rfl⟩ := hf
    simp only [okExpr, Option.some.injEq] at hok
    subst hok
    simp only [eval]
    exact ⟨by eqok, Post.refl _ hp (fun _ h => h) (fun _ h => h)⟩
  | cont k =>
    simp only [freezeExpr, Except.ok.injEq, Prod.mk.injEq] at hf
    obtain ⟨rfl, rfl⟩ := hf
    simp only [okExpr, Option.some.injEq] at hok
    subst hok
    simp only [eval]
    exact ⟨by eqok, Post.refl _ hp (fun _ h => h) (fun _ h => h)⟩
  | ident x => exact ev_ident hf hok htab hp
  | list xs => exact ev_list ih hf hok hS htab hp
  | op name a b => exact ev_op ih hf hok hS htab hp
  | index a b => exact ev_index ih hf hok hS htab hp
  | call f args => exact ev_call ih hB hf hok hS htab hp
  | and_ a b => exact ev_and ih hf hok hS htab hp
  | or_ a b => exact ev_or ih hf hok hS htab hp
  | coalesce a b => exact ev_coalesce ih hf hok hS htab hp
  | seq xs semi => exact ev_seq ih hf hok hS htab hp
  | ite c t e => exact ev_ite ih hf hok hS htab hp
  | while_ c b => exact ev_while ih hf hok hS htab hp
  | for_ its body => exact ev_for ih hB hf hok hS htab hp
  | declare p rhs => exact ev_declare ih hf hok hS htab hp
  | assign x rhs => exact ev_assign ih hf hok hS htab hp
  | opassign x opn rhs => exact ev_opassign ih hf hok hS htab hp
  | brk k e => exact ev_brk ih hf hok hS htab hp
  | ret e => exact ev_ret ih hf hok hS htab hp
  | throw_ e => exact ev_throw ih hf hok hS htab hp
  | try_ b p c => exact ev_try ih hf hok hS htab hp
  | switch_ sc arms => exact ev_switch ih hf hok hS htab hp
  | lambda ps body => simp [okExpr] at hok
  | evalSrc e => simp [okExpr] at hok
  | frozen i => simp [okExpr] at hok
  | freeze e => simp [okExpr] at hok

theorem Pres.step {n : Nat} (ih : Pres look n) (hB : HBuiltins look) : Pres look (n + 1) where
  ev := eval_step ih hB
  evList := list_step ih
  evSeq := seq_step ih
  evSwitch := switch_step ih
  evWhile := while_step ih
  evFor := for_step ih
  fItems := items_step ih
  fBody := body_step ih

theorem pres_all (hB : HBuiltins look) : ∀ n, Pres look n := by
  intro n
  induction n with
  | zero => exact Pres.zero look
  | succ k ih => exact ih.step hB


end Noulith.C17Preserve
