/-
C12, part 8 — `conversion_lands_in_type`: calling a type (`int`, `rational`, `float`, `number`,
`list`, `str`, `bytes`, `vector`, `dict`, `stream`, `type`, a struct) returns a value of that type
or raises; the remaining type objects cannot be called.  Proved for every argument and for every
behaviour of the external parsers, printers and float rounding (`ConvOracle`).
-/
import NoulithModel.Theorems.C12
import NoulithModel.Impl.PatternConv

namespace Noulith.C12

theorem callStruct_inst (sid : Nat) (sd : StructDef) (args : List Val) (w : Val)
    (h : callStruct sid sd args = .ok w) : ∃ fs, w = .inst sid fs := by
  unfold callStruct at h
  cases hf : callStruct.fill sd sd.nfields args with
  | ok a => simp [hf, Out.map] at h; exact ⟨a, h.symm⟩
  | throw => simp [hf, Out.map] at h
  | panic => simp [hf, Out.map] at h

/-- **`conversion_lands_in_type`**: whatever calling a type returns is of that type — for every
conversion function, every argument, and every behaviour of the external parsers / printers. -/
theorem conversion_lands_in_type (O : ConvOracle) (structs : Nat → StructDef) (T : Ty) (v w : Val)
    (h : callType1 O structs T v = .ok w) : isType T w = .ok true := by
  cases T with
  | struct sid =>
    simp only [callType1] at h
    obtain ⟨fs, rfl⟩ := callStruct_inst sid _ _ w h
    simp [isType]
  | int | rational | float | number | list | bytes | vector | dict | stream =>
    cases v <;> simp only [callType1, Out.map] at h <;> (repeat' (split at h)) <;>
      (try simp at h) <;> (try (subst h; rfl))
  | string => simp only [callType1] at h; simp at h; subst h; rfl
  | type => simp only [callType1] at h; simp at h; subst h; rfl
  | null => simp [callType1] at h
  | complex => simp [callType1] at h
  | func => simp [callType1] at h
  | any => simp [callType1] at h
  | structInstance => simp [callType1] at h
  | satisfying p => simp [callType1] at h

/-- the same for `call_type` (any number of arguments) -/
theorem callType_lands_in_type (O : ConvOracle) (structs : Nat → StructDef) (T : Ty) (args : List Val) (w : Val)
    (h : callType O structs T args = .ok w) : isType T w = .ok true := by
  unfold callType at h
  split at h
  · next sid =>
    obtain ⟨fs, rfl⟩ := callStruct_inst sid _ _ w h
    simp [isType]
  · split at h
    · exact conversion_lands_in_type O structs T _ w h
    · simp at h

end Noulith.C12
