/-
C09 (continued) — hash consistency and the finite-map refinement for EVERY key, dictionaries nested
as keys at any depth included.

`total_eq_of_keys` on two dictionaries looks every entry of the first up in the second THROUGH THE
HASH MAP (same hasher writes and `total_eq`), and the dict arm of `total_hash_of_key` is an
order-independent sum of per-entry sub-hashes.  So "`a ≈ b → writes a = writes b`" for dictionary
keys needs, simultaneously and by induction on the size of the keys: hash consistency, symmetry and
transitivity of `total_eq` on all smaller keys (`pkg`), and a matching argument that turns "every
entry of `a` has a partner in `b`, no two entries share one, equal lengths" into a permutation
(`matching`).  The invariant `KeyWF` (Theorems/C09.lean) says what a key is: integers well-formed and
every nested dictionary a real `HashMap` (no two stored keys hit each other).
-/
import NoulithModel.Theorems.C09

namespace Noulith.C09
open Noulith OrdSpec Noulith.C08 Noulith.DictOps

/-! ## generic: matching the entries of two maps -/
section Matching
variable {α : Type}

/-- element-wise relation of two lists of equal length -/
inductive F2 (R : α → α → Prop) : List α → List α → Prop
  | nil : F2 R [] []
  | cons {a b : α} {as bs : List α} : R a b → F2 R as bs → F2 R (a :: as) (b :: bs)

theorem F2.map_eq {R : α → α → Prop} {β : Type} (g : α → β) {A B : List α} (h : F2 R A B)
    (hg : ∀ x e, R x e → g x = g e) : A.map g = B.map g := by
  induction h with
  | nil => rfl
  | cons hr _ ih => simp [hg _ _ hr, ih]

theorem F2.right_mem {R : α → α → Prop} {A B : List α} (h : F2 R A B) :
    ∀ f ∈ B, ∃ x ∈ A, R x f := by
  induction h with
  | nil => intro f hf; cases hf
  | cons hr _ ih =>
    intro f hf
    rcases List.mem_cons.mp hf with rfl | hf
    · exact ⟨_, List.mem_cons_self .., hr⟩
    · obtain ⟨x, hx, hxr⟩ := ih f hf
      exact ⟨x, List.mem_cons_of_mem _ hx, hxr⟩

/-- if every element of `A` has an `R`-partner in `B`, no two elements of `A` share a partner and the
lengths agree, then `B` can be permuted so that partners face each other (so the partner map is a
bijection) -/
theorem matching (R : α → α → Prop) (A : List α) : ∀ (B : List α), A.length = B.length →
    (∀ x ∈ A, ∃ e ∈ B, R x e) →
    A.Pairwise (fun x x' => ∀ e ∈ B, R x e → R x' e → False) →
    ∃ B', B'.Perm B ∧ F2 R A B' := by
  induction A with
  | nil =>
    intro B hlen _ _
    have : B = [] := by cases B with
      | nil => rfl
      | cons _ _ => simp at hlen
    subst this
    exact ⟨[], List.Perm.refl _, F2.nil⟩
  | cons x A ih =>
    intro B hlen hmatch hinj
    obtain ⟨e, heB, hxe⟩ := hmatch x (List.mem_cons_self ..)
    obtain ⟨s, t, hB⟩ := List.append_of_mem heB
    have hp := List.pairwise_cons.mp hinj
    have hlen' : A.length = (s ++ t).length := by
      subst hB; simp at hlen ⊢; omega
    have hsub : ∀ z, z ∈ s ++ t → z ∈ B := by
      intro z hz; subst hB
      rcases List.mem_append.mp hz with h | h
      · exact List.mem_append_left _ h
      · exact List.mem_append_right _ (List.mem_cons_of_mem _ h)
    obtain ⟨B0, hperm, hf2⟩ := ih (s ++ t) hlen'
      (by
        intro x' hx'
        obtain ⟨e', he'B, hx'e'⟩ := hmatch x' (List.mem_cons_of_mem _ hx')
        subst hB
        rcases List.mem_append.mp he'B with h | h
        · exact ⟨e', List.mem_append_left _ h, hx'e'⟩
        · rcases List.mem_cons.mp h with h | h
          · subst h
            exact absurd (hp.1 x' hx' e' heB hxe hx'e') id
          · exact ⟨e', List.mem_append_right _ h, hx'e'⟩)
      (hp.2.imp (fun {a b} hab e he => hab e (hsub e he)))
    refine ⟨e :: B0, ?_, F2.cons hxe hf2⟩
    subst hB
    exact (List.Perm.cons e hperm).trans List.perm_middle.symm

/-- two members of a list whose elements are pairwise unrelated are equal if they are related -/
theorem eq_of_pairwise_not {S : α → α → Prop} {l : List α} (hl : l.Pairwise (fun a b => ¬ S a b ∧ ¬ S b a))
    {x y : α} (hx : x ∈ l) (hy : y ∈ l) (hxy : S x y) : x = y := by
  induction l with
  | nil => cases hx
  | cons a l ih =>
    have hp := List.pairwise_cons.mp hl
    rcases List.mem_cons.mp hx with rfl | hx' <;> rcases List.mem_cons.mp hy with rfl | hy'
    · rfl
    · exact absurd hxy (hp.1 y hy').1
    · exact absurd hxy (hp.1 x hx').2
    · exact ih hp.2 hx' hy'

end Matching
theorem keyWFList_iff (xs : List Val) : KeyWFList xs ↔ ∀ x ∈ xs, KeyWF x := by
  induction xs with
  | nil => simp [KeyWFList]
  | cons x xs ih => simp [KeyWFList, ih]

theorem keyWFEntries_iff (kvs : List (Val × Val)) : KeyWFEntries kvs ↔ ∀ e ∈ kvs, KeyWF e.1 ∧ KeyWF e.2 := by
  induction kvs with
  | nil => simp [KeyWFEntries]
  | cons e kvs ih => obtain ⟨k, v⟩ := e; simp [KeyWFEntries, ih, and_assoc]

/-- the predicate `HashMap::get` tests the stored entries with -/
def hitPred (k : Val) : Val × Val → Bool := fun e => decide (writes e.1 = writes k) && totalEq k e.1

theorem totalEqEntries_iff (A B : List (Val × Val)) :
    totalEqEntries A B = true ↔
      ∀ x ∈ A, ∃ e, B.find? (hitPred x.1) = some e ∧ totalEq x.2 e.2 = true := by
  induction A with
  | nil => simp [totalEqEntries]
  | cons x A ih =>
    obtain ⟨k, v⟩ := x
    simp only [totalEqEntries, Bool.and_eq_true, ih, List.mem_cons, forall_eq_or_imp]
    constructor
    · rintro ⟨h1, h2⟩
      refine ⟨?_, h2⟩
      cases hf : B.find? (fun e => decide (writes e.1 = writes k) && totalEq k e.1) with
      | none => rw [hf] at h1; simp at h1
      | some e => rw [hf] at h1; exact ⟨e, hf, h1⟩
    · rintro ⟨⟨e, hf, hv⟩, h2⟩
      refine ⟨?_, h2⟩
      have : B.find? (fun e => decide (writes e.1 = writes k) && totalEq k e.1) = some e := hf
      rw [this]; exact hv


/-! ## `total_eq` is a hash-consistent equivalence on ALL keys, by induction on the size -/

/-- the three facts that have to be proved simultaneously -/
structure Pkg (a b c : Val) : Prop where
  hc : totalEq a b = true → writes a = writes b
  sy : totalEq a b = true → totalEq b a = true
  tr : totalEq a b = true → totalEq b c = true → totalEq a c = true

def isLeaf : Val → Bool
  | .null => true
  | .num _ => true
  | .str _ => true
  | .bytes _ => true
  | .vec _ => true
  | _ => false

theorem keyOK_of_leaf (a : Val) (hl : isLeaf a = true) (ha : KeyWF a) : KeyOK a := by
  cases a <;> simp_all [isLeaf, KeyWF, KeyOK]

theorem leaf_of_totalEq (a b : Val) (hl : isLeaf a = true) (h : totalEq a b = true) : isLeaf b = true := by
  cases a <;> cases b <;> simp_all [isLeaf, totalEq]

theorem leaf_of_totalEq_rev (a b : Val) (hl : isLeaf b = true) (h : totalEq a b = true) : isLeaf a = true := by
  cases a <;> cases b <;> simp_all [isLeaf, totalEq]

theorem leaf_pkg (a b c : Val) (hl : isLeaf a = true) (ha : KeyWF a) (hb : KeyWF b) (hc : KeyWF c) : Pkg a b c := by
  have ka := keyOK_of_leaf a hl ha
  refine ⟨?_, ?_, ?_⟩
  · intro h
    exact hash_consistent_partial a b ka (keyOK_of_leaf b (leaf_of_totalEq a b hl h) hb) h
  · intro h
    have kb := keyOK_of_leaf b (leaf_of_totalEq a b hl h) hb
    rw [totalEq_spec b a kb ka, ← keyEq_symm a b ka, ← totalEq_spec a b ka kb]; exact h
  · intro h1 h2
    have lb := leaf_of_totalEq a b hl h1
    have kb := keyOK_of_leaf b lb hb
    have kc := keyOK_of_leaf c (leaf_of_totalEq b c lb h2) hc
    rw [totalEq_spec a b ka kb] at h1
    rw [totalEq_spec b c kb kc] at h2
    rw [totalEq_spec a c ka kc]
    exact keyEq_trans a b c ka h1 h2

theorem list_hc (xs : List Val) : ∀ ys : List Val,
    (∀ x ∈ xs, ∀ y ∈ ys, totalEq x y = true → writes x = writes y) →
    totalEqList xs ys = true → xs.length = ys.length ∧ writesList xs = writesList ys := by
  induction xs with
  | nil => intro ys _ h; cases ys <;> simp_all [totalEqList]
  | cons x xs ih =>
    intro ys H h
    cases ys with
    | nil => simp [totalEqList] at h
    | cons y ys =>
      simp only [totalEqList, Bool.and_eq_true] at h
      have h1 := H x (List.mem_cons_self ..) y (List.mem_cons_self ..) h.1
      have h2 := ih ys (fun a ha b hb => H a (List.mem_cons_of_mem _ ha) b (List.mem_cons_of_mem _ hb)) h.2
      simp [writesList, h1, h2.1, h2.2]

theorem list_sy (xs : List Val) : ∀ ys : List Val,
    (∀ x ∈ xs, ∀ y ∈ ys, totalEq x y = true → totalEq y x = true) →
    totalEqList xs ys = true → totalEqList ys xs = true := by
  induction xs with
  | nil => intro ys _ h; cases ys <;> simp_all [totalEqList]
  | cons x xs ih =>
    intro ys H h
    cases ys with
    | nil => simp [totalEqList] at h
    | cons y ys =>
      simp only [totalEqList, Bool.and_eq_true] at h ⊢
      exact ⟨H x (List.mem_cons_self ..) y (List.mem_cons_self ..) h.1,
        ih ys (fun a ha b hb => H a (List.mem_cons_of_mem _ ha) b (List.mem_cons_of_mem _ hb)) h.2⟩

theorem list_tr (xs : List Val) : ∀ ys zs : List Val,
    (∀ x ∈ xs, ∀ y ∈ ys, ∀ z ∈ zs, totalEq x y = true → totalEq y z = true → totalEq x z = true) →
    totalEqList xs ys = true → totalEqList ys zs = true → totalEqList xs zs = true := by
  induction xs with
  | nil => intro ys zs _ h1 h2; cases ys <;> cases zs <;> simp_all [totalEqList]
  | cons x xs ih =>
    intro ys zs H h1 h2
    cases ys with
    | nil => simp [totalEqList] at h1
    | cons y ys =>
      cases zs with
      | nil => simp [totalEqList] at h2
      | cons z zs =>
        simp only [totalEqList, Bool.and_eq_true] at h1 h2 ⊢
        exact ⟨H x (List.mem_cons_self ..) y (List.mem_cons_self ..) z (List.mem_cons_self ..) h1.1 h2.1,
          ih ys zs (fun a ha b hb c hc => H a (List.mem_cons_of_mem _ ha) b (List.mem_cons_of_mem _ hb) c
            (List.mem_cons_of_mem _ hc)) h1.2 h2.2⟩

theorem size_entry {A : List (Val × Val)} {d : Option Val} {e : Val × Val} (h : e ∈ A) :
    sizeOf e.1 < sizeOf (Val.dict A d) ∧ sizeOf e.2 < sizeOf (Val.dict A d) := by
  have := List.sizeOf_lt_of_mem h
  obtain ⟨k, v⟩ := e
  simp at this ⊢
  omega

theorem size_elem {A : List Val} {e : Val} (h : e ∈ A) : sizeOf e < sizeOf (Val.list A) := by
  have := List.sizeOf_lt_of_mem h
  simp; omega

theorem hitPred_iff (k : Val) (e : Val × Val) :
    hitPred k e = true ↔ writes e.1 = writes k ∧ totalEq k e.1 = true := by
  simp [hitPred]

theorem keyHit_iff (k k' : Val) : keyHit k k' = true ↔ writes k' = writes k ∧ totalEq k k' = true := by
  simp [keyHit]


section DictCase
variable (S : Val → Prop)
  (HC : ∀ u v, S u → S v → totalEq u v = true → writes u = writes v)
  (SY : ∀ u v, S u → S v → totalEq u v = true → totalEq v u = true)
  (TR : ∀ u v w, S u → S v → S w → totalEq u v = true → totalEq v w = true → totalEq u w = true)

/-- partner relation between the entries of two dictionaries that are `total_eq` -/
def Partner (x e : Val × Val) : Prop := hitPred x.1 e = true ∧ totalEq x.2 e.2 = true

abbrev NoHit (e f : Val × Val) : Prop := ¬ keyHit e.1 f.1 = true ∧ ¬ keyHit f.1 e.1 = true

include SY TR in
theorem dict_match (A B : List (Val × Val)) (da db : Option Val)
    (hA : ∀ e ∈ A, S e.1 ∧ S e.2) (hB : ∀ e ∈ B, S e.1 ∧ S e.2) (pA : A.Pairwise NoHit)
    (h : totalEq (.dict A da) (.dict B db) = true) :
    ∃ B', B'.Perm B ∧ F2 Partner A B' := by
  simp only [totalEq, Bool.and_eq_true, beq_iff_eq] at h
  obtain ⟨hlen, hent⟩ := h
  rw [totalEqEntries_iff] at hent
  apply matching Partner A B hlen
  · intro x hx
    obtain ⟨e, hf, hv⟩ := hent x hx
    exact ⟨e, List.mem_of_find?_eq_some hf, List.find?_some hf, hv⟩
  · refine pA.imp_of_mem ?_
    intro x x' hx hx' hno e he hxe hx'e
    obtain ⟨w1, t1⟩ := (hitPred_iff _ _).mp hxe.1
    obtain ⟨w2, t2⟩ := (hitPred_iff _ _).mp hx'e.1
    have t3 := SY _ _ (hA x' hx').1 (hB e he).1 t2
    have t4 := TR _ _ _ (hA x hx).1 (hB e he).1 (hA x' hx').1 t1 t3
    exact hno.1 ((keyHit_iff _ _).mpr ⟨by rw [← w2, w1], t4⟩)

include HC SY TR in
theorem dict_hc (A B : List (Val × Val)) (da db : Option Val)
    (hA : ∀ e ∈ A, S e.1 ∧ S e.2) (hB : ∀ e ∈ B, S e.1 ∧ S e.2) (pA : A.Pairwise NoHit)
    (h : totalEq (.dict A da) (.dict B db) = true) : writes (.dict A da) = writes (.dict B db) := by
  obtain ⟨B', hperm, hf2⟩ := dict_match S SY TR A B da db hA hB pA h
  rw [← dict_hash_order_independent B' B db db hperm]
  have hB' : ∀ e ∈ B', S e.1 ∧ S e.2 := fun e he => hB e (hperm.mem_iff.mp he)
  -- partners have equal per-entry hashes; prove it along the matched lists
  have key : entryHashes A = entryHashes B' := by
    rw [entryHashes_eq_map, entryHashes_eq_map]
    clear hperm h
    induction hf2 with
    | nil => rfl
    | @cons x e as bs hr _ ih =>
      have hx := hA x (List.mem_cons_self ..)
      have he := hB' e (List.mem_cons_self ..)
      obtain ⟨w1, _⟩ := (hitPred_iff _ _).mp hr.1
      have w2 := HC _ _ hx.2 he.2 hr.2
      simp only [List.map_cons]
      rw [w1, w2, ih (fun z hz => hA z (List.mem_cons_of_mem _ hz)) (pA.sublist (List.sublist_cons_self ..))
        (fun z hz => hB' z (List.mem_cons_of_mem _ hz))]
  simp only [writes, key]

include SY TR in
theorem dict_sy (A B : List (Val × Val)) (da db : Option Val)
    (hA : ∀ e ∈ A, S e.1 ∧ S e.2) (hB : ∀ e ∈ B, S e.1 ∧ S e.2) (pA : A.Pairwise NoHit)
    (h : totalEq (.dict A da) (.dict B db) = true) : totalEq (.dict B db) (.dict A da) = true := by
  obtain ⟨B', hperm, hf2⟩ := dict_match S SY TR A B da db hA hB pA h
  simp only [totalEq, Bool.and_eq_true, beq_iff_eq] at h ⊢
  refine ⟨h.1.symm, ?_⟩
  rw [totalEqEntries_iff]
  intro f hf
  obtain ⟨x, hx, hxf⟩ := hf2.right_mem f (hperm.mem_iff.mpr hf)
  obtain ⟨w1, t1⟩ := (hitPred_iff _ _).mp hxf.1
  have t2 := SY _ _ (hA x hx).1 (hB f hf).1 t1
  have hsome : (A.find? (hitPred f.1)).isSome = true :=
    List.find?_isSome.mpr ⟨x, hx, (hitPred_iff _ _).mpr ⟨w1.symm, t2⟩⟩
  obtain ⟨x', hx'⟩ := Option.isSome_iff_exists.mp hsome
  refine ⟨x', hx', ?_⟩
  have hx'A := List.mem_of_find?_eq_some hx'
  obtain ⟨w2, t3⟩ := (hitPred_iff _ _).mp (List.find?_some hx')
  have t4 := TR _ _ _ (hA x hx).1 (hB f hf).1 (hA x' hx'A).1 t1 t3
  have hxx' : x = x' := eq_of_pairwise_not (S := fun a b => keyHit a.1 b.1 = true) pA hx hx'A
    ((keyHit_iff _ _).mpr ⟨by rw [w2, w1], t4⟩)
  subst hxx'
  exact SY _ _ (hA x hx).2 (hB f hf).2 hxf.2

include SY TR in
theorem dict_tr (A B C : List (Val × Val)) (da db dc : Option Val)
    (hA : ∀ e ∈ A, S e.1 ∧ S e.2) (hB : ∀ e ∈ B, S e.1 ∧ S e.2) (hC : ∀ e ∈ C, S e.1 ∧ S e.2)
    (pC : C.Pairwise NoHit)
    (h1 : totalEq (.dict A da) (.dict B db) = true) (h2 : totalEq (.dict B db) (.dict C dc) = true) :
    totalEq (.dict A da) (.dict C dc) = true := by
  simp only [totalEq, Bool.and_eq_true, beq_iff_eq] at h1 h2 ⊢
  refine ⟨h1.1.trans h2.1, ?_⟩
  have e1 := (totalEqEntries_iff A B).mp h1.2
  have e2 := (totalEqEntries_iff B C).mp h2.2
  rw [totalEqEntries_iff]
  intro x hx
  obtain ⟨e, hfe, hve⟩ := e1 x hx
  have heB := List.mem_of_find?_eq_some hfe
  obtain ⟨w1, t1⟩ := (hitPred_iff _ _).mp (List.find?_some hfe)
  obtain ⟨f, hff, hvf⟩ := e2 e heB
  have hfC := List.mem_of_find?_eq_some hff
  obtain ⟨w2, t2⟩ := (hitPred_iff _ _).mp (List.find?_some hff)
  have t3 := TR _ _ _ (hA x hx).1 (hB e heB).1 (hC f hfC).1 t1 t2
  have hsome : (C.find? (hitPred x.1)).isSome = true :=
    List.find?_isSome.mpr ⟨f, hfC, (hitPred_iff _ _).mpr ⟨by rw [w2, w1], t3⟩⟩
  obtain ⟨f', hf'⟩ := Option.isSome_iff_exists.mp hsome
  refine ⟨f', hf', ?_⟩
  have hf'C := List.mem_of_find?_eq_some hf'
  obtain ⟨w3, t4⟩ := (hitPred_iff _ _).mp (List.find?_some hf')
  have t5 := SY _ _ (hA x hx).1 (hC f hfC).1 t3
  have t6 := TR _ _ _ (hC f hfC).1 (hA x hx).1 (hC f' hf'C).1 t5 t4
  have hff' : f = f' := eq_of_pairwise_not (S := fun a b => keyHit a.1 b.1 = true) pC hfC hf'C
    ((keyHit_iff _ _).mpr ⟨by rw [w3, w2, w1], t6⟩)
  subst hff'
  exact TR _ _ _ (hA x hx).2 (hB e heB).2 (hC f hfC).2 hve hvf

end DictCase


theorem pkg (n : Nat) : ∀ a b c : Val, sizeOf a < n → sizeOf b < n → sizeOf c < n →
    KeyWF a → KeyWF b → KeyWF c → Pkg a b c := by
  induction n with
  | zero => intro a _ _ h; exact absurd h (Nat.not_lt_zero _)
  | succ n ih =>
    intro a b c sa sb sc wa wb wc
    let S : Val → Prop := fun v => sizeOf v < n ∧ KeyWF v
    have HC : ∀ u v, S u → S v → totalEq u v = true → writes u = writes v :=
      fun u v hu hv => (ih u v u hu.1 hv.1 hu.1 hu.2 hv.2 hu.2).hc
    have SY : ∀ u v, S u → S v → totalEq u v = true → totalEq v u = true :=
      fun u v hu hv => (ih u v u hu.1 hv.1 hu.1 hu.2 hv.2 hu.2).sy
    have TR : ∀ u v w, S u → S v → S w → totalEq u v = true → totalEq v w = true → totalEq u w = true :=
      fun u v w hu hv hw => (ih u v w hu.1 hv.1 hw.1 hu.2 hv.2 hw.2).tr
    -- members of a list / dict that is ≤ n in size are small
    have Slist : ∀ {xs : List Val}, sizeOf (Val.list xs) < n + 1 → KeyWF (.list xs) → ∀ x ∈ xs, S x := by
      intro xs hs hw x hx
      exact ⟨by have := size_elem hx; omega, (keyWFList_iff xs).mp hw x hx⟩
    have Sdict : ∀ {A : List (Val × Val)} {d : Option Val}, sizeOf (Val.dict A d) < n + 1 → KeyWF (.dict A d) →
        ∀ e ∈ A, S e.1 ∧ S e.2 := by
      intro A d hs hw e he
      have hsz := size_entry (d := d) he
      have hwf := (keyWFEntries_iff A).mp hw.1 e he
      exact ⟨⟨by omega, hwf.1⟩, ⟨by omega, hwf.2⟩⟩
    cases a with
    | null => exact leaf_pkg _ b c rfl wa wb wc
    | num x => exact leaf_pkg _ b c rfl wa wb wc
    | str x => exact leaf_pkg _ b c rfl wa wb wc
    | bytes x => exact leaf_pkg _ b c rfl wa wb wc
    | vec x => exact leaf_pkg _ b c rfl wa wb wc
    | func i => exact absurd wa (by simp [KeyWF])
    | list xs =>
      cases b with
      | list ys =>
        have hx := Slist sa wa
        have hy := Slist sb wb
        refine ⟨?_, ?_, ?_⟩
        · intro h
          simp only [totalEq] at h
          have := list_hc xs ys (fun x hx' y hy' => HC x y (hx x hx') (hy y hy')) h
          simp only [writes, this.1, this.2]
        · intro h
          simp only [totalEq] at h ⊢
          exact list_sy xs ys (fun x hx' y hy' => SY x y (hx x hx') (hy y hy')) h
        · intro h1 h2
          cases c with
          | list zs =>
            have hz := Slist sc wc
            simp only [totalEq] at h1 h2 ⊢
            exact list_tr xs ys zs (fun x hx' y hy' z hz' => TR x y z (hx x hx') (hy y hy') (hz z hz')) h1 h2
          | _ => simp [totalEq] at h2
      | _ => exact ⟨fun h => by simp [totalEq] at h, fun h => by simp [totalEq] at h, fun h => by simp [totalEq] at h⟩
    | dict A da =>
      cases b with
      | dict B db =>
        have hA := Sdict sa wa
        have hB := Sdict sb wb
        refine ⟨?_, ?_, ?_⟩
        · exact dict_hc S HC SY TR A B da db hA hB wa.2
        · exact dict_sy S SY TR A B da db hA hB wa.2
        · intro h1 h2
          cases c with
          | dict C dc => exact dict_tr S SY TR A B C da db dc hA hB (Sdict sc wc) wc.2 h1 h2
          | _ => simp [totalEq] at h2
      | _ => exact ⟨fun h => by simp [totalEq] at h, fun h => by simp [totalEq] at h, fun h => by simp [totalEq] at h⟩

/-- **hash_consistent**: keys that are `total_eq` perform the same hasher writes — for EVERY key
`to_key` can produce, dictionaries nested as keys at any depth included -/
theorem hash_consistent (a b : Val) (ha : KeyWF a) (hb : KeyWF b) (h : totalEq a b = true) :
    writes a = writes b :=
  (pkg (sizeOf a + sizeOf b + 1) a b a (by omega) (by omega) (by omega) ha hb ha).hc h

/-- the statement kept open in Theorems/C09.lean, discharged -/
theorem hash_consistent_holds : hash_consistent_statement := hash_consistent

theorem totalEq_symm (a b : Val) (ha : KeyWF a) (hb : KeyWF b) (h : totalEq a b = true) : totalEq b a = true :=
  (pkg (sizeOf a + sizeOf b + 1) a b a (by omega) (by omega) (by omega) ha hb ha).sy h

theorem totalEq_trans (a b c : Val) (ha : KeyWF a) (hb : KeyWF b) (hc : KeyWF c)
    (h1 : totalEq a b = true) (h2 : totalEq b c = true) : totalEq a c = true :=
  (pkg (sizeOf a + sizeOf b + sizeOf c + 1) a b c (by omega) (by omega) (by omega) ha hb hc).tr h1 h2


/-! ## reflexivity, and the Impl's key equality is the Spec's `≈` on all keys -/

theorem vecTotalEq_refl (xs : List NNum) (h : ∀ n ∈ xs, NNum.WF n) : vecTotalEq xs xs = true := by
  apply listEq_refl
  intro n hn
  rw [numTotalEq_spec n n (h n hn) (h n hn)]; exact numKeyEq_refl n

theorem totalEqList_refl (xs : List Val) (h : ∀ x ∈ xs, totalEq x x = true) : totalEqList xs xs = true := by
  induction xs with
  | nil => rfl
  | cons x xs ih =>
    simp only [totalEqList, Bool.and_eq_true]
    exact ⟨h x (List.mem_cons_self ..), ih (fun y hy => h y (List.mem_cons_of_mem _ hy))⟩

theorem totalEq_refl_aux (n : Nat) : ∀ a : Val, sizeOf a < n → KeyWF a → totalEq a a = true := by
  induction n with
  | zero => intro a h; exact absurd h (Nat.not_lt_zero _)
  | succ n ih =>
    intro a sa wa
    cases a with
    | null => rfl
    | num x => simp only [totalEq]; rw [numTotalEq_spec x x wa wa]; exact numKeyEq_refl x
    | str x => simp [totalEq]
    | bytes x => simp [totalEq]
    | vec x => simp only [totalEq]; exact vecTotalEq_refl x wa
    | func i => exact absurd wa (by simp [KeyWF])
    | list xs =>
      simp only [totalEq]
      apply totalEqList_refl
      intro x hx
      exact ih x (by have := size_elem hx; omega) ((keyWFList_iff xs).mp wa x hx)
    | dict A da =>
      simp only [totalEq, beq_self_eq_true, Bool.true_and]
      rw [totalEqEntries_iff]
      intro x hx
      have hsz := size_entry (d := da) hx
      have hwf := (keyWFEntries_iff A).mp wa.1 x hx
      have r1 := ih x.1 (by omega) hwf.1
      have hsome : (A.find? (hitPred x.1)).isSome = true :=
        List.find?_isSome.mpr ⟨x, hx, (hitPred_iff _ _).mpr ⟨rfl, r1⟩⟩
      obtain ⟨x', hx'⟩ := Option.isSome_iff_exists.mp hsome
      refine ⟨x', hx', ?_⟩
      have hx'A := List.mem_of_find?_eq_some hx'
      obtain ⟨w, t⟩ := (hitPred_iff _ _).mp (List.find?_some hx')
      have : x = x' := eq_of_pairwise_not (S := fun a b => keyHit a.1 b.1 = true) wa.2 hx hx'A
        ((keyHit_iff _ _).mpr ⟨w, t⟩)
      subst this
      exact ih x.2 (by omega) hwf.2

theorem totalEq_refl (a : Val) (ha : KeyWF a) : totalEq a a = true :=
  totalEq_refl_aux (sizeOf a + 1) a (by omega) ha

theorem totalEqList_spec_of (xs : List Val) : ∀ ys : List Val,
    (∀ x ∈ xs, ∀ y ∈ ys, totalEq x y = keyEq x y) → totalEqList xs ys = keyEqList xs ys := by
  induction xs with
  | nil => intro ys _; cases ys <;> rfl
  | cons x xs ih =>
    intro ys H
    cases ys with
    | nil => rfl
    | cons y ys =>
      simp only [totalEqList, keyEqList]
      rw [H x (List.mem_cons_self ..) y (List.mem_cons_self ..),
        ih ys (fun a ha b hb => H a (List.mem_cons_of_mem _ ha) b (List.mem_cons_of_mem _ hb))]

theorem find_pred_congr {α : Type} (p q : α → Bool) (l : List α) (h : ∀ x ∈ l, p x = q x) :
    l.find? p = l.find? q := by
  induction l with
  | nil => rfl
  | cons a l ih =>
    simp only [List.find?_cons]
    rw [h a (List.mem_cons_self ..), ih (fun x hx => h x (List.mem_cons_of_mem _ hx))]

theorem totalEqEntries_spec_of (A B : List (Val × Val))
    (Hk : ∀ x ∈ A, ∀ e ∈ B, hitPred x.1 e = keyEq x.1 e.1)
    (Hv : ∀ x ∈ A, ∀ e ∈ B, totalEq x.2 e.2 = keyEq x.2 e.2) :
    totalEqEntries A B = keyEqEntries A B := by
  induction A with
  | nil => rfl
  | cons x A ih =>
    obtain ⟨k, v⟩ := x
    simp only [totalEqEntries, keyEqEntries]
    have hfind : B.find? (fun e => decide (writes e.1 = writes k) && totalEq k e.1) = B.find? (fun e => keyEq k e.1) :=
      find_pred_congr _ _ B (fun e he => Hk (k, v) (List.mem_cons_self ..) e he)
    rw [hfind, ih (fun a ha => Hk a (List.mem_cons_of_mem _ ha)) (fun a ha => Hv a (List.mem_cons_of_mem _ ha))]
    cases hf : B.find? (fun e => keyEq k e.1) with
    | none => rfl
    | some e =>
      simp only
      rw [Hv (k, v) (List.mem_cons_self ..) e (List.mem_of_find?_eq_some hf)]

theorem totalEq_spec_aux (n : Nat) : ∀ a b : Val, sizeOf a < n → sizeOf b < n → KeyWF a → KeyWF b →
    totalEq a b = keyEq a b := by
  induction n with
  | zero => intro a _ h; exact absurd h (Nat.not_lt_zero _)
  | succ n ih =>
    intro a b sa sb wa wb
    cases a with
    | null => cases b <;> rfl
    | num x => cases b <;> simp only [totalEq, keyEq]; exact numTotalEq_spec x _ wa wb
    | str x => cases b <;> rfl
    | bytes x => cases b <;> rfl
    | vec x => cases b <;> simp only [totalEq, keyEq]; exact vecTotalEq_spec x _ wa wb
    | func i => exact absurd wa (by simp [KeyWF])
    | list xs =>
      cases b <;> simp only [totalEq, keyEq]
      rename_i ys
      apply totalEqList_spec_of
      intro x hx y hy
      exact ih x y (by have := size_elem hx; omega) (by have := size_elem hy; omega)
        ((keyWFList_iff xs).mp wa x hx) ((keyWFList_iff ys).mp wb y hy)
    | dict A da =>
      cases b <;> simp only [totalEq, keyEq]
      rename_i B db
      congr 1
      apply totalEqEntries_spec_of
      · intro x hx e he
        have s1 := size_entry (d := da) hx
        have s2 := size_entry (d := db) he
        have w1 := (keyWFEntries_iff A).mp wa.1 x hx
        have w2 := (keyWFEntries_iff B).mp wb.1 e he
        have := ih x.1 e.1 (by omega) (by omega) w1.1 w2.1
        rw [← this]
        cases ht : totalEq x.1 e.1 with
        | false => simp [hitPred, ht]
        | true =>
          have hw := hash_consistent x.1 e.1 w1.1 w2.1 ht
          simp [hitPred, ht, hw]
      · intro x hx e he
        have s1 := size_entry (d := da) hx
        have s2 := size_entry (d := db) he
        have w1 := (keyWFEntries_iff A).mp wa.1 x hx
        have w2 := (keyWFEntries_iff B).mp wb.1 e he
        exact ih x.2 e.2 (by omega) (by omega) w1.2 w2.2

/-- on every key the Impl's `total_eq_of_keys` (which looks nested dictionaries up through their
hashes) is the Spec's `≈` (which does not know about hashes) -/
theorem totalEq_spec_full (a b : Val) (ha : KeyWF a) (hb : KeyWF b) : totalEq a b = keyEq a b :=
  totalEq_spec_aux (sizeOf a + sizeOf b + 1) a b (by omega) (by omega) ha hb

/-- **the HashMap sees exactly the Spec's `≈`, for every key** -/
theorem keyHit_spec_full (k k' : Val) (hk : KeyWF k) (hk' : KeyWF k') : keyHit k k' = DictSpec.hit k k' := by
  unfold keyHit DictSpec.hit
  rw [← totalEq_spec_full k k' hk hk']
  cases h : totalEq k k' with
  | false => simp
  | true => simp [hash_consistent k k' hk hk' h]

theorem impl_isEquiv_full : IsEquivOn keyHit KeyWF where
  refl := fun k hk => (keyHit_iff _ _).mpr ⟨rfl, totalEq_refl k hk⟩
  symm := fun a b ha hb => by
    cases h1 : keyHit a b with
    | true =>
      obtain ⟨w, t⟩ := (keyHit_iff _ _).mp h1
      exact ((keyHit_iff _ _).mpr ⟨w.symm, totalEq_symm a b ha hb t⟩).symm
    | false =>
      cases h2 : keyHit b a with
      | false => rfl
      | true =>
        obtain ⟨w, t⟩ := (keyHit_iff _ _).mp h2
        have := (keyHit_iff a b).mpr ⟨w.symm, totalEq_symm b a hb ha t⟩
        rw [h1] at this; cases this
  trans := fun a b c ha hb hc h1 h2 => by
    obtain ⟨w1, t1⟩ := (keyHit_iff _ _).mp h1
    obtain ⟨w2, t2⟩ := (keyHit_iff _ _).mp h2
    exact (keyHit_iff _ _).mpr ⟨by rw [w2, w1], totalEq_trans a b c ha hb hc t1 t2⟩

theorem spec_isEquiv_full : IsEquivOn DictSpec.hit KeyWF where
  refl := fun k hk => by rw [← keyHit_spec_full k k hk hk]; exact impl_isEquiv_full.refl k hk
  symm := fun a b ha hb => by
    rw [← keyHit_spec_full a b ha hb, ← keyHit_spec_full b a hb ha]; exact impl_isEquiv_full.symm a b ha hb
  trans := fun a b c ha hb hc h1 h2 => by
    rw [← keyHit_spec_full a b ha hb] at h1; rw [← keyHit_spec_full b c hb hc] at h2
    rw [← keyHit_spec_full a c ha hc]; exact impl_isEquiv_full.trans a b c ha hb hc h1 h2


/-! ## every dictionary operation refines the finite map — for ALL keys -/

mutual
theorem keyWF_valid (k : Val) (h : KeyWF k) : validKey k = true := by
  cases k with
  | null => rfl
  | num n => rfl
  | str _ => rfl
  | bytes _ => rfl
  | vec _ => rfl
  | list xs => simp only [validKey]; exact keyWFList_valid xs h
  | dict kvs _ => simp only [validKey]; exact keyWFEntries_valid kvs h.1
  | func _ => exact absurd h (by simp [KeyWF])
theorem keyWFList_valid (xs : List Val) (h : KeyWFList xs) : validKeys xs = true := by
  cases xs with
  | nil => rfl
  | cons x xs =>
    simp only [KeyWFList] at h
    simp only [validKeys, Bool.and_eq_true]
    exact ⟨keyWF_valid x h.1, keyWFList_valid xs h.2⟩
theorem keyWFEntries_valid (kvs : List (Val × Val)) (h : KeyWFEntries kvs) : validEntries kvs = true := by
  cases kvs with
  | nil => rfl
  | cons e kvs =>
    obtain ⟨k, v⟩ := e
    simp only [KeyWFEntries] at h
    simp only [validEntries, Bool.and_eq_true]
    exact ⟨⟨keyWF_valid k h.1, keyWF_valid v h.2.1⟩, keyWFEntries_valid kvs h.2.2⟩
end

/-- a dictionary-free key (`KeyOK`) is in particular a key -/
theorem keyWF_of_keyOK_aux (n : Nat) : ∀ k : Val, sizeOf k < n → KeyOK k → KeyWF k := by
  induction n with
  | zero => intro k h; exact absurd h (Nat.not_lt_zero _)
  | succ n ih =>
    intro k sk hk
    cases k with
    | list xs =>
      simp only [KeyWF]
      rw [keyWFList_iff]
      intro x hx
      have : KeyOK x := by
        clear sk ih
        induction xs with
        | nil => cases hx
        | cons y ys ihy =>
          simp only [KeyOK, KeyOKList] at hk
          rcases List.mem_cons.mp hx with rfl | h
          · exact hk.1
          · exact ihy (by simpa [KeyOK] using hk.2) h
      exact ih x (by have := size_elem hx; omega) this
    | dict _ _ => exact absurd hk (by simp [KeyOK])
    | func _ => exact absurd hk (by simp [KeyOK])
    | null => trivial
    | num n => exact hk
    | str _ => trivial
    | bytes _ => trivial
    | vec _ => exact hk

theorem keyWF_of_keyOK (k : Val) (h : KeyOK k) : KeyWF k := keyWF_of_keyOK_aux (sizeOf k + 1) k (by omega) h

/-- all stored keys of a dictionary value are keys -/
def DictWF : Val → Prop
  | .dict kvs _ => ∀ e ∈ kvs, KeyWF e.1
  | _ => True

/-- **dict_refines_finmap, full strength**: reads and single-key writes with keys of ANY nesting
(dictionaries as keys included) return what the finite map on `≈`-classes returns -/
theorem dict_refines_finmap_full (d k v : Val) (hd : DictWF d) (hk : KeyWF k) :
    DictOps.index keyHit d k = DictOps.index DictSpec.hit d k ∧
    DictOps.safeIndex keyHit d k = DictOps.safeIndex DictSpec.hit d k ∧
    DictOps.isIn keyHit k d = DictOps.isIn DictSpec.hit k d ∧
    DictOps.setIndex keyHit d k v = DictOps.setIndex DictSpec.hit d k v ∧
    DictOps.addKey keyHit d k = DictOps.addKey DictSpec.hit d k ∧
    DictOps.delKey keyHit d k = DictOps.delKey DictSpec.hit d k ∧
    DictOps.remove keyHit d k = DictOps.remove DictSpec.hit d k := by
  have H : ∀ k e, KeyWF k → KeyWF e → keyHit k e = DictSpec.hit k e := keyHit_spec_full
  cases d with
  | dict kvs dflt =>
    have hkv : ∀ e ∈ kvs, KeyWF e.1 := hd
    have hv := keyWF_valid k hk
    simp only [DictOps.index, DictOps.safeIndex, DictOps.isIn, DictOps.setIndex, DictOps.addKey, DictOps.delKey,
      DictOps.remove, DictOps.toKey, hv, if_true, Out.bind, Out.map,
      lookup_congr H kvs k hkv hk, contains_congr2 H kvs k hkv hk, insert_congr H kvs k _ hkv hk,
      erase_congr H kvs k hkv hk]
    simp
  | _ => simp [DictOps.index, DictOps.safeIndex, DictOps.isIn, DictOps.setIndex, DictOps.addKey, DictOps.delKey,
      DictOps.remove]

theorem dict_refines_finmap_binary_full (a b : Val) (ha : DictWF a) (hb : DictWF b) :
    DictOps.union keyHit a b = DictOps.union DictSpec.hit a b ∧
    DictOps.inter keyHit a b = DictOps.inter DictSpec.hit a b ∧
    DictOps.diff keyHit a b = DictOps.diff DictSpec.hit a b := by
  have H : ∀ k e, KeyWF k → KeyWF e → keyHit k e = DictSpec.hit k e := keyHit_spec_full
  cases a <;> cases b <;> simp only [DictOps.union, DictOps.inter, DictOps.diff, and_self]
  rename_i x dx y dy
  have hx : ∀ e ∈ x, KeyWF e.1 := ha
  have hy : ∀ e ∈ y, KeyWF e.1 := hb
  refine ⟨?_, ?_, ?_⟩
  · rw [insertAll_congr H x y hx hy]
  · have := filter_congr H x y true hx hy
    simp only [beq_true] at this
    rw [this]
  · have := filter_congr H x y false hx hy
    simp only [beq_false] at this
    rw [this]

theorem all_valid_of_keyWF (xs : List Val) (h : ∀ x ∈ xs, KeyWF x) : xs.all validKey = true := by
  rw [List.all_eq_true]; intro x hx; exact keyWF_valid x (h x hx)

theorem dict_refines_finmap_builders_full (xs : List Val) (ps : Entries) (dflt : Option Val)
    (hx : ∀ x ∈ xs, KeyWF x) (hp : ∀ e ∈ ps, KeyWF e.1) :
    DictOps.literal keyHit dflt ps = DictOps.literal DictSpec.hit dflt ps ∧
    DictOps.mkSet keyHit xs = DictOps.mkSet DictSpec.hit xs ∧
    DictOps.unique keyHit xs = DictOps.unique DictSpec.hit xs ∧
    DictOps.frequencies keyHit xs = DictOps.frequencies DictSpec.hit xs ∧
    DictOps.countDistinct keyHit xs = DictOps.countDistinct DictSpec.hit xs ∧
    DictOps.classify keyHit xs = DictOps.classify DictSpec.hit xs ∧
    DictOps.groupAll keyHit xs = DictOps.groupAll DictSpec.hit xs ∧
    DictOps.memoize keyHit xs = DictOps.memoize DictSpec.hit xs := by
  have H : ∀ k e, KeyWF k → KeyWF e → keyHit k e = DictSpec.hit k e := keyHit_spec_full
  have hnil : ∀ e ∈ ([] : Entries), KeyWF e.1 := by intro e he; cases he
  have hxs : ∀ e ∈ xs.map (fun x => (x, Val.null)), KeyWF e.1 := by
    intro e he
    obtain ⟨x, hx', rfl⟩ := List.mem_map.mp he
    exact hx x hx'
  refine ⟨?_, ?_, ?_, ?_, ?_, ?_, ?_, ?_⟩
  · simp only [DictOps.literal, insertAll_congr H [] ps hnil hp]
  · simp only [DictOps.mkSet, insertAll_congr H [] _ hnil hxs]
  · simp only [DictOps.unique, uniqueLoop_congr H xs [] hnil hx]
  · simp only [DictOps.frequencies, freqLoop_congr H xs [] hnil hx]
  · simp only [DictOps.countDistinct, uniqueLoop_congr H xs [] hnil hx]
  · simp only [DictOps.classify, groupLoop_congr H xs [] hnil hx]
  · simp only [DictOps.groupAll, groupLoop_congr H xs [] hnil hx]
  · simp only [DictOps.memoize, memoLoop_congr H xs [] hnil hx]

theorem dict_refines_finmap_update_full (a b d k v : Val) (f : String) (ha : DictWF a) (hb : DictWF b)
    (hd : DictWF d) (hk : KeyWF k) :
    DictOps.unionAdd keyHit a b = DictOps.unionAdd DictSpec.hit a b ∧
    DictOps.opAssign keyHit d k f v = DictOps.opAssign DictSpec.hit d k f v ∧
    DictOps.insertPair keyHit d (.list [k, v]) = DictOps.insertPair DictSpec.hit d (.list [k, v]) := by
  have H : ∀ k e, KeyWF k → KeyWF e → keyHit k e = DictSpec.hit k e := keyHit_spec_full
  refine ⟨?_, ?_, ?_⟩
  · cases a <;> cases b <;> simp only [DictOps.unionAdd]
    rename_i x dx y dy
    rw [unionAddLoop_congr H y x ha hb]
  · have hidx := (dict_refines_finmap_full d k v hd hk).1
    cases d with
    | dict kvs dflt =>
      have hkv : ∀ e ∈ kvs, KeyWF e.1 := hd
      simp only [DictOps.opAssign, hidx, insert_congr H kvs k .null hkv hk]
      cases DictOps.index DictSpec.hit (.dict kvs dflt) k with
      | ok lhs =>
        simp only
        cases combine f lhs v with
        | ok c =>
          simp only
          rw [insert_congr H _ k c (insert_keys DictSpec.hit kvs k .null hkv hk) hk]
        | throw => rfl
        | panic => rfl
      | throw => rfl
      | panic => rfl
    | _ => rfl
  · simp only [DictOps.insertPair]
    exact (dict_refines_finmap_full d k v hd hk).2.2.2.1

/-- the finite-map laws for the REAL dictionary, on all keys -/
theorem impl_lookup_insert_full (d : Entries) (k k' v : Val) (hd : ∀ e ∈ d, KeyWF e.1) (hk : KeyWF k) (hk' : KeyWF k') :
    lookup keyHit (DictOps.insert keyHit d k v) k' = if keyEq k' k then some v else lookup keyHit d k' := by
  rw [lookup_insert impl_isEquiv_full d k k' v hd hk hk', keyHit_spec_full k' k hk' hk]; rfl

theorem impl_lookup_erase_full (d : Entries) (k k' : Val) (hd : Inv keyHit KeyWF d) (hk : KeyWF k) (hk' : KeyWF k') :
    lookup keyHit (DictOps.erase keyHit d k) k' = if keyEq k' k then none else lookup keyHit d k' := by
  rw [lookup_erase impl_isEquiv_full d k k' hd hk hk', keyHit_spec_full k' k hk' hk]; rfl

/-- `insert` keeps the HashMap invariant a nested dictionary key relies on -/
theorem impl_inv_insert_full (d : Entries) (k v : Val) (hd : Inv keyHit KeyWF d) (hk : KeyWF k) :
    Inv keyHit KeyWF (DictOps.insert keyHit d k v) := inv_insert impl_isEquiv_full d k v hd hk

/-! ## non-vacuity: nested dictionaries as keys -/
example : KeyWF (.dict [(.num (.int (.small 1)), .num (.float (.fin 1 1))), (.str [97], .dict [] none)] none) := by
  simp only [KeyWF, KeyWFEntries, NNum.WF, NInt.WF, true_and, and_true]
  refine ⟨by decide, ?_⟩
  simp only [List.pairwise_cons, List.mem_cons, List.mem_nil_iff, or_false, forall_eq, List.Pairwise.nil, and_true,
    false_imp_iff, implies_true]
  decide +kernel
example : totalEq (.dict [(.num (.int (.small 1)), .num (.float (.fin 1 1)))] none)
    (.dict [(.num (.rat 1), .num (.int (.small 2)))] none) = true := by decide +kernel

/-! ## signed zeros in complex keys -/

/-- a complex number whose imaginary part is `+0.0` OR `-0.0` (IEEE `== 0.0`, not `total_cmp`) is
`==` to its real part and performs exactly the hasher writes of that real number -/
theorem complex_zero_im_hash (re im : F64) (hre : re.isNan = false) (him : im.isNan = false)
    (hz : im.ext = .fin 0) :
    NNum.totalHash (.complex re im) = NNum.totalHash (.float re) ∧
    NNum.totalEq (.complex re im) (.float re) = true := by
  constructor
  · simp only [NNum.totalHash, hre, him, Bool.or_self, Bool.false_eq_true, if_false, feq_zero im him, hz,
      decide_true, if_true]
  · have h1 : F64.feq re re = true := by simp [F64.feq, hre]
    have h2 : F64.feq im (.fin 0 0) = true := by rw [feq_zero im him, hz]; simp
    simp [NNum.totalEq, NNum.eq, NNum.projectToReals, NReal.eq, h1, h2]

example : NNum.totalHash (.complex (.fin (-1) 0) .nzero) = NNum.totalHash (.int (.small (-1))) := by decide +kernel
example : keyHit (.num (.int (.small (-1)))) (.num (.complex (.fin (-1) 0) .nzero)) = true := by decide +kernel
example : keyHit (.list [.num (.float .nzero)]) (.list [.num (.complex .nzero .nzero)]) = true := by decide +kernel


/-! ## `==` on dictionaries: values are compared with `==` (NaN ≠ NaN), contents only -/

theorem valEqEntries_iff (A B : List (Val × Val)) :
    valEqEntries A B = true ↔
      ∀ x ∈ A, ∃ e, B.find? (fun e => keyHit x.1 e.1) = some e ∧ valEq x.2 e.2 = true := by
  induction A with
  | nil => simp [valEqEntries]
  | cons x A ih =>
    obtain ⟨k, v⟩ := x
    simp only [valEqEntries, Bool.and_eq_true, ih, List.mem_cons, forall_eq_or_imp]
    constructor
    · rintro ⟨h1, h2⟩
      refine ⟨?_, h2⟩
      cases hf : B.find? (fun e => keyHit k e.1) with
      | none => rw [hf] at h1; simp at h1
      | some e => rw [hf] at h1; exact ⟨e, rfl, h1⟩
    · rintro ⟨⟨e, hf, hv⟩, h2⟩
      refine ⟨?_, h2⟩
      have : B.find? (fun e => keyHit k e.1) = some e := hf
      rw [this]; exact hv

/-- **dict_eq_not_reflexive_with_nan_value**: a dictionary (a real map: no two stored keys hit each
other) one of whose VALUES is not `==` to itself — a NaN, a list or dictionary containing a NaN, at
any depth — is not `==` to itself; keys treat NaN as equal to itself, values do not.  There is no
identity shortcut: the answer is a function of the contents. -/
theorem dict_eq_not_reflexive_with_nan_value (A : List (Val × Val)) (d d' : Option Val) (pA : A.Pairwise NoHit)
    (x : Val × Val) (hx : x ∈ A) (hv : valEq x.2 x.2 = false) :
    valEq (.dict A d) (.dict A d') = false := by
  cases h : valEq (.dict A d) (.dict A d') with
  | false => rfl
  | true =>
    simp only [valEq, Bool.and_eq_true] at h
    obtain ⟨e, hf, he⟩ := (valEqEntries_iff A A).mp h.2 x hx
    have heA := List.mem_of_find?_eq_some hf
    have hhit : keyHit x.1 e.1 = true := List.find?_some (p := fun (e : Val × Val) => keyHit x.1 e.1) hf
    have : x = e := eq_of_pairwise_not (S := fun a b => keyHit a.1 b.1 = true) pA hx heA hhit
    subst this
    rw [hv] at he; cases he

/-- **dict_eq_depends_only_on_contents** (left operand): `==` does not depend on the order in which
the entries of the left dictionary are stored (nor on any sharing history — the model has none) -/
theorem dict_eq_depends_only_on_contents (A A' B : List (Val × Val)) (d d' e : Option Val) (h : A.Perm A') :
    valEq (.dict A d) (.dict B e) = valEq (.dict A' d') (.dict B e) := by
  simp only [valEq, h.length_eq]
  congr 1
  apply Bool.eq_iff_iff.mpr
  rw [valEqEntries_iff, valEqEntries_iff]
  constructor
  · intro H x hx; exact H x (h.mem_iff.mpr hx)
  · intro H x hx; exact H x (h.mem_iff.mp hx)

/-- … and on the right operand as well, for real maps with keys of any nesting -/
theorem dict_eq_depends_only_on_contents_right (A B B' : List (Val × Val)) (d e e' : Option Val)
    (hA : ∀ x ∈ A, KeyWF x.1) (hB : ∀ x ∈ B, KeyWF x.1) (pB : B.Pairwise NoHit) (h : B.Perm B') :
    valEq (.dict A d) (.dict B e) = valEq (.dict A d) (.dict B' e') := by
  have pB' : B'.Pairwise NoHit := by
    refine h.pairwise pB ?_
    intro a b hab; exact ⟨hab.2, hab.1⟩
  have hB' : ∀ x ∈ B', KeyWF x.1 := fun x hx => hB x (h.mem_iff.mpr hx)
  -- the entry found for a key is the same in both orders
  have key : ∀ (C C' : List (Val × Val)), C.Perm C' → (∀ x ∈ C, KeyWF x.1) → C'.Pairwise NoHit →
      ∀ x ∈ A, ∀ f, C.find? (fun e => keyHit x.1 e.1) = some f → C'.find? (fun e => keyHit x.1 e.1) = some f := by
    intro C C' hp hC pC' x hx f hf
    have hfC := List.mem_of_find?_eq_some hf
    have hhit : keyHit x.1 f.1 = true := List.find?_some (p := fun (e : Val × Val) => keyHit x.1 e.1) hf
    have hsome : (C'.find? (fun e => keyHit x.1 e.1)).isSome = true :=
      List.find?_isSome.mpr ⟨f, hp.mem_iff.mp hfC, hhit⟩
    obtain ⟨f', hf'⟩ := Option.isSome_iff_exists.mp hsome
    have hf'C := List.mem_of_find?_eq_some hf'
    have hhit' : keyHit x.1 f'.1 = true := List.find?_some (p := fun (e : Val × Val) => keyHit x.1 e.1) hf'
    have E := impl_isEquiv_full
    have kx := hA x hx
    have kf := hC f hfC
    have kf' := hC f' (hp.mem_iff.mpr hf'C)
    have h1 : keyHit f.1 x.1 = true := by rw [E.symm f.1 x.1 kf kx]; exact hhit
    have h2 := E.trans f.1 x.1 f'.1 kf kx kf' h1 hhit'
    have : f = f' := eq_of_pairwise_not (S := fun a b => keyHit a.1 b.1 = true) pC' (hp.mem_iff.mp hfC) hf'C h2
    rw [hf', this]
  simp only [valEq, h.length_eq]
  congr 1
  apply Bool.eq_iff_iff.mpr
  rw [valEqEntries_iff, valEqEntries_iff]
  constructor
  · intro H x hx
    obtain ⟨f, hf, hv⟩ := H x hx
    exact ⟨f, key B B' h hB pB' x hx f hf, hv⟩
  · intro H x hx
    obtain ⟨f, hf, hv⟩ := H x hx
    exact ⟨f, key B' B h.symm hB' pB x hx f hf, hv⟩

/-! the three depths the harness exercises -/
example : valEq (.dict [(.num (.int (.small 1)), .num (.float .nan))] none)
    (.dict [(.num (.int (.small 1)), .num (.float .nan))] none) = false := by decide +kernel
example : valEq (.dict [(.num (.int (.small 1)), .list [.num (.float .nan)])] none)
    (.dict [(.num (.int (.small 1)), .list [.num (.float .nan)])] none) = false := by decide +kernel
example : valEq (.dict [(.num (.int (.small 1)), .dict [(.num (.int (.small 2)), .num (.float .nan))] none)] none)
    (.dict [(.num (.int (.small 1)), .dict [(.num (.int (.small 2)), .num (.float .nan))] none)] none) = false := by
  decide +kernel
example : valEq (.dict [(.num (.float .nan), .num (.int (.small 1)))] none)
    (.dict [(.num (.float .nan), .num (.int (.small 1)))] none) = true := by decide +kernel


/-! ## a dictionary's DEFAULT is not part of its identity as a key; memoize keys on the argument TUPLE -/

/-- **key_eq_ignores_default**: key equality, the hasher writes and `==` of a dictionary do not
look at its default value — `{:0, 1: 1}`, `frequencies([1])` and `{1: 1}` are one key -/
theorem key_eq_ignores_default (A B : List (Val × Val)) (d d' e e' : Option Val) :
    totalEq (.dict A d) (.dict B e) = totalEq (.dict A d') (.dict B e') ∧
    writes (.dict A d) = writes (.dict A d') ∧
    valEq (.dict A d) (.dict B e) = valEq (.dict A d') (.dict B e') ∧
    keyHit (.dict A d) (.dict B e) = keyHit (.dict A d') (.dict B e') ∧
    keyEq (.dict A d) (.dict B e) = keyEq (.dict A d') (.dict B e') :=
  ⟨rfl, rfl, rfl, rfl, rfl⟩

/-- the default does not matter for being a key either -/
theorem keyWF_ignores_default (A : List (Val × Val)) (d d' : Option Val) :
    KeyWF (.dict A d) ↔ KeyWF (.dict A d') := Iff.rfl

/-- memoize: the cache key is the argument tuple; two calls share a cache entry exactly when
their tuples have the same length and are element-wise `≈` -/
theorem memo_tuples_collide_iff (q s : List Val) (hq : KeyWF (.list q)) (hs : KeyWF (.list s)) :
    keyHit (.list q) (.list s) = keyEqList q s := by
  rw [keyHit_spec_full _ _ hq hs]; rfl

theorem keyEqList_length (q s : List Val) (h : keyEqList q s = true) : q.length = s.length := by
  induction q generalizing s with
  | nil => cases s <;> simp_all [keyEqList]
  | cons x xs ih =>
    cases s with
    | nil => simp [keyEqList] at h
    | cons y ys =>
      simp only [keyEqList, Bool.and_eq_true] at h
      simp [ih ys h.2]

theorem totalEqList_length (q s : List Val) (h : totalEqList q s = true) : q.length = s.length := by
  induction q generalizing s with
  | nil => cases s <;> simp_all [totalEqList]
  | cons x xs ih =>
    cases s with
    | nil => simp [totalEqList] at h
    | cons y ys =>
      simp only [totalEqList, Bool.and_eq_true] at h
      simp [ih ys h.2]

/-- **distinct tuples never collide**: calls of different arity — `f([1, 2])` vs `f(1, 2)`,
`f([])` vs `f()` — never share a cache entry, whatever the arguments are -/
theorem memo_distinct_arity (q s : List Val) (h : q.length ≠ s.length) : keyHit (.list q) (.list s) = false := by
  cases hk : keyHit (.list q) (.list s) with
  | false => rfl
  | true =>
    have := (keyHit_iff _ _).mp hk
    simp only [totalEq] at this
    exact absurd (totalEqList_length q s this.2) h

/-- the unary call with a list and the call with that list's elements are different tuples -/
theorem memo_list_vs_args (xs : List Val) (h : xs.length ≠ 1) : keyHit (.list [.list xs]) (.list xs) = false :=
  memo_distinct_arity _ _ (by simpa using fun hh => h hh.symm)

theorem memoCallsLoop_congr {h1 h2 : Val → Val → Bool} {P : Val → Prop}
    (H : ∀ k e, P k → P e → h1 k e = h2 k e) (calls : List (List Val)) (memo : Entries)
    (hs : ∀ e ∈ memo, P e.1) (hx : ∀ args ∈ calls, P (.list args)) :
    memoCallsLoop h1 memo calls = memoCallsLoop h2 memo calls := by
  induction calls generalizing memo with
  | nil => rfl
  | cons args rest ih =>
    have hP : P (.list args) := hx args (List.mem_cons_self ..)
    simp only [memoCallsLoop]
    rw [lookup_congr H memo _ hs hP, insert_congr H memo _ _ hs hP,
      ih memo hs (fun y hy => hx y (List.mem_cons_of_mem _ hy)),
      ih _ (insert_keys h2 memo _ _ hs hP) (fun y hy => hx y (List.mem_cons_of_mem _ hy))]

/-- memoize with calls of every arity refines the finite map keyed by `≈`-classes of tuples -/
theorem memoize_calls_refines (calls : List (List Val)) (h : ∀ args ∈ calls, KeyWF (.list args)) :
    DictOps.memoizeCalls keyHit calls = DictOps.memoizeCalls DictSpec.hit calls := by
  simp only [DictOps.memoizeCalls]
  rw [memoCallsLoop_congr (P := KeyWF) keyHit_spec_full calls [] (by intro e he; cases he) h]

example : keyHit (.list [.list [.num (.int (.small 1)), .num (.int (.small 2))]])
    (.list [.num (.int (.small 1)), .num (.int (.small 2))]) = false := by decide +kernel
example : keyHit (.list [.list []]) (.list []) = false := by decide +kernel
example : keyHit (.list [.num (.int (.small 1)), .num (.int (.small 2))])
    (.list [.num (.float (.fin 1 0)), .num (.rat 2)]) = true := by decide +kernel
example : keyHit (.dict [(.num (.int (.small 1)), .num (.int (.small 1)))] (some (.num (.int (.small 0)))))
    (.dict [(.num (.int (.small 1)), .num (.int (.small 1)))] none) = true := by
  have hwf : KeyWF (.dict [(.num (.int (.small 1)), .num (.int (.small 1)))] none) := by
    simp only [KeyWF, KeyWFEntries, NNum.WF, NInt.WF, and_true, List.pairwise_cons, List.not_mem_nil,
      false_imp_iff, implies_true, List.Pairwise.nil]
    decide
  exact impl_isEquiv_full.refl _ hwf


/-! ## op-assign whose right-hand side reads the dictionary being updated -/

theorem rhsEval_refines (d k2 : Val) (form : String) (hd : DictWF d) (hk2 : KeyWF k2) :
    DictOps.rhsEval keyHit d form k2 = DictOps.rhsEval DictSpec.hit d form k2 := by
  have h := dict_refines_finmap_full d k2 .null hd hk2
  unfold DictOps.rhsEval
  split
  · exact h.1
  · exact h.2.1
  · rfl
  · rfl
  · have := h.2.2.1
    cases d <;> simp_all [DictOps.isIn]
  · rfl

/-- `d[k] f= <rhs reading d>` refines the finite map: the right-hand side sees the dictionary
BEFORE the update (the entry being updated still holds its old value, whichever spelling of the
key the right-hand side uses) -/
theorem opAssignRhs_refines (d k k2 : Val) (f form : String) (hd : DictWF d) (hk : KeyWF k) (hk2 : KeyWF k2) :
    DictOps.opAssignRhs keyHit d k f form k2 = DictOps.opAssignRhs DictSpec.hit d k f form k2 := by
  unfold DictOps.opAssignRhs
  rw [(dict_refines_finmap_full d k .null hd hk).1, rhsEval_refines d k2 form hd hk2]
  cases DictOps.index DictSpec.hit d k with
  | ok lhs =>
    simp only
    cases DictOps.rhsEval DictSpec.hit d form k2 with
    | ok v => exact (dict_refines_finmap_update_full d d d k v f hd hd hd hk).2.1
    | throw => rfl
    | panic => rfl
  | throw => rfl
  | panic => rfl

/-- reading the entry being updated through an equal key of another spelling gives its OLD value -/
example : (DictOps.rhsEval keyHit (.dict [(.num (.int (.small 1)), .num (.int (.small 5)))] none) "get"
    (.num (.float (.fin 1 0)))).map numOf = .ok (some (.int (.small 5))) := by decide +kernel


end Noulith.C09
