/-
C12, part 7 — the precedence levels of `Impl/PatternChain.lean` are the REGISTERED ones.

`Generated/C12Tables.lean` is rewritten from /repo/src/lib.rs and core.rs by `tools/extract_c12.py` on
every `./check C12` run.  `biPrecedence_registered` decides in the kernel that, for every operator
the operator patterns of this property use, the level and associativity written by hand in
`biPrecedence` are those of the registration (explicit precedence if one is given, otherwise
`default_precedence` of the registered name through the character table) — a change of a registered
precedence or associativity in the source breaks this obligation instead of leaving the model stale.
-/
import NoulithModel.Impl.PatternChain
import NoulithModel.Generated.C12Tables

namespace Noulith.C12
open Noulith.Chain

/-- the precedence an operator name is registered with, from the generated table -/
def registeredPrecedence (name : String) : Option Precedence :=
  match Gen.registrations.find? (fun r => r.name == name) with
  | some r =>
    some ⟨.fin (match r.explicit with
                | some p => p
                | none => defaultPrecedence Gen.charTable Gen.charDefault r.name),
          if r.rassoc then .right else .left⟩
  | none => none

/-- operator spellings of the builtins an operator pattern can be headed by (the ones the
differential run writes) -/
def operatorNames : List (String × Bi) := [
  ("+", .plus), ("-", .minus), ("*", .times), ("/", .divide),
  ("+.", .append), (".+", .prepend),
  ("<", .cmp [.lt]), ("<=", .cmp [.le]), (">", .cmp [.gt]), (">=", .cmp [.ge]),
  ("==", .cmp [.eq]), ("!=", .cmp [.ne]),
  ("++", .other 4), ("//", .other 5), ("%", .other 5)]

/-- **the hand-written levels are the registered ones** -/
theorem biPrecedence_registered :
    operatorNames.all (fun nb => registeredPrecedence nb.1 == some (biPrecedence nb.2)) = true := by
  decide +kernel

/-- the comparison operators are exactly the builtins that chain with each other in a pattern:
every comparison name is registered as a `ComparisonOperator` (whose `try_chain` merges), the other
operators of the model are not -/
theorem comparison_structs_registered :
    operatorNames.all (fun nb =>
      match Gen.registrations.find? (fun r => r.name == nb.1) with
      | some r => (r.struct == "ComparisonOperator") == (match nb.2 with | .cmp _ => true | _ => false)
      | none => false) = true := by
  decide +kernel

end Noulith.C12
