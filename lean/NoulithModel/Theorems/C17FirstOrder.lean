/-
C17 (supplement) — the headline theorems of the preservation proof for first-order code
(side condition `ScopeOK` and invariants: Theorems/C17Preserve.lean; induction: Theorems/C17PreserveEval.lean).
-/
import NoulithModel.Theorems.C17PreserveEval

namespace Noulith.C17Preserve
open Noulith Noulith.Core Noulith.C17Closed Noulith.C17Frames

/-- **Semantic preservation of freeze for first-order code.**  Let `e'` be the frozen form of `e` (frozen
under the bound set `s.bound`, against the lookup function `look` in which no builtin is shadowed).  Take
ANY later moment — any state `st` with a well-formed store, any scope `env` — at which every name that
freeze treated as free still resolves to the value freeze saw (`Agree`), and whose table of frozen values
extends the one the freeze produced.  If `e` satisfies `ScopeOK`, then for every fuel the frozen code
evaluates to exactly what the original evaluates to: the same result (value, break, continue, return,
raised error or out-of-fuel) AND the same final state. -/
theorem freeze_preserves_first_order (look : String → Option Val) (hB : HBuiltins look)
    (s s' : FState Val) (e e' : Expr) (st : State) (env fuel : Nat)
    (hf : freezeExpr look s e = .ok (e', s')) (hok : ScopeOK s.bound e)
    (hwf : WF st) (henv : env < st.frames.size) (hag : Agree look s.bound st env)
    (htab : s'.tab <+: st.frozenTab) :
    eval fuel st env e' = eval fuel st env e := by
  unfold ScopeOK at hok
  obtain ⟨S', hS'⟩ := Option.isSome_iff_exists.mp hok
  exact ((pres_all hB fuel).ev s s' e e' s.bound S' st env hf hS' (fun _ h => h) htab ⟨hwf, henv, hag⟩).1

/-- …and the invariants survive: afterwards the store is still well-formed, it only grew, and the free
names still agree — so the theorem can be applied again to whatever frozen code runs next in that scope -/
theorem freeze_preserves_first_order_invariants (look : String → Option Val) (hB : HBuiltins look)
    (s s' : FState Val) (e e' : Expr) (st : State) (env fuel : Nat)
    (hf : freezeExpr look s e = .ok (e', s')) (hok : ScopeOK s.bound e)
    (hwf : WF st) (henv : env < st.frames.size) (hag : Agree look s.bound st env)
    (htab : s'.tab <+: st.frozenTab) :
    WF (eval fuel st env e).2 ∧ Ext st (eval fuel st env e).2 ∧ Agree look s'.bound (eval fuel st env e).2 env := by
  unfold ScopeOK at hok
  obtain ⟨S', hS'⟩ := Option.isSome_iff_exists.mp hok
  have h := ((pres_all hB fuel).ev s s' e e' s.bound S' st env hf hS' (fun _ h => h) htab ⟨hwf, henv, hag⟩).2
  exact ⟨h.wf, h.ext, h.agree⟩

/-- the lookup function of `Expr.freeze` shadows no builtin when the scope declares no builtin's name -/
theorem hbuiltins_lookOf (st : State) (env : Nat)
    (h : ∀ f, f ∈ builtinNames → (st.lookup env f).isNone = true) : HBuiltins (lookOf st env) := by
  intro f hf
  have := h f hf
  simp only [lookOf]
  cases hl : st.lookup env f with
  | some v => simp [hl] at this
  | none =>
    have hc : builtinNames.contains f = true := by simpa using hf
    simp only [hc, ↓reduceIte]

theorem agree_lookOf (st : State) (T : List Val) (env : Nat) (b : List String) :
    Agree (lookOf st env) b { st with frozenTab := T } env := fun _ _ => rfl

/-- **the `freeze` expression itself**: evaluating `freeze e` (first-order `e`, in a scope that shadows no
builtin) is evaluating `e` — in the same store, the table of frozen values having grown by the values of
the free names of `e` -/
theorem freeze_node_preserves_first_order (st : State) (env fuel : Nat) (e : Expr)
    (hok : ScopeOK [] e) (hwf : WF st) (henv : env < st.frames.size)
    (hb : ∀ f, f ∈ builtinNames → (st.lookup env f).isNone = true)
    (hns : ¬ Stuck (lookOf st env) [] e) :
    ∃ T, st.frozenTab <+: T ∧
      eval (fuel + 1) st env (.freeze e) = eval fuel { st with frozenTab := T } env e := by
  obtain ⟨e', s', hf⟩ := (freeze_succeeds_iff (lookOf st env) { bound := [], tab := st.frozenTab } e).mpr hns
  refine ⟨s'.tab, fzE_tab hf, ?_⟩
  rw [eval_freeze_unfold, hf]
  exact freeze_preserves_first_order (lookOf st env) (hbuiltins_lookOf st env hb) _ s' e e'
    { st with frozenTab := s'.tab } env fuel hf hok hwf henv (agree_lookOf st _ env _) (List.prefix_refl _)

/-! ## non-vacuity -/

section Examples

/-- a scope holding one outer variable, `o = 5` -/
def stO : State := { frames := #[{ vars := [("o", .int 5)], parent := none }], out := [] }

theorem wf_stO : WF stO := by
  intro i fr p h hp
  have hi : i = 0 := by
    have := getElem?_lt_size h
    simp [stO] at this
    omega
  subst hi
  simp [stO] at h
  subst h
  simp at hp

/-- `t := 0; for (i <- [1,2,3]; if (i < o)) (u := i * o; t = t + u;); w := 0; while (w < 2) (w += 1);
r := try (q := t // 0; q) catch err -> (switch (t) case 7 -> "seven" case y -> y + o); [t, w, r, len([o])]`:
loops, declarations, assignments to locals, `try`, `switch`, a builtin call, the outer variable `o` free
in five places -/
def prog : Expr :=
  .seq [
    .declare (.ident "t") (.int 0),
    .for_ [.iter .normal (.ident "i") (.list [.int 1, .int 2, .int 3]), .guard (.op "<" (.ident "i") (.ident "o"))]
      (.exec (.seq [.declare (.ident "u") (.op "*" (.ident "i") (.ident "o")),
                    .assign "t" (.op "+" (.ident "t") (.ident "u"))] true)),
    .declare (.ident "w") (.int 0),
    .while_ (.op "<" (.ident "w") (.int 2)) (.opassign "w" "+" (.int 1)),
    .declare (.ident "r")
      (.try_ (.seq [.declare (.ident "q") (.op "//" (.ident "t") (.int 0)), .ident "q"] false) (.ident "err")
        (.switch_ (.ident "t") [.mk (.lit 7) (.str "seven"), .mk (.ident "y") (.op "+" (.ident "y") (.ident "o"))])),
    .list [.ident "t", .ident "w", .ident "r", .call (.ident "len") [.list [.ident "o"]]]] false

example : ScopeOK [] prog := by decide

/-- the hypotheses of `freeze_node_preserves_first_order` hold for it … -/
example : ∃ T, stO.frozenTab <+: T ∧
    eval (40 + 1) stO 0 (.freeze prog) = eval 40 { stO with frozenTab := T } 0 prog :=
  freeze_node_preserves_first_order stO 0 40 prog (by decide) wf_stO (by decide) (by decide +kernel)
    (by decide +kernel)

/-- … and both sides really compute something (kernel-evaluated): `[30, 2, 35, 1]` -/
example : (eval 41 stO 0 (.freeze prog)).1 matches .val (.list [.int 30, .int 2, .int 35, .int 1]) := by
  decide +kernel
example : (eval 40 stO 0 prog).1 matches .val (.list [.int 30, .int 2, .int 35, .int 1]) := by
  decide +kernel

/-- what `ScopeOK` excludes.  F32: a loop body assigns to a name whose declaration sits in a branch that
is not taken — at run time the assignment reaches the outer variable, after the loop freeze reads the
value captured at freeze time:
`(for (i <- [1]) ((if (0) (o := 5)); o = 7)); o` -/
example : ¬ ScopeOK [] (.seq [
    .for_ [.iter .normal (.ident "i") (.list [.int 1])]
      (.exec (.seq [.ite (.int 0) (.declare (.ident "o") (.int 5)) none, .assign "o" (.int 7)] false)),
    .ident "o"] false) := by decide
/-- the same body is fine when the declaration is sure -/
example : ScopeOK [] (.seq [
    .for_ [.iter .normal (.ident "i") (.list [.int 1])]
      (.exec (.seq [.declare (.ident "o") (.int 5), .assign "o" (.int 7)] false)),
    .ident "o"] false) := by decide
/-- F30 and its variants: a declaration in the part of a `for` header that runs in the enclosing scope -/
example : ¬ ScopeOK [] (.for_ [.iter .normal (.ident "x")
    (.list [.seq [.declare (.ident "y") (.int 5), .ident "y"] false])] (.exec (.int 0))) := by decide
example : ¬ ScopeOK [] (.for_ [.guard (.int 1)] (.exec (.declare (.ident "y") (.int 5)))) := by decide
/-- …a declaration in the iteratee of a LATER clause is fine (it lands in the previous clause's scope) -/
example : ScopeOK [] (.for_ [.iter .normal (.ident "a") (.list [.int 1]), .iter .normal (.ident "x")
    (.list [.seq [.declare (.ident "y") (.int 5), .ident "y"] false])] (.exec (.ident "y"))) := by decide

end Examples

end Noulith.C17Preserve
