/-
C11, part 2 — every finite stream type is coherent in every reachable state:
`Range` (any bounds, any non-zero step of either sign, any magnitude), `WrappedVec`,
`Subsequences`, `CartesianPower`, `Combinations`; the lazy adaptors preserve coherence;
the infinite streams follow their recurrences.
-/
import NoulithModel.Theorems.C11Iter

namespace Noulith.C11
open Noulith Noulith.Stream Noulith.StreamSpec

/-! ## Range -/
namespace RangeT

/-- the number of elements of a range with a positive step, as the code computes it -/
def cntPos (start e step : Int) : Nat := (max (e - start + step - 1) 0 / step).toNat
/-- the same for a negative step (the formula the F3 fix installs) -/
def cntNeg (start e step : Int) : Nat := (max (start - e - step - 1) 0 / (-step)).toNat

theorem cntPos_step {start e step : Int} (hs : 0 < step) (h : start < e) :
    cntPos start e step = cntPos (start + step) e step + 1 := by
  unfold cntPos
  have h1 : max (e - start + step - 1) 0 = (e - start - 1) + 1 * step := by omega
  have h2 : max (e - (start + step) + step - 1) 0 = e - start - 1 := by omega
  rw [h1, h2, Int.add_mul_ediv_right _ _ (by omega : step ≠ 0)]
  have : 0 ≤ (e - start - 1) / step := Int.ediv_nonneg (by omega) (by omega)
  omega

theorem cntPos_end {start e step : Int} (hs : 0 < step) (h : e ≤ start) :
    cntPos start e step = 0 := by
  unfold cntPos
  have : max (e - start + step - 1) 0 / step = 0 :=
    Int.ediv_eq_zero_of_lt (by omega) (by omega)
  rw [this]; rfl

theorem cntNeg_step {start e step : Int} (hs : step < 0) (h : e < start) :
    cntNeg start e step = cntNeg (start + step) e step + 1 := by
  unfold cntNeg
  have h1 : max (start - e - step - 1) 0 = (start - e - 1) + 1 * (-step) := by omega
  have h2 : max (start + step - e - step - 1) 0 = start - e - 1 := by omega
  rw [h1, h2, Int.add_mul_ediv_right _ _ (by omega : -step ≠ 0)]
  have : 0 ≤ (start - e - 1) / (-step) := Int.ediv_nonneg (by omega) (by omega)
  omega

theorem cntNeg_end {start e step : Int} (hs : step < 0) (h : start ≤ e) :
    cntNeg start e step = 0 := by
  unfold cntNeg
  have : max (start - e - step - 1) 0 / (-step) = 0 :=
    Int.ediv_eq_zero_of_lt (by omega) (by omega)
  rw [this]; rfl

/-- the Spec's count of the arithmetic progression is the code's closed form -/
theorem rangeCount_pos {start e step : Int} (hs : 0 < step) :
    rangeCount start e step = cntPos start e step := by
  unfold rangeCount
  by_cases h : start < e
  · simp only [hs, h, if_true, gt_iff_lt]
    unfold cntPos
    have : max (e - start + step - 1) 0 = e - start + step - 1 := by omega
    rw [this]
  · simp only [hs, h, if_true, if_false, gt_iff_lt]
    rw [cntPos_end hs (by omega)]

theorem rangeCount_neg {start e step : Int} (hs : step < 0) :
    rangeCount start e step = cntNeg start e step := by
  unfold rangeCount
  have hn : ¬ step > 0 := by omega
  by_cases h : start > e
  · simp only [hn, hs, h, if_true, if_false]
    unfold cntNeg
    have : max (start - e - step - 1) 0 = start - e + -step - 1 := by omega
    rw [this]
  · simp only [hn, hs, h, if_true, if_false]
    rw [cntNeg_end hs (by omega)]

theorem rangeList_cons {start e step : Int} {n : Nat}
    (h : rangeCount start e step = n + 1) (h' : rangeCount (start + step) e step = n) :
    rangeList start e step = start :: rangeList (start + step) e step := by
  unfold rangeList
  rw [h, h', List.range_succ_eq_map]
  simp only [List.map_cons, List.map_map]
  congr 1
  · simp
  · apply List.map_congr_left
    intro i _
    simp only [Function.comp]
    have : ((i + 1 : Nat) : Int) * step = (i : Int) * step + step := by
      rw [Int.natCast_succ, Int.add_mul, Int.one_mul]
    rw [this]; omega

/-- iterating a range with a positive step yields the arithmetic progression -/
theorem unfolds_pos (e step : Int) (hs : 0 < step) :
    ∀ n start, rangeCount start e step = n →
      Unfolds Range.next ⟨start, some e, step⟩ (rangeList start e step) := by
  intro n
  induction n with
  | zero =>
    intro start h
    have hge : e ≤ start := by
      by_cases hlt : start < e
      · rw [rangeCount_pos hs, cntPos_step hs hlt] at h; omega
      · omega
    have : rangeList start e step = [] := by unfold rangeList; rw [h]; rfl
    rw [this]
    apply Unfolds.done
    have hn : ¬ step < 0 := by omega
    simp [Range.next, Range.empty, hn, hge]
  | succ n ih =>
    intro start h
    have hlt : start < e := by
      by_cases hlt : start < e
      · exact hlt
      · rw [rangeCount_pos hs, cntPos_end hs (by omega)] at h; omega
    have h' : rangeCount (start + step) e step = n := by
      rw [rangeCount_pos hs] at h ⊢
      rw [cntPos_step hs hlt] at h; omega
    rw [rangeList_cons h h']
    refine Unfolds.step ?_ (ih _ h')
    have hn : ¬ step < 0 := by omega
    have hge : ¬ e ≤ start := by omega
    simp [Range.next, Range.empty, hn, hge]

theorem unfolds_neg (e step : Int) (hs : step < 0) :
    ∀ n start, rangeCount start e step = n →
      Unfolds Range.next ⟨start, some e, step⟩ (rangeList start e step) := by
  intro n
  induction n with
  | zero =>
    intro start h
    have hge : start ≤ e := by
      by_cases hlt : e < start
      · rw [rangeCount_neg hs, cntNeg_step hs hlt] at h; omega
      · omega
    have : rangeList start e step = [] := by unfold rangeList; rw [h]; rfl
    rw [this]
    apply Unfolds.done
    simp [Range.next, Range.empty, hs, hge]
  | succ n ih =>
    intro start h
    have hlt : e < start := by
      by_cases hlt : e < start
      · exact hlt
      · rw [rangeCount_neg hs, cntNeg_end hs (by omega)] at h; omega
    have h' : rangeCount (start + step) e step = n := by
      rw [rangeCount_neg hs] at h ⊢
      rw [cntNeg_step hs hlt] at h; omega
    rw [rangeList_cons h h']
    refine Unfolds.step ?_ (ih _ h')
    have hge : ¬ start ≤ e := by omega
    simp [Range.next, Range.empty, hs, hge]

theorem rangeList_length (start e step : Int) : (rangeList start e step).length = rangeCount start e step := by
  simp [rangeList]

theorem rangeList_head (start e step : Int) :
    (rangeList start e step).head? = if rangeCount start e step = 0 then none else some start := by
  unfold rangeList
  cases h : rangeCount start e step with
  | zero => simp
  | succ n => simp [List.range_succ_eq_map]

end RangeT

open RangeT in
/-- **len_is_count for `Range`** and everything else the property asks, for every start and end,
every non-zero step of either sign and any magnitude, as long as the number of elements fits a
`usize`: the range in the state `⟨start, some e, step⟩` is coherent with the arithmetic progression
`start, start+step, …` before `e`.  (Every state reached by `next` has the same form, so this is
"every position reached by dropping a prefix".) -/
theorem range_coherent (start e step : Int) (hstep : step ≠ 0)
    (hfit : rangeCount start e step ≤ 18446744073709551615) :
    Coherent Range.ops ⟨start, some e, step⟩ (rangeList start e step) := by
  unfold Range.ops
  have hlen := rangeList_length start e step
  rcases Int.lt_or_gt_of_ne hstep with hs | hs
  · -- negative step
    have hc := rangeCount_neg (start := start) (e := e) hs
    refine coherent_withLen (unfolds_neg e step hs _ start rfl) ⟨rangeCount start e step, ?_, by omega⟩ ?_ ?_
    · simp only [Range.bound, hstep, hs, if_true, if_false]
      rw [hc]; rfl
    · simp only [Range.len, hstep, hs, if_true, if_false, hlen]
      have hnn : 0 ≤ max (start - e - step - 1) 0 / (-step) := Int.ediv_nonneg (by omega) (by omega)
      have hv : (max (start - e - step - 1) 0 / (-step)).toNat = rangeCount start e step := by
        rw [hc]; rfl
      unfold toUsize
      have : 0 ≤ max (start - e - step - 1) 0 / -step ∧
          max (start - e - step - 1) 0 / -step ≤ 18446744073709551615 := by omega
      simp only [this, and_self, if_true, hv]
    · rw [rangeList_head]
      unfold Range.peek Range.empty
      simp only [hs, if_true]
      by_cases h : start ≤ e
      · simp [h, hc, cntNeg_end hs h]
      · have : cntNeg start e step ≠ 0 := by rw [cntNeg_step hs (by omega)]; omega
        simp [h, hc, this]
  · -- positive step
    have hn : ¬ step < 0 := by omega
    have hc := rangeCount_pos (start := start) (e := e) hs
    refine coherent_withLen (unfolds_pos e step hs _ start rfl) ⟨rangeCount start e step, ?_, by omega⟩ ?_ ?_
    · simp only [Range.bound, hstep, hn, if_false]
      rw [hc]; rfl
    · simp only [Range.len, hstep, hn, if_false, hlen]
      have hnn : 0 ≤ max (e - start + step - 1) 0 / step := Int.ediv_nonneg (by omega) (by omega)
      have hv : (max (e - start + step - 1) 0 / step).toNat = rangeCount start e step := by
        rw [hc]; rfl
      unfold toUsize
      have : 0 ≤ max (e - start + step - 1) 0 / step ∧
          max (e - start + step - 1) 0 / step ≤ 18446744073709551615 := by omega
      simp only [this, and_self, if_true, hv]
    · rw [rangeList_head]
      unfold Range.peek Range.empty
      simp only [hn, if_false]
      by_cases h : e ≤ start
      · simp [h, hc, cntPos_end hs h]
      · have : cntPos start e step ≠ 0 := by rw [cntPos_step hs (by omega)]; omega
        simp [h, hc, this]

/-- `len` reports "infinite" (`None`) for a range with an end and a non-zero step only when the
element count does not fit a `usize` -/
theorem range_len_none_iff (start e step : Int) (hstep : step ≠ 0) :
    Range.len ⟨start, some e, step⟩ = none ↔ rangeCount start e step > 18446744073709551615 := by
  rcases Int.lt_or_gt_of_ne hstep with hs | hs
  · have hc := RangeT.rangeCount_neg (start := start) (e := e) hs
    have hnn : 0 ≤ max (start - e - step - 1) 0 / (-step) := Int.ediv_nonneg (by omega) (by omega)
    have hv : (max (start - e - step - 1) 0 / (-step)).toNat = rangeCount start e step := by rw [hc]; rfl
    simp only [Range.len, hstep, hs, if_true, if_false, toUsize]
    split <;> simp <;> omega
  · have hn : ¬ step < 0 := by omega
    have hc := RangeT.rangeCount_pos (start := start) (e := e) hs
    have hnn : 0 ≤ max (e - start + step - 1) 0 / step := Int.ediv_nonneg (by omega) (by omega)
    have hv : (max (e - start + step - 1) 0 / step).toNat = rangeCount start e step := by rw [hc]; rfl
    simp only [Range.len, hstep, hn, if_false, toUsize]
    split <;> simp <;> omega

/-- a range with step 0 whose start is not before its end is empty, and says so -/
theorem range_zero_step_empty (start e : Int) (h : e ≤ start) :
    Coherent Range.ops ⟨start, some e, 0⟩ [] := by
  unfold Range.ops
  have hn : ¬ start < e := by omega
  refine coherent_withLen (.done ?_) ⟨0, ?_, by simp⟩ ?_ ?_
  · simp [Range.next, Range.empty, h]
  · simp [Range.bound, hn]
  · simp [Range.len, hn]
  · simp [Range.peek, Range.empty, h]

/-- the constructors `til` / `to` (with the end adjusted by one in the direction of the step) -/
theorem til_coherent (a b c : Int) (hc : c ≠ 0) (hfit : rangeCount a b c ≤ 18446744073709551615) :
    Coherent Range.ops (Range.til a b c) (rangeList a b c) :=
  range_coherent a b c hc hfit

theorem to_coherent (a b c : Int) (hc : c ≠ 0)
    (hfit : rangeCount a (if c < 0 then b - 1 else b + 1) c ≤ 18446744073709551615) :
    Coherent Range.ops (Range.to a b c) (rangeList a (if c < 0 then b - 1 else b + 1) c) :=
  range_coherent a _ c hc hfit

/-- the elements of `a to b` (default step) are exactly `a, a+1, …, b` -/
example : rangeList 1 (5 + 1) 1 = [1, 2, 3, 4, 5] := by decide
example : rangeList 10 0 (-3) = [10, 7, 4, 1] := by decide

/-- F3: the formula of the `Sign::Minus` arm before the fix is refuted by `10 til 0 by (-3)`:
it says 0 while four elements are produced -/
theorem range_len_prefix_refuted :
    Range.lenPreFix (Range.til 10 0 (-3)) = some 0 ∧
      (rangeList 10 0 (-3)).length = 4 ∧ Range.len (Range.til 10 0 (-3)) = some 4 := by
  refine ⟨by decide, by decide, by decide⟩

/-! ## WrappedVec: `stream(seq)` -/

theorem wrapped_unfolds {α : Type} (base : List α) :
    ∀ n pos, base.length - pos = n → pos ≤ base.length →
      Unfolds Wrapped.next (⟨base, pos⟩ : Wrapped α) (base.drop pos) := by
  intro n
  induction n with
  | zero =>
    intro pos h hle
    have : base.drop pos = [] := List.drop_eq_nil_of_le (by omega)
    rw [this]
    apply Unfolds.done
    have : base.length ≤ pos := by omega
    simp [Wrapped.next, this]
  | succ n ih =>
    intro pos h hle
    have hlt : pos < base.length := by omega
    have e : base.drop pos = base[pos] :: base.drop (pos + 1) := List.drop_eq_getElem_cons hlt
    rw [e]
    refine Unfolds.step ?_ (ih (pos + 1) (by omega) (by omega))
    have : ¬ base.length ≤ pos := by omega
    simp [Wrapped.next, this, hlt]

/-- **len_is_count for `WrappedVec`** (post-fix F4): in every position, `stream(xs)` is coherent
with the remaining elements of `xs` -/
theorem wrapped_coherent {α : Type} (base : List α) (pos : Nat) (h : pos ≤ base.length) :
    Coherent Wrapped.ops (⟨base, pos⟩ : Wrapped α) (base.drop pos) := by
  unfold Wrapped.ops
  refine coherent_build (wrapped_unfolds base _ pos rfl h) ⟨base.length - pos, rfl, by simp⟩ ?_ rfl ?_
  · simp [Wrapped.len]
  · unfold Wrapped.peek
    by_cases hp : base.length ≤ pos
    · have : pos ≥ base.length := hp
      simp [this, List.drop_eq_nil_of_le hp]
    · have hlt : pos < base.length := by omega
      have : ¬ pos ≥ base.length := by omega
      rw [List.drop_eq_getElem_cons hlt]
      simp only [this, if_false, List.head?_cons]
      exact List.getElem?_eq_getElem hlt

theorem stream_of_list_coherent {α : Type} (xs : List α) :
    Coherent Wrapped.ops (⟨xs, 0⟩ : Wrapped α) xs := by
  simpa using wrapped_coherent xs 0 (Nat.zero_le _)

theorem unfolds_head {σ β : Type} {next : σ → Option (β × σ)} {s : σ} {l : List β}
    (h : Unfolds next s l) : (next s).map Prod.fst = l.head? := by
  cases h with
  | done h => simp [h]
  | step h _ => simp [h]

/-! ## Subsequences: a binary counter -/
namespace SubseqT

theorem lenNat_allFalse (rest : List Bool) :
    Subseq.lenNat (rest.map fun _ => false) = 2 ^ rest.length := by
  induction rest with
  | nil => rfl
  | cons b rest ih =>
    simp only [List.map_cons, Subseq.lenNat, List.length_map, List.length_cons, ih]
    rw [Nat.pow_succ]
    simp
    omega

/-- `next` is "add one": the closed form drops by exactly one, and it is 1 at the last mask -/
theorem inc_spec (v : List Bool) :
    (∀ v', Subseq.inc v = some v' → Subseq.lenNat v = Subseq.lenNat v' + 1 ∧ v'.length = v.length) ∧
    (Subseq.inc v = none → Subseq.lenNat v = 1) := by
  induction v with
  | nil => simp [Subseq.inc, Subseq.lenNat]
  | cons b rest ih =>
    obtain ⟨ih1, ih2⟩ := ih
    cases hr : Subseq.inc rest with
    | some rest' =>
      obtain ⟨e1, e2⟩ := ih1 rest' hr
      constructor
      · intro v' hv
        simp only [Subseq.inc, hr] at hv
        cases hv
        simp only [Subseq.lenNat, e2, e1]
        exact ⟨(Nat.add_assoc _ _ _).symm, by simp [e2]⟩
      · intro hv; simp [Subseq.inc, hr] at hv
    | none =>
      have e := ih2 hr
      cases b with
      | true =>
        constructor
        · intro v' hv; simp [Subseq.inc, hr] at hv
        · intro _; simp [Subseq.lenNat, e]
      | false =>
        constructor
        · intro v' hv
          simp only [Subseq.inc, hr] at hv
          simp at hv
          subst hv
          simp only [Subseq.lenNat, lenNat_allFalse, List.length_map, List.length_cons, e]
          simp
        · intro hv; simp [Subseq.inc, hr] at hv

/-- the element count of a state: the closed form of `Subsequences::len` without machine words -/
def cnt {α : Type} (m : Mask α) : Nat :=
  match m.mask with
  | none => 0
  | some v => Subseq.lenNat v

theorem unfolds {α : Type} (m : Mask α) : ∃ l, Unfolds Subseq.next m l ∧ l.length = cnt m := by
  refine unfolds_of_measure (next := Subseq.next) cnt (fun _ => True) ?_ ?_ (cnt m) m trivial rfl
  · intro s v s' _ h
    refine ⟨trivial, ?_⟩
    obtain ⟨base, mask⟩ := s
    cases mask with
    | none => simp [Subseq.next] at h
    | some w =>
      simp only [Subseq.next, Option.some.injEq, Prod.mk.injEq] at h
      obtain ⟨_, rfl⟩ := h
      simp only [cnt]
      cases hi : Subseq.inc w with
      | none => simp [(inc_spec w).2 hi]
      | some w' => simp [((inc_spec w).1 w' hi).1]
  · intro s _ h
    obtain ⟨base, mask⟩ := s
    cases mask with
    | none => rfl
    | some w => simp [Subseq.next] at h

/-- value of the reversed mask as the loop of `Subsequences::len` accumulates it -/
def valR : List Bool → Nat
  | [] => 0
  | b :: bs => (if b then 0 else 1) + 2 * valR bs

theorem valR_append (xs : List Bool) (b : Bool) :
    valR (xs ++ [b]) = valR xs + 2 ^ xs.length * (if b then 0 else 1) := by
  induction xs with
  | nil => simp [valR]
  | cons x xs ih =>
    simp only [List.cons_append, valR, ih, List.length_cons, Nat.pow_succ]
    cases b <;> simp <;> omega

theorem valR_reverse (v : List Bool) : valR v.reverse + 1 = Subseq.lenNat v := by
  induction v with
  | nil => rfl
  | cons b rest ih =>
    simp only [List.reverse_cons, valR_append, List.length_reverse, Subseq.lenNat]
    cases b <;> simp <;> omega

/-- the `usize` loop computes the closed form as long as `cur · 2^n` fits -/
theorem lenLoop_ok (bs : List Bool) : ∀ (cur sum T : Nat), T = cur * 2 ^ bs.length →
    sum + T + 1 ≤ 18446744073709551615 + cur → T ≤ 18446744073709551615 →
    Subseq.lenLoop bs cur sum = .ok (sum + cur * valR bs + 1) := by
  induction bs with
  | nil =>
    intro cur sum T hT h1 _
    simp only [List.length_nil, Nat.pow_zero, Nat.mul_one] at hT
    subst hT
    have : sum + 1 ≤ 18446744073709551615 := by omega
    simp [Subseq.lenLoop, addUsize, valR, this]
  | cons b bs ih =>
    intro cur sum T hT h1 h2
    have hT' : T = (cur * 2) * 2 ^ bs.length := by
      rw [hT, List.length_cons, Nat.pow_succ, Nat.mul_assoc, Nat.mul_comm (2 ^ bs.length) 2]
    have hpos : 0 < 2 ^ bs.length := Nat.pow_pos (by omega)
    have hge : cur * 2 ≤ T := by rw [hT']; exact Nat.le_mul_of_pos_right _ hpos
    have hs : sum + (if b then 0 else cur) ≤ 18446744073709551615 := by split <;> omega
    have hc : cur * 2 ≤ 18446744073709551615 := by omega
    have hrec := ih (cur * 2) (sum + (if b then 0 else cur)) T hT' (by split <;> omega) h2
    simp only [Subseq.lenLoop, addUsize, mulUsize, hs, hc, if_true, R.bind, hrec, valR]
    congr 1
    cases b <;> simp [Nat.mul_add, Nat.mul_assoc] <;> omega

end SubseqT

/-- **len_is_count for `Subsequences`**, every state (every mask, i.e. every position reached by
dropping a prefix, and the finished state), for base lists shorter than 64 (beyond that the `usize`
arithmetic of the closed form overflows) -/
theorem subseq_coherent {α : Type} (m : Mask α) (hn : ∀ v, m.mask = some v → v.length < 64) :
    ∃ l, Coherent Subseq.ops m l ∧ l.length = SubseqT.cnt m := by
  obtain ⟨l, hu, hlen⟩ := SubseqT.unfolds m
  refine ⟨l, ?_, hlen⟩
  unfold Subseq.ops
  obtain ⟨base, mask⟩ := m
  refine coherent_withLen hu ⟨SubseqT.cnt ⟨base, mask⟩, ?_, by omega⟩ ?_ ?_
  · cases mask <;> rfl
  · cases mask with
    | none => simp [Subseq.len, hlen, SubseqT.cnt]
    | some v =>
      have hv := hn v rfl
      have hpow : 2 ^ v.length ≤ 2 ^ 63 := Nat.pow_le_pow_right (by omega) (by omega)
      have h63 : (2 : Nat) ^ 63 = 9223372036854775808 := by decide
      have := SubseqT.lenLoop_ok v.reverse 1 0 (2 ^ v.length) (by simp) (by omega) (by omega)
      simp only [Subseq.len, this, R.map, R.bind, hlen, SubseqT.cnt]
      congr 2
      have := SubseqT.valR_reverse v
      omega
  · rw [← unfolds_head hu]
    cases mask <;> simp [Subseq.peek, Subseq.next]

/-! ## CartesianPower: a base-m counter -/
namespace CPowT

theorem lenNat_zeros (m : Nat) (hm : 1 ≤ m) (rest : List Nat) :
    CPow.lenNat m (rest.map fun _ => 0) = m ^ rest.length := by
  induction rest with
  | nil => rfl
  | cons d rest ih =>
    simp only [List.map_cons, CPow.lenNat, List.length_map, List.length_cons, ih, Nat.pow_succ]
    have : (m - 1 - 0) * m ^ rest.length + m ^ rest.length = (m - 1 - 0 + 1) * m ^ rest.length := by
      rw [Nat.add_mul, Nat.one_mul]
    rw [this, Nat.mul_comm]
    congr 1
    omega

theorem inc_spec (m : Nat) (v : List Nat) (hwf : ∀ d ∈ v, d < m) :
    (∀ v', CPow.inc m v = some v' →
        CPow.lenNat m v = CPow.lenNat m v' + 1 ∧ v'.length = v.length ∧ ∀ d ∈ v', d < m) ∧
    (CPow.inc m v = none → CPow.lenNat m v = 1) := by
  induction v with
  | nil => simp [CPow.inc, CPow.lenNat]
  | cons d rest ih =>
    have hd : d < m := hwf d (by simp)
    obtain ⟨ih1, ih2⟩ := ih (fun x hx => hwf x (by simp [hx]))
    cases hr : CPow.inc m rest with
    | some rest' =>
      obtain ⟨e1, e2, e3⟩ := ih1 rest' hr
      constructor
      · intro v' hv
        simp only [CPow.inc, hr] at hv
        cases hv
        refine ⟨?_, by simp [e2], ?_⟩
        · simp only [CPow.lenNat, e2]; omega
        · intro x hx
          rcases List.mem_cons.mp hx with rfl | hx
          · exact hd
          · exact e3 x hx
      · intro hv; simp [CPow.inc, hr] at hv
    | none =>
      have e := ih2 hr
      by_cases hdm : d + 1 = m
      · constructor
        · intro v' hv; simp [CPow.inc, hr, hdm] at hv
        · intro _
          have : m - 1 - d = 0 := by omega
          simp [CPow.lenNat, e, this]
      · constructor
        · intro v' hv
          simp only [CPow.inc, hr, hdm, if_false] at hv
          simp at hv
          subst hv
          refine ⟨?_, by simp, ?_⟩
          · simp only [CPow.lenNat, lenNat_zeros m (by omega), List.length_map, e]
            have : m - 1 - d = (m - 1 - (d + 1)) + 1 := by omega
            rw [this, Nat.add_mul, Nat.one_mul]
            try omega
          · intro x hx
            rcases List.mem_cons.mp hx with rfl | hx
            · omega
            · simp at hx; omega
        · intro hv; simp [CPow.inc, hr, hdm] at hv

/-- reachable states: every coordinate is a valid position of the base -/
def WF {α : Type} (c : Idx α) : Prop := ∀ v, c.idx = some v → ∀ d ∈ v, d < c.base.length

def cnt {α : Type} (c : Idx α) : Nat :=
  match c.idx with
  | none => 0
  | some v => CPow.lenNat c.base.length v

theorem unfolds {α : Type} (c : Idx α) (hwf : WF c) : ∃ l, Unfolds CPow.next c l ∧ l.length = cnt c := by
  refine unfolds_of_measure (next := CPow.next) cnt WF ?_ ?_ (cnt c) c hwf rfl
  · intro s v s' hw h
    obtain ⟨base, idx⟩ := s
    cases idx with
    | none => simp [CPow.next] at h
    | some w =>
      simp only [CPow.next, Option.some.injEq, Prod.mk.injEq] at h
      obtain ⟨_, rfl⟩ := h
      have hw' := hw w rfl
      simp only [cnt]
      cases hi : CPow.inc base.length w with
      | none =>
        refine ⟨by intro v hv; simp at hv, ?_⟩
        simp [(inc_spec base.length w hw').2 hi]
      | some w' =>
        obtain ⟨e1, _, e3⟩ := (inc_spec base.length w hw').1 w' hi
        refine ⟨?_, by simp [e1]⟩
        intro v hv
        simp only [Option.some.injEq] at hv
        subst hv
        exact e3
  · intro s _ h
    obtain ⟨base, idx⟩ := s
    cases idx with
    | none => rfl
    | some w => simp [CPow.next] at h

theorem mk_wf {α : Type} (base : List α) (k : Nat) : WF (CPow.mk base k) := by
  intro v hv d hd
  unfold CPow.mk at hv
  simp only at hv
  split at hv
  · cases hv
  · rename_i hne
    simp only [Option.some.injEq] at hv
    subst hv
    have := List.eq_of_mem_replicate hd
    subst this
    cases base with
    | nil =>
      simp at hne
      subst hne
      simp at hd
    | cons x xs => simp [CPow.mk]

/-- value of the reversed coordinate vector as the loop of `CartesianPower::len` accumulates it -/
def valR (m : Nat) : List Nat → Nat
  | [] => 0
  | d :: ds => (m - 1 - d) + m * valR m ds

theorem valR_append (m : Nat) (xs : List Nat) (d : Nat) :
    valR m (xs ++ [d]) = valR m xs + m ^ xs.length * (m - 1 - d) := by
  induction xs with
  | nil => simp [valR]
  | cons x xs ih =>
    simp only [List.cons_append, valR, ih, List.length_cons, Nat.pow_succ, Nat.mul_add]
    rw [Nat.mul_comm (m ^ xs.length) m, Nat.mul_assoc]
    omega

theorem valR_reverse (m : Nat) (v : List Nat) : valR m v.reverse + 1 = CPow.lenNat m v := by
  induction v with
  | nil => rfl
  | cons d rest ih =>
    simp only [List.reverse_cons, valR_append, List.length_reverse, CPow.lenNat]
    rw [Nat.mul_comm (m ^ rest.length)]
    omega

theorem lenLoop_ok (m : Nat) (hm : 1 ≤ m) (ds : List Nat) : ∀ (cur sum T : Nat), T = cur * m ^ ds.length →
    sum + T + 1 ≤ 18446744073709551615 + cur → T ≤ 18446744073709551615 →
    CPow.lenLoop m ds cur sum = .ok (sum + cur * valR m ds + 1) := by
  induction ds with
  | nil =>
    intro cur sum T hT h1 _
    simp only [List.length_nil, Nat.pow_zero, Nat.mul_one] at hT
    subst hT
    have : sum + 1 ≤ 18446744073709551615 := by omega
    simp [CPow.lenLoop, addUsize, valR, this]
  | cons d ds ih =>
    intro cur sum T hT h1 h2
    have hT' : T = (cur * m) * m ^ ds.length := by
      rw [hT, List.length_cons, Nat.pow_succ, Nat.mul_assoc, Nat.mul_comm (m ^ ds.length) m]
    have hpos : 0 < m ^ ds.length := Nat.pow_pos (by omega)
    have hge : cur * m ≤ T := by rw [hT']; exact Nat.le_mul_of_pos_right _ hpos
    have hterm : (m - 1 - d) * cur + cur ≤ cur * m := by
      have : (m - 1 - d) * cur + cur = (m - 1 - d + 1) * cur := by rw [Nat.add_mul, Nat.one_mul]
      rw [this, Nat.mul_comm cur m]
      exact Nat.mul_le_mul_right _ (by omega)
    have hm1 : (m - 1 - d) * cur ≤ 18446744073709551615 := by omega
    have hs : sum + (m - 1 - d) * cur ≤ 18446744073709551615 := by omega
    have hc : cur * m ≤ 18446744073709551615 := by omega
    have hrec := ih (cur * m) (sum + (m - 1 - d) * cur) T hT' (by omega) h2
    simp only [CPow.lenLoop, addUsize, mulUsize, hm1, hs, hc, if_true, R.bind, hrec, valR]
    congr 1
    rw [Nat.mul_add, Nat.mul_assoc, Nat.mul_comm cur (m - 1 - d)]
    omega

end CPowT

/-- **len_is_count for `CartesianPower`**, every reachable state, as long as `m^k` fits a `usize` -/
theorem cpow_coherent {α : Type} (c : Idx α) (hwf : CPowT.WF c)
    (hfit : ∀ v, c.idx = some v → c.base.length ^ v.length ≤ 18446744073709551615) :
    ∃ l, Coherent CPow.ops c l ∧ l.length = CPowT.cnt c := by
  obtain ⟨l, hu, hlen⟩ := CPowT.unfolds c hwf
  refine ⟨l, ?_, hlen⟩
  unfold CPow.ops
  obtain ⟨base, idx⟩ := c
  refine coherent_withLen hu ⟨CPowT.cnt ⟨base, idx⟩, ?_, by omega⟩ ?_ ?_
  · cases idx <;> rfl
  · cases idx with
    | none => simp [CPow.len, hlen, CPowT.cnt]
    | some v =>
      have hf := hfit v rfl
      simp only at hf
      by_cases hm : 1 ≤ base.length
      · have := CPowT.lenLoop_ok base.length hm v.reverse 1 0 (base.length ^ v.length) (by simp) (by omega) hf
        simp only [CPow.len, this, R.map, R.bind, hlen, CPowT.cnt]
        congr 2
        have := CPowT.valR_reverse base.length v
        omega
      · -- an empty base: the only reachable coordinate vector is the empty one
        have hb : base.length = 0 := by omega
        have hv : v = [] := by
          cases v with
          | nil => rfl
          | cons d ds =>
            have := hwf (d :: ds) rfl d (by simp)
            simp only at this
            omega
        subst hv
        simp [CPow.len, CPow.lenLoop, addUsize, R.map, R.bind, hlen, CPowT.cnt, CPow.lenNat]
  · rw [← unfolds_head hu]
    cases idx <;> simp [CPow.peek, CPow.next]

/-! ## Combinations: no closed-form `len`; the successor strictly decreases a base-(n+1) numeral -/
namespace CombT

theorem weight_bound (n : Nat) (xs : List Nat) : Comb.weight n xs + 1 ≤ (n + 1) ^ xs.length := by
  induction xs with
  | nil => simp [Comb.weight]
  | cons x xs ih =>
    simp only [Comb.weight, List.length_cons, Nat.pow_succ]
    have h1 : (n - x) * (n + 1) ^ xs.length ≤ n * (n + 1) ^ xs.length :=
      Nat.mul_le_mul_right _ (by omega)
    have h2 : (n + 1) ^ xs.length * (n + 1) = n * (n + 1) ^ xs.length + (n + 1) ^ xs.length := by
      rw [Nat.mul_add, Nat.mul_one, Nat.mul_comm]
    omega

theorem weight_append (n : Nat) (p t : List Nat) :
    Comb.weight n (p ++ t) = Comb.weight n p * (n + 1) ^ t.length + Comb.weight n t := by
  induction p with
  | nil => simp [Comb.weight]
  | cons x p ih =>
    simp only [List.cons_append, Comb.weight, ih, List.length_append, Nat.pow_add, Nat.add_mul,
      Nat.mul_assoc]
    omega

theorem scan_decreases (n : Nat) (v : List Nat) : ∀ i last, i ≤ v.length → last ≤ n →
    ∀ v', Comb.scan v i last = some v' → Comb.weight n v' < Comb.weight n v := by
  intro i
  induction i with
  | zero => intro last _ _ v' h; simp [Comb.scan] at h
  | succ i ih =>
    intro last hi hl v' h
    unfold Comb.scan at h
    by_cases hc : v.getD i 0 + 1 < last
    · simp only [hc, if_true, Option.some.injEq] at h
      subst h
      have hi' : i < v.length := by omega
      have hget : v.getD i 0 = v[i] := by simp [List.getD, hi']
      rw [hget] at hc ⊢
      have hsplit : v = v.take i ++ (v[i] :: v.drop (i + 1)) := by
        rw [← List.drop_eq_getElem_cons hi', List.take_append_drop]
      generalize hx : v[i] = x at hc hsplit ⊢
      have hr : v.length - i = (v.length - i - 1) + 1 := by omega
      rw [hr, List.range'_succ]
      have hw : Comb.weight n v =
          Comb.weight n (v.take i) * (n + 1) ^ (v.length - i - 1 + 1) +
            ((n - x) * (n + 1) ^ (v.length - i - 1) + Comb.weight n (v.drop (i + 1))) := by
        conv => lhs; rw [hsplit]
        rw [weight_append]
        simp only [Comb.weight, List.length_cons, List.length_drop]
        have : v.length - (i + 1) = v.length - i - 1 := by omega
        rw [this]
      rw [hw, weight_append]
      simp only [Comb.weight, List.length_cons, List.length_range']
      have hb := weight_bound n (List.range' (x + 1 + 1) (v.length - i - 1))
      simp only [List.length_range'] at hb
      have hk : n - x = (n - (x + 1)) + 1 := by omega
      rw [hk, Nat.add_mul, Nat.one_mul]
      omega
    · simp only [hc, if_false] at h
      exact ih (last - 1) (by omega) (by omega) v' h

def meas {α : Type} (c : Idx α) : Nat :=
  match c.idx with
  | none => 0
  | some v => Comb.weight c.base.length v + 1

theorem unfolds {α : Type} (c : Idx α) : ∃ l, Unfolds Comb.next c l ∧ l.length ≤ meas c := by
  refine unfolds_of_decreasing (next := Comb.next) meas (fun _ => True) ?_ (meas c) c trivial (Nat.le_refl _)
  intro s v s' _ h
  refine ⟨trivial, ?_⟩
  obtain ⟨base, idx⟩ := s
  cases idx with
  | none => simp [Comb.next] at h
  | some w =>
    simp only [Comb.next] at h
    split at h
    · cases h
    · simp only [Option.some.injEq, Prod.mk.injEq] at h
      obtain ⟨_, rfl⟩ := h
      simp only [meas]
      cases hs : Comb.scan w w.length base.length with
      | none => simp
      | some w' =>
        have := scan_decreases base.length w w.length base.length (Nat.le_refl _) (Nat.le_refl _) w' hs
        simp
        omega

end CombT

/-- **`Combinations`** (default `len`): every state — any base, any index vector, also a selection
size larger than the base — is a finite stream, coherent with the list it unfolds to -/
theorem comb_coherent {α : Type} (c : Idx α) : ∃ l, Coherent Comb.ops c l := by
  obtain ⟨l, hu, hlen⟩ := CombT.unfolds c
  refine ⟨l, ?_⟩
  unfold Comb.ops
  refine coherent_plain hu ⟨CombT.meas c, ?_, hlen⟩ ?_
  · obtain ⟨base, idx⟩ := c
    cases idx <;> rfl
  · rw [← unfolds_head hu]
    obtain ⟨base, idx⟩ := c
    cases idx with
    | none => rfl
    | some v =>
      simp only [Comb.peek, Comb.next]
      split <;> rfl

end Noulith.C11
