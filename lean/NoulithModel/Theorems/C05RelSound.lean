/-
C05 (refinement, part 2) — soundness of the fuel-indexed evaluator (Impl/CoreEval.lean) for the relational
big-step semantics (Spec/CoreSem.lean): whenever one of the eleven evaluator functions returns anything but
`fuelOut`, that result and final state have a derivation.  By induction on the fuel, all eleven functions
simultaneously: `Sound n` is the induction hypothesis, the `s_…` lemmas are the arms (each unfolds one layer of
the evaluator, names the results of the sub-calls and picks the rule), `Sound.step : Sound n → Sound (n + 1)`,
`sound_all : ∀ n, Sound n`.
-/
import NoulithModel.Theorems.C05RelComplete

set_option autoImplicit true
set_option relaxedAutoImplicit true

namespace Noulith.Core

/-! ## soundness: whatever the evaluator returns (other than `fuelOut`) has a derivation -/

theorem State.assign_of_some {st : State} {env : Nat} {x : String} {v : Val} {fs : Array Frame}
    (h : assignVar st.frames (st.frames.size + 1) env x v = some fs) :
    st.assign env x v = some { st with frames := fs } := by
  simp only [State.assign, h]

theorem State.assign_of_none {st : State} {env : Nat} {x : String} {v : Val}
    (h : assignVar st.frames (st.frames.size + 1) env x v = none) : st.assign env x v = none := by
  simp only [State.assign, h]

theorem State.drop_of_some {st : State} {env : Nat} {x : String} {fs : Array Frame}
    (h : dropVar st.frames (st.frames.size + 1) env x = some fs) :
    st.drop env x = some { st with frames := fs } := by
  simp only [State.drop, h]

theorem State.drop_of_none {st : State} {env : Nat} {x : String}
    (h : dropVar st.frames (st.frames.size + 1) env x = none) : st.drop env x = none := by
  simp only [State.drop, h]

theorem stop_ne {r : Res} (h : r ≠ .fuelOut) : ResL.stop r ≠ .stop .fuelOut :=
  fun hh => h (ResL.stop.inj hh)

theorem inr_ne {α : Type} {r : Res} (h : r ≠ .fuelOut) : (Sum.inr r : α ⊕ Res) ≠ .inr .fuelOut :=
  fun hh => h (Sum.inr.inj hh)

/-- the induction hypothesis: at fuel `n`, each of the eleven functions only returns derivable results -/
structure Sound (n : Nat) : Prop where
  ev : ∀ {st env e r st'}, eval n st env e = (r, st') → r ≠ .fuelOut → BigStep st env e r st'
  sw : ∀ {st env v arms r st'}, evalSwitch n st env v arms = (r, st') → r ≠ .fuelOut →
    SwitchStep st env v arms r st'
  sq : ∀ {st env es r st'}, evalSeq n st env es = (r, st') → r ≠ .fuelOut → SeqStep st env es r st'
  ls : ∀ {st env es r st'}, evalList n st env es = (r, st') → r ≠ .stop .fuelOut → ListStep st env es r st'
  into : ∀ {st env o r st'}, evalInto n st env o = (r, st') → r ≠ .inr .fuelOut → IntoStep st env o r st'
  wh : ∀ {st env c b r st'}, evalWhile n st env c b = (r, st') → r ≠ .fuelOut → WhileStep st env c b r st'
  fr : ∀ {st env its body acc r st' acc'}, evalFor n st env its body acc = (r, st', acc') → r ≠ .fuelOut →
    ForStep st env its body acc r st' acc'
  items : ∀ {st env p items its body acc r st' acc'}, forItems n st env p items its body acc = (r, st', acc') →
    r ≠ .fuelOut → ItemsStep st env p items its body acc r st' acc'
  body : ∀ {st env body acc r st' acc'}, forBody n st env body acc = (r, st', acc') → r ≠ .fuelOut →
    BodyStep st env body acc r st' acc'
  fin : ∀ {st env post d done r st'}, finishDict n st env post d done = (r, st') → r ≠ .fuelOut →
    FinishStep st env post d done r st'
  call : ∀ {st env f args r st'}, callVal n st env f args = (r, st') → r ≠ .fuelOut →
    CallStep st env f args r st'

section tactics
set_option hygiene false

/-- `sub_call t with r s hx`: `t` is the sub-call that the hypothesis `h` matches on; name its result
`(r, s)` (equation `hx`) and split `r` into the six kinds of result -/
syntax "sub_call " term " with " ident ident ident : tactic
macro_rules
  | `(tactic| sub_call $t with $r $s $hx) => `(tactic|
      (generalize $hx:ident : $t = y at h; obtain ⟨$r:ident, $s:ident⟩ := y; cases $r:ident <;> dsimp only at h))

/-- the same for a pattern match that declares in a fresh scope -/
syntax "sub_bind " " with " ident ident ident : tactic
macro_rules
  | `(tactic| sub_bind with $ok $s $hx) => `(tactic|
      (generalize $hx:ident : declarePat _ _ _ _ _ = y at h; obtain ⟨$ok:ident, $s:ident⟩ := y;
       cases $ok:ident <;> dsimp only at h))

/-- close all remaining goals — the sub-call ended with an exit, which the construct passes on (rule `rule`),
or ran out of fuel, which is excluded -/
syntax "exits " term : tactic
macro_rules
  | `(tactic| exits $rule) => `(tactic|
      all_goals (cases h; first | exact absurd rfl hne | exact $rule))

end tactics

variable {n : Nat}

/-! ### `eval`, arm by arm -/

abbrev EvS (n : Nat) (st : State) (env : Nat) (e : Expr) : Prop :=
  ∀ {r st'}, eval (n + 1) st env e = (r, st') → r ≠ .fuelOut → BigStep st env e r st'

theorem s_null : EvS n st env .null := by
  intro r st' h hne; simp only [eval] at h; cases h; exact .null
theorem s_int : EvS n st env (.int k) := by
  intro r st' h hne; simp only [eval] at h; cases h; exact .int
theorem s_str : EvS n st env (.str k) := by
  intro r st' h hne; simp only [eval] at h; cases h; exact .str
theorem s_lambda : EvS n st env (.lambda ps b) := by
  intro r st' h hne; simp only [eval] at h; cases h; exact .lambda
theorem s_cont : EvS n st env (.cont k) := by
  intro r st' h hne; simp only [eval] at h; cases h; exact .cont

theorem s_frozen : EvS n st env (.frozen i) := by
  intro r st' h hne
  simp only [eval] at h
  cases hf : st.frozenTab[i]? <;> rw [hf] at h <;> cases h
  · exact .frozen_missing hf
  · exact .frozen hf

theorem s_ident : EvS n st env (.ident x) := by
  intro r st' h hne
  simp only [eval] at h
  cases hl : st.lookup env x <;> rw [hl] at h <;> dsimp only at h
  · cases hb : builtinNames.contains x <;> simp only [hb, Bool.false_eq_true, ↓reduceIte] at h <;> cases h
    · exact .ident_undefined hl hb
    · exact .ident_builtin hl hb
  · cases h; exact .ident hl

theorem s_list (ih : Sound n) : EvS n st env (.list xs) := by
  intro r st' h hne
  simp only [eval] at h
  generalize hl : evalList n _ _ _ = y at h; obtain ⟨rl, st1⟩ := y
  cases rl <;> dsimp only at h <;> cases h
  · exact .list (ih.ls hl nofun)
  · exact .list_exit (ih.ls hl (stop_ne hne))

theorem s_op (ih : Sound n) : EvS n st env (.op name a b) := by
  intro r st' h hne
  simp only [eval] at h
  sub_call (eval n _ _ a) with ra st1 ha
  case val va =>
    sub_call (eval n _ _ b) with rb st2 hb
    case val vb =>
      cases ho : applyOp name va vb <;> rw [ho] at h <;> cases h
      · exact .op (ih.ev ha nofun) (ih.ev hb nofun) ho
      · exact .op_raise (ih.ev ha nofun) (ih.ev hb nofun) ho
    exits (.op_exit_right (ih.ev ha nofun) (ih.ev hb nofun) rfl)
  exits (.op_exit_left (ih.ev ha nofun) rfl)

theorem s_index (ih : Sound n) : EvS n st env (.index a b) := by
  intro r st' h hne
  simp only [eval] at h
  sub_call (eval n _ _ a) with ra st1 ha
  case val va =>
    sub_call (eval n _ _ b) with rb st2 hb
    case val vb =>
      cases ho : indexVal va vb <;> rw [ho] at h <;> cases h
      · exact .index (ih.ev ha nofun) (ih.ev hb nofun) ho
      · exact .index_raise (ih.ev ha nofun) (ih.ev hb nofun) ho
    exits (.index_exit_right (ih.ev ha nofun) (ih.ev hb nofun) rfl)
  exits (.index_exit_left (ih.ev ha nofun) rfl)

theorem s_call (ih : Sound n) : EvS n st env (.call f args) := by
  intro r st' h hne
  simp only [eval] at h
  sub_call (eval n _ _ f) with rf st1 hf
  case val vf =>
    generalize hl : evalList n _ _ _ = y at h; obtain ⟨rl, st2⟩ := y
    cases rl <;> dsimp only at h
    · exact .call (ih.ev hf nofun) (ih.ls hl nofun) (ih.call h hne)
    · cases h; exact .call_exit_args (ih.ev hf nofun) (ih.ls hl (stop_ne hne))
  exits (.call_exit_fn (ih.ev hf nofun) rfl)

theorem s_and (ih : Sound n) : EvS n st env (.and_ a b) := by
  intro r st' h hne
  simp only [eval] at h
  sub_call (eval n _ _ a) with ra st1 ha
  case val va =>
    cases ht : va.truthy <;> simp only [ht, Bool.false_eq_true, ↓reduceIte] at h
    · cases h; exact .and_short (ih.ev ha nofun) ht
    · exact .and_right (ih.ev ha nofun) ht (ih.ev h hne)
  exits (.and_exit (ih.ev ha nofun) rfl)

theorem s_or (ih : Sound n) : EvS n st env (.or_ a b) := by
  intro r st' h hne
  simp only [eval] at h
  sub_call (eval n _ _ a) with ra st1 ha
  case val va =>
    cases ht : va.truthy <;> simp only [ht, Bool.false_eq_true, ↓reduceIte] at h
    · exact .or_right (ih.ev ha nofun) ht (ih.ev h hne)
    · cases h; exact .or_short (ih.ev ha nofun) ht
  exits (.or_exit (ih.ev ha nofun) rfl)

theorem s_coalesce (ih : Sound n) : EvS n st env (.coalesce a b) := by
  intro r st' h hne
  simp only [eval] at h
  generalize ha : eval n _ _ a = y at h; obtain ⟨ra, st1⟩ := y
  cases ra
  case val va =>
    cases va <;> dsimp only at h
    case null => exact .coalesce_right (ih.ev ha nofun) (ih.ev h hne)
    all_goals (cases h; exact .coalesce_short (ih.ev ha nofun) nofun)
  all_goals dsimp only at h
  exits (.coalesce_exit (ih.ev ha nofun) rfl)

theorem s_seq (ih : Sound n) : EvS n st env (.seq xs semi) := by
  intro r st' h hne
  simp only [eval] at h
  sub_call (evalSeq n _ _ _) with rs st1 hs
  case val v => cases h; exact .seq (ih.sq hs nofun)
  exits (.seq_exit (ih.sq hs nofun) rfl)

theorem s_ite (ih : Sound n) : EvS n st env (.ite c t e) := by
  intro r st' h hne
  simp only [eval] at h
  sub_call (eval n _ _ c) with rc st1 hc
  case val vc =>
    cases ht : vc.truthy <;> simp only [ht, Bool.false_eq_true, ↓reduceIte] at h
    · cases e <;> dsimp only at h
      · cases h; exact .ite_false_no_else (ih.ev hc nofun) ht
      · exact .ite_false (ih.ev hc nofun) ht (ih.ev h hne)
    · exact .ite_true (ih.ev hc nofun) ht (ih.ev h hne)
  exits (.ite_exit (ih.ev hc nofun) rfl)

theorem s_while (ih : Sound n) : EvS n st env (.while_ c b) := by
  intro r st' h hne
  simp only [eval] at h
  exact .while_ (ih.wh h hne)

theorem s_for_exec (ih : Sound n) : EvS n st env (.for_ its (.exec b)) := by
  intro r st' h hne
  simp only [eval] at h
  generalize hf : evalFor n _ _ _ _ _ = y at h; obtain ⟨res, st1, acc1⟩ := y
  rcases res with v | ⟨_ | k, _ | w⟩ | ⟨_ | k⟩ | v | v | _ <;> dsimp only at h <;> cases h
  all_goals first
    | exact absurd rfl hne
    | exact .for_completed (ih.fr hf nofun) rfl
    | exact .for_broke (ih.fr hf nofun) rfl
    | exact .for_exit (ih.fr hf nofun) rfl

theorem s_for_yield (ih : Sound n) : EvS n st env (.for_ its (.yield e into)) := by
  intro r st' h hne
  simp only [eval] at h
  generalize hi : evalInto n _ _ _ = y at h; obtain ⟨ri, st1⟩ := y
  cases ri <;> dsimp only at h
  case inr r0 => cases h; exact .yield_into_exit (ih.into hi (inr_ne hne))
  case inl cp =>
    obtain ⟨c0, post⟩ := cp
    dsimp only at h
    generalize hf : evalFor n _ _ _ _ _ = y at h; obtain ⟨res, st2, acc2⟩ := y
    cases post with
    | none =>
      rcases res with v | ⟨_ | k, _ | w⟩ | ⟨_ | k⟩ | v | v | _ <;> dsimp only at h
      all_goals first
        | (cases h; exact absurd rfl hne)
        | (cases h; exact .yield_broke (ih.into hi nofun) (ih.fr hf nofun) rfl)
        | (cases h; exact .yield_exit (ih.into hi nofun) (ih.fr hf nofun) rfl)
        | (cases hfin : acc2.cata.finish <;> rw [hfin] at h <;> cases h <;>
            first
            | exact .yield_completed (ih.into hi nofun) (ih.fr hf nofun) rfl hfin
            | exact .yield_finish_raise (ih.into hi nofun) (ih.fr hf nofun) rfl hfin)
    | some f =>
      rcases res with v | ⟨_ | k, _ | w⟩ | ⟨_ | k⟩ | v | v | _ <;> dsimp only at h
      all_goals first
        | (cases h; exact absurd rfl hne)
        | exact .yield_broke_post (ih.into hi nofun) (ih.fr hf nofun) rfl (ih.call h hne)
        | (cases h; exact .yield_exit (ih.into hi nofun) (ih.fr hf nofun) rfl)
        | (cases hfin : acc2.cata.finish <;> rw [hfin] at h <;> dsimp only at h <;>
            first
            | exact .yield_completed_post (ih.into hi nofun) (ih.fr hf nofun) rfl hfin (ih.call h hne)
            | (cases h; exact .yield_finish_raise (ih.into hi nofun) (ih.fr hf nofun) rfl hfin))

theorem s_for_item (ih : Sound n) : EvS n st env (.for_ its (.yieldItem k v into)) := by
  intro r st' h hne
  simp only [eval] at h
  generalize hi : evalInto n _ _ _ = y at h; obtain ⟨ri, st1⟩ := y
  cases ri <;> dsimp only at h
  case inr r0 => cases h; exact .item_into_exit (ih.into hi (inr_ne hne))
  case inl cp =>
    obtain ⟨c0, post⟩ := cp
    dsimp only at h
    generalize hacc : ForAcc.mk _ [] = acc0 at h
    have hacc2 : acc0 = { cata := itemCata into c0 post, dict := [] } := by
      rw [← hacc]; cases into <;> cases post <;> rfl
    subst hacc2
    generalize hf : evalFor n _ _ _ _ _ = y at h; obtain ⟨res, st2, acc2⟩ := y
    rcases res with v | ⟨_ | k, _ | w⟩ | ⟨_ | k⟩ | v | v | _ <;> dsimp only at h
    all_goals first
      | (cases h; exact absurd rfl hne)
      | (cases h; exact .item_broke (ih.into hi nofun) (ih.fr hf nofun) rfl)
      | (cases h; exact .item_exit (ih.into hi nofun) (ih.fr hf nofun) rfl)
      | exact .item_completed (ih.into hi nofun) (ih.fr hf nofun) rfl (ih.fin h hne)

theorem s_declare (ih : Sound n) : EvS n st env (.declare p e) := by
  intro r st' h hne
  simp only [eval] at h
  sub_call (eval n _ _ e) with re st1 he
  case val v =>
    sub_bind with ok st2 hb <;> cases h
    · exact .declare_refused (ih.ev he nofun) hb
    · exact .declare (ih.ev he nofun) hb
  exits (.declare_exit (ih.ev he nofun) rfl)

theorem s_assign (ih : Sound n) : EvS n st env (.assign x e) := by
  intro r st' h hne
  simp only [eval] at h
  sub_call (eval n _ _ e) with re st1 he
  case val v =>
    cases ha : assignVar st1.frames (st1.frames.size + 1) env x v <;> rw [ha] at h <;> dsimp only at h <;> cases h
    · exact .assign_refused (ih.ev he nofun) (State.assign_of_none ha)
    · exact .assign (ih.ev he nofun) (State.assign_of_some ha)
  exits (.assign_exit (ih.ev he nofun) rfl)

theorem s_opassign (ih : Sound n) : EvS n st env (.opassign x opn e) := by
  intro r st' h hne
  simp only [eval] at h
  cases hl : st.lookup env x <;> rw [hl] at h <;> dsimp only at h
  · cases h; exact .opassign_undeclared hl
  · rename_i old
    sub_call (eval n _ _ e) with re st1 he
    case val v =>
      cases hd : dropVar st1.frames (st1.frames.size + 1) env x <;> rw [hd] at h <;> dsimp only at h
      · cases h; exact .opassign_drop_refused hl (ih.ev he nofun) (State.drop_of_none hd)
      · rename_i fs
        cases ho : applyOp opn old v <;> rw [ho] at h <;> dsimp only at h
        · generalize ha : assignVar _ _ _ _ _ = oa at h
          cases oa <;> dsimp only at h <;> cases h
          · exact .opassign_assign_refused hl (ih.ev he nofun) (State.drop_of_some hd) ho
              (State.assign_of_none (st := { st1 with frames := fs }) ha)
          · exact .opassign hl (ih.ev he nofun) (State.drop_of_some hd) ho
              (State.assign_of_some (st := { st1 with frames := fs }) ha)
        · cases h; exact .opassign_op_raise hl (ih.ev he nofun) (State.drop_of_some hd) ho
    exits (.opassign_exit hl (ih.ev he nofun) rfl)

theorem s_brk (ih : Sound n) : EvS n st env (.brk k e) := by
  intro r st' h hne
  cases e with
  | none => simp only [eval] at h; cases h; exact .brk
  | some e =>
    simp only [eval] at h
    sub_call (eval n _ _ e) with re st1 he
    case val v => cases h; exact .brk_value (ih.ev he nofun)
    exits (.brk_exit (ih.ev he nofun) rfl)

theorem s_ret (ih : Sound n) : EvS n st env (.ret e) := by
  intro r st' h hne
  cases e with
  | none => simp only [eval] at h; cases h; exact .ret
  | some e =>
    simp only [eval] at h
    sub_call (eval n _ _ e) with re st1 he
    case val v => cases h; exact .ret_value (ih.ev he nofun)
    exits (.ret_exit (ih.ev he nofun) rfl)

theorem s_throw (ih : Sound n) : EvS n st env (.throw_ e) := by
  intro r st' h hne
  simp only [eval] at h
  sub_call (eval n _ _ e) with re st1 he
  case val v => cases h; exact .throw_ (ih.ev he nofun)
  exits (.throw_exit (ih.ev he nofun) rfl)

theorem s_try (ih : Sound n) : EvS n st env (.try_ b p c) := by
  intro r st' h hne
  simp only [eval] at h
  sub_call (eval n _ _ b) with rb st1 hb
  case thrown v =>
    simp only [newFrame] at h
    sub_bind with ok st3 hp
    · cases h; exact .try_rethrow (ih.ev hb nofun) rfl hp
    · exact .try_catch (ih.ev hb nofun) rfl hp (ih.ev h hne)
  all_goals (cases h; first | exact absurd rfl hne | exact .try_pass (ih.ev hb hne) rfl)

theorem s_switch (ih : Sound n) : EvS n st env (.switch_ sc arms) := by
  intro r st' h hne
  simp only [eval] at h
  sub_call (eval n _ _ sc) with rs st1 hs
  case val v => exact .switch_ (ih.ev hs nofun) (ih.sw h hne)
  exits (.switch_exit (ih.ev hs nofun) rfl)

theorem s_evalSrc (ih : Sound n) : EvS n st env (.evalSrc e) := by
  intro r st' h hne
  simp only [eval] at h
  exact .evalSrc (ih.ev h hne)

theorem s_freeze (ih : Sound n) : EvS n st env (.freeze e) := by
  intro r st' h hne
  rw [eval_freeze] at h
  generalize hf : freezeExpr _ _ _ = y at h
  cases y <;> dsimp only at h
  · cases h; exact .freeze_refused hf
  · rename_i pr; obtain ⟨e', fs⟩ := pr
    dsimp only at h
    exact .freeze hf (ih.ev h hne)

theorem s_eval (ih : Sound n) : ∀ e, EvS n st env e := by
  intro e
  cases e with
  | null => exact s_null
  | int k => exact s_int
  | str k => exact s_str
  | ident x => exact s_ident
  | list xs => exact s_list ih
  | op name a b => exact s_op ih
  | index a i => exact s_index ih
  | call f args => exact s_call ih
  | and_ a b => exact s_and ih
  | or_ a b => exact s_or ih
  | coalesce a b => exact s_coalesce ih
  | seq xs semi => exact s_seq ih
  | ite c t e => exact s_ite ih
  | while_ c b => exact s_while ih
  | for_ its body =>
    cases body with
    | exec e => exact s_for_exec ih
    | yield e into => exact s_for_yield ih
    | yieldItem k v into => exact s_for_item ih
  | declare p e => exact s_declare ih
  | assign x e => exact s_assign ih
  | opassign x opn e => exact s_opassign ih
  | lambda ps b => exact s_lambda
  | brk k e => exact s_brk ih
  | cont k => exact s_cont
  | ret e => exact s_ret ih
  | throw_ e => exact s_throw ih
  | try_ b p c => exact s_try ih
  | switch_ sc arms => exact s_switch ih
  | evalSrc e => exact s_evalSrc ih
  | frozen v => exact s_frozen
  | freeze e => exact s_freeze ih

/-! ### the other ten functions -/

theorem s_switchArms (ih : Sound n) {st env v arms r st'}
    (h : evalSwitch (n + 1) st env v arms = (r, st')) (hne : r ≠ .fuelOut) : SwitchStep st env v arms r st' := by
  match arms with
  | [] => simp only [evalSwitch] at h; cases h; exact .no_arm
  | .mk p body :: rest =>
    simp only [evalSwitch, newFrame] at h
    sub_bind with ok st2 hp
    · exact .next rfl hp (ih.sw h hne)
    · exact .arm rfl hp (ih.ev h hne)

theorem s_evalSeq (ih : Sound n) {st env es r st'}
    (h : evalSeq (n + 1) st env es = (r, st')) (hne : r ≠ .fuelOut) : SeqStep st env es r st' := by
  match es with
  | [] => simp only [evalSeq] at h; cases h; exact .nil
  | [x] => simp only [evalSeq] at h; exact .last (ih.ev h hne)
  | x :: y :: ys =>
    simp only [evalSeq] at h
    sub_call (eval n _ _ x) with rx st1 hx
    case val v => exact .cons (ih.ev hx nofun) (ih.sq h hne)
    exits (.exit (ih.ev hx nofun) rfl)

theorem s_evalList (ih : Sound n) {st env es r st'}
    (h : evalList (n + 1) st env es = (r, st')) (hne : r ≠ .stop .fuelOut) : ListStep st env es r st' := by
  match es with
  | [] => simp only [evalList] at h; cases h; exact .nil
  | x :: xs =>
    simp only [evalList] at h
    sub_call (eval n _ _ x) with rx st1 hx
    case val v =>
      generalize hl : evalList n _ _ _ = y at h; obtain ⟨rl, st2⟩ := y
      cases rl <;> dsimp only at h <;> cases h
      · exact .cons (ih.ev hx nofun) (ih.ls hl nofun)
      · exact .exit_tail (ih.ev hx nofun) (ih.ls hl hne)
    exits (.exit_head (ih.ev hx nofun) rfl)

theorem s_evalInto (ih : Sound n) {st env o r st'}
    (h : evalInto (n + 1) st env o = (r, st')) (hne : r ≠ .inr .fuelOut) : IntoStep st env o r st' := by
  match o with
  | none => simp only [evalInto] at h; cases h; exact .none
  | some e =>
    simp only [evalInto] at h
    generalize he : eval n _ _ e = y at h; obtain ⟨re, st1⟩ := y
    cases re
    case val f =>
      cases f <;> dsimp only at h
      case builtin name =>
        cases hc : cataOfBuiltin name <;> rw [hc] at h <;> dsimp only at h <;> cases h
        · exact .func (ih.ev he nofun) hc
        · exact .cata (ih.ev he nofun) hc
      all_goals (cases h; exact .func (ih.ev he nofun) rfl)
    all_goals dsimp only at h
    exits (.exit (ih.ev he nofun) rfl)

theorem s_evalWhile (ih : Sound n) {st env c b r st'}
    (h : evalWhile (n + 1) st env c b = (r, st')) (hne : r ≠ .fuelOut) : WhileStep st env c b r st' := by
  simp only [evalWhile, newFrame] at h
  sub_call (eval n _ _ c) with rc st2 hc
  case val vc =>
    cases ht : vc.truthy <;> simp only [ht, Bool.false_eq_true, ↓reduceIte, Bool.not_true, Bool.not_false] at h
    · cases h; exact .done rfl (ih.ev hc nofun) ht
    · generalize hb : eval n _ _ b = y at h; obtain ⟨rb, st3⟩ := y
      rcases rb with v | ⟨_ | k, w⟩ | ⟨_ | k⟩ | v | v | _ <;> dsimp only at h
      all_goals first
        | (cases h; exact absurd rfl hne)
        | exact .next rfl (ih.ev hc nofun) ht (ih.ev hb nofun) rfl (ih.wh h hne)
        | (cases h; exact .break_ rfl (ih.ev hc nofun) ht (ih.ev hb nofun))
        | (cases h; exact .break_outer rfl (ih.ev hc nofun) ht (ih.ev hb nofun))
        | (cases h; exact .continue_outer rfl (ih.ev hc nofun) ht (ih.ev hb nofun))
        | (cases h; exact .pass rfl (ih.ev hc nofun) ht (ih.ev hb nofun) rfl)
  exits (.cond_exit rfl (ih.ev hc nofun) rfl)

theorem s_evalFor (ih : Sound n) {st env its body acc r st' acc'}
    (h : evalFor (n + 1) st env its body acc = (r, st', acc')) (hne : r ≠ .fuelOut) :
    ForStep st env its body acc r st' acc' := by
  match its with
  | [] =>
    simp only [evalFor] at h
    generalize hb : forBody n _ _ _ _ = y at h; obtain ⟨rb, st1, acc1⟩ := y
    rcases rb with v | ⟨k, w⟩ | ⟨_ | k⟩ | v | v | _ <;> (try dsimp only at h) <;> cases h
    all_goals first
      | exact absurd rfl hne
      | exact .body_continue (ih.body hb nofun)
      | exact .body (ih.body hb nofun) nofun
  | .guard g :: rest =>
    simp only [evalFor] at h
    sub_call (eval n _ _ g) with rg st1 hg
    case val v =>
      cases ht : v.truthy <;> simp only [ht, Bool.false_eq_true, ↓reduceIte] at h
      · cases h; exact .guard_false (ih.ev hg nofun) ht
      · exact .guard_true (ih.ev hg nofun) ht (ih.fr h hne)
    exits (.guard_exit (ih.ev hg nofun) rfl)
  | .iter kind p e :: rest =>
    simp only [evalFor] at h
    sub_call (eval n _ _ e) with re st1 he
    case val v =>
      cases kind <;> dsimp only at h
      case normal =>
        cases hi : iterValues v <;> rw [hi] at h <;> dsimp only at h
        · cases h; exact .each_not_iterable (ih.ev he nofun) hi
        · exact .each (ih.ev he nofun) hi (ih.items h hne)
      case item =>
        cases hi : iterPairs v <;> rw [hi] at h <;> dsimp only at h
        · cases h; exact .each_pair_not_iterable (ih.ev he nofun) hi
        · exact .each_pair (ih.ev he nofun) hi (ih.items h hne)
      case declare =>
        simp only [newFrame] at h
        sub_bind with ok st3 hp
        · cases h; exact .declare_refused (ih.ev he nofun) rfl hp
        · exact .declare (ih.ev he nofun) rfl hp (ih.fr h hne)
    exits (.iter_exit (ih.ev he nofun) rfl)

theorem s_forItems (ih : Sound n) {st env p items its body acc r st' acc'}
    (h : forItems (n + 1) st env p items its body acc = (r, st', acc')) (hne : r ≠ .fuelOut) :
    ItemsStep st env p items its body acc r st' acc' := by
  match items with
  | [] => simp only [forItems] at h; cases h; exact .done
  | x :: xs =>
    simp only [forItems, newFrame] at h
    sub_bind with ok st2 hp
    · cases h; exact .bind_refused rfl hp
    · generalize hf : evalFor n _ _ _ _ _ = y at h; obtain ⟨rf, st3, acc3⟩ := y
      cases rf <;> dsimp only at h
      case val v => exact .next rfl hp (ih.fr hf nofun) (ih.items h hne)
      exits (.exit rfl hp (ih.fr hf nofun) rfl)

theorem s_forBody (ih : Sound n) {st env body acc r st' acc'}
    (h : forBody (n + 1) st env body acc = (r, st', acc')) (hne : r ≠ .fuelOut) :
    BodyStep st env body acc r st' acc' := by
  match body with
  | .exec e =>
    simp only [forBody] at h
    sub_call (eval n _ _ e) with re st1 he
    case val v => cases h; exact .exec (ih.ev he nofun)
    exits (.exec_exit (ih.ev he nofun) rfl)
  | .yield e into =>
    simp only [forBody] at h
    sub_call (eval n _ _ e) with re st1 he
    case val v =>
      cases hg : acc.cata.give v <;> rw [hg] at h <;> dsimp only at h <;> cases h
      · exact .yield (ih.ev he nofun) hg
      · exact .yield_stop (ih.ev he nofun) hg
      · exact .yield_raise (ih.ev he nofun) hg
    exits (.yield_exit (ih.ev he nofun) rfl)
  | .yieldItem k v into =>
    simp only [forBody] at h
    sub_call (eval n _ _ k) with rk st1 hk
    case val vk =>
      cases vk <;> dsimp only at h
      case closure => cases h; exact .key_is_function (ih.ev hk nofun) rfl
      case builtin => cases h; exact .key_is_function (ih.ev hk nofun) rfl
      all_goals (
        generalize hd : dictFind _ _ = d at h
        rcases d with _ | (c | w) <;> dsimp only at h)
      all_goals first
        | (cases h; exact .key_closed (ih.ev hk nofun) rfl hd)
        | (generalize hv : eval n _ _ v = y at h; obtain ⟨rv, st2⟩ := y
           cases rv <;> dsimp only at h <;>
           first
           | (cases h; exact absurd rfl hne)
           | (cases h; exact .key_open_exit (ih.ev hk nofun) rfl hd (ih.ev hv nofun) rfl)
           | (cases h; exact .key_new_exit (ih.ev hk nofun) rfl hd (ih.ev hv nofun) rfl)
           | (generalize hg : Cata.give _ _ = g at h
              cases g <;> dsimp only at h <;> cases h <;>
              first
              | exact .key_open (ih.ev hk nofun) rfl hd (ih.ev hv nofun) hg
              | exact .key_open_stop (ih.ev hk nofun) rfl hd (ih.ev hv nofun) hg
              | exact .key_open_raise (ih.ev hk nofun) rfl hd (ih.ev hv nofun) hg
              | exact .key_new (ih.ev hk nofun) rfl hd (ih.ev hv nofun) hg
              | exact .key_new_stop (ih.ev hk nofun) rfl hd (ih.ev hv nofun) hg
              | exact .key_new_raise (ih.ev hk nofun) rfl hd (ih.ev hv nofun) hg))
    exits (.key_exit (ih.ev hk nofun) rfl)

theorem s_finishDict (ih : Sound n) {st env post d done r st'}
    (h : finishDict (n + 1) st env post d done = (r, st')) (hne : r ≠ .fuelOut) :
    FinishStep st env post d done r st' := by
  match d with
  | [] => simp only [finishDict] at h; cases h; exact .done
  | (k, .inr v) :: rest =>
    simp only [finishDict] at h
    exact .closed (ih.fin h hne)
  | (k, .inl c) :: rest =>
    simp only [finishDict] at h
    cases hf : c.finish <;> rw [hf] at h <;> dsimp only at h
    · cases post <;> dsimp only at h
      · exact .open_ hf (ih.fin h hne)
      · generalize hc : callVal n _ _ _ _ = y at h; obtain ⟨rc, st1⟩ := y
        cases rc <;> dsimp only at h
        case val v2 => exact .post hf (ih.call hc nofun) (ih.fin h hne)
        exits (.post_exit hf (ih.call hc nofun) rfl)
    · cases h; exact .raise hf

theorem s_call_closure (ih : Sound n) {st env ps body cenv args r st'}
    (h : callVal (n + 1) st env (.closure ps body cenv) args = (r, st')) (hne : r ≠ .fuelOut) :
    CallStep st env (.closure ps body cenv) args r st' := by
  have h0 := h
  simp only [callVal, newFrame] at h
  generalize hl : evalList n _ _ _ = y at h; obtain ⟨rl, st1⟩ := y
  cases rl <;> dsimp only at h
  case stop r0 => cases h; exact .annotation_exit rfl (ih.ls hl (stop_ne hne))
  case ok tvs =>
    cases hd : defaultsInPlay args.length ps 0 false [] <;> rw [hd] at h <;> dsimp only at h
    · cases h; exact .defaults_refused rfl (ih.ls hl nofun) hd
    · rename_i inPlay
      cases har : arityRefused ps args.length inPlay
      · have har2 := har
        simp only [arityRefused] at har2
        simp only [har2, Bool.false_eq_true, ↓reduceIte] at h
        generalize hl2 : evalList n _ _ inPlay = y at h; obtain ⟨rl2, st2⟩ := y
        cases rl2 <;> dsimp only at h
        case stop r0 => cases h; exact .default_exit rfl (ih.ls hl nofun) hd har (ih.ls hl2 (stop_ne hne))
        case ok dvs =>
          clear h
          rw [callVal_closure_bind n st env ps body cenv args _ _ tvs st1 inPlay dvs st2 rfl hl hd har hl2] at h0
          cases hb : bindParams st2 st.frames.size ps tvs args dvs with
          | none => rw [hb] at h0; cases h0; exact .bind_refused rfl (ih.ls hl nofun) hd har (ih.ls hl2 nofun) hb
          | some pr =>
            obtain ⟨ok, st3⟩ := pr
            rw [hb] at h0
            cases ok <;> dsimp only at h0
            · cases h0; exact .type_refused rfl (ih.ls hl nofun) hd har (ih.ls hl2 nofun) hb
            · generalize hbody : eval n _ _ body = y at h0; obtain ⟨rb, st4⟩ := y
              cases rb <;> dsimp only at h0 <;> cases h0
              all_goals first
                | exact absurd rfl hne
                | exact .returned rfl (ih.ls hl nofun) hd har (ih.ls hl2 nofun) hb (ih.ev hbody nofun)
                | exact .body rfl (ih.ls hl nofun) hd har (ih.ls hl2 nofun) hb (ih.ev hbody nofun) rfl
      · have har2 := har
        simp only [arityRefused] at har2
        simp only [har2, ↓reduceIte] at h
        cases h; exact .arity_refused rfl (ih.ls hl nofun) hd har

theorem s_callVal (ih : Sound n) {st env f args r st'}
    (h : callVal (n + 1) st env f args = (r, st')) (hne : r ≠ .fuelOut) : CallStep st env f args r st' := by
  cases f with
  | closure ps body cenv => exact s_call_closure ih h hne
  | builtin name =>
    by_cases hp : name = "print"
    · subst hp; rw [callVal_print] at h; cases h; exact .print
    · rw [callVal_builtin _ _ _ _ _ hp] at h
      cases hc : callBuiltin name args <;> rw [hc] at h <;> dsimp only at h <;> cases h
      · exact .builtin hp hc
      · exact .builtin_raise hp hc
  | null => rw [callVal_not_callable _ _ _ _ _ rfl] at h; cases h; exact .not_callable rfl
  | int k => rw [callVal_not_callable _ _ _ _ _ rfl] at h; cases h; exact .not_callable rfl
  | str k => rw [callVal_not_callable _ _ _ _ _ rfl] at h; cases h; exact .not_callable rfl
  | list k => rw [callVal_not_callable _ _ _ _ _ rfl] at h; cases h; exact .not_callable rfl
  | dict k => rw [callVal_not_callable _ _ _ _ _ rfl] at h; cases h; exact .not_callable rfl
  | err => rw [callVal_not_callable _ _ _ _ _ rfl] at h; cases h; exact .not_callable rfl

/-! ### assembling -/

theorem Sound.zero : Sound 0 where
  ev h hne := by simp only [eval] at h; cases h; exact absurd rfl hne
  sw h hne := by simp only [evalSwitch] at h; cases h; exact absurd rfl hne
  sq h hne := by simp only [evalSeq] at h; cases h; exact absurd rfl hne
  ls h hne := by simp only [evalList] at h; cases h; exact absurd rfl hne
  into h hne := by simp only [evalInto] at h; cases h; exact absurd rfl hne
  wh h hne := by simp only [evalWhile] at h; cases h; exact absurd rfl hne
  fr h hne := by simp only [evalFor] at h; cases h; exact absurd rfl hne
  items h hne := by simp only [forItems] at h; cases h; exact absurd rfl hne
  body h hne := by simp only [forBody] at h; cases h; exact absurd rfl hne
  fin h hne := by simp only [finishDict] at h; cases h; exact absurd rfl hne
  call h hne := by simp only [callVal] at h; cases h; exact absurd rfl hne

theorem Sound.step (ih : Sound n) : Sound (n + 1) where
  ev h hne := s_eval ih _ h hne
  sw h hne := s_switchArms ih h hne
  sq h hne := s_evalSeq ih h hne
  ls h hne := s_evalList ih h hne
  into h hne := s_evalInto ih h hne
  wh h hne := s_evalWhile ih h hne
  fr h hne := s_evalFor ih h hne
  items h hne := s_forItems ih h hne
  body h hne := s_forBody ih h hne
  fin h hne := s_finishDict ih h hne
  call h hne := s_callVal ih h hne

/-- soundness of all eleven evaluator functions, at every fuel -/
theorem sound_all : ∀ n, Sound n
  | 0 => Sound.zero
  | n + 1 => (sound_all n).step

end Noulith.Core
