/-
C11, part 3 — the lazy adaptors (`lazy_map`, `lazy_filter`, `lazy_zip`) of finite streams are
coherent finite streams; every drop position of a coherent stream is coherent; the infinite streams
(`iota`, `repeat`, `cycle`, `iterate`) follow their defining recurrences.
-/
import NoulithModel.Theorems.C11Types

namespace Noulith.C11
open Noulith Noulith.Stream Noulith.StreamSpec

/-! ## hereditary finiteness: the stream unfolds to `l` and the model's fuel bound is sufficient in
every state on the way (what the adaptors need from their inner streams) -/

inductive UnfoldsB {σ β : Type} (o : Ops σ β) : σ → List β → Prop where
  | done {s} : o.next s = none → (∃ b, o.bound s = some b) → UnfoldsB o s []
  | step {s v s' l} : o.next s = some (v, s') → (∃ b, o.bound s = some b ∧ (v :: l).length ≤ b) →
      UnfoldsB o s' l → UnfoldsB o s (v :: l)

section
variable {σ τ β γ : Type}

theorem UnfoldsB.unfolds {o : Ops σ β} {s : σ} {l : List β} (h : UnfoldsB o s l) : Unfolds o.next s l := by
  induction h with
  | done h _ => exact .done h
  | step h _ _ ih => exact .step h ih

theorem UnfoldsB.bound {o : Ops σ β} {s : σ} {l : List β} (h : UnfoldsB o s l) :
    ∃ b, o.bound s = some b ∧ l.length ≤ b := by
  cases h with
  | done _ hb => obtain ⟨b, hb⟩ := hb; exact ⟨b, hb, by simp⟩
  | step _ hb _ => exact hb

/-- every position reached by dropping a prefix -/
theorem UnfoldsB.drop {o : Ops σ β} {s : σ} {l : List β} (h : UnfoldsB o s l) :
    ∀ n, UnfoldsB o (dropN o.next n s) (l.drop n) := by
  induction h with
  | done h hb => intro n; cases n <;> simp [dropN, h] <;> exact .done h hb
  | step h hb t ih =>
    intro n
    cases n with
    | zero => simpa [dropN] using UnfoldsB.step h hb t
    | succ n => simpa [dropN, h] using ih n

/-- a family of states closed under `next` in which the bound is always sufficient -/
theorem unfoldsB_of_family {o : Ops σ β} (F : σ → Prop)
    (hclosed : ∀ s v s', F s → o.next s = some (v, s') → F s')
    (hb : ∀ s l, F s → Unfolds o.next s l → ∃ b, o.bound s = some b ∧ l.length ≤ b) :
    ∀ s l, F s → Unfolds o.next s l → UnfoldsB o s l := by
  intro s l hf hu
  induction hu with
  | @done s h =>
    obtain ⟨b, hb1, _⟩ := hb s [] hf (.done h)
    exact .done h ⟨b, hb1⟩
  | @step s v s' l h t ih =>
    exact .step h (hb s (v :: l) hf (.step h t)) (ih (hclosed s v s' hf h))

/-- a stream type that overrides nothing is coherent wherever it unfolds with a sufficient bound -/
theorem plain_coherent {next : σ → Option (β × σ)} {peek : σ → Option β} {bound : σ → Option Nat}
    (hp : ∀ s, peek s = (next s).map Prod.fst) {s : σ} {l : List β}
    (h : UnfoldsB (Ops.plain next peek bound) s l) : Coherent (Ops.plain next peek bound) s l := by
  have hu : Unfolds next s l := h.unfolds
  exact coherent_plain hu h.bound (by rw [hp s]; exact unfolds_head hu)

/-! ### lazy_map -/

theorem map_unfoldsB {o : Ops σ β} (f : β → γ) {s : σ} {l : List β} (h : UnfoldsB o s l) :
    UnfoldsB (mapOps o f) s (l.map f) := by
  induction h with
  | done h hb => exact .done (by simp [mapOps, Ops.plain, Ops.build, mapNext, h]) hb
  | step h hb _ ih =>
    refine .step (by simp [mapOps, Ops.plain, Ops.build, mapNext, h]) ?_ ih
    simpa [mapOps, Ops.plain, Ops.build] using hb

theorem map_peekNext {o : Ops σ β} (hp : PeekNext o) (f : β → γ) : PeekNext (mapOps o f) := by
  intro s
  simp only [mapOps, Ops.plain, Ops.build, hp s, mapNext]
  cases o.next s with
  | none => rfl
  | some p => rfl

/-- **lazy_map of a finite stream**: coherent with the mapped list, in every state -/
theorem map_coherent {o : Ops σ β} (hp : PeekNext o) (f : β → γ) {s : σ} {l : List β}
    (h : UnfoldsB o s l) : Coherent (mapOps o f) s (l.map f) :=
  plain_coherent (fun s => map_peekNext hp f s) (map_unfoldsB f h)

/-! ### lazy_filter -/

/-- with enough fuel the loop of `FilteredStream::next` does not depend on the fuel -/
theorem filterLoop_fuel_irrel {next : σ → Option (β × σ)} (p : β → Bool) {s : σ} {l : List β}
    (h : Unfolds next s l) : ∀ f1 f2, l.length ≤ f1 → l.length ≤ f2 →
      filterLoop next p f1 s = filterLoop next p f2 s := by
  induction h with
  | done h => intro f1 f2 _ _; unfold filterLoop; simp [h]
  | @step s v s' l h t ih =>
    intro f1 f2 h1 h2
    unfold filterLoop
    simp only [h]
    cases hv : p v with
    | true => simp
    | false =>
      cases f1 with
      | zero => simp at h1
      | succ f1 =>
        cases f2 with
        | zero => simp at h2
        | succ f2 => simpa using ih f1 f2 (by simpa using h1) (by simpa using h2)

theorem filter_unfoldsB {o : Ops σ β} (p : β → Bool) {s : σ} {l : List β} (h : UnfoldsB o s l) :
    UnfoldsB (filterOps o p) s (l.filter p) := by
  induction h with
  | @done s h hb =>
    obtain ⟨b, hb⟩ := hb
    refine .done ?_ ⟨b, hb⟩
    show filterNext o p s = none
    unfold filterNext filterLoop
    simp [h]
  | @step s v s' l h hb t ih =>
    obtain ⟨b, hb1, hb2⟩ := hb
    have hlen : (List.filter p (v :: l)).length ≤ b :=
      Nat.le_trans (List.length_filter_le _ _) hb2
    cases hv : p v with
    | true =>
      rw [List.filter_cons_of_pos hv]
      refine .step ?_ ⟨b, hb1, by rw [← List.filter_cons_of_pos hv]; exact hlen⟩ ih
      show filterNext o p s = some (v, s')
      unfold filterNext filterLoop
      simp [h, hv]
    | false =>
      have hne : ¬ p v = true := by simp [hv]
      rw [List.filter_cons_of_neg hne]
      rw [List.filter_cons_of_neg hne] at hlen
      -- the filter's `next` at `s` is its `next` at `s'`
      obtain ⟨b', hb1', hb2'⟩ := t.bound
      have hb0 : 1 ≤ b := by simp at hb2; omega
      have hnext : (filterOps o p).next s = (filterOps o p).next s' := by
        show filterNext o p s = filterNext o p s'
        unfold filterNext
        rw [hb1, hb1']
        simp only [fuelOf, Option.getD_some]
        obtain ⟨c, rfl⟩ : ∃ c, b = c + 1 := ⟨b - 1, by omega⟩
        conv => lhs; unfold filterLoop
        simp only [h, hv]
        rw [filterLoop_fuel_irrel p t.unfolds c b' (by simp at hb2; omega) hb2']
        simp
      generalize List.filter p l = L at ih hlen ⊢
      cases ih with
      | done h' _ => exact .done (by rw [hnext]; exact h') ⟨b, hb1⟩
      | step h' _ t' => exact .step (by rw [hnext]; exact h') ⟨b, hb1, hlen⟩ t'

theorem filter_peekNext (o : Ops σ β) (p : β → Bool) : PeekNext (filterOps o p) := fun _ => rfl

/-- **lazy_filter of a finite stream**: coherent with the filtered list, in every state -/
theorem filter_coherent {o : Ops σ β} (p : β → Bool) {s : σ} {l : List β}
    (h : UnfoldsB o s l) : Coherent (filterOps o p) s (l.filter p) :=
  plain_coherent (fun s => filter_peekNext o p s) (filter_unfoldsB p h)

/-! ### lazy_zip -/

theorem zip_unfoldsB {a : Ops σ β} {b : Ops τ (List β)} {s1 : σ} {l1 : List β}
    (h1 : UnfoldsB a s1 l1) : ∀ {s2 : τ} {l2 : List (List β)}, UnfoldsB b s2 l2 →
    UnfoldsB (zipOps a b) (s1, s2) (List.zipWith (· :: ·) l1 l2) := by
  induction h1 with
  | @done s1 h hb =>
    intro s2 l2 h2
    obtain ⟨b1, hb1⟩ := hb
    obtain ⟨b2, hb2, _⟩ := h2.bound
    rw [List.zipWith_nil_left]
    refine .done ?_ ⟨min b1 b2, ?_⟩
    · show zipNext a.next b.next (s1, s2) = none
      simp [zipNext, h]
    · show zipBound (a.bound s1) (b.bound s2) = _
      simp [hb1, hb2, zipBound]
  | @step s1 v s1' l1 h hb t ih =>
    intro s2 l2 h2
    obtain ⟨b1, hb1, hb1'⟩ := hb
    cases h2 with
    | @done s2 h' hb' =>
      obtain ⟨b2, hb2⟩ := hb'
      rw [List.zipWith_nil_right]
      refine .done ?_ ⟨min b1 b2, ?_⟩
      · show zipNext a.next b.next (s1, s2) = none
        simp [zipNext, h, h']
      · show zipBound (a.bound s1) (b.bound s2) = _
        simp [hb1, hb2, zipBound]
    | @step s2 w s2' l2 h' hb' t' =>
      obtain ⟨b2, hb2, hb2'⟩ := hb'
      rw [List.zipWith_cons_cons]
      refine .step ?_ ⟨min b1 b2, ?_, ?_⟩ (ih t')
      · show zipNext a.next b.next (s1, s2) = _
        simp [zipNext, h, h']
      · show zipBound (a.bound s1) (b.bound s2) = _
        simp [hb1, hb2, zipBound]
      · simp only [List.length_cons, List.length_zipWith] at hb1' hb2' ⊢
        omega

theorem zip_peekNext {a : Ops σ β} {b : Ops τ (List β)} (ha : PeekNext a) (hb : PeekNext b) :
    PeekNext (zipOps a b) := by
  intro s
  show (match a.peek s.1, b.peek s.2 with
    | some x, some xs => some (x :: xs)
    | _, _ => none) = (zipNext a.next b.next s).map Prod.fst
  rw [ha s.1, hb s.2]
  unfold zipNext
  cases a.next s.1 with
  | none => rfl
  | some p1 =>
    cases b.next s.2 with
    | none => rfl
    | some p2 => rfl

/-- **lazy_zip of finite streams**: coherent with the zipped list (the shorter length) -/
theorem zip_coherent {a : Ops σ β} {b : Ops τ (List β)} (ha : PeekNext a) (hb : PeekNext b)
    {s1 : σ} {s2 : τ} {l1 : List β} {l2 : List (List β)} (h1 : UnfoldsB a s1 l1)
    (h2 : UnfoldsB b s2 l2) :
    Coherent (zipOps a b) (s1, s2) (List.zipWith (· :: ·) l1 l2) :=
  plain_coherent (fun s => zip_peekNext ha hb s) (zip_unfoldsB h1 h2)


/-- `zipOne`: the innermost stream of a zip, yielding one-element argument lists -/
theorem zipOne_unfoldsB {o : Ops σ β} {s : σ} {l : List β} (h : UnfoldsB o s l) :
    UnfoldsB (zipOne o) s (l.map fun x => [x]) := map_unfoldsB _ h

/-! ### re-typing the elements (`mapOut`) keeps every override and keeps coherence -/

theorem pyIndex_map (f : β → γ) (l : List β) (i : Int) :
    pyIndex (l.map f) i = (pyIndex l i).map f := by
  unfold pyIndex
  simp only [List.length_map, List.getElem?_map]
  split
  · rfl
  · split <;> rfl

theorem idxRes_map (f : β → γ) (l : List β) (i : Int) :
    idxRes (l.map f) i = (idxRes l i).map f := by
  unfold idxRes
  rw [pyIndex_map]
  cases pyIndex l i <;> rfl

theorem pySliceSpec_map (f : β → γ) (l : List β) (lo hi : Option Int) :
    pySliceSpec (l.map f) lo hi = (pySliceSpec l lo hi).map f := by
  rw [← pySlice_spec, ← pySlice_spec]
  simp [sliceList, List.map_take, List.map_drop]

theorem mapOut_unfolds {o : Ops σ β} (f : β → γ) {s : σ} {l : List β} (h : Unfolds o.next s l) :
    Unfolds (mapOut f o).next s (l.map f) := by
  induction h with
  | done h => exact .done (by simp [mapOut, mapNext, h])
  | step h _ ih => exact .step (by simp [mapOut, mapNext, h]) ih

theorem mapOut_coherent {o : Ops σ β} (f : β → γ) {s : σ} {l : List β} (h : Coherent o s l) :
    Coherent (mapOut f o) s (l.map f) where
  unfolds := mapOut_unfolds f h.unfolds
  bound := by simpa [mapOut] using h.bound
  len := by simpa [mapOut] using h.len
  force := by simp [mapOut, h.force, R.map, R.bind]
  peek := by simp [mapOut, h.peek]
  index := by
    intro i
    simp only [mapOut, h.index i, idxRes_map]
  slice := by
    intro lo hi
    obtain ⟨r, hr, hok⟩ := h.slice lo hi
    cases r with
    | list l' =>
      refine ⟨.list (l'.map f), by simp [mapOut, hr, R.map, R.bind], ?_⟩
      show l'.map f = _
      rw [pySliceSpec_map]
      exact congrArg _ hok
    | strm s' =>
      refine ⟨.strm s', by simp [mapOut, hr, R.map, R.bind], ?_⟩
      show Unfolds _ s' _
      rw [pySliceSpec_map]
      exact mapOut_unfolds f hok
  reversed := by simp [mapOut, h.reversed, R.map, R.bind]

theorem mapOut_unfoldsB {o : Ops σ β} (f : β → γ) {s : σ} {l : List β} (h : UnfoldsB o s l) :
    UnfoldsB (mapOut f o) s (l.map f) := by
  induction h with
  | done h hb => exact .done (by simp [mapOut, mapNext, h]) hb
  | step h hb _ ih =>
    refine .step (by simp [mapOut, mapNext, h]) ?_ ih
    simpa [mapOut] using hb

theorem mapOut_peekNext {o : Ops σ β} (hp : PeekNext o) (f : β → γ) : PeekNext (mapOut f o) := by
  intro s
  simp only [mapOut, hp s, mapNext]
  cases o.next s with
  | none => rfl
  | some p => rfl

end

/-! ## every position reached by dropping a prefix answers for its own remaining elements

In a family of states closed under `next` in which every state is coherent with the list it unfolds
to, the state reached from `s` by dropping `k` elements (`s drop k`, `s[k:]`, `tail`) is coherent
with `l.drop k`; in particular its `len` is `len s - k` (and 0 once exhausted), whatever was observed
on `s` before — the model has no place where an earlier observation could be remembered. -/
theorem family_dropN {σ β : Type} {o : Ops σ β} (F : σ → Prop)
    (hclosed : ∀ s v s', F s → o.next s = some (v, s') → F s') :
    ∀ k s, F s → F (dropN o.next k s) := by
  intro k
  induction k with
  | zero => intro s h; exact h
  | succ k ih =>
    intro s h
    simp only [dropN]
    cases hn : o.next s with
    | none => exact h
    | some p => exact ih p.2 (hclosed s p.1 p.2 h hn)

theorem coherent_drop_of_family {σ β : Type} {o : Ops σ β} (F : σ → Prop)
    (hclosed : ∀ s v s', F s → o.next s = some (v, s') → F s')
    (hcoh : ∀ s, F s → ∃ l, Coherent o s l) {s : σ} {l : List β} (hF : F s)
    (h : Coherent o s l) (k : Nat) :
    Coherent o (dropN o.next k s) (l.drop k) ∧
      o.len (dropN o.next k s) = .ok (some (l.length - k)) := by
  obtain ⟨l', h'⟩ := hcoh _ (family_dropN F hclosed k s hF)
  have e : l' = l.drop k := Unfolds.functional h'.unfolds (dropN_unfolds h.unfolds k)
  subst e
  exact ⟨h', by rw [h'.len, List.length_drop]⟩

/-- the same through the consumer: `s[k:]` is a stream whose `len` is `len s - k` -/
theorem slice_tail_len {σ β : Type} {o : Ops σ β} (F : σ → Prop)
    (hclosed : ∀ s v s', F s → o.next s = some (v, s') → F s')
    (hcoh : ∀ s, F s → ∃ l, Coherent o s l) {s : σ} {l : List β} (hF : F s)
    (h : Coherent o s l) (k : Nat)
    (hslice : o.slice s (some (k : Int)) none = .ok (.strm (dropN o.next k s))) :
    ∃ t, o.slice s (some (k : Int)) none = .ok (.strm t) ∧ o.len t = .ok (some (l.length - k)) :=
  ⟨_, hslice, (coherent_drop_of_family F hclosed hcoh hF h k).2⟩

/-- for the types that use the default `pythonic_slice`, `s[k:]` *is* the dropped state -/
theorem build_slice_tail {σ β : Type} (next : σ → Option (β × σ)) (peek : σ → Option β)
    (bound : σ → Option Nat) (len : σ → R (Option Nat)) (force : σ → R (List β)) (s : σ) (k : Nat) :
    (Ops.build next peek bound len force).slice s (some (k : Int)) none = .ok (.strm (dropN next k s)) := by
  show defaultSlice next force s (some (k : Int)) none = _
  unfold defaultSlice
  have : (0 : Int) ≤ (k : Int) := by omega
  simp [this]

/-! ## the finite stream types are hereditarily finite, and their `peek` is their `next` -/

theorem range_peekNext : PeekNext Range.ops := by
  intro r
  show Range.peek r = (Range.next r).map Prod.fst
  unfold Range.peek Range.next
  split <;> rfl

theorem range_unfoldsB (start e step : Int) (hstep : step ≠ 0) :
    UnfoldsB Range.ops ⟨start, some e, step⟩ (rangeList start e step) := by
  have hu : ∀ start, Unfolds Range.next ⟨start, some e, step⟩ (rangeList start e step) := by
    intro start
    rcases Int.lt_or_gt_of_ne hstep with hs | hs
    · exact RangeT.unfolds_neg e step hs _ start rfl
    · exact RangeT.unfolds_pos e step hs _ start rfl
  refine unfoldsB_of_family (o := Range.ops) (fun r => r.stop = some e ∧ r.step = step) ?_ ?_ _ _ ⟨rfl, rfl⟩ (hu start)
  · intro r v r' hf h
    have h' : Range.next r = some (v, r') := h
    unfold Range.next at h'
    split at h'
    · cases h'
    · simp only [Option.some.injEq, Prod.mk.injEq] at h'
      obtain ⟨_, rfl⟩ := h'
      exact hf
  · intro r l hf hl
    obtain ⟨st, stop, sp⟩ := r
    obtain ⟨h1, h2⟩ := hf
    simp only at h1 h2
    subst h1 h2
    have := Unfolds.functional hl (hu st)
    subst this
    refine ⟨rangeCount st e sp, ?_, by rw [RangeT.rangeList_length]; exact Nat.le_refl _⟩
    show Range.bound ⟨st, some e, sp⟩ = some (rangeCount st e sp)
    rcases Int.lt_or_gt_of_ne hstep with hs | hs
    · simp only [Range.bound, hstep, hs, if_true, if_false]
      rw [RangeT.rangeCount_neg hs]; rfl
    · have hn : ¬ sp < 0 := by omega
      simp only [Range.bound, hstep, hn, if_false]
      rw [RangeT.rangeCount_pos hs]; rfl

theorem wrapped_peekNext {α : Type} : PeekNext (Wrapped.ops (α := α)) := by
  intro w
  show Wrapped.peek w = (Wrapped.next w).map Prod.fst
  unfold Wrapped.peek Wrapped.next
  split
  · rfl
  · cases w.base[w.pos]? <;> rfl

theorem wrapped_unfoldsB {α : Type} (base : List α) (pos : Nat) (h : pos ≤ base.length) :
    UnfoldsB Wrapped.ops (⟨base, pos⟩ : Wrapped α) (base.drop pos) := by
  refine unfoldsB_of_family (o := Wrapped.ops) (fun w => w.base = base ∧ w.pos ≤ base.length) ?_ ?_ _ _ ⟨rfl, h⟩
    (wrapped_unfolds base _ pos rfl h)
  · intro w v w' hf hn
    have h' : Wrapped.next w = some (v, w') := hn
    unfold Wrapped.next at h'
    split at h'
    · cases h'
    · rename_i hlt
      cases hg : w.base[w.pos]? with
      | none => simp [hg] at h'
      | some x =>
        simp only [hg, Option.some.injEq, Prod.mk.injEq] at h'
        obtain ⟨_, rfl⟩ := h'
        obtain ⟨hb, _⟩ := hf
        refine ⟨hb, ?_⟩
        simp only
        rw [← hb]; omega
  · intro w l hf hl
    obtain ⟨b, p⟩ := w
    obtain ⟨rfl, hp⟩ := hf
    have := Unfolds.functional hl (wrapped_unfolds b _ p rfl hp)
    subst this
    exact ⟨b.length - p, rfl, by simp⟩

theorem subseq_peekNext {α : Type} : PeekNext (Subseq.ops (α := α)) := by
  intro m
  obtain ⟨base, mask⟩ := m
  cases mask <;> rfl

theorem subseq_unfoldsB {α : Type} (m : Mask α) : ∃ l, UnfoldsB Subseq.ops m l := by
  obtain ⟨l, hu, _⟩ := SubseqT.unfolds m
  refine ⟨l, unfoldsB_of_family (o := Subseq.ops) (fun _ => True) (fun _ _ _ _ _ => trivial) ?_ _ _ trivial hu⟩
  intro s l' _ hl
  obtain ⟨l'', hu', hlen⟩ := SubseqT.unfolds s
  have := Unfolds.functional hl hu'
  subst this
  refine ⟨SubseqT.cnt s, ?_, by omega⟩
  obtain ⟨base, mask⟩ := s
  cases mask <;> rfl

theorem cpow_peekNext {α : Type} : PeekNext (CPow.ops (α := α)) := by
  intro c
  obtain ⟨base, idx⟩ := c
  cases idx <;> rfl

theorem CPowT.wf_next {α : Type} (c : Idx α) (v : List α) (c' : Idx α) (hw : CPowT.WF c)
    (h : CPow.next c = some (v, c')) : CPowT.WF c' := by
  obtain ⟨base, idx⟩ := c
  cases idx with
  | none => simp [CPow.next] at h
  | some w =>
    simp only [CPow.next, Option.some.injEq, Prod.mk.injEq] at h
    obtain ⟨_, rfl⟩ := h
    intro v' hv'
    simp only at hv'
    exact ((CPowT.inc_spec base.length w (hw w rfl)).1 v' hv').2.2

theorem cpow_unfoldsB {α : Type} (c : Idx α) (hwf : CPowT.WF c) : ∃ l, UnfoldsB CPow.ops c l := by
  obtain ⟨l, hu, _⟩ := CPowT.unfolds c hwf
  refine ⟨l, unfoldsB_of_family (o := CPow.ops) CPowT.WF (fun s v s' hw h => CPowT.wf_next s v s' hw h) ?_ _ _ hwf hu⟩
  intro s l' hw hl
  obtain ⟨l'', hu', hlen⟩ := CPowT.unfolds s hw
  have := Unfolds.functional hl hu'
  subst this
  refine ⟨CPowT.cnt s, ?_, by omega⟩
  obtain ⟨base, idx⟩ := s
  cases idx <;> rfl

theorem comb_peekNext {α : Type} : PeekNext (Comb.ops (α := α)) := by
  intro c
  obtain ⟨base, idx⟩ := c
  cases idx with
  | none => rfl
  | some v =>
    show Comb.peek ⟨base, some v⟩ = (Comb.next ⟨base, some v⟩).map Prod.fst
    simp only [Comb.peek, Comb.next]
    split <;> rfl

theorem comb_unfoldsB {α : Type} (c : Idx α) : ∃ l, UnfoldsB Comb.ops c l := by
  obtain ⟨l, hu, _⟩ := CombT.unfolds c
  refine ⟨l, unfoldsB_of_family (o := Comb.ops) (fun _ => True) (fun _ _ _ _ _ => trivial) ?_ _ _ trivial hu⟩
  intro s l' _ hl
  obtain ⟨l'', hu', hlen⟩ := CombT.unfolds s
  have := Unfolds.functional hl hu'
  subst this
  refine ⟨CombT.meas s, ?_, hlen⟩
  obtain ⟨base, idx⟩ := s
  cases idx <;> rfl

/-- **Combinations, every derived position**: after any observation of `s`, `s drop k` has
`len = len s - k` (the model's `len` is a function of the state alone) -/
theorem comb_drop_len {α : Type} (c : Idx α) (l : List (List α)) (h : Coherent Comb.ops c l) (k : Nat) :
    Coherent Comb.ops (dropN Comb.next k c) (l.drop k) ∧
      Comb.ops.len (dropN Comb.next k c) = .ok (some (l.length - k)) :=
  coherent_drop_of_family (o := Comb.ops) (fun _ => True) (fun _ _ _ _ _ => trivial)
    (fun s _ => comb_coherent s) trivial h k

theorem comb_slice_tail_len {α : Type} (c : Idx α) (l : List (List α)) (h : Coherent Comb.ops c l) (k : Nat) :
    ∃ t, Comb.ops.slice c (some (k : Int)) none = .ok (.strm t) ∧
      Comb.ops.len t = .ok (some (l.length - k)) :=
  ⟨_, build_slice_tail _ _ _ _ _ c k, (comb_drop_len c l h k).2⟩

theorem wrapped_drop_len {α : Type} (base : List α) (pos k : Nat) (hp : pos ≤ base.length) :
    Wrapped.ops.len (dropN Wrapped.next k (⟨base, pos⟩ : Wrapped α)) =
      .ok (some ((base.drop pos).length - k)) := by
  refine (coherent_drop_of_family (o := Wrapped.ops) (fun w => w.pos ≤ w.base.length) ?_ ?_
    (s := ⟨base, pos⟩) hp (wrapped_coherent base pos hp) k).2
  · intro w v w' hw hn
    have h' : Wrapped.next w = some (v, w') := hn
    unfold Wrapped.next at h'
    split at h'
    · cases h'
    · cases hg : w.base[w.pos]? with
      | none => simp [hg] at h'
      | some x =>
        simp only [hg, Option.some.injEq, Prod.mk.injEq] at h'
        obtain ⟨_, rfl⟩ := h'
        simp only
        omega
  · intro w hw
    obtain ⟨b, p⟩ := w
    exact ⟨_, wrapped_coherent b p hw⟩

theorem subseq_drop_len {α : Type} (m : Mask α) (hn : ∀ v, m.mask = some v → v.length < 64)
    (l : List (List α)) (h : Coherent Subseq.ops m l) (k : Nat) :
    Subseq.ops.len (dropN Subseq.next k m) = .ok (some (l.length - k)) := by
  refine (coherent_drop_of_family (o := Subseq.ops)
    (fun m => ∀ v, m.mask = some v → v.length < 64) ?_ ?_ hn h k).2
  · intro s v s' hs hnx
    obtain ⟨base, mask⟩ := s
    cases mask with
    | none => simp [Subseq.ops, Ops.withLen, Ops.build, Subseq.next] at hnx
    | some w =>
      have hnx' : Subseq.next ⟨base, some w⟩ = some (v, s') := hnx
      simp only [Subseq.next, Option.some.injEq, Prod.mk.injEq] at hnx'
      obtain ⟨_, rfl⟩ := hnx'
      intro v' hv'
      simp only at hv'
      rw [((SubseqT.inc_spec w).1 v' hv').2]
      exact hs w rfl
  · intro s hs
    obtain ⟨l', h', _⟩ := subseq_coherent s hs
    exact ⟨l', h'⟩

end Noulith.C11
