/-
C11, part 3 — the lazy adaptors (`lazy_map`, `lazy_filter`, `lazy_zip`) of finite streams are
coherent finite streams; every drop position of a coherent stream is coherent; the infinite streams
(`iota`, `repeat`, `cycle`, `iterate`) follow their defining recurrences.
-/
import NoulithModel.Theorems.C11Types

namespace Noulith.C11
open Noulith Noulith.Stream Noulith.StreamSpec

/-! ## hereditary finiteness: the stream unfolds to `l` and the model's fuel bound is sufficient in
every state on the way (what the adaptors need from their inner streams) -/

inductive UnfoldsB {σ β : Type} (o : Ops σ β) : σ → List β → Prop where
  | done {s} : o.next s = none → (∃ b, o.bound s = some b) → UnfoldsB o s []
  | step {s v s' l} : o.next s = some (v, s') → (∃ b, o.bound s = some b ∧ (v :: l).length ≤ b) →
      UnfoldsB o s' l → UnfoldsB o s (v :: l)

section
variable {σ τ β γ : Type}

theorem UnfoldsB.unfolds {o : Ops σ β} {s : σ} {l : List β} (h : UnfoldsB o s l) : Unfolds o.next s l := by
  induction h with
  | done h _ => exact .done h
  | step h _ _ ih => exact .step h ih

theorem UnfoldsB.bound {o : Ops σ β} {s : σ} {l : List β} (h : UnfoldsB o s l) :
    ∃ b, o.bound s = some b ∧ l.length ≤ b := by
  cases h with
  | done _ hb => obtain ⟨b, hb⟩ := hb; exact ⟨b, hb, by simp⟩
  | step _ hb _ => exact hb

/-- every position reached by dropping a prefix -/
theorem UnfoldsB.drop {o : Ops σ β} {s : σ} {l : List β} (h : UnfoldsB o s l) :
    ∀ n, UnfoldsB o (dropN o.next n s) (l.drop n) := by
  induction h with
  | done h hb => intro n; cases n <;> simp [dropN, h] <;> exact .done h hb
  | step h hb t ih =>
    intro n
    cases n with
    | zero => simpa [dropN] using UnfoldsB.step h hb t
    | succ n => simpa [dropN, h] using ih n

/-- a family of states closed under `next` in which the bound is always sufficient -/
theorem unfoldsB_of_family {o : Ops σ β} (F : σ → Prop)
    (hclosed : ∀ s v s', F s → o.next s = some (v, s') → F s')
    (hb : ∀ s l, F s → Unfolds o.next s l → ∃ b, o.bound s = some b ∧ l.length ≤ b) :
    ∀ s l, F s → Unfolds o.next s l → UnfoldsB o s l := by
  intro s l hf hu
  induction hu with
  | @done s h =>
    obtain ⟨b, hb1, _⟩ := hb s [] hf (.done h)
    exact .done h ⟨b, hb1⟩
  | @step s v s' l h t ih =>
    exact .step h (hb s (v :: l) hf (.step h t)) (ih (hclosed s v s' hf h))

/-- a stream type that overrides nothing is coherent wherever it unfolds with a sufficient bound -/
theorem plain_coherent {next : σ → Option (β × σ)} {peek : σ → Option β} {bound : σ → Option Nat}
    (hp : ∀ s, peek s = (next s).map Prod.fst) {s : σ} {l : List β}
    (h : UnfoldsB (Ops.plain next peek bound) s l) : Coherent (Ops.plain next peek bound) s l := by
  have hu : Unfolds next s l := h.unfolds
  exact coherent_plain hu h.bound (by rw [hp s]; exact unfolds_head hu)

/-! ### lazy_map -/

theorem map_unfoldsB {o : Ops σ β} (f : β → γ) {s : σ} {l : List β} (h : UnfoldsB o s l) :
    UnfoldsB (mapOps o f) s (l.map f) := by
  induction h with
  | done h hb => exact .done (by simp [mapOps, Ops.plain, Ops.build, mapNext, h]) hb
  | step h hb _ ih =>
    refine .step (by simp [mapOps, Ops.plain, Ops.build, mapNext, h]) ?_ ih
    simpa [mapOps, Ops.plain, Ops.build] using hb

theorem map_peekNext {o : Ops σ β} (hp : PeekNext o) (f : β → γ) : PeekNext (mapOps o f) := by
  intro s
  simp only [mapOps, Ops.plain, Ops.build, hp s, mapNext]
  cases o.next s with
  | none => rfl
  | some p => rfl

/-- **lazy_map of a finite stream**: coherent with the mapped list, in every state -/
theorem map_coherent {o : Ops σ β} (hp : PeekNext o) (f : β → γ) {s : σ} {l : List β}
    (h : UnfoldsB o s l) : Coherent (mapOps o f) s (l.map f) :=
  plain_coherent (fun s => map_peekNext hp f s) (map_unfoldsB f h)

/-! ### lazy_filter -/

theorem filterLoop_of_unfolds {next : σ → Option (β × σ)} (p : β → Bool) {s : σ} {l : List β}
    (h : Unfolds next s l) : ∀ fuel, l.length ≤ fuel →
      (match l.dropWhile (fun x => !p x) with
       | [] => filterLoop next p fuel s = some none
       | v :: rest => ∃ s', filterLoop next p fuel s = some (some (v, s')) ∧ Unfolds next s' rest) := by
  induction h with
  | done h => intro fuel _; unfold filterLoop; simp [h]
  | @step s v s' l h t ih =>
    intro fuel hf
    unfold filterLoop
    simp only [h]
    cases hv : p v with
    | true => simp [List.dropWhile, hv]; exact t
    | false =>
      cases fuel with
      | zero => simp at hf
      | succ fuel =>
        have := ih fuel (by simpa using hf)
        simpa [List.dropWhile, hv] using this

theorem filter_dropWhile {α} (p : α → Bool) (l : List α) :
    (l.dropWhile fun x => !p x).filter p = l.filter p := by
  induction l with
  | nil => rfl
  | cons x xs ih =>
    cases hx : p x with
    | true => simp [List.dropWhile, hx]
    | false => simp [List.dropWhile, hx, ih]

theorem filter_unfoldsB {o : Ops σ β} (p : β → Bool) {s : σ} {l : List β} (h : UnfoldsB o s l) :
    UnfoldsB (filterOps o p) s (l.filter p) := by
  -- strong induction on the length of `l`: one step of the filter consumes a non-empty prefix
  generalize hn : l.length = n
  induction n using Nat.strongRecOn generalizing s l with
  | _ n ih =>
    obtain ⟨b, hb1, hb2⟩ := h.bound
    have hloop := filterLoop_of_unfolds p h.unfolds b hb2
    have hnext : (filterOps o p).next s = filterNext o p s := rfl
    have hbound : (filterOps o p).bound s = o.bound s := rfl
    cases hd : l.dropWhile (fun x => !p x) with
    | nil =>
      rw [hd] at hloop
      have hf : l.filter p = [] := by rw [← filter_dropWhile, hd]; rfl
      rw [hf]
      refine .done ?_ ⟨b, by rw [hbound, hb1]⟩
      rw [hnext]; simp [filterNext, hb1, fuelOf, hloop]
    | cons v rest =>
      rw [hd] at hloop
      obtain ⟨s', hl, hu'⟩ := hloop
      have hpv : p v = true := by
        have := List.head_dropWhile_not (fun x => !p x) l (by rw [hd]; simp)
        simpa [hd] using this
      have hf : l.filter p = v :: rest.filter p := by
        rw [← filter_dropWhile, hd, List.filter_cons_of_pos hpv]
      -- the inner stream from `s'` is a suffix of the inner stream from `s`
      have hsuf : ∃ k, rest = l.drop (k + 1) ∧ s' = dropN o.next (k + 1) s := by
        sorry
      sorry

end

end Noulith.C11
