/-
C05 (refinement) — the fuel-indexed evaluator (Impl/CoreEval.lean) and the relational big-step semantics
(Spec/CoreSem.lean) define the same language.

* `sound`:     `eval fuel st env e = (r, st') → r ≠ .fuelOut → BigStep st env e r st'`
  (C05RelSound.lean: induction on the fuel, all eleven functions; `sound_all`).
* `complete`:  `BigStep st env e r st' → ∃ fuel, eval fuel st env e = (r, st')`, in the stronger form
  `complete_from` "…for every fuel from some fuel on" (C05RelComplete.lean: recursion on the derivation, all eleven
  judgments; `BigStep.complete` … `CallStep.complete`).
* `BigStep.ne_fuelOut` (and the ten others): no derivation ends in `fuelOut`.
* `eval_iff_BigStep`, `BigStep.deterministic`, `runProgram_iff_ProgramRuns`.
* divergence: `diverges_iff_no_derivation` — the evaluator answers `fuelOut` at every fuel exactly when the
  expression has no derivation at all; `fuelOut_then_needs_more` — if it answers `fuelOut` at `fuel`, every fuel
  that finds a derivation's result is larger.
* the documented laws, stated on the relation (section "laws"): static scoping, lambdas capture the defining
  scope, a fresh scope per `while` iteration / `for` item / `catch` clause / `switch` arm / call, `=` never
  declares and raises on undeclared names, `:=` declares in the current scope and refuses redeclaration,
  short-circuit `and` / `or` / `coalesce` skip the right operand (whatever it is — even one without any
  derivation), `try` catches only `throw`, a `while` loop absorbs level-0 `break` and decrements the rest.
-/
import NoulithModel.Theorems.C05RelSound
import NoulithModel.Theorems.C05

set_option autoImplicit true
set_option relaxedAutoImplicit true

namespace Noulith.Core

/-! ## no derivation ends in `fuelOut` -/

theorem ne_of_isExit {r : Res} (h : r.isExit = true) : r ≠ .fuelOut := by
  intro hh; subst hh; cases h

theorem loopEnd_exit_ne {r r' : Res} (h : loopEnd r = .exit r') (hne : r ≠ .fuelOut) : r' ≠ .fuelOut := by
  rcases r with _ | ⟨_ | _, _ | _⟩ | ⟨_ | _⟩ | _ | _ | _ <;> cases h <;>
    first | (intro hh; cases hh; done) | exact hne

/-- the eleven statements are the motives of the mutual recursor `rec` (of the judgment one wants); every rule
either ends in an explicit result, passes on the result of its last premise, or passes on an exit -/
syntax "no_fuelOut_by " ident : tactic
macro_rules
  | `(tactic| no_fuelOut_by $rec) => `(tactic|
      (apply $rec
        (motive_1 := fun _ _ _ r _ _ => r ≠ Res.fuelOut)
        (motive_2 := fun _ _ _ _ r _ _ => r ≠ Res.fuelOut)
        (motive_3 := fun _ _ _ r _ _ => r ≠ Res.fuelOut)
        (motive_4 := fun _ _ _ r _ _ => r ≠ ResL.stop Res.fuelOut)
        (motive_5 := fun _ _ _ r _ _ => r ≠ Sum.inr Res.fuelOut)
        (motive_6 := fun _ _ _ _ r _ _ => r ≠ Res.fuelOut)
        (motive_7 := fun _ _ _ _ _ r _ _ _ => r ≠ Res.fuelOut)
        (motive_8 := fun _ _ _ _ _ _ _ r _ _ _ => r ≠ Res.fuelOut)
        (motive_9 := fun _ _ _ _ r _ _ _ => r ≠ Res.fuelOut)
        (motive_10 := fun _ _ _ _ _ r _ _ => r ≠ Res.fuelOut)
        (motive_11 := fun _ _ _ _ r _ _ => r ≠ Res.fuelOut) <;>
       intros <;>
       first
       | assumption
       | (intro hh; cases hh; done)
       | exact ne_of_isExit ‹_›
       | exact stop_ne (ne_of_isExit ‹_›)
       | exact inr_ne (ne_of_isExit ‹_›)
       | exact loopEnd_exit_ne ‹_› ‹_›
       | (intro hh; subst hh; simp_all)))

theorem BigStep.ne_fuelOut {st env e r st'} (h : BigStep st env e r st') : r ≠ .fuelOut := by
  revert h; no_fuelOut_by BigStep.rec
theorem SwitchStep.ne_fuelOut {st env v arms r st'} (h : SwitchStep st env v arms r st') : r ≠ .fuelOut := by
  revert h; no_fuelOut_by SwitchStep.rec
theorem SeqStep.ne_fuelOut {st env es r st'} (h : SeqStep st env es r st') : r ≠ .fuelOut := by
  revert h; no_fuelOut_by SeqStep.rec
theorem ListStep.ne_fuelOut {st env es r st'} (h : ListStep st env es r st') : r ≠ .stop .fuelOut := by
  revert h; no_fuelOut_by ListStep.rec
theorem IntoStep.ne_fuelOut {st env o r st'} (h : IntoStep st env o r st') : r ≠ .inr .fuelOut := by
  revert h; no_fuelOut_by IntoStep.rec
theorem WhileStep.ne_fuelOut {st env c b r st'} (h : WhileStep st env c b r st') : r ≠ .fuelOut := by
  revert h; no_fuelOut_by WhileStep.rec
theorem ForStep.ne_fuelOut {st env its body acc r st' acc'} (h : ForStep st env its body acc r st' acc') :
    r ≠ .fuelOut := by
  revert h; no_fuelOut_by ForStep.rec
theorem ItemsStep.ne_fuelOut {st env p items its body acc r st' acc'}
    (h : ItemsStep st env p items its body acc r st' acc') : r ≠ .fuelOut := by
  revert h; no_fuelOut_by ItemsStep.rec
theorem BodyStep.ne_fuelOut {st env body acc r st' acc'} (h : BodyStep st env body acc r st' acc') :
    r ≠ .fuelOut := by
  revert h; no_fuelOut_by BodyStep.rec
theorem FinishStep.ne_fuelOut {st env post d done r st'} (h : FinishStep st env post d done r st') :
    r ≠ .fuelOut := by
  revert h; no_fuelOut_by FinishStep.rec
theorem CallStep.ne_fuelOut {st env f args r st'} (h : CallStep st env f args r st') : r ≠ .fuelOut := by
  revert h; no_fuelOut_by CallStep.rec

/-! ## the refinement theorems -/

/-- SOUNDNESS: whatever the evaluator returns, at any fuel, unless it ran out of fuel, is derivable -/
theorem sound {fuel : Nat} {st : State} {env : Nat} {e : Expr} {r : Res} {st' : State}
    (h : eval fuel st env e = (r, st')) (hne : r ≠ .fuelOut) : BigStep st env e r st' :=
  (sound_all fuel).ev h hne

/-- the same for calls of function values -/
theorem sound_call {fuel : Nat} {st : State} {env : Nat} {f : Val} {args : List Val} {r : Res} {st' : State}
    (h : callVal fuel st env f args = (r, st')) (hne : r ≠ .fuelOut) : CallStep st env f args r st' :=
  (sound_all fuel).call h hne

/-- COMPLETENESS, strong form: a derivation is found by the evaluator at every fuel from some fuel on -/
theorem complete_from {st : State} {env : Nat} {e : Expr} {r : Res} {st' : State} (h : BigStep st env e r st') :
    ∃ fuel, ∀ m, fuel ≤ m → eval m st env e = (r, st') :=
  h.complete

/-- COMPLETENESS: every derivation is found by the evaluator with enough fuel -/
theorem complete {st : State} {env : Nat} {e : Expr} {r : Res} {st' : State} (h : BigStep st env e r st') :
    ∃ fuel, eval fuel st env e = (r, st') := by
  obtain ⟨f, hf⟩ := h.complete
  exact ⟨f, hf f (Nat.le_refl f)⟩

theorem complete_call {st : State} {env : Nat} {f : Val} {args : List Val} {r : Res} {st' : State}
    (h : CallStep st env f args r st') : ∃ fuel, ∀ m, fuel ≤ m → callVal m st env f args = (r, st') :=
  h.complete

/-- the evaluator and the relation define the same results -/
theorem eval_iff_BigStep {st : State} {env : Nat} {e : Expr} {r : Res} {st' : State} :
    (∃ fuel, eval fuel st env e = (r, st') ∧ r ≠ .fuelOut) ↔ BigStep st env e r st' := by
  constructor
  · rintro ⟨fuel, h, hne⟩; exact sound h hne
  · intro h
    obtain ⟨fuel, hf⟩ := complete h
    exact ⟨fuel, hf, h.ne_fuelOut⟩

theorem runProgram_iff_ProgramRuns {e : Expr} {r : Res} {st' : State} :
    (∃ fuel, runProgram fuel e = (r, st') ∧ r ≠ .fuelOut) ↔ ProgramRuns e r st' :=
  eval_iff_BigStep

/-- DETERMINISM of the relation: an expression has at most one result and final state -/
theorem BigStep.deterministic {st : State} {env : Nat} {e : Expr} {r₁ r₂ : Res} {s₁ s₂ : State}
    (h₁ : BigStep st env e r₁ s₁) (h₂ : BigStep st env e r₂ s₂) : r₁ = r₂ ∧ s₁ = s₂ := by
  obtain ⟨f₁, hf₁⟩ := h₁.complete
  obtain ⟨f₂, hf₂⟩ := h₂.complete
  have e₁ : eval (f₁ + f₂) st env e = (r₁, s₁) := hf₁ (f₁ + f₂) (Nat.le_add_right _ _)
  have e₂ : eval (f₁ + f₂) st env e = (r₂, s₂) := hf₂ (f₁ + f₂) (Nat.le_add_left _ _)
  rw [e₁] at e₂
  cases e₂
  exact ⟨rfl, rfl⟩

theorem CallStep.deterministic {st : State} {env : Nat} {f : Val} {args : List Val} {r₁ r₂ : Res} {s₁ s₂ : State}
    (h₁ : CallStep st env f args r₁ s₁) (h₂ : CallStep st env f args r₂ s₂) : r₁ = r₂ ∧ s₁ = s₂ := by
  obtain ⟨f₁, hf₁⟩ := h₁.complete
  obtain ⟨f₂, hf₂⟩ := h₂.complete
  have e₁ : callVal (f₁ + f₂) st env f args = (r₁, s₁) := hf₁ (f₁ + f₂) (Nat.le_add_right _ _)
  have e₂ : callVal (f₁ + f₂) st env f args = (r₂, s₂) := hf₂ (f₁ + f₂) (Nat.le_add_left _ _)
  rw [e₁] at e₂
  cases e₂
  exact ⟨rfl, rfl⟩

theorem WhileStep.deterministic {st : State} {env : Nat} {c b : Expr} {r₁ r₂ : Res} {s₁ s₂ : State}
    (h₁ : WhileStep st env c b r₁ s₁) (h₂ : WhileStep st env c b r₂ s₂) : r₁ = r₂ ∧ s₁ = s₂ := by
  obtain ⟨f₁, hf₁⟩ := h₁.complete
  obtain ⟨f₂, hf₂⟩ := h₂.complete
  have e₁ : evalWhile (f₁ + f₂) st env c b = (r₁, s₁) := hf₁ (f₁ + f₂) (Nat.le_add_right _ _)
  have e₂ : evalWhile (f₁ + f₂) st env c b = (r₂, s₂) := hf₂ (f₁ + f₂) (Nat.le_add_left _ _)
  rw [e₁] at e₂
  cases e₂
  exact ⟨rfl, rfl⟩

/-! ## divergence -/

/-- the evaluator runs out of fuel at EVERY fuel exactly when the expression has no derivation: the relation
has no rule for "still running", a program that loops forever simply is not related to any result -/
theorem diverges_iff_no_derivation {st : State} {env : Nat} {e : Expr} :
    (∀ fuel, (eval fuel st env e).1 = .fuelOut) ↔ ¬ ∃ r st', BigStep st env e r st' := by
  constructor
  · rintro hdiv ⟨r, st', h⟩
    obtain ⟨fuel, hf⟩ := complete h
    have := hdiv fuel
    rw [hf] at this
    exact h.ne_fuelOut this
  · intro hno fuel
    apply Classical.byContradiction
    intro hne
    exact hno ⟨_, _, sound (rfl : eval fuel st env e = ((eval fuel st env e).1, (eval fuel st env e).2)) hne⟩

/-- `fuelOut` at `fuel` means: no fuel `≤ fuel` finds a result — every fuel at which the evaluator returns the
result of a derivation is larger -/
theorem fuelOut_then_needs_more {st : State} {env : Nat} {e : Expr} {fuel : Nat}
    (hout : (eval fuel st env e).1 = .fuelOut) {r : Res} {st' : State} (h : BigStep st env e r st')
    {m : Nat} (hm : eval m st env e = (r, st')) : fuel < m := by
  apply Classical.byContradiction
  intro hlt
  have hle : m ≤ fuel := Nat.le_of_not_lt hlt
  have hne : (eval m st env e).1 ≠ .fuelOut := by rw [hm]; exact h.ne_fuelOut
  have := Noulith.C05Fuel.eval_fuel_mono_le st env e hle hne
  rw [this, hm] at hout
  exact h.ne_fuelOut hout

/-- conversely, a derivation has a least fuel at which the evaluator finds it, and below it the evaluator
answers `fuelOut` -/
theorem below_threshold_fuelOut {st : State} {env : Nat} {e : Expr} {r : Res} {st' : State}
    (h : BigStep st env e r st') {fuel : Nat} (hnot : eval fuel st env e ≠ (r, st')) :
    (eval fuel st env e).1 = .fuelOut := by
  apply Classical.byContradiction
  intro hne
  have hd := sound (rfl : eval fuel st env e = ((eval fuel st env e).1, (eval fuel st env e).2)) hne
  obtain ⟨h1, h2⟩ := hd.deterministic h
  apply hnot
  rw [← h1, ← h2]

/-! ## laws: the documented rules, read off the relation -/

/-- STATIC SCOPING: the outcome of calling a closure does not depend on the scope the call is made from -/
theorem static_scoping {st : State} {env₁ env₂ : Nat} {ps : List Param} {body : Expr} {cenv : Nat}
    {args : List Val} {r : Res} {st' : State}
    (h : CallStep st env₁ (.closure ps body cenv) args r st') :
    CallStep st env₂ (.closure ps body cenv) args r st' := by
  cases h with
  | annotation_exit hs ha => exact .annotation_exit hs ha
  | defaults_refused hs ha hd => exact .defaults_refused hs ha hd
  | arity_refused hs ha hd har => exact .arity_refused hs ha hd har
  | default_exit hs ha hd har hdv => exact .default_exit hs ha hd har hdv
  | bind_refused hs ha hd har hdv hb => exact .bind_refused hs ha hd har hdv hb
  | type_refused hs ha hd har hdv hb => exact .type_refused hs ha hd har hdv hb
  | returned hs ha hd har hdv hb hbody => exact .returned hs ha hd har hdv hb hbody
  | body hs ha hd har hdv hb hbody hr => exact .body hs ha hd har hdv hb hbody hr
  | not_callable hf => cases hf

/-- a lambda expression denotes a closure over the scope it is evaluated in, and changes nothing -/
theorem lambda_captures_defining_scope {st : State} {env : Nat} {ps : List Param} {body : Expr} {r : Res}
    {st' : State} (h : BigStep st env (.lambda ps body) r st') : r = .val (.closure ps body env) ∧ st' = st := by
  cases h; exact ⟨rfl, rfl⟩

/-- the body of a called closure runs in a FRESH scope whose parent is the closure's defining scope: whenever
the call gets as far as the body (`returned` / `body` rules), the scope of the body is the new frame -/
theorem call_runs_body_in_fresh_child_of_defining_scope {st : State} {env : Nat} {ps : List Param}
    {body : Expr} {cenv : Nat} {args : List Val} {r : Res} {st' : State}
    (h : CallStep st env (.closure ps body cenv) args r st') :
    ∃ rl st1, ListStep (newFrame st cenv).1 st.frames.size (ps.filterMap Param.ann) rl st1 ∧
      (newFrame st cenv).1.frames[st.frames.size]? = some { vars := [], parent := some cenv } := by
  have hfr := Noulith.C05.newFrame_empty st cenv
  cases h with
  | annotation_exit hs ha => cases hs; exact ⟨_, _, ha, hfr⟩
  | defaults_refused hs ha hd => cases hs; exact ⟨_, _, ha, hfr⟩
  | arity_refused hs ha hd har => cases hs; exact ⟨_, _, ha, hfr⟩
  | default_exit hs ha hd har hdv => cases hs; exact ⟨_, _, ha, hfr⟩
  | bind_refused hs ha hd har hdv hb => cases hs; exact ⟨_, _, ha, hfr⟩
  | type_refused hs ha hd har hdv hb => cases hs; exact ⟨_, _, ha, hfr⟩
  | returned hs ha hd har hdv hb hbody => cases hs; exact ⟨_, _, ha, hfr⟩
  | body hs ha hd har hdv hb hbody hr => cases hs; exact ⟨_, _, ha, hfr⟩
  | not_callable hf => cases hf

/-- FRESH SCOPE PER ITERATION (`while`): every iteration starts by allocating a new, empty scope under the
loop's scope — an id no existing frame (hence no closure created so far) has — and evaluates the condition
there; all existing frames are untouched by the allocation -/
theorem while_iteration_fresh_scope {st : State} {env : Nat} {c b : Expr} {r : Res} {st' : State}
    (h : WhileStep st env c b r st') :
    (∃ rc st2, BigStep (newFrame st env).1 st.frames.size c rc st2) ∧
      (newFrame st env).1.frames[st.frames.size]? = some { vars := [], parent := some env } ∧
      ∀ i, i < st.frames.size → (newFrame st env).1.frames[i]? = st.frames[i]? := by
  refine ⟨?_, Noulith.C05.newFrame_empty st env, fun i hi => Noulith.C05.newFrame_preserves st env i hi⟩
  cases h with
  | done hs hc ht => cases hs; exact ⟨_, _, hc⟩
  | cond_exit hs hc hr => cases hs; exact ⟨_, _, hc⟩
  | next hs hc ht hb hn hw => cases hs; exact ⟨_, _, hc⟩
  | break_ hs hc ht hb => cases hs; exact ⟨_, _, hc⟩
  | break_outer hs hc ht hb => cases hs; exact ⟨_, _, hc⟩
  | continue_outer hs hc ht hb => cases hs; exact ⟨_, _, hc⟩
  | pass hs hc ht hb hr => cases hs; exact ⟨_, _, hc⟩

/-- the NEXT iteration of a `while` does not reuse the scope of this one: it is a `WhileStep` from the loop's
own scope `env` again, so (by `while_iteration_fresh_scope`) it allocates its own scope -/
theorem while_next_iteration_restarts_in_loop_scope {st : State} {env : Nat} {c b : Expr} {r : Res} {st' : State}
    {vc v : Val} {st2 st3 : State}
    (hc : BigStep (newFrame st env).1 st.frames.size c (.val vc) st2) (ht : vc.truthy = true)
    (hb : BigStep st2 st.frames.size b (.val v) st3) :
    WhileStep st env c b r st' ↔ WhileStep st3 env c b r st' := by
  constructor
  · intro h
    cases h with
    | done hs hc' ht' => cases hs; have := (hc.deterministic hc').1; cases this; rw [ht] at ht'; cases ht'
    | cond_exit hs hc' hr => cases hs; have := (hc.deterministic hc').1; subst this; cases hr
    | next hs hc' ht' hb' hn hw =>
      cases hs
      obtain ⟨h1, h2⟩ := hc.deterministic hc'; cases h1; subst h2
      obtain ⟨h3, h4⟩ := hb.deterministic hb'; subst h3; subst h4
      exact hw
    | break_ hs hc' ht' hb' =>
      cases hs
      obtain ⟨h1, h2⟩ := hc.deterministic hc'; cases h1; subst h2
      cases (hb.deterministic hb').1
    | break_outer hs hc' ht' hb' =>
      cases hs
      obtain ⟨h1, h2⟩ := hc.deterministic hc'; cases h1; subst h2
      cases (hb.deterministic hb').1
    | continue_outer hs hc' ht' hb' =>
      cases hs
      obtain ⟨h1, h2⟩ := hc.deterministic hc'; cases h1; subst h2
      cases (hb.deterministic hb').1
    | pass hs hc' ht' hb' hr =>
      cases hs
      obtain ⟨h1, h2⟩ := hc.deterministic hc'; cases h1; subst h2
      have := (hb.deterministic hb').1; subst this; cases hr
  · intro h
    exact .next rfl hc ht hb rfl h

/-- FRESH SCOPE PER ITERATION (`for`): every item is bound in a new, empty scope under the loop's scope -/
theorem for_item_fresh_scope {st : State} {env : Nat} {p : Pat} {x : Val} {xs : List Val} {its : List ForIt}
    {body : ForBody} {acc acc' : ForAcc} {r : Res} {st' : State}
    (h : ItemsStep st env p (x :: xs) its body acc r st' acc') :
    (∃ ok st2, bindPat (newFrame st env).1 st.frames.size p x = (ok, st2)) ∧
      (newFrame st env).1.frames[st.frames.size]? = some { vars := [], parent := some env } := by
  refine ⟨?_, Noulith.C05.newFrame_empty st env⟩
  cases h with
  | bind_refused hs hb => cases hs; exact ⟨_, _, hb⟩
  | next hs hb hf hn => cases hs; exact ⟨_, _, hb⟩
  | exit hs hb hf hr => cases hs; exact ⟨_, _, hb⟩

/-- …and the remaining items are processed from the loop's scope again, not from the item's scope -/
theorem for_next_item_restarts_in_loop_scope {st : State} {env : Nat} {p : Pat} {x : Val} {xs : List Val}
    {its : List ForIt} {body : ForBody} {acc acc3 acc' : ForAcc} {r : Res} {st' st2 st3 : State} {w : Val}
    (hb : bindPat (newFrame st env).1 st.frames.size p x = (true, st2))
    (hf : ForStep st2 st.frames.size its body acc (.val w) st3 acc3)
    (hn : ItemsStep st3 env p xs its body acc3 r st' acc') :
    ItemsStep st env p (x :: xs) its body acc r st' acc' :=
  .next rfl hb hf hn

/-- a `catch` clause runs in a fresh scope under the scope of the `try` -/
theorem catch_clause_fresh_scope {st st1 : State} {env : Nat} {b c : Expr} {p : Pat} {v : Val} {r : Res}
    {st' : State} (hb : BigStep st env b (.thrown v) st1) (h : BigStep st env (.try_ b p c) r st') :
    ∃ ok st3, bindPat (newFrame st1 env).1 st1.frames.size p v = (ok, st3) ∧
      (ok = true → BigStep st3 st1.frames.size c r st') ∧ (ok = false → r = .thrown v ∧ st' = st3) := by
  cases h with
  | try_pass h' hr =>
    obtain ⟨h1, _⟩ := hb.deterministic h'; subst h1; cases hr
  | try_catch h' hs hp hc =>
    obtain ⟨h1, h2⟩ := hb.deterministic h'; cases h1; subst h2; cases hs
    exact ⟨_, _, hp, fun _ => hc, fun hh => absurd hh (by decide)⟩
  | try_rethrow h' hs hp =>
    obtain ⟨h1, h2⟩ := hb.deterministic h'; cases h1; subst h2; cases hs
    exact ⟨_, _, hp, fun hh => absurd hh (by decide), fun _ => ⟨rfl, rfl⟩⟩

/-- every `switch` arm is tried in a fresh scope under the scope of the `switch` -/
theorem switch_arm_fresh_scope {st : State} {env : Nat} {v : Val} {p : Pat} {body : Expr} {rest : List SwitchArm}
    {r : Res} {st' : State} (h : SwitchStep st env v (.mk p body :: rest) r st') :
    ∃ ok st2, bindPat (newFrame st env).1 st.frames.size p v = (ok, st2) ∧
      (ok = true → BigStep st2 st.frames.size body r st') ∧ (ok = false → SwitchStep st2 env v rest r st') := by
  cases h with
  | arm hs hp hb => cases hs; exact ⟨_, _, hp, fun _ => hb, fun hh => absurd hh (by decide)⟩
  | next hs hp hn => cases hs; exact ⟨_, _, hp, fun hh => absurd hh (by decide), fun _ => hn⟩

/-- `=` NEVER DECLARES: assigning to a name without an enclosing declaration raises and leaves the state as the
right-hand side left it -/
theorem assign_undeclared_raises {st st1 : State} {env : Nat} {x : String} {e : Expr} {v : Val} {r : Res}
    {st' : State} (he : BigStep st env e (.val v) st1) (hx : st1.lookup env x = none)
    (h : BigStep st env (.assign x e) r st') : r = .thrown .err ∧ st' = st1 := by
  have hnone : st1.assign env x v = none :=
    State.assign_of_none (Noulith.C05.assign_refuses_undeclared _ _ _ _ _ hx)
  exact (BigStep.assign_refused he hnone).deterministic h |>.imp Eq.symm Eq.symm

/-- …and a successful `=` creates no variable and no scope: the number of scopes and the names declared in
each scope are what they were -/
theorem assignVar_keeps_names (frames : Array Frame) (fuel env : Nat) (x : String) (v : Val) (fs : Array Frame)
    (h : assignVar frames fuel env x v = some fs) :
    fs.size = frames.size ∧
      ∀ i : Nat, (fs[i]?).map (fun (fr : Frame) => (fr.vars.map (·.1), fr.parent)) =
        (frames[i]?).map (fun (fr : Frame) => (fr.vars.map (·.1), fr.parent)) := by
  have hset : ∀ (vars : List (String × Val)), (setIn vars x v).map (·.1) = vars.map (·.1) := by
    intro vars
    induction vars with
    | nil => rfl
    | cons kv rest ih =>
      obtain ⟨k, w⟩ := kv
      simp only [setIn]
      split
      · rfl
      · simp only [List.map_cons, ih]
  induction fuel generalizing env with
  | zero => simp only [assignVar] at h; cases h
  | succ n ih =>
    unfold assignVar at h
    cases hfr : frames[env]? with
    | none => simp only [hfr] at h; cases h
    | some fr =>
      simp only [hfr] at h
      cases hl : lookupIn fr.vars x with
      | some w =>
        simp only [hl] at h
        split at h
        · cases h
          refine ⟨by simp, fun i => ?_⟩
          by_cases hi : i = env
          · subst hi
            have hlt : i < frames.size := by
              have := hfr; rw [Array.getElem?_eq_some_iff] at this; exact this.1
            simp only [Array.getElem?_setIfInBounds, hlt, ↓reduceIte, hfr, Option.map_some, hset]
          · simp only [Array.getElem?_setIfInBounds, Ne.symm hi, ↓reduceIte]
        · cases h
      | none =>
        simp only [hl] at h
        cases hp : fr.parent with
        | none => simp only [hp] at h; cases h
        | some p => simp only [hp] at h; exact ih p h

theorem assign_never_declares {st st2 : State} {env : Nat} {x : String} {v : Val}
    (h : st.assign env x v = some st2) :
    st2.frames.size = st.frames.size ∧
      ∀ i : Nat, (st2.frames[i]?).map (fun (fr : Frame) => (fr.vars.map (·.1), fr.parent)) =
        (st.frames[i]?).map (fun (fr : Frame) => (fr.vars.map (·.1), fr.parent)) := by
  obtain ⟨fs, hfs, rfl⟩ := State.assign_some h
  exact assignVar_keeps_names _ _ _ _ _ _ hfs

/-- `:=` declares in the CURRENT scope and refuses a name that the current scope already has — whatever the
enclosing scopes contain -/
theorem declare_refuses_redeclaration {st st1 : State} {env : Nat} {x : String} {e : Expr} {v w : Val}
    {fr : Frame} {r : Res} {st' : State} (he : BigStep st env e (.val v) st1)
    (hfr : st1.frames[env]? = some fr) (hx : lookupIn fr.vars x = some w)
    (h : BigStep st env (.declare (.ident x) e) r st') : r = .thrown .err ∧ st' = st1 := by
  have hb : bindPat st1 env (.ident x) v = (false, st1) := by
    simp only [bindPat, declarePat, declareVar, hfr, hx]
  exact (BigStep.declare_refused he hb).deterministic h |>.imp Eq.symm Eq.symm

/-- SHORT-CIRCUIT `and`: when the left operand is falsy it is the result, and the right operand is not
evaluated — whatever it is, even an expression without any derivation -/
theorem and_short_circuit {st st1 : State} {env : Nat} {a b : Expr} {va : Val} {r : Res} {st' : State}
    (ha : BigStep st env a (.val va) st1) (ht : va.truthy = false) :
    BigStep st env (.and_ a b) r st' ↔ (r = .val va ∧ st' = st1) := by
  constructor
  · intro h; exact (BigStep.and_short ha ht).deterministic h |>.imp Eq.symm Eq.symm
  · rintro ⟨rfl, rfl⟩; exact .and_short ha ht

theorem or_short_circuit {st st1 : State} {env : Nat} {a b : Expr} {va : Val} {r : Res} {st' : State}
    (ha : BigStep st env a (.val va) st1) (ht : va.truthy = true) :
    BigStep st env (.or_ a b) r st' ↔ (r = .val va ∧ st' = st1) := by
  constructor
  · intro h; exact (BigStep.or_short ha ht).deterministic h |>.imp Eq.symm Eq.symm
  · rintro ⟨rfl, rfl⟩; exact .or_short ha ht

theorem coalesce_short_circuit {st st1 : State} {env : Nat} {a b : Expr} {va : Val} {r : Res} {st' : State}
    (ha : BigStep st env a (.val va) st1) (hn : va ≠ .null) :
    BigStep st env (.coalesce a b) r st' ↔ (r = .val va ∧ st' = st1) := by
  constructor
  · intro h; exact (BigStep.coalesce_short ha hn).deterministic h |>.imp Eq.symm Eq.symm
  · rintro ⟨rfl, rfl⟩; exact .coalesce_short ha hn

/-- …and when the left operand does not decide, the result is the right operand's, evaluated afterwards -/
theorem and_evaluates_right {st st1 : State} {env : Nat} {a b : Expr} {va : Val} {r : Res} {st' : State}
    (ha : BigStep st env a (.val va) st1) (ht : va.truthy = true) :
    BigStep st env (.and_ a b) r st' ↔ BigStep st1 env b r st' := by
  constructor
  · intro h
    cases h with
    | and_short ha' ht' =>
      obtain ⟨h1, _⟩ := ha.deterministic ha'; cases h1; rw [ht] at ht'; cases ht'
    | and_right ha' ht' hb => obtain ⟨_, h2⟩ := ha.deterministic ha'; subst h2; exact hb
    | and_exit ha' hr => obtain ⟨h1, _⟩ := ha.deterministic ha'; subst h1; cases hr
  · intro hb; exact .and_right ha ht hb

/-- `try` CATCHES ONLY `throw`: a value, `break`, `continue` or `return` of the protected expression is the
result of the `try`, and the handler is not looked at -/
theorem try_catches_only_throw {st st1 : State} {env : Nat} {b c : Expr} {p : Pat} {rb r : Res} {st' : State}
    (hb : BigStep st env b rb st1) (hr : rb.isThrown = false) :
    BigStep st env (.try_ b p c) r st' ↔ (r = rb ∧ st' = st1) := by
  constructor
  · intro h; exact (BigStep.try_pass hb hr).deterministic h |>.imp Eq.symm Eq.symm
  · rintro ⟨rfl, rfl⟩; exact .try_pass hb hr

/-- a thrown value whose pattern matches is caught: the `try` ends as its handler does -/
theorem try_catches_matching_throw {st st1 st3 : State} {env : Nat} {b c : Expr} {p : Pat} {v : Val} {r : Res}
    {st' : State} (hb : BigStep st env b (.thrown v) st1)
    (hp : bindPat (newFrame st1 env).1 st1.frames.size p v = (true, st3)) :
    BigStep st env (.try_ b p c) r st' ↔ BigStep st3 st1.frames.size c r st' := by
  constructor
  · intro h
    obtain ⟨ok, st3', hp', hok, _⟩ := catch_clause_fresh_scope hb h
    rw [hp] at hp'; cases hp'
    exact hok rfl
  · intro hc; exact .try_catch hb rfl hp hc

/-- a `while` loop absorbs a level-0 `break` (its value is the value of the loop) and takes one level off a
deeper one; `return` and `throw` pass through unchanged -/
theorem while_absorbs_break {st : State} {env : Nat} {c b : Expr} {vc : Val} {v : Option Val} {st2 st3 : State}
    (hc : BigStep (newFrame st env).1 st.frames.size c (.val vc) st2) (ht : vc.truthy = true)
    (hb : BigStep st2 st.frames.size b (.brk 0 v) st3) :
    BigStep st env (.while_ c b) (.val (v.getD .null)) st3 :=
  .while_ (.break_ rfl hc ht hb)

theorem while_decrements_break {st : State} {env : Nat} {c b : Expr} {vc : Val} {v : Option Val} {k : Nat}
    {st2 st3 : State}
    (hc : BigStep (newFrame st env).1 st.frames.size c (.val vc) st2) (ht : vc.truthy = true)
    (hb : BigStep st2 st.frames.size b (.brk (k + 1) v) st3) :
    BigStep st env (.while_ c b) (.brk k v) st3 :=
  .while_ (.break_outer rfl hc ht hb)

/-- a call absorbs `return`: the returned value is the value of the call -/
theorem call_absorbs_return {st st0 st1 st2 st3 st4 : State} {env ee : Nat} {ps : List Param} {body : Expr}
    {cenv : Nat} {args tvs dvs : List Val} {inPlay : List Expr} {v : Val}
    (hs : newFrame st cenv = (st0, ee)) (ha : ListStep st0 ee (ps.filterMap Param.ann) (.ok tvs) st1)
    (hd : defaultsInPlay args.length ps 0 false [] = some inPlay)
    (har : arityRefused ps args.length inPlay = false) (hdv : ListStep st1 ee inPlay (.ok dvs) st2)
    (hb : bindParams st2 ee ps tvs args dvs = some (true, st3)) (hbody : BigStep st3 ee body (.ret v) st4)
    {r : Res} {st' : State} :
    CallStep st env (.closure ps body cenv) args r st' ↔ (r = .val v ∧ st' = st4) := by
  constructor
  · intro h
    exact (CallStep.returned hs ha hd har hdv hb hbody).deterministic h |>.imp Eq.symm Eq.symm
  · rintro ⟨rfl, rfl⟩; exact .returned hs ha hd har hdv hb hbody

/-! ## non-vacuity -/

/-- a derivation written by hand: `0 and (while (1) null)` is `0` although the right operand has no derivation
(the loop never ends) -/
example (st : State) (env : Nat) :
    BigStep st env (.and_ (.int 0) (.while_ (.int 1) .null)) (.val (.int 0)) st :=
  .and_short .int rfl

/-- `if (0) 1 else 2 + 3`, by hand -/
example (st : State) (env : Nat) :
    BigStep st env (.ite (.int 0) (.int 1) (some (.op "+" (.int 2) (.int 3)))) (.val (.int 5)) st :=
  .ite_false .int rfl (.op .int .int rfl)

/-- a derivation obtained from a run of the evaluator: the sample program of C05Fuel.lean (a `while` loop, a
closure call, a `switch` and a `for … yield`) has a derivation, for the result the evaluator computes with
fuel 40 — and, by completeness, only for that result -/
example : ∃ st', ProgramRuns Noulith.C05Fuel.sampleProg (runProgram 40 Noulith.C05Fuel.sampleProg).1 st' :=
  ⟨_, sound (rfl : eval 40 State.init 0 Noulith.C05Fuel.sampleProg = ((eval 40 State.init 0 Noulith.C05Fuel.sampleProg).1, _))
    (Noulith.C05Fuel.ne_fuelOut_of (by decide +kernel))⟩

example : (runProgram 40 Noulith.C05Fuel.sampleProg).1 matches .val (.list [.int 3, .int 6]) := by
  decide +kernel

/-- the hypotheses of the divergence theorems are satisfiable: with fuel 3 the sample program runs out -/
example : Noulith.C05Fuel.isFuelOut (eval 3 State.init 0 Noulith.C05Fuel.sampleProg).1 = true := by
  decide +kernel

end Noulith.Core
