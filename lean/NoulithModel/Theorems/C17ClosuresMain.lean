/-
C17 (supplement, stage 3) — the property for lambda bodies that declare and call local functions:
`freeze_local_functions_main`.
-/
import NoulithModel.Theorems.C17ClosuresEval

namespace Noulith.C17Closures
open Noulith Noulith.Core Noulith.C17Closed Noulith.C17Frames Noulith.C17Unfreeze
open Noulith.C17Main (plainParams callState callFrame absorb callVal_plain)

variable {Fn F : List String} {T : List Val} {look : String → Option Val} {N : Nat → Option String}

/-- no frame of the store declares one of the function names -/
def NoFnVars (Fn : List String) (st : State) : Prop :=
  ∀ (i : Nat) (fr : Frame) (f : String), st.frames[i]? = some fr → f ∈ Fn → lookupIn fr.vars f = none

theorem lookupIn_none_of_not_key (vars : List (String × Val)) :
    (∀ f, f ∈ Fn → lookupIn vars f = none) → UVars Fn N vars = vars := by
  induction vars with
  | nil => intro _; rfl
  | cons kv rest ih =>
    intro h
    obtain ⟨y, v⟩ := kv
    have hy : y ∉ Fn := by
      intro hm
      have := h y hm
      simp [lookupIn] at this
    have hrest : ∀ f, f ∈ Fn → lookupIn rest f = none := by
      intro f hf
      have := h f hf
      have hne : ¬ y = f := fun e => hy (e ▸ hf)
      simpa only [lookupIn, hne, ↓reduceIte] using this
    simp only [UVars, List.map_cons, UVal_data hy, List.cons.injEq, true_and]
    exact ih hrest

/-- …then un-freezing the closures in function-name variables changes nothing -/
theorem US_id {st : State} (h : NoFnVars Fn st) : US Fn N st = st := by
  obtain ⟨fs, o, t⟩ := st
  simp only [US, State.mk.injEq, and_true]
  apply Array.ext_getElem?
  intro i
  rw [USF_get]
  cases hfr : fs[i]? with
  | none => rfl
  | some fr =>
    simp only [Option.map_some, Option.some.injEq, UFrame]
    have := lookupIn_none_of_not_key (Fn := Fn) (N := N) fr.vars (fun f hf => h i fr f hfr hf)
    rw [this]

theorem noFnVars_callState {st : State} {cenv : Nat} {names : List String} (args : List Val)
    (h : NoFnVars Fn st) (hd : ∀ x, x ∈ names → x ∉ Fn) : NoFnVars Fn (callState st cenv names args) := by
  intro i fr f hfr hf
  rcases Nat.lt_trichotomy i st.frames.size with hi | hi | hi
  · have : (callState st cenv names args).frames[i]? = st.frames[i]? := by
      simp [callState, Array.getElem?_setIfInBounds, Array.getElem?_push, Nat.ne_of_gt hi, Nat.ne_of_lt hi]
    rw [this] at hfr
    exact h i fr f hfr hf
  · subst hi
    rw [C17Main.callState_frame] at hfr
    simp only [Option.some.injEq] at hfr
    subst hfr
    exact C17Main.lookupIn_zip_none names args f (fun hm => hd f hm hf)
  · have : (callState st cenv names args).frames[i]? = none := by
      apply Array.getElem?_eq_none
      rw [C17Main.callState_size]; omega
    rw [this] at hfr
    exact absurd hfr (by simp)

/-- **Main theorem (bodies with local functions).**  `body'`: the frozen body of a lambda with plain
parameters `names`, in the fragment `okC` (first-order forms, declarations `f := \…` of local functions with
names in `Fn`, calls of them; declared / bound / assigned names disjoint from the names `F` that freeze
resolved); `N`: which name each new table entry stands for, so that `unfz N body'` is the original body.
Take any later store `stU` that sees the freeze-time values of the names in `F` from the closure's scope
`env` and does not itself hold a variable named like one of the local functions.  Then calling the ORIGINAL
lambda gives exactly the result of calling the FROZEN one — equal result — and the final stores differ only
in the bodies of the closures held by the local-function variables (`US`). -/
theorem freeze_local_functions_main (hy : Hyp Fn F T look N) (names : List String) (body' : Expr) (env : Nat)
    (hok : okC Fn F T body' = true) (hdn : dataNames Fn F names = true)
    (stU : State) (env0 fuel : Nat) (args : List Val)
    (hwf : WF stU) (hlt : env < stU.frames.size) (htab : T <+: stU.frozenTab)
    (hag : ∀ x, x ∈ F → lookOf stU env x = look x) (hno : NoFnVars Fn stU) :
    callVal (fuel + 2) stU env0 (.closure (plainParams names) (unfz N body') env) args =
      ((callVal (fuel + 2) stU env0 (.closure (plainParams names) body' env) args).1,
        US Fn N (callVal (fuel + 2) stU env0 (.closure (plainParams names) body' env) args).2) := by
  by_cases hlen : args.length = names.length
  · rw [callVal_plain fuel stU env0 env names (unfz N body') args hlen,
      callVal_plain fuel stU env0 env names body' args hlen]
    have hdFn : ∀ x, x ∈ names → x ∉ Fn := fun x hx => (dataNames_mem hdn hx).1
    have hdF : ∀ x, x ∈ names → x ∉ F := fun x hx => (dataNames_mem hdn hx).2
    -- the invariant holds in the call state, with `n` the call frame
    have hwfC := C17Main.callState_wf names args hwf hlt
    have hszC := C17Main.callState_size stU env names args
    have hpU : C17Preserve.Pre (fun x => lookOf stU env x) [] stU env := ⟨hwf, hlt, fun _ _ => rfl⟩
    have hpC := C17Preserve.pre_clone (bI := names) hpU (C17Main.callState_step stU env names args)
      (fun x hx => absurd hx (by simp)) (fun _ h => h)
    have jC : J Fn F T look stU.frames.size (callState stU env names args) := by
      refine ⟨hwfC, fun e hge hlt' x hx => ?_, fun i fr f v hfr hf hl => ?_, htab⟩
      · have : e = stU.frames.size := by rw [hszC] at hlt'; omega
        subst this
        rw [← hag x hx]
        exact hpC.agree x (hdF x |> fun h hm => h hm hx)
      · have := noFnVars_callState args hno hdFn i fr f hfr hf
        rw [this] at hl
        exact absurd hl (by simp)
    have hcomm := unfreeze_commutes (n := stU.frames.size) hy (fuel + 1) body' (callState stU env names args)
      stU.frames.size hok jC (Nat.le_refl _) (by rw [hszC]; omega)
    rw [US_id (noFnVars_callState args hno hdFn)] at hcomm
    rw [hcomm]
    rcases eval (fuel + 1) (callState stU env names args) stU.frames.size body' with ⟨r, s⟩
    cases r <;> rfl
  · rw [C17Closures.callVal_plain_bad fuel stU env0 env names (unfz N body') args hlen,
      C17Closures.callVal_plain_bad fuel stU env0 env names body' args hlen]
    have hN : NoFnVars Fn (newFrame stU env).1 := by
      intro i fr f hfr hf
      simp only [newFrame, Array.getElem?_push] at hfr
      split at hfr
      · simp only [Option.some.injEq] at hfr; subst hfr; rfl
      · exact hno i fr f hfr hf
    rw [US_id hN]

/-! ## non-vacuity: a recursive local function -/

section Examples

/-- `f := \m -> (if (m <= 0) 0 else m * o + f(m - 1)); [f(a), len([o])]` -/
def fnBody : Expr :=
  .seq [
    .declare (.ident "f") (.lambda [.mk "m" none false none]
      (.ite (.op "<=" (.ident "m") (.int 0)) (.int 0)
        (some (.op "+" (.op "*" (.ident "m") (.ident "o")) (.call (.ident "f") [.op "-" (.ident "m") (.int 1)]))))),
    .list [.call (.ident "f") [.ident "a"], .call (.ident "len") [.list [.ident "o"]]]] false

/-- its frozen form in the scope `o = 5`: three new table entries -/
def fnBody' : Expr :=
  .seq [
    .declare (.ident "f") (.lambda [.mk "m" none false none]
      (.ite (.op "<=" (.ident "m") (.int 0)) (.int 0)
        (some (.op "+" (.op "*" (.ident "m") (.frozen 0)) (.call (.ident "f") [.op "-" (.ident "m") (.int 1)]))))),
    .list [.call (.ident "f") [.ident "a"], .call (.frozen 1) [.list [.frozen 2]]]] false

def exT : List Val := [.int 5, .builtin "len", .int 5]
def exN : Nat → Option String
  | 0 => some "o"
  | 1 => some "len"
  | 2 => some "o"
  | _ => none

example : freezeExpr (lookOf C17Preserve.stO 0) { bound := ["a"], tab := [] } fnBody =
    .ok (fnBody', { bound := ["a", "f"], tab := exT }) := by
  simp [freezeExpr, freezeParams, freezeOpt, freezeList, fnBody, fnBody', exT, lookOf, State.lookup, lookupVar,
    lookupIn, C17Preserve.stO, Pat.idents, Param.name, builtinNames, opNames, typeNames]

example : unfz exN fnBody' = fnBody := rfl
example : okC ["f"] ["o", "len"] exT fnBody' = true := by decide
example : dataNames ["f"] ["o", "len"] ["a"] = true := by decide

theorem exHyp : Hyp ["f"] ["o", "len"] exT (lookOf C17Preserve.stO 0) exN where
  disj := by intro x hx; simp at hx; rcases hx with rfl | rfl <;> simp
  names := by
    intro i x h
    match i, h with
    | 0, h => simp only [exN, Option.some.injEq] at h; subst h; exact ⟨by simp, .int 5, rfl, rfl⟩
    | 1, h => simp only [exN, Option.some.injEq] at h; subst h; exact ⟨by simp, .builtin "len", rfl, rfl⟩
    | 2, h => simp only [exN, Option.some.injEq] at h; subst h; exact ⟨by simp, .int 5, rfl, rfl⟩
    | (k + 3), h => simp [exN] at h

/-- the whole story as one program (kernel-evaluated):
`o := 5; h := freeze \a -> body; g := \a -> body; r1 := h(3); u1 := g(3); o = 99; [r1, u1, h(3), g(3)]` -/
example :
    (runProgram 120 (.seq [
        .declare (.ident "o") (.int 5),
        .declare (.ident "h") (.freeze (.lambda (plainParams ["a"]) fnBody)),
        .declare (.ident "g") (.lambda (plainParams ["a"]) fnBody),
        .declare (.ident "r1") (.call (.ident "h") [.int 3]),
        .declare (.ident "u1") (.call (.ident "g") [.int 3]),
        .assign "o" (.int 99),
        .list [.ident "r1", .ident "u1", .call (.ident "h") [.int 3], .call (.ident "g") [.int 3]]] false)).1
      matches .val (.list [.list [.int 30, .int 1], .list [.int 30, .int 1], .list [.int 30, .int 1],
        .list [.int 594, .int 1]]) := by decide +kernel

/-- the hypotheses of `freeze_local_functions_main` are satisfiable: the store right after the freeze -/
example (fuel : Nat) :
    callVal (fuel + 2) { C17Preserve.stO with frozenTab := exT } 0 (.closure (plainParams ["a"]) fnBody 0) [.int 3] =
      ((callVal (fuel + 2) { C17Preserve.stO with frozenTab := exT } 0 (.closure (plainParams ["a"]) fnBody' 0)
          [.int 3]).1,
        US ["f"] exN (callVal (fuel + 2) { C17Preserve.stO with frozenTab := exT } 0
          (.closure (plainParams ["a"]) fnBody' 0) [.int 3]).2) :=
  freeze_local_functions_main exHyp ["a"] fnBody' 0 (by decide) (by decide)
    { C17Preserve.stO with frozenTab := exT } 0 fuel [.int 3] C17Preserve.wf_stO (by decide) (List.prefix_refl _)
    (fun _ _ => rfl)
    (by
      intro i fr f hfr hf
      have hi : i = 0 := by
        have := getElem?_lt_size hfr
        simp [C17Preserve.stO] at this
        omega
      subst hi
      simp [C17Preserve.stO] at hfr
      subst hfr
      have : f = "f" := by simpa using hf
      subst this
      rfl)

end Examples

end Noulith.C17Closures
