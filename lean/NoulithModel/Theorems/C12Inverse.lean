/-
C12, part 3 — operator patterns invert their constructors (`constructor_inverse`).

For each destructuring builtin of lib.rs: what `destructure` hands to the sub-patterns, put back
through the builtin's own `run2`, gives a value `==` to the one that was matched
(`plus_inverse_sound`, `times_inverse_sound`, `divide_inverse`, `minus_inverse`, `prepend_inverse`,
`append_inverse`), with the documented side conditions (N+K: the open operand is `>= 0`; `k * n`:
the literal is non-zero and the quotient is whole; `a / b`: lowest terms, positive denominator);
conversely a constructed value is taken apart into operands `==` to the original ones
(`plus_inverse_complete`, `prepend_complete`, `append_complete`).  Comparison chains bind the value
itself and accept exactly when the chain holds (`cmp_inverse`).  Numbers are exact (ints,
rationals); float operands are outside the model.
-/
import NoulithModel.Theorems.C12

namespace Noulith.C12

theorem veq_of_exact (x y : Val) (q : Rat) (hx : exactNum x = some q) (hy : exactNum y = some q) :
    veq x y = true := by
  cases x <;> simp [exactNum] at hx <;> cases y <;> simp [exactNum] at hy <;> simp [veq]
  · rename_i a b; have : (a : Rat) = (b : Rat) := by rw [hx, hy]
    exact_mod_cast this
  · rw [hx, hy]
  · rw [hx, hy]
  · rw [hx, hy]

theorem exactNum_mkNum (b : Bool) (q : Rat) (h : b = false → q.den = 1) : exactNum (mkNum b q) = some q := by
  cases b with
  | true => simp [mkNum, exactNum]
  | false =>
    simp [mkNum, exactNum]
    have hd := h rfl
    have := Rat.mkRat_self q
    rw [hd] at this
    rw [← this]
    simp [Rat.mkRat_one]

end Noulith.C12
namespace Noulith.C12

theorem exactNum_int_den (v : Val) (q : Rat) (h : exactNum v = some q) (hr : isRatVal v = false) : q.den = 1 := by
  cases v <;> simp [exactNum, isRatVal] at h hr
  subst h; simp

theorem isRatVal_mkNum (b : Bool) (q : Rat) : isRatVal (mkNum b q) = b := by
  cases b <;> simp [mkNum, isRatVal]

theorem den_one_iff (q : Rat) : q.den = 1 ↔ ∃ n : Int, q = n := by
  constructor
  · intro h
    refine ⟨q.num, ?_⟩
    have := Rat.mkRat_self q
    rw [h] at this
    rw [← this]; simp [Rat.mkRat_one]
  · rintro ⟨n, rfl⟩; simp

theorem den_one_add (x y : Rat) (hx : x.den = 1) (hy : y.den = 1) : (x + y).den = 1 := by
  obtain ⟨m, rfl⟩ := (den_one_iff x).mp hx
  obtain ⟨n, rfl⟩ := (den_one_iff y).mp hy
  exact (den_one_iff _).mpr ⟨m + n, by simp⟩
theorem den_one_sub (x y : Rat) (hx : x.den = 1) (hy : y.den = 1) : (x - y).den = 1 := by
  obtain ⟨m, rfl⟩ := (den_one_iff x).mp hx
  obtain ⟨n, rfl⟩ := (den_one_iff y).mp hy
  exact (den_one_iff _).mpr ⟨m - n, by simp⟩
theorem den_one_mul (x y : Rat) (hx : x.den = 1) (hy : y.den = 1) : (x * y).den = 1 := by
  obtain ⟨m, rfl⟩ := (den_one_iff x).mp hx
  obtain ⟨n, rfl⟩ := (den_one_iff y).mp hy
  exact (den_one_iff _).mpr ⟨m * n, by simp⟩

/-- `arith` on exact numbers computes the exact result, at the rational level iff an operand is -/
theorem arith_exact (op : Rat → Rat → Rat) (a b r : Val) (x y : Rat)
    (hx : exactNum a = some x) (hy : exactNum b = some y)
    (hint : x.den = 1 → y.den = 1 → (op x y).den = 1)
    (h : arith op a b = .ok r) :
    exactNum r = some (op x y) ∧ isRatVal r = (isRatVal a || isRatVal b) := by
  unfold arith at h
  simp [hx, hy] at h
  subst h
  refine ⟨?_, isRatVal_mkNum _ _⟩
  apply exactNum_mkNum
  intro hb
  simp at hb
  exact hint (exactNum_int_den a x hx hb.1) (exactNum_int_den b y hy hb.2)

theorem arith_ok_exact (op : Rat → Rat → Rat) (a b r : Val) (h : arith op a b = .ok r) :
    ∃ x y, exactNum a = some x ∧ exactNum b = some y := by
  unfold arith at h
  cases hx : exactNum a <;> cases hy : exactNum b <;> simp [hx, hy] at h
  exact ⟨_, _, rfl, rfl⟩

/-- **`constructor_inverse` for `n + k` patterns** (soundness): what the pattern binds adds up to
the matched value, and the open operand is non-negative (the N+K rule). -/
theorem plus_inverse_sound (v a : Val) (parts : List Val)
    (h : destructure .plus v [some a, none] = .ok parts ∨ destructure .plus v [none, some a] = .ok parts) :
    ∃ d x q, (parts = [a, d] ∨ parts = [d, a]) ∧ construct .plus [a, d] = .ok x ∧ veq x v = true ∧
      exactNum d = some q ∧ q ≥ 0 := by
  have key : ∀ mk : Val → List Val,
      (if isNum v && isNum a then
        match arith (· - ·) v a with
        | .ok diff => (match exactNum diff with
            | some d => if d ≥ 0 then Out.ok (mk diff) else .throw
            | none => .throw)
        | r => r.map fun _ => []
       else .throw) = .ok parts →
      ∃ d x q, parts = mk d ∧ construct .plus [a, d] = .ok x ∧ veq x v = true ∧ exactNum d = some q ∧ q ≥ 0 := by
    intro mk hk
    split at hk
    · cases har : arith (· - ·) v a with
      | ok diff =>
        simp only [har] at hk
        obtain ⟨xv, xa, hxv, hxa⟩ := arith_ok_exact _ _ _ _ har
        obtain ⟨hd, hlvl⟩ := arith_exact (· - ·) v a diff xv xa hxv hxa (den_one_sub xv xa) har
        simp only [hd] at hk
        split at hk
        · next hge =>
          simp at hk
          subst hk
          have hsum : ∃ x, arith (· + ·) a diff = .ok x := by
            unfold arith; simp [hxa, hd]
          obtain ⟨x, hx⟩ := hsum
          obtain ⟨hxe, _⟩ := arith_exact (· + ·) a diff x xa (xv - xa) hxa hd (den_one_add xa (xv - xa)) hx
          refine ⟨diff, x, xv - xa, rfl, ?_, ?_, hd, hge⟩
          · simpa [construct] using hx
          · apply veq_of_exact x v xv _ hxv
            rw [hxe]; congr 1; grind
        · simp at hk
      | throw => simp [har, Out.map] at hk
      | panic => simp [har, Out.map] at hk
    · simp at hk
  rcases h with h | h
  · simp only [destructure] at h
    obtain ⟨d, x, q, h1, h2, h3, h4, h5⟩ := key (fun diff => [a, diff]) h
    exact ⟨d, x, q, Or.inl h1, h2, h3, h4, h5⟩
  · simp only [destructure] at h
    obtain ⟨d, x, q, h1, h2, h3, h4, h5⟩ := key (fun diff => [diff, a]) h
    exact ⟨d, x, q, Or.inr h1, h2, h3, h4, h5⟩


theorem exactNum_isNum (v : Val) (q : Rat) (h : exactNum v = some q) : isNum v = true := by
  cases v <;> simp [exactNum] at h <;> rfl

/-- **`constructor_inverse` for `n + k` patterns** (completeness): a sum of the literal and a
non-negative number is taken apart into that literal and (a number equal to) the other operand. -/
theorem plus_inverse_complete (a d v : Val) (xa xd : Rat)
    (ha : exactNum a = some xa) (hd : exactNum d = some xd) (hge : xd ≥ 0)
    (hc : construct .plus [a, d] = .ok v) :
    ∃ d', destructure .plus v [some a, none] = .ok [a, d'] ∧ veq d' d = true := by
  simp only [construct] at hc
  obtain ⟨hv, _⟩ := arith_exact (· + ·) a d v xa xd ha hd (den_one_add xa xd) hc
  have hdiff : ∃ diff, arith (· - ·) v a = .ok diff := by unfold arith; simp [hv, ha]
  obtain ⟨diff, hdf⟩ := hdiff
  obtain ⟨hde, _⟩ := arith_exact (· - ·) v a diff (xa + xd) xa hv ha (den_one_sub _ _) hdf
  have hxd : xa + xd - xa = xd := by grind
  refine ⟨diff, ?_, ?_⟩
  · simp only [destructure, exactNum_isNum v _ hv, exactNum_isNum a _ ha, Bool.and_self, if_true, hdf, hde]
    simp [hxd, hge]
  · exact veq_of_exact diff d xd (by rw [hde, hxd]) hd

theorem ratFloor_int (t : Int) : ratFloor (t : Rat) = t := by
  unfold ratFloor; simp

theorem remNum_zero (v a r : Val) (xv xa : Rat) (hv : exactNum v = some xv) (ha : exactNum a = some xa)
    (hnz : xa ≠ 0) (h : remNum v a = .ok r) (hr : isNonzero r = false) :
    ∃ t : Int, xv = xa * t := by
  unfold remNum at h
  rw [hv, ha] at h
  have hxa : (xa == 0) = false := by simpa using hnz
  simp only [hxa, Bool.false_eq_true, if_false] at h
  generalize ht : (if xv / xa ≥ 0 then ratFloor (xv / xa) else -ratFloor (-(xv / xa))) = t at h
  have h := Out.ok.inj h
  subst h
  cases hb : (isRatVal v || isRatVal a) with
  | true =>
    simp [hb, mkNum, isNonzero, exactNum] at hr
    exact ⟨t, by grind⟩
  | false =>
    rw [hb] at hr
    simp only [Bool.or_eq_false_iff] at hb
    have hdv := exactNum_int_den v xv hv hb.1
    have hda := exactNum_int_den a xa ha hb.2
    obtain ⟨m, rfl⟩ := (den_one_iff xv).mp hdv
    obtain ⟨n, rfl⟩ := (den_one_iff xa).mp hda
    have e1 : ((m : Rat) - (n : Rat) * (t : Rat)) = ((m - n * t : Int) : Rat) := by simp
    rw [e1] at hr
    simp only [mkNum, Bool.false_eq_true, if_false, isNonzero, exactNum] at hr
    have h2 : ((m : Rat) - (n : Rat) * (t : Rat)) = 0 := by simpa using hr
    refine ⟨t, ?_⟩
    grind

/-- **`constructor_inverse` for `k * n` patterns** (soundness): the literal factor is non-zero and
the product of what the pattern binds equals the matched value. -/
theorem times_inverse_sound (v a : Val) (parts : List Val)
    (h : destructure .times v [some a, none] = .ok parts ∨ destructure .times v [none, some a] = .ok parts) :
    ∃ k x, (parts = [a, k] ∨ parts = [k, a]) ∧ isNonzero a = true ∧
      construct .times [a, k] = .ok x ∧ veq x v = true := by
  have key : ∀ mk : Val → List Val,
      (if isNum v && isNum a then
        if !isNonzero a then .throw
        else match remNum v a with
          | .ok r => if isNonzero r then .throw else (divFloorNum v a).map mk
          | r => r.map fun _ => []
       else .throw) = Out.ok parts →
      ∃ k x, parts = mk k ∧ isNonzero a = true ∧ construct .times [a, k] = .ok x ∧ veq x v = true := by
    intro mk hk
    split at hk
    · split at hk
      · simp at hk
      · next hnz =>
        have hnz' : isNonzero a = true := by simpa using hnz
        cases hrem : remNum v a with
        | ok r =>
          simp only [hrem] at hk
          split at hk
          · simp at hk
          · next hr0 =>
            have hr0' : isNonzero r = false := by simpa using hr0
            -- both operands are exact numbers (otherwise `remNum` would have raised)
            have hex : ∃ xv xa, exactNum v = some xv ∧ exactNum a = some xa := by
              unfold remNum at hrem
              cases hx : exactNum v <;> cases hy : exactNum a <;> simp [hx, hy] at hrem
              exact ⟨_, _, rfl, rfl⟩
            obtain ⟨xv, xa, hxv, hxa⟩ := hex
            have hxa0 : xa ≠ 0 := by
              intro h0; simp [isNonzero, hxa, h0] at hnz'
            obtain ⟨t, ht⟩ := remNum_zero v a r xv xa hxv hxa hxa0 hrem hr0'
            have hq : xv / xa = (t : Rat) := by rw [ht]; grind
            have hdiv : divFloorNum v a = .ok (mkNum (isRatVal v || isRatVal a) (t : Rat)) := by
              unfold divFloorNum
              have : (xa == 0) = false := by simpa using hxa0
              simp [hxv, hxa, this, hq, ratFloor_int]
            rw [hdiv] at hk
            simp [Out.map] at hk
            subst hk
            have hke : exactNum (mkNum (isRatVal v || isRatVal a) (t : Rat)) = some (t : Rat) :=
              exactNum_mkNum _ _ (by intro _; simp)
            have hprod : ∃ x, arith (· * ·) a (mkNum (isRatVal v || isRatVal a) (t : Rat)) = .ok x := by
              unfold arith; simp [hxa, hke]
            obtain ⟨x, hx⟩ := hprod
            obtain ⟨hxe, _⟩ := arith_exact (· * ·) a _ x xa t hxa hke (den_one_mul xa t) hx
            refine ⟨_, x, rfl, hnz', by simpa [construct] using hx, ?_⟩
            apply veq_of_exact x v xv _ hxv
            rw [hxe, ht]
        | throw => simp [hrem, Out.map] at hk
        | panic => simp [hrem, Out.map] at hk
    · simp at hk
  rcases h with h | h
  · simp only [destructure] at h
    obtain ⟨k, x, h1, h2, h3, h4⟩ := key (fun k => [a, k]) h
    exact ⟨k, x, Or.inl h1, h2, h3, h4⟩
  · simp only [destructure] at h
    obtain ⟨k, x, h1, h2, h3, h4⟩ := key (fun k => [k, a]) h
    exact ⟨k, x, Or.inr h1, h2, h3, h4⟩

/-- **`constructor_inverse` for `a / b` patterns**: numerator and denominator in lowest terms,
denominator positive, and their quotient is the matched value. -/
theorem divide_inverse (v : Val) (known : List (Option Val)) (parts : List Val)
    (h : destructure .divide v known = .ok parts) :
    ∃ n d x, parts = [.int n, .int (d : Nat)] ∧ d > 0 ∧ Nat.Coprime n.natAbs d ∧
      construct .divide [.int n, .int (d : Nat)] = .ok x ∧ veq x v = true := by
  simp only [destructure] at h
  split at h
  · next n =>
    simp at h; subst h
    refine ⟨n, 1, .rat ((n : Rat) / ((1 : Nat) : Int)), rfl, by omega, by simp, ?_, ?_⟩
    · simp [construct, exactNum]
    · simp only [veq]
      have e1 : (((1 : Nat) : Int) : Rat) = 1 := by simp
      have e2 : ((n : Rat) / 1) = (n : Rat) := by grind
      simp [e1, e2]
  · next q =>
    simp at h; subst h
    have hpos : q.den > 0 := Nat.pos_of_ne_zero q.den_nz
    refine ⟨q.num, q.den, .rat ((q.num : Rat) / ((q.den : Int) : Rat)), rfl, hpos, q.reduced, ?_, ?_⟩
    · have : ¬ (((q.den : Int) : Rat) = 0) := by
        intro h0
        have : (q.den : Int) = 0 := by exact_mod_cast h0
        omega
      simp [construct, exactNum, this]
    · simp only [veq]
      have := Rat.mkRat_self q
      rw [Rat.mkRat_eq_div] at this
      rw [Rat.intCast_natCast]
      simp [this]
  · simp at h

/-- **`constructor_inverse` for `-x` patterns** on exact numbers: negating what the pattern binds
gives the matched value back -/
theorem minus_inverse (v : Val) (k : Option Val) (parts : List Val) (q : Rat)
    (hv : exactNum v = some q) (h : destructure .minus v [k] = .ok parts) :
    ∃ x, parts = [x] ∧ construct .minus [x] = .ok v := by
  simp only [destructure] at h
  cases v <;> simp [exactNum] at hv <;> simp [negVal, Out.map] at h <;> subst h
  · exact ⟨_, rfl, by simp [construct, negVal]⟩
  · exact ⟨_, rfl, by simp [construct, negVal]⟩

/-- **`constructor_inverse` for `h .+ t`**: on lists, vectors and bytes (where `prepend` is
defined) the pattern binds exactly the operands whose `prepend` is the matched value; the same
`uncons` also takes strings, streams and dicts apart, which `prepend` cannot build. -/
theorem prepend_inverse (v : Val) (known : List (Option Val)) (parts : List Val)
    (h : destructure .prepend v known = .ok parts) :
    ∃ hd tl, parts = [hd, tl] ∧ uncons v = .ok (some (hd, tl)) ∧
      ((∃ xs, v = .list xs) → construct .prepend [hd, tl] = .ok v) := by
  simp only [destructure] at h
  split at h
  · next hd tl hu =>
    simp at h; subst h
    refine ⟨hd, tl, rfl, hu, ?_⟩
    rintro ⟨xs, rfl⟩
    cases xs with
    | nil => simp [uncons] at hu
    | cons x xs => simp [uncons] at hu; obtain ⟨rfl, rfl⟩ := hu; simp [construct]
  · simp at h
  · simp at h
  · simp at h

theorem prepend_complete (x : Val) (xs : List Val) :
    destructure .prepend (.list (x :: xs)) [none, none] = .ok [x, .list xs] := by
  simp [destructure, uncons]

/-- **`constructor_inverse` for `xs +. x`** -/
theorem append_inverse (v : Val) (known : List (Option Val)) (parts : List Val)
    (h : destructure .append v known = .ok parts) :
    ∃ tl l, parts = [tl, l] ∧ unsnoc v = .ok (some (tl, l)) ∧
      ((∃ xs, v = .list xs) → construct .append [tl, l] = .ok v) := by
  simp only [destructure] at h
  split at h
  · next tl l hu =>
    simp at h; subst h
    refine ⟨tl, l, rfl, hu, ?_⟩
    rintro ⟨xs, rfl⟩
    simp only [unsnoc] at hu
    cases hl : xs.getLast? with
    | none => simp [hl] at hu
    | some last =>
      simp [hl] at hu
      obtain ⟨rfl, rfl⟩ := hu
      simp only [construct]
      congr 2
      have hne : xs ≠ [] := by intro h0; subst h0; simp at hl
      have := List.dropLast_concat_getLast hne
      rw [List.getLast?_eq_some_getLast hne] at hl
      simp at hl
      rw [hl] at this
      exact this
  · simp at h
  · simp at h
  · simp at h

theorem append_complete (xs : List Val) (x : Val) :
    destructure .append (.list (xs ++ [x])) [none, none] = .ok [.list xs, x] := by
  simp [destructure, unsnoc]

/-- comparison patterns `lo < x < hi`: with one open slot the pattern binds the value itself, and
it is accepted exactly when the whole chain holds -/
theorem cmp_inverse (ops : List CmpOp) (v : Val) (known : List (Option Val)) (parts : List Val)
    (h : destructure (.cmp ops) v known = .ok parts) :
    ops.length + 1 = known.length ∧ cmpChain ops parts = .ok true ∧
      ((known.filter Option.isNone).length = 1 → fillSlots known [v] = some parts) := by
  simp only [destructure] at h
  split at h
  · simp at h
  · next hlen =>
    split at h
    · simp at h
    · split at h
      · simp at h
      · next rvs hrv =>
        split at h
        · simp at h
        · next ret hfill =>
          split at h <;> simp at h
          next hch =>
          subst h
          refine ⟨by simpa using hlen, hch, ?_⟩
          intro h1
          simp [h1] at hrv
          subst hrv; exact hfill

/-- a builtin without a `destructure` of its own refuses every value -/
theorem other_refuses (t : Nat) (v : Val) (known : List (Option Val)) :
    destructure (.other t) v known = .throw := by simp [destructure]

end Noulith.C12
