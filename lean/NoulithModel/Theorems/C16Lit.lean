/-
C16 — JSON text read as a Noulith literal (`literal_repr_json_agreement_statement`, token level).

Ties the model of the JSON writer (Impl/JsonText.lean) to C15's model of the Noulith lexer
(Impl/Lex.lean) and C15's literal theorems: for JSON-shaped data built from `null`, non-negative
integers, strings of printable characters (plus `\n` `\r` `\t`, `"` and `\`), arrays and objects,

* `lex_json_text`     — lexing the JSON text yields exactly the token stream of the corresponding
                        Noulith list / dict literal: the same brackets, commas and colons, and for every
                        leaf the literal token (`IntLit n`, `StringLit s`, `Null`) that denotes the leaf;
* `json_leaf_literal_*` — for a leaf, the whole pipeline lex + parse + evaluate of C15
                        (`parseEvalLit`) gives the value `json_decode` gives for the same text.

Not covered (C15 models parsing as a recogniser and evaluation for single literals only): the
evaluation of the bracket structure; negative numbers (`-5` is the operator `-` applied to `5`),
floats, `true` / `false` (identifiers in Noulith), strings with other control characters
(`\b` `\f` `\u00XX` are JSON-only spellings: a real difference between the two syntaxes).
-/
import NoulithModel.Theorems.C15
import NoulithModel.Theorems.C16Json

namespace Noulith.C16
open Noulith Noulith.Codec Noulith.CodecSpec
open Noulith.Lex (Token lex lexStep)

/-- the characters of a text -/
def toChars (s : Str) : List Char := s.map Char.ofNat

theorem toChars_append (a b : Str) : toChars (a ++ b) = toChars a ++ toChars b := by simp [toChars]
theorem toChars_cons (c : Nat) (s : Str) : toChars (c :: s) = Char.ofNat c :: toChars s := rfl

/-! ## decimal digits: C15's and C16's positional notations are the same list -/

theorem litDigitsAux_eq (b : Nat) (hb : 2 ≤ b) : ∀ (fuel n : Nat) (acc : List Nat), n < fuel →
    LitSpec.digitsAux b fuel n acc = digits b n ++ acc := by
  intro fuel
  induction fuel with
  | zero => intro n acc h; omega
  | succ fuel ih =>
    intro n acc h
    unfold LitSpec.digitsAux
    by_cases hn : n < b
    · simp [hn, digits_small hn]
    · have hnb : ¬ (n < b ∨ b < 2) := by omega
      simp only [hnb, if_false]
      have hlt : n / b < n := Nat.div_lt_self (by omega) (by omega)
      rw [ih (n / b) _ (by omega), digits_big hb (show b ≤ n by omega)]
      simp

theorem litDigits_eq (b n : Nat) (hb : 2 ≤ b) : LitSpec.digits b n = digits b n := by
  unfold LitSpec.digits
  rw [litDigitsAux_eq b hb (n + 1) n [] (by omega)]; simp

/-- the decimal spelling of C15's integer literals is the text `write_u64` produces -/
theorem decimal_eq (n : Nat) : LitSpec.decimal n = toChars (natRadix false 10 n) := by
  unfold LitSpec.decimal toChars
  rw [litDigits_eq 10 n (by decide), natRadix10_eq, digitText, List.map_map]
  apply List.map_congr_left
  intro d hd
  have := digits_lt (by decide : 2 ≤ 10) n d hd
  simp [LitSpec.digitChar, this]

/-! ## what may follow a value in compact JSON text -/

def LexStop (rest : List Char) : Prop := ∀ c ∈ rest.head?, c = ',' ∨ c = ']' ∨ c = '}'

theorem lexStop_nil : LexStop [] := by simp [LexStop]
theorem lexStop_comma (r : List Char) : LexStop (',' :: r) := by simp [LexStop]
theorem lexStop_rbracket (r : List Char) : LexStop (']' :: r) := by simp [LexStop]
theorem lexStop_rbrace (r : List Char) : LexStop ('}' :: r) := by simp [LexStop]

theorem intStop_of_lexStop (rest : List Char) (h : LexStop rest) : C15.IntStop .dec rest := by
  unfold C15.IntStop
  intro c hc
  rcases h c hc with rfl | rfl | rfl <;> decide

/-- integers: the JSON text of a non-negative integer lexes to the one token `IntLit n` -/
theorem lex_json_int (n : Nat) (rest : List Char) (h : LexStop rest) :
    lex (toChars (natRadix false 10 n) ++ rest) = .intLit n :: lex rest := by
  have := C15.int_literal_token .dec rfl n rest (intStop_of_lexStop rest h)
  rw [← decimal_eq]; exact this

/-- punctuation -/
theorem lex_lbracket (cs : List Char) : lex ('[' :: cs) = .leftBracket :: lex cs :=
  C15.lex_of_step '[' cs _ _ rfl
theorem lex_rbracket (cs : List Char) : lex (']' :: cs) = .rightBracket :: lex cs :=
  C15.lex_of_step ']' cs _ _ rfl
theorem lex_lbrace (cs : List Char) : lex ('{' :: cs) = .leftBrace :: lex cs :=
  C15.lex_of_step '{' cs _ _ rfl
theorem lex_rbrace (cs : List Char) : lex ('}' :: cs) = .rightBrace :: lex cs :=
  C15.lex_of_step '}' cs _ _ rfl
theorem lex_comma (cs : List Char) : lex (',' :: cs) = .comma :: lex cs :=
  C15.lex_of_step ',' cs _ _ rfl
theorem lex_colon (c : Char) (cs : List Char) (h : c ≠ ':') : lex (':' :: c :: cs) = .colon :: lex (c :: cs) := by
  have hstep : lexStep ':' (c :: cs) = ⟨[.colon], c :: cs, false⟩ := by
    show (match (c :: cs) with
      | ':' :: cs1 => (⟨[Token.doubleColon], cs1, false⟩ : Lex.Step)
      | _ => ⟨[.colon], c :: cs, false⟩) = _
    split
    · rename_i h2; injection h2 with h3; exact absurd h3 h
    · rfl
  have := C15.lex_of_step ':' (c :: cs) _ _ hstep
  simpa using this

/-- `null` -/
theorem lex_null (rest : List Char) (h : LexStop rest) : lex ('n' :: 'u' :: 'l' :: 'l' :: rest) = .null :: lex rest := by
  suffices hstep : lexStep 'n' ('u' :: 'l' :: 'l' :: rest) = ⟨[.null], rest, false⟩ by
    have := C15.lex_of_step 'n' _ _ _ hstep
    simpa using this
  have hstop : C15.Stops Lex.isIdentCont rest := by
    intro c hc
    rcases h c hc with rfl | rfl | rfl <;> decide
  have hrun : ∀ c ∈ ['u', 'l', 'l'], Lex.isIdentCont c = true := by decide
  have e1 := C15.takeWhile_run Lex.isIdentCont ['u', 'l', 'l'] rest hrun hstop
  have e2 := C15.dropWhile_run Lex.isIdentCont ['u', 'l', 'l'] rest hrun hstop
  show Lex.lexOther 'n' ('u' :: 'l' :: 'l' :: rest) = _
  have w : Unicode.isWhitespace 'n' = false := by decide
  have d : Lex.isDigit10 'n' = false := by decide
  have a : Unicode.isAlphabetic 'n' = true := by decide
  simp only [Lex.lexOther, w, d, a, Bool.false_eq_true, if_false, Bool.true_or, if_true, Lex.lexIdent, Lex.identSplit]
  have hse : Lex.identStopEarly 'n' ('u' :: 'l' :: 'l' :: rest) = false := by
    simp [Lex.identStopEarly]
  have hdr : ('n' = Lex.DRAGON) = False := by simp [Lex.DRAGON]
  simp only [hse, Bool.false_eq_true, if_false, hdr]
  have e1' : ('u' :: 'l' :: 'l' :: rest).takeWhile Lex.isIdentCont = ['u', 'l', 'l'] := by simpa using e1
  have e2' : ('u' :: 'l' :: 'l' :: rest).dropWhile Lex.isIdentCont = rest := by simpa using e2
  rw [e1', e2']
  rfl

/-! ## strings -/

/-- characters whose JSON spelling is also their Noulith spelling: printable scalar values (the
writer copies them; `"` and `\` get a backslash in both syntaxes) and `\n` `\r` `\t` -/
def LitChar (c : Nat) : Prop := c = 10 ∨ c = 13 ∨ c = 9 ∨ (32 ≤ c ∧ c.isValidChar)

/-- the item of a Noulith string literal (C15's `StrItem`) that spells the character -/
def itemOf (c : Nat) : LitSpec.StrItem :=
  if c = 34 then .dquote else if c = 92 then .backslash else if c = 10 then .nl
  else if c = 13 then .cr else if c = 9 then .tab else .plain (Char.ofNat c)

theorem escapeChar_render (c : Nat) (h : LitChar c) : toChars (escapeChar c) = (itemOf c).render := by
  unfold escapeChar itemOf
  by_cases h1 : c = 34
  · subst h1; rfl
  by_cases h2 : c = 92
  · subst h2; rfl
  by_cases h5 : c = 10
  · subst h5; rfl
  by_cases h6 : c = 13
  · subst h6; rfl
  by_cases h7 : c = 9
  · subst h7; rfl
  have h32 : 32 ≤ c := by rcases h with h | h | h | h <;> omega
  have h3 : ¬ c = 8 := by omega
  have h4 : ¬ c = 12 := by omega
  have h8 : ¬ c < 32 := by omega
  simp only [h1, h2, h3, h4, h5, h6, h7, h8, if_false]
  rfl

theorem escapeStr_render (s : Str) (h : ∀ c ∈ s, LitChar c) :
    toChars (escapeStr s) = LitSpec.renderBody (s.map itemOf) := by
  induction s with
  | nil => rfl
  | cons c t ih =>
    simp only [escapeStr, toChars_append, List.map_cons, LitSpec.renderBody, List.flatMap_cons]
    rw [escapeChar_render c (h c (by simp))]
    have := ih (fun x hx => h x (by simp [hx]))
    simp only [LitSpec.renderBody] at this
    rw [this]

theorem itemOf_denote (c : Nat) (h : LitChar c) : (itemOf c).denote = some c := by
  unfold itemOf
  by_cases h1 : c = 34
  · subst h1; rfl
  by_cases h2 : c = 92
  · subst h2; rfl
  by_cases h5 : c = 10
  · subst h5; rfl
  by_cases h6 : c = 13
  · subst h6; rfl
  by_cases h7 : c = 9
  · subst h7; rfl
  have hv : c.isValidChar := by rcases h with h | h | h | h <;> first | omega | exact h.2
  simp only [h1, h2, h5, h6, h7, if_false, LitSpec.StrItem.denote, C15.toNat_ofNat c hv]

theorem denoteBody_items (s : Str) (h : ∀ c ∈ s, LitChar c) : LitSpec.denoteBody (s.map itemOf) = some s := by
  induction s with
  | nil => rfl
  | cons c t ih =>
    simp only [List.map_cons, LitSpec.denoteBody, itemOf_denote c (h c (by simp)),
      ih (fun x hx => h x (by simp [hx]))]

theorem itemOf_ok (c : Nat) (h : LitChar c) : C15.ItemOK '"' (itemOf c) ∧ ∀ ds, itemOf c ≠ .uni .none ds := by
  unfold itemOf
  by_cases h1 : c = 34
  · subst h1; exact ⟨trivial, by intro ds; simp⟩
  by_cases h2 : c = 92
  · subst h2; exact ⟨trivial, by intro ds; simp⟩
  by_cases h5 : c = 10
  · subst h5; exact ⟨trivial, by intro ds; simp⟩
  by_cases h6 : c = 13
  · subst h6; exact ⟨trivial, by intro ds; simp⟩
  by_cases h7 : c = 9
  · subst h7; exact ⟨trivial, by intro ds; simp⟩
  have hv : c.isValidChar := by rcases h with h | h | h | h <;> first | omega | exact h.2
  simp only [h1, h2, h5, h6, h7, if_false]
  refine ⟨⟨?_, ?_⟩, by intro ds; simp⟩
  · intro e
    have := congrArg Char.toNat e
    rw [C15.toNat_ofNat c hv] at this
    exact h1 this
  · intro e
    have := congrArg Char.toNat e
    rw [C15.toNat_ofNat c hv] at this
    exact h2 this

theorem bodyOK_items (s : Str) (h : ∀ c ∈ s, LitChar c) : C15.BodyOK '"' (s.map itemOf) := by
  induction s with
  | nil => trivial
  | cons c t ih =>
    obtain ⟨h1, h2⟩ := itemOf_ok c (h c (by simp))
    refine ⟨h1, ih (fun x hx => h x (by simp [hx])), ?_⟩
    intro ds e; exact absurd e (h2 ds)

/-- strings: the JSON text of a string of printable characters lexes to the one token
`StringLit s` — the Noulith string literal with the same spelling denotes the same string -/
theorem lex_json_str (s : Str) (h : ∀ c ∈ s, LitChar c) (rest : List Char) :
    lex (toChars (writeStr s) ++ rest) = .stringLit (toChars s) :: lex rest := by
  have := C15.string_escape_exact '"' (Or.inr rfl) (s.map itemOf) (bodyOK_items s h) s (denoteBody_items s h) rest
  rw [← escapeStr_render s h] at this
  simp only [writeStr, toChars_cons, toChars_append, List.cons_append, List.append_assoc]
  exact this

/-! ## values -/

mutual
/-- the fragment: `null`, unsigned integers, strings of printable characters, arrays and objects of these -/
def LitShaped : JV → Prop
  | .null => True
  | .num (.posInt n) => n ≤ 18446744073709551615
  | .str s => ∀ c ∈ s, LitChar c
  | .arr xs => LitShapedL xs
  | .obj kvs => LitShapedKVs kvs
  | _ => False
def LitShapedL : List JV → Prop
  | [] => True
  | x :: xs => LitShaped x ∧ LitShapedL xs
def LitShapedKVs : List (Str × JV) → Prop
  | [] => True
  | (k, x) :: xs => (∀ c ∈ k, LitChar c) ∧ LitShaped x ∧ LitShapedKVs xs
end

mutual
/-- the token stream of the Noulith literal that denotes the value: the literal token of each leaf
inside the brackets, commas and colons of a list / dict literal -/
def jsonTokens : JV → List Token
  | .null => [.null]
  | .num (.posInt n) => [.intLit n]
  | .str s => [.stringLit (toChars s)]
  | .arr xs => .leftBracket :: (elemTokens xs ++ [.rightBracket])
  | .obj kvs => .leftBrace :: (memberTokens kvs ++ [.rightBrace])
  | _ => []
def elemTokens : List JV → List Token
  | [] => []
  | [x] => jsonTokens x
  | x :: y :: r => jsonTokens x ++ .comma :: elemTokens (y :: r)
def memberTokens : List (Str × JV) → List Token
  | [] => []
  | [(k, x)] => .stringLit (toChars k) :: .colon :: jsonTokens x
  | (k, x) :: y :: r => .stringLit (toChars k) :: .colon :: (jsonTokens x ++ .comma :: memberTokens (y :: r))
end

/-- a written value of the fragment does not start with `:` (so the `:` after a key is a colon,
not the start of `::`) -/
theorem writeJson_head_lit (ft : FloatText) (j : JV) (h : LitShaped j) (tail : List Char) :
    ∃ c cs, toChars (writeJson ft j) ++ tail = c :: cs ∧ c ≠ ':' := by
  cases j with
  | null => exact ⟨'n', _, rfl, by decide⟩
  | bool b => simp [LitShaped] at h
  | str s => exact ⟨'"', _, rfl, by decide⟩
  | arr xs => exact ⟨'[', _, rfl, by decide⟩
  | obj kvs => exact ⟨'{', _, rfl, by decide⟩
  | num n =>
    cases n with
    | negInt v => simp [LitShaped] at h
    | float f => simp [LitShaped] at h
    | posInt n =>
      obtain ⟨c, cs, e, hd, _, _⟩ := scanInt_digits n [] (Or.inl rfl)
      simp only [List.append_nil] at e
      have hr : 48 ≤ c ∧ c ≤ 57 := by simpa [isAsciiDigit] using hd
      refine ⟨Char.ofNat c, toChars cs ++ tail, ?_, ?_⟩
      · simp only [writeJson, writeNum]; rw [natRadix10_eq, e]; rfl
      · intro e2
        have := congrArg Char.toNat e2
        rw [C15.toNat_ofNat c (by unfold Nat.isValidChar; omega)] at this
        have : c = 58 := this
        omega

mutual
/-- **lex_json_text**: for every value of the fragment, lexing its JSON text with the Noulith
lexer yields exactly the token stream of the corresponding Noulith literal -/
theorem lex_json_text (ft : FloatText) : ∀ (j : JV), LitShaped j → ∀ rest, LexStop rest →
    lex (toChars (writeJson ft j) ++ rest) = jsonTokens j ++ lex rest
  | .null, _, rest, hs => by
    simp only [jsonTokens, List.cons_append, List.nil_append]
    exact lex_null rest hs
  | .bool _, h, _, _ => by simp [LitShaped] at h
  | .num (.negInt _), h, _, _ => by simp [LitShaped] at h
  | .num (.float _), h, _, _ => by simp [LitShaped] at h
  | .num (.posInt n), _, rest, hs => by
    simp only [jsonTokens, List.cons_append, List.nil_append, writeJson, writeNum]
    exact lex_json_int n rest hs
  | .str s, h, rest, _ => by
    simp only [jsonTokens, List.cons_append, List.nil_append, writeJson]
    exact lex_json_str s h rest
  | .arr xs, h, rest, _ => by
    have ih := lex_json_elems ft xs h rest
    simp only [writeJson, jsonTokens, toChars_cons, toChars_append, List.cons_append, List.append_assoc]
    rw [show Char.ofNat 91 = '[' from rfl, lex_lbracket]
    have e : Char.ofNat 93 :: (toChars [] ++ rest) = ']' :: rest := rfl
    rw [e, ih]
    simp
  | .obj kvs, h, rest, _ => by
    have ih := lex_json_members ft kvs h rest
    simp only [writeJson, jsonTokens, toChars_cons, toChars_append, List.cons_append, List.append_assoc]
    rw [show Char.ofNat 123 = '{' from rfl, lex_lbrace]
    have e : Char.ofNat 125 :: (toChars [] ++ rest) = '}' :: rest := rfl
    rw [e, ih]
    simp
theorem lex_json_elems (ft : FloatText) : ∀ (xs : List JV), LitShapedL xs → ∀ rest,
    lex (toChars (writeElems ft xs) ++ ']' :: rest) = elemTokens xs ++ .rightBracket :: lex rest
  | [], _, rest => by
    simp only [writeElems, elemTokens, List.nil_append]
    exact lex_rbracket rest
  | [x], h, rest => by
    simp only [writeElems, elemTokens]
    rw [lex_json_text ft x h.1 (']' :: rest) (lexStop_rbracket rest), lex_rbracket]
  | x :: y :: r, h, rest => by
    have ih := lex_json_elems ft (y :: r) h.2 rest
    simp only [writeElems, elemTokens, toChars_append, toChars_cons, List.append_assoc, List.cons_append]
    rw [show Char.ofNat 44 = ',' from rfl,
      lex_json_text ft x h.1 (',' :: (toChars (writeElems ft (y :: r)) ++ ']' :: rest)) (lexStop_comma _),
      lex_comma, ih]
theorem lex_json_members (ft : FloatText) : ∀ (kvs : List (Str × JV)), LitShapedKVs kvs → ∀ rest,
    lex (toChars (writeMembers ft kvs) ++ '}' :: rest) = memberTokens kvs ++ .rightBrace :: lex rest
  | [], _, rest => by
    simp only [writeMembers, memberTokens, List.nil_append]
    exact lex_rbrace rest
  | [(k, x)], h, rest => by
    obtain ⟨c, cs, e, hc⟩ := writeJson_head_lit ft x h.2.1 ('}' :: rest)
    simp only [writeMembers, memberTokens, toChars_append, toChars_cons, List.append_assoc, List.cons_append]
    rw [lex_json_str k h.1, show Char.ofNat 58 = ':' from rfl, e, lex_colon c cs hc, ← e,
      lex_json_text ft x h.2.1 ('}' :: rest) (lexStop_rbrace rest), lex_rbrace]
  | (k, x) :: y :: r, h, rest => by
    have ih := lex_json_members ft (y :: r) h.2.2 rest
    obtain ⟨c, cs, e, hc⟩ := writeJson_head_lit ft x h.2.1 (',' :: (toChars (writeMembers ft (y :: r)) ++ '}' :: rest))
    simp only [writeMembers, memberTokens, toChars_append, toChars_cons, List.append_assoc, List.cons_append]
    rw [lex_json_str k h.1, show Char.ofNat 58 = ':' from rfl, show Char.ofNat 44 = ',' from rfl, e,
      lex_colon c cs hc, ← e,
      lex_json_text ft x h.2.1 (',' :: (toChars (writeMembers ft (y :: r)) ++ '}' :: rest)) (lexStop_comma _),
      lex_comma, ih]
end

/-- the whole text -/
theorem lex_json_text_top (ft : FloatText) (j : JV) (h : LitShaped j) :
    lex (toChars (writeJson ft j)) = jsonTokens j := by
  have := lex_json_text ft j h [] lexStop_nil
  simpa [C15.lex_nil] using this

/-! ## leaves: lex + parse + evaluate (C15's `parseEvalLit`) against `json_decode` -/

/-- what a Noulith literal value is for a decoded JSON leaf -/
def litValOf : Val → Option Lex.LitVal
  | .int v => if 0 ≤ v then some (.int v.toNat (decide (v.toNat ≤ 9223372036854775807))) else none
  | .str s => some (.str (toChars s))
  | _ => none

/-- **integers**: the JSON text of a non-negative 64-bit integer, evaluated as a Noulith program,
is that integer (held as `Small`); `json_decode` of the same text is the same integer -/
theorem json_leaf_literal_int (ft : FloatText) (hft : FloatOK ft) (n : Nat) (hn : n ≤ 9223372036854775807) :
    jsonDecodeText ft (writeJson ft (.num (.posInt n))) = .ok (.int n) ∧
    Lex.parseEvalLit (toChars (writeJson ft (.num (.posInt n)))) = .ok (.int n true) ∧
    litValOf (.int n) = some (.int n true) := by
  refine ⟨?_, ?_, ?_⟩
  · have h := json_text_roundtrip ft hft (.num (.posInt n)) (by simp only [JWF, JNumOK]; omega) (by simp [jdepth])
    simp only [jsonDecodeText, h, decodeV]
    have : (n : Int) ≤ I64_MAX := by unfold I64_MAX; omega
    simp [this]
  · have h := C15.int_literal_exact .dec rfl n
    simp only [writeJson, writeNum, ← decimal_eq]
    rw [show LitSpec.renderInt .dec n = LitSpec.decimal n from rfl] at h
    rw [h]; simp [hn]
  · simp [litValOf, hn]

/-- **strings**: the JSON text of a string of printable characters, evaluated as a Noulith
program, is that string; `json_decode` of the same text is the same string -/
theorem json_leaf_literal_str (ft : FloatText) (hft : FloatOK ft) (s : Str) (hs : ∀ c ∈ s, LitChar c) :
    jsonDecodeText ft (writeJson ft (.str s)) = .ok (.str s) ∧
    Lex.parseEvalLit (toChars (writeJson ft (.str s))) = .ok (.str (toChars s)) ∧
    litValOf (.str s) = some (.str (toChars s)) := by
  refine ⟨?_, ?_, rfl⟩
  · have h := json_text_roundtrip ft hft (.str s) trivial (by simp [jdepth])
    simp only [jsonDecodeText, h, decodeV]
  · have h := C15.string_literal_exact '"' (Or.inr rfl) (s.map itemOf) (bodyOK_items s hs) s (denoteBody_items s hs)
    rw [← escapeStr_render s hs] at h
    simp only [writeJson, writeStr, toChars_cons, toChars_append]
    exact h

mutual
theorem litShaped_wf : ∀ j : JV, LitShaped j → JNums j
  | .null, _ => trivial
  | .bool _, h => by simp [LitShaped] at h
  | .num (.posInt n), h => h
  | .num (.negInt _), h => by simp [LitShaped] at h
  | .num (.float _), h => by simp [LitShaped] at h
  | .str _, _ => trivial
  | .arr xs, h => litShapedL_wf xs h
  | .obj kvs, h => litShapedKVs_wf kvs h
theorem litShapedL_wf : ∀ xs : List JV, LitShapedL xs → JNumsL xs
  | [], _ => trivial
  | x :: xs, h => ⟨litShaped_wf x h.1, litShapedL_wf xs h.2⟩
theorem litShapedKVs_wf : ∀ kvs : List (Str × JV), LitShapedKVs kvs → JNumsKVs kvs
  | [], _ => trivial
  | (_, x) :: xs, h => ⟨litShaped_wf x h.2.1, litShapedKVs_wf xs h.2.2⟩
end

/-- **literal / JSON agreement, token level**: one text, two readers.  For every value of the
fragment (sorted objects, nested less than 128 deep) serde_json's parser reads the text back as the
value, and the Noulith lexer reads the same text as the token stream of the literal that denotes
the value (`IntLit` / `StringLit` / `Null` leaves carrying the same numbers and strings, in the
same bracket structure). -/
theorem literal_json_agreement_tokens (ft : FloatText) (hft : FloatOK ft) (j : JV) (hl : LitShaped j)
    (hw : JWF j) (hd : jdepth j ≤ 127) :
    parseJson ft (writeJson ft j) = some j ∧ lex (toChars (writeJson ft j)) = jsonTokens j :=
  ⟨json_text_roundtrip ft hft j hw hd, lex_json_text_top ft j hl⟩

/-- the JSON-only spellings are a real difference: `"\u0001a"` is U+0001 `a` for JSON, but the
Noulith lexer reads `\u0001a` as the single escape U+001A (hex digits are taken greedily), so
strings with such control characters are outside the agreement -/
theorem json_u_escape_differs :
    parseStrBody [92, 117, 48, 48, 48, 49, 97, 34] = some ([1, 97], []) ∧
    Lex.lexStr '"' ['\\', 'u', '0', '0', '0', '1', 'a', '"'] = ⟨[], [Char.ofNat 26], []⟩ := by
  constructor
  · decide
  · have hok : C15.BodyOK '"' [.uni .none [⟨0, false⟩, ⟨0, false⟩, ⟨0, false⟩, ⟨1, false⟩, ⟨10, false⟩]] := by
      refine ⟨⟨by decide, by intro _; simp⟩, trivial, ?_⟩
      intro ds _ c hc
      simp [LitSpec.renderBody] at hc
      subst hc; decide
    have h := C15.lexStr_body '"' (by decide)
      [.uni .none [⟨0, false⟩, ⟨0, false⟩, ⟨0, false⟩, ⟨1, false⟩, ⟨10, false⟩]] hok [26] (by decide) []
    exact h

end Noulith.C16
