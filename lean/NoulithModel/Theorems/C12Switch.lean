/-
C12 — `switch` with arm bodies: the arm is selected by the patterns alone, its body runs once, and
an error raised by the body leaves the `switch` (later arms are not tried).
-/
import NoulithModel.Theorems.C12
import NoulithModel.Spec.MatchSwitch

namespace Noulith.C12

theorem switchArm_index_ge (e : Env) (s : Val) : ∀ (arms : List Pat) (i0 i : Nat) (ee : Env),
    switchArm e s arms i0 = .ok (i, ee) → i0 ≤ i := by
  intro arms
  induction arms with
  | nil => intro i0 i ee h; simp [switchArm] at h
  | cons p arms ih =>
    intro i0 i ee h
    unfold switchArm at h
    rcases hq : assign ([] :: e) p (some .any) s with ⟨e1, o⟩
    rw [hq] at h
    cases o with
    | ok u => simp at h; omega
    | throw => have := ih (i0 + 1) i ee h; omega
    | panic => simp at h

/-- **selection and execution are separate**: the `switch` is "select the first arm whose pattern
accepts (`switchArm`, which looks at patterns only), then run that arm's body" — for every list of
arms and every body, raising or not -/
theorem switchRun_factor (e : Env) (s : Val) : ∀ (arms : List (Pat × ArmBody)) (i0 : Nat),
    switchRun e s arms i0 =
      match switchArm e s (arms.map Prod.fst) i0 with
      | .ok (i, ee) =>
        (match arms[i - i0]? with
         | some (_, b) => runArm ee i b
         | none => (e, .noMatch))
      | .throw => (e, .noMatch)
      | .panic => (e, .panic) := by
  intro arms
  induction arms with
  | nil => intro i0; rfl
  | cons pb arms ih =>
    intro i0
    obtain ⟨p, b⟩ := pb
    unfold switchRun
    simp only [List.map_cons]
    unfold switchArm
    rcases hq : assign ([] :: e) p (some .any) s with ⟨e1, o⟩
    cases o with
    | ok u => simp
    | panic => rfl
    | throw =>
      simp only []
      rw [ih (i0 + 1)]
      cases hs : switchArm e s (arms.map Prod.fst) (i0 + 1) with
      | ok r =>
        obtain ⟨i, ee⟩ := r
        have hge := switchArm_index_ge e s _ _ _ _ hs
        simp only []
        have : i - i0 = (i - (i0 + 1)) + 1 := by omega
        rw [this, List.getElem?_cons_succ]
      | throw => rfl
      | panic => rfl

/-- **`switch_body_error_propagates`**: when arm `i` is the first whose pattern accepts the
scrutinee and its body raises, the `switch` ends with that error, in the environment the body left
behind: no later arm is tried and no other body runs (the result does not depend on the arms after
`i` at all). -/
theorem switch_body_error_propagates (e : Env) (s : Val) (arms : List (Pat × ArmBody))
    (i : Nat) (ee : Env) (p : Pat) (b : ArmBody)
    (hsel : switchArm e s (arms.map Prod.fst) 0 = .ok (i, ee))
    (harm : arms[i]? = some (p, b))
    (hraise : (runArm ee i b).2 = .bodyRaise) :
    (switchRun e s arms 0).2 = .bodyRaise ∧ switchRun e s arms 0 = runArm ee i b := by
  have h := switchRun_factor e s arms 0
  rw [hsel] at h
  simp only [Nat.sub_zero, harm] at h
  rw [h]; exact ⟨hraise, rfl⟩

/-- the same for any outcome of the body: the first accepting arm decides -/
theorem switch_runs_first_match_once (e : Env) (s : Val) (arms : List (Pat × ArmBody))
    (i : Nat) (ee : Env) (p : Pat) (b : ArmBody)
    (hsel : switchArm e s (arms.map Prod.fst) 0 = .ok (i, ee))
    (harm : arms[i]? = some (p, b)) :
    switchRun e s arms 0 = runArm ee i b := by
  have h := switchRun_factor e s arms 0
  rw [hsel] at h
  simpa only [Nat.sub_zero, harm] using h

/-- later arms are irrelevant once an arm has been selected -/
theorem switch_later_arms_irrelevant (e : Env) (s : Val) (p : Pat) (b : ArmBody)
    (rest rest' : List (Pat × ArmBody)) (ee : Env)
    (hacc : assign ([] :: e) p (some .any) s = (ee, .ok ())) :
    switchRun e s ((p, b) :: rest) 0 = switchRun e s ((p, b) :: rest') 0 := by
  simp [switchRun, hacc]

/-- **Impl = Spec** for `switch` with bodies (patterns whose `or` nodes bind nothing in their first
alternative, as for `switchArm_eq_spec`) -/
theorem switchRun_eq_spec (e : Env) (s : Val) (arms : List (Pat × ArmBody))
    (h : orCleanAll (arms.map Prod.fst)) :
    switchRun e s arms 0 = specSwitchRun e s arms := by
  rw [switchRun_factor, switchArm_eq_spec e s _ 0 h]
  unfold specSwitchRun
  cases specSwitch e s (arms.map Prod.fst) 0 with
  | none => rfl
  | some r =>
    obtain ⟨i, ee⟩ := r
    simp only [optToOut, Nat.sub_zero]
    cases arms[i]? with
    | none => rfl
    | some pb => rfl

/-- `switch (1) case 1 -> throw "boom" case _ -> "fallback"` raises -/
example : (switchRun [[]] (.int 1)
    [(.lit (.int 1), { stmts := [], raises := true }), (.underscore, { stmts := [], raises := false })] 0).2
    = .bodyRaise := by decide +kernel

end Noulith.C12
