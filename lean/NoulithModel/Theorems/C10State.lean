/-
C10 (continued) — the state a write leaves behind, in particular a write that RAISES:
`failed_write_preserves` (a failed `x<path> = v` / `pop x<path>` / `remove x<path>[j]` leaves the
variable exactly as it was), and the agreement of the state-returning model `setIndexS` with the
outcome model `setIndex` the other theorems are about.
Continues NoulithModel/Theorems/C10Write.lean (same namespace).
-/
import NoulithModel.Theorems.C10Write

namespace Noulith.C10
open Noulith Noulith.Index Noulith.PyIndex

/-! ## 9. `setIndexS` (state + ending) agrees with `setIndex` (outcome) -/

/-- "S says done exactly when the outcome model says ok, and then with the same value" -/
def Agrees (o : Out Val) (s : Val × WEnd) : Prop :=
  (s.2 = .done → o = .ok s.1) ∧ (s.2 ≠ .done → ∀ v, o ≠ .ok v)

theorem agrees_of_leaf (o : Out Val) (v : Val) (e : WEnd) (he : e ≠ .done) :
    Agrees o (match o with
      | .ok v' => (v', WEnd.done)
      | _ => (v, e)) := by
  cases o <;> simp [Agrees, he]

theorem isDone_iff (e : WEnd) : e.isDone = true ↔ e = .done := by cases e <;> simp [WEnd.isDone]

theorem mapS_agrees (f : Val → Out Val) (g : Val → Val × WEnd) (l : List Val)
    (h : ∀ e ∈ l, Agrees (f e) (g e)) :
    ((mapS g l).2 = .done → mapOut f l = .ok (mapS g l).1)
    ∧ ((mapS g l).2 ≠ .done → ∀ v, mapOut f l ≠ .ok v) := by
  induction l with
  | nil => simp [mapS, mapOut]
  | cons a t ih =>
    have ha := h a (by simp)
    have iht := ih fun e he => h e (by simp [he])
    simp only [mapS, mapOut]
    by_cases hd : (g a).2 = .done
    · have hd' : (g a).2.isDone = true := (isDone_iff _).2 hd
      simp only [hd', if_true, ha.1 hd, bind_ok]
      constructor
      · intro h2; simp [iht.1 h2]
      · intro h2 v
        cases hm : mapOut f t with
        | ok ys => exact absurd hm (iht.2 h2 ys)
        | throw => simp
        | panic => simp
    · have hd' : ¬ (g a).2.isDone = true := fun c => hd ((isDone_iff _).1 c)
      simp only [hd', if_false]
      constructor
      · intro h2; exact absurd h2 hd
      · intro _ v
        cases hf : f a with
        | ok y => exact absurd hf (ha.2 hd y)
        | throw => simp
        | panic => simp

theorem setIndex_stream (xs : List Val) (fi : Ix) (rest : List Ix) (value : Option Val) (every : Bool) :
    setIndex (.stream xs) (fi :: rest) value every = setIndex (.list xs) (fi :: rest) value every := by
  simp only [setIndex, bind_ok]
theorem setIndexS_stream (xs : List Val) (fi : Ix) (rest : List Ix) (value : Option Val) (every : Bool) :
    setIndexS (.stream xs) (fi :: rest) value every = setIndexS (.list xs) (fi :: rest) value every := by
  simp only [setIndexS, forceHack]

/-- **setIndexS_agrees** — the state-returning transcription of `set_index` ends `done` exactly when
the outcome transcription returns a value, and then both give the same value. -/
theorem setIndexS_agrees (ixs : List Ix) (lhs : Val) (value : Option Val) (every : Bool)
    (hok : DeepOk lhs) :
    Agrees (setIndex lhs ixs value every) (setIndexS lhs ixs value every) := by
  induction ixs generalizing lhs with
  | nil => simp [Agrees, setIndex, setIndexS]
  | cons fi rest ih =>
    have list_case : ∀ xs : List Val, lenOk xs.length → (∀ x ∈ xs, DeepOk x) →
        Agrees (setIndex (.list xs) (fi :: rest) value every)
          (setIndexS (.list xs) (fi :: rest) value every) := by
      intro xs hl hx
      cases fi with
      | index i =>
        simp only [setIndex, setIndexS, forceHack, bind_ok]
        cases h1 : pythonicIndex (xs.length : Int) i with
        | ok k =>
          have hr := index_in_bounds _ i k hl h1
          have hk : k.toNat < xs.length := by omega
          simp only [bind_ok, elemAt_eq xs k hr.1 hr.2, List.getElem?_eq_getElem hk, ofOpt, map_ok]
          have a := ih xs[k.toNat] (hx _ (List.getElem_mem hk))
          constructor
          · intro hd
            simp [a.1 hd, setAt_eq xs k _ hr.1 hr.2]
          · intro hd v
            cases hs : setIndex xs[k.toNat] rest value every with
            | ok y => exact absurd hs (a.2 hd y)
            | throw => simp
            | panic => simp
        | throw => simp [Agrees]
        | panic => simp [Agrees]
      | slice lo hi =>
        simp only [setIndex, setIndexS, forceHack, bind_ok]
        cases every with
        | false => simp [Agrees]
        | true =>
          simp only [if_true]
          cases h1 : pythonicSliceObj (xs.length : Int) lo hi with
          | ok p =>
            simp only [bind_ok]
            cases h2 : subRange xs p.1 p.2 with
            | ok mid =>
              simp only [bind_ok, map_ok]
              have hm : ∀ e ∈ mid, DeepOk e := by
                intro e he
                unfold subRange at h2
                split at h2
                · simp only [Out.ok.injEq] at h2
                  subst h2
                  exact hx e (List.mem_of_mem_drop (List.mem_of_mem_take he))
                · simp at h2
              have m := mapS_agrees (fun e => setIndex e rest value true)
                (fun e => setIndexS e rest value true) mid fun e he => ih e (hm e he)
              constructor
              · intro hd; simp [m.1 hd]
              · intro hd v
                cases hs : mapOut (fun e => setIndex e rest value true) mid with
                | ok y => exact absurd hs (m.2 hd y)
                | throw => simp
                | panic => simp
            | throw => simp [Agrees]
            | panic => simp [Agrees]
          | throw => simp [Agrees]
          | panic => simp [Agrees]
    cases hok with
    | list xs hl hx => exact list_case xs hl hx
    | stream xs hl hx => rw [setIndex_stream, setIndexS_stream]; exact list_case xs hl hx
    | str bs hl =>
      cases fi with
      | index i =>
        simp only [setIndexS, forceHack]
        cases h : setIndex (.str bs) (.index i :: rest) value every with
        | ok v => simp [Agrees]
        | throw => constructor <;> (repeat' split) <;> simp_all
        | panic => constructor <;> (repeat' split) <;> simp_all
      | slice lo hi =>
        simp only [setIndexS, forceHack]
        exact agrees_of_leaf _ _ _ (by decide)
    | vec xs hl => simp only [setIndexS, forceHack]; exact agrees_of_leaf _ _ _ (by decide)
    | bytes bs hl => simp only [setIndexS, forceHack]; exact agrees_of_leaf _ _ _ (by decide)
    | null => simp only [setIndexS, forceHack]; exact agrees_of_leaf _ _ _ (by decide)
    | int v => simp only [setIndexS, forceHack]; exact agrees_of_leaf _ _ _ (by decide)
    | num t => simp only [setIndexS, forceHack]; exact agrees_of_leaf _ _ _ (by decide)
    | other t => simp only [setIndexS, forceHack]; exact agrees_of_leaf _ _ _ (by decide)
    | rep x => simp [Agrees, setIndex, setIndexS, forceHack]
    | cyc xs pos _ _ _ => simp [Agrees, setIndex, setIndexS, forceHack]

/-! ## 10. `failed_write_preserves` -/

/-- no stream anywhere inside (a stream that is indexed on the left is forced into a list — same
elements — before anything else happens, see `failed_write_forces_stream`) -/
inductive StreamFree : Val → Prop
  | null : StreamFree .null
  | int (v) : StreamFree (.int v)
  | num (t) : StreamFree (.num t)
  | other (t) : StreamFree (.other t)
  | rep (x) : StreamFree (.rep x)
  | cyc (xs pos) : StreamFree (.cyc xs pos)
  | str (bs) : StreamFree (.str bs)
  | bytes (bs) : StreamFree (.bytes bs)
  | vec (xs) : StreamFree (.vec xs)
  | list (xs) : (∀ x ∈ xs, StreamFree x) → StreamFree (.list xs)

theorem elemAt_getElem {α} {xs : List α} {k : Int} {a : α} (h : elemAt xs k = .ok a) :
    ∃ hk : k.toNat < xs.length, xs[k.toNat] = a := by
  unfold elemAt at h
  split at h
  · simp at h
  · cases h2 : xs[k.toNat]? with
    | none => simp [h2] at h
    | some x =>
      simp [h2] at h
      obtain ⟨hk, hx⟩ := List.getElem?_eq_some_iff.1 h2
      exact ⟨hk, by rw [hx, h]⟩

/-- **failed_write_preserves** — an index assignment `x[i₁]…[iₙ] = v` (any path, any value, also the
"drop" write of an operator assignment) that raises — index out of range at any level, wrong index
kind, wrong value kind or length, a slice step without `every` — leaves `x` exactly as it was: on
every sequence kind, strings included.  (The one other ending, `corrupted`, is the UTF-8 failure of
the string arm, a recorded finding.) -/
theorem failed_write_preserves (ixs : List Ix) (lhs : Val) (value : Option Val)
    (hsf : StreamFree lhs) (hf : (setIndexS lhs ixs value false).2 = .failed) :
    (setIndexS lhs ixs value false).1 = lhs := by
  induction ixs generalizing lhs with
  | nil => simp [setIndexS] at hf
  | cons fi rest ih =>
    cases hsf with
    | list xs hx =>
      cases fi with
      | index i =>
        simp only [setIndexS, forceHack] at hf ⊢
        cases h1 : pythonicIndex (xs.length : Int) i with
        | ok k =>
          simp only [h1, bind_ok] at hf ⊢
          cases h2 : elemAt xs k with
          | ok old =>
            simp only [h2, map_ok] at hf ⊢
            obtain ⟨hk, hold⟩ := elemAt_getElem h2
            have := ih old (hold ▸ hx _ (List.getElem_mem hk)) hf
            rw [this, ← hold]
            simp
          | throw => simp
          | panic => simp
        | throw => simp
        | panic => simp
      | slice lo hi => simp [setIndexS, forceHack]
    | str bs =>
      cases fi with
      | index i =>
        simp only [setIndexS, forceHack] at hf ⊢
        cases h : setIndex (.str bs) (.index i :: rest) value false with
        | ok v => simp only [h] at hf; simp at hf
        | throw => simp only [h] at hf ⊢; (repeat' split) <;> rfl
        | panic => simp only [h] at hf ⊢; (repeat' split) <;> rfl
      | slice lo hi =>
        simp only [setIndexS, forceHack] at hf ⊢
        split <;> simp_all
    | rep x => simp [setIndexS, forceHack]
    | cyc xs pos => simp [setIndexS, forceHack]
    | null => simp only [setIndexS, forceHack] at hf ⊢; split <;> simp_all
    | int v => simp only [setIndexS, forceHack] at hf ⊢; split <;> simp_all
    | num t => simp only [setIndexS, forceHack] at hf ⊢; split <;> simp_all
    | other t => simp only [setIndexS, forceHack] at hf ⊢; split <;> simp_all
    | bytes bs => simp only [setIndexS, forceHack] at hf ⊢; split <;> simp_all
    | vec xs => simp only [setIndexS, forceHack] at hf ⊢; split <;> simp_all

/-- a stream variable that is indexed on the left is a list of the same elements afterwards, also
when the write raises -/
theorem failed_write_forces_stream (xs : List Val) (fi : Ix) (rest : List Ix) (value : Option Val)
    (hx : ∀ x ∈ xs, StreamFree x)
    (hf : (setIndexS (.stream xs) (fi :: rest) value false).2 = .failed) :
    (setIndexS (.stream xs) (fi :: rest) value false).1 = .list xs := by
  rw [setIndexS_stream] at hf ⊢
  exact failed_write_preserves _ _ _ (.list xs hx) hf

/-- the string case the property names: `s[i] = v` with an index that is rejected (out of range
however large, non-integer, non-numeric) leaves `s` unchanged and is a plain failure -/
theorem failed_string_write_preserves (bs : List Nat) (i v : Val) (hl : lenOk bs.length)
    (hi : ∀ k, pythonicIndex bs.length i ≠ .ok k) :
    setIndexS (.str bs) [.index i] (some v) false = (.str bs, .failed) := by
  have hthrow : pythonicIndex (bs.length : Int) i = .throw := by
    cases h : pythonicIndex (bs.length : Int) i with
    | ok k => exact absurd h (hi k)
    | throw => rfl
    | panic => exact absurd h (index_never_panics _ i hl)
  simp only [setIndexS, forceHack, setIndex, bind_ok, List.isEmpty_nil, if_true]
  cases v with
  | str vb =>
    cases vb with
    | nil => simp
    | cons b t =>
      cases t with
      | nil => simp [hthrow]
      | cons _ _ => simp
  | _ => simp

example : setIndexS (.str [0x61, 0x62, 0x63]) [.index (.int 3)] (some (.str [0x78])) false
    = (.str [0x61, 0x62, 0x63], .failed) := by rfl

/-- `pop x<path>` / `remove x<path>[j]` that raises leaves `x` as it was -/
theorem failed_modify_preserves (ixs : List Ix) (lhs : Val) (f : Val → Out (Val × Val))
    (hsf : StreamFree lhs) (hf : (modPathS lhs ixs f).2 = none) :
    (modPathS lhs ixs f).1 = lhs := by
  induction ixs generalizing lhs with
  | nil =>
    simp only [modPathS] at hf ⊢
    split <;> simp_all
  | cons fi rest ih =>
    cases hsf with
    | list xs hx =>
      cases fi with
      | index i =>
        simp only [modPathS, forceHack] at hf ⊢
        cases h1 : pythonicIndex (xs.length : Int) i with
        | ok k =>
          simp only [h1, bind_ok] at hf ⊢
          cases h2 : elemAt xs k with
          | ok old =>
            simp only [h2, map_ok] at hf ⊢
            obtain ⟨hk, hold⟩ := elemAt_getElem h2
            have := ih old (hold ▸ hx _ (List.getElem_mem hk)) hf
            rw [this, ← hold]
            simp
          | throw => simp
          | panic => simp
        | throw => simp
        | panic => simp
      | slice lo hi => simp [modPathS, forceHack]
    | rep x => simp [modPathS, forceHack]
    | cyc xs pos => simp [modPathS, forceHack]
    | _ => simp [modPathS, forceHack]

end Noulith.C10
