/-
C12, part 4 — infix operator patterns mixing precedence levels.

`resolveChain_eq_spec`: for every operator chain (any length, any mix of levels, associativities and
merging comparisons) the pattern `LvalueChainEvaluator` builds is the tree the expression grammar
builds for the same text (precedence climbing) — C03's simulation lemmas instantiated at patterns.
`mixed_times_plus_sound`: the constructor inverse across two levels (`x * a + b`, `b + x * a`, …):
what the inner pattern binds, put back through the expression, `==` the matched value.
The examples at the end replay the seeded class (`n * 2 + 1 := 7`, `1 + n * 2 := 8`, `0 < n + 1`,
`n + 1 < 10`) in the kernel.
-/
import NoulithModel.Theorems.C12Inverse
import NoulithModel.Impl.PatternChain
import NoulithModel.Lemmas.C03Climb
import NoulithModel.Lemmas.C03Sim

namespace Noulith.C12
open Noulith.Chain

/-- **operator patterns are grouped as the expression of the same text**: for every operator
chain `p0 f1 p1 f2 p2 …` (any number of operators, any mix of precedence levels and
associativities, comparison operators merging) the pattern that `LvalueChainEvaluator` builds is the
tree precedence climbing builds for the expression grammar — the instance of C03's
`evalChain_eq_climb` at patterns. -/
theorem resolveChain_eq_spec (first : Pat) (ops : List (Bi × Pat)) :
    resolveChain first ops = specResolveChain first ops := by
  have h : evalChain chainRun biTryChain ((id : Pat → Pat) (chainOf first ops).first)
      (givenOps (id : Pat → Pat) (chainOf first ops).rest)
      = semM chainRun biTryChain (id : Pat → Pat) (climbTree biTryChain (chainOf first ops)) := by
    rw [climbTree_eq_shunt]; exact evalChain_eq_sem chainRun biTryChain id (chainOf first ops)
  unfold resolveChain specResolveChain
  rw [← h]
  simp [chainOf, givenOps, List.map_map, Function.comp_def]

theorem exact_eq_of_veq (x y : Val) (p q : Rat) (hx : exactNum x = some p) (hy : exactNum y = some q)
    (h : veq x y = true) : p = q := by
  cases x <;> simp [exactNum] at hx <;> cases y <;> simp [exactNum] at hy <;> simp [veq] at h <;>
    subst hx <;> subst hy
  · rw [h]
  · exact h
  · exact h
  · exact h

theorem plus_destructure_exact (v a : Val) (parts : List Val)
    (h : destructure .plus v [some a, none] = .ok parts ∨ destructure .plus v [none, some a] = .ok parts) :
    ∃ xv xa, exactNum v = some xv ∧ exactNum a = some xa := by
  have key : ∀ F : Val → Out (List Val),
      (if isNum v && isNum a then
        match arith (· - ·) v a with
        | .ok diff => F diff
        | r => r.map fun _ => []
       else .throw) = Out.ok parts → ∃ xv xa, exactNum v = some xv ∧ exactNum a = some xa := by
    intro F hk
    split at hk
    · cases har : arith (· - ·) v a with
      | ok diff => exact arith_ok_exact _ _ _ _ har
      | throw => simp [har, Out.map] at hk
      | panic => simp [har, Out.map] at hk
    · simp at hk
  rcases h with h | h <;> simp only [destructure] at h <;> exact key _ h

theorem construct_plus_exact (b y x : Val) (xb xy : Rat) (hb : exactNum b = some xb) (hy : exactNum y = some xy)
    (h : construct .plus [b, y] = .ok x) : exactNum x = some (xb + xy) := by
  simp only [construct] at h
  exact (arith_exact (· + ·) b y x xb xy hb hy (den_one_add xb xy) h).1

theorem construct_times_exact (a k y : Val) (xa xk : Rat) (ha : exactNum a = some xa) (hk : exactNum k = some xk)
    (h : construct .times [a, k] = .ok y) : exactNum y = some (xa * xk) := by
  simp only [construct] at h
  exact (arith_exact (· * ·) a k y xa xk ha hk (den_one_mul xa xk) h).1

theorem construct_ok_exact (f : Bi) (hf : f = .plus ∨ f = .times) (a c x : Val) (h : construct f [a, c] = .ok x) :
    ∃ p q, exactNum a = some p ∧ exactNum c = some q := by
  rcases hf with rfl | rfl <;> simp only [construct] at h <;> exact arith_ok_exact _ _ _ _ h

/-- **`constructor_inverse` across two precedence levels** (`x * a + b`, `b + x * a`, `a * x + b`, …
once grouped): if the outer `+` pattern hands `d` to the inner `*` pattern and that binds `k`, then
the expression `b + a * k` evaluates to (a value `==`) the matched value. -/
theorem mixed_times_plus_sound (v a b d k : Val)
    (h1 : destructure .plus v [none, some b] = .ok [d, b] ∨ destructure .plus v [some b, none] = .ok [b, d])
    (h2 : destructure .times d [none, some a] = .ok [k, a] ∨ destructure .times d [some a, none] = .ok [a, k]) :
    ∃ y x, construct .times [a, k] = .ok y ∧ construct .plus [b, y] = .ok x ∧ veq x v = true := by
  -- the outer level
  have o : ∃ x1 xv, construct .plus [b, d] = .ok x1 ∧ veq x1 v = true ∧ exactNum v = some xv := by
    rcases h1 with h | h
    · obtain ⟨xv, _, hxv, _⟩ := plus_destructure_exact v b _ (Or.inr h)
      obtain ⟨d', x1, q, hp, hc1, hv1, _, _⟩ := plus_inverse_sound v b _ (Or.inr h)
      have : d' = d := by rcases hp with hp | hp <;> simp at hp <;> simp [hp]
      subst this; exact ⟨x1, xv, hc1, hv1, hxv⟩
    · obtain ⟨xv, _, hxv, _⟩ := plus_destructure_exact v b _ (Or.inl h)
      obtain ⟨d', x1, q, hp, hc1, hv1, _, _⟩ := plus_inverse_sound v b _ (Or.inl h)
      have : d' = d := by rcases hp with hp | hp <;> simp at hp <;> simp [hp]
      subst this; exact ⟨x1, xv, hc1, hv1, hxv⟩
  -- the inner level
  have i : ∃ y, construct .times [a, k] = .ok y ∧ veq y d = true := by
    rcases h2 with h | h
    · obtain ⟨k', y, hp, _, hc2, hv2⟩ := times_inverse_sound d a _ (Or.inr h)
      have : k' = k := by rcases hp with hp | hp <;> simp at hp <;> simp [hp]
      subst this; exact ⟨y, hc2, hv2⟩
    · obtain ⟨k', y, hp, _, hc2, hv2⟩ := times_inverse_sound d a _ (Or.inl h)
      have : k' = k := by rcases hp with hp | hp <;> simp at hp <;> simp [hp]
      subst this; exact ⟨y, hc2, hv2⟩
  obtain ⟨x1, xv, hc1, hv1, hxv⟩ := o
  obtain ⟨y, hc2, hv2⟩ := i
  obtain ⟨xb, xd, hxb, hxd⟩ := construct_ok_exact .plus (Or.inl rfl) b d x1 hc1
  obtain ⟨xa, xk, hxa, hxk⟩ := construct_ok_exact .times (Or.inr rfl) a k y hc2
  have hy := construct_times_exact a k y xa xk hxa hxk hc2
  have hx1 := construct_plus_exact b d x1 xb xd hxb hxd hc1
  have hyd : xa * xk = xd := exact_eq_of_veq y d _ _ hy hxd hv2
  have hxv1 : xb + xd = xv := exact_eq_of_veq x1 v _ _ hx1 hxv hv1
  have hsum : ∃ x, construct .plus [b, y] = .ok x := by
    simp only [construct]; unfold arith; simp [hxb, hy]
  obtain ⟨x, hx⟩ := hsum
  have hxe := construct_plus_exact b y x xb (xa * xk) hxb hy hx
  refine ⟨y, x, hc2, hx, ?_⟩
  apply veq_of_exact x v xv _ hxv
  rw [hxe, hyd, hxv1]

/-! ### the seeded class, kernel-checked: mixed-precedence patterns end to end -/

/-- `n * 2 + 1` is the pattern `(n * 2) + 1`, and `1 + n * 2` is `1 + (n * 2)` -/
example : resolveChain (.ident 0 []) [(.times, .lit (.int 2)), (.plus, .lit (.int 1))] =
    .ok (.destr .plus [.destr .times [.ident 0 [], .lit (.int 2)], .lit (.int 1)]) := by rfl
example : resolveChain (.lit (.int 1)) [(.plus, .ident 0 []), (.times, .lit (.int 2))] =
    .ok (.destr .plus [.lit (.int 1), .destr .times [.ident 0 [], .lit (.int 2)]]) := by rfl
/-- `0 < n + 1` is `0 < (n + 1)`; `n + 1 < 10` is `(n + 1) < 10`; `1 < x <= 5` stays one chained comparison -/
example : resolveChain (.lit (.int 0)) [(.cmp [.lt], .ident 0 []), (.plus, .lit (.int 1))] =
    .ok (.destr (.cmp [.lt]) [.lit (.int 0), .destr .plus [.ident 0 [], .lit (.int 1)]]) := by rfl
example : resolveChain (.ident 0 []) [(.plus, .lit (.int 1)), (.cmp [.lt], .lit (.int 10))] =
    .ok (.destr (.cmp [.lt]) [.destr .plus [.ident 0 [], .lit (.int 1)], .lit (.int 10)]) := by rfl
example : resolveChain (.lit (.int 1)) [(.cmp [.lt], .ident 0 []), (.cmp [.le], .lit (.int 5))] =
    .ok (.destr (.cmp [.lt, .le]) [.lit (.int 1), .ident 0 [], .lit (.int 5)]) := by rfl

def chainPat (first : Pat) (ops : List (Bi × Pat)) : Pat :=
  match resolveChain first ops with
  | .ok p => p
  | _ => .splat .underscore

/-- `n * 2 + 1 := 7` binds `n = 3`; `1 + n * 2 := 8` raises; `0 < n + 1 := 1` binds `n = 0` -/
example : (assign [[]] (chainPat (.ident 0 []) [(.times, .lit (.int 2)), (.plus, .lit (.int 1))]) (some .any) (.int 7)).2 = .ok () := by decide +kernel
example : ((assign [[]] (chainPat (.ident 0 []) [(.times, .lit (.int 2)), (.plus, .lit (.int 1))]) (some .any) (.int 7)).1.get? 0).map (fun c => c.val matches .int 3) = some true := by decide +kernel
example : (assign [[]] (chainPat (.lit (.int 1)) [(.plus, .ident 0 []), (.times, .lit (.int 2))]) (some .any) (.int 8)).2 = .throw := by decide +kernel
example : (assign [[]] (chainPat (.lit (.int 0)) [(.cmp [.lt], .ident 0 []), (.plus, .lit (.int 1))]) (some .any) (.int 1)).2 = .ok () := by decide +kernel

end Noulith.C12
