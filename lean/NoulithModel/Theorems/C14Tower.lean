/-
C14, part 3 — the no-panic theorems of the numeric tower (separate module: the tower model and the
comparison model both define `Noulith.NNum`, so they cannot be imported together).
-/
import NoulithModel.Theorems.C07

namespace Noulith.C14Tower

theorem tower_operators_no_panic : type_of% @Noulith.C07.binop_no_panic := @Noulith.C07.binop_no_panic
theorem tower_unary_no_panic : type_of% @Noulith.C07.unop_no_panic := @Noulith.C07.unop_no_panic
theorem vectorised_operators_no_panic : type_of% @Noulith.C07.vbinop_no_panic := @Noulith.C07.vbinop_no_panic

end Noulith.C14Tower
