/-
C11, part 4 — infinite streams: `iota`, `repeat`, `cycle`, `iterate` (and a range with step 0 whose
start is before its end).  Every finite prefix, every non-negative index and every slice with
non-negative bounds equals the defining recurrence; `len` reports infinity; dropping a prefix gives
the shifted recurrence.
-/
import NoulithModel.Theorems.C11Adapt

namespace Noulith.C11
open Noulith Noulith.Stream Noulith.StreamSpec

/-- the states `S 0, S 1, …` are the successive states of a stream producing `g 0, g 1, …` -/
structure Recur {σ β : Type} (next : σ → Option (β × σ)) (S : Nat → σ) (g : Nat → β) : Prop where
  step : ∀ i, next (S i) = some (g i, S (i + 1))

namespace Recur
variable {σ β : Type} {next : σ → Option (β × σ)} {S : Nat → σ} {g : Nat → β}

theorem nth_eq (h : Recur next S g) : ∀ i k, nth next i (S k) = some (g (k + i)) := by
  intro i
  induction i with
  | zero => intro k; unfold nth; simp [h.step k]
  | succ i ih =>
    intro k
    unfold nth
    simp only [h.step k]
    rw [ih (k + 1)]
    congr 2; omega

theorem dropN_eq (h : Recur next S g) : ∀ n k, dropN next n (S k) = S (k + n) := by
  intro n
  induction n with
  | zero => intro k; rfl
  | succ n ih =>
    intro k
    simp only [dropN, h.step k]
    rw [ih (k + 1)]
    congr 1; omega

theorem takeN_eq (h : Recur next S g) : ∀ n k, takeN next n (S k) = (List.range n).map fun i => g (k + i) := by
  intro n
  induction n with
  | zero => intro k; rfl
  | succ n ih =>
    intro k
    simp only [takeN, h.step k, ih (k + 1), List.range_succ_eq_map, List.map_cons, List.map_map]
    congr 1
    apply List.map_congr_left
    intro i _
    simp only [Function.comp]
    congr 1; omega

/-- **every non-negative index** of the trait-default indexing is the recurrence -/
theorem index_eq (h : Recur next S g) (force : σ → R (List β)) (i : Nat) :
    defaultIndex next force (S 0) (i : Int) = .ok (g i) := by
  unfold defaultIndex
  have h0 : (0 : Int) ≤ (i : Int) := by omega
  simp [h0, h.nth_eq i 0]

/-- **every slice with non-negative bounds** is the corresponding stretch of the recurrence -/
theorem slice_eq (h : Recur next S g) (force : σ → R (List β)) (lo hi : Nat) :
    defaultSlice next force (S 0) (some (lo : Int)) (some (hi : Int)) =
      .ok (.list ((List.range (hi - lo)).map fun i => g (lo + i))) := by
  unfold defaultSlice
  have h0 : (0 : Int) ≤ (lo : Int) ∧ (0 : Int) ≤ (hi : Int) := by omega
  simp only [Option.getD_some, h0, and_self, if_true, Int.toNat_natCast]
  rw [h.dropN_eq lo 0, h.takeN_eq]
  simp

/-- **dropping a prefix** (`s[n:]`, `s drop n`) yields the state of the shifted recurrence -/
theorem tail_eq (h : Recur next S g) (force : σ → R (List β)) (lo : Nat) :
    defaultSlice next force (S 0) (some (lo : Int)) none = .ok (.strm (S lo)) := by
  unfold defaultSlice
  have h0 : (0 : Int) ≤ (lo : Int) := by omega
  simp only [Option.getD_some, h0, if_true, Int.toNat_natCast]
  rw [h.dropN_eq lo 0]
  simp

theorem shift (h : Recur next S g) (n : Nat) : Recur next (fun i => S (n + i)) (fun i => g (n + i)) :=
  ⟨fun i => by simpa [Nat.add_assoc] using h.step (n + i)⟩

/-- `x in s` finds an element that occurs -/
theorem mem_found [DecidableEq β] (h : Recur next S g) (i : Nat) :
    ∀ k fuel, i ≤ fuel → memLoop next (g (k + i)) fuel (S k) = some true := by
  induction i with
  | zero =>
    intro k fuel _
    unfold memLoop
    simp [h.step k]
  | succ i ih =>
    intro k fuel hf
    unfold memLoop
    simp only [h.step k]
    by_cases he : g k = g (k + (i + 1))
    · simp [he]
    · simp only [he, if_false]
      cases fuel with
      | zero => omega
      | succ fuel =>
        have := ih (k + 1) fuel (by omega)
        simpa [Nat.add_assoc, Nat.add_comm 1 i] using this

end Recur

/-! ## the four constructors -/

/-- `iota(a)` = `a, a+1, a+2, …` -/
theorem iota_recur (a : Int) :
    Recur Range.next (fun i => (⟨a + i, none, 1⟩ : Range)) (fun i => a + i) :=
  ⟨fun i => by
    simp only [Range.next, Range.empty]
    simp
    omega⟩

theorem iota_len (a : Int) : Range.ops.len (Range.iota a) = .ok none := rfl

theorem iota_index (a : Int) (i : Nat) : Range.ops.index (Range.iota a) (i : Int) = .ok (a + i) := by
  have h := (iota_recur a).index_eq (defaultForce Range.next Range.bound) i
  simp only [Int.natCast_zero, Int.add_zero] at h
  exact h

theorem iota_slice (a : Int) (lo hi : Nat) :
    Range.ops.slice (Range.iota a) (some (lo : Int)) (some (hi : Int)) =
      .ok (.list ((List.range (hi - lo)).map fun (i : Nat) => a + ((lo + i : Nat) : Int))) := by
  have h := (iota_recur a).slice_eq (defaultForce Range.next Range.bound) lo hi
  simp only [Int.natCast_zero, Int.add_zero] at h
  exact h

theorem iota_drop (a : Int) (n : Nat) :
    Range.ops.slice (Range.iota a) (some (n : Int)) none = .ok (.strm (Range.iota (a + n))) := by
  have h := (iota_recur a).tail_eq (defaultForce Range.next Range.bound) n
  simp only [Int.natCast_zero, Int.add_zero] at h
  exact h

/-- a range with step 0 whose start is before its end repeats its start for ever, and its `len`
says so -/
theorem range_zero_step_recur (a e : Int) (h : a < e) :
    Recur Range.next (fun _ => (⟨a, some e, 0⟩ : Range)) (fun _ => a) :=
  ⟨fun _ => by
    have : ¬ a ≥ e := by omega
    simp [Range.next, Range.empty, this]⟩

theorem range_zero_step_len (a e : Int) (h : a < e) : Range.len ⟨a, some e, 0⟩ = none := by
  simp [Range.len, h]

/-- `repeat(x)` -/
theorem repeat_recur {α : Type} (x : α) : Recur (Repeat.next (α := α)) (fun _ => x) (fun _ => x) :=
  ⟨fun _ => rfl⟩

theorem repeat_len {α : Type} (x : α) : (Repeat.ops (α := α)).len x = .ok none := rfl
theorem repeat_index {α : Type} (x : α) (i : Int) : (Repeat.ops (α := α)).index x i = .ok x := rfl

/-- every slice of `repeat(x)` with non-negative bounds is `hi - lo` copies of `x` -/
theorem repeat_slice {α : Type} (x : α) (lo hi : Nat) :
    (Repeat.ops (α := α)).slice x (some (lo : Int)) (some (hi : Int)) =
      .ok (.list (List.replicate (hi - lo) x)) := by
  change Repeat.slice x (some (lo : Int)) (some (hi : Int)) = _
  unfold Repeat.slice
  have h1 : ¬ (lo : Int) < 0 := by omega
  have h2 : ¬ (hi : Int) < 0 := by omega
  simp only [h1, h2, if_false, decide_false]
  congr 3
  omega

theorem repeat_drop {α : Type} (x : α) (n : Nat) :
    (Repeat.ops (α := α)).slice x (some (n : Int)) none = .ok (.strm x) := by
  change Repeat.slice x (some (n : Int)) none = _
  unfold Repeat.slice
  have h1 : ¬ (n : Int) < 0 := by omega
  simp [h1]

/-- `cycle(xs)` from position `pos`: element `i` is `xs[(pos + i) mod n]` -/
theorem cycle_recur {α : Type} [Inhabited α] (base : List α) (pos : Nat) (hne : base ≠ []) :
    Recur (Cycle.next (α := α)) (fun i => ⟨base, (pos + i) % base.length⟩)
      (fun i => base.getD ((pos + i) % base.length) default) :=
  ⟨fun i => by
    have hpos : 0 < base.length := List.length_pos_iff.mpr hne
    have hlt : (pos + i) % base.length < base.length := Nat.mod_lt _ hpos
    simp only [Cycle.next, List.getElem?_eq_getElem hlt, List.getD_eq_getElem?_getD, Option.getD_some,
      Option.some.injEq, Prod.mk.injEq, true_and]
    congr 1
    rw [Nat.add_mod, Nat.mod_mod, ← Nat.add_mod]
    rfl⟩

theorem cycle_len {α : Type} (c : Cycle α) : (Cycle.ops (α := α)).len c = .ok none := rfl

/-- `Cycle::pythonic_index_isize`: for every index (also negative ones, read cyclically) -/
theorem cycle_index {α : Type} (base : List α) (pos : Nat) (hne : base ≠ []) (i : Int) :
    ∃ x, (Cycle.ops (α := α)).index ⟨base, pos⟩ i = .ok x ∧
      base[(((pos : Int) + i) % (base.length : Int)).toNat]? = some x := by
  have hpos : 0 < base.length := List.length_pos_iff.mpr hne
  have h1 : 0 ≤ ((pos : Int) + i) % (base.length : Int) := Int.emod_nonneg _ (by omega)
  have h2 : ((pos : Int) + i) % (base.length : Int) < (base.length : Int) := Int.emod_lt_of_pos _ (by omega)
  have hlt : (((pos : Int) + i) % (base.length : Int)).toNat < base.length := by omega
  refine ⟨base[(((pos : Int) + i) % (base.length : Int)).toNat], ?_, List.getElem?_eq_getElem hlt⟩
  show Cycle.index ⟨base, pos⟩ i = _
  simp [Cycle.index, List.getElem?_eq_getElem hlt]

/-- for a non-negative index the cyclic formula is the recurrence `xs[(pos + i) mod n]` -/
theorem cycle_index_nonneg {α : Type} (base : List α) (pos i : Nat) :
    (((pos : Int) + (i : Int)) % (base.length : Int)).toNat = (pos + i) % base.length := by
  have : ((pos : Int) + (i : Int)) % (base.length : Int) = (((pos + i) % base.length : Nat) : Int) := by
    rw [Int.natCast_emod]; simp
  rw [this]; exact Int.toNat_natCast _

/-- `iterate(f, a)` = `a, f a, f (f a), …` -/
theorem iterN_succ_right {α} (f : α → α) (n : Nat) (a : α) : iterN f (n + 1) a = f (iterN f n a) := by
  induction n generalizing a with
  | zero => rfl
  | succ n ih => simp only [iterN] at ih ⊢; rw [ih]

theorem iterate_recur {α : Type} (f : α → α) (a : α) :
    Recur (Iterate.next f) (fun i => iterN f i a) (fun i => iterN f i a) :=
  ⟨fun i => by simp [Iterate.next, iterN_succ_right]⟩

theorem iterate_len {α : Type} (f : α → α) (a : α) : (Iterate.ops f).len a = .ok none := rfl

theorem iterate_index {α : Type} (f : α → α) (a : α) (i : Nat) :
    (Iterate.ops f).index a (i : Int) = .ok (iterN f i a) := by
  have h := (iterate_recur f a).index_eq (defaultForce (Iterate.next f) fun _ => none) i
  exact h

theorem iterate_slice {α : Type} (f : α → α) (a : α) (lo hi : Nat) :
    (Iterate.ops f).slice a (some (lo : Int)) (some (hi : Int)) =
      .ok (.list ((List.range (hi - lo)).map fun i => iterN f (lo + i) a)) := by
  have h := (iterate_recur f a).slice_eq (defaultForce (Iterate.next f) fun _ => none) lo hi
  exact h

end Noulith.C11
