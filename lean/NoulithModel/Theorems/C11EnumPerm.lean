/-
C11, part 8 — `permutations(xs)` enumerates the lexicographic closed form, in that order, for every
input length.

Route: `Permutations::next` lowers the factorial-number-system rank by exactly one and keeps the
entries (C11PermStep); the rank is injective on the permutations of a set and the closed form has
the ranks `n!−1, …, 0` (Lemmas/PermLex, shared with C13); so the successive index vectors from the
identity *are* the closed form.
-/
import NoulithModel.Theorems.C11Enum
import NoulithModel.Lemmas.PermLex

namespace Noulith.C11
open Noulith Noulith.Stream Noulith.StreamSpec

namespace PermT

/-- what `Permutations::next` does to an index vector without repetition, as a list decomposition:
`v = p ++ x :: (d1 ++ y :: d2)` with the tail strictly descending and `y` its smallest entry above
`x`; the successor is `p ++ y :: reverse (d1 ++ x :: d2)` -/
theorem advance_decomposition (v : List Nat) (hnd : v.Nodup) (v' : List Nat)
    (hv' : Perm.advance v = some v') :
    ∃ p d1 d2 x y, v = p ++ x :: (d1 ++ y :: d2) ∧ v' = p ++ y :: (d1 ++ x :: d2).reverse ∧
      (∀ a ∈ d1, a > y) ∧ y > x ∧ (∀ b ∈ d2, b < x) ∧ (d1 ++ y :: d2).Pairwise (· > ·) := by
  cases hs : Perm.scan v with
  | none => simp [Perm.advance, hs] at hv'
  | some pr =>
      obtain ⟨inc, linc⟩ := pr
      have inv := scan_inv v (v.length - 1)
      have hs' := hs
      unfold Perm.scan at hs'
      rw [hs'] at inv
      obtain ⟨h1, h2, h3, h4, h5, h6, h7⟩ := inv
      have hinc : inc < v.length := by omega
      have hlinc : linc < v.length := by omega
      -- decompose v = p ++ x :: rest, rest = d1 ++ y :: d2
      have e1 : v = v.take inc ++ v[inc] :: v.drop (inc + 1) := by
        rw [← List.drop_eq_getElem_cons hinc, List.take_append_drop]
      have hj : linc - inc - 1 < (v.drop (inc + 1)).length := by rw [List.length_drop]; omega
      have e2 : v.drop (inc + 1) =
          (v.drop (inc + 1)).take (linc - inc - 1) ++
            (v.drop (inc + 1))[linc - inc - 1] :: (v.drop (inc + 1)).drop (linc - inc - 1 + 1) := by
        rw [← List.drop_eq_getElem_cons hj, List.take_append_drop]
      obtain ⟨rest, hrest⟩ : ∃ rest, v.drop (inc + 1) = rest := ⟨_, rfl⟩
      simp only [hrest] at e1 e2 hj
      obtain ⟨p, hp⟩ : ∃ p, v.take inc = p := ⟨_, rfl⟩
      obtain ⟨x, hx⟩ : ∃ x, v[inc] = x := ⟨_, rfl⟩
      obtain ⟨d1, hd1⟩ : ∃ d1, rest.take (linc - inc - 1) = d1 := ⟨_, rfl⟩
      obtain ⟨y, hy⟩ : ∃ y, rest[linc - inc - 1] = y := ⟨_, rfl⟩
      obtain ⟨d2, hd2⟩ : ∃ d2, rest.drop (linc - inc - 1 + 1) = d2 := ⟨_, rfl⟩
      rw [hp, hx] at e1
      rw [hd1, hy, hd2] at e2
      have hpl : p.length = inc := by rw [← hp, List.length_take]; omega
      have hd1l : d1.length = linc - inc - 1 := by rw [← hd1, List.length_take]; omega
      have hxg : v.getD inc 0 = x := by
        rw [← hx]; simp [List.getD_eq_getElem?_getD, List.getElem?_eq_getElem hinc]
      have hrestg : ∀ t, rest.getD t 0 = v.getD (inc + 1 + t) 0 := by
        intro t
        rw [← hrest]
        simp [List.getD_eq_getElem?_getD, List.getElem?_drop]
      have hyg : v.getD linc 0 = y := by
        rw [← hy]
        have := hrestg (linc - inc - 1)
        rw [show inc + 1 + (linc - inc - 1) = linc by omega] at this
        rw [← this]
        simp [List.getD_eq_getElem?_getD, List.getElem?_eq_getElem hj]
      -- the tail is strictly descending
      have hrl : rest.length = v.length - (inc + 1) := by rw [← hrest, List.length_drop]
      have hge : rest.Pairwise (· ≥ ·) := by
        apply pairwise_of_adjacent
        intro t ht
        rw [hrestg t, hrestg (t + 1)]
        have := h3 (inc + 1 + t) (by omega) (by omega)
        rw [show inc + 1 + t + 1 = inc + 1 + (t + 1) by omega] at this
        exact this
      have hndrest : rest.Nodup := by
        rw [← hrest]; exact hnd.sublist (List.drop_sublist _ _)
      have hdesc : rest.Pairwise (· > ·) := by
        have := hge.and hndrest
        exact this.imp (fun h => by omega)
      -- x does not occur in the tail
      have hxrest : x ∉ rest := by
        have hnd' := hnd
        rw [e1, List.nodup_append] at hnd'
        have := hnd'.2.1
        rw [List.nodup_cons] at this
        exact this.1
      rw [e2] at hdesc hxrest
      have hdesc2 := hdesc
      rw [List.pairwise_append] at hdesc2
      have hA : ∀ a ∈ d1, a > y := fun a ha => hdesc2.2.2 a ha y (List.mem_cons_self ..)
      have hB : y > x := by rw [← hyg, ← hxg]; exact h6
      have hC : ∀ b ∈ d2, b < x := by
        intro b hb
        have hbr : b ∈ rest.drop (linc - inc - 1 + 1) := by rw [hd2]; exact hb
        obtain ⟨t, ht1, ht2, ht3⟩ := mem_drop_getD hbr
        have hnot := h7 (inc + 1 + t) (by omega) (by omega)
        rw [← hrestg t, ht3, hxg] at hnot
        have hne : b ≠ x := by
          intro hbx
          apply hxrest
          rw [← hbx]
          exact List.mem_append_right _ (List.mem_cons_of_mem _ hb)
        omega
      rw [e2] at e1
      have hscan : Perm.scan (p ++ x :: (d1 ++ y :: d2)) = some (p.length, p.length + 1 + d1.length) := by
        rw [← e1, hs, hpl, hd1l]
        congr 2
        omega
      have hadv := advance_decomp p d1 d2 x y hscan
      rw [← e1, hv'] at hadv
      simp only [Option.some.injEq] at hadv
      exact ⟨p, d1, d2, x, y, e1, hadv, hA, hB, hC, hdesc⟩

/-- the successor is a permutation of the index vector -/
theorem advance_perm (v : List Nat) (hnd : v.Nodup) (v' : List Nat) (hv' : Perm.advance v = some v') :
    v'.Perm v := by
  obtain ⟨p, d1, d2, x, y, e1, e2, _⟩ := advance_decomposition v hnd v' hv'
  rw [e1, e2]
  apply List.Perm.append_left
  have h1 : (d1 ++ x :: d2).reverse.Perm (d1 ++ x :: d2) := List.reverse_perm _
  have h2 : (d1 ++ x :: d2).Perm (x :: (d1 ++ d2)) := List.perm_middle
  have h3 : (d1 ++ y :: d2).Perm (y :: (d1 ++ d2)) := List.perm_middle
  exact ((h1.trans h2).cons y).trans ((List.Perm.swap x y _).trans (h3.cons x).symm)

/-! ### the rank of C11PermStep is the shared one -/

theorem fact_bridge (n : Nat) : Stream.fact n = PermLex.fact n := by
  induction n with
  | zero => rfl
  | succ n ih => simp [Stream.fact, PermLex.fact, ih]

theorem rk_bridge (v : List Nat) : rk v = PermLex.rk v := by
  induction v with
  | nil => rfl
  | cons x xs ih =>
    simp only [rk, PermLex.rk, ih, fact_bridge]
    rfl

end PermT
end Noulith.C11
