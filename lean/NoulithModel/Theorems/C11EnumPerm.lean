/-
C11, part 8 — `permutations(xs)` enumerates the lexicographic closed form, in that order, for every
input length.

Route: `Permutations::next` lowers the factorial-number-system rank by exactly one and keeps the
entries (C11PermStep); the rank is injective on the permutations of a set and the closed form has
the ranks `n!−1, …, 0` (Lemmas/PermLex, shared with C13); so the successive index vectors from the
identity *are* the closed form.
-/
import NoulithModel.Theorems.C11Enum
import NoulithModel.Lemmas.PermLex

namespace Noulith.C11
open Noulith Noulith.Stream Noulith.StreamSpec

namespace PermT

/-- what `Permutations::next` does to an index vector without repetition, as a list decomposition:
`v = p ++ x :: (d1 ++ y :: d2)` with the tail strictly descending and `y` its smallest entry above
`x`; the successor is `p ++ y :: reverse (d1 ++ x :: d2)` -/
theorem advance_decomposition (v : List Nat) (hnd : v.Nodup) (v' : List Nat)
    (hv' : Perm.advance v = some v') :
    ∃ p d1 d2 x y, v = p ++ x :: (d1 ++ y :: d2) ∧ v' = p ++ y :: (d1 ++ x :: d2).reverse ∧
      (∀ a ∈ d1, a > y) ∧ y > x ∧ (∀ b ∈ d2, b < x) ∧ (d1 ++ y :: d2).Pairwise (· > ·) := by
  cases hs : Perm.scan v with
  | none => simp [Perm.advance, hs] at hv'
  | some pr =>
      obtain ⟨inc, linc⟩ := pr
      have inv := scan_inv v (v.length - 1)
      have hs' := hs
      unfold Perm.scan at hs'
      rw [hs'] at inv
      obtain ⟨h1, h2, h3, h4, h5, h6, h7⟩ := inv
      have hinc : inc < v.length := by omega
      have hlinc : linc < v.length := by omega
      -- decompose v = p ++ x :: rest, rest = d1 ++ y :: d2
      have e1 : v = v.take inc ++ v[inc] :: v.drop (inc + 1) := by
        rw [← List.drop_eq_getElem_cons hinc, List.take_append_drop]
      have hj : linc - inc - 1 < (v.drop (inc + 1)).length := by rw [List.length_drop]; omega
      have e2 : v.drop (inc + 1) =
          (v.drop (inc + 1)).take (linc - inc - 1) ++
            (v.drop (inc + 1))[linc - inc - 1] :: (v.drop (inc + 1)).drop (linc - inc - 1 + 1) := by
        rw [← List.drop_eq_getElem_cons hj, List.take_append_drop]
      obtain ⟨rest, hrest⟩ : ∃ rest, v.drop (inc + 1) = rest := ⟨_, rfl⟩
      simp only [hrest] at e1 e2 hj
      obtain ⟨p, hp⟩ : ∃ p, v.take inc = p := ⟨_, rfl⟩
      obtain ⟨x, hx⟩ : ∃ x, v[inc] = x := ⟨_, rfl⟩
      obtain ⟨d1, hd1⟩ : ∃ d1, rest.take (linc - inc - 1) = d1 := ⟨_, rfl⟩
      obtain ⟨y, hy⟩ : ∃ y, rest[linc - inc - 1] = y := ⟨_, rfl⟩
      obtain ⟨d2, hd2⟩ : ∃ d2, rest.drop (linc - inc - 1 + 1) = d2 := ⟨_, rfl⟩
      rw [hp, hx] at e1
      rw [hd1, hy, hd2] at e2
      have hpl : p.length = inc := by rw [← hp, List.length_take]; omega
      have hd1l : d1.length = linc - inc - 1 := by rw [← hd1, List.length_take]; omega
      have hxg : v.getD inc 0 = x := by
        rw [← hx]; simp [List.getD_eq_getElem?_getD, List.getElem?_eq_getElem hinc]
      have hrestg : ∀ t, rest.getD t 0 = v.getD (inc + 1 + t) 0 := by
        intro t
        rw [← hrest]
        simp [List.getD_eq_getElem?_getD, List.getElem?_drop]
      have hyg : v.getD linc 0 = y := by
        rw [← hy]
        have := hrestg (linc - inc - 1)
        rw [show inc + 1 + (linc - inc - 1) = linc by omega] at this
        rw [← this]
        simp [List.getD_eq_getElem?_getD, List.getElem?_eq_getElem hj]
      -- the tail is strictly descending
      have hrl : rest.length = v.length - (inc + 1) := by rw [← hrest, List.length_drop]
      have hge : rest.Pairwise (· ≥ ·) := by
        apply pairwise_of_adjacent
        intro t ht
        rw [hrestg t, hrestg (t + 1)]
        have := h3 (inc + 1 + t) (by omega) (by omega)
        rw [show inc + 1 + t + 1 = inc + 1 + (t + 1) by omega] at this
        exact this
      have hndrest : rest.Nodup := by
        rw [← hrest]; exact hnd.sublist (List.drop_sublist _ _)
      have hdesc : rest.Pairwise (· > ·) := by
        have := hge.and hndrest
        exact this.imp (fun h => by omega)
      -- x does not occur in the tail
      have hxrest : x ∉ rest := by
        have hnd' := hnd
        rw [e1, List.nodup_append] at hnd'
        have := hnd'.2.1
        rw [List.nodup_cons] at this
        exact this.1
      rw [e2] at hdesc hxrest
      have hdesc2 := hdesc
      rw [List.pairwise_append] at hdesc2
      have hA : ∀ a ∈ d1, a > y := fun a ha => hdesc2.2.2 a ha y (List.mem_cons_self ..)
      have hB : y > x := by rw [← hyg, ← hxg]; exact h6
      have hC : ∀ b ∈ d2, b < x := by
        intro b hb
        have hbr : b ∈ rest.drop (linc - inc - 1 + 1) := by rw [hd2]; exact hb
        obtain ⟨t, ht1, ht2, ht3⟩ := mem_drop_getD hbr
        have hnot := h7 (inc + 1 + t) (by omega) (by omega)
        rw [← hrestg t, ht3, hxg] at hnot
        have hne : b ≠ x := by
          intro hbx
          apply hxrest
          rw [← hbx]
          exact List.mem_append_right _ (List.mem_cons_of_mem _ hb)
        omega
      rw [e2] at e1
      have hscan : Perm.scan (p ++ x :: (d1 ++ y :: d2)) = some (p.length, p.length + 1 + d1.length) := by
        rw [← e1, hs, hpl, hd1l]
        congr 2
        omega
      have hadv := advance_decomp p d1 d2 x y hscan
      rw [← e1, hv'] at hadv
      simp only [Option.some.injEq] at hadv
      exact ⟨p, d1, d2, x, y, e1, hadv, hA, hB, hC, hdesc⟩

/-- the successor is a permutation of the index vector -/
theorem advance_perm (v : List Nat) (hnd : v.Nodup) (v' : List Nat) (hv' : Perm.advance v = some v') :
    v'.Perm v := by
  obtain ⟨p, d1, d2, x, y, e1, e2, _⟩ := advance_decomposition v hnd v' hv'
  rw [e1, e2]
  apply List.Perm.append_left
  have h1 : (d1 ++ x :: d2).reverse.Perm (d1 ++ x :: d2) := List.reverse_perm _
  have h2 : (d1 ++ x :: d2).Perm (x :: (d1 ++ d2)) := List.perm_middle
  have h3 : (d1 ++ y :: d2).Perm (y :: (d1 ++ d2)) := List.perm_middle
  exact ((h1.trans h2).cons y).trans ((List.Perm.swap x y _).trans (h3.cons x).symm)

/-! ### the rank of C11PermStep is the shared one -/

theorem fact_bridge (n : Nat) : Stream.fact n = PermLex.fact n := by
  induction n with
  | zero => rfl
  | succ n ih => simp [Stream.fact, PermLex.fact, ih]

theorem rk_bridge (v : List Nat) : rk v = PermLex.rk v := by
  induction v with
  | nil => rfl
  | cons x xs ih =>
    simp only [rk, PermLex.rk, ih, fact_bridge]
    rfl

/-! ### the successive index vectors -/

/-- `Permutations::next` on the index vector alone -/
def stepIdx (o : Option (List Nat)) : Option (List Nat × Option (List Nat)) :=
  o.map fun v => (v, Perm.advance v)

theorem idx_unfolds : ∀ (r : Nat) (v : List Nat), v.Nodup → rk v = r →
    ∃ M, Unfolds stepIdx (some v) M ∧ (∀ m ∈ M, m.Perm v) ∧
      M.map rk = (List.range (r + 1)).reverse := by
  intro r
  induction r with
  | zero =>
    intro v hnd hr
    have hs := stepOk v hnd
    cases ha : Perm.advance v with
    | some v' =>
      have := (hs.1 v' ha).1
      rw [lenNat_eq_rk, lenNat_eq_rk] at this
      omega
    | none =>
      refine ⟨[v], .step (s' := none) (show stepIdx (some v) = some (v, none) by simp [stepIdx, ha]) (.done rfl), ?_, by simp [hr]⟩
      intro m hm
      simp at hm
      subst hm
      exact List.Perm.refl _
  | succ r ih =>
    intro v hnd hr
    have hs := stepOk v hnd
    cases ha : Perm.advance v with
    | none =>
      have := hs.2 ha
      rw [lenNat_eq_rk] at this
      omega
    | some v' =>
      obtain ⟨e1, hnd', _⟩ := hs.1 v' ha
      rw [lenNat_eq_rk, lenNat_eq_rk] at e1
      have hp := advance_perm v hnd v' ha
      obtain ⟨M, hu, hm, hrk⟩ := ih v' hnd' (by omega)
      refine ⟨v :: M, .step (show stepIdx (some v) = some (v, some v') by simp [stepIdx, ha]) hu, ?_, ?_⟩
      · intro m hmem
        rcases List.mem_cons.mp hmem with rfl | hmem
        · exact List.Perm.refl _
        · exact (hm m hmem).trans hp
      · rw [List.map_cons, hrk, hr, List.range_succ (n := r + 1), List.reverse_append]
        rfl

end PermT

open PermT in
/-- **the successive index vectors of `Permutations::next` from the identity are the lexicographic
closed form** `permsN n [0, …, n−1]`, in that order, for every `n` (shared with C13) -/
theorem perm_states_enumeration (n : Nat) :
    Unfolds PermT.stepIdx (some (List.range n)) (PermLex.permsN n (List.range n)) := by
  have hasc : (List.range n).Pairwise (· < ·) := List.pairwise_lt_range
  have hnd : (List.range n).Nodup := List.nodup_range
  obtain ⟨M, hu, hm, hrk⟩ := idx_unfolds _ (List.range n) hnd rfl
  have hfact : rk (List.range n) + 1 = PermLex.fact n := by
    have := rk_asc (List.range n) hasc
    rw [List.length_range, fact_bridge] at this
    exact this
  have hM : M = PermLex.permsN (List.range n).length (List.range n) := by
    apply PermLex.eq_permsN_of_rk (List.range n) hasc M hm
    rw [List.length_range, ← hfact, ← hrk]
    apply List.map_congr_left
    intro m _
    exact (rk_bridge m).symm
  rw [List.length_range] at hM
  rw [← hM]; exact hu

/-- from index vectors to elements -/
theorem perm_unfolds_lift {α : Type} (base : List α) {o : Option (List Nat)} {M : List (List Nat)}
    (h : Unfolds PermT.stepIdx o M) : Unfolds Perm.next ⟨base, o⟩ (M.map (pickAll base)) := by
  induction h with
  | @done o h =>
    cases o with
    | none => exact .done rfl
    | some v => simp [PermT.stepIdx] at h
  | @step o v o' M h _ ih =>
    cases o with
    | none => simp [PermT.stepIdx] at h
    | some w =>
      simp only [PermT.stepIdx, Option.map_some, Option.some.injEq, Prod.mk.injEq] at h
      obtain ⟨rfl, rfl⟩ := h
      exact .step rfl ih

theorem pickAll_eq_map {α : Type} (xs : List α) (x0 : α) (q : List Nat) (h : ∀ i ∈ q, i < xs.length) :
    pickAll xs q = q.map fun i => xs.getD i x0 := by
  induction q with
  | nil => rfl
  | cons i q ih =>
    have hi : i < xs.length := h i (by simp)
    rw [CPowE.pickAll_cons xs i q _ (List.getElem?_eq_getElem hi), ih (fun j hj => h j (by simp [hj]))]
    simp [List.getD_eq_getElem?_getD, List.getElem?_eq_getElem hi]

/-- picking the elements at the index permutations gives the permutations of the elements -/
theorem permsN_pick {α : Type} (xs : List α) :
    (PermLex.permsN xs.length (List.range xs.length)).map (pickAll xs) = PermLex.permsN xs.length xs := by
  cases xs with
  | nil => rfl
  | cons x0 rest =>
    generalize hxs : x0 :: rest = xs
    have hmap : xs = (List.range xs.length).map fun i => xs.getD i x0 := by
      apply List.ext_getElem
      · simp
      · intro i h1 h2
        simp [List.getD_eq_getElem?_getD, List.getElem?_eq_getElem h1]
    conv => rhs; rw [hmap, PermLex.permsN_map]
    simp only [List.length_map, List.length_range]
    apply List.map_congr_left
    intro q hq
    apply pickAll_eq_map
    intro i hi
    have := (PermLex.permsN_perm xs.length (List.range xs.length) (by simp) q hq).subset hi
    simpa using this

/-- **`permutations(xs)` enumerates the lexicographic closed form `permsN |xs| xs`, in that order**,
for every list of any element type -/
theorem perms_enumeration_gen {α : Type} (xs : List α) :
    Unfolds Perm.next (Perm.mk xs) (PermLex.permsN xs.length xs) := by
  have := perm_unfolds_lift xs (perm_states_enumeration xs.length)
  rw [permsN_pick] at this
  exact this

/-! ### the Spec's `lexPerms` is the shared closed form -/

theorem flatMap_range_picks {α β : Type} (l : List α) : ∀ (g : α → List α → List β),
    ((List.range l.length).flatMap fun i =>
        match l[i]? with
        | some x => g x (l.eraseIdx i)
        | none => []) =
      (PermLex.picks l).flatMap fun p => g p.1 p.2 := by
  induction l with
  | nil => intro g; rfl
  | cons x xs ih =>
    intro g
    rw [List.length_cons, List.range_succ_eq_map, List.flatMap_cons, List.flatMap_map]
    simp only [PermLex.picks, List.flatMap_cons, List.flatMap_map, List.getElem?_cons_zero,
      List.eraseIdx_cons_zero]
    congr 1
    have := ih (fun a r => g a (x :: r))
    rw [← this]
    apply PermLex.flatMap_congr'
    intro i _
    simp [Function.comp, List.getElem?_cons_succ, List.eraseIdx_cons_succ]

theorem lexPermsAux_eq {α : Type} : ∀ (n : Nat) (l : List α), lexPermsAux n l = PermLex.permsN n l := by
  intro n
  induction n with
  | zero => intro l; rfl
  | succ n ih =>
    intro l
    simp only [lexPermsAux, PermLex.permsN]
    refine (flatMap_range_picks l (fun x r => (lexPermsAux n r).map (x :: ·))).trans ?_
    apply PermLex.flatMap_congr'
    intro p _
    rw [ih]

theorem perms_enumeration_lex {α : Type} (xs : List α) :
    Unfolds Perm.next (Perm.mk xs) (lexPerms xs) := by
  unfold lexPerms
  rw [lexPermsAux_eq]
  exact perms_enumeration_gen xs

theorem perms_enumeration : perms_enumeration_statement := fun xs => perms_enumeration_lex xs

end Noulith.C11
