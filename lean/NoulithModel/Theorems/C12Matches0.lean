/-
C12, part 6a — the Spec's relations are what the executable reference computes:
`specArrange_iff_Arranged` (the arrangement of a sequence over its sub-patterns) and
`destructure_iff_Inverts` (every destructuring builtin = the inverse image of its constructor,
sound and complete, including `k * n`).
-/
import NoulithModel.Theorems.C12Chain

namespace Noulith.C12

theorem mapM_defaultOf_iff (qs : List Pat) : ∀ ds : List Val,
    qs.mapM defaultOf = some ds ↔ DefaultsOf qs ds := by
  unfold DefaultsOf
  induction qs with
  | nil => intro ds; cases ds <;> simp
  | cons q qs ih =>
    intro ds
    cases ds with
    | nil =>
      simp only [List.mapM_cons, List.map_cons, List.map_nil]
      cases defaultOf q <;> cases qs.mapM defaultOf <;> simp
    | cons d' ds' =>
      simp only [List.mapM_cons, List.map_cons]
      cases hq : defaultOf q with
      | none => simp
      | some d =>
        cases hm : qs.mapM defaultOf with
        | none =>
          simp
          intro _ h
          have := (ih ds').mpr h
          rw [hm] at this; simp at this
        | some ds0 =>
          have h0 := (ih ds0).mp hm
          simp
          intro _
          constructor
          · rintro rfl; exact h0
          · intro h
            have := (ih ds').mpr h
            rw [hm] at this; simpa using this

theorem splatIdxs_noSplat (ps : List Pat) : ∀ i, NoSplat ps → splatIdxs ps i = [] := by
  induction ps with
  | nil => intro i _; rfl
  | cons p ps ih =>
    intro i h
    unfold splatIdxs
    have hp : isSplatItem p = false := h p (by simp)
    simp [hp, ih (i + 1) (fun q hq => h q (by simp [hq]))]

theorem splatIdxs_append (pre rest : List Pat) : ∀ i,
    splatIdxs (pre ++ rest) i = splatIdxs pre i ++ splatIdxs rest (i + pre.length) := by
  induction pre with
  | nil => intro i; simp [splatIdxs]
  | cons p pre ih =>
    intro i
    simp only [List.cons_append, splatIdxs, ih (i + 1), List.length_cons]
    have : i + 1 + pre.length = i + (pre.length + 1) := by omega
    split <;> simp [this]

theorem splatIdxs_decomp (pre post : List Pat) (s : Pat) (hs : isSplatItem s = true)
    (h1 : NoSplat pre) (h2 : NoSplat post) : splatIdxs (pre ++ s :: post) 0 = [pre.length] := by
  rw [splatIdxs_append, splatIdxs_noSplat pre 0 h1]
  simp [splatIdxs, hs, splatIdxs_noSplat post _ h2]

theorem splatIdxs_single_item (ps : List Pat) : ∀ i si, splatIdxs ps i = [si] →
    ∃ s, ps[si - i]? = some s ∧ isSplatItem s = true := by
  induction ps with
  | nil => intro i si h; simp [splatIdxs] at h
  | cons p ps ih =>
    intro i si h
    unfold splatIdxs at h
    by_cases hp : isSplatItem p = true
    · simp only [hp, if_true] at h
      have h1 : i = si := by simpa using (List.cons.inj h).1
      subst h1
      exact ⟨p, by simp, hp⟩
    · simp only [hp] at h
      obtain ⟨s, hs1, hs2⟩ := ih (i + 1) si h
      have hge : si ≥ i + 1 := by
        obtain ⟨j, hj, _⟩ := splatIdxs_single 0 ps (i + 1) si h
        omega
      refine ⟨s, ?_, hs2⟩
      have : si - i = (si - (i + 1)) + 1 := by omega
      rw [this]; simpa using hs1

theorem split_at (ps : List Pat) (j : Nat) (s : Pat) (h : ps[j]? = some s) :
    ps = ps.take j ++ s :: ps.drop (j + 1) := by
  induction ps generalizing j with
  | nil => simp at h
  | cons p ps ih =>
    cases j with
    | zero => simp at h; subst h; simp
    | succ j => simp at h; simp; exact ih j h

theorem noSplat_append (a b : List Pat) : NoSplatB (a ++ b) ↔ NoSplat a ∧ NoSplat b := by
  unfold NoSplatB NoSplat
  constructor
  · intro h; exact ⟨fun p hp => h p (by simp [hp]), fun p hp => h p (by simp [hp])⟩
  · rintro ⟨h1, h2⟩ p hp
    rcases List.mem_append.mp hp with hp | hp
    · exact h1 p hp
    · exact h2 p hp

/-- **the arrangement in declarative form** (`specArrange_iff_Arranged_statement`): the executable
arrangement is exactly the relation `Arranged` of `Spec/Match.lean` — equal length except around
one splat, trailing defaults fill. -/
theorem specArrange_iff_Arranged (ps : List Pat) (items arr : List Val) :
    specArrange ps items = some arr ↔ Arranged ps items arr := by
  constructor
  · intro h
    unfold specArrange at h
    cases hs : splatIdxs ps 0 with
    | nil =>
      simp only [hs] at h
      obtain ⟨hns, _⟩ := splatIdxs_nil ps 0 hs
      left
      refine ⟨hns, ?_⟩
      cases hm : (ps.drop items.length).mapM defaultOf with
      | none => simp [hm] at h
      | some ds =>
        simp only [hm] at h
        split at h
        · next hl =>
          simp at h; subst h
          exact ⟨ds, (mapM_defaultOf_iff _ ds).mp hm, rfl, hl⟩
        · simp at h
    | cons si rest =>
      cases rest with
      | cons sj r => simp [hs] at h
      | nil =>
        simp only [hs] at h
        obtain ⟨j, hj1, hj2, _, hj4, _, _⟩ := splatIdxs_single 0 ps 0 si hs
        have hj : j = si := by omega
        subst hj
        obtain ⟨s, hs1, hs2⟩ := splatIdxs_single_item ps 0 j hs
        simp only [Nat.sub_zero] at hs1
        right
        cases hm : ((ps.take j ++ ps.drop (j + 1)).drop items.length).mapM defaultOf with
        | none => simp [hm] at h
        | some ds =>
          simp only [hm] at h
          split at h
          · simp at h
          · next hlt =>
            have hF : (ps.take j ++ ps.drop (j + 1)).length ≤ (items ++ ds).length := by omega
            have hql : (ps.take j ++ ps.drop (j + 1)).length = j + (ps.length - (j + 1)) := by
              simp; omega
            simp only [Option.some.injEq] at h
            generalize hFF : items ++ ds = F at *
            have hns := (noSplat_append _ _).mp hj4
            refine ⟨ps.take j, s, ps.drop (j + 1), F.take j,
              (F.drop j).take (F.length - j - (ps.length - (j + 1))),
              F.drop (F.length - (ps.length - (j + 1))), ds, split_at ps j s hs1, hs2, hns.1, hns.2,
              (mapM_defaultOf_iff _ ds).mp hm, ?_, ?_, ?_, h.symm⟩
            · -- F = take j F ++ take m (drop j F) ++ drop (|F| - nPost) F
              have e1 : F.length - (ps.length - (j + 1)) = j + (F.length - j - (ps.length - (j + 1))) := by omega
              rw [e1, ← List.drop_drop, List.append_assoc, List.take_append_drop, List.take_append_drop]
              exact hFF
            · simp; omega
            · simp; omega
  · intro h
    rcases h with ⟨hns, ds, hd, harr, hlen⟩ | ⟨pre, s, post, a, mid, c, ds, hps, hs, hn1, hn2, hd, hF, ha, hc, harr⟩
    · unfold specArrange
      rw [splatIdxs_noSplat ps 0 hns]
      simp only [(mapM_defaultOf_iff _ ds).mpr hd]
      subst harr
      simp [hlen]
    · unfold specArrange
      have hidx := splatIdxs_decomp pre post s hs hn1 hn2
      rw [← hps] at hidx
      rw [hidx]
      have ht : ps.take pre.length = pre := by rw [hps]; simp
      have hdr : ps.drop (pre.length + 1) = post := by
        rw [hps]
        have : pre.length + 1 = (pre ++ [s]).length := by simp
        rw [this, show pre ++ s :: post = (pre ++ [s]) ++ post by simp, List.drop_left]
      simp only [ht, hdr, (mapM_defaultOf_iff _ ds).mpr hd]
      have hlenF : (items ++ ds).length = a.length + mid.length + c.length := by
        rw [hF]; simp; omega
      have hnp : ps.length - (pre.length + 1) = post.length := by rw [hps]; simp; omega
      have hge : ¬ (items ++ ds).length < (pre ++ post).length := by simp at hlenF ⊢; omega
      simp only [hge, if_false, hnp]
      rw [hF, harr]
      have t1 : List.take pre.length (a ++ mid ++ c) = a := by
        rw [← ha, List.append_assoc, List.take_left]
      have t2 : List.drop pre.length (a ++ mid ++ c) = mid ++ c := by
        rw [← ha, List.append_assoc, List.drop_left]
      have t3 : (a ++ mid ++ c).length - pre.length - post.length = mid.length := by simp; omega
      have t4 : (a ++ mid ++ c).length - post.length = (a ++ mid).length := by simp; omega
      rw [t1, t2, t3, List.take_left, t4, List.drop_left]

theorem val_eq_mkNum (d : Val) (q : Rat) (b : Bool) (h : exactNum d = some q) (hb : isRatVal d = b) :
    d = mkNum b q := by
  cases d <;> simp [exactNum] at h <;> simp [isRatVal] at hb <;> subst hb <;> subst h <;> simp [mkNum]

theorem isNonzero_exact (a : Val) (xa : Rat) (h : exactNum a = some xa) : isNonzero a = true ↔ xa ≠ 0 := by
  simp [isNonzero, h]

/-- what the `+` pattern computes for the open operand -/
theorem plus_char (v a : Val) (mk : Val → List Val) (parts : List Val) :
    (if isNum v && isNum a then
        match arith (· - ·) v a with
        | .ok diff => (match exactNum diff with
            | some d => if d ≥ 0 then Out.ok (mk diff) else .throw
            | none => .throw)
        | r => r.map fun _ => []
       else .throw) = .ok parts ↔
    ∃ xv xa, exactNum v = some xv ∧ exactNum a = some xa ∧ xv - xa ≥ 0 ∧
      parts = mk (mkNum (isRatVal v || isRatVal a) (xv - xa)) := by
  cases hv : exactNum v with
  | none =>
    constructor
    · intro h
      split at h
      · have : arith (· - ·) v a = .throw := by unfold arith; simp [hv]
        simp [this, Out.map] at h
      · simp at h
    · rintro ⟨xv, xa, h, _⟩; simp at h
  | some xv =>
    cases ha : exactNum a with
    | none =>
      constructor
      · intro h
        split at h
        · have : arith (· - ·) v a = .throw := by unfold arith; simp [hv, ha]
          simp [this, Out.map] at h
        · simp at h
      · rintro ⟨_, xa, _, h, _⟩; simp at h
    | some xa =>
      have hnum : (isNum v && isNum a) = true := by simp [exactNum_isNum v xv hv, exactNum_isNum a xa ha]
      have har : arith (· - ·) v a = .ok (mkNum (isRatVal v || isRatVal a) (xv - xa)) := by
        unfold arith; simp [hv, ha]
      have hde : exactNum (mkNum (isRatVal v || isRatVal a) (xv - xa)) = some (xv - xa) :=
        (arith_exact (· - ·) v a _ xv xa hv ha (den_one_sub xv xa) har).1
      simp only [hnum, if_true, har, hde]
      constructor
      · intro h
        split at h
        · next hge => simp at h; exact ⟨xv, xa, rfl, rfl, hge, h.symm⟩
        · simp at h
      · rintro ⟨xv', xa', h1, h2, hge, hp⟩
        simp at h1 h2; subst h1; subst h2
        simp [hge, hp]

theorem plus_side (v a : Val) (parts : List Val) (lit_first : Bool) :
    (∃ xv xa, exactNum v = some xv ∧ exactNum a = some xa ∧ xv - xa ≥ 0 ∧
      parts = (if lit_first then [a, mkNum (isRatVal v || isRatVal a) (xv - xa)]
               else [mkNum (isRatVal v || isRatVal a) (xv - xa), a])) ↔
    (∃ d x, parts = (if lit_first then [a, d] else [d, a]) ∧
      construct .plus (if lit_first then [a, d] else [d, a]) = .ok x ∧ veq x v = true ∧
      isRatVal d = (isRatVal v || isRatVal a) ∧ (∃ q, exactNum d = some q ∧ q ≥ 0) ∧ (∃ qv, exactNum v = some qv)) := by
  constructor
  · rintro ⟨xv, xa, hv, ha, hge, hp⟩
    have hde : exactNum (mkNum (isRatVal v || isRatVal a) (xv - xa)) = some (xv - xa) := by
      apply exactNum_mkNum
      intro hb; simp at hb
      exact den_one_sub _ _ (exactNum_int_den v xv hv hb.1) (exactNum_int_den a xa ha hb.2)
    refine ⟨mkNum (isRatVal v || isRatVal a) (xv - xa), ?_⟩
    cases lit_first with
    | true =>
      have hs : ∃ x, arith (· + ·) a (mkNum (isRatVal v || isRatVal a) (xv - xa)) = .ok x := by
        unfold arith; simp [ha, hde]
      obtain ⟨x, hx⟩ := hs
      have hxe := (arith_exact (· + ·) a _ x xa (xv - xa) ha hde (den_one_add _ _) hx).1
      refine ⟨x, by simpa using hp, by simpa [construct] using hx, ?_, isRatVal_mkNum _ _, ⟨_, hde, hge⟩, ⟨xv, hv⟩⟩
      apply veq_of_exact x v xv _ hv
      rw [hxe]; congr 1; grind
    | false =>
      have hs : ∃ x, arith (· + ·) (mkNum (isRatVal v || isRatVal a) (xv - xa)) a = .ok x := by
        unfold arith; simp [ha, hde]
      obtain ⟨x, hx⟩ := hs
      have hxe := (arith_exact (· + ·) _ a x (xv - xa) xa hde ha (den_one_add _ _) hx).1
      refine ⟨x, by simpa using hp, by simpa [construct] using hx, ?_, isRatVal_mkNum _ _, ⟨_, hde, hge⟩, ⟨xv, hv⟩⟩
      apply veq_of_exact x v xv _ hv
      rw [hxe]; congr 1; grind
  · rintro ⟨d, x, hp, hc, hveq, hlvl, ⟨q, hq, hge⟩, ⟨qv, hqv⟩⟩
    cases lit_first with
    | true =>
      simp only [if_true] at hp hc
      obtain ⟨xa, xd, hxa, hxd⟩ := construct_ok_exact .plus (Or.inl rfl) a d x hc
      rw [hq] at hxd; simp at hxd; subst hxd
      have hxe := construct_plus_exact a d x xa q hxa hq hc
      have hsum : xa + q = qv := exact_eq_of_veq x v _ _ hxe hqv hveq
      have hqeq : qv - xa = q := by grind
      refine ⟨qv, xa, hqv, hxa, by rw [hqeq]; exact hge, ?_⟩
      rw [hqeq, ← val_eq_mkNum d q _ hq hlvl]; simpa using hp
    | false =>
      simp only [Bool.false_eq_true, if_false] at hp hc
      obtain ⟨xd, xa, hxd, hxa⟩ := construct_ok_exact .plus (Or.inl rfl) d a x hc
      rw [hq] at hxd; simp at hxd; subst hxd
      have hxe := construct_plus_exact d a x q xa hq hxa hc
      have hsum : q + xa = qv := exact_eq_of_veq x v _ _ hxe hqv hveq
      have hqeq : qv - xa = q := by grind
      refine ⟨qv, xa, hqv, hxa, by rw [hqeq]; exact hge, ?_⟩
      rw [hqeq, ← val_eq_mkNum d q _ hq hlvl]; simpa using hp

/-- **`n + k` patterns compute exactly the inverse image of `+`** -/
theorem plus_iff_Inverts (known : List (Option Val)) (v : Val) (parts : List Val) :
    destructure .plus v known = .ok parts ↔ Inverts .plus known v parts := by
  simp only [destructure, Inverts]
  split
  · next a =>
    refine (plus_char v a (fun d => [a, d]) parts).trans ?_
    have := plus_side v a parts true
    simp only [if_true] at this
    refine this.trans ?_
    constructor
    · rintro ⟨d, x, h⟩; exact Or.inl ⟨a, d, x, rfl, h⟩
    · rintro (⟨a', d, x, hk, h⟩ | ⟨a', d, x, hk, _⟩)
      · simp at hk; subst hk; exact ⟨d, x, h⟩
      · simp at hk
  · next a =>
    refine (plus_char v a (fun d => [d, a]) parts).trans ?_
    have := plus_side v a parts false
    simp only [Bool.false_eq_true, if_false] at this
    refine this.trans ?_
    constructor
    · rintro ⟨d, x, h⟩; exact Or.inr ⟨a, d, x, rfl, h⟩
    · rintro (⟨a', d, x, hk, _⟩ | ⟨a', d, x, hk, h⟩)
      · simp at hk
      · simp at hk; subst hk; exact ⟨d, x, h⟩
  · next h1 h2 =>
    constructor
    · intro h; simp at h
    · rintro (⟨a, d, x, hk, _⟩ | ⟨a, d, x, hk, _⟩)
      · exact absurd hk (h1 a)
      · exact absurd hk (h2 a)

theorem trunc_int (t : Int) :
    (if (t : Rat) ≥ 0 then ratFloor (t : Rat) else -(ratFloor (-(t : Rat)))) = t := by
  have h2 : (-(t : Rat)) = ((-t : Int) : Rat) := by simp
  split
  · exact ratFloor_int t
  · rw [h2, ratFloor_int]; omega

theorem remNum_of_multiple (v a : Val) (xv xa : Rat) (t : Int) (hv : exactNum v = some xv)
    (ha : exactNum a = some xa) (hnz : xa ≠ 0) (ht : xv = xa * t) :
    ∃ r, remNum v a = .ok r ∧ isNonzero r = false ∧
      divFloorNum v a = .ok (mkNum (isRatVal v || isRatVal a) (t : Rat)) := by
  have hq : xv / xa = (t : Rat) := by rw [ht]; grind
  have hxa : (xa == 0) = false := by simpa using hnz
  refine ⟨mkNum (isRatVal v || isRatVal a) (xv - xa * (t : Rat)), ?_, ?_, ?_⟩
  · unfold remNum
    rw [hv, ha]
    simp only [hxa, Bool.false_eq_true, if_false, hq, trunc_int]
  · have h0 : xv - xa * (t : Rat) = 0 := by rw [ht]; grind
    rw [h0]
    have : exactNum (mkNum (isRatVal v || isRatVal a) 0) = some 0 := exactNum_mkNum _ _ (by intro _; rfl)
    simp [isNonzero, this]
  · unfold divFloorNum
    simp [hv, ha, hxa, hq, ratFloor_int]

theorem times_char (v a : Val) (mk : Val → List Val) (parts : List Val) :
    (if isNum v && isNum a then
        if !isNonzero a then .throw
        else match remNum v a with
          | .ok r => if isNonzero r then .throw else (divFloorNum v a).map mk
          | r => r.map fun _ => []
       else .throw) = Out.ok parts ↔
    ∃ xv xa, ∃ t : Int, exactNum v = some xv ∧ exactNum a = some xa ∧ xa ≠ 0 ∧ xv = xa * t ∧
      parts = mk (mkNum (isRatVal v || isRatVal a) (t : Rat)) := by
  constructor
  · intro h
    split at h
    · split at h
      · simp at h
      · next hnz =>
        have hnz' : isNonzero a = true := by simpa using hnz
        cases hrem : remNum v a with
        | ok r =>
          simp only [hrem] at h
          split at h
          · simp at h
          · next hr0 =>
            have hr0' : isNonzero r = false := by simpa using hr0
            have hex : ∃ xv xa, exactNum v = some xv ∧ exactNum a = some xa := by
              unfold remNum at hrem
              cases hx : exactNum v <;> cases hy : exactNum a <;> simp [hx, hy] at hrem
              exact ⟨_, _, rfl, rfl⟩
            obtain ⟨xv, xa, hxv, hxa⟩ := hex
            have hxa0 : xa ≠ 0 := (isNonzero_exact a xa hxa).mp hnz'
            obtain ⟨t, ht⟩ := remNum_zero v a r xv xa hxv hxa hxa0 hrem hr0'
            obtain ⟨_, _, _, hdiv⟩ := remNum_of_multiple v a xv xa t hxv hxa hxa0 ht
            rw [hdiv] at h
            simp [Out.map] at h
            exact ⟨xv, xa, t, hxv, hxa, hxa0, ht, h.symm⟩
        | throw => simp [hrem, Out.map] at h
        | panic => simp [hrem, Out.map] at h
    · simp at h
  · rintro ⟨xv, xa, t, hv, ha, hnz, ht, hp⟩
    have hnum : (isNum v && isNum a) = true := by simp [exactNum_isNum v xv hv, exactNum_isNum a xa ha]
    have hnz' : isNonzero a = true := (isNonzero_exact a xa ha).mpr hnz
    obtain ⟨r, hr, hr0, hdiv⟩ := remNum_of_multiple v a xv xa t hv ha hnz ht
    simp [hnum, hnz', hr, hr0, hdiv, Out.map, hp]

theorem den_one_int (q : Rat) (h : q.den = 1) : q = ((q.num : Int) : Rat) := by
  have := Rat.mkRat_self q
  rw [h] at this
  rw [← this]; simp [Rat.mkRat_one]

theorem times_side (v a : Val) (parts : List Val) (lit_first : Bool) :
    (∃ xv xa, ∃ t : Int, exactNum v = some xv ∧ exactNum a = some xa ∧ xa ≠ 0 ∧ xv = xa * t ∧
      parts = (if lit_first then [a, mkNum (isRatVal v || isRatVal a) (t : Rat)]
               else [mkNum (isRatVal v || isRatVal a) (t : Rat), a])) ↔
    (∃ k x, parts = (if lit_first then [a, k] else [k, a]) ∧
      construct .times (if lit_first then [a, k] else [k, a]) = .ok x ∧ veq x v = true ∧
      isRatVal k = (isRatVal v || isRatVal a) ∧ isNonzero a = true ∧
      (∃ q, exactNum k = some q ∧ q.den = 1) ∧ (∃ qv, exactNum v = some qv)) := by
  constructor
  · rintro ⟨xv, xa, t, hv, ha, hnz, ht, hp⟩
    have hke : exactNum (mkNum (isRatVal v || isRatVal a) (t : Rat)) = some (t : Rat) :=
      exactNum_mkNum _ _ (by intro _; simp)
    refine ⟨mkNum (isRatVal v || isRatVal a) (t : Rat), ?_⟩
    cases lit_first with
    | true =>
      have hs : ∃ x, arith (· * ·) a (mkNum (isRatVal v || isRatVal a) (t : Rat)) = .ok x := by
        unfold arith; simp [ha, hke]
      obtain ⟨x, hx⟩ := hs
      have hxe := (arith_exact (· * ·) a _ x xa t ha hke (den_one_mul _ _) hx).1
      refine ⟨x, by simpa using hp, by simpa [construct] using hx, ?_, isRatVal_mkNum _ _,
        (isNonzero_exact a xa ha).mpr hnz, ⟨_, hke, by simp⟩, ⟨xv, hv⟩⟩
      apply veq_of_exact x v xv _ hv
      rw [hxe, ht]
    | false =>
      have hs : ∃ x, arith (· * ·) (mkNum (isRatVal v || isRatVal a) (t : Rat)) a = .ok x := by
        unfold arith; simp [ha, hke]
      obtain ⟨x, hx⟩ := hs
      have hxe := (arith_exact (· * ·) _ a x t xa hke ha (den_one_mul _ _) hx).1
      refine ⟨x, by simpa using hp, by simpa [construct] using hx, ?_, isRatVal_mkNum _ _,
        (isNonzero_exact a xa ha).mpr hnz, ⟨_, hke, by simp⟩, ⟨xv, hv⟩⟩
      apply veq_of_exact x v xv _ hv
      rw [hxe, ht]; congr 1; grind
  · rintro ⟨k, x, hp, hc, hveq, hlvl, hnz, ⟨q, hq, hden⟩, ⟨qv, hqv⟩⟩
    have hqi := den_one_int q hden
    cases lit_first with
    | true =>
      simp only [if_true] at hp hc
      obtain ⟨xa, xk, hxa, hxk⟩ := construct_ok_exact .times (Or.inr rfl) a k x hc
      rw [hq] at hxk; simp at hxk; subst hxk
      have hxe := construct_times_exact a k x xa q hxa hq hc
      have hprod : xa * q = qv := exact_eq_of_veq x v _ _ hxe hqv hveq
      refine ⟨qv, xa, q.num, hqv, hxa, (isNonzero_exact a xa hxa).mp hnz, by rw [← hqi]; exact hprod.symm, ?_⟩
      rw [← hqi, ← val_eq_mkNum k q _ hq hlvl]; simpa using hp
    | false =>
      simp only [Bool.false_eq_true, if_false] at hp hc
      obtain ⟨xk, xa, hxk, hxa⟩ := construct_ok_exact .times (Or.inr rfl) k a x hc
      rw [hq] at hxk; simp at hxk; subst hxk
      have hxe := construct_times_exact k a x q xa hq hxa hc
      have hprod : q * xa = qv := exact_eq_of_veq x v _ _ hxe hqv hveq
      refine ⟨qv, xa, q.num, hqv, hxa, (isNonzero_exact a xa hxa).mp hnz, by rw [← hqi, ← hprod]; grind, ?_⟩
      rw [← hqi, ← val_eq_mkNum k q _ hq hlvl]; simpa using hp

/-- **`k * n` patterns compute exactly the inverse image of `*`** (soundness and completeness) -/
theorem times_iff_Inverts (known : List (Option Val)) (v : Val) (parts : List Val) :
    destructure .times v known = .ok parts ↔ Inverts .times known v parts := by
  simp only [destructure, Inverts]
  split
  · next a =>
    refine (times_char v a (fun d => [a, d]) parts).trans ?_
    have := times_side v a parts true
    simp only [if_true] at this
    refine this.trans ?_
    constructor
    · rintro ⟨d, x, h⟩; exact Or.inl ⟨a, d, x, rfl, h⟩
    · rintro (⟨a', d, x, hk, h⟩ | ⟨a', d, x, hk, _⟩)
      · simp at hk; subst hk; exact ⟨d, x, h⟩
      · simp at hk
  · next a =>
    refine (times_char v a (fun d => [d, a]) parts).trans ?_
    have := times_side v a parts false
    simp only [Bool.false_eq_true, if_false] at this
    refine this.trans ?_
    constructor
    · rintro ⟨d, x, h⟩; exact Or.inr ⟨a, d, x, rfl, h⟩
    · rintro (⟨a', d, x, hk, _⟩ | ⟨a', d, x, hk, h⟩)
      · simp at hk
      · simp at hk; subst hk; exact ⟨d, x, h⟩
  · next h1 h2 =>
    constructor
    · intro h; simp at h
    · rintro (⟨a, d, x, hk, _⟩ | ⟨a, d, x, hk, _⟩)
      · exact absurd hk (h1 a)
      · exact absurd hk (h2 a)

theorem divide_iff_Inverts (known : List (Option Val)) (v : Val) (parts : List Val) :
    destructure .divide v known = .ok parts ↔ Inverts .divide known v parts := by
  simp only [destructure, Inverts]
  constructor
  · intro h
    split at h
    · next n =>
      simp at h; subst h
      exact ⟨n, 1, (n : Rat), by simp [exactNum], rfl, by omega, by simp [Rat.mkRat_one], by simp⟩
    · next q =>
      simp at h; subst h
      have hpos : q.den > 0 := Nat.pos_of_ne_zero q.den_nz
      exact ⟨q.num, q.den, q, by simp [exactNum], rfl, by omega, by simp [Rat.mkRat_self], by simpa using q.reduced⟩
    · simp at h
  · rintro ⟨n, d, q, hq, hp, hd, hmk, hco⟩
    have hdn : d.toNat ≠ 0 := by omega
    have hnd : q.num = n ∧ q.den = d.toNat := by
      rw [hmk, ← Rat.mk_eq_mkRat n d.toNat hdn hco]; exact ⟨rfl, rfl⟩
    have hdd : ((d.toNat : Nat) : Int) = d := by omega
    cases v <;> simp [exactNum] at hq
    · rename_i m
      subst hq
      simp at hnd
      subst hp
      have : d = 1 := by omega
      simp [hnd.1, this]
    · rename_i r
      subst hq
      subst hp
      simp [hnd.1, hnd.2, hdd]

theorem minus_iff_Inverts (known : List (Option Val)) (v : Val) (parts : List Val) :
    destructure .minus v known = .ok parts ↔ Inverts .minus known v parts := by
  simp only [destructure, Inverts]
  split
  · next k =>
    constructor
    · intro h
      cases hn : negVal v with
      | ok x => simp [hn, Out.map] at h; exact ⟨x, by simp, h.symm, rfl⟩
      | throw => simp [hn, Out.map] at h
      | panic => simp [hn, Out.map] at h
    · rintro ⟨x, _, hp, hn⟩
      simp [hn, Out.map, hp]
  · next hne =>
    constructor
    · intro h; simp at h
    · rintro ⟨x, hl, _, _⟩
      match known, hl with
      | [k], _ => exact absurd rfl (hne k)

theorem prepend_iff_Inverts (known : List (Option Val)) (v : Val) (parts : List Val) :
    destructure .prepend v known = .ok parts ↔ Inverts .prepend known v parts := by
  simp only [destructure, Inverts]
  constructor
  · intro h
    split at h <;> simp at h
    next hd tl hu => exact ⟨hd, tl, h.symm, hu⟩
  · rintro ⟨hd, tl, hp, hu⟩
    simp [hu, hp]

theorem append_iff_Inverts (known : List (Option Val)) (v : Val) (parts : List Val) :
    destructure .append v known = .ok parts ↔ Inverts .append known v parts := by
  simp only [destructure, Inverts]
  constructor
  · intro h
    split at h <;> simp at h
    next tl l hu => exact ⟨tl, l, h.symm, hu⟩
  · rintro ⟨tl, l, hp, hu⟩
    simp [hu, hp]

theorem cmp_iff_Inverts (ops : List CmpOp) (known : List (Option Val)) (v : Val) (parts : List Val) :
    destructure (.cmp ops) v known = .ok parts ↔ Inverts (.cmp ops) known v parts := by
  simp only [destructure, Inverts]
  by_cases hlen : ops.length + 1 = known.length
  · have hl : ¬ (ops.length + 1 != known.length) = true := by simp [hlen]
    simp only [hl, if_false]
    by_cases h0 : (known.filter Option.isNone).length = 0
    · simp only [h0, beq_self_eq_true, if_true]
      constructor
      · intro h; simp at h
      · rintro ⟨_, rvs, hr, _⟩
        simp [h0] at hr
    · have h0' : ¬ ((known.filter Option.isNone).length == 0) = true := by simpa using h0
      simp only [h0', if_false]
      by_cases h1 : (known.filter Option.isNone).length = 1
      · simp only [h1, beq_self_eq_true, if_true]
        constructor
        · intro h
          cases hf : fillSlots known [v] with
          | none => simp [hf] at h
          | some ret =>
            simp only [hf] at h
            cases hc : cmpChain ops ret with
            | ok b =>
              cases b with
              | false => simp [hc] at h
              | true => simp [hc] at h; subst h; exact ⟨hlen, [v], rfl, hf, hc⟩
            | throw => simp [hc] at h
            | panic => simp [hc] at h
        · rintro ⟨_, rvs, hr, hf, hc⟩
          subst hr
          simp [hf, hc]
      · have h1' : ¬ ((known.filter Option.isNone).length == 1) = true := by simpa using h1
        simp only [h1', h1]
        constructor
        · intro h
          cases hs : seqItems v with
          | none => simp [hs] at h
          | some rvs =>
            simp only [hs, Bool.false_eq_true, if_false] at h
            cases hf : fillSlots known rvs with
            | none => simp [hf] at h
            | some ret =>
              simp only [hf] at h
              cases hc : cmpChain ops ret with
              | ok b =>
                cases b with
                | false => simp [hc] at h
                | true => simp [hc] at h; subst h; exact ⟨hlen, rvs, ⟨h0, rfl⟩, hf, hc⟩
              | throw => simp [hc] at h
              | panic => simp [hc] at h
        · rintro ⟨_, rvs, ⟨_, hs⟩, hf, hc⟩
          simp [hs, hf, hc]
  · have hl : (ops.length + 1 != known.length) = true := by simp [hlen]
    simp only [hl, if_true]
    constructor
    · intro h; simp at h
    · rintro ⟨h, _⟩; exact absurd h hlen

/-! ### A multi-slot comparison takes exactly as many items as it has slots

`ComparisonOperator::destructure` hands the items of the value to the open slots in order; it raises
"ran out of ok rvalues" when an open slot finds no item and "too many rvalues" when an item is left
over.  `fillSlots` is that loop; these are its two length facts. -/

theorem fillSlots_length_exact : ∀ (known : List (Option Val)) (rvs parts : List Val),
    fillSlots known rvs = some parts →
      rvs.length = (known.filter Option.isNone).length ∧ parts.length = known.length
  | [], [], parts, h => by simp [fillSlots] at h; subst h; simp
  | [], _ :: _, parts, h => by simp [fillSlots] at h
  | some x :: lhs, rvs, parts, h => by
      simp only [fillSlots, Option.map_eq_some_iff] at h
      obtain ⟨ps, hps, rfl⟩ := h
      have := fillSlots_length_exact lhs rvs ps hps
      simp [this.1, this.2]
  | none :: _, [], parts, h => by simp [fillSlots] at h
  | none :: lhs, r :: rvs, parts, h => by
      simp only [fillSlots, Option.map_eq_some_iff] at h
      obtain ⟨ps, hps, rfl⟩ := h
      have := fillSlots_length_exact lhs rvs ps hps
      simp [this.1, this.2]

/-- Surplus items are refused whatever the layout of literals and slots. -/
theorem fillSlots_surplus (known : List (Option Val)) (rvs : List Val)
    (h : (known.filter Option.isNone).length < rvs.length) : fillSlots known rvs = none := by
  cases hf : fillSlots known rvs with
  | none => rfl
  | some parts => have := (fillSlots_length_exact known rvs parts hf).1; omega

/-- Missing items are refused too. -/
theorem fillSlots_short (known : List (Option Val)) (rvs : List Val)
    (h : rvs.length < (known.filter Option.isNone).length) : fillSlots known rvs = none := by
  cases hf : fillSlots known rvs with
  | none => rfl
  | some parts => have := (fillSlots_length_exact known rvs parts hf).1; omega

/-- The specification side of the same fact: a comparison pattern with several open slots is
inverted only by a sequence with exactly that many items. -/
theorem Inverts_cmp_length_exact (ops : List CmpOp) (known : List (Option Val)) (v : Val)
    (parts : List Val) (h : Inverts (.cmp ops) known v parts)
    (hs : (known.filter Option.isNone).length ≠ 1) :
    ∃ rvs, seqItems v = some rvs ∧ rvs.length = (known.filter Option.isNone).length ∧
      parts.length = known.length := by
  simp only [Inverts] at h
  obtain ⟨_, rvs, hr, hf, _⟩ := h
  simp only [hs, if_false] at hr
  have := fillSlots_length_exact known rvs parts hf
  exact ⟨rvs, hr.2, this.1, this.2⟩

/-- **`comparison_destructure_length_exact`**: when `ComparisonOperator::destructure` accepts a value
for a pattern with several open slots, the value is a sequence whose number of items EQUALS the
number of open slots (neither fewer nor more), and every operand position receives a value.  (With one
open slot the whole value goes to that slot and is not unpacked.) -/
theorem comparison_destructure_length_exact (ops : List CmpOp) (known : List (Option Val)) (v : Val)
    (parts : List Val) (h : destructure (.cmp ops) v known = .ok parts)
    (hs : (known.filter Option.isNone).length ≠ 1) :
    ∃ rvs, seqItems v = some rvs ∧ rvs.length = (known.filter Option.isNone).length ∧
      parts.length = known.length :=
  Inverts_cmp_length_exact ops known v parts ((cmp_iff_Inverts ops known v parts).1 h) hs

/-- Contrapositive, as the interpreter reports it: a sequence that is too long (or too short) for a
multi-slot comparison pattern is never accepted. -/
theorem comparison_destructure_wrong_length (ops : List CmpOp) (known : List (Option Val)) (v : Val)
    (rvs : List Val) (hv : seqItems v = some rvs)
    (hs : (known.filter Option.isNone).length ≠ 1)
    (hne : rvs.length ≠ (known.filter Option.isNone).length) (parts : List Val) :
    destructure (.cmp ops) v known ≠ .ok parts := by
  intro h
  obtain ⟨rvs', hv', hl, _⟩ := comparison_destructure_length_exact ops known v parts h hs
  rw [hv] at hv'; cases hv'; exact hne hl

/-- `a < b := [1, 2, 3]` raises; `a < b < c := [1, 2, 3]` binds all three. -/
example : (destructure (.cmp [.lt]) (.list [.int 1, .int 2, .int 3]) [none, none]) matches .throw := by
  decide +kernel
example : (destructure (.cmp [.lt, .lt]) (.list [.int 1, .int 2, .int 3]) [none, none, none])
    matches .ok [.int 1, .int 2, .int 3] := by decide +kernel
example : (destructure (.cmp [.lt, .lt]) (.list [.int 1, .int 9, .int 10]) [none, some (.int 5), none])
    matches .throw := by decide +kernel
/-- the same through `assign`: declaring `a < b := [1, 2, 3]` raises and binds nothing -/
example : (assign [[]] (.destr (.cmp [.lt]) [.ident 0 [], .ident 1 []]) (some .any)
    (.list [.int 1, .int 2, .int 3])).2 matches .throw := by decide +kernel

/-- **`destructure_iff_Inverts`**: every destructuring builtin computes exactly the inverse image
`Inverts` of its constructor — sound and complete, for every value and every literal/open-slot
layout (numbers are exact; float operands are outside the model and refused on both sides). -/
theorem destructure_iff_Inverts (f : Bi) (known : List (Option Val)) (v : Val) (parts : List Val) :
    destructure f v known = .ok parts ↔ Inverts f known v parts := by
  cases f with
  | plus => exact plus_iff_Inverts known v parts
  | minus => exact minus_iff_Inverts known v parts
  | times => exact times_iff_Inverts known v parts
  | divide => exact divide_iff_Inverts known v parts
  | append => exact append_iff_Inverts known v parts
  | prepend => exact prepend_iff_Inverts known v parts
  | cmp ops => exact cmp_iff_Inverts ops known v parts
  | other t => simp [destructure, Inverts]

theorem destructure_iff_Inverts_holds : destructure_iff_Inverts_statement :=
  fun f known v parts _ => destructure_iff_Inverts f known v parts

end Noulith.C12
