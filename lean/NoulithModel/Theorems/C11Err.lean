/-
C11, part 9 — streams driven by a function that may stop (`break`) or raise.

`iterate(x, f)` computes one step ahead, but a `break` / an error of the look-ahead call is only
recorded: the n-th element needs exactly n successful applications of the step function, the
stream ends (or raises) exactly AFTER the last defined element.  For `lazy_map` an error in producing
element k does not affect the elements before k.
-/
import NoulithModel.Theorems.C11Iter

namespace Noulith.C11
open Noulith Noulith.Stream Noulith.StreamSpec

/-- `n` successful applications of the step function -/
def applyN {α : Type} (f : α → FnRes α) : Nat → α → Option α
  | 0, x => some x
  | n + 1, x =>
    match f x with
    | .ok y => applyN f n y
    | _ => none

theorem iterate_next_run {α : Type} (f : α → FnRes α) (x : α) :
    ∃ s', IterateE.next f (.run x) = some (.ok x, s') := by
  simp only [IterateE.next]
  cases f x <;> exact ⟨_, rfl⟩

/-- **the n-th element of `iterate(x, f)` needs exactly n applications of `f`**: whatever `f` does
on the n-th element itself (continue, `break`, raise), that element is yielded -/
theorem iterate_yields_before_step {α : Type} (f : α → FnRes α) :
    ∀ (n : Nat) (x y : α), applyN f n x = some y →
      nth (IterateE.next f) n (.run x) = some (.ok y) := by
  intro n
  induction n with
  | zero =>
    intro x y h
    simp only [applyN, Option.some.injEq] at h
    subst h
    obtain ⟨s', hs⟩ := iterate_next_run f x
    unfold nth
    simp [hs]
  | succ n ih =>
    intro x y h
    unfold applyN at h
    cases hf : f x with
    | ok x' =>
      rw [hf] at h
      unfold nth
      simp only [IterateE.next, hf]
      exact ih x' y h
    | stop => rw [hf] at h; cases h
    | fail => rw [hf] at h; cases h

/-- through the consumer: `s[n]` is that element -/
theorem iterate_index_before_step {α : Type} (f : α → FnRes α) (n : Nat) (x y : α)
    (h : applyN f n x = some y) :
    StrmE.index ⟨IterateE.St α, IterateE.ops f, .run x⟩ (n : Int) = .ok y := by
  have h0 : (0 : Int) ≤ (n : Int) := by omega
  show (defaultIndex (IterateE.next f) (defaultForceE (IterateE.next f) (IterateE.bound f))
    (.run x) (n : Int)).bind StrmE.unItem = .ok y
  unfold defaultIndex
  simp [h0, iterate_yields_before_step f n x y h, R.bind, StrmE.unItem]

/-- the state after `n` successful steps -/
theorem iterate_dropN {α : Type} (f : α → FnRes α) :
    ∀ (n : Nat) (x y : α), applyN f n x = some y →
      dropN (IterateE.next f) n (.run x) = .run y := by
  intro n
  induction n with
  | zero => intro x y h; simp only [applyN, Option.some.injEq] at h; subst h; rfl
  | succ n ih =>
    intro x y h
    unfold applyN at h
    cases hf : f x with
    | ok x' =>
      rw [hf] at h
      simp only [dropN, IterateE.next, hf]
      exact ih x' y h
    | stop => rw [hf] at h; cases h
    | fail => rw [hf] at h; cases h

/-- **the stream ends exactly after the last defined element** when the step function `break`s -/
theorem iterate_ends_after_stop {α : Type} (f : α → FnRes α) :
    ∀ (n : Nat) (x y : α), applyN f n x = some y → f y = .stop →
      nth (IterateE.next f) (n + 1) (.run x) = none := by
  intro n
  induction n with
  | zero =>
    intro x y h hstop
    simp only [applyN, Option.some.injEq] at h
    subst h
    unfold nth
    simp only [IterateE.next, hstop]
    unfold nth
    simp [IterateE.next]
  | succ n ih =>
    intro x y h hstop
    unfold applyN at h
    cases hf : f x with
    | ok x' =>
      rw [hf] at h
      unfold nth
      simp only [IterateE.next, hf]
      exact ih x' y h hstop
    | stop => rw [hf] at h; cases h
    | fail => rw [hf] at h; cases h

/-- **… and raises exactly after the last defined element** when the step function raises -/
theorem iterate_raises_after_fail {α : Type} (f : α → FnRes α) :
    ∀ (n : Nat) (x y : α), applyN f n x = some y → f y = .fail →
      nth (IterateE.next f) (n + 1) (.run x) = some .err := by
  intro n
  induction n with
  | zero =>
    intro x y h hfail
    simp only [applyN, Option.some.injEq] at h
    subst h
    unfold nth
    simp only [IterateE.next, hfail]
    unfold nth
    simp [IterateE.next]
  | succ n ih =>
    intro x y h hfail
    unfold applyN at h
    cases hf : f x with
    | ok x' =>
      rw [hf] at h
      unfold nth
      simp only [IterateE.next, hf]
      exact ih x' y h hfail
    | stop => rw [hf] at h; cases h
    | fail => rw [hf] at h; cases h

/-! ### lazy_map: an error at element k leaves the elements before k alone -/

theorem mapE_prefix {σ β γ : Type} (inner : σ → Option (Item β × σ)) (f : β → FnRes γ) (g : β → γ) :
    ∀ (k : Nat) (s : σ) (vs : List β), vs.length = k →
      takeN inner k s = vs.map Item.ok → (∀ v ∈ vs, f v = .ok (g v)) →
      takeN (mapNextE inner f) k (some s) = (vs.map g).map Item.ok := by
  intro k
  induction k with
  | zero =>
    intro s vs hl _ _
    have : vs = [] := List.eq_nil_of_length_eq_zero hl
    subst this
    rfl
  | succ k ih =>
    intro s vs hl ht hf
    cases vs with
    | nil => simp at hl
    | cons v vs' =>
      simp only [takeN] at ht
      cases hi : inner s with
      | none => rw [hi] at ht; simp at ht
      | some p =>
        rw [hi] at ht
        simp only [List.map_cons, List.cons.injEq] at ht
        obtain ⟨hp1, hp2⟩ := ht
        have hp : p = (Item.ok v, p.2) := by rw [← hp1]
        simp only [takeN, mapNextE, hi]
        rw [hp]
        simp only [hf v (by simp), List.map_cons]
        rw [ih p.2 vs' (by simpa using hl) hp2 (fun u hu => hf u (by simp [hu]))]

/-- the window of a slice that contains only values is returned as it is -/
theorem unItems_ok {β : Type} (l : List β) : StrmE.unItems (l.map Item.ok) = .ok l := by
  induction l with
  | nil => rfl
  | cons x xs ih => simp [StrmE.unItems, ih, R.map, R.bind]

end Noulith.C11
