/-
C16 — Text and byte codecs round-trip and conversions are exact.

Property theorems about the Impl model (NoulithModel/Impl/Codec.lean) against the Spec
(NoulithModel/Spec/CodecSpec.lean).  Every statement quantifies over ALL inputs (integers of any
size and sign in both representations, every base, every string of the number grammar, every byte
list, every list of scalar values, every nested JSON-shaped value); none is a bounded enumeration.
-/
import NoulithModel.Spec.CodecSpec

namespace Noulith.C16
open Noulith Noulith.Codec Noulith.CodecSpec

/-! ## 1. positional notation -/

theorem digitChar_eq (d : Nat) : digitChar d = digitSym false d := by
  unfold digitChar digitSym; split <;> simp
theorem digitCharUpper_eq (d : Nat) : digitCharUpper d = digitSym true d := by
  unfold digitCharUpper digitSym; split <;> simp

theorem digitsLE_zero (b : Nat) : digitsLE b 0 = [] := by
  rw [digitsLE]; simp

theorem digitsLE_pos {b n : Nat} (hb : 2 ≤ b) (hn : 0 < n) :
    digitsLE b n = (n % b) :: digitsLE b (n / b) := by
  rw [digitsLE]; simp; omega

theorem digitsLE_eq_nil {b n : Nat} (hb : 2 ≤ b) : digitsLE b n = [] ↔ n = 0 := by
  constructor
  · intro h
    rcases Nat.eq_zero_or_pos n with h0 | h0
    · exact h0
    · rw [digitsLE_pos hb h0] at h; cases h
  · intro h; subst h; exact digitsLE_zero b

theorem digits_small {b n : Nat} (h : n < b) : digits b n = [n] := by
  rw [digits]; simp [h]

theorem digits_big {b n : Nat} (hb : 2 ≤ b) (h : b ≤ n) : digits b n = digits b (n / b) ++ [n % b] := by
  rw [digits]; simp; omega

/-- the code's push-then-reverse digit loop yields the most-significant-first digits -/
theorem digitsLE_reverse {b : Nat} (hb : 2 ≤ b) : ∀ n, 0 < n → (digitsLE b n).reverse = digits b n := by
  intro n
  induction n using Nat.strongRecOn with
  | _ n ih =>
    intro hn
    rw [digitsLE_pos hb hn]
    by_cases h : n < b
    · have : n / b = 0 := Nat.div_eq_of_lt h
      rw [this, digitsLE_zero, digits_small h, Nat.mod_eq_of_lt h]; rfl
    · have h' : b ≤ n := Nat.le_of_not_lt h
      have hq : 0 < n / b := Nat.div_pos h' (by omega)
      have hlt : n / b < n := Nat.div_lt_self hn (by omega)
      rw [digits_big hb h', List.reverse_cons, ih (n / b) hlt hq]

theorem ofDigits_append (b : Nat) (ds : List Nat) (d : Nat) : ofDigits b (ds ++ [d]) = b * ofDigits b ds + d := by
  simp [ofDigits, List.foldl_append]

/-- the digits denote the number -/
theorem ofDigits_digits {b : Nat} (hb : 2 ≤ b) : ∀ n, ofDigits b (digits b n) = n := by
  intro n
  induction n using Nat.strongRecOn with
  | _ n ih =>
    by_cases h : n < b
    · rw [digits_small h]; simp [ofDigits]
    · have h' : b ≤ n := Nat.le_of_not_lt h
      have hlt : n / b < n := Nat.div_lt_self (by omega) (by omega)
      rw [digits_big hb h', ofDigits_append, ih _ hlt]
      exact Nat.div_add_mod n b

theorem digits_lt {b : Nat} (hb : 2 ≤ b) : ∀ n, ∀ d ∈ digits b n, d < b := by
  intro n
  induction n using Nat.strongRecOn with
  | _ n ih =>
    by_cases h : n < b
    · rw [digits_small h]; intro d hd; simp at hd; omega
    · have h' : b ≤ n := Nat.le_of_not_lt h
      have hlt : n / b < n := Nat.div_lt_self (by omega) (by omega)
      rw [digits_big hb h']
      intro d hd
      rw [List.mem_append] at hd
      rcases hd with hd | hd
      · exact ih _ hlt d hd
      · simp at hd; subst hd; exact Nat.mod_lt _ (by omega)

theorem digits_ne_nil (b n : Nat) : digits b n ≠ [] := by
  rw [digits]; split <;> simp

/-- no leading zero, except for the number zero itself -/
theorem digits_head {b : Nat} (hb : 2 ≤ b) : ∀ n, 0 < n → ∃ d rest, digits b n = d :: rest ∧ 0 < d := by
  intro n
  induction n using Nat.strongRecOn with
  | _ n ih =>
    intro hn
    by_cases h : n < b
    · exact ⟨n, [], digits_small h, hn⟩
    · have h' : b ≤ n := Nat.le_of_not_lt h
      have hlt : n / b < n := Nat.div_lt_self (by omega) (by omega)
      have hq : 0 < n / b := Nat.div_pos h' (by omega)
      obtain ⟨d, rest, e, hd⟩ := ih _ hlt hq
      exact ⟨d, rest ++ [n % b], by rw [digits_big hb h', e]; rfl, hd⟩

theorem digits_length_one {b : Nat} (hb : 2 ≤ b) {n : Nat} (h : b ≤ n) : (digits b n).length > 1 := by
  rw [digits_big hb h]
  have := digits_ne_nil b (n / b)
  cases hx : digits b (n / b) with
  | nil => exact absurd hx this
  | cons a t => simp

/-- `digits b n` is a positional notation of `n` -/
theorem digits_isNotation {b : Nat} (hb : 2 ≤ b) (n : Nat) : IsNotation b (digits b n) n := by
  refine ⟨digits_ne_nil b n, digits_lt hb n, ?_, ofDigits_digits hb n⟩
  intro hlen
  rcases Nat.eq_zero_or_pos n with h0 | h0
  · subst h0; rw [digits_small (by omega)] at hlen; simp at hlen
  · obtain ⟨d, rest, e, hd⟩ := digits_head hb n h0
    rw [e]; simp; omega

theorem ofDigits_pos {b : Nat} (hb : 2 ≤ b) : ∀ (ds : List Nat) (acc : Nat), 0 < acc →
    0 < ds.foldl (fun acc d => b * acc + d) acc := by
  intro ds
  induction ds with
  | nil => intro acc h; simpa using h
  | cons d t ih =>
    intro acc h
    simp only [List.foldl_cons]
    apply ih
    have : 0 < b * acc := Nat.mul_pos (by omega) h
    omega

/-- ... and the only one: positional notation is unique -/
theorem isNotation_unique_aux {b : Nat} (hb : 2 ≤ b) : ∀ (k : Nat) (ds : List Nat) (n : Nat), ds.length = k →
    IsNotation b ds n → ds = digits b n := by
  intro k
  induction k with
  | zero => intro ds n hl h; exact absurd (List.eq_nil_of_length_eq_zero hl) h.1
  | succ k ih =>
    intro ds n hl ⟨hne, hlt, hlead, hval⟩
    rcases List.eq_nil_or_concat ds with h | ⟨init, d, h⟩
    · exact absurd h hne
    rw [List.concat_eq_append] at h
    subst h
    rw [ofDigits_append] at hval
    have hd : d < b := hlt d (by simp)
    cases init with
    | nil =>
      simp [ofDigits] at hval
      subst hval
      rw [digits_small hd]; rfl
    | cons a t =>
      have ha : a ≠ 0 := by
        have := hlead (by simp)
        simpa using this
      have hpos : 0 < ofDigits b (a :: t) := by
        unfold ofDigits
        simp only [List.foldl_cons]
        apply ofDigits_pos hb
        have : 0 < a := Nat.pos_of_ne_zero ha
        omega
      have hn : b ≤ n := by
        have : b * 1 ≤ b * ofDigits b (a :: t) := Nat.mul_le_mul_left b hpos
        omega
      have hdiv : n / b = ofDigits b (a :: t) := by
        rw [← hval, Nat.mul_add_div (by omega), Nat.div_eq_of_lt hd]; rfl
      have hmod : n % b = d := by
        rw [← hval, Nat.mul_add_mod]; exact Nat.mod_eq_of_lt hd
      rw [digits_big hb hn, hmod]
      congr 1
      apply ih
      · simp at hl ⊢; omega
      refine ⟨by simp, ?_, ?_, hdiv.symm⟩
      · intro x hx; exact hlt x (by simp at hx ⊢; rcases hx with h | h; exact Or.inl h; exact Or.inr (Or.inl h))
      · intro _; simpa using ha

/-- ... and the only one: positional notation is unique -/
theorem isNotation_unique {b : Nat} (hb : 2 ≤ b) (ds : List Nat) (n : Nat) (h : IsNotation b ds n) :
    ds = digits b n := isNotation_unique_aux hb ds.length ds n rfl h

/-- `BigUint::to_str_radix` / `{:x}` as modelled = the Spec's text of a natural number -/
theorem natRadix_eq_spec {b : Nat} (hb : 2 ≤ b) (upper : Bool) (n : Nat) :
    natRadix upper b n = showNat upper b n := by
  unfold natRadix showNat
  by_cases h0 : n = 0
  · subst h0; rw [digits_small (by omega)]; simp [digitSym]
  · simp only [h0, if_false]
    rw [digitsLE_reverse hb n (Nat.pos_of_ne_zero h0)]
    cases upper
    · simp only [Bool.false_eq_true, if_false]
      exact List.map_congr_left (fun d _ => digitChar_eq d)
    · simp only [if_true]
      exact List.map_congr_left (fun d _ => digitCharUpper_eq d)

/-! ## 2. rendering of integers: `str`, `$`, `print`, format-string flags -/

theorem fmtBig_eq_spec (base : FmtBase) (v : Int) : fmtBig base v = showFmt base v := by
  have hb : 2 ≤ base.radix := by cases base <;> decide
  unfold fmtBig showFmt showInt
  rw [natRadix_eq_spec hb]

theorem fmtI64_decimal_eq_spec (v : Int) : fmtI64 .decimal v = showFmt .decimal v := by
  unfold fmtI64 showFmt showInt
  simp only [FmtBase.upper, FmtBase.radix]
  rw [natRadix_eq_spec (by decide)]

theorem fmtI64_nonneg_eq_spec (base : FmtBase) (v : Int) (hv : 0 ≤ v) : fmtI64 base v = showFmt base v := by
  cases base
  · exact fmtI64_decimal_eq_spec v
  all_goals
    unfold fmtI64 showFmt showInt
    have h : ¬ v < 0 := by omega
    simp only [h, if_false]
    rw [natRadix_eq_spec (by decide)]
    congr 1
    omega

/-- the model of nint.rs `forward_display!` prints, in every base and BOTH representations, the
Spec's sign-and-magnitude positional notation of the value -/
theorem fmtNInt_eq_spec (base : FmtBase) (n : NInt) : fmtNInt base n = showFmt base n.val := by
  cases n with
  | small v =>
    cases base
    · exact fmtI64_decimal_eq_spec v
    all_goals
      simp only [fmtNInt, NInt.val]
      split
      · exact fmtBig_eq_spec _ v
      · exact fmtI64_nonneg_eq_spec _ v (by omega)
  | big v => exact fmtBig_eq_spec base v

/-- **render_repr_independent**: the rendering of an integer in base 2 / 8 / 10 / 16 (`str`, `$`,
`print`, `F"{n}"`, `#x #X #b #o #d`) depends only on its value, never on the representation.
No well-formedness hypothesis is needed. -/
theorem render_repr_independent (base : FmtBase) (a b : NInt) (h : a.val = b.val) :
    fmtNInt base a = fmtNInt base b := by
  rw [fmtNInt_eq_spec, fmtNInt_eq_spec, h]

theorem render_repr_independent_small_big (base : FmtBase) (v : Int) :
    fmtNInt base (.small v) = fmtNInt base (.big v) := render_repr_independent base _ _ rfl

/-- with padding flags as well -/
theorem fmtNumWith_repr_independent (fl : Flags) (a b : NInt) (h : a.val = b.val) :
    fmtNumWith fl a = fmtNumWith fl b := by
  unfold fmtNumWith; rw [render_repr_independent fl.base a b h]

/-- padded rendering = Spec: pad the Spec's text to the minimum width -/
theorem fmtNumWith_eq_spec (fl : Flags) (n : NInt) :
    fmtNumWith fl n = padTo fl.align fl.pad fl.padLength (showFmt fl.base n.val) := by
  unfold fmtNumWith padTo
  rw [fmtNInt_eq_spec]
  generalize (showFmt fl.base n.val) = s
  have hk : (if s.length < fl.padLength then fl.padLength - s.length else 0) = fl.padLength - s.length := by
    split <;> omega
  simp only [hk]
  cases fl.align <;> simp

/-- what the unfixed code did (finding F8): `i64`'s own `{:x}` of a negative number is not the
sign-and-magnitude text, so routing a negative `Small` to it made the rendering depend on the
representation.  (Witness −1: the two texts have different lengths.) -/
theorem fmtI64_hex_negative_differs : fmtI64 .lowerHex (-1) ≠ fmtBig .lowerHex (-1) := by
  intro h
  have h2 := congrArg List.length h
  have e1 : fmtBig .lowerHex (-1) = [45, 49] := by
    simp [fmtBig, natRadix, FmtBase.radix, FmtBase.upper, digitsLE, digitChar]
  have e2 : (fmtI64 .lowerHex (-1)).length = 16 := by
    simp [fmtI64, natRadix, FmtBase.radix, FmtBase.upper, digitsLE]
  rw [e1, e2] at h2
  simp at h2

/-! ## 3. `int(str(n)) == n`, `number(str(n)) == n` -/

theorem ofDigitsBE_eq (ds : List Nat) : ofDigitsBE ds = ofDigits 10 ds := rfl

theorem bigDigits_digitText (ds : List Nat) (h : ∀ x ∈ ds, x < 10) : bigDigits (digitText ds) = some ds := by
  induction ds with
  | nil => rfl
  | cons d t ih =>
    have hd : d < 10 := h d (by simp)
    have ht := ih (fun x hx => h x (by simp [hx]))
    simp only [digitText, List.map_cons] at ht ⊢
    unfold bigDigits
    have h1 : ¬ (48 + d = 95) := by omega
    have h2 : 48 ≤ 48 + d ∧ 48 + d ≤ 57 := by omega
    simp only [h1, h2, if_false, and_self, if_true, ht, Option.map_some]
    congr 2; omega

theorem asciiDigits_digitText (ds : List Nat) (h : ∀ x ∈ ds, x < 10) : asciiDigits (digitText ds) = some ds := by
  induction ds with
  | nil => rfl
  | cons d t ih =>
    have hd : d < 10 := h d (by simp)
    have ht := ih (fun x hx => h x (by simp [hx]))
    simp only [digitText, List.map_cons] at ht ⊢
    unfold asciiDigits
    have h2 : isAsciiDigit (48 + d) = true := by simp [isAsciiDigit]; omega
    simp only [h2, if_true, ht, Option.map_some]
    congr 2; omega

/-- the unsigned parser on a non-empty run of decimal digits -/
theorem parseBigUint_digitText (ds : List Nat) (hne : ds ≠ []) (h : ∀ x ∈ ds, x < 10) :
    parseBigUint (digitText ds) = some (ofDigits 10 ds) := by
  cases ds with
  | nil => exact absurd rfl hne
  | cons d t =>
    have hd : d < 10 := h d (by simp)
    have hb := bigDigits_digitText (d :: t) h
    simp only [digitText, List.map_cons] at hb ⊢
    have e1 : stripPlus ((48 + d) :: List.map (fun x => 48 + x) t) = (48 + d) :: List.map (fun x => 48 + x) t := by
      simp [stripPlus]; omega
    unfold parseBigUint
    simp only [e1]
    have e2 : startsWith 95 ((48 + d) :: List.map (fun x => 48 + x) t) = false := by
      simp [startsWith]; omega
    simp [e2, hb, ofDigitsBE_eq]

theorem parseBigUint_plus_digitText (ds : List Nat) (hne : ds ≠ []) (h : ∀ x ∈ ds, x < 10) :
    parseBigUint (43 :: digitText ds) = some (ofDigits 10 ds) := by
  have hp := parseBigUint_digitText ds hne h
  cases ds with
  | nil => exact absurd rfl hne
  | cons d t =>
    have hd : d < 10 := h d (by simp)
    simp only [digitText, List.map_cons] at hp ⊢
    unfold parseBigUint at hp ⊢
    have e1 : stripPlus (43 :: (48 + d) :: List.map (fun x => 48 + x) t) = (48 + d) :: List.map (fun x => 48 + x) t := by
      simp [stripPlus, startsWith]; omega
    have e0 : stripPlus ((48 + d) :: List.map (fun x => 48 + x) t) = (48 + d) :: List.map (fun x => 48 + x) t := by
      simp [stripPlus]; omega
    rw [e1]; rw [e0] at hp; exact hp

/-- `s.parse::<BigInt>()` reads every plain integer literal `[+-] digits` (leading zeros allowed) exactly -/
theorem parseBigInt_intLit (l : IntLit) (hl : l.WF) : parseBigInt l.render = some l.value := by
  obtain ⟨hne, hd⟩ := hl
  obtain ⟨sign, ds⟩ := l
  simp only at hne hd
  cases ds with
  | nil => exact absurd rfl hne
  | cons d t =>
    have hd0 : d < 10 := hd d (by simp)
    have hu := parseBigUint_digitText (d :: t) hne hd
    have hpl := parseBigUint_plus_digitText (d :: t) hne hd
    rcases sign with _ | _ | _
    · -- no sign
      simp only [IntLit.render, signText, List.nil_append, IntLit.value, signNeg] at *
      simp only [digitText, List.map_cons] at hu ⊢
      unfold parseBigInt
      have : ¬ (48 + d = 45) := by omega
      simp only [this, if_false, hu, Option.map_some]; rfl
    · -- '+'
      simp only [IntLit.render, signText, IntLit.value, signNeg, List.cons_append, List.nil_append] at *
      unfold parseBigInt
      have : ¬ ((43 : Nat) = 45) := by decide
      simp only [this, if_false, hpl, Option.map_some]; rfl
    · -- '-'
      simp only [IntLit.render, signText, IntLit.value, signNeg, List.cons_append, List.nil_append] at *
      unfold parseBigInt
      have e : startsWith 43 (digitText (d :: t)) = false := by
        simp [startsWith, digitText]; omega
      simp [e, hu]

theorem showNat10_eq_digitText (m : Nat) : showNat false 10 m = digitText (digits 10 m) := by
  unfold showNat digitText
  apply List.map_congr_left
  intro d hd
  have := digits_lt (by decide : 2 ≤ 10) m d hd
  simp [digitSym, this]

/-- the decimal text of an integer is the plain literal with an optional `-` and the digits of the magnitude -/
theorem showInt10_eq_render (v : Int) :
    showInt false 10 v = IntLit.render { sign := if v < 0 then some true else none, ds := digits 10 v.natAbs } := by
  unfold showInt IntLit.render
  rw [showNat10_eq_digitText]
  split <;> simp [signText]

/-- **int_str_roundtrip**: `int(str(n)) == n` for every integer of any size and sign in either
representation (`str`, `$`, `repr`, `F"{n}"` all print `showNInt`) -/
theorem int_str_roundtrip (n : NInt) : intOfStr (showNInt n) = .ok n.val := by
  unfold intOfStr showNInt
  rw [fmtNInt_eq_spec]
  show (match parseBigInt (showInt false 10 n.val) with | some v => Out.ok v | none => Out.throw) = _
  rw [showInt10_eq_render, parseBigInt_intLit _ ⟨digits_ne_nil _ _, digits_lt (by decide) _⟩]
  simp only [IntLit.value, ofDigits_digits (by decide : 2 ≤ 10)]
  congr 1
  split <;> simp [signNeg] <;> omega

/-- `number(str(n)) == n`: the integer parser already succeeds, the float parser is never consulted -/
theorem number_str_roundtrip (n : NInt) : numberOfStr (showNInt n) = .int n.val := by
  have h := int_str_roundtrip n
  unfold intOfStr at h
  unfold numberOfStr
  cases hp : parseBigInt (showNInt n) with
  | none => rw [hp] at h; cases h
  | some v => rw [hp] at h; injection h with h; simp [h]

/-- `int(s)` / `number(s)` on every plain literal, including `+` and leading zeros -/
theorem int_of_literal (l : IntLit) (hl : l.WF) : intOfStr l.render = .ok l.value := by
  unfold intOfStr; rw [parseBigInt_intLit l hl]

example : intOfStr [45, 48, 48, 55] = .ok (-7) := by decide

/-! ## 4. `str_radix` / `int_radix` -/

/-- for a valid base, `str_radix(a, b)` is the Spec's text: the positional notation of `|a|` in base
`b` with digits `0-9a-z`, `-` prefixed for negatives, `"0"` for zero -/
theorem strRadix_eq_spec (a r : Int) (h : 2 ≤ r ∧ r ≤ 36) :
    strRadix a r = .ok (showInt false r.toNat a) := by
  have hb : 2 ≤ r.toNat := by omega
  have hu : inU32 r := by unfold inU32; omega
  unfold strRadix
  simp only [hu, h, and_self, if_true]
  congr 1
  unfold showInt
  have key : (let ret := (digitsLE r.toNat a.natAbs).map digitChar
              (if ret.isEmpty then [48] else ret)).reverse = showNat false r.toNat a.natAbs := by
    rw [← natRadix_eq_spec hb]
    unfold natRadix
    by_cases h0 : a.natAbs = 0
    · rw [h0, digitsLE_zero]; simp
    · have : digitsLE r.toNat a.natAbs ≠ [] := fun hx => h0 ((digitsLE_eq_nil hb).mp hx)
      cases hx : digitsLE r.toNat a.natAbs with
      | nil => exact absurd hx this
      | cons d t => simp [h0]
  by_cases hneg : a < 0
  · simp only [hneg, if_true, decide_true] at key ⊢
    rw [List.reverse_append]
    simp only [List.reverse_cons, List.reverse_nil, List.nil_append, List.singleton_append]
    congr 1
  · simp only [hneg, if_false, decide_false, Bool.false_eq_true] at key ⊢
    exact key

/-- bases outside 2..36 are refused with a Noulith error (never a panic) -/
theorem strRadix_bad_base (a r : Int) (h : ¬ (2 ≤ r ∧ r ≤ 36)) : strRadix a r = .throw := by
  unfold strRadix; split <;> simp [h]

theorem toDigit_digitSym {base d : Nat} (hd : d < base) (hb : base ≤ 36) :
    toDigit (digitSym false d) base = some d := by
  unfold toDigit charDigit36 digitSym
  by_cases h10 : d < 10
  · have h1 : 48 ≤ 48 + d ∧ 48 + d ≤ 57 := by omega
    simp [h10, h1, hd]
  · have h1 : ¬ (48 ≤ 87 + d ∧ 87 + d ≤ 57) := by omega
    have h2 : 97 ≤ 87 + d ∧ 87 + d ≤ 122 := by omega
    simp [h10, h1, h2, hd]

theorem radixLoop_digits {base : Nat} (hb : base ≤ 36) : ∀ (ds : List Nat) (x : Nat), (∀ d ∈ ds, d < base) →
    radixLoop base x (ds.map (digitSym false)) = some (ds.foldl (fun acc d => base * acc + d) x) := by
  intro ds
  induction ds with
  | nil => intro x _; rfl
  | cons d t ih =>
    intro x h
    simp only [List.map_cons, radixLoop, toDigit_digitSym (h d (by simp)) hb, List.foldl_cons]
    exact ih _ (fun y hy => h y (by simp [hy]))

/-- `int_radix` reads back the positional notation of any natural number -/
theorem intRadix_showNat (n : Nat) (r : Int) (h : 2 ≤ r ∧ r ≤ 36) :
    intRadix (showNat false r.toNat n) r = .ok (n : Int) := by
  have hb : 2 ≤ r.toNat := by omega
  have hu : inU32 r := by unfold inU32; omega
  unfold intRadix showNat
  simp only [hu, h, and_self, if_true]
  rw [radixLoop_digits (by omega) _ _ (digits_lt hb n)]
  have := ofDigits_digits hb n
  unfold ofDigits at this
  simp [this]

/-- **radix_roundtrip**: `int_radix(str_radix(n, b), b) == n` for every `n ≥ 0` and every base 2..36 -/
theorem radix_roundtrip (n r : Int) (hn : 0 ≤ n) (h : 2 ≤ r ∧ r ≤ 36) :
    (strRadix n r).bind (fun s => intRadix s r) = .ok n := by
  rw [strRadix_eq_spec n r h]
  simp only [Out.bind, showInt]
  have : ¬ n < 0 := by omega
  simp only [this, if_false]
  rw [intRadix_showNat _ r h]
  congr 1; omega

/-- `str_radix` output is THE positional notation: its digit values form the unique digit list
without leading zero whose value is `|a|` -/
theorem strRadix_positional (a r : Int) (h : 2 ≤ r ∧ r ≤ 36) (ds : List Nat)
    (hds : IsNotation r.toNat ds a.natAbs) :
    strRadix a r = .ok ((if a < 0 then [45] else []) ++ ds.map (digitSym false)) := by
  rw [strRadix_eq_spec a r h, isNotation_unique (by omega) ds _ hds]
  unfold showInt showNat
  split <;> simp

/-- negative numbers get a `-`, which `int_radix` does not read: the round trip is stated for `n ≥ 0` only -/
theorem intRadix_rejects_sign (s : Str) (r : Int) : intRadix (45 :: s) r = .throw := by
  unfold intRadix
  split
  · split
    · simp [radixLoop, toDigit, charDigit36]
    · rfl
  · rfl

example : strRadix 0 2 = .ok [48] := by
  simp [strRadix, inU32, digitsLE]
example : strRadix (-255) 16 = .ok [45, 102, 102] := by
  simp [strRadix, inU32, digitsLE, digitChar]

/-! ## 5. hex -/

/-- the UTF-8 bytes of ASCII text are the text itself (the codecs hand `s.as_bytes()` around) -/
theorem utf8Encode_ascii (s : Str) (h : ∀ c ∈ s, c < 128) : utf8Encode s = s := by
  induction s with
  | nil => rfl
  | cons c t ih =>
    have hc : c < 128 := h c (by simp)
    simp only [utf8Encode, utf8EncodeChar, hc, if_true, List.singleton_append]
    rw [ih (fun x hx => h x (by simp [hx]))]

theorem hexEncode_eq_spec (bs : Bytes) : hexEncode bs = hexOf bs := by
  induction bs with
  | nil => rfl
  | cons b t ih => simp [hexEncode, hexOf, hexNibble, digitChar_eq, ih]

theorem hexVal_hexNibble {n : Nat} (h : n < 16) : hexVal (hexNibble n) = some n := by
  unfold hexVal hexNibble digitChar
  by_cases h10 : n < 10
  · have a : ¬ (65 ≤ 48 + n ∧ 48 + n ≤ 70) := by omega
    have b : ¬ (97 ≤ 48 + n ∧ 48 + n ≤ 102) := by omega
    have c : 48 ≤ 48 + n ∧ 48 + n ≤ 57 := by omega
    simp [h10, a, b, c]
  · have a : ¬ (65 ≤ 87 + n ∧ 87 + n ≤ 70) := by omega
    have b : 97 ≤ 87 + n ∧ 87 + n ≤ 102 := by omega
    simp [h10, a, b]; omega

theorem hexNibble_lt {n : Nat} (h : n < 16) : hexNibble n < 128 := by
  unfold hexNibble digitChar; split <;> omega

theorem hexEncode_ascii (bs : Bytes) (h : ∀ b ∈ bs, b < 256) : ∀ c ∈ hexEncode bs, c < 128 := by
  induction bs with
  | nil => intro c hc; simp [hexEncode] at hc
  | cons b t ih =>
    have hb : b < 256 := h b (by simp)
    intro c hc
    simp only [hexEncode, List.mem_cons] at hc
    rcases hc with hc | hc | hc
    · subst hc; exact hexNibble_lt (by omega)
    · subst hc; exact hexNibble_lt (by omega)
    · exact ih (fun x hx => h x (by simp [hx])) c hc

theorem hexEncode_length (bs : Bytes) : (hexEncode bs).length = 2 * bs.length := by
  induction bs with
  | nil => rfl
  | cons b t ih => simp [hexEncode, ih]; omega

theorem hexPairs_hexEncode (bs : Bytes) (h : ∀ b ∈ bs, b < 256) : hexPairs (hexEncode bs) = some bs := by
  induction bs with
  | nil => rfl
  | cons b t ih =>
    have hb : b < 256 := h b (by simp)
    simp only [hexEncode, hexPairs, hexVal_hexNibble (show b / 16 < 16 by omega),
      hexVal_hexNibble (show b % 16 < 16 by omega), ih (fun x hx => h x (by simp [hx])), Option.map_some]
    congr 2; omega

/-- **hex_inverse (1)**: `hex_decode(hex_encode(bs)) == bs` for every byte string -/
theorem hex_decode_encode (bs : Bytes) (h : ∀ b ∈ bs, b < 256) :
    hexDecode (utf8Encode (hexEncode bs)) = .ok bs := by
  rw [utf8Encode_ascii _ (hexEncode_ascii bs h)]
  unfold hexDecode
  rw [hexEncode_length, hexPairs_hexEncode bs h]
  simp

/-- ASCII lower-casing of a hex digit -/
def lowerHex (c : Nat) : Nat := if 65 ≤ c ∧ c ≤ 70 then c + 32 else c

theorem hexNibble_hexVal {c x : Nat} (h : hexVal c = some x) : x < 16 ∧ hexNibble x = lowerHex c := by
  unfold hexVal at h
  unfold hexNibble digitChar lowerHex
  split at h
  · injection h with h; subst h; rename_i hc
    simp only [hc, and_self, if_true]
    constructor
    · omega
    · have : ¬ (c - 65 + 10 < 10) := by omega
      simp only [this, if_false]; omega
  · split at h
    · injection h with h; subst h; rename_i hc1 hc
      simp only [hc1, if_false]
      constructor
      · omega
      · have : ¬ (c - 97 + 10 < 10) := by omega
        simp only [this, if_false]; omega
    · split at h
      · injection h with h; subst h; rename_i hc1 hc2 hc
        simp only [hc1, if_false]
        constructor
        · omega
        · have : c - 48 < 10 := by omega
          simp only [this, if_true]; omega
      · cases h

/-- induction two elements at a time -/
theorem pairInduct {motive : List Nat → Prop} (h0 : motive []) (h1 : ∀ a, motive [a])
    (h2 : ∀ a b rest, motive rest → motive (a :: b :: rest)) : ∀ l, motive l := by
  have : ∀ l, motive l ∧ ∀ a, motive (a :: l) := by
    intro l
    induction l with
    | nil => exact ⟨h0, h1⟩
    | cons b t ih => exact ⟨ih.2 b, fun a => h2 a b t ih.1⟩
  exact fun l => (this l).1

theorem hexPairs_sound : ∀ (s bs : Bytes), hexPairs s = some bs →
    hexEncode bs = s.map lowerHex ∧ ∀ b ∈ bs, b < 256 := by
  intro s
  induction s using pairInduct with
  | h0 => intro bs h; simp [hexPairs] at h; subst h; simp [hexEncode]
  | h1 x => intro bs h; simp [hexPairs] at h
  | h2 a b rest ih =>
    intro bs h
    simp only [hexPairs] at h
    cases ha : hexVal a with
    | none => simp [ha] at h
    | some x =>
      cases hb : hexVal b with
      | none => simp [ha, hb] at h
      | some y =>
        cases hr : hexPairs rest with
        | none => simp [ha, hb, hr] at h
        | some r =>
          simp [ha, hb, hr] at h
          subst h
          obtain ⟨hx, ex⟩ := hexNibble_hexVal ha
          obtain ⟨hy, ey⟩ := hexNibble_hexVal hb
          obtain ⟨e1, e2⟩ := ih r hr
          constructor
          · simp only [hexEncode, List.map_cons, e1]
            have q1 : (x * 16 + y) / 16 = x := by omega
            have q2 : (x * 16 + y) % 16 = y := by omega
            rw [q1, q2, ex, ey]
          · intro z hz
            simp only [List.mem_cons] at hz
            rcases hz with hz | hz
            · subst hz; omega
            · exact e2 z hz

/-- **hex_inverse (2)**: whatever `hex_decode` accepts is the hex text (in either case) of the bytes
it returns: `hex_encode(hex_decode(s)) == lower(s)` -/
theorem hex_encode_decode (s bs : Bytes) (h : hexDecode s = .ok bs) :
    hexEncode bs = s.map lowerHex ∧ ∀ b ∈ bs, b < 256 := by
  unfold hexDecode at h
  split at h
  · cases hp : hexPairs s with
    | none => simp [hp] at h
    | some r => simp [hp] at h; subst h; exact hexPairs_sound s r hp
  · cases h

/-- odd lengths and non-hex characters are Noulith errors, never panics -/
theorem hexDecode_no_panic (s : Bytes) : hexDecode s ≠ .panic := by
  unfold hexDecode; split
  · split <;> simp
  · simp

/-! ## 6. `chr` / `ord` -/

theorem isScalar_iff (c : Nat) : isScalar c ↔ IsScalar c := by
  unfold isScalar IsScalar; omega

/-- **chr_ord_inverse (1)**: `ord(chr(n)) == n` on every Unicode scalar value -/
theorem ord_chr (n : Int) (h0 : 0 ≤ n) (h : IsScalar n.toNat) : (chr n).bind ord = .ok n := by
  have hs := (isScalar_iff _).mpr h
  have hu : inU32 n := by unfold inU32; unfold IsScalar at h; omega
  simp only [chr, hu, hs, if_true, Out.bind, ord]
  congr 1; omega

/-- **chr_ord_inverse (2)**: `chr(ord(c)) == c` for every one-character string -/
theorem chr_ord (c : Nat) (h : IsScalar c) : (ord [c]).bind chr = .ok [c] := by
  have hs := (isScalar_iff _).mpr h
  have hu : inU32 (c : Int) := by unfold inU32; unfold IsScalar at h; omega
  simp only [ord, Out.bind, chr, hu, if_true, Int.toNat_natCast, hs]

/-- `chr` is defined exactly on the scalar values; everything else (negative, surrogates, above
U+10FFFF, beyond u32) is a Noulith error -/
theorem chr_defined_iff (n : Int) : (∃ s, chr n = .ok s) ↔ (0 ≤ n ∧ IsScalar n.toNat) := by
  unfold chr
  constructor
  · rintro ⟨s, h⟩
    split at h
    · rename_i hu
      split at h
      · rename_i hs; unfold inU32 at hu; exact ⟨hu.1, (isScalar_iff _).mp hs⟩
      · cases h
    · cases h
  · rintro ⟨h0, h⟩
    have hs := (isScalar_iff _).mpr h
    have hu : inU32 n := by unfold inU32; unfold IsScalar at h; omega
    exact ⟨[n.toNat], by simp [hu, hs]⟩

/-! ## 7. UTF-8 -/

theorem utf8EncodeChar_eq_spec (c : Nat) : utf8EncodeChar c = utf8Of c := by
  unfold utf8EncodeChar utf8Of
  by_cases h1 : c < 128
  · simp [h1, show c ≤ 127 by omega]
  · by_cases h2 : c < 2048
    · simp [h1, h2, show ¬ c ≤ 127 by omega, show c ≤ 2047 by omega]
    · by_cases h3 : c < 65536
      · simp [h1, h2, h3, show ¬ c ≤ 127 by omega, show ¬ c ≤ 2047 by omega, show c ≤ 65535 by omega]
      · simp [h1, h2, h3, show ¬ c ≤ 127 by omega, show ¬ c ≤ 2047 by omega, show ¬ c ≤ 65535 by omega]

/-- `String::as_bytes` as modelled = RFC 3629 -/
theorem utf8Encode_eq_spec (s : Str) : utf8Encode s = utf8OfStr s := by
  induction s with
  | nil => rfl
  | cons c t ih => simp [utf8Encode, utf8OfStr, utf8EncodeChar_eq_spec, ih]

theorem utf8Decode_enc1 (c : Nat) (rest : Bytes) (h : c < 128) :
    utf8Decode (utf8EncodeChar c ++ rest) = (utf8Decode rest).map (c :: ·) := by
  simp only [utf8EncodeChar, h, if_true, List.singleton_append]
  rw [utf8Decode.eq_def]; simp only [h, if_true]

theorem utf8Decode_enc2 (c : Nat) (rest : Bytes) (h1 : 128 ≤ c) (h2 : c < 2048) :
    utf8Decode (utf8EncodeChar c ++ rest) = (utf8Decode rest).map (c :: ·) := by
  have a : ¬ c < 128 := by omega
  simp only [utf8EncodeChar, a, h2, if_false, if_true, List.cons_append, List.nil_append]
  rw [utf8Decode.eq_def]
  have f1 : ¬ (192 + c / 64 < 128) := by omega
  have f2 : 194 ≤ 192 + c / 64 ∧ 192 + c / 64 ≤ 223 := by omega
  have f3 : isCont (128 + c % 64) = true := by simp [isCont]; omega
  have f4 : (192 + c / 64 - 192) * 64 + (128 + c % 64 - 128) = c := by omega
  simp only [f1, if_false, f2, and_self, if_true, f3, f4]

theorem utf8Decode_enc3 (c : Nat) (rest : Bytes) (h1 : 2048 ≤ c) (h2 : c < 65536) (hs : isScalar c) :
    utf8Decode (utf8EncodeChar c ++ rest) = (utf8Decode rest).map (c :: ·) := by
  have a : ¬ c < 128 := by omega
  have b : ¬ c < 2048 := by omega
  simp only [utf8EncodeChar, a, b, h2, if_false, if_true, List.cons_append, List.nil_append]
  rw [utf8Decode.eq_def]
  have f1 : ¬ (224 + c / 4096 < 128) := by omega
  have f2 : ¬ (194 ≤ 224 + c / 4096 ∧ 224 + c / 4096 ≤ 223) := by omega
  have f3 : 224 ≤ 224 + c / 4096 ∧ 224 + c / 4096 ≤ 239 := by omega
  have f4 : utf8Second3 (224 + c / 4096) (128 + c / 64 % 64) = true := by
    unfold isScalar at hs
    unfold utf8Second3
    split
    · simp; omega
    · split
      · simp; omega
      · simp [isCont]; omega
  have f5 : isCont (128 + c % 64) = true := by simp [isCont]; omega
  have f6 : (224 + c / 4096 - 224) * 4096 + (128 + c / 64 % 64 - 128) * 64 + (128 + c % 64 - 128) = c := by omega
  simp only [f1, if_false, f2, f3, and_self, if_true, f4, f5, Bool.and_self, f6]

theorem utf8Decode_enc4 (c : Nat) (rest : Bytes) (h1 : 65536 ≤ c) (hs : isScalar c) :
    utf8Decode (utf8EncodeChar c ++ rest) = (utf8Decode rest).map (c :: ·) := by
  have a : ¬ c < 128 := by omega
  have b : ¬ c < 2048 := by omega
  have d : ¬ c < 65536 := by omega
  have hmax : c ≤ 1114111 := by unfold isScalar at hs; omega
  simp only [utf8EncodeChar, a, b, d, if_false, List.cons_append, List.nil_append]
  rw [utf8Decode.eq_def]
  have f1 : ¬ (240 + c / 262144 < 128) := by omega
  have f2 : ¬ (194 ≤ 240 + c / 262144 ∧ 240 + c / 262144 ≤ 223) := by omega
  have f3 : ¬ (224 ≤ 240 + c / 262144 ∧ 240 + c / 262144 ≤ 239) := by omega
  have f3' : 240 ≤ 240 + c / 262144 ∧ 240 + c / 262144 ≤ 244 := by omega
  have f4 : utf8Second4 (240 + c / 262144) (128 + c / 4096 % 64) = true := by
    unfold utf8Second4
    split
    · simp; omega
    · split
      · simp; omega
      · simp [isCont]; omega
  have f5 : isCont (128 + c / 64 % 64) = true := by simp [isCont]; omega
  have f6 : isCont (128 + c % 64) = true := by simp [isCont]; omega
  have f7 : (240 + c / 262144 - 240) * 262144 + (128 + c / 4096 % 64 - 128) * 4096
      + (128 + c / 64 % 64 - 128) * 64 + (128 + c % 64 - 128) = c := by omega
  simp only [f1, if_false, f2, f3, f3', and_self, if_true, f4, f5, f6, Bool.and_self, f7]

theorem utf8Decode_encChar (c : Nat) (rest : Bytes) (hs : isScalar c) :
    utf8Decode (utf8EncodeChar c ++ rest) = (utf8Decode rest).map (c :: ·) := by
  by_cases h1 : c < 128
  · exact utf8Decode_enc1 c rest h1
  · by_cases h2 : c < 2048
    · exact utf8Decode_enc2 c rest (by omega) h2
    · by_cases h3 : c < 65536
      · exact utf8Decode_enc3 c rest (by omega) h3 hs
      · exact utf8Decode_enc4 c rest (by omega) hs

/-- **utf8_inverse (1)**: `utf8_decode(utf8_encode(s)) == s` for every string (every list of Unicode
scalar values, 1- to 4-byte forms) -/
theorem utf8_decode_encode (s : Str) (h : ∀ c ∈ s, IsScalar c) : utf8Decode (utf8Encode s) = some s := by
  induction s with
  | nil => rfl
  | cons c t ih =>
    rw [utf8Encode, utf8Decode_encChar c _ ((isScalar_iff c).mpr (h c (by simp))),
      ih (fun x hx => h x (by simp [hx]))]
    rfl

theorem utf8_decode_encode_builtin (s : Str) (h : ∀ c ∈ s, IsScalar c) : utf8DecodeB (utf8Encode s) = .ok s := by
  unfold utf8DecodeB; rw [utf8_decode_encode s h]

theorem isCont_iff (b : Nat) : isCont b = true ↔ (128 ≤ b ∧ b ≤ 191) := by
  simp [isCont]

theorem utf8_encode_decode_aux : ∀ (n : Nat) (bs : Bytes) (s : Str), bs.length ≤ n → utf8Decode bs = some s →
    utf8Encode s = bs ∧ ∀ c ∈ s, IsScalar c := by
  intro n
  induction n with
  | zero =>
    intro bs s hl h
    have : bs = [] := List.eq_nil_of_length_eq_zero (by omega)
    subst this
    rw [show utf8Decode [] = some [] from rfl] at h; injection h with h; subst h; simp [utf8Encode]
  | succ n ih =>
    intro bs s hl h
    cases bs with
    | nil => rw [show utf8Decode [] = some [] from rfl] at h; injection h with h; subst h; simp [utf8Encode]
    | cons b0 rest =>
      rw [utf8Decode.eq_def] at h
      simp only at h
      by_cases c1 : b0 < 128
      · simp only [c1, if_true, Option.map_eq_some_iff] at h
        obtain ⟨s', hs', rfl⟩ := h
        obtain ⟨e, sc⟩ := ih rest s' (by simp at hl; omega) hs'
        refine ⟨by simp [utf8Encode, utf8EncodeChar, c1, e], ?_⟩
        intro c hc; rw [List.mem_cons] at hc; rcases hc with hc | hc
        · rw [hc]; unfold IsScalar; omega
        · exact sc c hc
      · by_cases c2 : 194 ≤ b0 ∧ b0 ≤ 223
        · simp only [c1, if_false, c2, and_self, if_true] at h
          cases rest with
          | nil => simp at h
          | cons b1 rest' =>
            simp only at h
            by_cases k1 : isCont b1 = true
            · simp only [k1, if_true, Option.map_eq_some_iff] at h
              obtain ⟨s', hs', rfl⟩ := h
              obtain ⟨e, sc⟩ := ih rest' s' (by simp at hl; omega) hs'
              rw [isCont_iff] at k1
              have g1 : ¬ ((b0 - 192) * 64 + (b1 - 128) < 128) := by omega
              have g2 : (b0 - 192) * 64 + (b1 - 128) < 2048 := by omega
              refine ⟨?_, ?_⟩
              · simp only [utf8Encode, utf8EncodeChar, g1, g2, if_false, if_true, e, List.cons_append, List.nil_append]
                simp only [List.cons.injEq, and_true]
                constructor <;> omega
              · intro c hc; rw [List.mem_cons] at hc; rcases hc with hc | hc
                · rw [hc]; unfold IsScalar; omega
                · exact sc c hc
            · simp [k1] at h
        · by_cases c3 : 224 ≤ b0 ∧ b0 ≤ 239
          · simp only [c1, if_false, c2, c3, and_self, if_true] at h
            cases rest with
            | nil => simp at h
            | cons b1 rest1 =>
              cases rest1 with
              | nil => simp at h
              | cons b2 rest' =>
                simp only at h
                by_cases hok : (utf8Second3 b0 b1 && isCont b2) = true
                · simp only [hok, if_true, Option.map_eq_some_iff] at h
                  obtain ⟨s', hs', rfl⟩ := h
                  obtain ⟨e, sc⟩ := ih rest' s' (by simp at hl; omega) hs'
                  simp only [Bool.and_eq_true, isCont_iff] at hok
                  obtain ⟨hk1, hk2⟩ := hok
                  have hb1 : 128 ≤ b1 ∧ b1 ≤ 191 ∧ (b0 = 224 → 160 ≤ b1) ∧ (b0 = 237 → b1 ≤ 159) := by
                    unfold utf8Second3 at hk1
                    split at hk1
                    · simp at hk1; omega
                    · split at hk1
                      · simp at hk1; omega
                      · rw [isCont_iff] at hk1; omega
                  have g1 : ¬ ((b0 - 224) * 4096 + (b1 - 128) * 64 + (b2 - 128) < 128) := by omega
                  have g2 : ¬ ((b0 - 224) * 4096 + (b1 - 128) * 64 + (b2 - 128) < 2048) := by omega
                  have g3 : (b0 - 224) * 4096 + (b1 - 128) * 64 + (b2 - 128) < 65536 := by omega
                  refine ⟨?_, ?_⟩
                  · simp only [utf8Encode, utf8EncodeChar, g1, g2, g3, if_false, if_true, e, List.cons_append, List.nil_append]
                    simp only [List.cons.injEq, and_true]
                    refine ⟨?_, ?_, ?_⟩ <;> omega
                  · intro c hc; rw [List.mem_cons] at hc; rcases hc with hc | hc
                    · rw [hc]; unfold IsScalar; omega
                    · exact sc c hc
                · simp [hok] at h
          · by_cases c4 : 240 ≤ b0 ∧ b0 ≤ 244
            · simp only [c1, if_false, c2, c3, c4, and_self, if_true] at h
              cases rest with
              | nil => simp at h
              | cons b1 rest1 =>
                cases rest1 with
                | nil => simp at h
                | cons b2 rest2 =>
                  cases rest2 with
                  | nil => simp at h
                  | cons b3 rest' =>
                    simp only at h
                    by_cases hok : (utf8Second4 b0 b1 && isCont b2 && isCont b3) = true
                    · simp only [hok, if_true, Option.map_eq_some_iff] at h
                      obtain ⟨s', hs', rfl⟩ := h
                      obtain ⟨e, sc⟩ := ih rest' s' (by simp at hl; omega) hs'
                      simp only [Bool.and_eq_true, isCont_iff] at hok
                      obtain ⟨⟨hk1, hk2⟩, hk3⟩ := hok
                      have hb1 : 128 ≤ b1 ∧ b1 ≤ 191 ∧ (b0 = 240 → 144 ≤ b1) ∧ (b0 = 244 → b1 ≤ 143) := by
                        unfold utf8Second4 at hk1
                        split at hk1
                        · simp at hk1; omega
                        · split at hk1
                          · simp at hk1; omega
                          · rw [isCont_iff] at hk1; omega
                      have g1 : ¬ ((b0 - 240) * 262144 + (b1 - 128) * 4096 + (b2 - 128) * 64 + (b3 - 128) < 128) := by omega
                      have g2 : ¬ ((b0 - 240) * 262144 + (b1 - 128) * 4096 + (b2 - 128) * 64 + (b3 - 128) < 2048) := by omega
                      have g3 : ¬ ((b0 - 240) * 262144 + (b1 - 128) * 4096 + (b2 - 128) * 64 + (b3 - 128) < 65536) := by omega
                      refine ⟨?_, ?_⟩
                      · simp only [utf8Encode, utf8EncodeChar, g1, g2, g3, if_false, e, List.cons_append, List.nil_append]
                        simp only [List.cons.injEq, and_true]
                        refine ⟨?_, ?_, ?_, ?_⟩ <;> omega
                      · intro c hc; rw [List.mem_cons] at hc; rcases hc with hc | hc
                        · rw [hc]; unfold IsScalar; omega
                        · exact sc c hc
                    · simp [hok] at h
            · simp [c1, c2, c3, c4] at h

/-- **utf8_inverse (2)**: whatever `utf8_decode` accepts is the UTF-8 encoding of the string it
returns, and that string consists of Unicode scalar values only (no surrogates, nothing above
U+10FFFF, no overlong forms: the encoding is unique) -/
theorem utf8_encode_decode (bs : Bytes) (s : Str) (h : utf8Decode bs = some s) :
    utf8Encode s = bs ∧ ∀ c ∈ s, IsScalar c := utf8_encode_decode_aux bs.length bs s (Nat.le_refl _) h

/-- the decoder accepts exactly the encodings of scalar-value strings -/
theorem utf8Decode_accepts_iff (bs : Bytes) :
    (∃ s, utf8Decode bs = some s) ↔ ∃ s, (∀ c ∈ s, IsScalar c) ∧ utf8OfStr s = bs := by
  constructor
  · rintro ⟨s, h⟩
    obtain ⟨e, sc⟩ := utf8_encode_decode bs s h
    exact ⟨s, sc, by rw [← utf8Encode_eq_spec, e]⟩
  · rintro ⟨s, sc, e⟩
    exact ⟨s, by rw [← e, ← utf8Encode_eq_spec, utf8_decode_encode s sc]⟩

example : utf8Decode [237, 160, 128] = none := by decide      -- surrogate U+D800
example : utf8Decode [192, 128] = none := by decide           -- overlong NUL
example : utf8Decode [244, 143, 191, 191] = some [1114111] := by decide

/-! ## 8. base64 (RFC 4648) -/

theorem b64Char_eq_spec {n : Nat} (h : n < 64) : b64Char n = b64Sym n := by
  unfold b64Char b64Sym
  by_cases h1 : n < 26
  · simp [h1]
  · by_cases h2 : n < 52
    · simp [h1, h2]; omega
    · by_cases h3 : n < 62
      · simp [h1, h2, h3]; omega
      · simp [h1, h2, h3]

theorem b64Val_b64Char {n : Nat} (h : n < 64) : b64Val (b64Char n) = some n := by
  unfold b64Val b64Char
  by_cases h1 : n < 26
  · have a : 65 ≤ 65 + n ∧ 65 + n ≤ 90 := by omega
    simp [h1, a]
  · by_cases h2 : n < 52
    · have a : ¬ (65 ≤ 97 + (n - 26) ∧ 97 + (n - 26) ≤ 90) := by omega
      have b : 97 ≤ 97 + (n - 26) ∧ 97 + (n - 26) ≤ 122 := by omega
      simp [h1, h2, a, b]; omega
    · by_cases h3 : n < 62
      · have a : ¬ (65 ≤ 48 + (n - 52) ∧ 48 + (n - 52) ≤ 90) := by omega
        have b : ¬ (97 ≤ 48 + (n - 52) ∧ 48 + (n - 52) ≤ 122) := by omega
        have c : 48 ≤ 48 + (n - 52) ∧ 48 + (n - 52) ≤ 57 := by omega
        simp [h1, h2, h3, a, b, c]; omega
      · by_cases h4 : n = 62
        · subst h4; decide
        · have : n = 63 := by omega
          subst this; decide

theorem b64Char_ne_pad {n : Nat} (h : n < 64) : b64Char n ≠ 61 := by
  unfold b64Char
  by_cases h1 : n < 26
  · simp [h1]; omega
  · by_cases h2 : n < 52
    · simp [h1, h2]; omega
    · by_cases h3 : n < 62
      · simp [h1, h2, h3]; omega
      · by_cases h4 : n = 62 <;> simp [h1, h2, h3, h4]

theorem b64Char_lt {n : Nat} (h : n < 64) : b64Char n < 128 := by
  unfold b64Char
  by_cases h1 : n < 26
  · simp [h1]; omega
  · by_cases h2 : n < 52
    · simp [h1, h2]; omega
    · by_cases h3 : n < 62
      · simp [h1, h2, h3]; omega
      · by_cases h4 : n = 62 <;> simp [h1, h2, h3, h4]

/-- induction three elements at a time -/
theorem tripleInduct {motive : List Nat → Prop} (h0 : motive []) (h1 : ∀ a, motive [a]) (h2 : ∀ a b, motive [a, b])
    (h3 : ∀ a b c rest, motive rest → motive (a :: b :: c :: rest)) : ∀ l, motive l := by
  have : ∀ l, motive l ∧ (∀ a, motive (a :: l)) ∧ ∀ a b, motive (a :: b :: l) := by
    intro l
    induction l with
    | nil => exact ⟨h0, h1, h2⟩
    | cons c t ih => exact ⟨ih.2.1 c, fun a => ih.2.2 a c, fun a b => h3 a b c t ih.1⟩
  exact fun l => (this l).1

/-- the model of `base64::encode` = RFC 4648 §4 (24-bit groups cut into 6-bit values, `=` padding) -/
theorem b64Encode_eq_spec (bs : Bytes) (h : ∀ b ∈ bs, b < 256) : b64Encode bs = base64Of bs := by
  induction bs using tripleInduct with
  | h0 => rfl
  | h1 a =>
    have ha : a < 256 := h a (by simp)
    simp only [b64Encode, base64Of]
    rw [b64Char_eq_spec (show a / 4 < 64 by omega), b64Char_eq_spec (show a % 4 * 16 < 64 by omega)]
    simp only [List.cons.injEq, and_true]
    constructor <;> congr 1 <;> omega
  | h2 a b =>
    have ha : a < 256 := h a (by simp)
    have hb : b < 256 := h b (by simp)
    simp only [b64Encode, base64Of]
    rw [b64Char_eq_spec (show a / 4 < 64 by omega), b64Char_eq_spec (show a % 4 * 16 + b / 16 < 64 by omega),
      b64Char_eq_spec (show b % 16 * 4 < 64 by omega)]
    simp only [List.cons.injEq, and_true]
    refine ⟨?_, ?_, ?_⟩ <;> congr 1 <;> omega
  | h3 a b c rest ih =>
    have ha : a < 256 := h a (by simp)
    have hb : b < 256 := h b (by simp)
    have hc : c < 256 := h c (by simp)
    simp only [b64Encode, base64Of]
    rw [b64Char_eq_spec (show a / 4 < 64 by omega), b64Char_eq_spec (show a % 4 * 16 + b / 16 < 64 by omega),
      b64Char_eq_spec (show b % 16 * 4 + c / 64 < 64 by omega), b64Char_eq_spec (show c % 64 < 64 by omega),
      ih (fun x hx => h x (by simp [hx]))]
    simp only [List.cons.injEq, and_true]
    refine ⟨?_, ?_, ?_, ?_⟩ <;> congr 1 <;> omega

theorem b64Encode_eq_nil (bs : Bytes) : b64Encode bs = [] ↔ bs = [] := by
  constructor
  · intro h
    match bs, h with
    | [], _ => rfl
    | [_], h => simp [b64Encode] at h
    | [_, _], h => simp [b64Encode] at h
    | _ :: _ :: _ :: _, h => simp [b64Encode] at h
  · intro h; subst h; rfl

theorem b64Dec2_enc (a : Nat) (ha : a < 256) : b64Dec2 (b64Char (a / 4)) (b64Char (a % 4 * 16)) = some [a] := by
  unfold b64Dec2
  rw [b64Val_b64Char (show a / 4 < 64 by omega), b64Val_b64Char (show a % 4 * 16 < 64 by omega)]
  have : a % 4 * 16 % 16 = 0 := by omega
  simp only [this, if_true]
  congr 2; omega

theorem b64Dec3_enc (a b : Nat) (ha : a < 256) (hb : b < 256) :
    b64Dec3 (b64Char (a / 4)) (b64Char (a % 4 * 16 + b / 16)) (b64Char (b % 16 * 4)) = some [a, b] := by
  unfold b64Dec3
  rw [b64Val_b64Char (show a / 4 < 64 by omega), b64Val_b64Char (show a % 4 * 16 + b / 16 < 64 by omega),
    b64Val_b64Char (show b % 16 * 4 < 64 by omega)]
  have : b % 16 * 4 % 4 = 0 := by omega
  simp only [this, if_true, Option.some.injEq, List.cons.injEq, and_true]
  constructor <;> omega

theorem b64Dec4_enc (a b c : Nat) (ha : a < 256) (hb : b < 256) (hc : c < 256) :
    b64Dec4 (b64Char (a / 4)) (b64Char (a % 4 * 16 + b / 16)) (b64Char (b % 16 * 4 + c / 64)) (b64Char (c % 64))
      = some [a, b, c] := by
  unfold b64Dec4
  rw [b64Val_b64Char (show a / 4 < 64 by omega), b64Val_b64Char (show a % 4 * 16 + b / 16 < 64 by omega),
    b64Val_b64Char (show b % 16 * 4 + c / 64 < 64 by omega), b64Val_b64Char (show c % 64 < 64 by omega)]
  simp only [Option.some.injEq, List.cons.injEq, and_true]
  refine ⟨?_, ?_, ?_⟩ <;> omega

theorem b64Quads_encode (bs : Bytes) (h : ∀ b ∈ bs, b < 256) : b64Quads (b64Encode bs) = some bs := by
  induction bs using tripleInduct with
  | h0 => rfl
  | h1 a =>
    have ha : a < 256 := h a (by simp)
    simp only [b64Encode, b64Quads, if_true]
    exact b64Dec2_enc a ha
  | h2 a b =>
    have ha : a < 256 := h a (by simp)
    have hb : b < 256 := h b (by simp)
    have hp := b64Char_ne_pad (show b % 16 * 4 < 64 by omega)
    simp only [b64Encode, b64Quads, if_true, hp, if_false]
    exact b64Dec3_enc a b ha hb
  | h3 a b c rest ih =>
    have ha : a < 256 := h a (by simp)
    have hb : b < 256 := h b (by simp)
    have hc : c < 256 := h c (by simp)
    have hp := b64Char_ne_pad (show c % 64 < 64 by omega)
    have d4 := b64Dec4_enc a b c ha hb hc
    simp only [b64Encode, b64Quads]
    by_cases hr : rest = []
    · subst hr
      simp only [b64Encode, if_true, hp, if_false]
      exact d4
    · have hne : ¬ b64Encode rest = [] := fun hx => hr ((b64Encode_eq_nil rest).mp hx)
      simp only [hne, if_false, d4, ih (fun x hx => h x (by simp [hx]))]
      rfl

theorem b64Encode_ascii (bs : Bytes) (h : ∀ b ∈ bs, b < 256) : ∀ c ∈ b64Encode bs, c < 128 := by
  induction bs using tripleInduct with
  | h0 => intro c hc; simp [b64Encode] at hc
  | h1 a =>
    have ha : a < 256 := h a (by simp)
    intro c hc
    simp only [b64Encode, List.mem_cons, List.not_mem_nil, or_false] at hc
    rcases hc with hc | hc | hc | hc <;> subst hc
    · exact b64Char_lt (by omega)
    · exact b64Char_lt (by omega)
    · decide
    · decide
  | h2 a b =>
    have ha : a < 256 := h a (by simp)
    have hb : b < 256 := h b (by simp)
    intro c hc
    simp only [b64Encode, List.mem_cons, List.not_mem_nil, or_false] at hc
    rcases hc with hc | hc | hc | hc <;> subst hc
    · exact b64Char_lt (by omega)
    · exact b64Char_lt (by omega)
    · exact b64Char_lt (by omega)
    · decide
  | h3 a b c rest ih =>
    have ha : a < 256 := h a (by simp)
    have hb : b < 256 := h b (by simp)
    have hc : c < 256 := h c (by simp)
    intro x hx
    simp only [b64Encode, List.mem_cons] at hx
    rcases hx with hx | hx | hx | hx | hx
    · subst hx; exact b64Char_lt (by omega)
    · subst hx; exact b64Char_lt (by omega)
    · subst hx; exact b64Char_lt (by omega)
    · subst hx; exact b64Char_lt (by omega)
    · exact ih (fun y hy => h y (by simp [hy])) x hx

/-- **base64_inverse**: `base64_decode(base64_encode(bs)) == bs` for every byte string -/
theorem base64_decode_encode (bs : Bytes) (h : ∀ b ∈ bs, b < 256) :
    b64Decode (utf8Encode (b64Encode bs)) = .ok bs := by
  rw [utf8Encode_ascii _ (b64Encode_ascii bs h)]
  unfold b64Decode
  rw [b64Quads_encode bs h]

/-- the same against the Spec's encoder: decoding RFC 4648 text gives the bytes back -/
theorem base64_decode_spec (bs : Bytes) (h : ∀ b ∈ bs, b < 256) : b64Decode (base64Of bs) = .ok bs := by
  rw [← b64Encode_eq_spec bs h]
  unfold b64Decode
  rw [b64Quads_encode bs h]

theorem b64Decode_no_panic (s : Bytes) : b64Decode s ≠ .panic := by
  unfold b64Decode; split <;> simp

example : b64Encode [102, 111, 111, 98] = [90, 109, 57, 118, 89, 103, 61, 61] := by decide   -- "foob" -> "Zm9vYg=="
example : b64Decode [90, 109, 57, 118, 89, 104, 61, 61] = .throw := by decide               -- non-zero trailing bits

/-! ## 9. JSON values -/

mutual
theorem json_rt_val : ∀ (v : Val), JsonShaped v → (encodeV v).map decodeV = .ok v
  | .null, _ => rfl
  | .int v, h => by
    have h' : inI64 v := h
    by_cases hv : 0 ≤ v
    · have e : encodeV (.int v) = .ok (.num (.posInt v.toNat)) := by
        simp only [encodeV, h', if_true, hv]
      have e2 : decodeV (.num (.posInt v.toNat)) = .int v := by
        rw [decodeV]
        have : ((v.toNat : Nat) : Int) ≤ I64_MAX := by unfold inI64 at h'; unfold I64_MAX; omega
        simp only [this, if_true]
        congr 1; omega
      rw [e]; simp only [Out.map, e2]
    · have e : encodeV (.int v) = .ok (.num (.negInt v)) := by
        simp only [encodeV, h', if_true, hv, if_false]
      rw [e]; simp only [Out.map]; rw [decodeV]
  | .float f, h => by
    have h' : f.finite = true := h
    simp only [encodeV, jvOfF64, h', if_true, Out.map, decodeV]
  | .str s, _ => rfl
  | .bytes _, h => absurd h (by simp [JsonShaped])
  | .func, h => absurd h (by simp [JsonShaped])
  | .list xs, h => by
    have ih := json_rt_list xs h
    simp only [encodeV]
    cases he : encodeVs xs with
    | ok js => rw [he] at ih; simp only [Out.map] at ih ⊢; injection ih with ih; simp only [decodeV, ih]
    | throw => rw [he] at ih; cases ih
    | panic => rw [he] at ih; cases ih
  | .dict kvs, h => by
    have ih := json_rt_kvs kvs h
    simp only [encodeV]
    cases he : encodeKVs kvs with
    | ok js => rw [he] at ih; simp only [Out.map] at ih ⊢; injection ih with ih; simp only [decodeV, ih]
    | throw => rw [he] at ih; cases ih
    | panic => rw [he] at ih; cases ih
theorem json_rt_list : ∀ (xs : List Val), JsonShapedList xs → (encodeVs xs).map decodeVs = .ok xs
  | [], _ => rfl
  | x :: xs, h => by
    have h1 := json_rt_val x h.1
    have h2 := json_rt_list xs h.2
    simp only [encodeVs]
    cases hx : encodeV x with
    | ok j =>
      rw [hx] at h1; simp only [Out.map] at h1; injection h1 with h1
      cases hxs : encodeVs xs with
      | ok js =>
        rw [hxs] at h2; simp only [Out.map] at h2; injection h2 with h2
        simp only [Out.map, decodeVs, h1, h2]
      | throw => rw [hxs] at h2; cases h2
      | panic => rw [hxs] at h2; cases h2
    | throw => rw [hx] at h1; cases h1
    | panic => rw [hx] at h1; cases h1
theorem json_rt_kvs : ∀ (kvs : List (Str × Val)), JsonShapedKVs kvs → (encodeKVs kvs).map decodeKVs = .ok kvs
  | [], _ => rfl
  | (k, x) :: xs, h => by
    have h1 := json_rt_val x h.1
    have h2 := json_rt_kvs xs h.2
    simp only [encodeKVs]
    cases hx : encodeV x with
    | ok j =>
      rw [hx] at h1; simp only [Out.map] at h1; injection h1 with h1
      cases hxs : encodeKVs xs with
      | ok js =>
        rw [hxs] at h2; simp only [Out.map] at h2; injection h2 with h2
        simp only [Out.map, decodeKVs, h1, h2]
      | throw => rw [hxs] at h2; cases h2
      | panic => rw [hxs] at h2; cases h2
    | throw => rw [hx] at h1; cases h1
    | panic => rw [hx] at h1; cases h1
end

/-- the two builtins with serde_json's text layer as parameters -/
def jsonEncode (print : JV → Str) (v : Val) : Out Str := (encodeV v).map print
def jsonDecode (parse : Str → Option JV) (s : Str) : Out Val :=
  match parse s with
  | some j => .ok (decodeV j)
  | none => .throw

/-- **json_value_roundtrip**: `json_decode(json_encode(v)) == v` for every JSON-shaped value (null,
64-bit integers, finite floats, strings, lists, string-keyed dicts, nested to any depth), GIVEN the
named hypothesis `h_text` that serde_json's parser reads back what its printer writes (the text
layer is not modelled; the harness tests it — with serde_json's default float parser it is false
for some floats, finding F26) -/
theorem json_value_roundtrip (print : JV → Str) (parse : Str → Option JV)
    (h_text : ∀ j, parse (print j) = some j) (v : Val) (hv : JsonShaped v) :
    (jsonEncode print v).bind (jsonDecode parse) = .ok v := by
  have h := json_rt_val v hv
  unfold jsonEncode
  cases he : encodeV v with
  | ok j => rw [he] at h; simp only [Out.map] at h; simp only [Out.map, Out.bind, jsonDecode, h_text]; exact h
  | throw => rw [he] at h; cases h
  | panic => rw [he] at h; cases h

/-- non-vacuity: a nested JSON-shaped value -/
example : JsonShaped (.dict [([97], .list [.int (-5), .null, .str [104, 105], .float (.bits 4609434218613702656)])]) := by
  simp [JsonShaped, JsonShapedList, JsonShapedKVs, inI64, F64.finite]

mutual
theorem encodeV_no_panic : ∀ v, encodeV v ≠ .panic
  | .null => by simp [encodeV]
  | .int v => by simp only [encodeV]; split <;> simp
  | .float _ => by simp [encodeV]
  | .str _ => by simp [encodeV]
  | .bytes _ => by simp [encodeV]
  | .func => by simp [encodeV]
  | .list xs => by
    have := encodeVs_no_panic xs
    simp only [encodeV]; cases h : encodeVs xs <;> simp_all [Out.map]
  | .dict kvs => by
    have := encodeKVs_no_panic kvs
    simp only [encodeV]; cases h : encodeKVs kvs <;> simp_all [Out.map]
theorem encodeVs_no_panic : ∀ xs, encodeVs xs ≠ .panic
  | [] => by simp [encodeVs]
  | x :: xs => by
    have h1 := encodeV_no_panic x
    have h2 := encodeVs_no_panic xs
    simp only [encodeVs]
    cases hx : encodeV x <;> cases hxs : encodeVs xs <;> simp_all [Out.map]
theorem encodeKVs_no_panic : ∀ kvs, encodeKVs kvs ≠ .panic
  | [] => by simp [encodeKVs]
  | (k, x) :: xs => by
    have h1 := encodeV_no_panic x
    have h2 := encodeKVs_no_panic xs
    simp only [encodeKVs]
    cases hx : encodeV x <;> cases hxs : encodeKVs xs <;> simp_all [Out.map]
end

/-! ## 10. gzip: only the named hypothesis -/

/-- `decompress(compress(b)) == b`, GIVEN that the gzip library is an inverse pair (`h_gzip`;
no Lean model of DEFLATE — this law is checked by correspondence only) -/
theorem gzip_roundtrip (g : Gzip) (h_gzip : ∀ b, g.decompress (g.compress b) = some b) (b : Bytes) :
    decompressB g (g.compress b) = .ok b := by
  unfold decompressB; rw [h_gzip]

/-- invalid input to `decompress` is a Noulith error (after the fix of finding F16), never a panic -/
theorem decompress_no_panic (g : Gzip) (b : Bytes) : decompressB g b ≠ .panic := by
  unfold decompressB; split <;> simp

/-! ## 11. no conversion of this property panics -/

theorem intOfStr_no_panic (s : Str) : intOfStr s ≠ .panic := by unfold intOfStr; split <;> simp
theorem rationalOfStr_no_panic (s : Str) : rationalOfStr s ≠ .panic := by unfold rationalOfStr; split <;> simp
theorem strRadix_no_panic (a r : Int) : strRadix a r ≠ .panic := by
  unfold strRadix; split
  · split <;> simp
  · simp
theorem intRadix_no_panic (s : Str) (r : Int) : intRadix s r ≠ .panic := by
  unfold intRadix; split
  · split
    · split <;> simp
    · simp
  · simp
theorem utf8DecodeB_no_panic (b : Bytes) : utf8DecodeB b ≠ .panic := by unfold utf8DecodeB; split <;> simp
theorem chr_no_panic (n : Int) : chr n ≠ .panic := by
  unfold chr; split
  · split <;> simp
  · simp
theorem ord_no_panic (s : Str) : ord s ≠ .panic := by unfold ord; split <;> simp

/-! ## 12. `rational(s)`: exact decoding of decimal, scientific and `p/q` notation, sign included -/

theorem natpow_ne_zero (k : Nat) : ((10 ^ k : Nat) : Rat) ≠ 0 := by
  have : (10 ^ k : Nat) ≠ 0 := Nat.pos_iff_ne_zero.mp (Nat.pow_pos (by decide))
  intro h
  exact this (by exact_mod_cast h)

theorem natpow_add (m k : Nat) : ((10 ^ (m + k) : Nat) : Rat) = ((10 ^ m : Nat) : Rat) * ((10 ^ k : Nat) : Rat) := by
  rw [Nat.pow_add, Rat.natCast_mul]

/-- `apply_exp10` multiplies by the power of ten (a division for negative exponents) -/
theorem applyExp10_eq (b e : Int) : applyExp10 b e = (b : Rat) * pow10 e := by
  unfold applyExp10 pow10
  by_cases h : 0 ≤ e
  · simp only [h, ge_iff_le, if_true]
    rw [Rat.intCast_mul]
    congr 1 <;> simp [Rat.intCast_pow, Rat.natCast_pow]
  · simp only [h, ge_iff_le, if_false]
    rw [Rat.mkRat_eq_div]
    grind

theorem pow10_split (a : Int) (k : Nat) : pow10 (a - k) * ((10 ^ k : Nat) : Rat) = pow10 a := by
  unfold pow10
  by_cases h1 : 0 ≤ a - (k : Int)
  · have h2 : 0 ≤ a := by omega
    simp only [h1, h2, if_true]
    have : a.toNat = (a - (k : Int)).toNat + k := by omega
    rw [this, natpow_add]
  · by_cases h2 : 0 ≤ a
    · simp only [h1, h2, if_true, if_false]
      have : k = (-(a - (k : Int))).toNat + a.toNat := by omega
      have e := natpow_add (-(a - (k : Int))).toNat a.toNat
      rw [← this] at e
      have nz := natpow_ne_zero (-(a - (k : Int))).toNat
      rw [e]
      grind
    · simp only [h1, h2, if_false]
      have : (-(a - (k : Int))).toNat = (-a).toNat + k := by omega
      rw [this, natpow_add]
      have nz1 := natpow_ne_zero (-a).toNat
      have nz2 := natpow_ne_zero k
      grind

/-- the arithmetic heart of `parse_decimal_exactly`: integer digits `I`, fractional digits `F`
(`dp` of them) and exponent `e` are combined as `(I·10^dp + F)·10^(e−dp)`, which is the value
`(I + F/10^dp)·10^e` -/
theorem mantissa_value (I F dp : Nat) (e : Int) :
    applyExp10 ((I : Int) * 10 ^ dp + (F : Int)) (e - dp)
      = ((I : Rat) + (F : Rat) / ((10 ^ dp : Nat) : Rat)) * pow10 e := by
  rw [applyExp10_eq, ← pow10_split e dp]
  have nz := natpow_ne_zero dp
  have c : (((I : Int) * 10 ^ dp + (F : Int) : Int) : Rat) = (I : Rat) * ((10 ^ dp : Nat) : Rat) + (F : Rat) := by
    simp [Rat.intCast_add, Rat.intCast_mul, Rat.intCast_pow, Rat.natCast_pow, Rat.intCast_natCast]
  rw [c]
  grind

theorem splitAtFirst_none (p : Nat → Bool) (s : Str) (h : ∀ c ∈ s, p c = false) : splitAtFirst p s = none := by
  induction s with
  | nil => rfl
  | cons c t ih =>
    simp only [splitAtFirst, h c (by simp), Bool.false_eq_true, if_false, ih (fun x hx => h x (by simp [hx]))]

theorem splitAtFirst_append (p : Nat → Bool) (pre : Str) (c : Nat) (post : Str)
    (h : ∀ x ∈ pre, p x = false) (hc : p c = true) : splitAtFirst p (pre ++ c :: post) = some (pre, post) := by
  induction pre with
  | nil => simp [splitAtFirst, hc]
  | cons a t ih =>
    simp only [List.cons_append, splitAtFirst, h a (by simp), Bool.false_eq_true, if_false,
      ih (fun x hx => h x (by simp [hx]))]

theorem digitText_range (ds : List Nat) (h : ∀ x ∈ ds, x < 10) : ∀ c ∈ digitText ds, 48 ≤ c ∧ c ≤ 57 := by
  intro c hc
  simp only [digitText, List.mem_map] at hc
  obtain ⟨d, hd, rfl⟩ := hc
  have := h d hd; omega

theorem digitText_length (ds : List Nat) : (digitText ds).length = ds.length := by simp [digitText]

theorem digitText_eq_nil (ds : List Nat) : digitText ds = [] ↔ ds = [] := by simp [digitText]

theorem digitText_all_ascii (ds : List Nat) (h : ∀ x ∈ ds, x < 10) : (digitText ds).all isAsciiDigit = true := by
  rw [List.all_eq_true]
  intro c hc
  have := digitText_range ds h c hc
  simp [isAsciiDigit]; omega

/-- `str::parse::<i32>` on `[sign] digits` -/
theorem parseI32_lit (sg : Option Bool) (ds : List Nat) (hne : ds ≠ []) (h : ∀ x ∈ ds, x < 10) :
    parseI32 (signText sg ++ digitText ds) =
      (let v : Int := if signNeg sg then -(ofDigits 10 ds : Int) else (ofDigits 10 ds : Int)
       if inI32 v then some v else none) := by
  have ha := asciiDigits_digitText ds h
  cases ds with
  | nil => exact absurd rfl hne
  | cons d t =>
    have hd : d < 10 := h d (by simp)
    rcases sg with _ | _ | _
    · simp only [signText, List.nil_append, signNeg]
      simp only [digitText, List.map_cons] at ha ⊢
      unfold parseI32
      have n1 : ¬ (48 + d = 43) := by omega
      have n2 : ¬ (48 + d = 45) := by omega
      simp only [n1, n2, or_self, false_and, if_false, ha, ofDigitsBE_eq]
      try rfl
    · simp only [signText, signNeg, List.cons_append, List.nil_append]
      unfold parseI32
      have n0 : ¬ (digitText (d :: t) = []) := by simp [digitText]
      simp only [n0, and_false, if_false, true_or, if_true, ha, ofDigitsBE_eq]
      try rfl
    · simp only [signText, signNeg, List.cons_append, List.nil_append]
      unfold parseI32
      have n0 : ¬ (digitText (d :: t) = []) := by simp [digitText]
      simp only [n0, and_false, if_false, or_true, if_true, ha, ofDigitsBE_eq]
      try rfl

def fracText : Option (List Nat) → Str
  | none => []
  | some ds => 46 :: digitText ds
def expText : Option (Bool × Option Bool × List Nat) → Str
  | none => []
  | some (u, s, ds) => (if u then 69 else 101) :: (signText s ++ digitText ds)

theorem render_eq (d : Dec) : d.render = signText d.sign ++ ((digitText d.ip ++ fracText d.fp) ++ expText d.exp) := by
  obtain ⟨sg, ip, fp, ex⟩ := d
  unfold Dec.render
  cases fp <;> cases ex <;> simp [fracText, expText]

/-- the magnitude of the mantissa: integer digits plus fractional digits scaled down -/
def decMag (d : Dec) : Rat :=
  ((ofDigits 10 d.ip : Nat) : Rat) + ((ofDigits 10 d.fracDigits : Nat) : Rat) / ((10 ^ d.fracDigits.length : Nat) : Rat)

theorem mantissaText_noE (ip : List Nat) (fp : Option (List Nat)) (h1 : ∀ x ∈ ip, x < 10)
    (h2 : ∀ x ∈ fp.getD [], x < 10) : ∀ c ∈ digitText ip ++ fracText fp, isE c = false := by
  intro c hc
  rw [List.mem_append] at hc
  rcases hc with hc | hc
  · have := digitText_range ip h1 c hc; simp [isE]; omega
  · cases fp with
    | none => simp [fracText] at hc
    | some f =>
      simp only [fracText, List.mem_cons] at hc
      rcases hc with hc | hc
      · subst hc; decide
      · have := digitText_range f h2 c hc; simp [isE]; omega

def expVal : Option (Bool × Option Bool × List Nat) → Int
  | none => 0
  | some (_, s, ds) => if signNeg s then -(ofDigits 10 ds : Int) else (ofDigits 10 ds : Int)

theorem expValue_eq (d : Dec) : d.expValue = expVal d.exp := by
  unfold Dec.expValue expVal; cases d.exp <;> rfl

/-- cutting off the exponent -/
theorem splitExponent_lit (pre : Str) (ex : Option (Bool × Option Bool × List Nat))
    (hpre : ∀ c ∈ pre, isE c = false)
    (hex : ∀ u s ds, ex = some (u, s, ds) → ds ≠ [] ∧ ∀ x ∈ ds, x < 10)
    (hi : inI32 (expVal ex)) :
    splitExponent (pre ++ expText ex) = some (pre, expVal ex) := by
  unfold splitExponent
  cases ex with
  | none =>
    simp only [expText, List.append_nil, splitAtFirst_none isE pre hpre, expVal]
  | some t =>
    obtain ⟨u, s, ds⟩ := t
    obtain ⟨hne, hd⟩ := hex u s ds rfl
    have hc : isE (if u then 69 else 101) = true := by cases u <;> decide
    simp only [expText, splitAtFirst_append isE pre _ _ hpre hc, parseI32_lit s ds hne hd]
    simp only [expVal] at hi ⊢
    simp only [hi, if_true]

theorem parseBigInt_digitText (ds : List Nat) (hne : ds ≠ []) (h : ∀ x ∈ ds, x < 10) :
    parseBigInt (digitText ds) = some ((ofDigits 10 ds : Nat) : Int) := by
  have := parseBigInt_intLit { sign := none, ds := ds } ⟨hne, h⟩
  simpa [IntLit.render, IntLit.value, signText, signNeg] using this

theorem optParse_digitText (ds : List Nat) (h : ∀ x ∈ ds, x < 10) :
    (if digitText ds = [] then some (0 : Int) else parseBigInt (digitText ds)) = some ((ofDigits 10 ds : Nat) : Int) := by
  by_cases hn : ds = []
  · subst hn; simp [digitText, ofDigits]
  · have : ¬ digitText ds = [] := fun hx => hn ((digitText_eq_nil ds).mp hx)
    simp only [this, if_false]
    exact parseBigInt_digitText ds hn h

/-- the mantissa with or without a decimal point -/
theorem parseMantissa_lit (ip : List Nat) (fp : Option (List Nat)) (e : Int)
    (h1 : ∀ x ∈ ip, x < 10) (h2 : ∀ x ∈ fp.getD [], x < 10) (hne : ip ≠ [] ∨ fp.getD [] ≠ [])
    (hi : inI32 (e - (fp.getD []).length)) :
    parseMantissa (digitText ip ++ fracText fp) e =
      some ((((ofDigits 10 ip : Nat) : Rat) + ((ofDigits 10 (fp.getD []) : Nat) : Rat) / ((10 ^ (fp.getD []).length : Nat) : Rat)) * pow10 e) := by
  unfold parseMantissa
  cases fp with
  | none =>
    have hip : ip ≠ [] := by simpa using hne
    have hnd : ∀ c ∈ digitText ip, (decide (c = 46)) = false := by
      intro c hc; have := digitText_range ip h1 c hc; simp; omega
    simp only [fracText, List.append_nil, splitAtFirst_none _ _ hnd, parseBigInt_digitText ip hip h1,
      applyExp10_eq, Option.getD_none, List.length_nil, ofDigits, List.foldl_nil]
    congr 2
    simp [Rat.intCast_natCast, ofDigits]
    grind
  | some f =>
    have hnd : ∀ c ∈ digitText ip, (decide (c = 46)) = false := by
      intro c hc; have := digitText_range ip h1 c hc; simp; omega
    have h2' : ∀ x ∈ f, x < 10 := by simpa using h2
    simp only [fracText, splitAtFirst_append _ _ 46 _ hnd (by decide)]
    have hboth : ¬ (digitText ip = [] ∧ digitText f = []) := by
      rw [digitText_eq_nil, digitText_eq_nil]
      simp only [Option.getD_some] at hne
      intro ⟨a, b⟩; rcases hne with h | h
      · exact h a
      · exact h b
    simp only [hboth, if_false, digitText_all_ascii f h2', Bool.not_true, Bool.false_eq_true,
      optParse_digitText ip h1, optParse_digitText f h2', digitText_length, Option.getD_some] at hi ⊢
    simp only [hi, if_true, mantissa_value]

theorem parseUnsignedDecimal_lit (d : Dec) (hwf : d.WF) (hi1 : inI32 d.expValue)
    (hi2 : inI32 (d.expValue - d.fracDigits.length)) :
    parseUnsignedDecimal ((digitText d.ip ++ fracText d.fp) ++ expText d.exp) = some (decMag d * pow10 d.expValue) := by
  obtain ⟨w1, w2, w3, w4⟩ := hwf
  unfold parseUnsignedDecimal
  have hs := splitExponent_lit (digitText d.ip ++ fracText d.fp) d.exp
    (mantissaText_noE d.ip d.fp w1 w2) w4 (by rw [← expValue_eq]; exact hi1)
  rw [hs, ← expValue_eq]
  simp only
  exact parseMantissa_lit d.ip d.fp d.expValue w1 w2 w3 hi2

theorem mantissaText_head (d : Dec) (hwf : d.WF) :
    ∃ c rest, (digitText d.ip ++ fracText d.fp) ++ expText d.exp = c :: rest ∧ c ≠ 43 ∧ c ≠ 45 := by
  obtain ⟨w1, w2, w3, _⟩ := hwf
  cases hip : d.ip with
  | nil =>
    rw [hip] at w3
    cases hfp : d.fp with
    | none => simp [Dec.fracDigits, hfp] at w3
    | some f => exact ⟨46, digitText f ++ expText d.exp, by simp [digitText, fracText], by decide, by decide⟩
  | cons a t =>
    have : a < 10 := w1 a (by simp [hip])
    exact ⟨48 + a, (digitText t ++ fracText d.fp) ++ expText d.exp, by simp [digitText], by omega, by omega⟩

theorem value_eq (d : Dec) : d.value = (if signNeg d.sign then -decMag d else decMag d) * pow10 d.expValue := rfl

/-- **rational_parse_exact (decimals)**: for every string of the grammar
`[sign] digits [. digits] [e [sign] digits]` (at least one digit around the point; `.5`, `5.`, `+5`,
`1E-3`, leading zeros all included) the parser returns the exact value, INCLUDING the sign.
The two range hypotheses say that the exponent, and the exponent minus the number of fractional
digits, fit an `i32` (the code computes with `i32`; beyond that the power of ten would not fit in
memory anyway). -/
theorem parseDecimalExactly_lit (d : Dec) (hwf : d.WF) (hi1 : inI32 d.expValue)
    (hi2 : inI32 (d.expValue - d.fracDigits.length)) :
    parseDecimalExactly d.render = some d.value := by
  have hu := parseUnsignedDecimal_lit d hwf hi1 hi2
  obtain ⟨c, rest, hbody, hc1, hc2⟩ := mantissaText_head d hwf
  rw [render_eq, value_eq]
  rw [hbody] at hu ⊢
  unfold parseDecimalExactly
  have n1 : startsWith 43 (c :: rest) = false := by simp [startsWith, hc1]
  have n2 : startsWith 45 (c :: rest) = false := by simp [startsWith, hc2]
  rcases hs : d.sign with _ | _ | _
  · simp only [signText, List.nil_append, signNeg, n1, n2, Bool.false_eq_true, or_self, if_false, hu,
      Option.map_some]
  · simp only [signText, List.cons_append, List.nil_append, signNeg, List.tail_cons]
    have a1 : startsWith 45 (43 :: c :: rest) = false := by simp [startsWith]
    have a2 : startsWith 43 (43 :: c :: rest) = true := by simp [startsWith]
    simp only [a1, a2, Bool.false_eq_true, or_true, false_or, if_true, List.tail_cons, n1, n2, or_self,
      if_false, hu, Option.map_some]
  · simp only [signText, List.cons_append, List.nil_append, signNeg, List.tail_cons]
    have a1 : startsWith 45 (45 :: c :: rest) = true := by simp [startsWith]
    simp only [a1, true_or, if_true, List.tail_cons, n1, n2, Bool.false_eq_true, or_self, if_false, hu,
      Option.map_some]
    congr 1
    grind

theorem trimStart_id (s : Str) (h : ∀ c ∈ s, isWhite c = false) : trimStart s = s := by
  cases s with
  | nil => rfl
  | cons c t => simp [trimStart, h c (by simp)]

theorem trim_id (s : Str) (h : ∀ c ∈ s, isWhite c = false) : trim s = s := by
  unfold trim
  rw [trimStart_id s h, trimStart_id s.reverse (fun c hc => h c (by simpa using hc)), List.reverse_reverse]

/-- the characters a number of the grammar is written with -/
def numChar (c : Nat) : Prop := c = 43 ∨ c = 45 ∨ c = 46 ∨ (48 ≤ c ∧ c ≤ 57) ∨ c = 69 ∨ c = 101

theorem signText_chars (s : Option Bool) : ∀ c ∈ signText s, numChar c := by
  intro c hc
  rcases s with _ | _ | _ <;> simp [signText] at hc <;> subst hc <;> simp [numChar]

theorem render_chars (d : Dec) (hwf : d.WF) : ∀ c ∈ d.render, numChar c := by
  obtain ⟨w1, w2, _, w4⟩ := hwf
  intro c hc
  rw [render_eq] at hc
  simp only [List.mem_append] at hc
  rcases hc with hc | (hc | hc) | hc
  · exact signText_chars _ c hc
  · have := digitText_range d.ip w1 c hc; unfold numChar; omega
  · cases hfp : d.fp with
    | none => simp [hfp, fracText] at hc
    | some f =>
      simp only [hfp, fracText, List.mem_cons] at hc
      rcases hc with hc | hc
      · subst hc; simp [numChar]
      · have w2' : ∀ x ∈ f, x < 10 := by simpa [Dec.fracDigits, hfp] using w2
        have := digitText_range f w2' c hc; unfold numChar; omega
  · cases hex : d.exp with
    | none => simp [hex, expText] at hc
    | some t =>
      obtain ⟨u, s, ds⟩ := t
      simp only [hex, expText, List.mem_cons, List.mem_append] at hc
      rcases hc with hc | hc | hc
      · subst hc; cases u <;> simp [numChar]
      · exact signText_chars _ c hc
      · have := digitText_range ds (w4 u s ds hex).2 c hc; unfold numChar; omega

theorem numChar_not_white {c : Nat} (h : numChar c) : isWhite c = false := by
  unfold numChar at h
  unfold isWhite
  rcases h with h | h | h | h | h | h <;> simp <;> omega

theorem numChar_not_slash {c : Nat} (h : numChar c) : decide (c = 47) = false := by
  unfold numChar at h
  simp; omega

/-- **rational_parse_exact**: for every string of the grammar — a decimal / scientific literal
`[sign] digits [. digits] [e [sign] digits]` or a fraction `p/q` of two such literals with `q ≠ 0` —
`rational(s)` is the exact value, including the sign (negative decimals, `-0.5`, `-.5`, `+.5`,
signed exponents, signs on numerator and denominator). -/
theorem rational_parse_exact (l : RatLit) (hwf : l.WF) (hr : l.InRange) :
    rationalOfStr l.render = .ok l.value := by
  unfold rationalOfStr
  suffices h : parseRationalExactly l.render = some l.value by rw [h]
  unfold parseRationalExactly
  cases l with
  | dec d =>
    have hch := render_chars d hwf
    simp only [RatLit.render, RatLit.value]
    rw [trim_id _ (fun c hc => numChar_not_white (hch c hc)),
      splitAtFirst_none _ _ (fun c hc => numChar_not_slash (hch c hc))]
    exact parseDecimalExactly_lit d hwf hr.1 hr.2
  | frac p q =>
    obtain ⟨wp, wq, hq0⟩ := hwf
    obtain ⟨rp, rq⟩ := hr
    have hp := render_chars p wp
    have hq := render_chars q wq
    simp only [RatLit.render, RatLit.value]
    have hall : ∀ c ∈ p.render ++ 47 :: q.render, isWhite c = false := by
      intro c hc
      simp only [List.mem_append, List.mem_cons] at hc
      rcases hc with hc | hc | hc
      · exact numChar_not_white (hp c hc)
      · subst hc; decide
      · exact numChar_not_white (hq c hc)
    rw [trim_id _ hall, splitAtFirst_append _ _ 47 _ (fun c hc => numChar_not_slash (hp c hc)) (by decide)]
    simp only [trim_id _ (fun c hc => numChar_not_white (hp c hc)),
      trim_id _ (fun c hc => numChar_not_white (hq c hc)),
      parseDecimalExactly_lit p wp rp.1 rp.2, parseDecimalExactly_lit q wq rq.1 rq.2, hq0, if_false]

/-- a zero denominator (`1/0`, `1/0.0`, `1/0e5`) is a Noulith error -/
theorem rational_zero_denominator (p q : Dec) (wp : p.WF) (wq : q.WF) (rp : p.InRange) (rq : q.InRange)
    (h0 : q.value = 0) : rationalOfStr (RatLit.frac p q).render = .throw := by
  unfold rationalOfStr
  suffices h : parseRationalExactly (RatLit.frac p q).render = none by rw [h]
  unfold parseRationalExactly
  have hp := render_chars p wp
  have hq := render_chars q wq
  simp only [RatLit.render]
  have hall : ∀ c ∈ p.render ++ 47 :: q.render, isWhite c = false := by
    intro c hc
    simp only [List.mem_append, List.mem_cons] at hc
    rcases hc with hc | hc | hc
    · exact numChar_not_white (hp c hc)
    · subst hc; decide
    · exact numChar_not_white (hq c hc)
  rw [trim_id _ hall, splitAtFirst_append _ _ 47 _ (fun c hc => numChar_not_slash (hp c hc)) (by decide)]
  simp only [trim_id _ (fun c hc => numChar_not_white (hp c hc)),
    trim_id _ (fun c hc => numChar_not_white (hq c hc)),
    parseDecimalExactly_lit p wp rp.1 rp.2, parseDecimalExactly_lit q wq rq.1 rq.2, h0, if_true]

/-- non-vacuity and the inputs of finding F5: "-1.5" is −3/2 and "-0.5" is −1/2 -/
def litNeg1p5 : Dec := { sign := some true, ip := [1], fp := some [5], exp := none }
def litNeg0p5 : Dec := { sign := some true, ip := [0], fp := some [5], exp := none }
def litNegP5e1 : Dec := { sign := some true, ip := [], fp := some [5], exp := some (false, some true, [1]) }

theorem litNeg1p5_wf : litNeg1p5.WF ∧ litNeg1p5.InRange := by
  refine ⟨⟨?_, ?_, ?_, ?_⟩, ?_, ?_⟩ <;> simp [litNeg1p5, Dec.fracDigits, Dec.expValue, inI32]
theorem litNeg0p5_wf : litNeg0p5.WF ∧ litNeg0p5.InRange := by
  refine ⟨⟨?_, ?_, ?_, ?_⟩, ?_, ?_⟩ <;> simp [litNeg0p5, Dec.fracDigits, Dec.expValue, inI32]

theorem rational_neg_1p5 : rationalOfStr [45, 49, 46, 53] = .ok (-(3 : Rat) / 2) := by
  have h := rational_parse_exact (.dec litNeg1p5) litNeg1p5_wf.1 litNeg1p5_wf.2
  have hr : (RatLit.dec litNeg1p5).render = [45, 49, 46, 53] := by decide
  rw [hr] at h; rw [h]
  congr 1
  simp [RatLit.value, Dec.value, litNeg1p5, signNeg, Dec.fracDigits, Dec.expValue, ofDigits, pow10]
  grind

theorem rational_neg_0p5 : rationalOfStr [45, 48, 46, 53] = .ok (-(1 : Rat) / 2) := by
  have h := rational_parse_exact (.dec litNeg0p5) litNeg0p5_wf.1 litNeg0p5_wf.2
  have hr : (RatLit.dec litNeg0p5).render = [45, 48, 46, 53] := by decide
  rw [hr] at h; rw [h]
  congr 1
  simp [RatLit.value, Dec.value, litNeg0p5, signNeg, Dec.fracDigits, Dec.expValue, ofDigits, pow10]
  grind

/-! ## 13. base64: the decoder accepts only canonical text (besides unpadded text) -/

theorem b64Char_b64Val {c x : Nat} (h : b64Val c = some x) : x < 64 ∧ b64Char x = c := by
  unfold b64Val at h
  unfold b64Char
  split at h
  · injection h with h; subst h; rename_i hc
    refine ⟨by omega, ?_⟩
    have : c - 65 < 26 := by omega
    simp only [this, if_true]; omega
  · split at h
    · injection h with h; subst h; rename_i _ hc
      refine ⟨by omega, ?_⟩
      have a : ¬ (c - 97 + 26 < 26) := by omega
      have b : c - 97 + 26 < 52 := by omega
      simp only [a, b, if_false, if_true]; omega
    · split at h
      · injection h with h; subst h; rename_i _ _ hc
        refine ⟨by omega, ?_⟩
        have a : ¬ (c - 48 + 52 < 26) := by omega
        have b : ¬ (c - 48 + 52 < 52) := by omega
        have d : c - 48 + 52 < 62 := by omega
        simp only [a, b, d, if_false, if_true]; omega
      · split at h
        · injection h with h; subst h; rename_i _ _ _ hc; subst hc; decide
        · split at h
          · injection h with h; subst h; rename_i _ _ _ _ hc; subst hc; decide
          · cases h

theorem b64Dec2_sound {a b : Nat} {bs : Bytes} (h : b64Dec2 a b = some bs) :
    b64Encode bs = [a, b, 61, 61] ∧ ∀ x ∈ bs, x < 256 := by
  unfold b64Dec2 at h
  cases ha : b64Val a with
  | none => simp [ha] at h
  | some x =>
    cases hb : b64Val b with
    | none => simp [ha, hb] at h
    | some y =>
      simp only [ha, hb] at h
      split at h
      · rename_i hy
        injection h with h; subst h
        obtain ⟨hx, ex⟩ := b64Char_b64Val ha
        obtain ⟨hy2, ey⟩ := b64Char_b64Val hb
        constructor
        · simp only [b64Encode]
          have q1 : (x * 4 + y / 16) / 4 = x := by omega
          have q2 : (x * 4 + y / 16) % 4 * 16 = y := by omega
          rw [q1, q2, ex, ey]
        · intro z hz; simp at hz; subst hz; omega
      · cases h

theorem b64Dec3_sound {a b c : Nat} {bs : Bytes} (h : b64Dec3 a b c = some bs) :
    b64Encode bs = [a, b, c, 61] ∧ ∀ x ∈ bs, x < 256 := by
  unfold b64Dec3 at h
  cases ha : b64Val a with
  | none => simp [ha] at h
  | some x =>
    cases hb : b64Val b with
    | none => simp [ha, hb] at h
    | some y =>
      cases hc : b64Val c with
      | none => simp [ha, hb, hc] at h
      | some z =>
        simp only [ha, hb, hc] at h
        split at h
        · rename_i hz
          injection h with h; subst h
          obtain ⟨hx, ex⟩ := b64Char_b64Val ha
          obtain ⟨hy, ey⟩ := b64Char_b64Val hb
          obtain ⟨hz2, ez⟩ := b64Char_b64Val hc
          constructor
          · simp only [b64Encode]
            have q1 : (x * 4 + y / 16) / 4 = x := by omega
            have q2 : (x * 4 + y / 16) % 4 * 16 + (y % 16 * 16 + z / 4) / 16 = y := by omega
            have q3 : (y % 16 * 16 + z / 4) % 16 * 4 = z := by omega
            rw [q1, q2, q3, ex, ey, ez]
          · intro w hw; simp at hw; rcases hw with hw | hw <;> subst hw <;> omega
        · cases h

theorem b64Dec4_sound {a b c d : Nat} {bs : Bytes} (h : b64Dec4 a b c d = some bs) :
    ∃ p q r, bs = [p, q, r] ∧ p < 256 ∧ q < 256 ∧ r < 256 ∧
      b64Char (p / 4) = a ∧ b64Char (p % 4 * 16 + q / 16) = b ∧ b64Char (q % 16 * 4 + r / 64) = c ∧ b64Char (r % 64) = d := by
  unfold b64Dec4 at h
  cases ha : b64Val a with
  | none => simp [ha] at h
  | some x =>
    cases hb : b64Val b with
    | none => simp [ha, hb] at h
    | some y =>
      cases hc : b64Val c with
      | none => simp [ha, hb, hc] at h
      | some z =>
        cases hd : b64Val d with
        | none => simp [ha, hb, hc, hd] at h
        | some w =>
          simp only [ha, hb, hc, hd] at h
          injection h with h; subst h
          obtain ⟨hx, ex⟩ := b64Char_b64Val ha
          obtain ⟨hy, ey⟩ := b64Char_b64Val hb
          obtain ⟨hz, ez⟩ := b64Char_b64Val hc
          obtain ⟨hw, ew⟩ := b64Char_b64Val hd
          refine ⟨_, _, _, rfl, by omega, by omega, by omega, ?_, ?_, ?_, ?_⟩
          · have : (x * 4 + y / 16) / 4 = x := by omega
            rw [this, ex]
          · have : (x * 4 + y / 16) % 4 * 16 + (y % 16 * 16 + z / 4) / 16 = y := by omega
            rw [this, ey]
          · have : (y % 16 * 16 + z / 4) % 16 * 4 + (z % 4 * 64 + w) / 64 = z := by omega
            rw [this, ez]
          · have : (z % 4 * 64 + w) % 64 = w := by omega
            rw [this, ew]

/-- induction four elements at a time -/
theorem quadInduct {motive : List Nat → Prop} (h0 : motive []) (h1 : ∀ a, motive [a]) (h2 : ∀ a b, motive [a, b])
    (h3 : ∀ a b c, motive [a, b, c])
    (h4 : ∀ a b c d rest, motive rest → motive (a :: b :: c :: d :: rest)) : ∀ l, motive l := by
  have : ∀ l, motive l ∧ (∀ a, motive (a :: l)) ∧ (∀ a b, motive (a :: b :: l)) ∧ ∀ a b c, motive (a :: b :: c :: l) := by
    intro l
    induction l with
    | nil => exact ⟨h0, h1, h2, h3⟩
    | cons d t ih => exact ⟨ih.2.1 d, fun a => ih.2.2.1 a d, fun a b => ih.2.2.2 a b d, fun a b c => h4 a b c d t ih.1⟩
  exact fun l => (this l).1

/-- **base64_inverse (2)**: whatever `base64_decode` accepts with a length that is a multiple of 4
is the canonical RFC 4648 text of the bytes it returns: `base64_encode(base64_decode(s)) == s`
(no stray bits, no alternative spellings) -/
theorem base64_encode_decode : ∀ (s bs : Bytes), b64Quads s = some bs → s.length % 4 = 0 →
    b64Encode bs = s ∧ ∀ x ∈ bs, x < 256 := by
  intro s
  induction s using quadInduct with
  | h0 => intro bs h _; simp [b64Quads] at h; subst h; simp [b64Encode]
  | h1 a => intro bs h _; simp [b64Quads] at h
  | h2 a b => intro bs _ hl; simp at hl
  | h3 a b c => intro bs _ hl; simp at hl
  | h4 a b c d rest ih =>
    intro bs h hl
    simp only [b64Quads] at h
    by_cases hr : rest = []
    · subst hr
      simp only [if_true] at h
      by_cases hd : d = 61
      · subst hd
        simp only [if_true] at h
        by_cases hc : c = 61
        · subst hc; simp only [if_true] at h; exact b64Dec2_sound h
        · simp only [hc, if_false] at h; exact b64Dec3_sound h
      · simp only [hd, if_false] at h
        obtain ⟨p, q, r, e, hp, hq, hr, e1, e2, e3, e4⟩ := b64Dec4_sound h
        subst e
        refine ⟨by simp only [b64Encode, e1, e2, e3, e4], ?_⟩
        intro x hx; simp at hx; rcases hx with hx | hx | hx <;> subst hx <;> assumption
    · simp only [hr, if_false] at h
      cases h4 : b64Dec4 a b c d with
      | none => simp [h4] at h
      | some x =>
        cases hq : b64Quads rest with
        | none => simp [h4, hq] at h
        | some r =>
          simp only [h4, hq] at h
          injection h with h; subst h
          obtain ⟨p, q, r', e, hp, hq', hr', e1, e2, e3, e4⟩ := b64Dec4_sound h4
          subst e
          have hl' : rest.length % 4 = 0 := by simp at hl; omega
          obtain ⟨ie, ib⟩ := ih r hq hl'
          refine ⟨by simp only [List.cons_append, List.nil_append, b64Encode, e1, e2, e3, e4, ie], ?_⟩
          intro x hx
          simp only [List.cons_append, List.nil_append, List.mem_cons] at hx
          rcases hx with hx | hx | hx | hx
          · subst hx; assumption
          · subst hx; assumption
          · subst hx; assumption
          · exact ib x hx

/-! ## 14. statements that are NOT proved here (kept at full strength; see `unproved` in the
evidence).  They are checked by correspondence only. -/

/-- gzip is an inverse pair: no Lean model of DEFLATE -/
def gzip_inverse_statement (g : Gzip) : Prop := ∀ b : Bytes, decompressB g (g.compress b) = .ok b

/-- serde_json reads back what it writes, for everything `json_encode` can produce -/
def json_text_roundtrip_statement (print : JV → Str) (parse : Str → Option JV) : Prop :=
  ∀ (v : Val) (j : JV), encodeV v = .ok j → parse (print j) = some j

/-- JSON-shaped data written as a Noulith literal (or by `repr`) evaluates to what `json_decode`
gives for the same text; `evalLiteral` is the interpreter's literal evaluation (C15's subject) -/
def literal_repr_json_agreement_statement (text : Val → Str) (evalLiteral : Str → Option Val)
    (jsonDecodeText : Str → Option Val) : Prop :=
  ∀ v : Val, JsonShaped v → evalLiteral (text v) = some v ∧ jsonDecodeText (text v) = some v

/-! ## 15. whitespace around numbers and around the `/` is ignored (`trim`) -/

theorem trimStart_append_white (w s : Str) (hw : ∀ c ∈ w, isWhite c = true) : trimStart (w ++ s) = trimStart s := by
  induction w with
  | nil => rfl
  | cons c t ih =>
    simp only [List.cons_append, trimStart, hw c (by simp), if_true]
    exact ih (fun x hx => hw x (by simp [hx]))

/-- `trim` removes white space at both ends of a text whose own first and last characters are not white -/
theorem trim_decorated (w1 s w2 : Str) (hw1 : ∀ c ∈ w1, isWhite c = true) (hw2 : ∀ c ∈ w2, isWhite c = true)
    (hs : ∀ c ∈ s, isWhite c = false) : trim (w1 ++ s ++ w2) = s := by
  unfold trim
  rw [List.append_assoc, trimStart_append_white w1 _ hw1]
  cases s with
  | nil =>
    simp only [List.nil_append]
    have h1 : trimStart w2 = [] := by
      have := trimStart_append_white w2 [] hw2
      simpa [trimStart] using this
    rw [h1]; rfl
  | cons c t =>
    have hc : isWhite c = false := hs c (by simp)
    have e1 : trimStart (c :: t ++ w2) = c :: t ++ w2 := by simp [trimStart, hc]
    rw [e1, List.reverse_append, trimStart_append_white w2.reverse _ (fun x hx => hw2 x (by simpa using hx)),
      trimStart_id _ (fun x hx => hs x (by rw [List.mem_reverse] at hx; exact hx)), List.reverse_reverse]

/-- **rational_parse_exact, decorated**: the same exact value when the text is surrounded by white
space and when white space surrounds the `/` (`" -1.5 "`, `"1 / 2"`, tabs, U+00A0, U+3000, …) -/
theorem rational_parse_exact_ws (l : RatLit) (hwf : l.WF) (hr : l.InRange) (w1 w2 w3 w4 : Str)
    (h1 : ∀ c ∈ w1, isWhite c = true) (h2 : ∀ c ∈ w2, isWhite c = true)
    (h3 : ∀ c ∈ w3, isWhite c = true) (h4 : ∀ c ∈ w4, isWhite c = true) :
    rationalOfStr (w1 ++ (match l with
      | .dec d => d.render
      | .frac p q => p.render ++ w2 ++ 47 :: (w3 ++ q.render)) ++ w4) = .ok l.value := by
  unfold rationalOfStr
  suffices h : parseRationalExactly (w1 ++ (match l with
      | .dec d => d.render
      | .frac p q => p.render ++ w2 ++ 47 :: (w3 ++ q.render)) ++ w4) = some l.value by rw [h]
  unfold parseRationalExactly
  cases l with
  | dec d =>
    have hch := render_chars d hwf
    simp only [RatLit.value]
    rw [trim_decorated w1 _ w4 h1 h4 (fun c hc => numChar_not_white (hch c hc)),
      splitAtFirst_none _ _ (fun c hc => numChar_not_slash (hch c hc))]
    exact parseDecimalExactly_lit d hwf hr.1 hr.2
  | frac p q =>
    obtain ⟨wp, wq, hq0⟩ := hwf
    obtain ⟨rp, rq⟩ := hr
    have hp := render_chars p wp
    have hq := render_chars q wq
    have hpne : p.render ≠ [] := by
      obtain ⟨c, rest, e, _, _⟩ := mantissaText_head p wp
      rw [render_eq, e]; cases p.sign <;> simp [signText]
    have hqne : q.render ≠ [] := by
      obtain ⟨c, rest, e, _, _⟩ := mantissaText_head q wq
      rw [render_eq, e]; cases q.sign <;> simp [signText]
    simp only [RatLit.value]
    -- the whole text: white ++ (core) ++ white, where core starts with p's first and ends with q's last character
    obtain ⟨pc, pt, hpc⟩ := List.exists_cons_of_ne_nil hpne
    obtain ⟨qi, ql, hql⟩ : ∃ qi ql, q.render = qi ++ [ql] := by
      rcases List.eq_nil_or_concat q.render with h | ⟨qi, ql, h⟩
      · exact absurd h hqne
      · exact ⟨qi, ql, by rw [h, List.concat_eq_append]⟩
    have hpcw : isWhite pc = false := numChar_not_white (hp pc (by rw [hpc]; simp))
    have hqlw : isWhite ql = false := numChar_not_white (hq ql (by rw [hql]; simp))
    -- trim of the whole
    have htrim : trim (w1 ++ (p.render ++ w2 ++ 47 :: (w3 ++ q.render)) ++ w4)
        = p.render ++ w2 ++ 47 :: (w3 ++ q.render) := by
      unfold trim
      rw [List.append_assoc, trimStart_append_white w1 _ h1, hpc]
      have e1 : trimStart ((pc :: pt ++ w2 ++ 47 :: (w3 ++ q.render)) ++ w4)
          = (pc :: pt ++ w2 ++ 47 :: (w3 ++ q.render)) ++ w4 := by
        simp [trimStart, hpcw]
      rw [e1, List.reverse_append,
        trimStart_append_white w4.reverse _ (fun x hx => h4 x (by simpa using hx)), hql]
      have e2 : (pc :: pt ++ w2 ++ 47 :: (w3 ++ (qi ++ [ql]))).reverse
          = ql :: (pc :: pt ++ w2 ++ 47 :: (w3 ++ qi)).reverse := by
        simp [List.reverse_append]
      rw [e2]
      simp only [trimStart, hqlw, Bool.false_eq_true, if_false]
      rw [← e2, List.reverse_reverse]
    rw [htrim]
    have hnoslash : ∀ c ∈ p.render ++ w2, (decide (c = 47)) = false := by
      intro c hc
      rw [List.mem_append] at hc
      rcases hc with hc | hc
      · exact numChar_not_slash (hp c hc)
      · have := h2 c hc
        simp only [decide_eq_false_iff_not]
        intro h47; subst h47; simp [isWhite] at this
    rw [splitAtFirst_append _ _ 47 _ hnoslash (by decide)]
    have t1 : trim (p.render ++ w2) = p.render := by
      have := trim_decorated [] p.render w2 (by simp) h2 (fun c hc => numChar_not_white (hp c hc))
      simpa using this
    have t2 : trim (w3 ++ q.render) = q.render := by
      have := trim_decorated w3 q.render [] h3 (by simp) (fun c hc => numChar_not_white (hq c hc))
      simpa using this
    simp only [t1, t2, parseDecimalExactly_lit p wp rp.1 rp.2, parseDecimalExactly_lit q wq rq.1 rq.2, hq0, if_false]

/-! ## 16. `int_radix` on arbitrary text -/

/-- Spec of `int_radix`: every character must be a digit below the base (either case); the result is
the positional value -/
def specIntRadix (s : Str) (b : Int) : Out Int :=
  if 2 ≤ b ∧ b ≤ 36 then
    match s.mapM fun c => toDigit c b.toNat with
    | some ds => .ok (ofDigits b.toNat ds)
    | none => .throw
  else .throw

theorem radixLoop_eq (base : Nat) : ∀ (s : Str) (x : Nat),
    radixLoop base x s = (s.mapM fun c => toDigit c base).map fun ds => ds.foldl (fun acc d => base * acc + d) x := by
  intro s
  induction s with
  | nil => intro x; simp [radixLoop]
  | cons c t ih =>
    intro x
    simp only [radixLoop, List.mapM_cons]
    cases hd : toDigit c base with
    | none => simp
    | some d =>
      simp only [ih, Option.pure_def, Option.bind_eq_bind, Option.bind_some]
      cases (t.mapM fun c => toDigit c base) <;> simp

/-- `int_radix(s, b)` on EVERY string: the positional value when all characters are digits of the
base (upper or lower case, leading zeros, the empty string is 0), a Noulith error otherwise -/
theorem intRadix_eq_spec (s : Str) (r : Int) : intRadix s r = specIntRadix s r := by
  unfold intRadix specIntRadix
  by_cases h : 2 ≤ r ∧ r ≤ 36
  · have hu : inU32 r := by unfold inU32; omega
    simp only [hu, h, and_self, if_true, radixLoop_eq]
    cases (s.mapM fun c => toDigit c r.toNat) <;> simp [ofDigits]
  · simp only [h, if_false]
    split <;> rfl

/-! ## 17. corollaries: no codec loses information -/

/-- different integers have different decimal texts (in whatever representation they are held) -/
theorem showNInt_injective (a b : NInt) (h : showNInt a = showNInt b) : a.val = b.val := by
  have ha := int_str_roundtrip a
  have hb := int_str_roundtrip b
  rw [h, hb] at ha
  injection ha with ha; exact ha.symm

theorem strRadix_injective (a b r : Int) (ha : 0 ≤ a) (hb : 0 ≤ b) (hr : 2 ≤ r ∧ r ≤ 36)
    (h : strRadix a r = strRadix b r) : a = b := by
  have h1 := radix_roundtrip a r ha hr
  have h2 := radix_roundtrip b r hb hr
  rw [h, h2] at h1
  injection h1 with h1; exact h1.symm

theorem utf8Encode_injective (s t : Str) (hs : ∀ c ∈ s, IsScalar c) (ht : ∀ c ∈ t, IsScalar c)
    (h : utf8Encode s = utf8Encode t) : s = t := by
  have h1 := utf8_decode_encode s hs
  have h2 := utf8_decode_encode t ht
  rw [h, h2] at h1
  injection h1 with h1; exact h1.symm

theorem hexEncode_injective (a b : Bytes) (ha : ∀ x ∈ a, x < 256) (hb : ∀ x ∈ b, x < 256)
    (h : hexEncode a = hexEncode b) : a = b := by
  have h1 := hex_decode_encode a ha
  have h2 := hex_decode_encode b hb
  rw [h, h2] at h1
  injection h1 with h1; exact h1.symm

theorem b64Encode_injective (a b : Bytes) (ha : ∀ x ∈ a, x < 256) (hb : ∀ x ∈ b, x < 256)
    (h : b64Encode a = b64Encode b) : a = b := by
  have h1 := base64_decode_encode a ha
  have h2 := base64_decode_encode b hb
  rw [h, h2] at h1
  injection h1 with h1; exact h1.symm

/-- the sign of a literal negates its value: "including the sign" -/
theorem value_neg (d : Dec) :
    Dec.value { d with sign := some true } = - Dec.value { d with sign := none } := by
  simp only [Dec.value, signNeg, Dec.fracDigits, Dec.expValue]
  grind

theorem value_plus (d : Dec) :
    Dec.value { d with sign := some false } = Dec.value { d with sign := none } := by
  simp only [Dec.value, signNeg, Dec.fracDigits, Dec.expValue]
  rfl

/-! ## 18. integers inside lists -/

theorem reprNInt_eq_spec (n : NInt) : reprNInt n = showInt false 10 n.val := by
  unfold reprNInt; rw [fmtNInt_eq_spec]; rfl

theorem fmtIntList_go_eq (xs : List NInt) :
    fmtIntList.go xs = List.intercalate [44, 32] (xs.map fun x => showInt false 10 x.val) := by
  induction xs with
  | nil => rfl
  | cons x t ih =>
    cases t with
    | nil => simp [fmtIntList.go, reprNInt_eq_spec, List.intercalate]
    | cons y t' =>
      rw [fmtIntList.go, ih, reprNInt_eq_spec]
      · simp [List.intercalate]
      · intro h; cases h

/-- a list of integers prints as `[a, b, c]` with every element in decimal sign-and-magnitude
notation, whatever the representation of each element (and whatever the base flag) -/
theorem fmtIntList_eq_spec (xs : List NInt) :
    fmtIntList xs = [91] ++ List.intercalate [44, 32] (xs.map fun x => showInt false 10 x.val) ++ [93] := by
  unfold fmtIntList; rw [fmtIntList_go_eq]

theorem fmtIntList_repr_independent (xs ys : List NInt) (h : xs.map NInt.val = ys.map NInt.val) :
    fmtIntList xs = fmtIntList ys := by
  rw [fmtIntList_eq_spec, fmtIntList_eq_spec]
  have : (xs.map fun x => showInt false 10 x.val) = (ys.map fun x => showInt false 10 x.val) := by
    have h1 : (xs.map fun x => showInt false 10 x.val) = (xs.map NInt.val).map (showInt false 10) := by simp
    have h2 : (ys.map fun x => showInt false 10 x.val) = (ys.map NInt.val).map (showInt false 10) := by simp
    rw [h1, h2, h]
  rw [this]

/-! ## 19. format strings with several interpolations: flags are per slot -/

/-- a format string renders as the concatenation of the single-slot renderings (each with its own
flags, defaults where none are written) and the literal text in between — flags of one
interpolation never leak into the next -/
theorem fmtSlots_eq_spec (sl : List (Flags × NInt × Str)) :
    fmtSlots sl = sl.flatMap fun (fl, x, lit) => padTo fl.align fl.pad fl.padLength (showFmt fl.base x.val) ++ lit := by
  induction sl with
  | nil => rfl
  | cons a t ih =>
    obtain ⟨fl, n, lit⟩ := a
    simp only [fmtSlots, List.flatMap_cons, ih, fmtNumWith_eq_spec, List.append_assoc]

/-- in particular a slot without flags is the plain decimal text, whatever precedes it -/
theorem fmtSlots_default_after (fl : Flags) (a b : NInt) (lit : Str) :
    fmtSlots [(fl, a, lit), ({}, b, [])] = fmtNumWith fl a ++ lit ++ showInt false 10 b.val := by
  simp only [fmtSlots, List.append_nil]
  congr 1
  rw [fmtNumWith_eq_spec]
  simp [padTo, showFmt, FmtBase.upper, FmtBase.radix]

theorem fmtSlots_repr_independent (fl : Flags) (a b : NInt) (lit : Str) (rest : List (Flags × NInt × Str))
    (h : a.val = b.val) : fmtSlots ((fl, a, lit) :: rest) = fmtSlots ((fl, b, lit) :: rest) := by
  simp only [fmtSlots, fmtNumWith_repr_independent fl a b h]

theorem fmtDict1_eq_spec (key : Str) (v : NInt) :
    fmtDict1 key v = [123, 34] ++ key ++ [34, 58, 32] ++ showInt false 10 v.val ++ [125] := by
  unfold fmtDict1; rw [reprNInt_eq_spec]

/-! ## 20. a format string renders as a function of (flags, value) per slot — nothing else -/

/-- re-evaluating every interpolated expression (`g`: to any representation of the same VALUE) while
keeping each slot's flags (taken from the literal) and the literal text renders identically.
This is what `freeze` relies on: it rebuilds each interpolated expression and must keep the
literal's flags (a rebuilt slot with fresh default flags would print `255` for `F"{n #x}"`). -/
theorem fmtSlots_flags_value_only (g : NInt → NInt) (hg : ∀ n, (g n).val = n.val) :
    ∀ (sl : List (Flags × NInt × Str)),
    fmtSlots (sl.map fun s => (s.1, g s.2.1, s.2.2)) = fmtSlots sl
  | [] => rfl
  | (fl, n, lit) :: t => by
    simp only [List.map_cons, fmtSlots, fmtNumWith_repr_independent fl (g n) n (hg n),
      fmtSlots_flags_value_only g hg t]

/-- dropping a slot's flags changes the text (witness: 255 with `#x`), so the flags are needed -/
theorem fmtSlots_flags_matter :
    fmtSlots [({ base := .lowerHex }, .small 255, [])] ≠ fmtSlots [({}, .small 255, [])] := by
  intro h
  have h1 : fmtSlots [({ base := .lowerHex }, .small 255, [])] = [102, 102] := by
    simp [fmtSlots, fmtNumWith, fmtNInt, fmtI64, natRadix, FmtBase.radix, FmtBase.upper, digitsLE, digitChar]
  have h2 : fmtSlots [({}, .small 255, [])] = [50, 53, 53] := by
    simp [fmtSlots, fmtNumWith, fmtNInt, fmtI64, natRadix, digitsLE, digitChar]
  rw [h1, h2] at h
  simp at h

end Noulith.C16
