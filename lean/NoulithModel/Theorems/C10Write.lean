/-
C10 (continued) — writes address the positions reads do (`x[i] = v`, `pop`, `remove`, `|..`), and
the two infinite streams with overrides (`repeat`, `cycle`).
Continues NoulithModel/Theorems/C10.lean (same namespace).
-/
import NoulithModel.Theorems.C10Access

namespace Noulith.C10
open Noulith Noulith.Index Noulith.PyIndex

/-! ## 7. `read_write_same_position` -/

theorem setAt_eq {α} (xs : List α) (k : Int) (v : α) (h0 : 0 ≤ k) (h1 : k < xs.length) :
    setAt xs k v = .ok (xs.set k.toNat v) := by simp [setAt, h0, h1]

/-- `x[i] = v` on a list writes position `pyIndex len i` — the position `x[i]` reads — and raises
exactly when the read raises -/
theorem set_list_addresses_pyIndex (xs : List Val) (i v : Val) (every : Bool) (hl : lenOk xs.length) :
    setIndex (.list xs) [.index i] (some v) every = (match i with
      | .int n => (match pyIndex xs.length n with
        | some k => .ok (.list (xs.set k.toNat v))
        | none => .throw)
      | _ => .throw) := by
  simp only [setIndex, bind_ok, Option.getD_some]
  rw [index_obj_is_python _ i hl]
  cases i <;> simp
  rename_i n
  cases h : pyIndex (xs.length : Int) n with
  | none => simp
  | some k =>
    have := pyIndex_range h
    simp [elemAt_eq xs k this.1 this.2, setAt_eq xs k v this.1 this.2,
      List.getElem?_eq_getElem (by omega : k.toNat < xs.length), ofOpt]

/-- **read_write_same_position**: after `x[n] = v` the read `x[n]` returns `v`, every read that
addresses another position is unchanged, and the length is unchanged -/
theorem read_write_same_position (xs : List Val) (n k : Int) (v : Val) (hl : lenOk xs.length)
    (hk : pyIndex xs.length n = some k) :
    setIndex (.list xs) [.index (.int n)] (some v) false = .ok (.list (xs.set k.toNat v))
    ∧ Index.index (.list (xs.set k.toNat v)) (.int n) = .ok v
    ∧ (∀ m k', pyIndex xs.length m = some k' → k' ≠ k →
        Index.index (.list (xs.set k.toNat v)) (.int m) = Index.index (.list xs) (.int m)) := by
  have hr := pyIndex_range hk
  have hl' : seqOk (.list (xs.set k.toNat v)) := by simpa [seqOk] using hl
  have hl0 : seqOk (.list xs) := hl
  refine ⟨?_, ?_, ?_⟩
  · rw [set_list_addresses_pyIndex xs _ v false hl]; simp [hk]
  · rw [index_refines _ _ hl' rfl]
    simp only [PyIndex.index, asInt, items, elemOf, List.length_set, hk]
    have : k.toNat < xs.length := by omega
    simp [this, ofOpt]
  · intro m k' hm hne
    have hr' := pyIndex_range hm
    rw [index_refines _ _ hl' rfl, index_refines _ _ hl0 rfl]
    simp only [PyIndex.index, asInt, items, elemOf, List.length_set, hm]
    have : ¬ k.toNat = k'.toNat := by omega
    simp [List.getElem?_set, this]

example : pyIndex 3 (-1) = some 2 ∧ lenOk ([Val.int 1, .int 2, .int 3].length : Int) := by decide

/-- `pop x` returns `x[-1]` and leaves `x[:-1]` -/
theorem pop_refines (s : Val) : Index.tryPop s = PyIndex.pop s := by
  cases s <;> simp [tryPop, PyIndex.pop]
  rename_i xs
  rw [popLast_eq, elemOf_last, sliceOf_butlast]
  cases xs.getLast? <;> simp

theorem removeAt_eq {α} (xs : List α) (k : Int) (h0 : 0 ≤ k) (h1 : k < xs.length) :
    removeAt xs k = (ofOpt xs[k.toNat]?).map fun x => (x, xs.eraseIdx k.toNat) := by
  have hk : k.toNat < xs.length := by omega
  have : ¬ k < 0 := by omega
  simp [removeAt, this, List.getElem?_eq_getElem hk, ofOpt]

/-- `remove x[i]` returns `x[i]` and deletes position `pyIndex len i` -/
theorem removeIndex_refines (s i : Val) (hs : seqOk s) :
    Index.tryRemoveIndex s i = PyIndex.removeIndex s i := by
  cases s with
  | list xs =>
    simp only [tryRemoveIndex, PyIndex.removeIndex, seqOk] at *
    rw [index_obj_is_python _ i hs]
    cases i <;> simp [asInt]
    rename_i n
    cases h : pyIndex (xs.length : Int) n with
    | none => simp
    | some k =>
      have := pyIndex_range h
      simp only [bind_ok, removeAt_eq xs k this.1 this.2]
      cases xs[k.toNat]? <;> simp [ofOpt]
  | _ => simp [tryRemoveIndex, PyIndex.removeIndex]

/-- `remove x[a:b]` returns `x[a:b]` and leaves `x[:a] ++ x[b:]` (clamped like the read) -/
theorem removeSlice_refines (s : Val) (lo hi : Option Val) (hs : seqOk s) :
    Index.tryRemoveSlice s lo hi = PyIndex.removeSlice s lo hi := by
  cases s with
  | list xs =>
    simp only [tryRemoveSlice, PyIndex.removeSlice, seqOk] at *
    rw [slice_obj_is_python _ lo hi hs]
    cases bound lo <;> simp
    cases bound hi <;> simp
    rename_i l h
    have hb := pySlice_bounds xs.length l h hs.1
    rw [subRange_eq xs _ _ hb.1 hb.2.1 hb.2.2]
    simp [sliceOf]
  | _ => simp [tryRemoveSlice, PyIndex.removeSlice]

/-- `a |.. [k, v]` writes position `pyIndex len k` -/
theorem updateAt_refines (a k v : Val) (hs : seqOk a) :
    Index.updateAt a k v = PyIndex.updateAt a k v := by
  cases a with
  | list xs =>
    simp only [Index.updateAt, PyIndex.updateAt, PyIndex.setPath, seqOk] at *
    rw [index_obj_is_python _ k hs]
    cases k <;> simp [asInt]
    rename_i n
    cases h : pyIndex (xs.length : Int) n with
    | none => simp
    | some j =>
      have := pyIndex_range h
      simp [setAt_eq xs j v this.1 this.2, List.getElem?_eq_getElem (by omega : j.toNat < xs.length), ofOpt]
  | _ => simp [Index.updateAt, PyIndex.updateAt]

/-! ## 8. the infinite streams with overrides -/

/-- `repeat(x)[i]` is `x` for every machine-word integer -/
theorem repeat_index_refines (x i : Val) : Index.index (.rep x) i = PyIndex.index (.rep x) i := by
  cases i with
  | int n => by_cases h : inI64 n <;> simp [Index.index, PyIndex.index, isNum, toIsize, asInt, h]
  | _ => simp [Index.index, PyIndex.index, isNum, toIsize, asInt]

/-- `cycle(xs)[i]` (start position `pos`) is `xs[(pos + i) mod len]`, for every machine-word
integer, without overflow -/
theorem cycle_index_refines (xs : List Val) (pos : Nat) (i : Val) (hs : seqOk (.cyc xs pos)) :
    Index.index (.cyc xs pos) i = PyIndex.index (.cyc xs pos) i := by
  obtain ⟨hl, h0, hp⟩ := hs
  unfold lenOk at hl
  cases i with
  | int n =>
    simp only [Index.index, PyIndex.index, isNum, toIsize, asInt, if_true]
    by_cases hn : inI64 n
    · simp only [hn, if_true, cycleIndexIsize, h0, if_false]
      have hpos : (0 : Int) < xs.length := by omega
      have h1 := Int.emod_nonneg n (by omega : (xs.length : Int) ≠ 0)
      have h2 := Int.emod_lt_of_pos n hpos
      have e : asUsize (n % (xs.length : Int)) = n % (xs.length : Int) := by unfold asUsize; omega
      have hu : inUsize ((pos : Int) + n % (xs.length : Int)) := by unfold inUsize; omega
      simp only [e, addUsize, hu, if_true, bind_ok]
      have h3 := Int.emod_nonneg ((pos : Int) + n % (xs.length : Int)) (by omega : (xs.length : Int) ≠ 0)
      have h4 := Int.emod_lt_of_pos ((pos : Int) + n % (xs.length : Int)) hpos
      rw [elemAt_eq xs _ h3 h4, Int.add_emod_emod]
    · simp [hn]
  | num t => simp [Index.index, PyIndex.index, isNum, toIsize, asInt]
  | _ => simp [Index.index, PyIndex.index, isNum, asInt]

/-- the overflow of the pinned code: `cycle([1,2])[1:][2^63-1]` panicked -/
theorem cycle_old_code_panics :
    (cycleIndexIsizeOld [.int 1, .int 2] 1 9223372036854775807).isPanic = true := by decide

/-- the overflow of the pinned code: `repeat(7)[-2^63:0]` panicked -/
theorem repeat_old_code_panics :
    (repeatSliceOld (.int 7) (some (-9223372036854775808)) (some 0)).isPanic = true := by decide

/-- slices of `repeat(x)`: `k` elements between two positions of the same kind (both from the
start, or both "before infinity"), nothing from a before-infinity position to a finite one, the
stream itself from a finite position to infinity; no overflow for any machine-word bounds -/
theorem repeat_slice_refines (x : Val) (lo hi : Option Val) :
    Index.slice (.rep x) lo hi = PyIndex.slice (.rep x) lo hi := by
  simp only [Index.slice, PyIndex.slice]
  rw [bound_conv, bound_conv]
  cases h1 : bound lo <;> simp
  cases h2 : bound hi <;> simp
  rename_i l h
  have hl := bound_ok h1
  have hh := bound_ok h2
  unfold repeatSlice
  cases l with
  | none =>
    cases h with
    | none => simp
    | some b =>
      simp only [boundOk] at hh; unfold inI64 at hh
      by_cases hb : b < 0
      · have : b - 1 < 0 := by omega
        simp [hb, this]
      · have e : (asUsize (max b 0)).toNat = b.toNat := by unfold asUsize; omega
        simp [hb, e]
  | some a =>
    simp only [boundOk] at hl; unfold inI64 at hl
    cases h with
    | none =>
      by_cases ha : a < 0
      · have h' : a - 1 < 0 := by omega
        have e : asUsize (max (-1 - (a - 1)) 0) = -a := by unfold asUsize; omega
        simp [ha, h', e]
      · simp [ha]
    | some b =>
      simp only [boundOk] at hh; unfold inI64 at hh
      by_cases ha : a < 0 <;> by_cases hb : b < 0
      · have h1' : a - 1 < 0 := by omega
        have h2' : b - 1 < 0 := by omega
        have e : (asUsize (max (b - 1 - (a - 1)) 0)).toNat = (b - a).toNat := by unfold asUsize; omega
        simp [ha, hb, h1', h2', e]
      · have h1' : a - 1 < 0 := by omega
        simp [ha, hb, h1']
      · have h2' : b - 1 < 0 := by omega
        simp [ha, hb, h2']
      · have e : (asUsize (max (b - a) 0)).toNat = (b - a).toNat := by unfold asUsize; omega
        simp [ha, hb, e]

/-- slices of `cycle(xs)` with non-negative bounds walk the cycle from `pos + lo`; a negative bound
would need the end of an infinite stream and raises -/
theorem cycle_slice_refines (xs : List Val) (pos : Nat) (lo hi : Option Val)
    (hs : seqOk (.cyc xs pos)) :
    Index.slice (.cyc xs pos) lo hi = PyIndex.slice (.cyc xs pos) lo hi := by
  obtain ⟨_, h0, _⟩ := hs
  simp only [Index.slice, PyIndex.slice]
  rw [bound_conv, bound_conv]
  cases bound lo <;> simp
  cases bound hi <;> simp
  rename_i l h
  unfold cycleSlice
  simp only [h0, if_false]
  cases h with
  | none =>
    by_cases hl : l.getD 0 < 0
    · have : ¬ l.getD 0 ≥ 0 := by omega
      simp [hl, this]
    · have : l.getD 0 ≥ 0 := by omega
      have hne : ¬ xs = [] := fun h => h0 (by simp [h])
      simp [hl, this, hne]
  | some b =>
    by_cases hc : l.getD 0 < 0 ∨ b < 0
    · have : ¬ (l.getD 0 ≥ 0 ∧ b ≥ 0) := by omega
      simp [hc, this]
    · have : l.getD 0 ≥ 0 ∧ b ≥ 0 := by omega
      have hne : ¬ xs = [] := fun h => h0 (by simp [h])
      simp [hc, this, hne]

end Noulith.C10
