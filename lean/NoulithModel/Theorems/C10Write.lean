/-
C10 (continued) — writes address the positions reads do (`x[i] = v`, `pop`, `remove`, `|..`), and
the two infinite streams with overrides (`repeat`, `cycle`).
Continues NoulithModel/Theorems/C10.lean (same namespace).
-/
import NoulithModel.Theorems.C10Access

namespace Noulith.C10
open Noulith Noulith.Index Noulith.PyIndex

/-! ## 7. `read_write_same_position` -/

theorem setAt_eq {α} (xs : List α) (k : Int) (v : α) (h0 : 0 ≤ k) (h1 : k < xs.length) :
    setAt xs k v = .ok (xs.set k.toNat v) := by simp [setAt, h0, h1]

/-- `x[i] = v` on a list writes position `pyIndex len i` — the position `x[i]` reads — and raises
exactly when the read raises (`value = none` is the "drop the LHS" write of null) -/
theorem set_list_addresses_pyIndex_opt (xs : List Val) (i : Val) (value : Option Val) (every : Bool)
    (hl : lenOk xs.length) :
    setIndex (.list xs) [.index i] value every = (match i with
      | .int n => (match pyIndex xs.length n with
        | some k => .ok (.list (xs.set k.toNat (value.getD .null)))
        | none => .throw)
      | _ => .throw) := by
  simp only [setIndex, bind_ok]
  rw [index_obj_is_python _ i hl]
  cases i <;> simp
  rename_i n
  cases h : pyIndex (xs.length : Int) n with
  | none => simp
  | some k =>
    have := pyIndex_range h
    simp [elemAt_eq xs k this.1 this.2, setAt_eq xs k _ this.1 this.2,
      List.getElem?_eq_getElem (by omega : k.toNat < xs.length), ofOpt]

theorem set_list_addresses_pyIndex (xs : List Val) (i v : Val) (every : Bool) (hl : lenOk xs.length) :
    setIndex (.list xs) [.index i] (some v) every = (match i with
      | .int n => (match pyIndex xs.length n with
        | some k => .ok (.list (xs.set k.toNat v))
        | none => .throw)
      | _ => .throw) := by
  rw [set_list_addresses_pyIndex_opt xs i (some v) every hl]; rfl

/-- **read_write_same_position**: after `x[n] = v` the read `x[n]` returns `v`, every read that
addresses another position is unchanged, and the length is unchanged -/
theorem read_write_same_position (xs : List Val) (n k : Int) (v : Val) (hl : lenOk xs.length)
    (hk : pyIndex xs.length n = some k) :
    setIndex (.list xs) [.index (.int n)] (some v) false = .ok (.list (xs.set k.toNat v))
    ∧ Index.index (.list (xs.set k.toNat v)) (.int n) = .ok v
    ∧ (∀ m k', pyIndex xs.length m = some k' → k' ≠ k →
        Index.index (.list (xs.set k.toNat v)) (.int m) = Index.index (.list xs) (.int m)) := by
  have hr := pyIndex_range hk
  have hl' : seqOk (.list (xs.set k.toNat v)) := by simpa [seqOk] using hl
  have hl0 : seqOk (.list xs) := hl
  refine ⟨?_, ?_, ?_⟩
  · rw [set_list_addresses_pyIndex xs _ v false hl]; simp [hk]
  · rw [index_refines _ _ hl' rfl]
    simp only [PyIndex.index, asInt, items, elemOf, List.length_set, hk]
    have : k.toNat < xs.length := by omega
    simp [this, ofOpt]
  · intro m k' hm hne
    have hr' := pyIndex_range hm
    rw [index_refines _ _ hl' rfl, index_refines _ _ hl0 rfl]
    simp only [PyIndex.index, asInt, items, elemOf, List.length_set, hm]
    have : ¬ k.toNat = k'.toNat := by omega
    simp [List.getElem?_set, this]

example : pyIndex 3 (-1) = some 2 ∧ lenOk ([Val.int 1, .int 2, .int 3].length : Int) := by decide

/-- `pop x` returns `x[-1]` and leaves `x[:-1]` -/
theorem pop_refines (s : Val) : Index.tryPop s = PyIndex.pop s := by
  cases s <;> simp [tryPop, PyIndex.pop]
  rename_i xs
  rw [popLast_eq, elemOf_last, sliceOf_butlast]
  cases xs.getLast? <;> simp

theorem removeAt_eq {α} (xs : List α) (k : Int) (h0 : 0 ≤ k) (h1 : k < xs.length) :
    removeAt xs k = (ofOpt xs[k.toNat]?).map fun x => (x, xs.eraseIdx k.toNat) := by
  have hk : k.toNat < xs.length := by omega
  have : ¬ k < 0 := by omega
  simp [removeAt, this, List.getElem?_eq_getElem hk, ofOpt]

/-- `remove x[i]` returns `x[i]` and deletes position `pyIndex len i` -/
theorem removeIndex_refines (s i : Val) (hs : seqOk s) :
    Index.tryRemoveIndex s i = PyIndex.removeIndex s i := by
  cases s with
  | list xs =>
    simp only [tryRemoveIndex, PyIndex.removeIndex, seqOk] at *
    rw [index_obj_is_python _ i hs]
    cases i <;> simp [asInt]
    rename_i n
    cases h : pyIndex (xs.length : Int) n with
    | none => simp
    | some k =>
      have := pyIndex_range h
      simp only [bind_ok, removeAt_eq xs k this.1 this.2]
      cases xs[k.toNat]? <;> simp [ofOpt]
  | _ => simp [tryRemoveIndex, PyIndex.removeIndex]

/-- `remove x[a:b]` returns `x[a:b]` and leaves `x[:a] ++ x[b:]` (clamped like the read) -/
theorem removeSlice_refines (s : Val) (lo hi : Option Val) (hs : seqOk s) :
    Index.tryRemoveSlice s lo hi = PyIndex.removeSlice s lo hi := by
  cases s with
  | list xs =>
    simp only [tryRemoveSlice, PyIndex.removeSlice, seqOk] at *
    rw [slice_obj_is_python _ lo hi hs]
    cases bound lo <;> simp
    cases bound hi <;> simp
    rename_i l h
    have hb := pySlice_bounds xs.length l h hs.1
    rw [subRange_eq xs _ _ hb.1 hb.2.1 hb.2.2]
    simp [sliceOf]
  | _ => simp [tryRemoveSlice, PyIndex.removeSlice]

/-- `a |.. [k, v]` writes position `pyIndex len k` -/
theorem updateAt_refines (a k v : Val) (hs : seqOk a) :
    Index.updateAt a k v = PyIndex.updateAt a k v := by
  cases a with
  | list xs =>
    simp only [Index.updateAt, PyIndex.updateAt, PyIndex.setPath, seqOk] at *
    rw [index_obj_is_python _ k hs]
    cases k <;> simp [asInt]
    rename_i n
    cases h : pyIndex (xs.length : Int) n with
    | none => simp
    | some j =>
      have := pyIndex_range h
      simp [setAt_eq xs j v this.1 this.2, List.getElem?_eq_getElem (by omega : j.toNat < xs.length), ofOpt]
  | _ => simp [Index.updateAt, PyIndex.updateAt]

/-! ### every path: `x[i₁]…[iₙ] = v` and `every x[…][a:b]… = v` -/

/-- the Rust length invariant for a value and for every list nested in it -/
inductive DeepOk : Val → Prop
  | null : DeepOk .null
  | int (v) : DeepOk (.int v)
  | num (t) : DeepOk (.num t)
  | other (t) : DeepOk (.other t)
  | rep (x) : DeepOk (.rep x)
  | cyc (xs pos) : lenOk xs.length → xs.length ≠ 0 → pos < xs.length → DeepOk (.cyc xs pos)
  | str (bs) : lenOk bs.length → DeepOk (.str bs)
  | bytes (bs) : lenOk bs.length → DeepOk (.bytes bs)
  | vec (xs) : lenOk xs.length → DeepOk (.vec xs)
  | list (xs) : lenOk xs.length → (∀ x ∈ xs, DeepOk x) → DeepOk (.list xs)
  | stream (xs) : lenOk xs.length → (∀ x ∈ xs, DeepOk x) → DeepOk (.stream xs)

theorem mapOut_congr {α β} (f g : α → Out β) (l : List α) (h : ∀ e ∈ l, f e = g e) :
    mapOut f l = mapOut g l := by
  induction l with
  | nil => rfl
  | cons a t ih =>
    simp only [mapOut, h a (by simp)]
    rw [ih fun e he => h e (by simp [he])]

theorem mem_sliceOf {α} {xs : List α} {lo hi : Option Int} {e : α} (h : e ∈ sliceOf xs lo hi) :
    e ∈ xs := List.mem_of_mem_drop (List.mem_of_mem_take h)

/-- one index step into a list (or a stream, which is first forced into a list) -/
theorem set_step_index (xs : List Val) (i v : Val) (rest : List Ix) (every : Bool)
    (hl : lenOk xs.length)
    (ih : ∀ x ∈ xs, setIndex x rest (some v) every = setPath x rest v every) :
    ((pythonicIndex xs.length i).bind fun k => (elemAt xs k).bind fun old =>
        (setIndex old rest (some v) every).bind fun new => (setAt xs k new).map Val.list)
      = (match asInt i with
        | some n => (match pyIndex xs.length n with
          | some k => (ofOpt xs[k.toNat]?).bind fun old =>
              (setPath old rest v every).bind fun new => .ok (.list (xs.set k.toNat new))
          | none => .throw)
        | none => .throw) := by
  rw [index_obj_is_python _ i hl]
  cases i <;> simp [asInt]
  rename_i n
  cases h : pyIndex (xs.length : Int) n with
  | none => simp
  | some k =>
    have hr := pyIndex_range h
    have hk : k.toNat < xs.length := by omega
    simp only [bind_ok, elemAt_eq xs k hr.1 hr.2, List.getElem?_eq_getElem hk, ofOpt]
    rw [ih _ (List.getElem_mem hk)]
    cases setPath xs[k.toNat] rest v every <;> simp [setAt_eq xs k _ hr.1 hr.2]

/-- one `every` slice step into a list -/
theorem set_step_slice (xs : List Val) (lo hi : Option Val) (v : Val) (rest : List Ix)
    (hl : lenOk xs.length)
    (ih : ∀ x ∈ xs, setIndex x rest (some v) true = setPath x rest v true) :
    ((pythonicSliceObj xs.length lo hi).bind fun p => (subRange xs p.1 p.2).bind fun mid =>
        (mapOut (fun e => setIndex e rest (some v) true) mid).bind fun mid' =>
          .ok (Val.list (xs.take p.1.toNat ++ mid' ++ xs.drop p.2.toNat)))
      = ((bound lo).bind fun lo => (bound hi).bind fun hi =>
          (mapOut (fun e => setPath e rest v true) (sliceOf xs lo hi)).bind fun mid =>
            .ok (Val.list (xs.take (pySlice xs.length lo hi).1.toNat ++ mid
                          ++ xs.drop (pySlice xs.length lo hi).2.toNat))) := by
  rw [slice_obj_is_python _ lo hi hl]
  cases bound lo <;> simp
  cases bound hi <;> simp
  rename_i l h
  have hb := pySlice_bounds xs.length l h hl.1
  rw [subRange_eq xs _ _ hb.1 hb.2.1 hb.2.2]
  simp only [bind_ok]
  have : (xs.drop (pySlice (↑xs.length) l h).1.toNat).take
      ((pySlice (↑xs.length) l h).2 - (pySlice (↑xs.length) l h).1).toNat = sliceOf xs l h := rfl
  rw [this, mapOut_congr _ (fun e => setPath e rest v true) _ fun e he => ih e (mem_sliceOf he)]

/-- one index step into a string: the value must be a one-byte string, the result must stay UTF-8 -/
theorem set_str (bs : List Nat) (i v : Val) (rest : List Ix) (every : Bool) (hl : lenOk bs.length) :
    setIndex (.str bs) (.index i :: rest) (some v) every
      = setPath (.str bs) (.index i :: rest) v every := by
  simp only [setIndex, bind_ok, setPath]
  cases rest with
  | cons r rs =>
    cases i <;> simp [asInt]
  | nil =>
    simp only [List.isEmpty_nil, if_true]
    cases i with
    | int n =>
      simp only [asInt]
      cases v with
      | str vb =>
        cases vb with
        | nil => simp
        | cons b t =>
          cases t with
          | cons _ _ => simp
          | nil =>
            simp only [List.length_singleton, if_true, List.headD_cons]
            rw [index_obj_is_python _ _ hl]
            simp only
            cases h : pyIndex (bs.length : Int) n with
            | none => simp
            | some k =>
              have := pyIndex_range h
              simp [setAt_eq bs k _ this.1 this.2]
      | _ => simp
    | _ =>
      simp only [asInt]
      cases v with
      | str vb =>
        by_cases h1 : vb.length = 1 <;> simp [h1, pythonicIndex, isNum, toIsize]
      | _ => simp

/-- **set_index_refines** — for every lvalue path (any mix of index steps, and slice steps under
`every`) into any nesting of lists, `set_index` of the code computes what the Spec's `setPath`
computes: each index step addresses `pyIndex len i`, each slice step the clamped Python range;
a slice step without `every` raises. -/
theorem set_index_refines (ixs : List Ix) (lhs v : Val) (every : Bool) (hok : DeepOk lhs) :
    setIndex lhs ixs (some v) every = setPath lhs ixs v every := by
  induction ixs generalizing lhs with
  | nil => simp [setIndex, setPath]
  | cons fi rest ih =>
    cases fi with
    | index i =>
      cases hok with
      | list xs hl hx =>
        simp only [setIndex, bind_ok, setPath]
        rw [set_step_index xs i v rest every hl fun x hxm => ih x (hx x hxm)]
        cases asInt i <;> rfl
      | stream xs hl hx =>
        simp only [setIndex, bind_ok, setPath]
        rw [set_step_index xs i v rest every hl fun x hxm => ih x (hx x hxm)]
        cases asInt i <;> rfl
      | vec xs hl =>
        simp only [setIndex, bind_ok, setPath]
        rw [index_obj_is_python _ i hl]
        cases i <;> simp [asInt]
        rename_i n
        by_cases hr : rest = [] <;> by_cases hv : isNum v = true <;> simp [hr, hv]
        cases h : pyIndex (xs.length : Int) n with
        | none => simp
        | some k =>
          have := pyIndex_range h
          simp [setAt_eq xs k v this.1 this.2]
      | bytes bs hl =>
        simp only [setIndex, bind_ok, setPath]
        rw [index_obj_is_python _ i hl]
        cases i <;> simp [asInt]
        · rename_i n
          cases rest with
          | cons _ _ => simp
          | nil =>
            simp only [List.isEmpty_nil, if_true]
            by_cases hv : isNum v = true
            · simp only [hv, if_true]
              cases h : pyIndex (bs.length : Int) n with
              | none => cases toU8 v <;> simp
              | some k =>
                have := pyIndex_range h
                cases toU8 v <;> simp [setAt_eq bs k _ this.1 this.2]
            · have : toU8 v = none := by cases v <;> simp_all [toU8, isNum]
              simp [hv, this]
        all_goals (cases rest <;> simp <;> split <;> simp)
      | str bs hl => exact set_str bs i v rest every hl
      | _ => simp [setIndex, setPath]
    | slice lo hi =>
      cases every with
      | true =>
        cases hok with
        | list xs hl hx =>
          simp only [setIndex, bind_ok, setPath, if_true, Bool.not_true, Bool.false_eq_true, if_false]
          rw [set_step_slice xs lo hi v rest hl fun x hxm => ih x (hx x hxm)]
        | stream xs hl hx =>
          simp only [setIndex, bind_ok, setPath, if_true, Bool.not_true, Bool.false_eq_true, if_false]
          rw [set_step_slice xs lo hi v rest hl fun x hxm => ih x (hx x hxm)]
        | _ => simp [setIndex, setPath]
      | false =>
        -- plain slice assignment is not part of the language: a type error on both sides
        cases hok <;> simp [setIndex, setPath]

example : DeepOk (.list [.list [.int 1, .int 2], .list [.int 3]]) := by
  refine .list _ (by decide) ?_
  intro x hx
  simp at hx
  rcases hx with rfl | rfl
  · exact .list _ (by decide) (by intro y hy; simp at hy; rcases hy with rfl | rfl <;> exact .int _)
  · exact .list _ (by decide) (by intro y hy; simp at hy; subst hy; exact .int _)

/-- **mod_path_refines** — `modify_existing_index` (behind `pop x[i]…`, `remove x[i]…[j]`) walks
the same positions: every index step addresses `pyIndex len i`. -/
theorem mod_path_refines (ixs : List Ix) (lhs : Val) (f g : Val → Out (Val × Val))
    (hfg : ∀ v, DeepOk v → f v = g v) (hok : DeepOk lhs) :
    modPath lhs ixs f = atPath lhs ixs g := by
  induction ixs generalizing lhs with
  | nil => simp [modPath, atPath, hfg lhs hok]
  | cons fi rest ih =>
    have step : ∀ xs : List Val, lenOk xs.length → (∀ x ∈ xs, DeepOk x) → ∀ i : Val,
        ((pythonicIndex xs.length i).bind fun k => (elemAt xs k).bind fun old =>
          (modPath old rest f).bind fun p => (setAt xs k p.2).map fun xs' => (p.1, Val.list xs'))
        = (match asInt i with
          | some n => (match pyIndex xs.length n with
            | some k => (ofOpt xs[k.toNat]?).bind fun old =>
                (atPath old rest g).bind fun p => .ok (p.1, .list (xs.set k.toNat p.2))
            | none => .throw)
          | none => .throw) := by
      intro xs hl hx i
      rw [index_obj_is_python _ i hl]
      cases i <;> simp [asInt]
      rename_i n
      cases h : pyIndex (xs.length : Int) n with
      | none => simp
      | some k =>
        have hr := pyIndex_range h
        have hk : k.toNat < xs.length := by omega
        simp only [bind_ok, elemAt_eq xs k hr.1 hr.2, List.getElem?_eq_getElem hk, ofOpt]
        rw [ih _ (hx _ (List.getElem_mem hk))]
        cases atPath xs[k.toNat] rest g <;> simp [setAt_eq xs k _ hr.1 hr.2]
    cases fi with
    | index i =>
      cases hok with
      | list xs hl hx =>
        simp only [modPath, bind_ok, atPath]
        rw [step xs hl hx i]
        cases asInt i <;> rfl
      | stream xs hl hx =>
        simp only [modPath, bind_ok, atPath]
        rw [step xs hl hx i]
        cases asInt i <;> rfl
      | _ => simp [modPath, atPath]
    | slice lo hi =>
      cases lhs <;> simp [modPath, atPath]

/-- `pop x[i₁]…[iₙ]` pops the list at the place the read `x[i₁]…[iₙ]` returns -/
theorem pop_path_refines (ixs : List Ix) (lhs : Val) (hok : DeepOk lhs) :
    modPath lhs ixs tryPop = atPath lhs ixs PyIndex.pop :=
  mod_path_refines ixs lhs _ _ (fun v _ => pop_refines v) hok

theorem seqOk_of_deepOk {v : Val} (h : DeepOk v) : seqOk v := by
  cases h <;> simp [seqOk] <;> first | assumption | (refine ⟨?_, ?_, ?_⟩ <;> simp_all)

/-- `remove x[i₁]…[iₙ][j]` removes position `pyIndex len j` of the list at that place -/
theorem remove_path_refines (ixs : List Ix) (lhs j : Val) (hok : DeepOk lhs) :
    modPath lhs ixs (fun v => tryRemoveIndex v j) = atPath lhs ixs (fun v => PyIndex.removeIndex v j) :=
  mod_path_refines ixs lhs _ _ (fun v hv => removeIndex_refines v j (seqOk_of_deepOk hv)) hok

/-- `x[i] += d` reads and writes the same position: it is `x[pyIndex] := x[pyIndex] + d` -/
theorem opAssignAdd_refines (xs : List Val) (i : Val) (d : Int) (hl : lenOk xs.length) :
    opAssignAdd (.list xs) i d = addAt (.list xs) i d := by
  have hs : seqOk (.list xs) := hl
  unfold opAssignAdd addAt
  rw [index_refines _ i hs rfl]
  cases i with
  | int n =>
    simp only [PyIndex.index, asInt, items, elemOf]
    cases h : pyIndex (xs.length : Int) n with
    | none => simp [ofOpt]
    | some k =>
      have hr := pyIndex_range h
      have hk : k.toNat < xs.length := by omega
      simp only [List.getElem?_eq_getElem hk, ofOpt, bind_ok]
      rw [set_list_addresses_pyIndex_opt xs _ none false hl]
      simp only [h, bind_ok, Option.getD_none]
      cases hx : xs[k.toNat] with
      | int o =>
        have hl' : lenOk ((xs.set k.toNat Val.null).length : Int) := by simpa using hl
        simp only
        rw [set_list_addresses_pyIndex _ _ _ false hl']
        simp only [List.length_set, h, List.set_set]
        simp [setPath, asInt, h, List.getElem?_eq_getElem hk, ofOpt]
      | _ => rfl
  | _ => simp [PyIndex.index, asInt]

/-! ## 8. the infinite streams with overrides -/

/-- `repeat(x)[i]` is `x` for every machine-word integer -/
theorem repeat_index_refines (x i : Val) : Index.index (.rep x) i = PyIndex.index (.rep x) i := by
  cases i with
  | int n => by_cases h : inI64 n <;> simp [Index.index, PyIndex.index, isNum, toIsize, asInt, h]
  | _ => simp [Index.index, PyIndex.index, isNum, toIsize, asInt]

/-- `cycle(xs)[i]` (start position `pos`) is `xs[(pos + i) mod len]`, for every machine-word
integer, without overflow -/
theorem cycle_index_refines (xs : List Val) (pos : Nat) (i : Val) (hs : seqOk (.cyc xs pos)) :
    Index.index (.cyc xs pos) i = PyIndex.index (.cyc xs pos) i := by
  obtain ⟨hl, h0, hp⟩ := hs
  unfold lenOk at hl
  cases i with
  | int n =>
    simp only [Index.index, PyIndex.index, isNum, toIsize, asInt, if_true]
    by_cases hn : inI64 n
    · simp only [hn, if_true, cycleIndexIsize, h0, if_false]
      have hpos : (0 : Int) < xs.length := by omega
      have h1 := Int.emod_nonneg n (by omega : (xs.length : Int) ≠ 0)
      have h2 := Int.emod_lt_of_pos n hpos
      have e : asUsize (n % (xs.length : Int)) = n % (xs.length : Int) := by unfold asUsize; omega
      have hu : inUsize ((pos : Int) + n % (xs.length : Int)) := by unfold inUsize; omega
      simp only [e, addUsize, hu, if_true, bind_ok]
      have h3 := Int.emod_nonneg ((pos : Int) + n % (xs.length : Int)) (by omega : (xs.length : Int) ≠ 0)
      have h4 := Int.emod_lt_of_pos ((pos : Int) + n % (xs.length : Int)) hpos
      rw [elemAt_eq xs _ h3 h4, Int.add_emod_emod]
    · simp [hn]
  | num t => simp [Index.index, PyIndex.index, isNum, toIsize, asInt]
  | _ => simp [Index.index, PyIndex.index, isNum, asInt]

/-- the overflow of the pinned code: `cycle([1,2])[1:][2^63-1]` panicked -/
theorem cycle_old_code_panics :
    (cycleIndexIsizeOld [.int 1, .int 2] 1 9223372036854775807).isPanic = true := by decide

/-- the overflow of the pinned code: `repeat(7)[-2^63:0]` panicked -/
theorem repeat_old_code_panics :
    (repeatSliceOld (.int 7) (some (-9223372036854775808)) (some 0)).isPanic = true := by decide

/-- slices of `repeat(x)`: `k` elements between two positions of the same kind (both from the
start, or both "before infinity"), nothing from a before-infinity position to a finite one, the
stream itself from a finite position to infinity; no overflow for any machine-word bounds -/
theorem repeat_slice_refines (x : Val) (lo hi : Option Val) :
    Index.slice (.rep x) lo hi = PyIndex.slice (.rep x) lo hi := by
  simp only [Index.slice, PyIndex.slice]
  rw [bound_conv, bound_conv]
  cases h1 : bound lo <;> simp
  cases h2 : bound hi <;> simp
  rename_i l h
  have hl := bound_ok h1
  have hh := bound_ok h2
  unfold repeatSlice
  cases l with
  | none =>
    cases h with
    | none => simp
    | some b =>
      simp only [boundOk] at hh; unfold inI64 at hh
      by_cases hb : b < 0
      · have : b - 1 < 0 := by omega
        simp [hb, this]
      · have e : (asUsize (max b 0)).toNat = b.toNat := by unfold asUsize; omega
        simp [hb, e]
  | some a =>
    simp only [boundOk] at hl; unfold inI64 at hl
    cases h with
    | none =>
      by_cases ha : a < 0
      · have h' : a - 1 < 0 := by omega
        have e : asUsize (max (-1 - (a - 1)) 0) = -a := by unfold asUsize; omega
        simp [ha, h', e]
      · simp [ha]
    | some b =>
      simp only [boundOk] at hh; unfold inI64 at hh
      by_cases ha : a < 0 <;> by_cases hb : b < 0
      · have h1' : a - 1 < 0 := by omega
        have h2' : b - 1 < 0 := by omega
        have e : (asUsize (max (b - 1 - (a - 1)) 0)).toNat = (b - a).toNat := by unfold asUsize; omega
        simp [ha, hb, h1', h2', e]
      · have h1' : a - 1 < 0 := by omega
        simp [ha, hb, h1']
      · have h2' : b - 1 < 0 := by omega
        simp [ha, hb, h2']
      · have e : (asUsize (max (b - a) 0)).toNat = (b - a).toNat := by unfold asUsize; omega
        simp [ha, hb, e]

/-- slices of `cycle(xs)` with non-negative bounds walk the cycle from `pos + lo`; a negative bound
would need the end of an infinite stream and raises -/
theorem cycle_slice_refines (xs : List Val) (pos : Nat) (lo hi : Option Val)
    (hs : seqOk (.cyc xs pos)) :
    Index.slice (.cyc xs pos) lo hi = PyIndex.slice (.cyc xs pos) lo hi := by
  obtain ⟨_, h0, _⟩ := hs
  simp only [Index.slice, PyIndex.slice]
  rw [bound_conv, bound_conv]
  cases bound lo <;> simp
  cases bound hi <;> simp
  rename_i l h
  unfold cycleSlice
  simp only [h0, if_false]
  cases h with
  | none =>
    by_cases hl : l.getD 0 < 0
    · have : ¬ l.getD 0 ≥ 0 := by omega
      simp [hl, this]
    · have : l.getD 0 ≥ 0 := by omega
      have hne : ¬ xs = [] := fun h => h0 (by simp [h])
      simp [hl, this, hne]
  | some b =>
    by_cases hc : l.getD 0 < 0 ∨ b < 0
    · have : ¬ (l.getD 0 ≥ 0 ∧ b ≥ 0) := by omega
      simp [hc, this]
    · have : l.getD 0 ≥ 0 ∧ b ≥ 0 := by omega
      have hne : ¬ xs = [] := fun h => h0 (by simp [h])
      simp [hc, this, hne]

end Noulith.C10
