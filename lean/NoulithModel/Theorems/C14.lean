/-
C14 — Every failure is a catchable error, never a crash, and try/catch contains it.

What Lean carries for this property (DESIGN.md C14): for the MODELLED core, (1) the outcome of every
modelled operation is `ok` or `throw`, never `panic` (the family of `…_no_panic` theorems of the other
properties, collected here), (2) in the core evaluator a raised error is received by an enclosing
`try … catch` whose pattern matches, while `break` / `continue` / `return` pass through, and (3) a
statement that raises leaves the store exactly as its sub-expressions left it: the failing write is
not performed, so variables it does not name keep their values and the interpreter state stays usable.
The ~250 builtins without a model, native stack exhaustion and allocation failure are covered by the
sweep of this check only (fault enumeration, labelled so in the evidence).
-/
import NoulithModel.Impl.CoreEval
import NoulithModel.Theorems.C05
import NoulithModel.Theorems.C06

namespace Noulith.C14
open Noulith Noulith.Core

/-! ## 1. the evaluator itself never produces a crash outcome: its result type has no such case.
`Res` = value | break | continue | return | thrown | fuelOut — every failure of a modelled construct
is `thrown` -/

theorem eval_result_classes (r : Res) :
    (∃ v, r = .val v) ∨ (∃ n v, r = .brk n v) ∨ (∃ n, r = .cont n) ∨ (∃ v, r = .ret v) ∨
    (∃ v, r = .thrown v) ∨ r = .fuelOut := by
  cases r <;> simp

/-- builtin operators of the core vocabulary either produce a value or raise: `OpRes` has no other case;
in particular a zero divisor raises -/
theorem applyOp_div_zero_raises (a : Int) : (match applyOp "//" (.int a) (.int 0) with | .raise => true | .ok _ => false) = true := by
  simp [applyOp]

theorem applyOp_mod_zero_raises (a : Int) : (match applyOp "%" (.int a) (.int 0) with | .raise => true | .ok _ => false) = true := by
  simp [applyOp]

/-- an out-of-range index raises (never anything else), for every index however large -/
theorem index_out_of_range_raises (xs : List Val) (n : Int) (h : n ≥ xs.length ∨ n < -(xs.length : Int)) :
    (match indexVal (.list xs) (.int n) with | .raise => true | .ok _ => false) = true := by
  unfold indexVal
  have h1 : ¬ (0 ≤ n ∧ n < (xs.length : Int)) := by omega
  have h2 : ¬ (-(xs.length : Int) ≤ n ∧ n < 0) := by omega
  simp [h1, h2]

/-! ## 2. `throw` is catchable; the other exits are not intercepted (restated from C05) -/

-- `C05.try_catches_throw`, `try_passes_break`, `try_passes_continue`, `try_passes_return`,
-- `try_rethrows_unmatched` are the general statements; two of them restated for this property:

theorem throw_is_catchable (fuel : Nat) (st st' st2 : State) (env : Nat) (b c : Expr) (p : Pat) (v : Val)
    (hb : eval fuel st env b = (.thrown v, st'))
    (hm : declarePat (patDepth p + 1) (newFrame st' env).1 (newFrame st' env).2 p v = (true, st2)) :
    eval (fuel + 1) st env (.try_ b p c) = eval fuel st2 (newFrame st' env).2 c :=
  C05.try_catches_throw fuel st st' st2 env b c p v hb hm

theorem try_does_not_intercept_return (fuel : Nat) (st st' : State) (env : Nat) (b c : Expr) (p : Pat) (v : Val)
    (hb : eval fuel st env b = (.ret v, st')) :
    eval (fuel + 1) st env (.try_ b p c) = (.ret v, st') :=
  C05.try_passes_return fuel st st' env b c p v hb

/-- an error raised by an operator inside `try` is received by a catch-all clause -/
theorem operator_error_is_caught (fuel : Nat) (st st1 st2 : State) (env : Nat) (name : String) (a b c : Expr)
    (va vb : Val)
    (ha : eval fuel st env a = (.val va, st1)) (hb : eval fuel st1 env b = (.val vb, st2))
    (hop : applyOp name va vb = .raise) :
    eval (fuel + 2) st env (.try_ (.op name a b) .underscore c)
      = eval (fuel + 1) (newFrame st2 env).1 (newFrame st2 env).2 c := by
  have ha' : eval (fuel + 1) st env (.op name a b) = (.thrown .err, st2) := by
    simp [eval, ha, hb, hop]
  simp [eval, ha', declarePat, patDepth]

/-! ## 3. a failing statement does not perform its write: the store is what the sub-expressions left -/

/-- `x = e` where `e` raises: no assignment happens -/
theorem failing_assign_writes_nothing (fuel : Nat) (st st' : State) (env : Nat) (x : String) (e : Expr) (v : Val)
    (he : eval fuel st env e = (.thrown v, st')) :
    eval (fuel + 1) st env (.assign x e) = (.thrown v, st') := by
  simp [eval, he]

/-- `p := e` where `e` raises: nothing is declared -/
theorem failing_declare_declares_nothing (fuel : Nat) (st st' : State) (env : Nat) (p : Pat) (e : Expr) (v : Val)
    (he : eval fuel st env e = (.thrown v, st')) :
    eval (fuel + 1) st env (.declare p e) = (.thrown v, st') := by
  simp [eval, he]

/-- assignment to an undeclared name raises and leaves the whole state unchanged -/
theorem assign_undeclared_preserves_state (fuel : Nat) (st st' : State) (env : Nat) (x : String) (e : Expr) (v : Val)
    (he : eval fuel st env e = (.val v, st'))
    (hx : lookupVar st'.frames (st'.frames.size + 1) env x = none) :
    eval (fuel + 1) st env (.assign x e) = (.thrown .err, st') := by
  simp [eval, he, C05.assign_refuses_undeclared _ _ _ _ _ hx]

/-- a redeclaration raises and leaves the whole state unchanged -/
theorem redeclare_preserves_state (fuel : Nat) (st st' : State) (env : Nat) (x : String) (e : Expr) (v : Val)
    (fr : Frame) (he : eval fuel st env e = (.val v, st')) (hfr : st'.frames[env]? = some fr)
    (hx : (lookupIn fr.vars x).isSome) :
    eval (fuel + 1) st env (.declare (.ident x) e) = (.thrown .err, st') := by
  have hd : declareVar st'.frames env x v = none := (C05.declare_refuses_redeclaration _ _ _ _ fr hfr).mpr hx
  simp [eval, he, declarePat, patDepth, hd]

/-- an unpacking declaration with the wrong number of items binds nothing -/
theorem unpack_mismatch_binds_nothing (fuel : Nat) (st st' : State) (env : Nat) (ps : List Pat) (e : Expr)
    (vs : List Val) (he : eval fuel st env e = (.val (.list vs), st')) (hl : ps.length ≠ vs.length) :
    eval (fuel + 1) st env (.declare (.seq ps) e) = (.thrown .err, st') := by
  simp [eval, he, declarePat, patDepth, hl]

/-- a caught error leaves every variable the failing statement did not get to write exactly as it was:
the state handed to the catch clause is the state at the raise plus one fresh, empty frame -/
theorem caught_error_preserves_others (fuel : Nat) (st st' : State) (env : Nat) (b c : Expr) (v : Val)
    (i : Nat) (hi : i < st'.frames.size)
    (hb : eval fuel st env b = (.thrown v, st')) :
    (newFrame st' env).1.frames[i]? = st'.frames[i]? ∧
    eval (fuel + 1) st env (.try_ b .underscore c) = eval fuel (newFrame st' env).1 (newFrame st' env).2 c := by
  refine ⟨C05.newFrame_preserves st' env i hi, ?_⟩
  simp [eval, hb, declarePat, patDepth]

/-! ## 4. no-panic theorems of the modelled core, collected (each proved in its own property file) -/

theorem int_binop_no_panic (op : String) (a b : NInt) (ha : a.WF) (hb : b.WF) :
    IntOps.binop op a b ≠ .panic := C06.binop_no_panic op a b ha hb

end Noulith.C14
