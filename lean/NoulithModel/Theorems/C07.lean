/-
C07 — Rationals are exact and the numeric tower coerces upward only as needed.

Property theorems about the Impl model `NNum` / `Vectorize` (NoulithModel/Impl/NNumArith.lean)
against the Spec `TowerSpec` (NoulithModel/Spec/TowerSpec.lean).  Every statement is for ALL
operands: integers of any size, arbitrary rationals, and floats / complex numbers over an ARBITRARY
float structure `O : FloatOps F C` (so in particular for IEEE-754 binary64 with Rust's operations,
and for the free term algebra the driver uses).
-/
import NoulithModel.Spec.TowerSpec

namespace Noulith.C07
open Noulith NNum TowerSpec

/-! ## 1. rounding a quotient of integers: the bridge between `Int` division and `Rat` rounding -/

theorem floor_div_pos (N D : Int) (hD : 0 < D) : ((N : Rat) / (D : Rat)).floor = N / D := by
  have hDr : (0 : Rat) < (D : Rat) := Rat.intCast_pos.mpr hD
  apply Int.le_antisymm
  · -- floor ≤ N / D
    rw [Int.le_ediv_iff_mul_le hD]
    have h := Rat.floor_le ((N : Rat) / (D : Rat))
    have h2 := Rat.mul_le_mul_of_nonneg_right h (Rat.le_of_lt hDr)
    rw [Rat.div_mul_cancel (Rat.ne_of_gt hDr), ← Rat.intCast_mul] at h2
    exact Rat.intCast_le_intCast.mp h2
  · rw [Rat.le_floor_iff]
    have h : (N / D) * D ≤ N := Int.ediv_mul_le N (Int.ne_of_gt hD)
    have h2 : (((N / D) * D : Int) : Rat) ≤ (N : Rat) := Rat.intCast_le_intCast.mpr h
    rw [Rat.intCast_mul] at h2
    apply Rat.not_lt.mp
    intro hlt
    have := (Rat.div_lt_iff hDr).mp hlt
    exact absurd h2 (Rat.not_le.mpr this)

theorem cast_div_neg_neg (N D : Int) : ((-N : Int) : Rat) / ((-D : Int) : Rat) = (N : Rat) / (D : Rat) := by
  rw [← Rat.divInt_eq_div, ← Rat.divInt_eq_div, Rat.neg_divInt_neg]

/-- K1 -/
theorem floor_div_int (N D : Int) : ((N : Rat) / (D : Rat)).floor = Int.fdiv N D := by
  rcases Int.lt_trichotomy D 0 with h | h | h
  · rw [← cast_div_neg_neg, floor_div_pos _ _ (by omega : 0 < -D), ← Int.neg_fdiv_neg,
      Int.fdiv_eq_ediv_of_nonneg _ (by omega : 0 ≤ -D)]
  · subst h; simp [Rat.div_def, Rat.inv_zero, Rat.mul_zero]; exact Rat.floor_intCast 0
  · rw [floor_div_pos _ _ h, Int.fdiv_eq_ediv_of_nonneg _ (Int.le_of_lt h)]

theorem trunc_div_pos (N D : Int) (hD : 0 < D) : trunc ((N : Rat) / (D : Rat)) = Int.tdiv N D := by
  have hq : (0 : Rat) ≤ (N : Rat) / (D : Rat) ↔ 0 ≤ N := by
    rw [← Rat.divInt_eq_div]; exact Rat.divInt_nonneg_iff_of_pos_right hD
  unfold trunc
  by_cases hN : 0 ≤ N
  · rw [if_pos (hq.mpr hN), floor_div_pos _ _ hD, Int.tdiv_eq_ediv_of_nonneg hN]
  · rw [if_neg (fun h => hN (hq.mp h)), Rat.ceil_eq_neg_floor_neg]
    have e : -((N : Rat) / (D : Rat)) = ((-N : Int) : Rat) / (D : Rat) := by
      rw [Rat.intCast_neg, Rat.div_def, Rat.div_def, Rat.neg_mul]
    rw [e, floor_div_pos _ _ hD, ← Int.tdiv_eq_ediv_of_nonneg (by omega : 0 ≤ -N), Int.neg_tdiv]
    omega

/-- K2 -/
theorem trunc_div_int (N D : Int) : trunc ((N : Rat) / (D : Rat)) = Int.tdiv N D := by
  rcases Int.lt_trichotomy D 0 with h | h | h
  · rw [← cast_div_neg_neg, trunc_div_pos _ _ (by omega : 0 < -D), Int.neg_tdiv_neg]
  · subst h; simp [Rat.div_def, Rat.inv_zero, Rat.mul_zero, trunc]; exact Rat.floor_intCast 0
  · exact trunc_div_pos _ _ h

theorem rat_eq_num_div_den (q : Rat) : q = (q.num : Rat) / ((q.den : Int) : Rat) := by
  have := Rat.mkRat_eq_div q.num q.den
  rw [Rat.mkRat_self] at this
  exact this

theorem ratTrunc_eq (q : Rat) : ratTrunc q = trunc q := by
  conv => rhs; rw [rat_eq_num_div_den q]
  rw [trunc_div_int]; rfl

theorem div_eq_cross (a b : Rat) :
    a / b = ((a.num * b.den : Int) : Rat) / ((b.num * a.den : Int) : Rat) := by
  have ha := rat_eq_num_div_den a
  have hb := rat_eq_num_div_den b
  have had : ((a.den : Int) : Rat) ≠ 0 := by
    intro h; exact a.den_nz (by exact_mod_cast (Rat.intCast_eq_zero_iff.mp h))
  have hbd : ((b.den : Int) : Rat) ≠ 0 := by
    intro h; exact b.den_nz (by exact_mod_cast (Rat.intCast_eq_zero_iff.mp h))
  rw [Rat.intCast_mul, Rat.intCast_mul]
  generalize (a.num : Rat) = an at *
  generalize ((a.den : Int) : Rat) = ad at *
  generalize (b.num : Rat) = bn at *
  generalize ((b.den : Int) : Rat) = bd at *
  subst ha hb
  by_cases hbn : bn = 0
  · subst hbn; simp [Rat.div_def, Rat.zero_mul, Rat.mul_zero, Rat.inv_zero]
  · grind

theorem den_cast_ne_zero (a : Rat) : ((a.den : Int) : Rat) ≠ 0 := by
  intro h; exact a.den_nz (by exact_mod_cast (Rat.intCast_eq_zero_iff.mp h))

theorem ratRem_eq (a b : Rat) : ratRem a b = ratOp .rem a b := by
  unfold ratRem
  simp only [ratOp]
  rw [Rat.mkRat_eq_div, div_eq_cross a b, trunc_div_int, Int.tmod_def]
  have ha := rat_eq_num_div_den a
  have hb := rat_eq_num_div_den b
  have had := den_cast_ne_zero a
  have hbd := den_cast_ne_zero b
  have e : (((a.den * b.den : Nat) : Int) : Rat) = ((a.den : Int) : Rat) * ((b.den : Int) : Rat) := by
    rw [← Rat.intCast_mul]; congr 1
  rw [show ((a.den * b.den : Nat) : Rat) = (((a.den * b.den : Nat) : Int) : Rat) from rfl, e]
  generalize (Int.tdiv (a.num * b.den) (b.num * a.den)) = t
  rw [Rat.intCast_sub, Rat.intCast_mul, Rat.intCast_mul, Rat.intCast_mul]
  generalize (a.num : Rat) = an at *
  generalize ((a.den : Int) : Rat) = ad at *
  generalize (b.num : Rat) = bn at *
  generalize ((b.den : Int) : Rat) = bd at *
  subst ha hb
  grind

/-! ### `Ratio::round` is rounding half away from zero -/

theorem half_ediv (m d : Int) (hd : 0 < d) :
    (2 * m + d) / (2 * d) = if d ≤ 2 * (m % d) then m / d + 1 else m / d := by
  have h1 := Int.mul_ediv_add_emod m d
  have h2 := Int.emod_nonneg m (Int.ne_of_gt hd)
  have h3 := Int.emod_lt_of_pos m hd
  generalize m / d = u at *
  generalize m % d = r at *
  subst h1
  split
  · rw [Int.ediv_eq_iff_of_pos (by omega)]; constructor <;> grind
  · rw [Int.ediv_eq_iff_of_pos (by omega)]; constructor <;> grind

theorem half_cast (q : Rat) (s : Int) (n : Int) (hn : (n : Rat) / ((q.den : Int) : Rat) = q * s) :
    q * s + 1 / 2 = ((2 * n + q.den : Int) : Rat) / ((2 * q.den : Int) : Rat) := by
  have hdr := den_cast_ne_zero q
  rw [Rat.intCast_add, Rat.intCast_mul, Rat.intCast_mul, ← hn]
  generalize (n : Rat) = n' at *
  generalize ((q.den : Int) : Rat) = d at *
  have : ((2 : Int) : Rat) = 2 := rfl
  grind

theorem ratRound_eq (q : Rat) : ratRound q = roundHalfAway q := by
  have hd : (0 : Int) < (q.den : Int) := by exact_mod_cast q.den_pos
  have hq := rat_eq_num_div_den q
  unfold ratRound roundHalfAway
  by_cases hn : 0 ≤ q.num
  · have hq0 : 0 ≤ q := Rat.num_nonneg.mp hn
    have e := half_cast q 1 q.num (by rw [← hq]; simp [Rat.mul_one])
    simp only [Rat.intCast_one, Rat.mul_one] at e
    rw [if_pos hq0, e, floor_div_pos _ _ (by omega), half_ediv _ _ hd]
    simp only [Int.tdiv_eq_ediv_of_nonneg hn, Int.tmod_eq_emod_of_nonneg hn, if_pos hn]
    have h2 := Int.emod_nonneg q.num (Int.ne_of_gt hd)
    have h3 : ((q.num % (q.den : Int)).natAbs : Int) = q.num % (q.den : Int) := Int.natAbs_of_nonneg h2
    have h4 : ((q.den : Nat) ≤ 2 * (q.num % (q.den : Int)).natAbs) ↔ ((q.den : Int) ≤ 2 * (q.num % (q.den : Int))) := by omega
    simp only [h4]
  · have hq0 : ¬ 0 ≤ q := fun h => hn (Rat.num_nonneg.mpr h)
    have hm : 0 ≤ -q.num := by omega
    rw [if_neg hq0, Rat.ceil_eq_neg_floor_neg]
    have e := half_cast q (-1) (-q.num) (by
      rw [Rat.intCast_neg, Rat.div_def, Rat.neg_mul, ← Rat.div_def, ← hq]; simp [Rat.mul_neg, Rat.mul_one])
    have e' : -(q - 1 / 2) = q * ((-1 : Int) : Rat) + 1 / 2 := by
      have : ((-1 : Int) : Rat) = -1 := rfl
      grind
    rw [e', e, floor_div_pos _ _ (by omega), half_ediv _ _ hd]
    have t1 : Int.tdiv q.num q.den = -((-q.num) / (q.den : Int)) := by
      rw [← Int.tdiv_eq_ediv_of_nonneg hm, Int.neg_tdiv]; omega
    have t2 : Int.tmod q.num q.den = -((-q.num) % (q.den : Int)) := by
      rw [← Int.tmod_eq_emod_of_nonneg hm, Int.neg_tmod]; omega
    simp only [t1, t2, if_neg hn]
    have h2 := Int.emod_nonneg (-q.num) (Int.ne_of_gt hd)
    have h4 : ((q.den : Nat) ≤ 2 * (-((-q.num) % (q.den : Int))).natAbs) ↔ ((q.den : Int) ≤ 2 * ((-q.num) % (q.den : Int))) := by omega
    simp only [h4]
    split <;> omega

variable {F C : Type}

/-! ## 2. the exact levels: the code's integer and rational operations are the operations of ℚ -/

/-- the integer operation `binary_match!` is instantiated with, per operator -/
def implInt : AOp → Int → Int → Int
  | .add => (· + ·)
  | .sub => (· - ·)
  | .mul => (· * ·)
  | .rem => Int.tmod
  | .divFloor => Int.fdiv
  | .modFloor => Int.fmod

/-- the rational operation `binary_match!` is instantiated with, per operator -/
def implRat : AOp → Rat → Rat → Rat
  | .add => (· + ·)
  | .sub => (· - ·)
  | .mul => (· * ·)
  | .rem => ratRem
  | .divFloor => ratDivFloor
  | .modFloor => ratModFloor

/-- the six level-rule operators as the code defines them -/
def implOp (O : FloatOps F C) (op : AOp) : NNum F C → NNum F C → Out (NNum F C) :=
  binaryMatch O (implInt op) (implRat op) (fOp O op) (cOp O op)

theorem implOp_add (O : FloatOps F C) : NNum.add O = implOp O .add := rfl
theorem implOp_sub (O : FloatOps F C) : NNum.sub O = implOp O .sub := rfl
theorem implOp_mul (O : FloatOps F C) : NNum.mul O = implOp O .mul := rfl
theorem implOp_rem (O : FloatOps F C) : NNum.rem O = implOp O .rem := rfl
theorem implOp_divFloor (O : FloatOps F C) : NNum.divFloor O = implOp O .divFloor := rfl
theorem implOp_modFloor (O : FloatOps F C) : NNum.modFloor O = implOp O .modFloor := rfl

/-- **rat_ops_exact (rational arm)**: `+ - * % // %%` on rationals are the operations of ℚ
(`%` the truncated remainder, `//` the floor of the quotient, `%%` the floored remainder) -/
theorem implRat_eq (op : AOp) (a b : Rat) : implRat op a b = ratOp op a b := by
  cases op <;> first | rfl | exact ratRem_eq a b

/-- **rat_ops_exact (integer arm)**: the integer operations agree with the operations of ℚ on the
embedded integers: `Int.tmod`/`fdiv`/`fmod` are the truncated remainder / floor quotient /
floored remainder of the rational quotient -/
theorem implInt_eq (op : AOp) (a b : Int) : ((implInt op a b : Int) : Rat) = ratOp op (a : Rat) (b : Rat) := by
  cases op <;> simp only [implInt, ratOp]
  · exact Rat.intCast_add a b
  · exact Rat.intCast_sub a b
  · exact Rat.intCast_mul a b
  · rw [trunc_div_int, Int.tmod_def, Rat.intCast_sub, Rat.intCast_mul]
  · rw [floor_div_int]
  · rw [floor_div_int, Int.fmod_def, Rat.intCast_sub, Rat.intCast_mul]

/-- an operation on two integers, carried out in ℚ, is an integer: reading it back loses nothing -/
theorem int_closed (op : AOp) (a b : Int) :
    (ratOp op (a : Rat) (b : Rat)).floor = implInt op a b := by
  rw [← implInt_eq, Rat.floor_intCast]

/-! ## 3. the level rule: `binary_match!` = "both exact → ℚ; else both real → float; else complex" -/

/-- **level_rule (refinement)**: for each of `+ - * % // %%` the code's dispatch computes exactly
what the Spec's level rule says, for all sixteen combinations of levels, and never panics -/
theorem implOp_eq_arith (O : FloatOps F C) (op : AOp) (a b : NNum F C) :
    implOp O op a b = .ok (arith O op a b) := by
  cases a <;> cases b <;>
    simp [implOp, binaryMatch, arith, exact, toF, toC, toComplexOrInf, toF64OrInfOrComplex,
      expectReal, Out.map, ofExact, level, implRat_eq, int_closed]


theorem level_arith (O : FloatOps F C) (op : AOp) (a b : NNum F C) :
    (arith O op a b).level = max a.level b.level := by
  cases a <;> cases b <;> simp [arith, exact, toF, ofExact, level]

/-! ## 4. the operators as registered (`/`, the zero-divisor guards, `^`): Impl = Spec -/

theorem toRational_eq_exact (a : NNum F C) : toRational a = exact a := by cases a <;> rfl

theorem isNonzero_eq (O : FloatOps F C) (b : NNum F C) : isNonzero O b = !isZero O b := by
  cases b <;> simp [isNonzero, isZero, bne]

theorem div_eq_divide (O : FloatOps F C) (a b : NNum F C) : NNum.div O a b = divide O a b := by
  cases a <;> cases b <;>
    simp [NNum.div, divide, toRational, exact, divFallback, inexactDiv, toF64OrInfOrComplex, toF, toC]

/-! ### the executable shortcuts for the bases 0, 1, −1 are the power function -/

theorem int_neg_one_pow (n : Nat) : (-1 : Int) ^ n = if n % 2 = 0 then 1 else -1 := by
  induction n with
  | zero => rfl
  | succ n ih => rw [Int.pow_succ, ih]; split <;> split <;> omega

theorem intPow_eq (a : Int) (n : Nat) : intPow a n = a ^ n := by
  unfold intPow
  split
  · rename_i h; subst h
    split
    · rename_i h; subst h; rfl
    · rename_i h; exact (Int.zero_pow h).symm
  · split
    · rename_i h; subst h; exact Int.one_pow.symm
    · split
      · rename_i h; subst h; exact (int_neg_one_pow n).symm
      · rfl

theorem rat_one_pow (n : Nat) : (1 : Rat) ^ n = 1 := by
  induction n with
  | zero => exact Rat.pow_zero 1
  | succ n ih => rw [Rat.pow_succ, ih, Rat.mul_one]

theorem rat_zero_pow (n : Nat) (h : n ≠ 0) : (0 : Rat) ^ n = 0 := by
  cases n with
  | zero => exact absurd rfl h
  | succ n => rw [Rat.pow_succ, Rat.mul_zero]

theorem rat_neg_one_pow (n : Nat) : (-1 : Rat) ^ n = if n % 2 = 0 then 1 else -1 := by
  induction n with
  | zero => exact Rat.pow_zero (-1)
  | succ n ih =>
    rw [Rat.pow_succ, ih]
    by_cases h : n % 2 = 0
    · have h' : ¬ (n + 1) % 2 = 0 := by omega
      rw [if_pos h, if_neg h', Rat.one_mul]
    · have h' : (n + 1) % 2 = 0 := by omega
      rw [if_neg h, if_pos h']; decide +kernel

theorem ratPow_eq (q : Rat) (n : Nat) : ratPow q n = q ^ n := by
  unfold ratPow
  split
  · rename_i h; subst h
    split
    · rename_i h; subst h; exact (Rat.pow_zero 0).symm
    · rename_i h; exact (rat_zero_pow n h).symm
  · split
    · rename_i h; subst h; exact (rat_one_pow n).symm
    · split
      · rename_i h; subst h; exact (rat_neg_one_pow n).symm
      · rfl

theorem zpow_of_pos (x : Rat) (b : Int) (hb : 0 < b) : x ^ b = x ^ b.toNat := by
  have : b = (b.toNat : Int) := by omega
  conv => lhs; rw [this]
  exact Rat.zpow_natCast x b.toNat

theorem zpow_of_neg (x : Rat) (b : Int) (hb : b < 0) : x ^ b = (x ^ (-b).toNat)⁻¹ := by
  have : b = -((-b).toNat : Int) := by omega
  conv => lhs; rw [this]
  rw [Rat.zpow_neg, Rat.zpow_natCast]

/-- the Spec's executable `qpow` is the power function of ℚ -/
theorem qpow_eq (x : Rat) (e : Int) : qpow x e = x ^ e := by
  unfold qpow
  rcases Int.lt_trichotomy e 0 with he | he | he
  · rw [zpow_of_neg x e he]
    have hn : (-e).toNat ≠ 0 := by omega
    split
    · rename_i h; subst h
      rw [rat_zero_pow _ hn, Rat.inv_zero, if_neg (by omega)]
    · split
      · rename_i h; subst h; rw [rat_one_pow]; decide +kernel
      · split
        · rename_i h; subst h
          rw [rat_neg_one_pow]
          by_cases hp : e % 2 = 0
          · have : (-e).toNat % 2 = 0 := by omega
            rw [if_pos hp, if_pos this]; decide +kernel
          · have : ¬ (-e).toNat % 2 = 0 := by omega
            rw [if_neg hp, if_neg this]; decide +kernel
        · rfl
  · subst he
    rw [Rat.zpow_zero]
    split
    · rfl
    · split
      · rfl
      · split <;> rfl
  · rw [zpow_of_pos x e he]
    have hn : e.toNat ≠ 0 := by omega
    split
    · rename_i h; subst h
      rw [rat_zero_pow _ hn, if_neg (by omega)]
    · split
      · rename_i h; subst h; rw [rat_one_pow]
      · split
        · rename_i h; subst h
          rw [rat_neg_one_pow]
          by_cases hp : e % 2 = 0
          · have : e.toNat % 2 = 0 := by omega
            rw [if_pos hp, if_pos this]
          · have : ¬ e.toNat % 2 = 0 := by omega
            rw [if_neg hp, if_neg this]
        · rfl

theorem ratPowInt_eq (x : Rat) (b : Int) : ratPowInt x b = x ^ b := by
  unfold ratPowInt
  simp only [ratPow_eq]
  by_cases h0 : b = 0
  · subst h0; simp [Rat.zpow_zero]
  · by_cases hn : b < 0
    · simp [h0, hn, zpow_of_neg x b hn]
    · simp [h0, hn, zpow_of_pos x b (by omega)]

theorem powBigInts_eq (O : FloatOps F C) (a b : Int) :
    powBigInts O a b = power O (.int a) (.int b) := by
  unfold powBigInts power
  simp only [exact, level, intPow_eq, qpow_eq]
  by_cases h0 : b = 0
  · subst h0
    have : ((1 : Rat)).floor = 1 := Rat.floor_intCast 1
    simp [Rat.zpow_zero, this]
  · by_cases hp : 0 < b
    · have hn : ¬ b < 0 := by omega
      have hnn : 0 ≤ b := by omega
      have e : ((a : Rat) ^ b).floor = a ^ b.toNat := by
        rw [zpow_of_pos _ _ hp, ← Rat.intCast_pow, Rat.floor_intCast]
      simp [h0, hp, hn, hnn, e]
    · have hn : b < 0 := by omega
      have hnn : ¬ 0 ≤ b := by omega
      have hpos : (-b).toNat ≠ 0 := by omega
      by_cases ha : a = 0
      · subst ha
        simp [h0, hp, hn, Int.zero_pow hpos]
      · have hr : a ^ (-b).toNat ≠ 0 := Int.pow_ne_zero ha
        have hx : ¬ ((a : Rat) = 0) := fun h => ha (Rat.intCast_eq_zero_iff.mp h)
        simp [h0, hp, hn, hnn, hr, hx, zpow_of_neg _ _ hn, Rat.intCast_pow]

/-- **pow_int_exact (refinement)**: `pow_num` is the Spec's `^`: exact `x ^ e` in ℚ for an exact
base and an integer exponent (incl. negative ones), float +∞ for `0 ^ negative` -/
theorem powNum_eq_power (O : FloatOps F C) (a b : NNum F C) : powNum O a b = power O a b := by
  cases a <;> cases b <;> try (simp [powNum, power, exact]; done)
  · rw [← powBigInts_eq]; rfl
  · rename_i r e
    simp only [powNum, power, exact, level]
    by_cases h : r = 0 ∧ e < 0
    · simp [h]
    · simp [h, ratPowInt_eq, qpow_eq]

/-- **C07 main refinement (binary operators)**: for every operator name and every pair of numbers
of any levels the code's result (value or error) is the Spec's; in particular no panic -/
theorem binop_refines (O : FloatOps F C) (op : String) (a b : NNum F C) :
    NNum.binop O op a b = TowerSpec.binop O op a b := by
  unfold NNum.binop TowerSpec.binop
  split
  · simp [implOp_add, implOp_eq_arith]
  · simp [implOp_sub, implOp_eq_arith]
  · simp [implOp_mul, implOp_eq_arith]
  · simp [div_eq_divide]
  · rw [implOp_rem, implOp_eq_arith, isNonzero_eq, toRational_eq_exact, toRational_eq_exact]
    cases h1 : exact a <;> cases h2 : exact b <;> cases h3 : isZero O b <;> simp
  · rw [implOp_divFloor, implOp_eq_arith, isNonzero_eq]
    cases h3 : isZero O b <;> simp
  · rw [implOp_modFloor, implOp_eq_arith, isNonzero_eq]
    cases h3 : isZero O b <;> simp
  · simp [powNum_eq_power]
  · split <;> simp_all

theorem binop_no_panic (O : FloatOps F C) (op : String) (a b : NNum F C) :
    NNum.binop O op a b ≠ .panic := by
  rw [binop_refines]
  unfold TowerSpec.binop
  split <;> (try split) <;> simp


/-! ## 5. unary operators: rounding family, conversions, numerator / denominator -/

theorem trunc_intCast (i : Int) : trunc (i : Rat) = i := by
  rw [← ratTrunc_eq]; simp [ratTrunc, Rat.num_intCast, Rat.den_intCast]

theorem roundHalfAway_intCast (i : Int) : roundHalfAway (i : Rat) = i := by
  rw [← ratRound_eq]; simp [ratRound, Rat.num_intCast, Rat.den_intCast]

theorem coerce_eq_roundWith (O : FloatOps F C) (r r' : Rat → Int) (h : ∀ q, r q = r' q)
    (hint : ∀ i : Int, r' (i : Rat) = i) (a : NNum F C) : coerce O r a = roundWith O r' a := by
  cases a with
  | int i => simp [coerce, roundWith, realView, hint]
  | rat q => simp [coerce, roundWith, realView, h]
  | float f =>
    simp only [coerce, roundWith, realView, floatCoerce]
    cases O.view f <;> simp [h]
  | complex z => rfl

/-- **rounding_exact / conversions (refinement)**: unary `-`, `floor`, `ceil`, `round`, `int`,
`rational`, `float`, `numerator`, `denominator` compute what the Spec says: the rounding of the
exact value (`round` = half away from zero, `int` = toward zero), the exact fraction of a finite
float, the numerator / denominator of the lowest-terms fraction; complex operands and non-finite
floats are rejected where the Spec rejects them -/
theorem unop_refines (O : FloatOps F C) (op : String) (a : NNum F C) :
    NNum.unop O op a = TowerSpec.unop O op a := by
  unfold NNum.unop TowerSpec.unop
  split
  · cases a <;> simp [neg]
  · simp [coerce_eq_roundWith O Rat.floor Rat.floor (fun _ => rfl) Rat.floor_intCast]
  · simp [coerce_eq_roundWith O Rat.ceil Rat.ceil (fun _ => rfl) Rat.ceil_intCast]
  · simp [coerce_eq_roundWith O ratRound roundHalfAway ratRound_eq roundHalfAway_intCast]
  · rw [coerce_eq_roundWith O ratTrunc trunc ratTrunc_eq trunc_intCast]
    cases a <;> simp [roundWith, realView]
    rename_i f; cases O.view f <;> simp
  · cases a <;> simp [toRationalExact, realView]
    rename_i f; cases O.view f <;> simp
  · cases a <;> simp [toFloat, toF]
  · cases a <;> simp [exact, Rat.num_intCast]
  · cases a <;> simp [exact, Rat.den_intCast]
  · split <;> simp_all

theorem unop_no_panic (O : FloatOps F C) (op : String) (a : NNum F C) :
    NNum.unop O op a ≠ .panic := by
  rw [unop_refines]
  unfold TowerSpec.unop roundWith
  split <;> (repeat' split) <;> simp

/-! ## 6. vectors: element-wise, equal lengths, scalars broadcast -/

theorem mapOut_eq_sequence {α β : Type} (f : α → Out β) (xs : List α) :
    Vectorize.mapOut f xs = sequence (xs.map f) := by
  induction xs with
  | nil => rfl
  | cons x xs ih =>
    simp only [Vectorize.mapOut, List.map, sequence, ih]
    cases f x <;> rfl

theorem zipOut_eq_sequence {α β γ : Type} (f : α → β → Out γ) (xs : List α) (ys : List β) :
    Vectorize.zipOut f xs ys = sequence (List.zipWith f xs ys) := by
  induction xs generalizing ys with
  | nil => cases ys <;> rfl
  | cons x xs ih =>
    cases ys with
    | nil => rfl
    | cons y ys =>
      simp only [Vectorize.zipOut, List.zipWith, sequence, ih]
      cases f x y <;> rfl

theorem zipWith_replicate_left {α β γ : Type} (f : α → β → γ) (a : α) (ys : List β) :
    List.zipWith f (List.replicate ys.length a) ys = ys.map (f a) := by
  induction ys with
  | nil => rfl
  | cons y ys ih => simp [List.replicate, ih]

theorem zipWith_replicate_right {α β γ : Type} (f : α → β → γ) (xs : List α) (b : β) :
    List.zipWith f xs (List.replicate xs.length b) = xs.map (fun x => f x b) := by
  induction xs with
  | nil => rfl
  | cons x xs ih => simp [List.replicate, ih]

/-- **vectorize_shape (refinement)**: the wrappers compute the Spec's element-wise operation: a
scalar operand behaves as a vector of copies of itself, vectors of different lengths are rejected,
the first failing element fails the whole operation -/
theorem vec2_refines (body body' : NNum F C → NNum F C → Out (NNum F C))
    (h : ∀ a b, body a b = body' a b) (A B : VObj F C) :
    Vectorize.vec2 body A B = TowerSpec.vec2 body' A B := by
  have hb : body = body' := funext fun a => funext fun b => h a b
  subst hb
  cases A <;> cases B <;>
    simp [Vectorize.vec2, TowerSpec.vec2, mapOut_eq_sequence, zipOut_eq_sequence,
      zipWith_replicate_left, zipWith_replicate_right]

theorem vec1_refines (body body' : NNum F C → Out (NNum F C)) (h : ∀ a, body a = body' a)
    (A : VObj F C) : Vectorize.vec1 body A = TowerSpec.vec1 body' A := by
  have hb : body = body' := funext h
  subst hb
  cases A <;> simp [Vectorize.vec1, TowerSpec.vec1, mapOut_eq_sequence]

/-- **C07 main refinement, objects**: every binary arithmetic builtin on numbers / vectors /
anything else -/
theorem vbinop_refines (O : FloatOps F C) (op : String) (A B : VObj F C) :
    Vectorize.binop O op A B = TowerSpec.vbinop O op A B :=
  vec2_refines _ _ (binop_refines O op) A B

theorem vunop_refines (O : FloatOps F C) (op : String) (A : VObj F C) :
    Vectorize.unop O op A = TowerSpec.vunop O op A := by
  unfold Vectorize.unop TowerSpec.vunop
  split
  · cases A <;> simp [unop_refines]
  · exact vec1_refines _ _ (unop_refines O op) A


/-! ## 7. the laws the property names, on the Spec (and through the refinements on the code) -/

/-! ### `/` -/

/-- **div_exact**: `/` on int / rational operands with a non-zero divisor is the exact fraction -/
theorem div_exact (O : FloatOps F C) (a b : NNum F C) (x y : Rat)
    (ha : exact a = some x) (hb : exact b = some y) (hy : y ≠ 0) :
    NNum.binop O "/" a b = .ok (.rat (x / y)) := by
  rw [binop_refines]; simp [TowerSpec.binop, divide, ha, hb, hy]

/-- … which multiplied back gives the dividend, and is in lowest terms with a positive denominator
(an invariant of `Rat`, so of every rational the model produces) -/
theorem div_exact_value (x y : Rat) (hy : y ≠ 0) : x / y * y = x := Rat.div_mul_cancel hy

theorem rat_lowest_terms (q : Rat) : Nat.gcd q.num.natAbs q.den = 1 ∧ 0 < q.den :=
  ⟨q.reduced, q.den_pos⟩

/-- the numerator and denominator `a / b` has for integers `a`, `b ≠ 0` -/
theorem div_int_int (a b : Int) :
    ((a : Rat) / (b : Rat)).num = b.sign * a / (b.gcd a : Int) ∧
    ((a : Rat) / (b : Rat)).den = if b = 0 then 1 else b.natAbs / b.gcd a := by
  rw [← Rat.divInt_eq_div]; exact ⟨Rat.num_divInt a b, Rat.den_divInt a b⟩

/-- **div_exact (zero divisor)**: an exact zero divisor falls back to float division of the
converted operands (±∞ or NaN in IEEE arithmetic) -/
theorem div_zero_fallback (O : FloatOps F C) (a b : NNum F C) (x : Rat) (fa fb : F)
    (ha : exact a = some x) (hb : exact b = some 0) (hfa : toF O a = some fa) (hfb : toF O b = some fb) :
    NNum.binop O "/" a b = .ok (.float (O.div fa fb)) := by
  rw [binop_refines]; simp [TowerSpec.binop, divide, ha, hb, inexactDiv, hfa, hfb]

/-! ### `+ - * % // %%` on exact operands -/

theorem exact_arith (O : FloatOps F C) (op : AOp) (a b : NNum F C) (x y : Rat)
    (ha : exact a = some x) (hb : exact b = some y) :
    exact (arith O op a b) = some (ratOp op x y) := by
  cases a <;> cases b <;> simp [exact] at ha hb <;> subst ha hb <;>
    simp [arith, exact, ofExact, level, int_closed, implInt_eq]

/-- **rat_ops_exact**: on int / rational operands `+ - * % // %%` return the exact value of the
operation in ℚ (given a non-zero divisor for the last three) -/
theorem rat_ops_exact (O : FloatOps F C) (a b : NNum F C) (x y : Rat)
    (ha : exact a = some x) (hb : exact b = some y) :
    (∃ r, NNum.binop O "+" a b = .ok r ∧ exact r = some (x + y)) ∧
    (∃ r, NNum.binop O "-" a b = .ok r ∧ exact r = some (x - y)) ∧
    (∃ r, NNum.binop O "*" a b = .ok r ∧ exact r = some (x * y)) ∧
    (y ≠ 0 → ∃ r, NNum.binop O "%" a b = .ok r ∧ exact r = some (x - y * (trunc (x / y) : Int))) ∧
    (y ≠ 0 → ∃ r, NNum.binop O "//" a b = .ok r ∧ exact r = some (((x / y).floor : Int) : Rat)) ∧
    (y ≠ 0 → ∃ r, NNum.binop O "%%" a b = .ok r ∧ exact r = some (x - y * ((x / y).floor : Int))) := by
  have hz : y ≠ 0 → isZero O b = false := by
    intro hy; cases b <;> simp [exact] at hb <;> subst hb <;> simp [isZero]
    · intro h; apply hy; rw [h]; rfl
    · exact hy
  simp only [binop_refines, TowerSpec.binop]
  refine ⟨⟨_, rfl, exact_arith O .add a b x y ha hb⟩, ⟨_, rfl, exact_arith O .sub a b x y ha hb⟩,
    ⟨_, rfl, exact_arith O .mul a b x y ha hb⟩, ?_, ?_, ?_⟩
  · intro hy; simp [hz hy]; exact exact_arith O .rem a b x y ha hb
  · intro hy; simp [hz hy]; exact exact_arith O .divFloor a b x y ha hb
  · intro hy; simp [hz hy]; exact exact_arith O .modFloor a b x y ha hb

/-- an exact zero divisor is an error for `%`, `//`, `%%` (not a panic, not a float) -/
theorem exact_zero_divisor_throws (O : FloatOps F C) (a b : NNum F C) (x : Rat)
    (ha : exact a = some x) (hb : exact b = some 0) :
    NNum.binop O "%" a b = .throw ∧ NNum.binop O "//" a b = .throw ∧ NNum.binop O "%%" a b = .throw := by
  have hz : isZero O b = true := by
    cases b <;> simp [exact] at hb <;> simp [isZero] <;>
      first | exact hb | exact Rat.intCast_eq_zero_iff.mp hb
  simp [binop_refines, TowerSpec.binop, ha, hb, hz]

/-- **floor_div_identity_rat** in ℚ: `(a // b) * b + (a %% b) = a` -/
theorem floor_div_identity_rat (x y : Rat) :
    ratOp .divFloor x y * y + ratOp .modFloor x y = x := by
  simp only [ratOp]; grind

/-- `//` floors: it is the integer `n` with `n ≤ a / b < n + 1` -/
theorem divFloor_floors (x y : Rat) :
    ∃ n : Int, ratOp .divFloor x y = (n : Rat) ∧ (n : Rat) ≤ x / y ∧ x / y < ((n + 1 : Int) : Rat) :=
  ⟨(x / y).floor, rfl, Rat.floor_le _, Rat.lt_floor_add_one _⟩

/-- `%%` takes the divisor's sign: `0 ≤ a %% b < b` for `b > 0` -/
theorem modFloor_range_pos (x y : Rat) (hy : 0 < y) :
    0 ≤ ratOp .modFloor x y ∧ ratOp .modFloor x y < y := by
  simp only [ratOp]
  have h1 := Rat.floor_le (x / y)
  have h2 := Rat.lt_floor_add_one (x / y)
  rw [Rat.intCast_add] at h2
  have e : x / y * y = x := Rat.div_mul_cancel (Rat.ne_of_gt hy)
  have h1' := Rat.mul_le_mul_of_nonneg_right h1 (Rat.le_of_lt hy)
  have h2' := Rat.mul_lt_mul_of_pos_right h2 hy
  rw [e] at h1' h2'
  have : ((1 : Int) : Rat) = 1 := rfl
  constructor <;> grind

/-- … and `b < a %% b ≤ 0` for `b < 0` -/
theorem modFloor_range_neg (x y : Rat) (hy : y < 0) :
    y < ratOp .modFloor x y ∧ ratOp .modFloor x y ≤ 0 := by
  simp only [ratOp]
  have hy' : 0 < -y := by grind
  have h1 := Rat.floor_le (x / y)
  have h2 := Rat.lt_floor_add_one (x / y)
  rw [Rat.intCast_add] at h2
  have e : x / y * y = x := Rat.div_mul_cancel (Rat.ne_of_lt hy)
  have h1' := Rat.mul_le_mul_of_nonneg_right h1 (Rat.le_of_lt hy')
  have h2' := Rat.mul_lt_mul_of_pos_right h2 hy'
  have : ((1 : Int) : Rat) = 1 := rfl
  constructor <;> grind

/-- **floor_div_identity_rat through the code**: for exact operands and a non-zero divisor the
interpreter's own `(a // b) * b + (a %% b)` evaluates (no error) to a number with the value of `a` -/
theorem floor_div_identity (O : FloatOps F C) (a b : NNum F C) (x y : Rat)
    (ha : exact a = some x) (hb : exact b = some y) (hy : y ≠ 0) :
    ∃ q m p s, NNum.binop O "//" a b = .ok q ∧ NNum.binop O "%%" a b = .ok m ∧
      NNum.binop O "*" q b = .ok p ∧ NNum.binop O "+" p m = .ok s ∧ exact s = some x := by
  have H := rat_ops_exact O a b x y ha hb
  obtain ⟨q, hq, hqe⟩ := H.2.2.2.2.1 hy
  obtain ⟨m, hm, hme⟩ := H.2.2.2.2.2 hy
  obtain ⟨_, _, ⟨p, hp, hpe⟩, _⟩ := rat_ops_exact O q b _ y hqe hb
  obtain ⟨⟨s, hs, hse⟩, _⟩ := rat_ops_exact O p m _ _ hpe hme
  refine ⟨q, m, p, s, hq, hm, hp, hs, ?_⟩
  rw [hse]; congr 1
  have := floor_div_identity_rat x y
  simp only [ratOp] at this
  exact this

/-- the defect the pinned snapshot had (finding F7): with the truncated remainder in the place of
`%%` the identity fails, e.g. at `(-7/2)` and `2`: `-2 * 2 + (-3/2) ≠ -7/2` -/
theorem truncated_remainder_breaks_identity :
    ratDivFloor (mkRat (-7) 2) 2 * 2 + ratRem (mkRat (-7) 2) 2 ≠ mkRat (-7) 2 := by decide +kernel

/-- `%` truncates: `trunc (a / b) * b + (a % b) = a` -/
theorem trunc_identity_rat (x y : Rat) :
    ((trunc (x / y) : Int) : Rat) * y + ratOp .rem x y = x := by
  simp only [ratOp]; grind

/-! ### the level rule -/

/-- the operator names of the level rule -/
def aopOfName : String → Option AOp
  | "+" => some .add
  | "-" => some .sub
  | "*" => some .mul
  | "%" => some .rem
  | "//" => some .divFloor
  | "%%" => some .modFloor
  | _ => none

/-- **level_rule**: for `+ - * % // %%`, whenever the code returns a number, that number has the
higher of the operands' levels and is the operation of that level on the converted operands
(`arith`: ℚ for the exact levels, `fOp` on `toF` for floats, `cOp` on `toC` for complex) -/
theorem level_rule (O : FloatOps F C) (name : String) (op : AOp) (hop : aopOfName name = some op)
    (a b r : NNum F C) (h : NNum.binop O name a b = .ok r) :
    r = arith O op a b ∧ r.level = max a.level b.level := by
  have hr : r = arith O op a b := by
    rw [binop_refines] at h
    unfold aopOfName at hop
    split at hop <;> simp at hop <;> subst hop <;> simp only [TowerSpec.binop] at h
    · simpa using h.symm
    · simpa using h.symm
    · simpa using h.symm
    · split at h <;> simp at h; exact h.symm
    · split at h <;> simp at h; exact h.symm
    · split at h <;> simp at h; exact h.symm
  exact ⟨hr, hr ▸ level_arith O op a b⟩

/-- coercion is upward only as needed: an exact result stays exact, ints stay ints -/
theorem int_ops_stay_int (O : FloatOps F C) (op : AOp) (a b : Int) :
    arith O op (.int a : NNum F C) (.int b) = .int (implInt op a b) := by
  simp [arith, exact, ofExact, level, int_closed]


/-! ### `^` with an integer exponent -/

/-- **pow_int_exact**: an exact base to an integer exponent (negative ones included, base non-zero
then) is the exact power `x ^ e` in ℚ -/
theorem pow_int_exact (O : FloatOps F C) (a : NNum F C) (x : Rat) (e : Int)
    (ha : exact a = some x) (hne : ¬ (x = 0 ∧ e < 0)) :
    ∃ r, NNum.binop O "^" a (.int e) = .ok r ∧ exact r = some (x ^ e) := by
  rw [binop_refines]
  refine ⟨_, rfl, ?_⟩
  simp only [power, ha, if_neg hne, qpow_eq]
  split
  · rename_i h
    have hl : a.level = 0 := h.1
    cases a <;> simp [level] at hl
    simp [exact] at ha; subst ha
    rename_i i
    have : ((i : Rat) ^ e) = ((i ^ e.toNat : Int) : Rat) := by
      by_cases h0 : e = 0
      · subst h0; simp [Rat.zpow_zero]
      · rw [zpow_of_pos _ _ (by omega), Rat.intCast_pow]
    show some ((((i : Rat) ^ e).floor : Int) : Rat) = some ((i : Rat) ^ e)
    rw [this, Rat.floor_intCast]
  · rfl

/-- `0 ^ negative` is `1 / 0`: float +∞, like `/` by zero -/
theorem pow_zero_neg (O : FloatOps F C) (a : NNum F C) (e : Int)
    (ha : exact a = some 0) (he : e < 0) :
    NNum.binop O "^" a (.int e) = .ok (.float O.posInf) := by
  rw [binop_refines]; simp [TowerSpec.binop, power, ha, he]

/-- what `x ^ e` means for a negative exponent: the inverse of the positive power -/
theorem zpow_neg_mul (x : Rat) (e : Int) (hx : x ≠ 0) (he : e < 0) :
    x ^ e * x ^ (-e).toNat = 1 := by
  rw [zpow_of_neg x e he]
  apply Rat.inv_mul_cancel
  intro h
  have : ∀ n : Nat, x ^ n ≠ 0 := by
    intro n; induction n with
    | zero => rw [Rat.pow_zero]; decide
    | succ n ih => rw [Rat.pow_succ]; intro h; rcases Rat.mul_eq_zero.mp h with h | h; exact ih h; exact hx h
  exact this _ h

/-! ### rounding family -/

/-- the exact (real) value of a number where it has one -/
def value (O : FloatOps F C) (a : NNum F C) : Option Rat :=
  match realView O a with
  | some (.fin q) => some q
  | _ => none

/-- **rounding_exact**: on every number with an exact value `q` (ints, rationals, finite floats)
`floor`, `ceil`, `round`, `int` return the integer obtained by rounding `q` down / up / to nearest
with ties away from zero / toward zero -/
theorem rounding_exact (O : FloatOps F C) (a : NNum F C) (q : Rat) (hq : value O a = some q) :
    NNum.unop O "floor" a = .ok (.int q.floor) ∧
    NNum.unop O "ceil" a = .ok (.int q.ceil) ∧
    NNum.unop O "round" a = .ok (.int (roundHalfAway q)) ∧
    NNum.unop O "int" a = .ok (.int (trunc q)) := by
  simp only [unop_refines, TowerSpec.unop, roundWith]
  unfold value at hq
  split at hq <;> simp at hq
  rename_i q' hv
  subst hq
  simp [hv]

/-- non-finite floats stay what they are; complex numbers are rejected -/
theorem rounding_nonfinite (O : FloatOps F C) (f : F) (h : ∀ q, O.view f ≠ .fin q) :
    NNum.unop O "floor" (.float f : NNum F C) = .ok (.float f) ∧
    NNum.unop O "ceil" (.float f : NNum F C) = .ok (.float f) ∧
    NNum.unop O "round" (.float f : NNum F C) = .ok (.float f) := by
  simp only [unop_refines, TowerSpec.unop, roundWith, realView]
  cases hv : O.view f <;> simp_all

/-- **the `int` conversion**: of a finite float (as of an int or a rational) it is the truncation
of the exact value; of a non-finite float (NaN, ±∞) it RAISES (since /repo commit 48f3e57; before,
the float came back unchanged and `int(x) is int` could be false) -/
theorem int_conversion (O : FloatOps F C) (f : F) :
    (∀ q, O.view f = .fin q → NNum.unop O "int" (.float f : NNum F C) = .ok (.int (trunc q))) ∧
    ((∀ q, O.view f ≠ .fin q) → NNum.unop O "int" (.float f : NNum F C) = .throw) := by
  simp only [unop_refines, TowerSpec.unop, realView]
  refine ⟨fun q hq => by simp [hq], fun h => ?_⟩
  cases hv : O.view f <;> simp
  exact absurd hv (h _)

/-- `int(x)`, when it returns, returns an int -/
theorem int_conversion_is_int (O : FloatOps F C) (a r : NNum F C)
    (h : NNum.unop O "int" a = .ok r) : r.level = 0 := by
  rw [unop_refines] at h
  simp only [TowerSpec.unop] at h
  split at h <;> simp at h
  subst h; rfl

theorem rounding_complex_throws (O : FloatOps F C) (z : C) :
    NNum.unop O "floor" (.complex z : NNum F C) = .throw ∧
    NNum.unop O "round" (.complex z : NNum F C) = .throw ∧
    NNum.unop O "int" (.complex z : NNum F C) = .throw := by
  simp [unop_refines, TowerSpec.unop, roundWith, realView]

/-- what the four roundings are, order-theoretically -/
theorem floor_spec (q : Rat) : (q.floor : Rat) ≤ q ∧ q < ((q.floor + 1 : Int) : Rat) :=
  ⟨Rat.floor_le q, Rat.lt_floor_add_one q⟩

theorem ceil_spec (q : Rat) : q ≤ (q.ceil : Rat) ∧ ((q.ceil - 1 : Int) : Rat) < q := by
  refine ⟨Rat.le_ceil, ?_⟩
  have : q.ceil - 1 < q.ceil := by omega
  exact Rat.lt_ceil_iff.mp this

/-- `round` is the nearest integer, half-way cases away from zero: for `q ≥ 0` the integer in
`(q - 1/2, q + 1/2]`, for `q < 0` the integer in `[q - 1/2, q + 1/2)` -/
theorem round_spec (q : Rat) :
    (0 ≤ q → q - 1 / 2 < (roundHalfAway q : Rat) ∧ (roundHalfAway q : Rat) ≤ q + 1 / 2) ∧
    (q < 0 → q - 1 / 2 ≤ (roundHalfAway q : Rat) ∧ (roundHalfAway q : Rat) < q + 1 / 2) := by
  unfold roundHalfAway
  constructor
  · intro h
    rw [if_pos h]
    have ⟨h1, h2⟩ := floor_spec (q + 1 / 2)
    rw [Rat.intCast_add] at h2
    have : ((1 : Int) : Rat) = 1 := rfl
    constructor <;> grind
  · intro h
    rw [if_neg (Rat.not_le.mpr h)]
    have ⟨h1, h2⟩ := ceil_spec (q - 1 / 2)
    rw [Rat.intCast_sub] at h2
    have : ((1 : Int) : Rat) = 1 := rfl
    constructor <;> grind

/-- `int` rounds toward zero -/
theorem trunc_spec (q : Rat) :
    (0 ≤ q → (trunc q : Rat) ≤ q ∧ q < ((trunc q + 1 : Int) : Rat)) ∧
    (q < 0 → q ≤ (trunc q : Rat) ∧ ((trunc q - 1 : Int) : Rat) < q) := by
  unfold trunc
  constructor
  · intro h; rw [if_pos h]; exact floor_spec q
  · intro h; rw [if_neg (Rat.not_le.mpr h)]; exact ceil_spec q

/-! ### numerator / denominator, `rational`, `float` -/

/-- **numerator / denominator** are those of the lowest-terms fraction with positive denominator
(for an integer: itself and 1); floats and complex numbers are rejected -/
theorem numer_denom (O : FloatOps F C) (a : NNum F C) (q : Rat) (ha : exact a = some q) :
    NNum.unop O "numerator" a = .ok (.int q.num) ∧
    NNum.unop O "denominator" a = .ok (.int q.den) ∧
    q = (q.num : Rat) / ((q.den : Int) : Rat) ∧ Nat.gcd q.num.natAbs q.den = 1 ∧ 0 < q.den := by
  refine ⟨?_, ?_, rat_eq_num_div_den q, q.reduced, q.den_pos⟩ <;>
    simp [unop_refines, TowerSpec.unop, ha]

theorem numer_denom_inexact (O : FloatOps F C) (a : NNum F C) (ha : exact a = none) :
    NNum.unop O "numerator" a = .throw ∧ NNum.unop O "denominator" a = .throw := by
  simp [unop_refines, TowerSpec.unop, ha]

/-- **rational(x)** is exact: the value itself for ints, rationals and every finite float -/
theorem rational_exact (O : FloatOps F C) (a : NNum F C) (q : Rat) (hq : value O a = some q) :
    NNum.unop O "rational" a = .ok (.rat q) := by
  simp only [unop_refines, TowerSpec.unop]
  unfold value at hq
  split at hq <;> simp at hq
  rename_i q' hv
  subst hq
  simp [hv]

/-- **float(x)** is the conversion of the structure (`BigInt::to_f64` / `BigRational::to_f64`,
abstract here), the identity on floats, an error on complex numbers -/
theorem float_conv (O : FloatOps F C) (i : Int) (r : Rat) (f : F) (z : C) :
    NNum.unop O "float" (.int i : NNum F C) = .ok (.float (O.ofInt i)) ∧
    NNum.unop O "float" (.rat r : NNum F C) = .ok (.float (O.ofRat r)) ∧
    NNum.unop O "float" (.float f : NNum F C) = .ok (.float f) ∧
    NNum.unop O "float" (.complex z : NNum F C) = .throw := by
  simp [unop_refines, TowerSpec.unop, toF]

/-! ### the IEEE-754 decoding used for float literals: sanity -/
theorem viewBits_one : F64.viewBits 0x3FF0000000000000 = .fin 1 := by decide +kernel
theorem viewBits_neg_half3 : F64.viewBits 0xBFF8000000000000 = .fin (mkRat (-3) 2) := by decide +kernel
theorem viewBits_tenth :
    F64.viewBits 0x3FB999999999999A = .fin (mkRat 3602879701896397 36028797018963968) := by decide +kernel
theorem viewBits_min_subnormal : F64.viewBits 1 = .fin (mkRat 1 (2 ^ 1074)) := by decide +kernel
theorem viewBits_zeros : F64.viewBits 0 = .fin 0 ∧ F64.viewBits 0x8000000000000000 = .fin 0 := by decide +kernel
theorem viewBits_inf : F64.viewBits 0x7FF0000000000000 = .inf false ∧
    F64.viewBits 0xFFF0000000000000 = .inf true ∧ F64.viewBits 0x7FF8000000000000 = .nan := by decide +kernel
theorem viewBits_2p63 : F64.viewBits 0x43E0000000000000 = .fin 9223372036854775808 := by decide +kernel

/-! ### vectors -/

theorem sequence_ok {α : Type} (xs : List (Out α)) (ys : List α) (h : sequence xs = .ok ys) :
    xs = ys.map .ok := by
  induction xs generalizing ys with
  | nil => simp [sequence] at h; subst h; rfl
  | cons x xs ih =>
    cases x with
    | ok y =>
      simp only [sequence] at h
      cases hs : sequence xs with
      | ok zs => rw [hs] at h; simp [Out.map] at h; subst h; simp [ih zs hs]
      | throw => rw [hs] at h; simp [Out.map] at h
      | panic => rw [hs] at h; simp [Out.map] at h
    | throw => simp [sequence] at h
    | panic => simp [sequence] at h

/-- **vectorize_shape**: vectors of different lengths are rejected -/
theorem vec_length_mismatch (O : FloatOps F C) (op : String) (as bs : List (NNum F C))
    (h : as.length ≠ bs.length) : Vectorize.binop O op (.vec as) (.vec bs) = .throw := by
  simp [Vectorize.binop, Vectorize.vec2, h]

/-- **vectorize_shape**: on equal lengths every arithmetic operator acts element-wise: a result
vector has the operands' length and its `i`-th entry is the scalar operator on the `i`-th entries -/
theorem vec_elementwise (O : FloatOps F C) (op : String) (as bs rs : List (NNum F C))
    (h : Vectorize.binop O op (.vec as) (.vec bs) = .ok (.vec rs)) :
    rs.length = as.length ∧ rs.length = bs.length ∧
    ∀ i (h1 : i < as.length) (h2 : i < bs.length) (h3 : i < rs.length),
      NNum.binop O op as[i] bs[i] = .ok rs[i] := by
  rw [vbinop_refines] at h
  simp only [vbinop, TowerSpec.vec2] at h
  split at h
  · rename_i hl
    cases hs : sequence (List.zipWith (TowerSpec.binop O op) as bs) with
    | ok zs =>
      rw [hs] at h; simp [Out.map] at h; subst h
      have hz := sequence_ok _ _ hs
      have hlen : zs.length = (List.zipWith (TowerSpec.binop O op) as bs).length := by rw [hz]; simp
      simp at hlen
      refine ⟨by omega, by omega, ?_⟩
      intro i h1 h2 h3
      have := congrArg (fun l => l[i]?) hz
      simp [List.getElem?_zipWith, h1, h2, h3] at this
      rw [binop_refines]; exact this
    | throw => rw [hs] at h; simp [Out.map] at h
    | panic => rw [hs] at h; simp [Out.map] at h
  · simp at h

/-- **vectorize_shape**: a scalar operand is broadcast: it behaves as the vector of its copies -/
theorem vec_broadcast (O : FloatOps F C) (op : String) (a : NNum F C) (bs : List (NNum F C)) :
    Vectorize.binop O op (.num a) (.vec bs) =
      Vectorize.binop O op (.vec (List.replicate bs.length a)) (.vec bs) ∧
    Vectorize.binop O op (.vec bs) (.num a) =
      Vectorize.binop O op (.vec bs) (.vec (List.replicate bs.length a)) := by
  simp [vbinop_refines, vbinop, TowerSpec.vec2]

/-- anything that is neither a number nor a vector is rejected -/
theorem vec_other_throws (O : FloatOps F C) (op : String) (B : VObj F C) :
    Vectorize.binop O op .other B = .throw ∧ Vectorize.binop O op B .other = .throw := by
  cases B <;> simp [Vectorize.binop, Vectorize.vec2]

theorem map_ne_panic {α β : Type} (f : α → β) (x : Out α) (h : x ≠ .panic) : x.map f ≠ .panic := by
  cases x <;> simp [Out.map] at *

theorem sequence_zipWith_no_panic {α β γ : Type} (f : α → β → Out γ) (hf : ∀ a b, f a b ≠ .panic)
    (xs : List α) (ys : List β) : sequence (List.zipWith f xs ys) ≠ .panic := by
  induction xs generalizing ys with
  | nil => simp [sequence]
  | cons x xs ih =>
    cases ys with
    | nil => simp [sequence]
    | cons y ys =>
      simp only [List.zipWith, sequence]
      cases h : f x y with
      | ok z => exact map_ne_panic _ _ (ih ys)
      | throw => simp
      | panic => exact absurd h (hf x y)

/-- no arithmetic builtin of the model panics, on any object -/
theorem vbinop_no_panic (O : FloatOps F C) (op : String) (A B : VObj F C) :
    Vectorize.binop O op A B ≠ .panic := by
  have hb : ∀ a b, TowerSpec.binop O op a b ≠ .panic :=
    fun a b => binop_refines O op a b ▸ binop_no_panic O op a b
  rw [vbinop_refines]
  cases A <;> cases B <;> simp only [vbinop, TowerSpec.vec2] <;> (try split) <;>
    first
    | exact map_ne_panic _ _ (hb _ _)
    | exact map_ne_panic _ _ (sequence_zipWith_no_panic _ hb _ _)
    | simp


/-! ## 8. non-vacuity: concrete instances of the hypotheses and of the results

`trivOps` is a degenerate float structure (one float, one complex number), enough to evaluate the
exact levels and the dispatch concretely in the kernel. -/

def trivOps : FloatOps Unit Unit where
  view _ := .nan
  ofInt _ := ()
  ofRat _ := ()
  posInf := ()
  add _ _ := ()
  sub _ _ := ()
  mul _ _ := ()
  div _ _ := ()
  rem _ _ := ()
  divEuclid _ _ := ()
  remEuclid _ _ := ()
  neg _ := ()
  cOfF _ := ()
  cre _ := ()
  cim _ := ()
  cadd _ _ := ()
  csub _ _ := ()
  cmul _ _ := ()
  cdiv _ _ := ()
  crem _ _ := ()
  cfloorParts _ := ()
  cdivF _ _ := ()
  fdivC _ _ := ()
  cneg _ := ()
  powfPd _ _ := .float ()
  powifPd _ _ := .float ()
  cpowf _ _ := ()
  cpowif _ _ := ()
  cpowc _ _ := ()

abbrev N0 := NNum Unit Unit

-- hypotheses of `div_exact`, `rat_ops_exact`, `floor_div_identity` are satisfiable with non-integers
example : exact (.rat (mkRat (-7) 2) : N0) = some (mkRat (-7) 2) ∧ exact (.int 2 : N0) = some 2 ∧
    (2 : Rat) ≠ 0 := by decide +kernel
-- `6 / 4` is `3/2`; `2 / 2` is the RATIONAL `1/1`
example : NNum.binop trivOps "/" (.int 6) (.int 4) = .ok (.rat (mkRat 3 2)) := by decide +kernel
example : NNum.binop trivOps "/" (.int 2) (.int 2) = .ok (.rat 1) := by decide +kernel
example : NNum.binop trivOps "/" (.int 1) (.int 0) = .ok (.float ()) := by decide +kernel
-- the failing input of finding F7 now satisfies the identity: (-7/2) // 2 = -2, (-7/2) %% 2 = 1/2
example : NNum.binop trivOps "//" (.rat (mkRat (-7) 2)) (.int 2) = .ok (.rat (-2)) := by decide +kernel
example : NNum.binop trivOps "%%" (.rat (mkRat (-7) 2)) (.int 2) = .ok (.rat (mkRat 1 2)) := by decide +kernel
example : NNum.binop trivOps "%" (.rat (mkRat (-7) 2)) (.int 2) = .ok (.rat (mkRat (-3) 2)) := by decide +kernel
example : NNum.binop trivOps "%%" (.int 6) (.rat (-12)) = .ok (.rat (-6)) := by decide +kernel
example : NNum.binop trivOps "%" (.int 5) (.int 0) = .throw := by decide +kernel
-- level rule: int + rational is rational, rational + float is float, anything + complex is complex
example : NNum.binop trivOps "+" (.int 1) (.rat (mkRat 2 3)) = .ok (.rat (mkRat 5 3)) := by decide +kernel
example : NNum.binop trivOps "+" (.rat (mkRat 2 3)) (.float ()) = .ok (.float ()) := by decide +kernel
example : NNum.binop trivOps "*" (.complex ()) (.int 3) = .ok (.complex ()) := by decide +kernel
-- `^`
example : NNum.binop trivOps "^" (.int 2) (.int (-2)) = .ok (.rat (mkRat 1 4)) := by decide +kernel
example : NNum.binop trivOps "^" (.rat (mkRat 2 3)) (.int (-2)) = .ok (.rat (mkRat 9 4)) := by decide +kernel
example : NNum.binop trivOps "^" (.int 0) (.int (-1)) = .ok (.float ()) := by decide +kernel
-- rounding: halves go away from zero
example : NNum.unop trivOps "round" (.rat (mkRat 5 2)) = .ok (.int 3) ∧
    NNum.unop trivOps "round" (.rat (mkRat (-5) 2)) = .ok (.int (-3)) ∧
    NNum.unop trivOps "floor" (.rat (mkRat (-5) 2)) = .ok (.int (-3)) ∧
    NNum.unop trivOps "ceil" (.rat (mkRat (-5) 2)) = .ok (.int (-2)) ∧
    NNum.unop trivOps "int" (.rat (mkRat (-5) 2)) = .ok (.int (-2)) := by decide +kernel
example : NNum.unop trivOps "numerator" (.rat (mkRat 4 (6))) = .ok (.int 2) ∧
    NNum.unop trivOps "denominator" (.rat (mkRat (-4) 6)) = .ok (.int 3) := by decide +kernel
-- vectors
example : Vectorize.binop trivOps "+" (.vec [.int 1, .rat (mkRat 2 3)]) (.num (.int 1)) =
    .ok (.vec [.int 2, .rat (mkRat 5 3)]) := by decide +kernel
example : Vectorize.binop trivOps "+" (.vec [.int 1]) (.vec [.int 1, .int 2]) = .throw := by decide +kernel
example : Vectorize.binop trivOps "//" (.vec [.int 1, .int 2]) (.vec [.int 1, .int 0]) = .throw := by
  decide +kernel

/-! ## 9. the property, assembled -/

/-- C07 at full strength, for every float structure: (1) the code is the Spec on every pair of
objects and every operator / unary builtin; (2) `/` is exact with float fallback; (3) `+ - * % //
%%` are exact in ℚ, with the floor identity, the flooring and the sign of `%%`; (4) integer
exponents are exact; (5) the level rule; (6) roundings, numerator / denominator, `rational` are
exact; (7) vectors are element-wise with broadcasting and a length check. -/
def C07_statement : Prop :=
  ∀ (F C : Type) (O : FloatOps F C),
    (∀ op A B, Vectorize.binop O op A B = TowerSpec.vbinop O op A B) ∧
    (∀ op A, Vectorize.unop O op A = TowerSpec.vunop O op A) ∧
    (∀ (a b : NNum F C) x y, exact a = some x → exact b = some y → y ≠ 0 →
      NNum.binop O "/" a b = .ok (.rat (x / y)) ∧ x / y * y = x) ∧
    (∀ (a b : NNum F C) x fa fb, exact a = some x → exact b = some 0 → toF O a = some fa →
      toF O b = some fb → NNum.binop O "/" a b = .ok (.float (O.div fa fb))) ∧
    (∀ (a b : NNum F C) x y, exact a = some x → exact b = some y → y ≠ 0 →
      ∃ q m p s, NNum.binop O "//" a b = .ok q ∧ NNum.binop O "%%" a b = .ok m ∧
        NNum.binop O "*" q b = .ok p ∧ NNum.binop O "+" p m = .ok s ∧ exact s = some x ∧
        exact q = some (((x / y).floor : Int) : Rat) ∧
        (0 < y → ∃ r, exact m = some r ∧ 0 ≤ r ∧ r < y)) ∧
    (∀ (a : NNum F C) x e, exact a = some x → ¬ (x = 0 ∧ e < 0) →
      ∃ r, NNum.binop O "^" a (.int e) = .ok r ∧ exact r = some (x ^ e)) ∧
    (∀ name op, aopOfName name = some op → ∀ (a b r : NNum F C), NNum.binop O name a b = .ok r →
      r = arith O op a b ∧ r.level = max a.level b.level) ∧
    (∀ (a : NNum F C) q, value O a = some q →
      NNum.unop O "floor" a = .ok (.int q.floor) ∧ NNum.unop O "ceil" a = .ok (.int q.ceil) ∧
      NNum.unop O "round" a = .ok (.int (roundHalfAway q)) ∧ NNum.unop O "int" a = .ok (.int (trunc q)) ∧
      NNum.unop O "rational" a = .ok (.rat q)) ∧
    (∀ (a : NNum F C) q, exact a = some q →
      NNum.unop O "numerator" a = .ok (.int q.num) ∧ NNum.unop O "denominator" a = .ok (.int q.den)) ∧
    (∀ op (as bs : List (NNum F C)), as.length ≠ bs.length →
      Vectorize.binop O op (.vec as) (.vec bs) = .throw) ∧
    (∀ op (as bs rs : List (NNum F C)), Vectorize.binop O op (.vec as) (.vec bs) = .ok (.vec rs) →
      rs.length = as.length ∧ rs.length = bs.length ∧
      ∀ i (h1 : i < as.length) (h2 : i < bs.length) (h3 : i < rs.length),
        NNum.binop O op as[i] bs[i] = .ok rs[i]) ∧
    (∀ op (a : NNum F C) bs,
      Vectorize.binop O op (.num a) (.vec bs) = Vectorize.binop O op (.vec (List.replicate bs.length a)) (.vec bs) ∧
      Vectorize.binop O op (.vec bs) (.num a) = Vectorize.binop O op (.vec bs) (.vec (List.replicate bs.length a)))

theorem C07_holds : C07_statement := by
  intro F C O
  refine ⟨vbinop_refines O, vunop_refines O, ?_, ?_, ?_, ?_, ?_, ?_, ?_, ?_, ?_, ?_⟩
  · intro a b x y ha hb hy; exact ⟨div_exact O a b x y ha hb hy, div_exact_value x y hy⟩
  · intro a b x fa fb ha hb hfa hfb; exact div_zero_fallback O a b x fa fb ha hb hfa hfb
  · intro a b x y ha hb hy
    have H := rat_ops_exact O a b x y ha hb
    obtain ⟨q, hq, hqe⟩ := H.2.2.2.2.1 hy
    obtain ⟨m, hm, hme⟩ := H.2.2.2.2.2 hy
    obtain ⟨q', m', p, s, hq', hm', hp, hs, hse⟩ := floor_div_identity O a b x y ha hb hy
    rw [hq] at hq'; rw [hm] at hm'
    cases hq'; cases hm'
    refine ⟨q, m, p, s, hq, hm, hp, hs, hse, hqe, ?_⟩
    intro hy0
    refine ⟨_, hme, ?_⟩
    have := modFloor_range_pos x y hy0
    simpa [ratOp] using this
  · intro a x e ha hne; exact pow_int_exact O a x e ha hne
  · intro name op hop a b r h; exact level_rule O name op hop a b r h
  · intro a q hq
    obtain ⟨h1, h2, h3, h4⟩ := rounding_exact O a q hq
    exact ⟨h1, h2, h3, h4, rational_exact O a q hq⟩
  · intro a q ha
    obtain ⟨h1, h2, _⟩ := numer_denom O a q ha
    exact ⟨h1, h2⟩
  · intro op as bs h; exact vec_length_mismatch O op as bs h
  · intro op as bs rs h; exact vec_elementwise O op as bs rs h
  · intro op a bs; exact vec_broadcast O op a bs


/-! ## 10. `float(x)`: the correctly rounded conversion the Spec column of the check uses

`F64.ofRatRNE` (Spec/TowerSpec.lean) is round-to-nearest, ties-to-even.  It is not a parameter of
the theorems above (they hold for every conversion `O.ofInt`, `O.ofRat`); the differential check
compares `float(x)` and every mixed exact/float operation of the real interpreter with it.  Sanity
by kernel evaluation here; the general optimality statement below is proved in Theorems/C07Float.lean. -/

theorem rne_third : F64.ofRatRNE (mkRat 1 3) = 0x3FD5555555555555 := by decide +kernel
theorem rne_tenth : F64.ofRatRNE (mkRat 1 10) = 0x3FB999999999999A := by decide +kernel
theorem rne_neg_five : F64.ofRatRNE (-5) = 0xC014000000000000 := by decide +kernel
/-- ties go to the even significand: 2^53 + 1 ↦ 2^53, 2^53 + 3 ↦ 2^53 + 4 -/
theorem rne_ties_even : F64.ofRatRNE 9007199254740993 = 0x4340000000000000 ∧
    F64.ofRatRNE 9007199254740995 = 0x4340000000000002 := by decide +kernel
/-- overflow to +∞ exactly from 2^1024 − 2^970 on -/
theorem rne_overflow : F64.ofRatRNE ((2 ^ 1024 - 2 ^ 970 : Nat) : Rat) = 0x7FF0000000000000 ∧
    F64.ofRatRNE ((2 ^ 1024 - 2 ^ 970 - 1 : Nat) : Rat) = 0x7FEFFFFFFFFFFFFF := by decide +kernel
/-- subnormals and underflow: 2^-1074 is the least positive float, half of it rounds to (even) 0 -/
theorem rne_subnormal : F64.ofRatRNE (mkRat 1 (2 ^ 1074)) = 1 ∧ F64.ofRatRNE (mkRat 1 (2 ^ 1075)) = 0 ∧
    F64.ofRatRNE (mkRat 3 (2 ^ 1075)) = 2 ∧ F64.ofRatRNE (mkRat (-3) (2 ^ 1100)) = 0x8000000000000000 := by
  decide +kernel
/-- decoding what was encoded gives the value back where it is representable -/
theorem rne_roundtrip_examples :
    F64.viewBits (F64.ofRatRNE (mkRat (-3) 2)) = .fin (mkRat (-3) 2) ∧
    F64.viewBits (F64.ofRatRNE 9007199254740992) = .fin 9007199254740992 ∧
    F64.viewBits (F64.ofRatRNE (mkRat 1 (2 ^ 1074))) = .fin (mkRat 1 (2 ^ 1074)) := by decide +kernel

/-- `ofRatRNE q` is a nearest binary64 value to `q` among all finite bit patterns, whenever it is
finite itself.  PROVED as `Noulith.C07F.ofRatRNE_nearest` in Theorems/C07Float.lean (with ties to even,
the overflow threshold, the sign and exactness on representable values); the statement stays here
under its original name. -/
def ofRatRNE_nearest_statement : Prop :=
  ∀ (q q' : Rat), F64.viewBits (F64.ofRatRNE q) = .fin q' →
    ∀ (b : Nat) (qb : Rat), b < 2 ^ 64 → F64.viewBits b = .fin qb → (q - q').abs ≤ (q - qb).abs


end Noulith.C07
