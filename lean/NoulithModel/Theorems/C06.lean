/-
C06 — Integer arithmetic is exact at every magnitude and representation.

Property theorems about the Impl model `NInt` / `IntOps` (NoulithModel/Impl/NInt.lean) against the
Spec `IntSpec` (plain `Int`).  All statements quantify over BOTH representations of each operand
(`small` = i64 fast path, `big` = BigInt, possibly holding a small value) with no size bound.
-/
import NoulithModel.Spec.IntSpec

namespace Noulith.C06
open Noulith Noulith.NInt

/-! ## 1. every operator computes the exact value, whatever the representations -/

@[simp] theorem val_small (v : Int) : (small v).val = v := rfl
@[simp] theorem val_big (v : Int) : (big v).val = v := rfl

theorem val_add (a b : NInt) : (add a b).val = a.val + b.val := by
  cases a <;> cases b <;> simp only [add] <;> (try split) <;> rfl

theorem val_sub (a b : NInt) : (sub a b).val = a.val - b.val := by
  cases a <;> cases b <;> simp only [sub] <;> (try split) <;> rfl

theorem val_mul (a b : NInt) : (mul a b).val = a.val * b.val := by
  cases a <;> cases b <;> simp only [mul] <;> (try split) <;> rfl

theorem val_neg (a : NInt) : (neg a).val = -a.val := by
  unfold neg ofBigInt; split <;> rfl

theorem val_not (a : NInt) : (NInt.not a).val = -a.val - 1 := by
  cases a <;> rfl

theorem val_and (a b : NInt) : (NInt.and a b).val = band a.val b.val := by
  cases a <;> cases b <;> rfl
theorem val_or (a b : NInt) : (NInt.or a b).val = bor a.val b.val := by
  cases a <;> cases b <;> rfl
theorem val_xor (a b : NInt) : (NInt.xor a b).val = bxor a.val b.val := by
  cases a <;> cases b <;> rfl

theorem val_shl (a : NInt) (s : Nat) : (shl a s).val = a.val * 2 ^ s := rfl
/-- `>>` is floor division by a power of two -/
theorem val_shr (a : NInt) (s : Nat) : (shr a s).val = a.val / 2 ^ s := by
  simp [shr, val, Int.shiftRight_eq_div_pow]

theorem val_divFloor (a b : NInt) : (divFloor a b).val = Int.fdiv a.val b.val := rfl
theorem val_modFloor (a b : NInt) : (modFloor a b).val = Int.fmod a.val b.val := rfl

/-- `%` with a non-zero divisor never panics and is the truncated remainder -/
theorem val_rem (a b : NInt) (hb : b.val ≠ 0) :
    ∃ r, rem a b = .ok r ∧ r.val = Int.tmod a.val b.val := by
  cases a <;> cases b <;> simp [rem] at * <;> (try split) <;> simp_all

theorem val_tdiv (a b : NInt) (hb : b.val ≠ 0) :
    ∃ r, tdiv a b = .ok r ∧ r.val = Int.tdiv a.val b.val := by
  cases a <;> cases b <;> simp [tdiv] at * <;> (try split) <;> simp_all

theorem val_abs (a : NInt) : (abs a).val = (a.val.natAbs : Int) := by
  cases a with
  | small x =>
    simp only [abs, val_small]
    by_cases h : x = -9223372036854775808
    · rw [if_pos h]; simp only [val_big]; omega
    · rw [if_neg h]; simp only [val_small]; split <;> omega
  | big x => simp only [abs, val_big]; split <;> omega

theorem val_signum (a : NInt) : (signum a).val = Int.sign a.val := by
  cases a with
  | small x =>
    simp only [signum, val_small]
    rcases Int.lt_trichotomy x 0 with h | h | h
    · simp [Int.sign_eq_neg_one_of_neg h]; omega
    · subst h; simp
    · simp [Int.sign_eq_one_of_pos h, h]
  | big x =>
    simp only [signum, val_big]
    rcases Int.lt_trichotomy x 0 with h | h | h
    · simp [Int.sign_eq_neg_one_of_neg h, h]
    · subst h; simp
    · have h1 : ¬ x < 0 := by omega
      have h2 : ¬ x = 0 := by omega
      simp [Int.sign_eq_one_of_pos h, h1, h2]

theorem val_gcd (a b : NInt) : (gcd a b).val = (Int.gcd a.val b.val : Int) := rfl
theorem val_lcm (a b : NInt) : (lcm a b).val = (Int.lcm a.val b.val : Int) := rfl

theorem neg_one_pow (n : Nat) : (-1 : Int) ^ n = if n % 2 = 0 then 1 else -1 := by
  induction n with
  | zero => simp
  | succ k ih =>
    rw [Int.pow_succ, ih]
    rcases Nat.mod_two_eq_zero_or_one k with h | h
    · have : (k + 1) % 2 = 1 := by omega
      simp [h, this]
    · have : (k + 1) % 2 = 0 := by omega
      simp [h, this]

theorem ipow_eq (a : Int) (n : Nat) : ipow a n = a ^ n := by
  unfold ipow
  by_cases h0 : a = 0
  · subst h0
    by_cases hn : n = 0
    · subst hn; simp
    · simp [hn, Int.zero_pow hn]
  · by_cases h1 : a = 1
    · subst h1; simp [Int.one_pow]
    · by_cases hm : a = -1
      · subst hm; simp [neg_one_pow]
      · simp [h0, h1, hm]

theorem val_pow (a b : NInt) (hb : 0 ≤ b.val) :
    (powMaybeRecip a b).1 = false ∧ (powMaybeRecip a b).2.val = a.val ^ b.val.toNat := by
  unfold powMaybeRecip
  by_cases h0 : b.val = 0
  · simp [h0]
  · have : 0 < b.val := by omega
    simp [h0, this, ipow_eq]

/-! ## 2. the representation invariant is preserved (so the theorems compose along any
computation: every operand "however produced" is well-formed) -/

theorem wf_ofBigInt (v : Int) : (ofBigInt v).WF := by
  unfold ofBigInt; split <;> simp_all [WF]

theorem wf_add (a b : NInt) : (add a b).WF := by
  cases a <;> cases b <;> simp only [add] <;> (try split) <;> simp_all [WF]
theorem wf_sub (a b : NInt) : (sub a b).WF := by
  cases a <;> cases b <;> simp only [sub] <;> (try split) <;> simp_all [WF]
theorem wf_mul (a b : NInt) : (mul a b).WF := by
  cases a <;> cases b <;> simp only [mul] <;> (try split) <;> simp_all [WF]
theorem wf_neg (a : NInt) : (neg a).WF := wf_ofBigInt _
theorem wf_not (a : NInt) (h : a.WF) : (NInt.not a).WF := by
  cases a <;> simp_all [NInt.not, WF, bnot, inI64]; omega

/-! ## 3. comparison, equality and hashing ignore the representation -/

theorem beq_exact (a b : NInt) (ha : a.WF) (hb : b.WF) : beq a b = true ↔ a.val = b.val := by
  cases a <;> cases b <;> simp only [beq, val_small, val_big, WF] at * <;> (try split) <;>
    simp_all <;> (intro h; subst h; contradiction)

theorem cmp_exact (a b : NInt) : cmp a b = compare a.val b.val := rfl

theorem lt_exact (a b : NInt) : cmp a b = .lt ↔ a.val < b.val := by
  simp [cmp, Int.compare_eq_lt]

/-- equal values write the same bytes to the hasher, whatever their representation -/
theorem hash_repr_independent (a b : NInt) (ha : a.WF) (hb : b.WF) (h : a.val = b.val) :
    hashWrites a = hashWrites b := by
  cases a <;> cases b <;> simp [hashWrites, val, WF] at * <;> subst h <;> simp_all

/-! ## 4. the floor / truncation laws the property states -/

/-- `(a // b) * b + (a %% b) == a` -/
theorem floor_identity (a b : Int) : Int.fdiv a b * b + Int.fmod a b = a := by
  have := Int.fmod_add_fdiv_mul a b
  omega

/-- `%%` takes the divisor's sign: `0 ≤ a %% b < b` for `b > 0`, `b < a %% b ≤ 0` for `b < 0` -/
theorem mod_floor_sign_pos (a b : Int) (hb : 0 < b) : 0 ≤ Int.fmod a b ∧ Int.fmod a b < b :=
  ⟨Int.fmod_nonneg_of_pos a hb, Int.fmod_lt_of_pos a hb⟩

theorem mod_floor_sign_neg (a b : Int) (hb : b < 0) : b < Int.fmod a b ∧ Int.fmod a b ≤ 0 := by
  have h1 := @Int.fmod_eq_emod a b
  have hb0 : b ≠ 0 := by omega
  have h2 := Int.emod_nonneg a hb0
  have h3 := Int.emod_lt a hb0
  by_cases hd : b ∣ a
  · have : a % b = 0 := Int.emod_eq_zero_of_dvd hd
    simp [hd] at h1; omega
  · have h4 : ¬ (0 ≤ b ∨ b ∣ a) := by intro h; rcases h with h | h; omega; exact hd h
    rw [if_neg h4] at h1
    rcases Int.emod_pos_of_not_dvd hd with h5 | h5
    · omega
    · omega

/-- `%` truncates: `(a tdiv b) * b + (a % b) = a`, and the remainder has the dividend's sign -/
theorem trunc_identity (a b : Int) : Int.tdiv a b * b + Int.tmod a b = a := by
  have := Int.tmod_add_tdiv_mul a b
  omega

theorem trunc_rem_sign_nonneg (a b : Int) (ha : 0 ≤ a) : 0 ≤ Int.tmod a b :=
  Int.tmod_nonneg b ha

theorem trunc_rem_sign_nonpos (a b : Int) (ha : a ≤ 0) : Int.tmod a b ≤ 0 := by
  have := Int.tmod_nonneg (a := -a) b (by omega)
  rw [Int.neg_tmod] at this; omega


/-! ## 5. two's-complement bit operators: bit `i` of the result is the Boolean operation on bit `i`
of the operands in the infinite two's-complement expansion (`tbit`), for all integers -/

theorem natDiff_testBit (m n i : Nat) : (natDiff m n).testBit i = (m.testBit i && !n.testBit i) := by
  simp [natDiff]; cases m.testBit i <;> cases n.testBit i <;> rfl

theorem bnot_bnot (x : Int) : bnot (bnot x) = x := by unfold bnot; omega

theorem tbit_bnot (x : Int) (i : Nat) : tbit (bnot x) i = !tbit x i := by
  by_cases h : 0 ≤ x
  · have h' : ¬ 0 ≤ bnot x := by unfold bnot; omega
    simp only [tbit, h, h', if_true, if_false, bnot_bnot]
  · have h' : 0 ≤ bnot x := by unfold bnot; omega
    simp only [tbit, h, h', if_true, if_false, Bool.not_not]

theorem tbit_ofNat (n i : Nat) : tbit (n : Int) i = n.testBit i := by
  simp [tbit]

theorem tbit_band (a b : Int) (i : Nat) : tbit (band a b) i = (tbit a i && tbit b i) := by
  unfold band
  by_cases ha : 0 ≤ a <;> by_cases hb : 0 ≤ b <;> simp only [ha, hb, if_true, if_false]
  · simp [tbit, ha, hb]
  · simp [natDiff_testBit, tbit, ha, hb]
  · simp [natDiff_testBit, tbit, ha, hb, Bool.and_comm]
  · rw [tbit_bnot, tbit_ofNat]; simp [tbit, ha, hb]

theorem tbit_bor (a b : Int) (i : Nat) : tbit (bor a b) i = (tbit a i || tbit b i) := by
  unfold bor
  by_cases ha : 0 ≤ a <;> by_cases hb : 0 ≤ b <;> simp only [ha, hb, if_true, if_false]
  · simp [tbit, ha, hb]
  · rw [tbit_bnot, tbit_ofNat]; simp [natDiff_testBit, tbit, ha, hb, Bool.or_comm]
  · rw [tbit_bnot, tbit_ofNat]; simp [natDiff_testBit, tbit, ha, hb]
  · rw [tbit_bnot, tbit_ofNat]; simp [tbit, ha, hb]

theorem tbit_bxor (a b : Int) (i : Nat) : tbit (bxor a b) i = (tbit a i ^^ tbit b i) := by
  unfold bxor
  by_cases ha : 0 ≤ a <;> by_cases hb : 0 ≤ b <;> simp only [ha, hb, if_true, if_false]
  · simp [tbit, ha, hb]
  · rw [tbit_bnot, tbit_ofNat]; simp [tbit, ha, hb]
  · rw [tbit_bnot, tbit_ofNat]; simp [tbit, ha, hb]
  · simp [tbit, ha, hb]

/-- the expansion determines the integer, so the three theorems above pin the results down -/
theorem tbit_ext (x y : Int) (h : ∀ i, tbit x i = tbit y i) : x = y := by
  unfold tbit at h
  by_cases hx : 0 ≤ x <;> by_cases hy : 0 ≤ y <;> simp only [hx, hy, if_true, if_false] at h
  · have := Nat.eq_of_testBit_eq h; omega
  · exfalso
    -- x ≥ 0 has finitely many 1 bits, y < 0 has finitely many 0 bits
    obtain ⟨k, hk⟩ : ∃ k, x.toNat < 2 ^ k ∧ (bnot y).toNat < 2 ^ k := by
      refine ⟨x.toNat + (bnot y).toNat, ?_, ?_⟩
      · exact Nat.lt_of_le_of_lt (Nat.le_add_right _ _) Nat.lt_two_pow_self
      · exact Nat.lt_of_le_of_lt (Nat.le_add_left _ _) Nat.lt_two_pow_self
    have h1 := Nat.testBit_lt_two_pow hk.1
    have h2 := Nat.testBit_lt_two_pow hk.2
    have := h k
    simp [h1, h2] at this
  · exfalso
    obtain ⟨k, hk⟩ : ∃ k, (bnot x).toNat < 2 ^ k ∧ y.toNat < 2 ^ k := by
      refine ⟨(bnot x).toNat + y.toNat, ?_, ?_⟩
      · exact Nat.lt_of_le_of_lt (Nat.le_add_right _ _) Nat.lt_two_pow_self
      · exact Nat.lt_of_le_of_lt (Nat.le_add_left _ _) Nat.lt_two_pow_self
    have h1 := Nat.testBit_lt_two_pow hk.1
    have h2 := Nat.testBit_lt_two_pow hk.2
    have := h k
    simp [h1, h2] at this
  · have : (bnot x).toNat = (bnot y).toNat := Nat.eq_of_testBit_eq (fun i => by
      have := h i; simpa using this)
    unfold bnot at this; omega

/-! ## 6. the builtins as a program sees them: Impl = Spec for every operator name -/

theorem cmp_lt_iff (a b : NInt) : (cmp a b == .lt) = decide (a.val < b.val) := by
  unfold cmp; rcases Int.lt_trichotomy a.val b.val with h | h | h
  · simp [Int.compare_eq_lt.mpr h, h]
  · have : ¬ a.val < b.val := by omega
    simp [Int.compare_eq_eq.mpr h, this]
  · have : ¬ a.val < b.val := by omega
    simp [Int.compare_eq_gt.mpr h, this]

theorem cmp_gt_iff (a b : NInt) : (cmp a b == .gt) = decide (a.val > b.val) := by
  unfold cmp; rcases Int.lt_trichotomy a.val b.val with h | h | h
  · have : ¬ b.val < a.val := by omega
    simp [Int.compare_eq_lt.mpr h, this]
  · have : ¬ b.val < a.val := by omega
    simp [Int.compare_eq_eq.mpr h, this]
  · simp [Int.compare_eq_gt.mpr h, h]

theorem cmp_ne_gt_iff (a b : NInt) : (cmp a b != .gt) = decide (a.val ≤ b.val) := by
  unfold cmp; rcases Int.lt_trichotomy a.val b.val with h | h | h
  · have : a.val ≤ b.val := by omega
    simp [Int.compare_eq_lt.mpr h, this]
  · have : a.val ≤ b.val := by omega
    simp [Int.compare_eq_eq.mpr h, this]
  · have : ¬ a.val ≤ b.val := by omega
    simp [Int.compare_eq_gt.mpr h, this]

theorem cmp_ne_lt_iff (a b : NInt) : (cmp a b != .lt) = decide (a.val ≥ b.val) := by
  unfold cmp; rcases Int.lt_trichotomy a.val b.val with h | h | h
  · have : ¬ b.val ≤ a.val := by omega
    simp [Int.compare_eq_lt.mpr h, this]
  · have : b.val ≤ a.val := by omega
    simp [Int.compare_eq_eq.mpr h, this]
  · have : b.val ≤ a.val := by omega
    simp [Int.compare_eq_gt.mpr h, this]

theorem beq_decide (a b : NInt) (ha : a.WF) (hb : b.WF) : beq a b = decide (a.val = b.val) := by
  have := beq_exact a b ha hb
  by_cases h : a.val = b.val
  · simp [h, this.mpr h]
  · have h' : beq a b = false := by
      cases hq : beq a b
      · rfl
      · exact absurd (this.mp hq) h
    simp [h, h']

/-- **C06 main theorem (binary operators)**: for every operator name, every pair of well-formed
integers in any representation, the result a program sees (value / error / non-integer result) is
the Spec's result on the mathematical values. In particular no binary integer operator panics. -/
theorem binop_refines (op : String) (a b : NInt) (ha : a.WF) (hb : b.WF) :
    (IntOps.binop op a b).map IRes.abs = IntSpec.binop op a.val b.val := by
  unfold IntOps.binop IntSpec.binop
  split
  all_goals (try (simp [Out.map, IRes.abs, val_add, val_sub, val_mul, val_and, val_or, val_xor, val_gcd, val_lcm, val_divFloor, val_modFloor, val_shl, shr]; done))
  case h_4 =>
    by_cases h : b.val = 0
    · simp [h, Out.map]
    · obtain ⟨r, hr, hv⟩ := val_rem a b h
      simp [h, hr, Out.map, IRes.abs, hv]
  case h_5 => by_cases h : b.val = 0 <;> simp [h, Out.map, IRes.abs, val_divFloor]
  case h_6 => by_cases h : b.val = 0 <;> simp [h, Out.map, IRes.abs, val_modFloor]
  case h_7 =>
    by_cases h : b.val = 0
    · simp [h, Out.map]
    · by_cases h2 : Int.fmod a.val b.val = 0 <;> simp [h, h2, Out.map, IRes.abs, val_divFloor, val_modFloor]
  case h_8 =>
    unfold powMaybeRecip
    by_cases h0 : b.val = 0
    · simp [h0, Out.map, IRes.abs, ipow_eq]
    · by_cases hp : 0 < b.val
      · have : 0 ≤ b.val := by omega
        simp [h0, hp, this, Out.map, IRes.abs]
      · have hn : ¬ 0 ≤ b.val := by omega
        have hpos : 0 < (-b.val).toNat := by omega
        by_cases hz : a.val = 0
        · simp [h0, hp, hn, hz, Out.map, IRes.abs, ipow_eq, Int.zero_pow (Nat.ne_of_gt hpos)]
        · have : a.val ^ (-b.val).toNat ≠ 0 := Int.pow_ne_zero hz
          simp [h0, hp, hn, hz, this, Out.map, IRes.abs, ipow_eq]
  case h_12 => by_cases h : inUsize b.val <;> simp [h, Out.map, IRes.abs, val_shl]
  case h_13 => by_cases h : inUsize b.val <;> simp [h, Out.map, IRes.abs, shr]
  case h_16 => simp [Out.map, IRes.abs, beq_decide a b ha hb, IntSpec.b2i]
  case h_17 =>
    simp only [Out.map, IRes.abs, beq_decide a b ha hb, IntSpec.b2i]
    by_cases h : a.val = b.val <;> simp [h]
  case h_18 => simp [Out.map, IRes.abs, cmp_lt_iff, IntSpec.b2i]
  case h_19 => simp [Out.map, IRes.abs, cmp_ne_gt_iff, IntSpec.b2i]
  case h_20 => simp [Out.map, IRes.abs, cmp_gt_iff, IntSpec.b2i]
  case h_21 => simp [Out.map, IRes.abs, cmp_ne_lt_iff, IntSpec.b2i]
  case h_22 =>
    unfold cmp
    rcases Int.lt_trichotomy a.val b.val with h | h | h
    · simp [Int.compare_eq_lt.mpr h, h, Out.map, IRes.abs]
    · have : ¬ a.val < b.val := by omega
      simp [Int.compare_eq_eq.mpr h, this, h, Out.map, IRes.abs]
    · have h1 : ¬ a.val < b.val := by omega
      have h2 : ¬ a.val = b.val := by omega
      simp [Int.compare_eq_gt.mpr h, h1, h2, Out.map, IRes.abs]

/-- no binary integer operator panics on well-formed operands (feeds C14) -/
theorem binop_no_panic (op : String) (a b : NInt) (ha : a.WF) (hb : b.WF) :
    IntOps.binop op a b ≠ .panic := by
  intro h
  have := binop_refines op a b ha hb
  rw [h] at this
  unfold IntSpec.binop at this
  simp only [Out.map] at this
  split at this <;> (try split at this) <;> (try split at this) <;> simp at this

/-- **C06 (unary operators)** -/
theorem unop_refines (op : String) (a : NInt) (h : op ∈ ["neg", "not", "abs", "signum", "even", "odd"]) :
    (IntOps.unop op a).map IRes.abs = IntSpec.unop op a.val := by
  simp only [List.mem_cons, List.mem_nil_iff, or_false] at h
  rcases h with h | h | h | h | h | h <;> subst h
  · simp [IntOps.unop, IntSpec.unop, Out.map, IRes.abs, val_neg]
  · simp [IntOps.unop, IntSpec.unop, Out.map, IRes.abs, val_not]
  · simp [IntOps.unop, IntSpec.unop, Out.map, IRes.abs, val_abs]
  · simp [IntOps.unop, IntSpec.unop, Out.map, IRes.abs, val_signum]
  · have e : Int.fmod a.val 2 = a.val % 2 := Int.fmod_eq_emod_of_nonneg _ (by omega)
    by_cases h : a.val % 2 = 0 <;>
      simp [IntOps.unop, IntSpec.unop, Out.map, IRes.abs, val_modFloor, IntSpec.b2i, e, h]
  · have e : Int.fmod a.val 2 = a.val % 2 := Int.fmod_eq_emod_of_nonneg _ (by omega)
    by_cases h : a.val % 2 = 1 <;>
      simp [IntOps.unop, IntSpec.unop, Out.map, IRes.abs, val_modFloor, IntSpec.b2i, e, h]

end Noulith.C06
