/-
C11, part 7 — enumeration order: the streams enumerate exactly the closed forms of the Spec, in
that order, for every input length:
`subsequences(xs)` = `subseqs xs` (big-endian binary counting), `xs ^^ k` = `tuples xs k`
(odometer), `combinations(xs, k)` = `combs k xs` (lexicographic index successor).
(`permutations` is in C11EnumPerm.lean.)

Method: for each type a closed-form *continuation* `E state` (the part of the enumeration from that
state on) satisfying the unfolding equation `E s = item :: E (next state)`; then the list the
stream unfolds to is `E s`, and `E (initial state)` is the Spec's closed form.
-/
import NoulithModel.Theorems.C11

namespace Noulith.C11
open Noulith Noulith.Stream Noulith.StreamSpec

/-- a function satisfying the unfolding equation is the unfolding -/
theorem unfolds_eq_of_equation {σ β : Type} {next : σ → Option (β × σ)} (E : σ → List β) (P : σ → Prop)
    (hnone : ∀ s, P s → next s = none → E s = [])
    (hsome : ∀ s v s', P s → next s = some (v, s') → E s = v :: E s' ∧ P s') :
    ∀ s l, P s → Unfolds next s l → l = E s := by
  intro s l hp hu
  induction hu with
  | done h => exact (hnone _ hp h).symm
  | step h _ ih =>
    obtain ⟨e, hp'⟩ := hsome _ _ _ hp h
    rw [e, ih hp']

/-! ## subsequences: big-endian binary counting -/
namespace SubseqE

/-- the enumeration from the mask `v` on -/
def enumFrom {α : Type} : List Bool → List α → List (List α)
  | false :: m, x :: xs => enumFrom m xs ++ (subseqs xs).map (x :: ·)
  | true :: m, x :: xs => (enumFrom m xs).map (x :: ·)
  | _, _ => [[]]

theorem enumFrom_allFalse {α : Type} (xs : List α) (m : List Bool) (h : m.length = xs.length) :
    enumFrom (m.map fun _ => false) xs = subseqs xs := by
  induction xs generalizing m with
  | nil => cases m <;> simp_all [enumFrom, subseqs]
  | cons x xs ih =>
    cases m with
    | nil => simp at h
    | cons b m => simp [enumFrom, subseqs, ih m (by simpa using h)]

/-- the unfolding equation of the binary counter -/
theorem enumFrom_eq {α : Type} (v : List Bool) (xs : List α) (h : v.length = xs.length) :
    enumFrom v xs = Subseq.pick v xs ::
      (match Subseq.inc v with
       | some v' => enumFrom v' xs
       | none => []) ∧
    (∀ v', Subseq.inc v = some v' → v'.length = v.length) := by
  induction v generalizing xs with
  | nil =>
    cases xs with
    | nil => simp [enumFrom, Subseq.pick, Subseq.inc]
    | cons _ _ => simp at h
  | cons b m ih =>
    cases xs with
    | nil => simp at h
    | cons x ys =>
      have hl : m.length = ys.length := by simpa using h
      obtain ⟨e, el⟩ := ih ys hl
      cases hi : Subseq.inc m with
      | some m' =>
        have hm' := el m' hi
        rw [hi] at e
        cases b with
        | false =>
          simp only [Subseq.inc, hi, enumFrom, Subseq.pick]
          refine ⟨?_, by intro v' hv; cases hv; simp [hm']⟩
          rw [e]; simp
        | true =>
          simp only [Subseq.inc, hi, enumFrom, Subseq.pick]
          refine ⟨?_, by intro v' hv; cases hv; simp [hm']⟩
          rw [e]; simp
      | none =>
        rw [hi] at e
        cases b with
        | false =>
          simp only [Subseq.inc, hi, enumFrom, Subseq.pick]
          refine ⟨?_, by intro v' hv; simp at hv; subst hv; simp⟩
          rw [e]
          simp [enumFrom, enumFrom_allFalse ys m hl]
        | true =>
          simp only [Subseq.inc, hi, enumFrom, Subseq.pick]
          refine ⟨?_, by intro v' hv; simp at hv⟩
          rw [e]; simp

/-- the continuation of a state -/
def E {α : Type} (m : Mask α) : List (List α) :=
  match m.mask with
  | none => []
  | some v => enumFrom v m.base

def P {α : Type} (m : Mask α) : Prop := ∀ v, m.mask = some v → v.length = m.base.length

theorem unfolds_E {α : Type} (m : Mask α) (hp : P m) : Unfolds Subseq.next m (E m) := by
  obtain ⟨l, hu, _⟩ := SubseqT.unfolds m
  have : l = E m := by
    refine unfolds_eq_of_equation (next := Subseq.next) E P ?_ ?_ m l hp hu
    · intro s _ h
      obtain ⟨base, mask⟩ := s
      cases mask with
      | none => rfl
      | some w => simp [Subseq.next] at h
    · intro s v s' hs h
      obtain ⟨base, mask⟩ := s
      cases mask with
      | none => simp [Subseq.next] at h
      | some w =>
        simp only [Subseq.next, Option.some.injEq, Prod.mk.injEq] at h
        obtain ⟨rfl, rfl⟩ := h
        obtain ⟨e, el⟩ := enumFrom_eq w base (hs w rfl)
        constructor
        · simp only [E]
          rw [e]
          cases Subseq.inc w <;> rfl
        · intro v' hv'
          simp only at hv'
          rw [el v' hv']
          exact hs w rfl
  rw [← this]; exact hu

end SubseqE

/-- **`subsequences(xs)` enumerates `subseqs xs`, in that order**, for every list (any element type) -/
theorem subseqs_enumeration_gen {α : Type} (xs : List α) :
    Unfolds Subseq.next (Subseq.mk xs) (subseqs xs) := by
  have h := SubseqE.unfolds_E (Subseq.mk xs) (by
    intro v hv
    simp only [Subseq.mk, Option.some.injEq] at hv
    subst hv; simp [Subseq.mk])
  have e : SubseqE.E (Subseq.mk xs) = subseqs xs := by
    simp only [SubseqE.E, Subseq.mk]
    have := SubseqE.enumFrom_allFalse xs (List.replicate xs.length true) (by simp)
    simpa [List.map_replicate] using this
  rw [e] at h; exact h

theorem subseqs_enumeration : subseqs_enumeration_statement := fun xs => subseqs_enumeration_gen xs

/-! ## cartesian power: the odometer -/
namespace CPowE

/-- the enumeration from the coordinate vector `v` on -/
def enumD {α : Type} (base : List α) : List Nat → List (List α)
  | [] => [[]]
  | d :: ds =>
    match base[d]? with
    | some x =>
      (enumD base ds).map (x :: ·) ++
        (base.drop (d + 1)).flatMap fun y => (tuples base ds.length).map (y :: ·)
    | none => []

theorem enumD_zeros {α : Type} (b0 : α) (bs : List α) (ds : List Nat) :
    enumD (b0 :: bs) (ds.map fun _ => 0) = tuples (b0 :: bs) ds.length := by
  induction ds with
  | nil => rfl
  | cons d ds ih =>
    simp only [List.map_cons, enumD, List.length_cons, tuples, List.length_map]
    simp [ih]

theorem pickAll_cons {α : Type} (base : List α) (d : Nat) (ds : List Nat) (x : α) (h : base[d]? = some x) :
    pickAll base (d :: ds) = x :: pickAll base ds := by
  simp [pickAll, h]

theorem enumD_eq {α : Type} (base : List α) (v : List Nat) (hwf : ∀ d ∈ v, d < base.length) :
    enumD base v = pickAll base v ::
      (match CPow.inc base.length v with
       | some v' => enumD base v'
       | none => []) := by
  induction v with
  | nil => simp [enumD, pickAll, CPow.inc]
  | cons d ds ih =>
    have hd : d < base.length := hwf d (by simp)
    have hwf' : ∀ e ∈ ds, e < base.length := fun e he => hwf e (by simp [he])
    have hx : base[d]? = some base[d] := List.getElem?_eq_getElem hd
    have e := ih hwf'
    rw [pickAll_cons base d ds _ hx]
    cases hi : CPow.inc base.length ds with
    | some ds' =>
      have hl := ((CPowT.inc_spec base.length ds hwf').1 ds' hi).2.1
      rw [hi] at e
      simp only [CPow.inc, hi, enumD, hx, hl]
      rw [e]; simp
    | none =>
      rw [hi] at e
      by_cases hdm : d + 1 = base.length
      · have hdrop : base.drop (d + 1) = [] := List.drop_eq_nil_of_le (by omega)
        simp only [CPow.inc, hi, hdm, if_true, enumD, hx]
        rw [e]; simp
      · have hd1 : d + 1 < base.length := by omega
        have hx1 : base[d + 1]? = some base[d + 1] := List.getElem?_eq_getElem hd1
        have hdrop : base.drop (d + 1) = base[d + 1] :: base.drop (d + 1 + 1) :=
          List.drop_eq_getElem_cons hd1
        obtain ⟨b0, bs, hb⟩ : ∃ b0 bs, base = b0 :: bs := by
          cases base with
          | nil => simp at hd
          | cons b0 bs => exact ⟨b0, bs, rfl⟩
        have hz : enumD base (ds.map fun _ => 0) = tuples base ds.length := by
          rw [hb]; exact enumD_zeros b0 bs ds
        simp only [CPow.inc, hi, hdm, if_false, enumD, hx, hx1, List.length_map, hz]
        rw [e]
        simp only [List.map_cons, List.map_nil, List.cons_append, List.nil_append, List.cons.injEq,
          true_and]
        rw [hdrop, List.flatMap_cons]

def E {α : Type} (c : Idx α) : List (List α) :=
  match c.idx with
  | none => []
  | some v => enumD c.base v

theorem unfolds_E {α : Type} (c : Idx α) (hwf : CPowT.WF c) : Unfolds CPow.next c (E c) := by
  obtain ⟨l, hu, _⟩ := CPowT.unfolds c hwf
  have : l = E c := by
    refine unfolds_eq_of_equation (next := CPow.next) E CPowT.WF ?_ ?_ c l hwf hu
    · intro s _ h
      obtain ⟨base, idx⟩ := s
      cases idx with
      | none => rfl
      | some w => simp [CPow.next] at h
    · intro s v s' hs h
      refine ⟨?_, CPowT.wf_next s v s' hs h⟩
      obtain ⟨base, idx⟩ := s
      cases idx with
      | none => simp [CPow.next] at h
      | some w =>
        simp only [CPow.next, Option.some.injEq, Prod.mk.injEq] at h
        obtain ⟨rfl, rfl⟩ := h
        simp only [E]
        rw [enumD_eq base w (hs w rfl)]
        cases CPow.inc base.length w <;> rfl
  rw [← this]; exact hu

end CPowE

/-- **`xs ^^ k` enumerates `tuples xs k`, in that order**, for every base and every exponent -/
theorem tuples_enumeration_gen {α : Type} (xs : List α) (k : Nat) :
    Unfolds CPow.next (CPow.mk xs k) (tuples xs k) := by
  have h := CPowE.unfolds_E (CPow.mk xs k) (CPowT.mk_wf xs k)
  have e : CPowE.E (CPow.mk xs k) = tuples xs k := by
    cases xs with
    | nil =>
      cases k with
      | zero => rfl
      | succ k => simp [CPowE.E, CPow.mk, tuples]
    | cons b0 bs =>
      simp only [CPowE.E, CPow.mk, List.isEmpty_cons, Bool.false_eq_true, false_and, if_false]
      have := CPowE.enumD_zeros b0 bs (List.replicate k 0)
      simpa [List.map_replicate] using this
  rw [e] at h; exact h

theorem tuples_enumeration : tuples_enumeration_statement := fun xs k => tuples_enumeration_gen xs k

/-! ## combinations: the lexicographic index successor -/
namespace CombE

/-- the enumeration from the index vector `v` on -/
def enumC {α : Type} (base : List α) : List Nat → List (List α)
  | [] => [[]]
  | i :: rest =>
    match base[i]? with
    | some x => (enumC base rest).map (x :: ·) ++ combs (rest.length + 1) (base.drop (i + 1))
    | none => []

theorem combs_nil_of_lt {α : Type} (xs : List α) : ∀ k, xs.length < k → combs k xs = [] := by
  induction xs with
  | nil => intro k h; cases k with
    | zero => simp at h
    | succ k => rfl
  | cons x xs ih =>
    intro k h
    cases k with
    | zero => simp at h
    | succ k =>
      simp only [combs, ih k (by simpa using h), ih (k + 1) (by simp at h; omega)]
      rfl

theorem enumC_range' {α : Type} (base : List α) : ∀ k a, a + k ≤ base.length →
    enumC base (List.range' a k) = combs k (base.drop a) := by
  intro k
  induction k with
  | zero => intro a _; simp [enumC, combs]
  | succ k ih =>
    intro a h
    have ha : a < base.length := by omega
    have hx : base[a]? = some base[a] := List.getElem?_eq_getElem ha
    rw [List.range'_succ, enumC, hx]
    simp only [List.length_range']
    rw [ih (a + 1) (by omega), List.drop_eq_getElem_cons ha]
    rfl

theorem scan_cons (i0 : Nat) (rest : List Nat) : ∀ j last, j ≤ rest.length →
    Comb.scan (i0 :: rest) (j + 1) last =
      match Comb.scan rest j last with
      | some r' => some (i0 :: r')
      | none => if i0 + 1 < last - j then some (List.range' (i0 + 1) (rest.length + 1)) else none := by
  intro j
  induction j with
  | zero =>
    intro last _
    simp [Comb.scan]
  | succ j ih =>
    intro last hj
    have hstep : Comb.scan (i0 :: rest) (j + 1 + 1) last =
        if rest.getD j 0 + 1 < last then
          some ((i0 :: rest).take (j + 1) ++ List.range' (rest.getD j 0 + 1) ((i0 :: rest).length - (j + 1)))
        else Comb.scan (i0 :: rest) (j + 1) (last - 1) := by
      conv => lhs; unfold Comb.scan
      simp
    have hrest : Comb.scan rest (j + 1) last =
        if rest.getD j 0 + 1 < last then
          some (rest.take j ++ List.range' (rest.getD j 0 + 1) (rest.length - j))
        else Comb.scan rest j (last - 1) := by
      conv => lhs; unfold Comb.scan
    rw [hstep, hrest]
    by_cases hc : rest.getD j 0 + 1 < last
    · simp only [hc, if_true]
      simp
    · simp only [hc, if_false]
      rw [ih (last - 1) (by omega)]
      have : last - 1 - j = last - (j + 1) := by omega
      rw [this]

theorem enumC_eq {α : Type} (base : List α) (v : List Nat) (hwf : ∀ i ∈ v, i < base.length) :
    enumC base v = pickAll base v ::
      (match Comb.scan v v.length base.length with
       | some v' => enumC base v'
       | none => []) ∧
    (∀ v', Comb.scan v v.length base.length = some v' →
      (∀ i ∈ v', i < base.length) ∧ v'.length = v.length) := by
  induction v with
  | nil => simp [enumC, pickAll, Comb.scan]
  | cons i0 rest ih =>
    have hi0 : i0 < base.length := hwf i0 (by simp)
    have hwf' : ∀ i ∈ rest, i < base.length := fun i hi => hwf i (by simp [hi])
    have hx : base[i0]? = some base[i0] := List.getElem?_eq_getElem hi0
    obtain ⟨e, ewf⟩ := ih hwf'
    rw [CPowE.pickAll_cons base i0 rest _ hx]
    have hsc := scan_cons i0 rest rest.length base.length (Nat.le_refl _)
    simp only [List.length_cons]
    rw [hsc]
    cases hs : Comb.scan rest rest.length base.length with
    | some r' =>
      obtain ⟨w1, w2⟩ := ewf r' hs
      rw [hs] at e
      simp only [enumC, hx, w2]
      refine ⟨by rw [e]; simp, ?_⟩
      intro v' hv'
      cases hv'
      refine ⟨?_, by simp [w2]⟩
      intro i hi
      rcases List.mem_cons.mp hi with rfl | hi
      · exact hi0
      · exact w1 i hi
    | none =>
      rw [hs] at e
      by_cases hc : i0 + 1 < base.length - rest.length
      · simp only [hc, if_true, enumC, hx]
        have hr := enumC_range' base (rest.length + 1) (i0 + 1) (by omega)
        refine ⟨by rw [e, hr]; simp, ?_⟩
        intro v' hv'
        cases hv'
        refine ⟨?_, by simp⟩
        intro i hi
        rw [List.mem_range'_1] at hi
        omega
      · simp only [hc, if_false, enumC, hx]
        have hnil : combs (rest.length + 1) (base.drop (i0 + 1)) = [] :=
          combs_nil_of_lt _ _ (by rw [List.length_drop]; omega)
        refine ⟨by rw [e, hnil]; simp, ?_⟩
        intro v' hv'
        cases hv'

def E {α : Type} (c : Idx α) : List (List α) :=
  match c.idx with
  | none => []
  | some v => if v.length > c.base.length then [] else enumC c.base v

def P {α : Type} (c : Idx α) : Prop :=
  ∀ v, c.idx = some v → v.length ≤ c.base.length → ∀ i ∈ v, i < c.base.length

theorem unfolds_E {α : Type} (c : Idx α) (hp : P c) : Unfolds Comb.next c (E c) := by
  obtain ⟨l, hu, _⟩ := CombT.unfolds c
  have : l = E c := by
    refine unfolds_eq_of_equation (next := Comb.next) E P ?_ ?_ c l hp hu
    · intro s _ h
      obtain ⟨base, idx⟩ := s
      cases idx with
      | none => rfl
      | some w =>
        simp only [Comb.next] at h
        split at h
        · rename_i hgt
          simp [E, hgt]
        · cases h
    · intro s v s' hs h
      obtain ⟨base, idx⟩ := s
      cases idx with
      | none => simp [Comb.next] at h
      | some w =>
        simp only [Comb.next] at h
        split at h
        · cases h
        · rename_i hle
          simp only [Option.some.injEq, Prod.mk.injEq] at h
          obtain ⟨rfl, rfl⟩ := h
          have hwf := hs w rfl (Nat.le_of_not_gt hle)
          obtain ⟨e, ewf⟩ := enumC_eq base w hwf
          constructor
          · simp only [E, hle, if_false]
            rw [e]
            cases hsc : Comb.scan w w.length base.length with
            | none => rfl
            | some w' =>
              have := (ewf w' hsc).2
              have hle' : ¬ w'.length > base.length := by omega
              simp [hle']
          · intro v' hv' _
            simp only at hv'
            exact (ewf v' hv').1
  rw [← this]; exact hu

end CombE

/-- **`combinations(xs, k)` enumerates `combs k xs`, in that order**, for every list and every
selection size (also `k > len`: both are empty) -/
theorem combs_enumeration_gen {α : Type} (xs : List α) (k : Nat) :
    Unfolds Comb.next (Comb.mk xs k) (combs k xs) := by
  have h := CombE.unfolds_E (Comb.mk xs k) (by
    intro v hv hle i hi
    simp only [Comb.mk, Option.some.injEq] at hv
    subst hv
    simp only [Comb.mk, List.length_range] at hle
    simp only [Comb.mk]
    rw [List.mem_range] at hi
    omega)
  have e : CombE.E (Comb.mk xs k) = combs k xs := by
    simp only [CombE.E, Comb.mk, List.length_range]
    by_cases hk : k > xs.length
    · simp [hk, CombE.combs_nil_of_lt xs k hk]
    · simp only [hk, if_false]
      have := CombE.enumC_range' xs k 0 (by omega)
      simpa [List.range_eq_range'] using this
  rw [e] at h; exact h

theorem combs_enumeration : combs_enumeration_statement := fun xs k => combs_enumeration_gen xs k

end Noulith.C11
