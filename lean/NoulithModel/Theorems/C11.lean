/-
C11 — Lazy streams are coherent: length, iteration, indexing, slicing, reversal agree.

Layout of the proof (all modules are listed in tools/props.d/C11.json and audited):
* `C11Iter`  — generic: `Unfolds next s l` (the Spec's `toList`, as a relation), the loops of the
  `Stream` trait defaults compute Python indexing / slicing / reversal / length of `l`
  (`defaultIndex_eq`, `defaultSlice_eq`, `pySlice_spec`, …); `Coherent o s l` = every trait method
  answers what the list answers; the consumers (`len`, `list`, index, slice, `reverse`, `first`,
  `last`, `in`, truthiness, unpacking with and without splat, take-while, drop-while) on a coherent
  stream equal the list operation (`len_eq` … `dropWhile_eq`).
* `C11Types` — `range_coherent` (every start/end, every non-zero step of either sign, any
  magnitude, closed form = arithmetic progression), `wrapped_coherent`, `subseq_coherent`,
  `cpow_coherent`, `comb_coherent`, the F3 refutation.
* `C11Adapt` — `map_coherent`, `filter_coherent`, `zip_coherent` over hereditarily finite inner
  streams, every drop position (`UnfoldsB.drop`), `mapOut_coherent`.
* `C11Inf`   — `iota`, `repeat`, `cycle`, `iterate`: every non-negative index, every slice with
  non-negative bounds and every drop equals the recurrence; `len = none`.
* `C11Perm`  — Permutations: the `usize` loop equals the closed form (n ≤ 20), the reduction of
  coherence to the successor step lemma.
* `C11PermStep` — the successor step lemma itself (`perm_step`: the scan finds the last ascent and the
  last larger entry; swap + reverse lowers the factorial-number-system rank by one), hence
  `perm_coherent`, `perm_len_is_count`, `perm_unfoldsB`.

* `C11Enum`, `C11EnumPerm` (import this file) — the enumeration order: each stream enumerates exactly the
  Spec's closed form, in that order, for every input length.

This file: the summary statements and the remaining refutations.
-/
import NoulithModel.Theorems.C11Inf
import NoulithModel.Theorems.C11Perm
import NoulithModel.Theorems.C11PermStep

namespace Noulith.C11
open Noulith Noulith.Stream Noulith.StreamSpec

/-! ## the property for one coherent stream value, all observations at once -/

/-- For a stream value `s` that is coherent with the list `l` (which the per-type theorems establish
for every reachable state of every finite stream type): `len(s)` is the number of elements
iteration yields, `list(s)` is `l`, `s[i]` and `s[a:b]` are Python indexing / slicing of `l` for
every index and every pair of bounds, `reverse`, `first`, `last`, `x in s`, truthiness and unpacking
agree with `l`. -/
theorem finite_stream_observations {β : Type} [DecidableEq β] (s : Strm β) (l : List β)
    (h : Coherent s.ops s.st l) :
    s.len = .ok (some l.length) ∧
    s.toList = .ok l ∧
    (∀ i, s.index i = idxRes l i) ∧
    (∀ lo hi, ∃ r, s.slice lo hi = .ok r ∧
      (match r with
       | .inl l' => l' = pySliceSpec l lo hi
       | .inr t => Unfolds t.ops.next t.st (pySliceSpec l lo hi))) ∧
    s.reversed = .ok (.inl l.reverse) ∧
    s.truthy = .ok (!l.isEmpty) ∧
    (∀ a, s.mem a = .ok (decide (a ∈ l))) ∧
    (∀ k, s.unpack k = if k = l.length then .ok l else .throw) ∧
    (∀ p, s.takeWhile p = .ok (l.takeWhile p)) :=
  ⟨len_eq h, toList_eq h, index_eq h, slice_eq h, reversed_eq h, truthy_eq h, mem_eq h,
    unpack_eq h, takeWhile_eq h⟩

/-- non-vacuity: `1 to 5` is coherent with `[1,2,3,4,5]`, so e.g. its slice `[1:3]` is `[2,3]` -/
example : Coherent Range.ops (Range.to 1 5 1) [1, 2, 3, 4, 5] := by
  have := to_coherent 1 5 1 (by decide) (by decide)
  have e : rangeList 1 (if (1 : Int) < 0 then 5 - 1 else 5 + 1) 1 = [1, 2, 3, 4, 5] := by decide
  rw [e] at this
  exact this

/-- observation purity in the model: an observation is a function of the stream value and returns
no new value for the variable — `Strm.len`, `toList`, `index`, … take `s` and give a result; the
only operations that return a stream (`slice`, `reversed`, `dropWhile`) return a *new* package and
leave `s` as it is.  That the real interpreter does the same (consumers clone the box unless they
own the only handle) is what the differential run checks on one variable observed repeatedly. -/
theorem observation_returns_same_ops {β : Type} (s : Strm β) (lo hi : Option Int) (t : Strm β)
    (h : s.slice lo hi = .ok (.inr t)) : t.σ = s.σ ∧ HEq t.ops s.ops := by
  unfold Strm.slice R.map R.bind at h
  cases hs : s.ops.slice s.st lo hi with
  | ok r =>
    rw [hs] at h
    cases r with
    | list l => simp [Strm.ofSlice] at h
    | strm st =>
      simp only [Strm.ofSlice, R.ok.injEq, Sum.inr.injEq] at h
      subst h
      exact ⟨rfl, HEq.rfl⟩
  | throw => rw [hs] at h; cases h
  | panic => rw [hs] at h; cases h
  | diverge => rw [hs] at h; cases h

/-! ## refutations of the pre-fix code -/

/-- F21: before the fix `[] ^^ 0` was the empty stream although the empty product has one element,
the empty tuple; the fixed constructor yields exactly it -/
theorem cpow_empty_zero :
    Unfolds CPow.next (CPow.mkPreFix ([] : List Nat) 0) [] ∧
    tuples ([] : List Nat) 0 = [[]] ∧
    Unfolds CPow.next (CPow.mk ([] : List Nat) 0) [[]] := by
  refine ⟨.done rfl, rfl, .step rfl (.done rfl)⟩

/-- F14: with the loop bound `v.len() - 1` of the original code the scan of an empty index vector
would run `0..usize::MAX`; with `saturating_sub` it does not run, and `permutations([])` is the
one empty permutation -/
theorem perm_empty : Unfolds Perm.next (Perm.mk ([] : List Nat)) [[]] :=
  .step rfl (.done rfl)

/-! ## the enumeration-order statements (proved in C11Enum.lean: `subseqs_enumeration`,
`tuples_enumeration`, `combs_enumeration`, and C11EnumPerm.lean: `perms_enumeration`) -/

/-- enumeration order: `permutations(xs)` yields the permutations in lexicographic order of positions -/
def perms_enumeration_statement : Prop :=
  ∀ (xs : List Nat), Unfolds Perm.next (Perm.mk xs) (lexPerms xs)

/-- enumeration order: `combinations(xs, k)` yields the `k`-sublists in lexicographic order of positions -/
def combs_enumeration_statement : Prop :=
  ∀ (xs : List Nat) (k : Nat), Unfolds Comb.next (Comb.mk xs k) (combs k xs)

/-- enumeration order: `subsequences(xs)` yields all sublists in binary-counter order -/
def subseqs_enumeration_statement : Prop :=
  ∀ (xs : List Nat), Unfolds Subseq.next (Subseq.mk xs) (subseqs xs)

/-- enumeration order: `xs ^^ k` yields the `k`-tuples in lexicographic order -/
def tuples_enumeration_statement : Prop :=
  ∀ (xs : List Nat) (k : Nat), Unfolds CPow.next (CPow.mk xs k) (tuples xs k)

end Noulith.C11
