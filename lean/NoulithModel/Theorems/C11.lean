/-
C11 — Lazy streams are coherent: length, iteration, indexing, slicing, reversal agree.
(first version; extended below)
-/
import NoulithModel.Spec.StreamSpec

namespace Noulith.C11
open Noulith Noulith.Stream Noulith.StreamSpec

/-- F3 witness: the `Sign::Minus` arm before the fix reports 0 for `10 til 0 by (-3)` -/
theorem range_len_prefix_refuted :
    Range.lenPreFix (Range.til 10 0 (-3)) = some 0 ∧
    collect Range.next 10 (Range.til 10 0 (-3)) = some [10, 7, 4, 1] := by
  decide

end Noulith.C11
