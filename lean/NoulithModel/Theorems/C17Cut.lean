/-
C17 (supplement, stage 2) — "cutting" the store: `cut n st` empties every frame older than `n` (keeping
the parent links).  Evaluation that only touches variables with a declaration in a frame `≥ n` on its scope
chain commutes with `cut n`; this file has the commutation lemmas for the store operations.
-/
import NoulithModel.Theorems.C17PreserveEval

namespace Noulith.C17Cut
open Noulith Noulith.Core Noulith.C17Frames

def cutFrame (n i : Nat) (fr : Frame) : Frame := if i < n then { fr with vars := [], tys := [] } else fr

def cutF (n : Nat) (fs : Array Frame) : Array Frame := fs.mapIdx (cutFrame n)

/-- forget the contents of every frame older than `n` -/
def cut (n : Nat) (st : State) : State := { st with frames := cutF n st.frames }

theorem cutF_size (n : Nat) (fs : Array Frame) : (cutF n fs).size = fs.size := by simp [cutF]

theorem cutF_get (n : Nat) (fs : Array Frame) (i : Nat) : (cutF n fs)[i]? = fs[i]?.map (cutFrame n i) := by
  simp [cutF]

theorem cutF_get_new (n : Nat) (fs : Array Frame) (i : Nat) (h : n ≤ i) : (cutF n fs)[i]? = fs[i]? := by
  rw [cutF_get]
  have : ¬ i < n := by omega
  cases fs[i]? <;> simp [cutFrame, this]

theorem cutF_push (n : Nat) (fs : Array Frame) (fr : Frame) (h : n ≤ fs.size) :
    cutF n (fs.push fr) = (cutF n fs).push fr := by
  have : ¬ fs.size < n := by omega
  simp [cutF, Array.mapIdx_push, cutFrame, this]

theorem cutF_set (n : Nat) (fs : Array Frame) (j : Nat) (fr : Frame) (h : n ≤ j) :
    cutF n (fs.setIfInBounds j fr) = (cutF n fs).setIfInBounds j fr := by
  apply Array.ext_getElem?
  intro i
  have hj : ¬ j < n := by omega
  rw [cutF_get, Array.getElem?_setIfInBounds, Array.getElem?_setIfInBounds, cutF_size]
  by_cases hji : j = i
  · subst hji
    by_cases hlt : j < fs.size
    · simp [hlt, cutFrame, hj]
    · have : fs[j]? = none := Array.getElem?_eq_none (by omega)
      simp [hlt, this]
  · simp [hji, cutF_get]

theorem newFrame_cut (n : Nat) (st : State) (env : Nat) (h : n ≤ st.frames.size) :
    newFrame (cut n st) env = (cut n (newFrame st env).1, (newFrame st env).2) := by
  simp only [newFrame, cut, cutF_push n st.frames _ h, cutF_size]

/-- a name with a declaration in a frame `≥ n` on the chain is found without looking at the cut frames -/
theorem lookupVar_cut (n : Nat) (fs : Array Frame) (hwf : WFf fs) (x : String) :
    ∀ (fuel env : Nat), DeclAbove fs env n x → lookupVar (cutF n fs) fuel env x = lookupVar fs fuel env x := by
  intro fuel
  induction fuel with
  | zero => intro env _; rfl
  | succ k ih =>
    intro env hd
    obtain ⟨i, fri, hc, hni, hfri, hdi⟩ := hd
    have hge : n ≤ env := Nat.le_trans hni (hc.le hwf)
    unfold lookupVar
    rw [cutF_get_new n fs env hge]
    cases hc with
    | here =>
      rw [hfri]
      dsimp only
      cases hl : lookupIn fri.vars x with
      | some v => rfl
      | none => simp [hl] at hdi
    | up hfr hp hc' =>
      rename_i p fr
      rw [hfr]
      dsimp only
      cases lookupIn fr.vars x with
      | some v => rfl
      | none => simp only [hp]; exact ih p ⟨i, fri, hc', hni, hfri, hdi⟩

theorem assignVar_cut (n : Nat) (fs : Array Frame) (hwf : WFf fs) (x : String) (v : Val) :
    ∀ (fuel env : Nat), DeclAbove fs env n x →
      assignVar (cutF n fs) fuel env x v = (assignVar fs fuel env x v).map (cutF n) := by
  intro fuel
  induction fuel with
  | zero => intro env _; rfl
  | succ k ih =>
    intro env hd
    obtain ⟨i, fri, hc, hni, hfri, hdi⟩ := hd
    have hge : n ≤ env := Nat.le_trans hni (hc.le hwf)
    unfold assignVar
    rw [cutF_get_new n fs env hge]
    cases hc with
    | here =>
      rw [hfri]
      dsimp only
      cases hl : lookupIn fri.vars x with
      | some w =>
        dsimp only
        split
        · simp only [Option.map_some, cutF_set n fs env _ hge]
        · rfl
      | none => simp [hl] at hdi
    | up hfr hp hc' =>
      rename_i p fr
      rw [hfr]
      dsimp only
      cases lookupIn fr.vars x with
      | some w =>
        dsimp only
        split
        · simp only [Option.map_some, cutF_set n fs env _ hge]
        · rfl
      | none => simp only [hp]; exact ih p ⟨i, fri, hc', hni, hfri, hdi⟩

theorem dropVar_cut (n : Nat) (fs : Array Frame) (hwf : WFf fs) (x : String) :
    ∀ (fuel env : Nat), DeclAbove fs env n x →
      dropVar (cutF n fs) fuel env x = (dropVar fs fuel env x).map (cutF n) := by
  intro fuel
  induction fuel with
  | zero => intro env _; rfl
  | succ k ih =>
    intro env hd
    obtain ⟨i, fri, hc, hni, hfri, hdi⟩ := hd
    have hge : n ≤ env := Nat.le_trans hni (hc.le hwf)
    unfold dropVar
    rw [cutF_get_new n fs env hge]
    cases hc with
    | here =>
      rw [hfri]
      dsimp only
      cases hl : lookupIn fri.vars x with
      | some w => simp only [Option.map_some, cutF_set n fs env _ hge]
      | none => simp [hl] at hdi
    | up hfr hp hc' =>
      rename_i p fr
      rw [hfr]
      dsimp only
      cases lookupIn fr.vars x with
      | some w => simp only [Option.map_some, cutF_set n fs env _ hge]
      | none => simp only [hp]; exact ih p ⟨i, fri, hc', hni, hfri, hdi⟩

theorem declareVar_cut (n : Nat) (fs : Array Frame) (env : Nat) (hge : n ≤ env) (x : String) (v : Val) :
    declareVar (cutF n fs) env x v = (declareVar fs env x v).map (cutF n) := by
  unfold declareVar
  rw [cutF_get_new n fs env hge]
  cases fs[env]? with
  | none => rfl
  | some fr =>
    dsimp only
    cases lookupIn fr.vars x with
    | some w => rfl
    | none => simp only [Option.map_some, cutF_set n fs env _ hge]

theorem cut_frames (n : Nat) (st : State) : (cut n st).frames = cutF n st.frames := rfl

theorem declarePat_go_cut (n fuel env : Nat) (hge : n ≤ env)
    (ih : ∀ st p v, declarePat fuel (cut n st) env p v =
      ((declarePat fuel st env p v).1, cut n (declarePat fuel st env p v).2)) :
    ∀ (ps : List Pat) (vs : List Val) (st : State),
      declarePat.go env fuel (cut n st) ps vs =
        ((declarePat.go env fuel st ps vs).1, cut n (declarePat.go env fuel st ps vs).2) := by
  intro ps
  induction ps with
  | nil => intro vs st; cases vs <;> simp only [declarePat.go]
  | cons p ps ihps =>
    intro vs st
    cases vs with
    | nil => simp only [declarePat.go]
    | cons v vs =>
      simp only [declarePat.go, ih st p v]
      rcases declarePat fuel st env p v with ⟨ok, st1⟩
      cases ok with
      | true => exact ihps vs st1
      | false => rfl

theorem declarePat_cut (n env : Nat) (hge : n ≤ env) : ∀ (fuel : Nat) (st : State) (p : Pat) (v : Val),
    declarePat fuel (cut n st) env p v =
      ((declarePat fuel st env p v).1, cut n (declarePat fuel st env p v).2) := by
  intro fuel
  induction fuel with
  | zero => intro st p v; simp only [declarePat]
  | succ k ih =>
    intro st p v
    cases p with
    | underscore => simp only [declarePat]
    | lit m => simp only [declarePat]; cases v <;> rfl
    | ident x =>
      simp only [declarePat, cut_frames, declareVar_cut n st.frames env hge x v]
      cases declareVar st.frames env x v with
      | none => rfl
      | some fs => rfl
    | seq ps =>
      simp only [declarePat]
      cases v with
      | list vs =>
        dsimp only
        split
        · rfl
        · exact declarePat_go_cut n k env hge ih ps vs st
      | _ => rfl


def cutR (n : Nat) (r : Res × State) : Res × State := (r.1, cut n r.2)

/-- the builtins of the vocabulary do not look at the frames -/
theorem callVal_builtin_cut (n fuel : Nat) (st : State) (env : Nat) (f : String) (args : List Val) :
    callVal fuel (cut n st) env (.builtin f) args = cutR n (callVal fuel st env (.builtin f) args) := by
  cases fuel with
  | zero => simp only [callVal, cutR]
  | succ k =>
    unfold cutR
    rw [callVal.eq_def, callVal.eq_def]
    simp only []
    split
    · rename_i h; exact absurd h (by simp)
    all_goals first
      | rfl
      | (split <;> first | rfl | (split <;> first | rfl | (split <;> rfl)))


open Noulith.C17Preserve in
theorem finishDict_cut (n : Nat) : ∀ (k : Nat) (st : State) (env : Nat) (post : Option Val)
    (d : List (Val × (Cata ⊕ Val))) (done : List (Val × Val)), PostFn post →
    finishDict k (cut n st) env post d done = cutR n (finishDict k st env post d done) := by
  intro k
  induction k with
  | zero => intro st env post d done _; simp only [finishDict, cutR]
  | succ j ih =>
    intro st env post d done hpf
    cases d with
    | nil => simp only [finishDict, cutR]
    | cons kv rest =>
      obtain ⟨key, c⟩ := kv
      cases c with
      | inr v => simp only [finishDict]; exact ih st env post rest _ hpf
      | inl c0 =>
        simp only [finishDict]
        cases c0.finish with
        | raise => rfl
        | ok v =>
          dsimp only
          rcases hpf with rfl | ⟨f, rfl⟩
          · exact ih st env none rest _ (Or.inl rfl)
          · dsimp only
            rw [callVal_builtin_cut]
            rcases callVal j st env (.builtin f) [v] with ⟨rc, st1⟩
            cases rc with
            | val v' => exact ih st1 env (some (.builtin f)) rest _ (Or.inr ⟨f, rfl⟩)
            | _ => rfl


end Noulith.C17Cut
