/-
C17 (supplement, stage 3) — the induction behind `unfreeze_commutes` (statements: Theorems/C17Closures.lean).
-/
import NoulithModel.Theorems.C17Closures

namespace Noulith.C17Closures
open Noulith Noulith.Core Noulith.C17Closed Noulith.C17Frames Noulith.C17Unfreeze
open Noulith.C17Insensitive (builtinAt localInto builtinAt_get)
open Noulith.C17Main (plainParams callState callFrame absorb callVal_plain)
open Noulith.C17Preserve (PostFn eval_ident_lookOf)

variable {Fn F : List String} {T : List Val} {look : String → Option Val} {n : Nat} {N : Nat → Option String}

syntax "eq3" : tactic
macro_rules
  | `(tactic| eq3) => `(tactic| first | trivial | rfl)

theorem lookOf_U_data (st : State) (env : Nat) {y : String} (hy : y ∉ Fn) :
    lookOf (US Fn N st) env y = lookOf st env y := by
  simp only [lookOf, lookup_U]
  cases st.lookup env y with
  | none => rfl
  | some v => simp only [Option.map_some, UVal_data hy]

theorem e3_ident {k : Nat} {x : String} {st : State} {env : Nat}
    (hok : okC Fn F T (.ident x) = true) (j : J Fn F T look n st) :
    eval (k + 1) (US Fn N st) env (unfz N (.ident x)) = usR Fn N (eval (k + 1) st env (.ident x)) ∧
      Q Fn F T look n st (eval (k + 1) st env (.ident x)).2 := by
  simp only [okC] at hok
  have hx := dataName_iff hok
  simp only [unfz, eval_ident_lookOf, lookOf_U_data st env hx.1, usR]
  exact ⟨by eq3, Q.refl j⟩

theorem e3_frozen {k : Nat} (hy : Hyp Fn F T look N) {i : Nat} {st : State} {env : Nat}
    (j : J Fn F T look n st) (hge : n ≤ env) (hlt : env < st.frames.size) :
    eval (k + 1) (US Fn N st) env (unfz N (.frozen i)) = usR Fn N (eval (k + 1) st env (.frozen i)) ∧
      Q Fn F T look n st (eval (k + 1) st env (.frozen i)).2 := by
  simp only [unfz]
  cases hN : N i with
  | none =>
    dsimp only
    have : (US Fn N st).frozenTab = st.frozenTab := rfl
    simp only [eval, this, usR]
    cases st.frozenTab[i]? <;> exact ⟨by eq3, Q.refl j⟩
  | some x =>
    dsimp only
    obtain ⟨hxF, v, hTv, hlv⟩ := hy.names i x hN
    have hget : st.frozenTab[i]? = some v := by
      obtain ⟨extra, hx⟩ := j.tab
      rw [← hx, List.getElem?_append_left]
      · exact hTv
      · rcases Nat.lt_or_ge i T.length with hl | hl
        · exact hl
        · rw [List.getElem?_eq_none hl] at hTv; exact absurd hTv (by simp)
    rw [eval_ident_lookOf, lookOf_U_data st env (hy.disj x hxF), j.agree env hge hlt x hxF, hlv]
    simp only [eval, hget, usR]
    exact ⟨by eq3, Q.refl j⟩

theorem e3_op {k : Nat} (ih : Pres3 Fn F T look n N k) {name : String} {a b : Expr} {st : State} {env : Nat}
    (hok : okC Fn F T (.op name a b) = true) (j : J Fn F T look n st) (hge : n ≤ env) (hlt : env < st.frames.size) :
    eval (k + 1) (US Fn N st) env (unfz N (.op name a b)) = usR Fn N (eval (k + 1) st env (.op name a b)) ∧
      Q Fn F T look n st (eval (k + 1) st env (.op name a b)).2 := by
  simp only [okC, Bool.and_eq_true] at hok
  obtain ⟨ea, qa⟩ := ih.ev a st env hok.1 j hge hlt
  simp only [unfz, eval, ea]
  rcases hra : eval k st env a with ⟨ra, st1⟩
  rw [hra] at qa
  simp only [usR]
  cases ra with
  | val va =>
    obtain ⟨eb, qb⟩ := ih.ev b st1 env hok.2 qa.1 hge (qa.lt hlt)
    simp only [eb]
    rcases hrb : eval k st1 env b with ⟨rb, st2⟩
    rw [hrb] at qb
    simp only [usR]
    cases rb with
    | val vb => dsimp only; cases applyOp name va vb <;> exact ⟨by eq3, qa.trans qb⟩
    | _ => exact ⟨by eq3, qa.trans qb⟩
  | _ => exact ⟨by eq3, qa⟩

theorem e3_index {k : Nat} (ih : Pres3 Fn F T look n N k) {a b : Expr} {st : State} {env : Nat}
    (hok : okC Fn F T (.index a b) = true) (j : J Fn F T look n st) (hge : n ≤ env) (hlt : env < st.frames.size) :
    eval (k + 1) (US Fn N st) env (unfz N (.index a b)) = usR Fn N (eval (k + 1) st env (.index a b)) ∧
      Q Fn F T look n st (eval (k + 1) st env (.index a b)).2 := by
  simp only [okC, Bool.and_eq_true] at hok
  obtain ⟨ea, qa⟩ := ih.ev a st env hok.1 j hge hlt
  simp only [unfz, eval, ea]
  rcases hra : eval k st env a with ⟨ra, st1⟩
  rw [hra] at qa
  simp only [usR]
  cases ra with
  | val va =>
    obtain ⟨eb, qb⟩ := ih.ev b st1 env hok.2 qa.1 hge (qa.lt hlt)
    simp only [eb]
    rcases hrb : eval k st1 env b with ⟨rb, st2⟩
    rw [hrb] at qb
    simp only [usR]
    cases rb with
    | val vb => dsimp only; cases indexVal va vb <;> exact ⟨by eq3, qa.trans qb⟩
    | _ => exact ⟨by eq3, qa.trans qb⟩
  | _ => exact ⟨by eq3, qa⟩

theorem e3_and {k : Nat} (ih : Pres3 Fn F T look n N k) {a b : Expr} {st : State} {env : Nat}
    (hok : okC Fn F T (.and_ a b) = true) (j : J Fn F T look n st) (hge : n ≤ env) (hlt : env < st.frames.size) :
    eval (k + 1) (US Fn N st) env (unfz N (.and_ a b)) = usR Fn N (eval (k + 1) st env (.and_ a b)) ∧
      Q Fn F T look n st (eval (k + 1) st env (.and_ a b)).2 := by
  simp only [okC, Bool.and_eq_true] at hok
  obtain ⟨ea, qa⟩ := ih.ev a st env hok.1 j hge hlt
  simp only [unfz, eval, ea]
  rcases hra : eval k st env a with ⟨ra, st1⟩
  rw [hra] at qa
  simp only [usR]
  cases ra with
  | val va =>
    dsimp only
    cases va.truthy with
    | false => exact ⟨by simp, qa⟩
    | true =>
      obtain ⟨eb, qb⟩ := ih.ev b st1 env hok.2 qa.1 hge (qa.lt hlt)
      simp only [↓reduceIte, eb, usR]
      exact ⟨by eq3, qa.trans qb⟩
  | _ => exact ⟨by eq3, qa⟩

theorem e3_or {k : Nat} (ih : Pres3 Fn F T look n N k) {a b : Expr} {st : State} {env : Nat}
    (hok : okC Fn F T (.or_ a b) = true) (j : J Fn F T look n st) (hge : n ≤ env) (hlt : env < st.frames.size) :
    eval (k + 1) (US Fn N st) env (unfz N (.or_ a b)) = usR Fn N (eval (k + 1) st env (.or_ a b)) ∧
      Q Fn F T look n st (eval (k + 1) st env (.or_ a b)).2 := by
  simp only [okC, Bool.and_eq_true] at hok
  obtain ⟨ea, qa⟩ := ih.ev a st env hok.1 j hge hlt
  simp only [unfz, eval, ea]
  rcases hra : eval k st env a with ⟨ra, st1⟩
  rw [hra] at qa
  simp only [usR]
  cases ra with
  | val va =>
    dsimp only
    cases va.truthy with
    | true => exact ⟨by simp, qa⟩
    | false =>
      obtain ⟨eb, qb⟩ := ih.ev b st1 env hok.2 qa.1 hge (qa.lt hlt)
      simp only [Bool.false_eq_true, ↓reduceIte, eb, usR]
      exact ⟨by eq3, qa.trans qb⟩
  | _ => exact ⟨by eq3, qa⟩

theorem e3_coalesce {k : Nat} (ih : Pres3 Fn F T look n N k) {a b : Expr} {st : State} {env : Nat}
    (hok : okC Fn F T (.coalesce a b) = true) (j : J Fn F T look n st) (hge : n ≤ env) (hlt : env < st.frames.size) :
    eval (k + 1) (US Fn N st) env (unfz N (.coalesce a b)) = usR Fn N (eval (k + 1) st env (.coalesce a b)) ∧
      Q Fn F T look n st (eval (k + 1) st env (.coalesce a b)).2 := by
  simp only [okC, Bool.and_eq_true] at hok
  obtain ⟨ea, qa⟩ := ih.ev a st env hok.1 j hge hlt
  simp only [unfz, eval, ea]
  rcases hra : eval k st env a with ⟨ra, st1⟩
  rw [hra] at qa
  simp only [usR]
  cases ra with
  | val va =>
    obtain ⟨eb, qb⟩ := ih.ev b st1 env hok.2 qa.1 hge (qa.lt hlt)
    cases va with
    | null => simp only [eb, usR]; exact ⟨by eq3, qa.trans qb⟩
    | _ => exact ⟨by eq3, qa⟩
  | _ => exact ⟨by eq3, qa⟩

theorem e3_ite {k : Nat} (ih : Pres3 Fn F T look n N k) {c t : Expr} {e : Option Expr} {st : State} {env : Nat}
    (hok : okC Fn F T (.ite c t e) = true) (j : J Fn F T look n st) (hge : n ≤ env) (hlt : env < st.frames.size) :
    eval (k + 1) (US Fn N st) env (unfz N (.ite c t e)) = usR Fn N (eval (k + 1) st env (.ite c t e)) ∧
      Q Fn F T look n st (eval (k + 1) st env (.ite c t e)).2 := by
  simp only [okC, Bool.and_eq_true] at hok
  obtain ⟨⟨hc, ht⟩, he⟩ := hok
  obtain ⟨ec, qc⟩ := ih.ev c st env hc j hge hlt
  simp only [unfz, eval, ec]
  rcases hrc : eval k st env c with ⟨rc, st1⟩
  rw [hrc] at qc
  simp only [usR]
  cases rc with
  | val vc =>
    dsimp only
    cases vc.truthy with
    | true =>
      obtain ⟨et, qt⟩ := ih.ev t st1 env ht qc.1 hge (qc.lt hlt)
      simp only [↓reduceIte, et, usR]
      exact ⟨by eq3, qc.trans qt⟩
    | false =>
      simp only [Bool.false_eq_true, ↓reduceIte]
      cases e with
      | none => simp only [unfzO]; exact ⟨by eq3, qc⟩
      | some e1 =>
        simp only [okCO] at he
        obtain ⟨ee, qe⟩ := ih.ev e1 st1 env he qc.1 hge (qc.lt hlt)
        simp only [unfzO, ee, usR]
        exact ⟨by eq3, qc.trans qe⟩
  | _ => exact ⟨by eq3, qc⟩

theorem l3_step {k : Nat} (ih : Pres3 Fn F T look n N k) : CL3 Fn F T look n N (k + 1) := by
  intro es st env hok j hge hlt
  cases es with
  | nil => simp only [unfzL, evalList, usRL]; exact ⟨by eq3, Q.refl j⟩
  | cons x xs =>
    simp only [okCL, Bool.and_eq_true] at hok
    obtain ⟨ex, qx⟩ := ih.ev x st env hok.1 j hge hlt
    simp only [unfzL, evalList, ex]
    rcases hrx : eval k st env x with ⟨rx, st1⟩
    rw [hrx] at qx
    simp only [usR]
    cases rx with
    | val v =>
      obtain ⟨el, ql⟩ := ih.evList xs st1 env hok.2 qx.1 hge (qx.lt hlt)
      simp only [el]
      rcases hrl : evalList k st1 env xs with ⟨rl, st2⟩
      rw [hrl] at ql
      simp only [usRL]
      cases rl <;> exact ⟨by eq3, qx.trans ql⟩
    | _ => exact ⟨by eq3, qx⟩

theorem s3_step {k : Nat} (ih : Pres3 Fn F T look n N k) : CS3 Fn F T look n N (k + 1) := by
  intro es st env hok j hge hlt
  cases es with
  | nil => simp only [unfzL, evalSeq, usR]; exact ⟨by eq3, Q.refl j⟩
  | cons x xs =>
    simp only [okCL, Bool.and_eq_true] at hok
    obtain ⟨ex, qx⟩ := ih.ev x st env hok.1 j hge hlt
    cases xs with
    | nil => simp only [unfzL, evalSeq, ex]; exact ⟨by eq3, qx⟩
    | cons y ys =>
      simp only [unfzL, evalSeq, ex]
      rcases hrx : eval k st env x with ⟨rx, st1⟩
      rw [hrx] at qx
      simp only [usR]
      cases rx with
      | val v =>
        have := ih.evSeq (y :: ys) st1 env hok.2 qx.1 hge (qx.lt hlt)
        simp only [unfzL] at this
        obtain ⟨el, ql⟩ := this
        simp only [el, usR]
        exact ⟨by eq3, qx.trans ql⟩
      | _ => exact ⟨by eq3, qx⟩

theorem e3_list {k : Nat} (ih : Pres3 Fn F T look n N k) {xs : List Expr} {st : State} {env : Nat}
    (hok : okC Fn F T (.list xs) = true) (j : J Fn F T look n st) (hge : n ≤ env) (hlt : env < st.frames.size) :
    eval (k + 1) (US Fn N st) env (unfz N (.list xs)) = usR Fn N (eval (k + 1) st env (.list xs)) ∧
      Q Fn F T look n st (eval (k + 1) st env (.list xs)).2 := by
  simp only [okC] at hok
  obtain ⟨el, ql⟩ := ih.evList xs st env hok j hge hlt
  simp only [unfz, eval, el]
  rcases hrl : evalList k st env xs with ⟨rl, st1⟩
  rw [hrl] at ql
  simp only [usRL, usR]
  cases rl <;> exact ⟨by eq3, ql⟩

theorem e3_seq {k : Nat} (ih : Pres3 Fn F T look n N k) {xs : List Expr} {semi : Bool} {st : State} {env : Nat}
    (hok : okC Fn F T (.seq xs semi) = true) (j : J Fn F T look n st) (hge : n ≤ env) (hlt : env < st.frames.size) :
    eval (k + 1) (US Fn N st) env (unfz N (.seq xs semi)) = usR Fn N (eval (k + 1) st env (.seq xs semi)) ∧
      Q Fn F T look n st (eval (k + 1) st env (.seq xs semi)).2 := by
  simp only [okC] at hok
  obtain ⟨el, ql⟩ := ih.evSeq xs st env hok j hge hlt
  simp only [unfz, eval, el]
  rcases hrl : evalSeq k st env xs with ⟨rl, st1⟩
  rw [hrl] at ql
  simp only [usR]
  cases rl <;> exact ⟨by eq3, ql⟩

theorem plain_of_all {ps : List Param} (h : ps.all isPlain = true) : ps = plainParams (ps.map Param.name) := by
  induction ps with
  | nil => rfl
  | cons p rest ih =>
    simp only [List.all_cons, Bool.and_eq_true] at h
    obtain ⟨h1, h2⟩ := h
    obtain ⟨x, d, sp, a⟩ := p
    cases d <;> cases sp <;> cases a <;> simp [isPlain] at h1
    have := ih h2
    simp only [plainParams, List.map_cons, Param.name, List.cons.injEq, true_and] at this ⊢
    exact this

/-- a declaration whose right-hand side is not a lambda is a data declaration -/
theorem okC_declare_data {p : Pat} {rhs : Expr} (hrhs : ∀ ps b, rhs ≠ .lambda ps b)
    (hok : okC Fn F T (.declare p rhs) = true) :
    dataNames Fn F (Pat.idents p) = true ∧ okC Fn F T rhs = true := by
  unfold okC at hok
  split at hok
  all_goals first
    | (simp only [Bool.and_eq_true] at hok; exact hok)
    | (rename_i h; cases h; simp only [Bool.and_eq_true] at hok; exact hok)
    | (exfalso; rename_i h; injection h with h1 h2; exact hrhs _ _ h2)
    | (exfalso; simp_all)

theorem e3_declare_data {k : Nat} (ih : Pres3 Fn F T look n N k) {p : Pat} {rhs : Expr} {st : State} {env : Nat}
    (hd : dataNames Fn F (Pat.idents p) = true) (hr : okC Fn F T rhs = true)
    (j : J Fn F T look n st) (hge : n ≤ env) (hlt : env < st.frames.size) :
    eval (k + 1) (US Fn N st) env (.declare p (unfz N rhs)) = usR Fn N (eval (k + 1) st env (.declare p rhs)) ∧
      Q Fn F T look n st (eval (k + 1) st env (.declare p rhs)).2 := by
  obtain ⟨er, qr⟩ := ih.ev rhs st env hr j hge hlt
  simp only [eval, er]
  rcases hrr : eval k st env rhs with ⟨rr, st1⟩
  rw [hrr] at qr
  simp only [usR]
  cases rr with
  | val v =>
    dsimp only
    rw [declarePat_U env _ st1 p v (fun x hx => (dataNames_mem hd hx).1)]
    have jd : J Fn F T look n (declarePat (patDepth p + 1) st1 env p v).2 := qr.1.declare hd
    have hsz : st1.frames.size = (declarePat (patDepth p + 1) st1 env p v).2.frames.size :=
      ((declarePat_step (patDepth p + 1) st1 env p v).1.size).symm
    rcases hdp : declarePat (patDepth p + 1) st1 env p v with ⟨ok, st2⟩
    rw [hdp] at jd hsz
    cases ok <;> exact ⟨by eq3, ⟨jd, by rw [← hsz]; exact qr.2⟩⟩
  | _ => exact ⟨by eq3, qr⟩

theorem e3_declare_fn {k : Nat} {f : String} {ps : List Param} {body : Expr} {st : State} {env : Nat}
    (hok : okC Fn F T (.declare (.ident f) (.lambda ps body)) = true)
    (j : J Fn F T look n st) (hge : n ≤ env) (hlt : env < st.frames.size) :
    eval (k + 1) (US Fn N st) env (unfz N (.declare (.ident f) (.lambda ps body))) =
        usR Fn N (eval (k + 1) st env (.declare (.ident f) (.lambda ps body))) ∧
      Q Fn F T look n st (eval (k + 1) st env (.declare (.ident f) (.lambda ps body))).2 := by
  simp only [okC, Bool.and_eq_true, Bool.not_eq_true', List.contains_eq_mem, decide_eq_true_eq,
    decide_eq_false_iff_not] at hok
  obtain ⟨⟨⟨⟨hf, hfF⟩, hplain⟩, hdn⟩, hb⟩ := hok
  cases k with
  | zero => simp only [unfz, eval, usR]; exact ⟨by eq3, Q.refl j⟩
  | succ m =>
    have hdf := declareFn_U (Fn := Fn) (N := N) env 1 st f hf (.closure ps body env)
    simp only [unfz, eval, patDepth, usR]
    simp only [Uclos] at hdf
    rw [hdf]
    simp only [declarePat]
    cases hdv : declareVar st.frames env f (.closure ps body env) with
    | none => exact ⟨by eq3, Q.refl j⟩
    | some fs =>
      have hg : GoodClos Fn F T n st.frames.size (.closure ps body env) :=
        ⟨ps.map Param.name, body, env, by rw [← plain_of_all hplain], hb, hdn, hge, hlt⟩
      refine ⟨by eq3, j.declareFn hdv hf hfF hg, ?_⟩
      have := (declareVar_step hdv).1.size
      show st.frames.size ≤ fs.size
      omega

theorem e3_assign {k : Nat} (ih : Pres3 Fn F T look n N k) {x : String} {rhs : Expr} {st : State} {env : Nat}
    (hok : okC Fn F T (.assign x rhs) = true) (j : J Fn F T look n st) (hge : n ≤ env) (hlt : env < st.frames.size) :
    eval (k + 1) (US Fn N st) env (unfz N (.assign x rhs)) = usR Fn N (eval (k + 1) st env (.assign x rhs)) ∧
      Q Fn F T look n st (eval (k + 1) st env (.assign x rhs)).2 := by
  simp only [okC, Bool.and_eq_true] at hok
  have hx := dataName_iff hok.1
  obtain ⟨er, qr⟩ := ih.ev rhs st env hok.2 j hge hlt
  simp only [unfz, eval, er]
  rcases hrr : eval k st env rhs with ⟨rr, st1⟩
  rw [hrr] at qr
  simp only [usR]
  cases rr with
  | val v =>
    dsimp only
    have ha := assignVar_U (Fn := Fn) (N := N) st1.frames x v (st1.frames.size + 1) env
    rw [UVal_data hx.1] at ha
    simp only [US_frames, USF_size, ha]
    cases hav : assignVar st1.frames (st1.frames.size + 1) env x v with
    | some fs =>
      have ws := assignVar_step st1.frames qr.1.wf x v _ env fs hav
      exact ⟨by eq3, qr.1.write ws hx, by show st.frames.size ≤ fs.size; rw [ws.size]; exact qr.2⟩
    | none => exact ⟨by eq3, qr⟩
  | _ => exact ⟨by eq3, qr⟩

theorem e3_opassign {k : Nat} (ih : Pres3 Fn F T look n N k) {x opn : String} {rhs : Expr} {st : State} {env : Nat}
    (hok : okC Fn F T (.opassign x opn rhs) = true) (j : J Fn F T look n st) (hge : n ≤ env)
    (hlt : env < st.frames.size) :
    eval (k + 1) (US Fn N st) env (unfz N (.opassign x opn rhs)) =
        usR Fn N (eval (k + 1) st env (.opassign x opn rhs)) ∧
      Q Fn F T look n st (eval (k + 1) st env (.opassign x opn rhs)).2 := by
  simp only [okC, Bool.and_eq_true] at hok
  have hx := dataName_iff hok.1
  obtain ⟨er, qr⟩ := ih.ev rhs st env hok.2 j hge hlt
  have hlk : (US Fn N st).lookup env x = st.lookup env x := by
    rw [lookup_U]; cases st.lookup env x with
    | none => rfl
    | some v => simp only [Option.map_some, UVal_data hx.1]
  simp only [unfz, eval, er, hlk]
  cases st.lookup env x with
  | none => exact ⟨by eq3, Q.refl j⟩
  | some old =>
    dsimp only
    rcases hrr : eval k st env rhs with ⟨rr, st1⟩
    rw [hrr] at qr
    simp only [usR]
    cases rr with
    | val v =>
      dsimp only
      simp only [US_frames, USF_size, dropVar_U]
      cases hdv : dropVar st1.frames (st1.frames.size + 1) env x with
      | none => exact ⟨by eq3, qr⟩
      | some fs =>
        have wd := dropVar_step st1.frames qr.1.wf x _ env fs hdv
        have jd : J Fn F T look n { st1 with frames := fs } := qr.1.write wd hx
        have hsz : st.frames.size ≤ fs.size := by rw [wd.size]; exact qr.2
        simp only [Option.map_some]
        cases applyOp opn old v with
        | raise => exact ⟨by eq3, jd, hsz⟩
        | ok nv =>
          dsimp only
          have ha := assignVar_U (Fn := Fn) (N := N) fs x nv (fs.size + 1) env
          rw [UVal_data hx.1] at ha
          simp only [USF_size, ha]
          cases hav : assignVar fs (fs.size + 1) env x nv with
          | none => exact ⟨by eq3, jd, hsz⟩
          | some fs2 =>
            have ws := assignVar_step fs jd.wf x nv _ env fs2 hav
            have j2 : J Fn F T look n { st1 with frames := fs2 } := jd.write (st := { st1 with frames := fs }) ws hx
            exact ⟨by eq3, j2, by show st.frames.size ≤ fs2.size; rw [ws.size]; exact hsz⟩
    | _ => exact ⟨by eq3, qr⟩

theorem e3_brk {k : Nat} (ih : Pres3 Fn F T look n N k) {m : Nat} {e : Option Expr} {st : State} {env : Nat}
    (hok : okC Fn F T (.brk m e) = true) (j : J Fn F T look n st) (hge : n ≤ env) (hlt : env < st.frames.size) :
    eval (k + 1) (US Fn N st) env (unfz N (.brk m e)) = usR Fn N (eval (k + 1) st env (.brk m e)) ∧
      Q Fn F T look n st (eval (k + 1) st env (.brk m e)).2 := by
  simp only [okC] at hok
  cases e with
  | none => simp only [unfz, unfzO, eval, usR]; exact ⟨by eq3, Q.refl j⟩
  | some e1 =>
    simp only [okCO] at hok
    obtain ⟨ee, qe⟩ := ih.ev e1 st env hok j hge hlt
    simp only [unfz, unfzO, eval, ee]
    rcases hre : eval k st env e1 with ⟨re, st1⟩
    rw [hre] at qe
    simp only [usR]
    cases re <;> exact ⟨by eq3, qe⟩

theorem e3_ret {k : Nat} (ih : Pres3 Fn F T look n N k) {e : Option Expr} {st : State} {env : Nat}
    (hok : okC Fn F T (.ret e) = true) (j : J Fn F T look n st) (hge : n ≤ env) (hlt : env < st.frames.size) :
    eval (k + 1) (US Fn N st) env (unfz N (.ret e)) = usR Fn N (eval (k + 1) st env (.ret e)) ∧
      Q Fn F T look n st (eval (k + 1) st env (.ret e)).2 := by
  simp only [okC] at hok
  cases e with
  | none => simp only [unfz, unfzO, eval, usR]; exact ⟨by eq3, Q.refl j⟩
  | some e1 =>
    simp only [okCO] at hok
    obtain ⟨ee, qe⟩ := ih.ev e1 st env hok j hge hlt
    simp only [unfz, unfzO, eval, ee]
    rcases hre : eval k st env e1 with ⟨re, st1⟩
    rw [hre] at qe
    simp only [usR]
    cases re <;> exact ⟨by eq3, qe⟩

theorem e3_throw {k : Nat} (ih : Pres3 Fn F T look n N k) {e : Expr} {st : State} {env : Nat}
    (hok : okC Fn F T (.throw_ e) = true) (j : J Fn F T look n st) (hge : n ≤ env) (hlt : env < st.frames.size) :
    eval (k + 1) (US Fn N st) env (unfz N (.throw_ e)) = usR Fn N (eval (k + 1) st env (.throw_ e)) ∧
      Q Fn F T look n st (eval (k + 1) st env (.throw_ e)).2 := by
  simp only [okC] at hok
  obtain ⟨ee, qe⟩ := ih.ev e st env hok j hge hlt
  simp only [unfz, eval, ee]
  rcases hre : eval k st env e with ⟨re, st1⟩
  rw [hre] at qe
  simp only [usR]
  cases re <;> exact ⟨by eq3, qe⟩

/-! ### calls -/

theorem lookupVar_mem (fs : Array Frame) (y : String) (v : Val) : ∀ (fuel env : Nat),
    lookupVar fs fuel env y = some v → ∃ (i : Nat) (fr : Frame), fs[i]? = some fr ∧ lookupIn fr.vars y = some v := by
  intro fuel
  induction fuel with
  | zero => intro env h; simp [lookupVar] at h
  | succ k ih =>
    intro env h
    unfold lookupVar at h
    cases hfr : fs[env]? with
    | none => simp [hfr] at h
    | some fr =>
      simp only [hfr] at h
      cases hl : lookupIn fr.vars y with
      | some w => simp only [hl, Option.some.injEq] at h; subst h; exact ⟨env, fr, hfr, hl⟩
      | none =>
        simp only [hl] at h
        cases hp : fr.parent with
        | none => simp [hp] at h
        | some p => simp only [hp] at h; exact ih p h

/-- a builtin, or a good closure: what a callee of the fragment evaluates to -/
def Callee (Fn F : List String) (T : List Val) (n sz : Nat) (v : Val) : Prop :=
  (∃ g, v = .builtin g) ∨ GoodClos Fn F T n sz v

theorem callee_call {k : Nat} (ih : Pres3 Fn F T look n N k) {vf : Val} {args : List Val} {st : State} {env0 : Nat}
    (hc : Callee Fn F T n st.frames.size vf) (j : J Fn F T look n st) :
    callVal k (US Fn N st) env0 (Uclos N vf) args = usR Fn N (callVal k st env0 vf args) ∧
      Q Fn F T look n st (callVal k st env0 vf args).2 := by
  rcases hc with ⟨g, rfl⟩ | hg
  · simp only [Uclos]
    obtain ⟨hfr, htb⟩ := C17Preserve.callVal_builtin_frames k st env0 g args
    refine ⟨callVal_builtin_U k st env0 g args, j.frames_eq hfr htb, by rw [hfr]; exact Nat.le_refl _⟩
  · exact ih.call vf args st env0 hg j

theorem unfz_call (f : Expr) (args : List Expr) : unfz N (.call f args) = .call (unfz N f) (unfzL N args) := by
  simp only [unfz]

/-- the callee of a call of the fragment evaluates, on both sides, to related callee values -/
theorem callee_eval {k : Nat} (hy : Hyp Fn F T look N) {f : Expr} {args : List Expr} {st : State} {env : Nat}
    (hok : okC Fn F T (.call f args) = true) (j : J Fn F T look n st) (hge : n ≤ env) (hlt : env < st.frames.size) :
    okCL Fn F T args = true ∧
    ((eval k st env f = (.fuelOut, st) ∧ eval k (US Fn N st) env (unfz N f) = (.fuelOut, US Fn N st)) ∨
     (eval k st env f = (.thrown .err, st) ∧ eval k (US Fn N st) env (unfz N f) = (.thrown .err, US Fn N st)) ∨
     (∃ vf, eval k st env f = (.val vf, st) ∧ eval k (US Fn N st) env (unfz N f) = (.val (Uclos N vf), US Fn N st) ∧
        Callee Fn F T n st.frames.size vf)) := by
  cases f with
  | frozen i =>
    simp only [okC, Bool.and_eq_true] at hok
    refine ⟨hok.2, ?_⟩
    obtain ⟨fn, hget⟩ := builtinAt_get hok.1 j.tab
    cases k with
    | zero => left; simp only [eval]; exact ⟨trivial, trivial⟩
    | succ m =>
      right; right
      obtain ⟨ef, _⟩ := e3_frozen (k := m) hy (i := i) j hge hlt
      refine ⟨.builtin fn, by simp only [eval, hget], ?_, Or.inl ⟨fn, rfl⟩⟩
      rw [ef]; simp only [eval, hget, usR, Uclos]
  | ident g =>
    simp only [okC, Bool.and_eq_true, List.contains_eq_mem, decide_eq_true_eq] at hok
    refine ⟨hok.2, ?_⟩
    cases k with
    | zero => left; simp only [unfz, eval]; exact ⟨trivial, trivial⟩
    | succ m =>
      simp only [unfz, eval, lookup_U, UVal_fn hok.1]
      cases hl : st.lookup env g with
      | none =>
        simp only [Option.map_none]
        by_cases hb : builtinNames.contains g = true
        · right; right
          exact ⟨.builtin g, by simp only [hb, ↓reduceIte], by simp only [hb, ↓reduceIte, Uclos], Or.inl ⟨g, rfl⟩⟩
        · right; left
          have hb' : g ∉ builtinNames := by simpa using hb
          exact ⟨by simp [hb'], by simp [hb']⟩
      | some v =>
        right; right
        obtain ⟨i, fr, hfr, hlv⟩ := lookupVar_mem st.frames g v _ env hl
        exact ⟨v, rfl, by simp only [Option.map_some, UVal_fn hok.1], Or.inr (j.fnInv i fr g v hfr hok.1 hlv)⟩
  | _ => simp [okC] at hok

theorem e3_call {k : Nat} (ih : Pres3 Fn F T look n N k) (hy : Hyp Fn F T look N) {f : Expr} {args : List Expr}
    {st : State} {env : Nat} (hok : okC Fn F T (.call f args) = true) (j : J Fn F T look n st) (hge : n ≤ env)
    (hlt : env < st.frames.size) :
    eval (k + 1) (US Fn N st) env (unfz N (.call f args)) = usR Fn N (eval (k + 1) st env (.call f args)) ∧
      Q Fn F T look n st (eval (k + 1) st env (.call f args)).2 := by
  obtain ⟨hargs, hcase⟩ := callee_eval (k := k) hy hok j hge hlt
  rw [unfz_call]
  rcases hcase with ⟨h1, h2⟩ | ⟨h1, h2⟩ | ⟨vf, h1, h2, hc⟩
  · simp only [eval, h1, h2, usR]; exact ⟨by eq3, Q.refl j⟩
  · simp only [eval, h1, h2, usR]; exact ⟨by eq3, Q.refl j⟩
  · obtain ⟨el, ql⟩ := ih.evList args st env hargs j hge hlt
    simp only [eval, h1, h2, el]
    rcases hrl : evalList k st env args with ⟨rl, st1⟩
    rw [hrl] at ql
    simp only [usRL, usR]
    cases rl with
    | ok vs =>
      dsimp only
      have hc1 : Callee Fn F T n st1.frames.size vf := by
        rcases hc with h | h
        · exact Or.inl h
        · exact Or.inr (h.mono ql.2)
      obtain ⟨ec, qc⟩ := callee_call ih (args := vs) (env0 := env) hc1 ql.1
      rw [ec]
      exact ⟨by simp only [usR], ql.trans qc⟩
    | stop r => exact ⟨by eq3, ql⟩

theorem absorb_usR (r : Res × State) : absorb (usR Fn N r) = usR Fn N (absorb r) := by
  obtain ⟨a, s⟩ := r
  cases a <;> rfl

theorem absorb_snd (r : Res × State) : (absorb r).2 = r.2 := by
  obtain ⟨a, s⟩ := r
  cases a <;> rfl

theorem c3_call_step {k : Nat} (ih : Pres3 Fn F T look n N k) : CC3 Fn F T look n N (k + 1) := by
  intro v args st env0 hg j
  obtain ⟨names, b, cenv, rfl, hb, hdn, hge, hlt⟩ := hg
  have hszU : (US Fn N st).frames.size = st.frames.size := by rw [US_frames, USF_size]
  have jN : J Fn F T look n (newFrame st cenv).1 := j.fresh hge hlt
  have hszN : st.frames.size ≤ (newFrame st cenv).1.frames.size := by simp [newFrame]
  simp only [Uclos]
  cases k with
  | zero =>
    rw [callVal_plain_one, callVal_plain_one, newFrame_U]
    exact ⟨rfl, jN, hszN⟩
  | succ m =>
    by_cases hlen : args.length = names.length
    · rw [callVal_plain m (US Fn N st) env0 cenv names (unfz N b) args hlen,
        callVal_plain m st env0 cenv names b args hlen, hszU,
        callState_U Fn N st cenv names args (fun x hx => (dataNames_mem hdn hx).1)]
      have jC : J Fn F T look n (callState st cenv names args) := j.call args hge hlt hdn
      have hszC : (callState st cenv names args).frames.size = st.frames.size + 1 :=
        C17Main.callState_size st cenv names args
      obtain ⟨eb, qb⟩ := ih.ev b (callState st cenv names args) st.frames.size hb jC
        (Nat.le_trans hge (Nat.le_of_lt hlt)) (by rw [hszC]; omega)
      rw [eb, absorb_usR]
      refine ⟨rfl, ?_⟩
      rw [absorb_snd]
      exact ⟨qb.1, by have := qb.2; rw [hszC] at this; omega⟩
    · rw [callVal_plain_bad m (US Fn N st) env0 cenv names (unfz N b) args hlen,
        callVal_plain_bad m st env0 cenv names b args hlen, newFrame_U]
      exact ⟨rfl, jN, hszN⟩

/-! ### fresh scopes -/

theorem clone3 {st : State} {env : Nat} (j : J Fn F T look n st) (hge : n ≤ env) (hlt : env < st.frames.size)
    (p : Pat) (v : Val) (hd : dataNames Fn F (Pat.idents p) = true) :
    J Fn F T look n (declarePat (patDepth p + 1) (newFrame st env).1 (newFrame st env).2 p v).2 ∧
    n ≤ (newFrame st env).2 ∧
    (newFrame st env).2 < (declarePat (patDepth p + 1) (newFrame st env).1 (newFrame st env).2 p v).2.frames.size ∧
    st.frames.size ≤ (declarePat (patDepth p + 1) (newFrame st env).1 (newFrame st env).2 p v).2.frames.size ∧
    (newFrame (US Fn N st) env).2 = (newFrame st env).2 ∧
    declarePat (patDepth p + 1) (newFrame (US Fn N st) env).1 (newFrame st env).2 p v =
      ((declarePat (patDepth p + 1) (newFrame st env).1 (newFrame st env).2 p v).1,
        US Fn N (declarePat (patDepth p + 1) (newFrame st env).1 (newFrame st env).2 p v).2) := by
  have jN := j.fresh hge hlt
  have hsz := (declarePat_step (patDepth p + 1) (newFrame st env).1 (newFrame st env).2 p v).1.size
  have hszN : (newFrame st env).1.frames.size = st.frames.size + 1 := by simp [newFrame]
  have hee : (newFrame st env).2 = st.frames.size := rfl
  refine ⟨jN.declare hd, by rw [hee]; omega, by rw [hsz, hszN, hee]; omega, by rw [hsz, hszN]; omega, ?_, ?_⟩
  · rw [newFrame_U]
  · rw [newFrame_U]
    exact declarePat_U _ _ _ p v (fun x hx => (dataNames_mem hd hx).1)

theorem dataNames_nil : dataNames Fn F [] = true := rfl

theorem e3_try {k : Nat} (ih : Pres3 Fn F T look n N k) {b c : Expr} {p : Pat} {st : State} {env : Nat}
    (hok : okC Fn F T (.try_ b p c) = true) (j : J Fn F T look n st) (hge : n ≤ env) (hlt : env < st.frames.size) :
    eval (k + 1) (US Fn N st) env (unfz N (.try_ b p c)) = usR Fn N (eval (k + 1) st env (.try_ b p c)) ∧
      Q Fn F T look n st (eval (k + 1) st env (.try_ b p c)).2 := by
  simp only [okC, Bool.and_eq_true] at hok
  obtain ⟨⟨hb, hp⟩, hc⟩ := hok
  obtain ⟨eb, qb⟩ := ih.ev b st env hb j hge hlt
  simp only [unfz, eval, eb]
  rcases hrb : eval k st env b with ⟨rb, st1⟩
  rw [hrb] at qb
  simp only [usR]
  cases rb with
  | thrown v =>
    dsimp only at qb ⊢
    obtain ⟨jd, hgee, hltee, hsz, hee, hdc⟩ := clone3 (N := N) qb.1 hge (qb.lt hlt) p v hp
    simp only [hee, hdc]
    rcases hd : declarePat (patDepth p + 1) (newFrame st1 env).1 (newFrame st1 env).2 p v with ⟨ok, st2⟩
    rw [hd] at jd hltee hsz
    cases ok with
    | true =>
      obtain ⟨ec, qc⟩ := ih.ev c st2 (newFrame st1 env).2 hc jd hgee hltee
      simp only [ec, usR]
      exact ⟨by eq3, qc.1, Nat.le_trans qb.2 (Nat.le_trans hsz qc.2)⟩
    | false => exact ⟨by eq3, jd, Nat.le_trans qb.2 hsz⟩
  | _ => exact ⟨by eq3, qb⟩

theorem sw3_step {k : Nat} (ih : Pres3 Fn F T look n N k) : CSw3 Fn F T look n N (k + 1) := by
  intro arms st env v hok j hge hlt
  cases arms with
  | nil => simp only [unfzA, evalSwitch, usR]; exact ⟨by eq3, Q.refl j⟩
  | cons a rest =>
    obtain ⟨p, body⟩ := a
    simp only [okCA, Bool.and_eq_true] at hok
    obtain ⟨⟨hp, hb⟩, hr⟩ := hok
    obtain ⟨jd, hgee, hltee, hsz, hee, hdc⟩ := clone3 (N := N) j hge hlt p v hp
    simp only [unfzA, evalSwitch, hee, hdc]
    rcases hd : declarePat (patDepth p + 1) (newFrame st env).1 (newFrame st env).2 p v with ⟨ok, st2⟩
    rw [hd] at jd hltee hsz
    cases ok with
    | true =>
      obtain ⟨ec, qc⟩ := ih.ev body st2 (newFrame st env).2 hb jd hgee hltee
      simp only [ec]
      exact ⟨by eq3, qc.1, Nat.le_trans hsz qc.2⟩
    | false =>
      obtain ⟨er, qr⟩ := ih.evSwitch rest st2 env v hr jd hge (Nat.lt_of_lt_of_le hlt hsz)
      simp only [er]
      exact ⟨by eq3, qr.1, Nat.le_trans hsz qr.2⟩

theorem e3_switch {k : Nat} (ih : Pres3 Fn F T look n N k) {sc : Expr} {arms : List SwitchArm} {st : State}
    {env : Nat} (hok : okC Fn F T (.switch_ sc arms) = true) (j : J Fn F T look n st) (hge : n ≤ env)
    (hlt : env < st.frames.size) :
    eval (k + 1) (US Fn N st) env (unfz N (.switch_ sc arms)) = usR Fn N (eval (k + 1) st env (.switch_ sc arms)) ∧
      Q Fn F T look n st (eval (k + 1) st env (.switch_ sc arms)).2 := by
  simp only [okC, Bool.and_eq_true] at hok
  obtain ⟨es, qs⟩ := ih.ev sc st env hok.1 j hge hlt
  simp only [unfz, eval, es]
  rcases hrs : eval k st env sc with ⟨rs, st1⟩
  rw [hrs] at qs
  simp only [usR]
  cases rs with
  | val v =>
    obtain ⟨ea, qa⟩ := ih.evSwitch arms st1 env v hok.2 qs.1 hge (qs.lt hlt)
    simp only [ea, usR]
    exact ⟨by eq3, qs.trans qa⟩
  | _ => exact ⟨by eq3, qs⟩

theorem w3_step {k : Nat} (ih : Pres3 Fn F T look n N k) : CW3 Fn F T look n N (k + 1) := by
  intro c b st env hc hb j hge hlt
  have jN := j.fresh hge hlt
  have hszN : (newFrame st env).1.frames.size = st.frames.size + 1 := by simp [newFrame]
  have hee : (newFrame st env).2 = st.frames.size := rfl
  have hgee : n ≤ (newFrame st env).2 := by rw [hee]; omega
  have hltee : (newFrame st env).2 < (newFrame st env).1.frames.size := by rw [hszN, hee]; omega
  obtain ⟨ec, qc⟩ := ih.ev c (newFrame st env).1 (newFrame st env).2 hc jN hgee hltee
  simp only [evalWhile, newFrame_U, ec]
  rcases hrc : eval k (newFrame st env).1 (newFrame st env).2 c with ⟨rc, st1⟩
  rw [hrc] at qc
  simp only [usR]
  have hsz1 : st.frames.size ≤ st1.frames.size := by have := qc.2; dsimp only at this; omega
  cases rc with
  | val vc =>
    dsimp only
    cases vc.truthy with
    | false => exact ⟨by eq3, qc.1, hsz1⟩
    | true =>
      obtain ⟨eb, qb⟩ := ih.ev b st1 (newFrame st env).2 hb qc.1 hgee (qc.lt hltee)
      simp only [Bool.not_true, Bool.false_eq_true, ↓reduceIte, eb]
      rcases hrb : eval k st1 (newFrame st env).2 b with ⟨rb, st2⟩
      rw [hrb] at qb
      simp only [usR]
      have hsz2 : st.frames.size ≤ st2.frames.size := Nat.le_trans hsz1 qb.2
      have hrec := ih.evWhile c b st2 env hc hb qb.1 hge (Nat.lt_of_lt_of_le hlt hsz2)
      cases rb with
      | val v =>
        obtain ⟨er, qr⟩ := hrec
        simp only [er, usR]
        exact ⟨by eq3, qr.1, Nat.le_trans hsz2 qr.2⟩
      | brk m v => cases m <;> exact ⟨by eq3, qb.1, hsz2⟩
      | cont m =>
        cases m with
        | zero =>
          obtain ⟨er, qr⟩ := hrec
          simp only [er, usR]
          exact ⟨by eq3, qr.1, Nat.le_trans hsz2 qr.2⟩
        | succ m => exact ⟨by eq3, qb.1, hsz2⟩
      | _ => exact ⟨by eq3, qb.1, hsz2⟩
  | _ => exact ⟨by eq3, qc.1, hsz1⟩

theorem e3_while {k : Nat} (ih : Pres3 Fn F T look n N k) {c b : Expr} {st : State} {env : Nat}
    (hok : okC Fn F T (.while_ c b) = true) (j : J Fn F T look n st) (hge : n ≤ env) (hlt : env < st.frames.size) :
    eval (k + 1) (US Fn N st) env (unfz N (.while_ c b)) = usR Fn N (eval (k + 1) st env (.while_ c b)) ∧
      Q Fn F T look n st (eval (k + 1) st env (.while_ c b)).2 := by
  simp only [okC, Bool.and_eq_true] at hok
  obtain ⟨ew, qw⟩ := ih.evWhile c b st env hok.1 hok.2 j hge hlt
  simp only [unfz, eval, ew]
  exact ⟨by eq3, qw⟩

/-! ### `for` -/

theorem b3_step {k : Nat} (ih : Pres3 Fn F T look n N k) : CB3 Fn F T look n N (k + 1) := by
  intro body st env acc hok j hge hlt
  cases body with
  | exec e =>
    simp only [okCB] at hok
    obtain ⟨ee, qe⟩ := ih.ev e st env hok j hge hlt
    simp only [unfzB, forBody, ee]
    rcases hre : eval k st env e with ⟨re, st1⟩
    rw [hre] at qe
    simp only [usR, usR3]
    cases re <;> exact ⟨by eq3, qe⟩
  | yield e into =>
    simp only [okCB, Bool.and_eq_true] at hok
    obtain ⟨ee, qe⟩ := ih.ev e st env hok.1 j hge hlt
    simp only [unfzB, forBody, ee]
    rcases hre : eval k st env e with ⟨re, st1⟩
    rw [hre] at qe
    simp only [usR, usR3]
    cases re with
    | val v => dsimp only; cases acc.cata.give v <;> exact ⟨by eq3, qe⟩
    | _ => exact ⟨by eq3, qe⟩
  | yieldItem key v into =>
    simp only [okCB, Bool.and_eq_true] at hok
    obtain ⟨⟨hk, hv⟩, _⟩ := hok
    obtain ⟨ek, qk⟩ := ih.ev key st env hk j hge hlt
    simp only [unfzB, forBody, ek]
    rcases hrk : eval k st env key with ⟨rk, st1⟩
    rw [hrk] at qk
    simp only [usR, usR3]
    cases rk with
    | val vk =>
      obtain ⟨ev, qv⟩ := ih.ev v st1 env hv qk.1 hge (qk.lt hlt)
      simp only [ev]
      rcases hrv : eval k st1 env v with ⟨rv, st2⟩
      rw [hrv] at qv
      simp only [usR]
      have qkv := qk.trans qv
      cases vk <;> dsimp only <;> first
        | exact ⟨by eq3, qk⟩
        | (cases dictFind acc.dict _ with
           | none =>
             dsimp only
             cases rv with
             | val vv => dsimp only; cases acc.cata.give vv <;> exact ⟨by eq3, qkv⟩
             | _ => exact ⟨by eq3, qkv⟩
           | some cc =>
             cases cc with
             | inr _ => exact ⟨by eq3, qk⟩
             | inl c0 =>
               dsimp only
               cases rv with
               | val vv => dsimp only; cases c0.give vv <;> exact ⟨by eq3, qkv⟩
               | _ => exact ⟨by eq3, qkv⟩)
    | _ => exact ⟨by eq3, qk⟩

theorem i3_step {k : Nat} (ih : Pres3 Fn F T look n N k) : CI3 Fn F T look n N (k + 1) := by
  intro p items rest body st env acc hp hr hb j hge hlt
  cases items with
  | nil => simp only [forItems, usR3]; exact ⟨by eq3, Q.refl j⟩
  | cons x xs =>
    obtain ⟨jd, hgee, hltee, hsz, hee, hdc⟩ := clone3 (N := N) j hge hlt p x hp
    simp only [forItems, hee, hdc]
    rcases hd : declarePat (patDepth p + 1) (newFrame st env).1 (newFrame st env).2 p x with ⟨ok, st2⟩
    rw [hd] at jd hltee hsz
    cases ok with
    | false => exact ⟨by eq3, jd, hsz⟩
    | true =>
      obtain ⟨ef, qf⟩ := ih.evFor rest body st2 (newFrame st env).2 acc hr hb jd hgee hltee
      simp only [ef]
      rcases hrf : evalFor k st2 (newFrame st env).2 rest body acc with ⟨rf, st3, acc3⟩
      rw [hrf] at qf
      simp only [usR3]
      have hsz3 : st.frames.size ≤ st3.frames.size := Nat.le_trans hsz qf.2
      cases rf with
      | val v =>
        obtain ⟨er, qr⟩ := ih.fItems p xs rest body st3 env acc3 hp hr hb qf.1 hge (Nat.lt_of_lt_of_le hlt hsz3)
        simp only [er]
        exact ⟨by eq3, qr.1, Nat.le_trans hsz3 qr.2⟩
      | _ => exact ⟨by eq3, qf.1, hsz3⟩

theorem f3_step {k : Nat} (ih : Pres3 Fn F T look n N k) : CF3 Fn F T look n N (k + 1) := by
  intro its body st env acc hokI hokB j hge hlt
  cases its with
  | nil =>
    obtain ⟨eb, qb⟩ := ih.fBody body st env acc hokB j hge hlt
    simp only [unfzI, evalFor, eb]
    rcases hrb : forBody k st env body acc with ⟨rb, st1, acc1⟩
    rw [hrb] at qb
    simp only [usR3]
    cases rb with
    | cont m => cases m <;> exact ⟨by eq3, qb⟩
    | _ => exact ⟨by eq3, qb⟩
  | cons it rest =>
    cases it with
    | guard g =>
      simp only [okCI, Bool.and_eq_true] at hokI
      obtain ⟨eg, qg⟩ := ih.ev g st env hokI.1 j hge hlt
      simp only [unfzI, evalFor, eg]
      rcases hrg : eval k st env g with ⟨rg, st1⟩
      rw [hrg] at qg
      simp only [usR, usR3]
      cases rg with
      | val v =>
        dsimp only
        cases v.truthy with
        | false => exact ⟨by eq3, qg⟩
        | true =>
          obtain ⟨er, qr⟩ := ih.evFor rest body st1 env acc hokI.2 hokB qg.1 hge (qg.lt hlt)
          simp only [↓reduceIte, er, usR3]
          exact ⟨by eq3, qg.trans qr⟩
      | _ => exact ⟨by eq3, qg⟩
    | iter kind p e =>
      simp only [okCI, Bool.and_eq_true] at hokI
      obtain ⟨⟨hp, he⟩, hr⟩ := hokI
      obtain ⟨ee, qe⟩ := ih.ev e st env he j hge hlt
      simp only [unfzI, evalFor, ee]
      rcases hre : eval k st env e with ⟨re, st1⟩
      rw [hre] at qe
      simp only [usR, usR3]
      cases re with
      | val v =>
        dsimp only at qe ⊢
        have hlt1 := qe.lt hlt
        have hitems : ∀ items : List Val,
            forItems k (US Fn N st1) env p items (unfzI N rest) (unfzB N body) acc =
              usR3 Fn N (forItems k st1 env p items rest body acc) ∧
            Q Fn F T look n st (forItems k st1 env p items rest body acc).2.1 := by
          intro items
          obtain ⟨ei, qi⟩ := ih.fItems p items rest body st1 env acc hp hr hokB qe.1 hge hlt1
          exact ⟨ei, qe.trans qi⟩
        cases kind with
        | declare =>
          dsimp only
          obtain ⟨jd, hgee, hltee, hsz, hee, hdc⟩ := clone3 (N := N) qe.1 hge hlt1 p v hp
          simp only [hee, hdc]
          rcases hd : declarePat (patDepth p + 1) (newFrame st1 env).1 (newFrame st1 env).2 p v with ⟨ok, st2⟩
          rw [hd] at jd hltee hsz
          cases ok with
          | false => exact ⟨by eq3, jd, Nat.le_trans qe.2 hsz⟩
          | true =>
            obtain ⟨er, qr⟩ := ih.evFor rest body st2 (newFrame st1 env).2 acc hr hokB jd hgee hltee
            simp only [er, usR3]
            exact ⟨by eq3, qr.1, Nat.le_trans qe.2 (Nat.le_trans hsz qr.2)⟩
        | normal =>
          dsimp only
          cases iterValues v with
          | some items => exact hitems items
          | none => exact ⟨by eq3, qe⟩
        | item =>
          dsimp only
          cases iterPairs v with
          | some items => exact hitems items
          | none => exact ⟨by eq3, qe⟩
      | _ => exact ⟨by eq3, qe⟩

theorem evalInto3 (hy : Hyp Fn F T look N) {k : Nat} {st : State} {env : Nat} (j : J Fn F T look n st)
    (hge : n ≤ env) (hlt : env < st.frames.size) {o : Option Expr} (hok : localInto T o = true) :
    evalInto k (US Fn N st) env (unfzO N o) = ((evalInto k st env o).1, US Fn N (evalInto k st env o).2) ∧
    (evalInto k st env o = (.inr .fuelOut, st) ∨
      ∃ c post, evalInto k st env o = (.inl (c, post), st) ∧ PostFn post) := by
  cases o with
  | none =>
    cases k with
    | zero => simp only [unfzO, evalInto]; exact ⟨by eq3, Or.inl (by eq3)⟩
    | succ m => simp only [unfzO, evalInto]; exact ⟨by eq3, Or.inr ⟨.list [], none, rfl, Or.inl rfl⟩⟩
  | some e =>
    cases e with
    | frozen i =>
      simp only [localInto] at hok
      obtain ⟨fn, hget⟩ := builtinAt_get hok j.tab
      cases k with
      | zero => simp only [unfzO, evalInto]; exact ⟨by eq3, Or.inl (by eq3)⟩
      | succ m =>
        cases m with
        | zero => simp only [unfzO, evalInto, eval]; exact ⟨by eq3, Or.inl (by eq3)⟩
        | succ q =>
          obtain ⟨ef, _⟩ := e3_frozen (k := q) hy (i := i) j hge hlt
          simp only [unfzO, evalInto, ef]
          simp only [eval, hget, usR]
          cases cataOfBuiltin fn with
          | some c => exact ⟨by eq3, Or.inr ⟨c, none, rfl, Or.inl rfl⟩⟩
          | none => exact ⟨by eq3, Or.inr ⟨_, _, rfl, Or.inr ⟨fn, rfl⟩⟩⟩
    | _ => simp [localInto] at hok

theorem e3_for {k : Nat} (ih : Pres3 Fn F T look n N k) (hy : Hyp Fn F T look N) {its : List ForIt}
    {body : ForBody} {st : State} {env : Nat} (hok : okC Fn F T (.for_ its body) = true)
    (j : J Fn F T look n st) (hge : n ≤ env) (hlt : env < st.frames.size) :
    eval (k + 1) (US Fn N st) env (unfz N (.for_ its body)) = usR Fn N (eval (k + 1) st env (.for_ its body)) ∧
      Q Fn F T look n st (eval (k + 1) st env (.for_ its body)).2 := by
  simp only [okC, Bool.and_eq_true] at hok
  obtain ⟨hokI, hokB⟩ := hok
  have hfor : ∀ acc : ForAcc,
      evalFor k (US Fn N st) env (unfzI N its) (unfzB N body) acc = usR3 Fn N (evalFor k st env its body acc) ∧
      Q Fn F T look n st (evalFor k st env its body acc).2.1 :=
    fun acc => ih.evFor its body st env acc hokI hokB j hge hlt
  have hcall : ∀ (st1 : State) (f : String) (v : Val), Q Fn F T look n st st1 →
      Q Fn F T look n st (callVal k st1 env (.builtin f) [v]).2 := by
    intro st1 f v h1
    obtain ⟨hfr, htb⟩ := C17Preserve.callVal_builtin_frames k st1 env f [v]
    exact ⟨h1.1.frames_eq hfr htb, by rw [hfr]; exact h1.2⟩
  have hfin : ∀ (st1 : State) (post : Option Val) (d : List (Val × (Cata ⊕ Val))), PostFn post →
      Q Fn F T look n st st1 → Q Fn F T look n st (finishDict k st1 env post d []).2 := by
    intro st1 post d hpf h1
    obtain ⟨hfr, htb⟩ := C17Preserve.finishDict_frames k st1 env post d [] hpf
    exact ⟨h1.1.frames_eq hfr htb, by rw [hfr]; exact h1.2⟩
  cases body with
  | exec e =>
    obtain ⟨ef, qf⟩ := hfor default
    simp only [unfzB] at ef
    simp only [unfz, unfzB, eval, ef]
    rcases hrf : evalFor k st env its (.exec e) default with ⟨rf, st1, acc1⟩
    rw [hrf] at qf
    simp only [usR3, usR]
    cases rf with
    | brk m v => cases m <;> exact ⟨by eq3, qf⟩
    | cont m => cases m <;> exact ⟨by eq3, qf⟩
    | _ => exact ⟨by eq3, qf⟩
  | yield e into =>
    simp only [okCB, Bool.and_eq_true] at hokB
    obtain ⟨eI, hcase⟩ := evalInto3 (k := k) hy j hge hlt hokB.2
    simp only [unfz, unfzB, eval, eI]
    rcases hcase with h0 | ⟨c, post, h1, hpf⟩
    · rw [h0]; simp only [usR]; exact ⟨by eq3, Q.refl j⟩
    · rw [h1]
      dsimp only
      obtain ⟨ef, qf⟩ := hfor { cata := c, dict := [] }
      simp only [unfzB] at ef
      simp only [ef]
      rcases hrf : evalFor k st env its (.yield e into) { cata := c, dict := [] } with ⟨rf, st1, acc1⟩
      rw [hrf] at qf
      simp only [usR3, usR]
      rcases hpf with rfl | ⟨f, rfl⟩
      · cases rf with
        | val v => dsimp only; cases acc1.cata.finish <;> exact ⟨by eq3, qf⟩
        | brk m v =>
          cases m with
          | zero =>
            cases v with
            | none => dsimp only; cases acc1.cata.finish <;> exact ⟨by eq3, qf⟩
            | some v => exact ⟨by eq3, qf⟩
          | succ m => exact ⟨by eq3, qf⟩
        | cont m => cases m <;> exact ⟨by eq3, qf⟩
        | _ => exact ⟨by eq3, qf⟩
      · cases rf with
        | val v =>
          dsimp only
          cases acc1.cata.finish with
          | ok w => exact ⟨by simp only [callVal_builtin_U, usR], hcall st1 f w qf⟩
          | raise => exact ⟨by eq3, qf⟩
        | brk m v =>
          cases m with
          | zero =>
            cases v with
            | none =>
              dsimp only
              cases acc1.cata.finish with
              | ok w => exact ⟨by simp only [callVal_builtin_U, usR], hcall st1 f w qf⟩
              | raise => exact ⟨by eq3, qf⟩
            | some v => exact ⟨by simp only [callVal_builtin_U, usR], hcall st1 f v qf⟩
          | succ m => exact ⟨by eq3, qf⟩
        | cont m => cases m <;> exact ⟨by eq3, qf⟩
        | _ => exact ⟨by eq3, qf⟩
  | yieldItem key v into =>
    simp only [okCB, Bool.and_eq_true] at hokB
    obtain ⟨eI, hcase⟩ := evalInto3 (k := k) hy j hge hlt hokB.2
    simp only [unfz, unfzB, eval, eI]
    rcases hcase with h0 | ⟨c, post, h1, hpf⟩
    · rw [h0]; simp only [usR]; exact ⟨by eq3, Q.refl j⟩
    · rw [h1]
      have hshape : (into = none ∧ unfzO N into = none) ∨ (∃ e0 e0', into = some e0 ∧ unfzO N into = some e0') := by
        cases into with
        | none => exact Or.inl ⟨rfl, rfl⟩
        | some e0 => exact Or.inr ⟨e0, unfz N e0, rfl, rfl⟩
      have htail : ∀ cataK : Cata,
          (match evalFor k (US Fn N st) env (unfzI N its) (.yieldItem (unfz N key) (unfz N v) (unfzO N into))
              { cata := cataK, dict := [] } with
            | (res, st, acc) =>
              match res with
              | .val _ | .brk 0 none => finishDict k st env post acc.dict []
              | .brk 0 (some v) => (.val v, st)
              | .brk (n + 1) v => (.brk n v, st)
              | .cont (n + 1) => (.cont n, st)
              | r => (r, st)) =
          usR Fn N (match evalFor k st env its (.yieldItem key v into) { cata := cataK, dict := [] } with
            | (res, st, acc) =>
              match res with
              | .val _ | .brk 0 none => finishDict k st env post acc.dict []
              | .brk 0 (some v) => (.val v, st)
              | .brk (n + 1) v => (.brk n v, st)
              | .cont (n + 1) => (.cont n, st)
              | r => (r, st)) ∧
          Q Fn F T look n st
            (match evalFor k st env its (.yieldItem key v into) { cata := cataK, dict := [] } with
            | (res, st, acc) =>
              match res with
              | .val _ | .brk 0 none => finishDict k st env post acc.dict []
              | .brk 0 (some v) => (.val v, st)
              | .brk (n + 1) v => (.brk n v, st)
              | .cont (n + 1) => (.cont n, st)
              | r => (r, st)).2 := by
        intro cataK
        obtain ⟨ef, qf⟩ := hfor { cata := cataK, dict := [] }
        simp only [unfzB] at ef
        rw [ef]
        rcases hrf : evalFor k st env its (.yieldItem key v into) { cata := cataK, dict := [] }
          with ⟨rf, st1, acc1⟩
        rw [hrf] at qf
        simp only [usR3]
        cases rf with
        | val v => exact ⟨finishDict_U k st1 env post acc1.dict [] hpf, hfin st1 post acc1.dict hpf qf⟩
        | brk m v =>
          cases m with
          | zero =>
            cases v with
            | none => exact ⟨finishDict_U k st1 env post acc1.dict [] hpf, hfin st1 post acc1.dict hpf qf⟩
            | some v => exact ⟨rfl, qf⟩
          | succ m => exact ⟨rfl, qf⟩
        | cont m => cases m <;> exact ⟨rfl, qf⟩
        | _ => exact ⟨rfl, qf⟩
      rcases hshape with ⟨h1', h2'⟩ | ⟨e0, e0', h1', h2'⟩
      · subst h1'
        simp only [unfzO] at htail ⊢
        exact htail _
      · subst h1'
        simp only [unfzO] at htail ⊢
        cases post <;> exact htail _

/-! ### assembling -/

theorem e3_step {k : Nat} (ih : Pres3 Fn F T look n N k) (hy : Hyp Fn F T look N) : CE3 Fn F T look n N (k + 1) := by
  intro e st env hok j hge hlt
  cases e with
  | null => simp only [unfz, eval, usR]; exact ⟨by eq3, Q.refl j⟩
  | int m => simp only [unfz, eval, usR]; exact ⟨by eq3, Q.refl j⟩
  | str m => simp only [unfz, eval, usR]; exact ⟨by eq3, Q.refl j⟩
  | cont m => simp only [unfz, eval, usR]; exact ⟨by eq3, Q.refl j⟩
  | frozen i => exact e3_frozen hy j hge hlt
  | ident x => exact e3_ident hok j
  | list xs => exact e3_list ih hok j hge hlt
  | op name a b => exact e3_op ih hok j hge hlt
  | index a b => exact e3_index ih hok j hge hlt
  | call f args => exact e3_call ih hy hok j hge hlt
  | and_ a b => exact e3_and ih hok j hge hlt
  | or_ a b => exact e3_or ih hok j hge hlt
  | coalesce a b => exact e3_coalesce ih hok j hge hlt
  | seq xs semi => exact e3_seq ih hok j hge hlt
  | ite c t e => exact e3_ite ih hok j hge hlt
  | while_ c b => exact e3_while ih hok j hge hlt
  | for_ its body => exact e3_for ih hy hok j hge hlt
  | declare p rhs =>
    by_cases hl : ∃ ps b, rhs = .lambda ps b
    · obtain ⟨ps, b, rfl⟩ := hl
      cases p with
      | ident f => exact e3_declare_fn hok j hge hlt
      | _ => simp [okC] at hok
    · have hrhs : ∀ ps b, rhs ≠ .lambda ps b := fun ps b h => hl ⟨ps, b, h⟩
      obtain ⟨hd, hr⟩ := okC_declare_data hrhs hok
      have : unfz N (.declare p rhs) = .declare p (unfz N rhs) := by simp only [unfz]
      rw [this]
      exact e3_declare_data ih hd hr j hge hlt
  | assign x rhs => exact e3_assign ih hok j hge hlt
  | opassign x opn rhs => exact e3_opassign ih hok j hge hlt
  | brk m e => exact e3_brk ih hok j hge hlt
  | ret e => exact e3_ret ih hok j hge hlt
  | throw_ e => exact e3_throw ih hok j hge hlt
  | try_ b p c => exact e3_try ih hok j hge hlt
  | switch_ sc arms => exact e3_switch ih hok j hge hlt
  | lambda ps body => simp [okC] at hok
  | evalSrc e => simp [okC] at hok
  | freeze e => simp [okC] at hok

theorem Pres3.step {k : Nat} (ih : Pres3 Fn F T look n N k) (hy : Hyp Fn F T look N) :
    Pres3 Fn F T look n N (k + 1) where
  ev := e3_step ih hy
  evList := l3_step ih
  evSeq := s3_step ih
  evSwitch := sw3_step ih
  evWhile := w3_step ih
  evFor := f3_step ih
  fItems := i3_step ih
  fBody := b3_step ih
  call := c3_call_step ih

theorem pres3_all (hy : Hyp Fn F T look N) : ∀ k, Pres3 Fn F T look n N k := by
  intro k
  induction k with
  | zero => exact Pres3.zero
  | succ m ih => exact ih.step hy

/-- **un-freezing commutes with evaluation** (bodies with local functions).  `e'`: frozen code in the
fragment `okC`; `st`: a store satisfying the invariant `J` (every scope created since frame `n` sees the
freeze-time values of the resolved names; function-name variables hold closures of the fragment); `env`: one
of those scopes.  Evaluating the ORIGINAL code `unfz N e'` in the store whose local functions have their
original bodies (`US st`) gives the same result as evaluating the frozen code in `st`, and the final stores
are related in the same way. -/
theorem unfreeze_commutes (hy : Hyp Fn F T look N) (k : Nat) (e' : Expr) (st : State) (env : Nat)
    (hok : okC Fn F T e' = true) (j : J Fn F T look n st) (hge : n ≤ env) (hlt : env < st.frames.size) :
    eval k (US Fn N st) env (unfz N e') = ((eval k st env e').1, US Fn N (eval k st env e').2) :=
  ((pres3_all hy k).ev e' st env hok j hge hlt).1

end Noulith.C17Closures
