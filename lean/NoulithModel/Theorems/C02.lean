/-
C02 — Mutating an unshared collection is in place: no hidden copies.

The logic half of the property — *when does `Rc::make_mut` copy* — is the reference-count bookkeeping
of the C01 heap (`Impl/Heap.lean`) with its cost ledger: `copied` is increased by the payload length
exactly when `makeMut` meets a strong count > 1.  The runtime half (allocator, `Vec` growth policy,
`HashMap`) is outside any theorem and is MEASURED by `harness/src/bin/c02.rs`.

Theorems:
* `makeMut_copies_iff_shared`              the ledger is charged iff the count is > 1
* `index_assignment_copies_nothing`         x[i]…[j] = v on a path with count 1 at every level: 0 copies
* `extract_copies_nothing`                  pop / remove / consume likewise (leaf list unique too)
* `opassign_callee_unique`                  THE crux of `x append= v`: after the read (count 2) `drop_lhs`
                                            brings the count back to 1, so the callee's `make_mut` is in place
* `opassign_without_drop_lhs_copies`        refutation: without `drop_lhs` the same call copies the list
* `unshared_mutation_copies_nothing`        any sequence of k in-place-eligible statements on an unshared
                                            flat list copies nothing (and leaves it unshared)
* `shared_mutation_copies_once`, `total_cost_linear`
* `nested_opassign_copies_nothing`         x[i]…[j] append= v with count 1 along the path: 0 copies, any depth
* `unshared_nested_sequence`               any sequence of eligible statements (any paths) on a fully unshared
                                            NESTED value copies nothing (`nested_step`: the invariant is kept)
-/
import NoulithModel.Lemmas.HeapOpassign

namespace Noulith.C02
open Noulith.RcHeap
open Noulith.Store (Tree Store)

/-- `Rc::make_mut` charges the ledger with the payload length iff the allocation is shared -/
theorem makeMut_copies_iff_shared (h : Heap) (id : Nat) :
    (makeMut h id).1.copied = h.copied + (if rcOf h id ≤ 1 then 0 else (payloadOf h id).length) :=
  makeMut_copied h id

theorem evalAtom_const_heap (s : State) (h : Heap) (a : Atom) (ha : ∀ y, a ≠ .var y) :
    (evalAtom s h a).1 = h := by
  cases a with
  | null => rfl
  | int n => rfl
  | var y => exact absurd rfl (ha y)

/-- **index assignment in place**: if every level of the index path of variable `x` has strong count 1
then `x[i]…[j] = <int or null>` copies nothing, at any nesting depth. -/
theorem index_assignment_copies_nothing (s : State) (σ : Store) (x : Nat) (path : List Int) (a : Atom)
    (ha : ∀ y, a ≠ .var y) (R : Refines s σ) (hx : x < s.cells.length)
    (pu : PathUniq s.h (cellOf s x) path) :
    (step s (.setIdx x path (.atom a))).1.h.copied = s.h.copied := by
  have hd : declared s x = true := by simp [declared, hx]
  have e1 : (evalRhs s (.atom a)).1 = s.h := evalAtom_const_heap s s.h a ha
  simp only [step, hd, if_true, withCell, e1]
  have i1 : Inv s.h (cellOf s x :: ((evalRhs s (.atom a)).2 :: s.cells.set x .null)) := by
    have := inv_take_cell (T := []) hx (by simpa using R.inv)
    refine Inv.congr (fun k => ?_) this
    cases a with
    | null => simp [evalRhs, evalAtom, cellOf, occ_cons]
    | int n => simp [evalRhs, evalAtom, cellOf, occ_cons]
    | var y => exact absurd rfl (ha y)
  exact setIndex_nocopy path i1 pu

/-- **pop / remove / consume in place**: count 1 along the path and on the addressed list itself -/
theorem extract_copies_nothing {leaf : Leaf} (L : LeafNoCopy leaf)
    (s : State) (σ : Store) (x y : Nat) (path : List Int) (R : Refines s σ) (hx : x < s.cells.length)
    (pu : PathUniq s.h (cellOf s x) path) (eu : EndUniq s.h (cellOf s x) path) :
    (withCell s s.h x (fun h v => walk leaf h v path)).1.h.copied = s.h.copied ∧
    (writeCell (withCell s s.h x (fun h v => walk leaf h v path)).1.h
      (withCell s s.h x (fun h v => walk leaf h v path)).1.cells y
      (withCell s s.h x (fun h v => walk leaf h v path)).2.1).h.copied = s.h.copied := by
  have i1 : Inv s.h (cellOf s x :: s.cells.set x .null) := by
    have := inv_take_cell (T := []) hx (by simpa using R.inv)
    exact this.congr (fun k => by simp [cellOf])
  have := walk_nocopy L path s.h (cellOf s x) _ i1 pu eu
  simp only [withCell, writeCell, drop_copied]
  exact ⟨this, this⟩

theorem pop_copies_nothing (s : State) (σ : Store) (y x : Nat) (path : List Int) (R : Refines s σ)
    (hx : x < s.cells.length) (hy : y < s.cells.length)
    (pu : PathUniq s.h (cellOf s x) path) (eu : EndUniq s.h (cellOf s x) path) :
    (step s (.pop y x path)).1.h.copied = s.h.copied := by
  have hd : (declared s x = true ∧ declared s y = true) := by simp [declared, hx, hy]
  have E := extract_copies_nothing popLeaf_nocopy s σ x y path R hx pu eu
  simp only [step, hd, and_self, if_true]
  split
  · exact E.2
  · exact E.1

theorem remove_copies_nothing (s : State) (σ : Store) (y x : Nat) (path : List Int) (i : Int) (R : Refines s σ)
    (hx : x < s.cells.length) (hy : y < s.cells.length)
    (pu : PathUniq s.h (cellOf s x) path) (eu : EndUniq s.h (cellOf s x) path) :
    (step s (.remove y x path i)).1.h.copied = s.h.copied := by
  have hd : (declared s x = true ∧ declared s y = true) := by simp [declared, hx, hy]
  have E := extract_copies_nothing (removeLeaf_nocopy i) s σ x y path R hx pu eu
  simp only [step, hd, and_self, if_true]
  split
  · exact E.2
  · exact E.1

/-! ### operator-assignment: why `drop_lhs` exists -/

theorem drop_atom (h : Heap) (v : Val) (hv : ∀ j, v ≠ .ref j) : drop h v = h := by
  cases v with
  | null => rfl
  | int n => rfl
  | ref j => exact absurd rfl (hv j)

theorem atom_val (s : State) (h : Heap) (a : Atom) (ha : ∀ y, a ≠ .var y) : ∀ j, (evalAtom s h a).2 ≠ .ref j := by
  cases a with
  | null => intro j; simp [evalAtom]
  | int n => intro j; simp [evalAtom]
  | var y => exact absurd rfl (ha y)

/-- what `x append= a` does to a variable holding the only handle of a list: the exact final state -/
theorem append_unique_state (s : State) (x id : Nat) (a : Atom) (ha : ∀ y, a ≠ .var y)
    (hx : x < s.cells.length) (hc : cellOf s x = .ref id) (h1 : rcOf s.h id = 1)
    (hk : keysOf s.h id = none) :
    (step s (.append x [] (.atom a))).2 = true ∧
    (step s (.append x [] (.atom a))).1.cells = s.cells ∧
    (step s (.append x [] (.atom a))).1.h.copied = s.h.copied ∧
    (step s (.append x [] (.atom a))).1.h.pushes = s.h.pushes + 1 ∧
    rcOf (step s (.append x [] (.atom a))).1.h id = 1 ∧
    payloadOf (step s (.append x [] (.atom a))).1.h id = payloadOf s.h id ++ [(evalAtom s s.h a).2] ∧
    keysOf (step s (.append x [] (.atom a))).1.h id = none := by
  have hd : declared s x = true := by simp [declared, hx]
  have hl : id < s.h.allocs.length := lt_of_rcOf_pos (by omega)
  have hcx : s.cells.getD x .null = .ref id := hc
  -- the heap after the variable read: count 2
  have e1 : dup s.h (.ref id) = setRc s.h id 2 := by simp [dup, h1]
  have r2 : rcOf (setRc s.h id 2) id = 2 := by simp [rcOf_setRc, hl]
  -- evaluating the atom does not touch the heap
  have ea : ∀ h, (evalRhs ⟨h, s.cells⟩ (.atom a)).1 = h := fun h => evalAtom_const_heap _ h a ha
  have ev : ∀ h, (evalRhs ⟨h, s.cells⟩ (.atom a)).2 = (evalAtom s s.h a).2 := by
    intro h; cases a with
    | null => rfl
    | int n => rfl
    | var y => exact absurd rfl (ha y)
  -- drop_lhs: the count goes back to 1
  have e2 : drop (setRc s.h id 2) (.ref id) = setRc (setRc s.h id 2) id 1 := by
    simp [drop, dropVal, r2]
  have r3 : rcOf (setRc (setRc s.h id 2) id 1) id = 1 := by simp [rcOf_setRc, hl]
  have p3 : payloadOf (setRc (setRc s.h id 2) id 1) id = payloadOf s.h id := by simp [payloadOf_setRc]
  have hl3 : id < (setRc (setRc s.h id 2) id 1).allocs.length := by simpa using hl
  have k3 : keysOf (setRc (setRc s.h id 2) id 1) id = none := by simp [keysOf_setRc, hk]
  simp only [step, appendFinish, hd, if_true, readVar, hc, readPath, e1, ea, ev, withCell, cellOf, hcx, setIndex, walk_nil,
    setLeaf, e2, appendOp, k3, makeMut_of_unique r3, p3]
  have hnull : (s.cells.set x Val.null).getD x Val.null = .null := getD_set_self _ _ _ _ hx
  simp only [hnull, drop_atom _ Val.null (by intro j; simp), List.set_set]
  refine ⟨trivial, ?_, rfl, rfl, ?_, ?_, ?_⟩
  · rw [← hcx]; exact set_getD_self _ _ _
  · change rcOf (setPayload (setRc (setRc s.h id 2) id 1) id (payloadOf s.h id ++ [(evalAtom s s.h a).snd])) id = 1
    rw [rcOf_setPayload, r3]
  · change payloadOf (setPayload (setRc (setRc s.h id 2) id 1) id (payloadOf s.h id ++ [(evalAtom s s.h a).snd])) id = _
    rw [payloadOf_setPayload]
    simp [hl]
  · change keysOf (setPayload (setRc (setRc s.h id 2) id 1) id (payloadOf s.h id ++ [(evalAtom s s.h a).snd])) id = none
    rw [keysOf_setPayload]; exact k3

/-- **`opassign_callee_unique`**: in `x append= v` on a variable that holds the only handle of its
list, the operator is called with the ONLY handle (the variable read made the count 2, `drop_lhs` made
it 1 again), so `Append::run2`'s `make_mut` is in place: nothing is copied, one element is pushed. -/
theorem opassign_callee_unique (s : State) (x id : Nat) (a : Atom) (ha : ∀ y, a ≠ .var y)
    (hx : x < s.cells.length) (hc : cellOf s x = .ref id) (h1 : rcOf s.h id = 1)
    (hk : keysOf s.h id = none) :
    (step s (.append x [] (.atom a))).1.h.copied = s.h.copied ∧
    (step s (.append x [] (.atom a))).1.h.pushes = s.h.pushes + 1 :=
  ⟨(append_unique_state s x id a ha hx hc h1 hk).2.2.1, (append_unique_state s x id a ha hx hc h1 hk).2.2.2.1⟩

/-- **refutation without `drop_lhs`**: calling the operator on the value just read from the variable
(count 2: the variable still holds its handle) copies the whole list. -/
theorem opassign_without_drop_lhs_copies (h : Heap) (id : Nat) (b : Val) (h1 : rcOf h id = 1)
    (hk : keysOf h id = none) :
    (appendOp (dup h (.ref id)) (.ref id) b).1.copied = h.copied + (payloadOf h id).length := by
  have hl : id < h.allocs.length := lt_of_rcOf_pos (by omega)
  have r2 : rcOf (setRc h id 2) id = 2 := by simp [rcOf_setRc, hl]
  rw [appendOp_ref _ _ _ (by rw [keysOf_dup]; exact hk)]
  simp only [appendHeap, setPayload_copied, makeMut_copied]
  simp [dup, h1, r2, payloadOf_setRc]

/-! ### whole sequences on an unshared flat list -/

/-- a payload of atoms (no handles) -/
def Atoms (p : List Val) : Prop := ∀ v ∈ p, ∀ j, v ≠ .ref j

/-- variable `x` holds the only handle of a list of atoms -/
def FlatUniq (s : State) (x : Nat) : Prop :=
  ∃ id, cellOf s x = .ref id ∧ rcOf s.h id = 1 ∧ keysOf s.h id = none ∧ Atoms (payloadOf s.h id)

/-- the in-place-eligible statements on a flat list held by `x` -/
inductive FlatStmt (x : Nat) : Stmt → Prop
  | setIdx (i : Int) (a : Atom) : (∀ y, a ≠ .var y) → FlatStmt x (.setIdx x [i] (.atom a))
  | append (a : Atom) : (∀ y, a ≠ .var y) → FlatStmt x (.append x [] (.atom a))
  | pop (y : Nat) : y ≠ x → FlatStmt x (.pop y x [])
  | remove (y : Nat) (i : Int) : y ≠ x → FlatStmt x (.remove y x [] i)

theorem Atoms.set {p : List Val} (ha : Atoms p) (j : Nat) {v : Val} (hv : ∀ k, v ≠ .ref k) : Atoms (p.set j v) := by
  intro w hw k
  rcases List.mem_or_eq_of_mem_set hw with h | rfl
  · exact ha w h k
  · exact hv k

theorem setIndex_flat {h : Heap} {id : Nat} {v : Val} (i : Int) (h1 : rcOf h id = 1) (hk : keysOf h id = none)
    (ha : Atoms (payloadOf h id)) (hv : ∀ k, v ≠ .ref k) :
    (setIndex h (.ref id) [i] v).v = .ref id ∧ rcOf (setIndex h (.ref id) [i] v).h id = 1 ∧
    keysOf (setIndex h (.ref id) [i] v).h id = none ∧
    Atoms (payloadOf (setIndex h (.ref id) [i] v).h id) := by
  have hl : id < h.allocs.length := lt_of_rcOf_pos (by omega)
  unfold setIndex
  rw [walk_ref_cons, makeMut_of_unique h1]
  dsimp only
  cases hp : slotOf h id i with
  | none =>
    have e : walkMissing (setLeaf v) h id i [] = ⟨h, .ref id, .null, false⟩ := by
      simp only [walkMissing, hk]
    rw [e]
    simp only [Bool.false_eq_true, if_false, drop_atom _ _ hv]
    exact ⟨trivial, h1, hk, ha⟩
  | some j =>
    have hj := slotOf_lt hp
    have hc : ∀ k, (payloadOf h id).getD j .null ≠ .ref k := ha _ (getD_mem _ hj)
    simp only [walkStep, walk_nil, setLeaf, drop_atom _ _ hc, if_true]
    refine ⟨trivial, by rw [rcOf_setPayload, rcOf_setPayload]; exact h1,
      by rw [keysOf_setPayload, keysOf_setPayload]; exact hk, ?_⟩
    rw [payloadOf_setPayload]; simp only [setPayload_length, hl, and_self, if_true]
    rw [payloadOf_setPayload]; simp only [hl, and_self, if_true]
    exact (ha.set j (by intro k; simp)).set j hv

theorem cellOf_set_same (cells : List Val) (h : Heap) (x : Nat) (v : Val) (hx : x < cells.length) :
    cellOf ⟨h, cells.set x v⟩ x = v := getD_set_self _ _ _ _ hx

theorem cellOf_set_ne (cells : List Val) (h : Heap) (x y : Nat) (v : Val) (hne : y ≠ x) :
    cellOf ⟨h, cells.set y v⟩ x = cells.getD x .null := getD_set_ne _ _ _ _ _ hne

/-- writing another variable's cell (dropping its old value) leaves a uniquely held flat list alone -/
theorem writeCell_keeps_flat {h : Heap} {cells : List Val} {x y id : Nat} {v : Val}
    (i : Inv h (v :: cells)) (hx : x < cells.length) (hy : y < cells.length) (hne : y ≠ x)
    (hc : cells.getD x .null = .ref id) (h1 : rcOf h id = 1) (hk : keysOf h id = none)
    (ha : Atoms (payloadOf h id)) :
    FlatUniq (writeCell h cells y v) x := by
  have i1 : Inv h (cells.getD y .null :: (v :: cells.set y .null)) := by
    have := inv_take_cell (T := [v]) hy (by simpa using i)
    simpa using this
  have D := drop_tr i1
  have hm : Val.ref id ∈ v :: cells.set y .null := by
    rw [← hc]
    refine List.mem_cons_of_mem _ ?_
    have : (cells.set y .null).getD x .null = cells.getD x .null := getD_set_ne _ _ _ _ _ hne
    rw [← this]
    exact getD_mem _ (by simpa using hx)
  obtain ⟨k1, k2⟩ := D.keeps_unique hm h1
  have k3 := D.keeps_keys hm h1
  refine ⟨id, ?_, k1, by simp only [writeCell]; rw [k3]; exact hk, by simp only [writeCell]; rw [k2]; exact ha⟩
  simp only [writeCell]
  rw [cellOf_set_ne _ _ _ _ _ hne]; exact hc

theorem atoms_dropLast {p : List Val} (ha : Atoms p) : Atoms p.dropLast :=
  fun v hv k => ha v (List.dropLast_subset p hv) k
theorem atoms_eraseIdx {p : List Val} (ha : Atoms p) (j : Nat) : Atoms (p.eraseIdx j) :=
  fun v hv k => ha v (List.mem_of_mem_eraseIdx hv) k

/-- one in-place-eligible statement on an unshared flat list copies nothing and leaves it unshared -/
theorem flat_step (s : State) (σ : Store) (x : Nat) (st : Stmt) (R : Refines s σ) (hx : x < s.cells.length)
    (fu : FlatUniq s x) (hst : FlatStmt x st) :
    (step s st).1.h.copied = s.h.copied ∧ FlatUniq (step s st).1 x := by
  obtain ⟨id, hc, h1, hk, ha⟩ := fu
  have hl : id < s.h.allocs.length := lt_of_rcOf_pos (by omega)
  have hd : declared s x = true := by simp [declared, hx]
  cases hst with
  | setIdx i a hna =>
    refine ⟨index_assignment_copies_nothing s σ x [i] a hna R hx (by rw [hc]; simp [PathUniq, h1]), ?_⟩
    have e1 : (evalRhs s (.atom a)).1 = s.h := evalAtom_const_heap s s.h a hna
    have hv := atom_val s s.h a hna
    obtain ⟨f1, f2, f3, f4⟩ := setIndex_flat (v := (evalRhs s (.atom a)).2) i h1 hk ha hv
    simp only [step, hd, if_true, withCell, e1, hc]
    exact ⟨id, by rw [cellOf_set_same _ _ _ _ hx]; exact f1, f2, f3, f4⟩
  | append a hna =>
    obtain ⟨_, a2, a3, _, a5, a6, a7⟩ := append_unique_state s x id a hna hx hc h1 hk
    refine ⟨a3, id, ?_, a5, a7, ?_⟩
    · simp only [cellOf, a2]; exact hc
    · rw [a6]
      intro v hv k
      rcases List.mem_append.1 hv with h | h
      · exact ha v h k
      · simp at h; rw [h]; exact atom_val s s.h a hna k
  | pop y hne =>
    by_cases hy : y < s.cells.length
    · have hd2 : (declared s x = true ∧ declared s y = true) := by simp [declared, hx, hy]
      refine ⟨pop_copies_nothing s σ y x [] R hx hy (by simp [PathUniq]) (by rw [hc]; simpa [EndUniq] using h1), ?_⟩
      obtain ⟨_, hlen, W⟩ := withCell_walk popLeaf_spec popLeaf_ins (T := []) [] hx (by simpa using R.inv) R.sim
      simp only [step, hd2, and_self, if_true]
      simp only [withCell, walk_nil, hc, popLeaf, popAct, hk, makeMut_of_unique h1] at W ⊢
      cases hg : (payloadOf s.h id).getLast? with
      | none =>
        simp only [Bool.false_eq_true, if_false]
        exact ⟨id, by rw [cellOf_set_same _ _ _ _ hx], h1, hk, ha⟩
      | some xv =>
        simp only [hg] at W
        simp only [if_true]
        cases hm : Store.modPath Store.popφ (σ.getD x .null) [] with
        | none => rw [hm] at W; simp at W
        | some tr =>
          obtain ⟨t', r⟩ := tr
          rw [hm] at W
          refine writeCell_keeps_flat (by simpa using W.2.1) (by simpa using hx) (by simpa using hy) hne
            (getD_set_self _ _ _ _ hx) (by rw [rcOf_setPayload]; exact h1)
            (by rw [keysOf_setPayload]; exact hk) ?_
          rw [payloadOf_setPayload]; simp only [hl, and_self, if_true]
          exact atoms_dropLast ha
    · have hd2 : ¬ (declared s x = true ∧ declared s y = true) := by simp [declared, hy]
      simp only [step, hd2, if_false]
      exact ⟨trivial, id, hc, h1, hk, ha⟩
  | remove y i hne =>
    by_cases hy : y < s.cells.length
    · have hd2 : (declared s x = true ∧ declared s y = true) := by simp [declared, hx, hy]
      refine ⟨remove_copies_nothing s σ y x [] i R hx hy (by simp [PathUniq]) (by rw [hc]; simpa [EndUniq] using h1), ?_⟩
      obtain ⟨_, hlen, W⟩ := withCell_walk (removeLeaf_spec i) (removeLeaf_ins i) (T := []) [] hx (by simpa using R.inv) R.sim
      simp only [step, hd2, and_self, if_true]
      simp only [withCell, walk_nil, hc, removeLeaf, removeAct, hk] at W ⊢
      cases hp : pyIndex (payloadOf s.h id).length i with
      | none =>
        simp only [Bool.false_eq_true, if_false]
        exact ⟨id, by rw [cellOf_set_same _ _ _ _ hx], h1, hk, ha⟩
      | some j =>
        simp only [hp, makeMut_of_unique h1] at W
        simp only [makeMut_of_unique h1, if_true]
        cases hm : Store.modPath (Store.removeφ i) (σ.getD x .null) [] with
        | none => rw [hm] at W; simp at W
        | some tr =>
          obtain ⟨t', r⟩ := tr
          rw [hm] at W
          refine writeCell_keeps_flat (by simpa using W.2.1) (by simpa using hx) (by simpa using hy) hne
            (getD_set_self _ _ _ _ hx) (by rw [rcOf_setPayload]; exact h1)
            (by rw [keysOf_setPayload]; exact hk) ?_
          rw [payloadOf_setPayload]; simp only [hl, and_self, if_true]
          exact atoms_eraseIdx ha j
    · have hd2 : ¬ (declared s x = true ∧ declared s y = true) := by simp [declared, hy]
      simp only [step, hd2, if_false]
      exact ⟨trivial, id, hc, h1, hk, ha⟩

theorem spec_appendFinish_length (σ : Store) (x : Nat) (path : List Int) (tl tv : Tree) :
    (Store.appendFinish σ x path tl tv).1.length = σ.length := by
  unfold Store.appendFinish
  split <;> split <;> simp

theorem spec_step_length (σ : Store) (st : Stmt) : (Store.step σ st).1.length = σ.length := by
  cases st with
  | assign x r => simp only [Store.step]; split <;> simp
  | setIdx x path r =>
    simp only [Store.step]
    split
    · split <;> simp
    · rfl
  | append x path r =>
    simp only [Store.step]
    split
    · split
      · rfl
      · exact spec_appendFinish_length _ _ _ _ _
    · rfl
  | pop y x path => simp only [Store.step, Store.extract]; split <;> (try split) <;> simp
  | remove y x path i => simp only [Store.step, Store.extract]; split <;> (try split) <;> simp
  | consume y x path => simp only [Store.step, Store.extract]; split <;> (try split) <;> simp
  | swap x px y py =>
    simp only [Store.step]
    split
    · split
      · split
        · rfl
        · split <;> simp
      · rfl
    · rfl
  | update y x i a =>
    simp only [Store.step]
    split
    · split <;> simp
    · rfl
  | callAppend y x a =>
    simp only [Store.step]
    split
    · split <;> simp
    · rfl
  | appendPop x path y ypath =>
    simp only [Store.step]
    split
    · split
      · rfl
      · split
        · rfl
        · rw [spec_appendFinish_length]; simp
    · rfl

theorem step_cells_length {s : State} {σ : Store} (R : Refines s σ) (st : Stmt) :
    (step s st).1.cells.length = s.cells.length := by
  have R' := (step_ok R st).1
  rw [R'.len, spec_step_length, ← R.len]

/-- **`unshared_mutation_copies_nothing`**: on a variable holding the only handle of a flat list, ANY
sequence of k in-place-eligible statements (`x[i] = v`, `x append= v`, `pop x`, `remove x[i]`) copies
nothing — `copied` is unchanged after the whole sequence, for every k and every list length — and the
list is still unshared afterwards. -/
theorem unshared_mutation_copies_nothing (x : Nat) (stmts : List Stmt) :
    ∀ (s : State) (σ : Store), Refines s σ → x < s.cells.length → FlatUniq s x →
      (∀ st ∈ stmts, FlatStmt x st) →
      (RcHeap.run s stmts).h.copied = s.h.copied ∧ FlatUniq (RcHeap.run s stmts) x ∧
      (RcHeap.run s stmts).h.pushes ≤ s.h.pushes + stmts.length := by
  induction stmts with
  | nil => intro s σ _ _ fu _; exact ⟨rfl, fu, by simp [RcHeap.run]⟩
  | cons st rest ih =>
    intro s σ R hx fu hall
    obtain ⟨c1, fu1⟩ := flat_step s σ x st R hx fu (hall st (by simp))
    have R1 := (step_ok R st).1
    have hx1 : x < (step s st).1.cells.length := by rw [step_cells_length R]; exact hx
    obtain ⟨c2, fu2, p2⟩ := ih _ _ R1 hx1 fu1 (fun st' h' => hall st' (by simp [h']))
    have p1 := step_pushes_le s st
    refine ⟨by simp only [RcHeap.run]; rw [c2, c1], fu2, ?_⟩
    simp only [RcHeap.run, List.length_cons]
    omega

/-- **`total_cost_linear`** (unshared case): k eligible statements on an unshared list cost at most k
element moves in total (0 copied + ≤ k pushed), independent of the list's length n — O(n + k) overall
rather than O(n·k). -/
theorem total_cost_linear (x : Nat) (stmts : List Stmt) (s : State) (σ : Store) (R : Refines s σ)
    (hx : x < s.cells.length) (fu : FlatUniq s x) (hall : ∀ st ∈ stmts, FlatStmt x st) :
    (RcHeap.run s stmts).h.copied + (RcHeap.run s stmts).h.pushes ≤ s.h.copied + s.h.pushes + stmts.length := by
  obtain ⟨c, _, p⟩ := unshared_mutation_copies_nothing x stmts s σ R hx fu hall
  omega

/-- non-vacuity: a fresh list of 5 zeros in variable 0 is `FlatUniq`, and 4 mixed statements copy nothing -/
example : (RcHeap.run (State.init 2)
    [.assign 0 (.rep (.int 0) 5), .setIdx 0 [2] (.atom (.int 7)), .append 0 [] (.atom (.int 1)),
     .pop 1 0 [], .remove 1 0 [] (-1)]).h.copied = 0 := by decide

/-- … whereas with one alias the first mutation copies the 5 elements exactly once -/
example : (RcHeap.run (State.init 2)
    [.assign 0 (.rep (.int 0) 5), .assign 1 (.atom (.var 0)), .setIdx 0 [2] (.atom (.int 7)),
     .append 0 [] (.atom (.int 1)), .setIdx 0 [0] (.atom (.int 7))]).h.copied = 5 := by decide

/-! ### shared: copied once, then in place again -/

theorem setIndex_via_makeMut (h : Heap) (id : Nat) (i : Int) (rest : List Int) (v : Val)
    (h1 : rcOf (makeMut h id).1 (makeMut h id).2 = 1) :
    setIndex h (.ref id) (i :: rest) v = setIndex (makeMut h id).1 (.ref (makeMut h id).2) (i :: rest) v := by
  unfold setIndex
  rw [walk_ref_cons, walk_ref_cons, makeMut_of_unique h1]

/-- **`shared_mutation_copies_once`**: the variable's list has additional holders (strong count ≥ 2).
The first index assignment copies the payload exactly once (`copied` grows by the list's length — even
when the index turns out to be out of range, because `make_mut` runs before the bounds check) and leaves
the variable with a fresh allocation of count 1 … -/
theorem shared_mutation_copies_once (s : State) (σ : Store) (x id : Nat) (i : Int) (a : Atom)
    (hna : ∀ y, a ≠ .var y) (R : Refines s σ) (hx : x < s.cells.length)
    (hc : cellOf s x = .ref id) (hr : 2 ≤ rcOf s.h id) (hkn : keysOf s.h id = none)
    (hat : Atoms (payloadOf s.h id)) :
    (step s (.setIdx x [i] (.atom a))).1.h.copied = s.h.copied + (payloadOf s.h id).length ∧
    FlatUniq (step s (.setIdx x [i] (.atom a))).1 x := by
  have hd : declared s x = true := by simp [declared, hx]
  have e1 : (evalRhs s (.atom a)).1 = s.h := evalAtom_const_heap s s.h a hna
  have hv := atom_val s s.h a hna
  have i1 : Inv s.h (.ref id :: s.cells.set x .null) := by
    have := inv_take_cell (T := []) hx (by simpa using R.inv)
    exact this.congr (fun k => by rw [← hc]; simp [cellOf])
  have MS := makeMut_spec i1
  have hat' : Atoms (payloadOf (makeMut s.h id).1 (makeMut s.h id).2) := by rw [MS.pay]; exact hat
  obtain ⟨f1, f2, f3, f4⟩ := setIndex_flat (v := (evalRhs s (.atom a)).2) i MS.rc1
    (by rw [MS.keys]; exact hkn) hat' hv
  have hcop : (setIndex (makeMut s.h id).1 (.ref (makeMut s.h id).2) [i] (evalRhs s (.atom a)).2).h.copied
      = (makeMut s.h id).1.copied :=
    setIndex_nocopy (T := s.cells.set x .null) [i] (by simpa using MS.tr.inv) (by simp [PathUniq, MS.rc1])
  simp only [step, hd, if_true, withCell, e1, hc, setIndex_via_makeMut _ _ _ _ _ MS.rc1]
  refine ⟨?_, (makeMut s.h id).2, by rw [cellOf_set_same _ _ _ _ hx]; exact f1, f2, f3, f4⟩
  rw [hcop, makeMut_copied]
  have : ¬ rcOf s.h id ≤ 1 := by omega
  simp [this]

/-- … and every later eligible statement is in place again: over the whole sequence the list is copied
exactly once (one copy for the one mutation by a non-last holder). -/
theorem shared_then_in_place (s : State) (σ : Store) (x id : Nat) (i : Int) (a : Atom) (rest : List Stmt)
    (hna : ∀ y, a ≠ .var y) (R : Refines s σ) (hx : x < s.cells.length)
    (hc : cellOf s x = .ref id) (hr : 2 ≤ rcOf s.h id) (hkn : keysOf s.h id = none)
    (hat : Atoms (payloadOf s.h id))
    (hall : ∀ st ∈ rest, FlatStmt x st) :
    (RcHeap.run s (.setIdx x [i] (.atom a) :: rest)).h.copied = s.h.copied + (payloadOf s.h id).length := by
  obtain ⟨c1, fu1⟩ := shared_mutation_copies_once s σ x id i a hna R hx hc hr hkn hat
  have R1 := (step_ok R (.setIdx x [i] (.atom a))).1
  have hx1 : x < (step s (.setIdx x [i] (.atom a))).1.cells.length := by rw [step_cells_length R]; exact hx
  obtain ⟨c2, _, _⟩ := unshared_mutation_copies_nothing x rest _ _ R1 hx1 fu1 hall
  simp only [RcHeap.run]
  rw [c2, c1]

/-! ### full-strength statements (both proved further below) -/

/-- Statement: `x[i]…[j] append= v` with count 1 on every level of the path and on the addressed list
copies nothing.  Proved as `nested_opassign_copies_nothing` below (the special case `path = []` is
`opassign_callee_unique`). -/
def nested_opassign_copies_nothing_statement : Prop :=
  ∀ (s : State) (σ : Store) (x : Nat) (path : List Int) (a : Atom), (∀ y, a ≠ .var y) → Refines s σ →
    x < s.cells.length → PathUniq s.h (cellOf s x) path → EndUniq s.h (cellOf s x) path →
    (step s (.append x path (.atom a))).1.h.copied = s.h.copied

/-- every allocation reachable from `v` has count 1 -/
def FullUniq (h : Heap) (v : Val) : Prop := ∀ id, Reach h [v] (.ref id) → rcOf h id = 1

/-- Statement: a whole sequence of eligible statements (any index paths) on a fully unshared NESTED
value copies nothing.  Proved as `unshared_nested_sequence` below: the invariant "every allocation
reachable from the variable has count 1" (`UniqN`) is preserved by every eligible statement. -/
def unshared_nested_sequence_statement : Prop :=
  ∀ (x : Nat) (stmts : List Stmt) (s : State) (σ : Store), Refines s σ → x < s.cells.length →
    FullUniq s.h (cellOf s x) →
    (∀ st ∈ stmts, (∃ p n, st = .setIdx x p (.atom (.int n))) ∨ (∃ y p, y ≠ x ∧ st = .pop y x p)) →
    (RcHeap.run s stmts).h.copied = s.h.copied

/-! ### whole sequences on a fully unshared NESTED value -/

theorem reach_child {h : Heap} {id : Nat} {c w : Val} (hc : c ∈ payloadOf h id) (r : Reach h [c] w) :
    Reach h [.ref id] w := by
  induction r with
  | root hm =>
    cases List.mem_singleton.1 hm
    exact .step (.root (by simp)) hc
  | step _ hm ih => exact .step ih hm

/-- on a represented value, "every reachable allocation has count 1" is the structural `UniqN` -/
theorem uniqN_of_fullUniq : ∀ (k : Nat) (h : Heap) (v : Val) (t : Tree), RepN k h v t → FullUniq h v → UniqN k h v := by
  intro k
  induction k with
  | zero => intro h v t r _; cases v <;> simp at r ⊢
  | succ k ih =>
    intro h v t r fu
    cases v with
    | null => simp
    | int n => simp
    | ref id =>
      obtain ⟨k1, hk1, _, _, _, _, a⟩ := RepN_ref_inv r
      have hk : k1 = k := by omega
      subst hk
      simp only [UniqN_succ_ref]
      refine ⟨fu id (.root (by simp)), ?_⟩
      have : ∀ (vs : List Val) (ts : List Tree), All2 (RepN k1 h) vs ts → (∀ c ∈ vs, c ∈ payloadOf h id) →
          ∀ c ∈ vs, UniqN k1 h c := by
        intro vs
        induction vs with
        | nil => intro ts _ _ c hc; simp at hc
        | cons v vs ihv =>
          intro ts a hsub c hc
          cases ts with
          | nil => simp at a
          | cons t ts =>
            simp only [All2.cons_cons] at a
            rcases List.mem_cons.1 hc with rfl | hc'
            · exact ih h _ t a.1 (fun m rm => fu m (reach_child (hsub _ (by simp)) rm))
            · exact ihv ts a.2 (fun c hc => hsub c (by simp [hc])) c hc'
      exact this _ _ a (fun c hc => hc)

/-- variable `x` holds a fully unshared (arbitrarily nested) value -/
def NestedUniq (s : State) (x : Nat) : Prop := ∃ k, UniqN k s.h (cellOf s x)

/-- in-place-eligible statements on a nested value held by `x` -/
inductive NestedStmt (x : Nat) : Stmt → Prop
  | setIdx (p : List Int) (n : Int) : NestedStmt x (.setIdx x p (.atom (.int n)))
  | pop (y : Nat) (p : List Int) : y ≠ x → NestedStmt x (.pop y x p)

/-- one eligible statement on a fully unshared nested value copies nothing and leaves it fully unshared -/
theorem nested_step (s : State) (σ : Store) (x : Nat) (st : Stmt) (R : Refines s σ) (hx : x < s.cells.length)
    (nu : NestedUniq s x) (hst : NestedStmt x st) :
    (step s st).1.h.copied = s.h.copied ∧ NestedUniq (step s st).1 x := by
  obtain ⟨k, uk⟩ := nu
  have hd : declared s x = true := by simp [declared, hx]
  have rx : Rep s.h (cellOf s x) (σ.getD x .null) := All2.getD x _ _ R.sim hx
  cases hst with
  | setIdx p n =>
    refine ⟨index_assignment_copies_nothing s σ x p (.int n) (by intro y; simp) R hx (UniqN_pathUniq p uk), ?_⟩
    have i1 : Inv s.h (cellOf s x :: [Val.int n] ++ s.cells.set x .null) := by
      have := inv_take_cell (T := []) hx (by simpa using R.inv)
      exact this.congr (fun k => by simp [cellOf, occ_cons])
    have W := walk_uniq (setLeaf_spec (.int n) (.int n)) (setLeaf_ins _ _) (setLeaf_leafU (.int n) (by intro j; simp))
      (setLeaf_insAtom _ (by intro j; simp)) p s.h
      (cellOf s x) (s.cells.set x .null) _ k i1 rx (by simpa using Rep_int n) uk
    simp only [step, hd, if_true, withCell, evalRhs, evalAtom, setIndex]
    refine ⟨k, ?_⟩
    by_cases hok : (walk (setLeaf (Val.int n)) s.h (cellOf s x) p).ok = true
    · simp only [hok, if_true, cellOf_set_same _ _ _ _ hx]; exact W.1
    · simp only [hok, if_false, cellOf_set_same _ _ _ _ hx, drop_atom _ (Val.int n) (by intro j; simp)]; exact W.1
  | pop y p hne =>
    by_cases hy : y < s.cells.length
    · have hd2 : (declared s x = true ∧ declared s y = true) := by simp [declared, hx, hy]
      refine ⟨pop_copies_nothing s σ y x p R hx hy (UniqN_pathUniq p uk) (UniqN_endUniq p uk), ?_⟩
      have i1 : Inv s.h (cellOf s x :: [] ++ s.cells.set x .null) := by
        have := inv_take_cell (T := []) hx (by simpa using R.inv)
        exact this.congr (fun k => by simp [cellOf])
      have W := walk_uniq popLeaf_spec popLeaf_ins popLeaf_leafU popLeaf_insAtom p s.h (cellOf s x) (s.cells.set x .null) _ k i1 rx trivial uk
      obtain ⟨_, hlen, WW⟩ := withCell_walk popLeaf_spec popLeaf_ins (T := []) p hx (by simpa using R.inv) R.sim
      simp only [step, hd2, and_self, if_true]
      simp only [withCell] at WW ⊢
      obtain ⟨w, hw⟩ : ∃ w, walk popLeaf s.h (cellOf s x) p = w := ⟨_, rfl⟩
      simp only [hw] at W WW ⊢
      cases hok : w.ok with
      | false =>
        simp only [Bool.false_eq_true, if_false]
        exact ⟨k, by rw [cellOf_set_same _ _ _ _ hx]; exact W.1⟩
      | true =>
        simp only [if_true]
        cases hm : Store.modPath Store.popφ (σ.getD x .null) p with
        | none => rw [hm] at WW; simp [hok] at WW
        | some tr =>
          obtain ⟨t', r⟩ := tr
          rw [hm] at WW
          -- writing y drops its old value next to the (fully unshared) new value of x
          have iy : Inv w.h ((s.cells.set x w.v).getD y .null :: (w.r :: (s.cells.set x w.v).set y .null)) := by
            have := inv_take_cell (T := [w.r]) (x := y) (cells := s.cells.set x w.v) (by simpa using hy)
              (by simpa using WW.2.1)
            simpa using this
          have hmem : w.v ∈ w.r :: (s.cells.set x w.v).set y .null := by
            refine List.mem_cons_of_mem _ ?_
            have e1 : ((s.cells.set x w.v).set y .null).getD x .null = w.v := by
              rw [getD_set_ne _ _ _ _ _ hne]; exact getD_set_self _ _ _ _ hx
            have := getD_mem (l := (s.cells.set x w.v).set y .null) (j := x) Val.null (by simpa using hx)
            rwa [e1] at this
          refine ⟨k, ?_⟩
          simp only [writeCell]
          rw [cellOf_set_ne _ _ _ _ _ hne, getD_set_self _ _ _ _ hx]
          exact drop_uniq iy hmem W.1
    · have hd2 : ¬ (declared s x = true ∧ declared s y = true) := by simp [declared, hy]
      simp only [step, hd2, if_false]
      exact ⟨trivial, k, uk⟩

theorem nested_run (x : Nat) (stmts : List Stmt) :
    ∀ (s : State) (σ : Store), Refines s σ → x < s.cells.length → NestedUniq s x →
      (∀ st ∈ stmts, NestedStmt x st) →
      (RcHeap.run s stmts).h.copied = s.h.copied ∧ NestedUniq (RcHeap.run s stmts) x := by
  induction stmts with
  | nil => intro s σ _ _ nu _; exact ⟨rfl, nu⟩
  | cons st rest ih =>
    intro s σ R hx nu hall
    obtain ⟨c1, nu1⟩ := nested_step s σ x st R hx nu (hall st (by simp))
    have R1 := (step_ok R st).1
    have hx1 : x < (step s st).1.cells.length := by rw [step_cells_length R]; exact hx
    obtain ⟨c2, nu2⟩ := ih _ _ R1 hx1 nu1 (fun st' h' => hall st' (by simp [h']))
    exact ⟨by simp only [RcHeap.run]; rw [c2, c1], nu2⟩

/-- **`unshared_nested_sequence`**: a whole sequence of in-place-eligible statements (index assignments
of ints at ANY index paths, pops at any paths) on a fully unshared NESTED value copies nothing: the
invariant "every allocation reachable from the variable has count 1" is preserved by every eligible
statement (`nested_step`), and under it every `make_mut` on every path is in place. -/
theorem unshared_nested_sequence : unshared_nested_sequence_statement := by
  intro x stmts s σ R hx fu hall
  have rx : Rep s.h (cellOf s x) (σ.getD x .null) := All2.getD x _ _ R.sim hx
  obtain ⟨k, rk⟩ := rx
  have nu : NestedUniq s x := ⟨k, uniqN_of_fullUniq k _ _ _ rk fu⟩
  refine (nested_run x stmts s σ R hx nu (fun st hst => ?_)).1
  rcases hall st hst with ⟨p, n, rfl⟩ | ⟨y, p, hne, rfl⟩
  · exact .setIdx p n
  · exact .pop y p hne

/-! ### operator-assignment through an index path -/

/-- the second half of `x[path] append= v` (drop_lhs, operator, assign) copies nothing when the levels of
the path have count 1 and the operator's argument `l` (the old slot value) shares its allocation only
with the slot (count 2 = slot + argument) -/
theorem appendFinish_nocopy {s : State} {h : Heap} {σ : Store} {x : Nat} {l ev : Val} {tl tv : Tree}
    (path : List Int) (hx : x < s.cells.length) (i : Inv h (ev :: l :: s.cells))
    (sim : All2 (Rep h) s.cells σ) (rl : Rep h l tl) (re : Rep h ev tv) (hev : ∀ j, ev ≠ .ref j)
    (pu : PathUniq h (cellOf s x) path) (hv : valAt h (cellOf s x) path = some l)
    (h2 : ∀ m, l = .ref m → rcOf h m = 2) :
    (appendFinish s h x path l ev).1.h.copied = h.copied := by
  have rx : Rep h (cellOf s x) (σ.getD x .null) := All2.getD x _ _ sim hx
  have iv : Inv h (cellOf s x :: (ev :: l :: s.cells.set x .null)) := by
    have := inv_take_cell (T := [ev, l]) hx (by simpa using i)
    exact this.congr (fun k => by simp [cellOf, occ_cons, occ_append])
  have hnull : ∀ j, Val.null ≠ .ref j := by intro j; simp
  obtain ⟨eh, evv⟩ := setIndex_atom h (cellOf s x) path .null hnull
  have D := withCell_setIndex (s := s) (T := [ev, l]) (new := .null) path hx
    (i.congr (fun k => by simp [occ_cons])) sim Rep_null
  have cD : (setIndex h (cellOf s x) path .null).h.copied = h.copied := setIndex_nocopy path iv pu
  simp only [appendFinish]
  simp only [withCell] at D ⊢
  obtain ⟨d, hd⟩ : ∃ d, setIndex h (cellOf s x) path .null = d := ⟨_, rfl⟩
  simp only [hd] at D cD eh evv ⊢
  obtain ⟨id, std, _⟩ := D
  by_cases hok : d.ok = true
  · simp only [hok, if_true]
    have rl3 : Rep d.h l tl := std.rep (.root (by simp)) rl
    have re3 : Rep d.h ev tv := std.rep (.root (by simp)) re
    have id' : Inv d.h (l :: ev :: s.cells.set x d.v) := id.congr (fun k => by simp [occ_cons, occ_append]; omega)
    cases l with
    | null => simp only [appendOp, drop_copied]; exact cD
    | int n => simp only [appendOp, drop_copied]; exact cD
    | ref m =>
      have hm2 := h2 m rfl
      -- after drop_lhs the operator's argument is the only handle
      have rc1 : rcOf d.h m = 1 := by
        rw [eh]; exact walk_set_leaf_rc .null path h (cellOf s x) _ m iv pu hv hm2
      obtain ⟨hzm, hcm, hlm⟩ := unique_facts id' rc1
      have hxl : x < (s.cells.set x d.v).length := by simpa using hx
      have hv3 : (s.cells.set x d.v).getD x .null = d.v := getD_set_self _ _ _ _ hx
      have hv3ne : d.v ≠ .ref m := by
        have hmem : d.v ∈ ev :: s.cells.set x d.v := by
          refine List.mem_cons_of_mem _ ?_
          have := getD_mem (l := s.cells.set x d.v) (j := x) Val.null hxl
          rwa [hv3] at this
        exact ne_ref_of_occ_zero hcm hmem
      -- the levels of the path still have count 1 after drop_lhs …
      have pu3 : PathUniq d.h d.v path := by
        rw [eh, evv]
        exact walk_set_pathUniq (new := .null) (tn := .null) path h (cellOf s x) (ev :: .ref m :: s.cells.set x .null) _
          (iv.congr (fun k => by simp [occ_cons])) rx Rep_null pu
      obtain ⟨hcl, _, hkl, _, _⟩ := Rep_ref_inv rl3
      cases tl with
      | null => simp at hcl
      | int n => simp at hcl
      | dict ks vs =>
        simp only [Tree.keysT_dict] at hkl
        rw [appendOp_dict _ _ _ hkl]
        simp only [drop_copied]; exact cD
      | list ts =>
      simp only [Tree.keysT_list] at hkl
      have A := appendOp_spec (F := s.cells.set x d.v) id' rl3 re3
      dsimp only at A
      obtain ⟨c, hc, trc, _⟩ := A
      rw [appendOp_ref _ _ _ hkl] at hc trc ⊢
      simp only [makeMut_of_unique rc1] at hc trc ⊢
      injection hc with hc
      subst hc
      dsimp only [cellOf]
      rw [hv3]
      -- … and after the (in place) push
      have ea : (appendHeap d.h m ev).allocs = (setPayload d.h m (payloadOf d.h m ++ [ev])).allocs := by
        simp [appendHeap, makeMut_of_unique rc1]
      have pu4 : PathUniq (appendHeap d.h m ev) d.v path :=
        PathUniq_allocs_eq ea path _ (PathUniq_frame _ hzm rfl path _ hv3ne pu3)
      have i4 : Inv (appendHeap d.h m ev) (d.v :: (.ref m :: (s.cells.set x d.v).set x .null)) := by
        have := inv_take_cell (T := [Val.ref m]) hxl (by simpa using trc.inv)
        rw [hv3] at this
        simpa using this
      rw [setIndex_nocopy path i4 pu4]
      simp only [appendHeap, makeMut_of_unique rc1, setPayload_copied]
      exact cD
  · simp only [hok, Bool.false_eq_true, if_false, drop_copied]; exact cD

/-- **`nested_opassign_copies_nothing`**: `x[i]…[j] append= v` with strong count 1 on every level of the
path and on the addressed list copies nothing, at any nesting depth.  The variable read clones the
handles level by level and drops them again (`readPath_unique`: the heap afterwards is exactly the old
heap plus one clone of the addressed list, count 2); `drop_lhs` walks the path in place and removes the
slot's handle (count 1: `walk_set_leaf_rc`); `Append::run2`'s `make_mut` is therefore in place; the
final assignment walks the same, still count-1, path (`walk_set_pathUniq`). -/
theorem nested_opassign_copies_nothing : nested_opassign_copies_nothing_statement := by
  intro s σ x path a hna R hx pu eu
  have hd : declared s x = true := by simp [declared, hx]
  have rx : Rep s.h (cellOf s x) (σ.getD x .null) := All2.getD x _ _ R.sim hx
  have RU := readPath_unique path rx pu
  have RL := readLvalue_spec (s := s) (h := s.h) (T := []) x path (by simpa using R.inv) R.sim
  simp only [step, hd, if_true, readVar]
  cases hv : valAt s.h (cellOf s x) path with
  | none =>
    rw [hv] at RU
    simp only [RU]
    rw [readPath_copied, dup_copied]
  | some l =>
    rw [hv] at RU
    obtain ⟨tl, hg, rl⟩ := valAt_rep path rx hv
    rw [hg] at RL
    obtain ⟨c, hc, il, stl, rc⟩ := RL
    rw [RU] at hc il stl rc
    injection hc with hc
    subst hc
    simp only [RU]
    have sim1 : All2 (Rep (dup s.h l)) s.cells σ := sim_stable (T := []) R.sim (by simpa using stl)
    have e1 : (evalRhs ⟨dup s.h l, s.cells⟩ (.atom a)).1 = dup s.h l := evalAtom_const_heap _ _ a hna
    have hev : ∀ j, (evalRhs ⟨dup s.h l, s.cells⟩ (.atom a)).2 ≠ .ref j := atom_val _ _ a hna
    obtain ⟨ev, hevv⟩ : ∃ ev, (evalRhs ⟨dup s.h l, s.cells⟩ (.atom a)).2 = ev := ⟨_, rfl⟩
    rw [e1, hevv]
    rw [hevv] at hev
    have re : Rep (dup s.h l) ev (match ev with | .int n => .int n | _ => .null) := by
      cases ev with
      | null => exact Rep_null
      | int n => exact Rep_int n
      | ref j => exact absurd rfl (hev j)
    have ii : Inv (dup s.h l) (ev :: l :: s.cells) := by
      refine Inv.congr (fun k => ?_) (by simpa using il : Inv (dup s.h l) (l :: s.cells))
      cases ev with
      | null => simp [occ_cons]
      | int n => simp [occ_cons]
      | ref j => exact absurd rfl (hev j)
    have hcell : cellOf ⟨s.h, s.cells⟩ x = cellOf s x := rfl
    have pu2 : PathUniq (dup s.h l) (cellOf s x) path := pathUniq_dup_leaf path rx pu hv
    have hv2 : valAt (dup s.h l) (cellOf s x) path = some l := by
      rw [valAt_congr (fun i => payloadOf_dup s.h l i) (fun i => keysOf_dup s.h l i)]; exact hv
    have h22 : ∀ m, l = .ref m → rcOf (dup s.h l) m = 2 := by
      intro m e
      subst e
      have := endUniq_valAt path eu hv
      rw [rcOf_dup _ _ _ rl.live, this]; simp [occ_cons_ref]
    have := appendFinish_nocopy (s := s) (σ := σ) path hx ii sim1 rc re hev pu2 hv2 h22
    rw [this, dup_copied]

end Noulith.C02
