/-
C01 helper lemmas, part 6: statement-level plumbing — `setIndex`, `readPath`, `appendOp`, evaluation
of right-hand sides, and moving values in and out of variable cells.
-/
import NoulithModel.Lemmas.HeapLeaf

namespace Noulith.RcHeap
open Noulith.Store (Tree modPath pyIdx setφ takeφ popφ removeφ getPath setPath LeafT dictSlot)

/-- statement-level transition: count invariant re-established, frame-reachable payloads untouched -/
structure Tr0 (h h' : Heap) (outs F : List Val) : Prop where
  inv : Inv h' (outs ++ F)
  stable : Stable h h' F

theorem Tr.tr0 {h h' : Heap} {o F : List Val} (a : Tr h h' o F) : Tr0 h h' o F := ⟨a.inv, a.stable⟩

theorem Tr0.refl {h : Heap} {T F : List Val} (i : Inv h (T ++ F)) : Tr0 h h T F := ⟨i, Stable.refl _ _⟩

theorem Tr0.seq {h1 h2 h3 : Heap} {o1 o2 o3 F F2 : List Val} (a : Tr0 h1 h2 o1 F) (b : Tr0 h2 h3 o2 F2)
    (hsub : ∀ v, v ∈ F → v ∈ F2) (hinv : Inv h3 (o3 ++ F)) : Tr0 h1 h3 o3 F :=
  ⟨hinv, a.stable.trans (b.stable.mono hsub)⟩

/-! ### setIndex -/

theorem setPath_eq (t : Tree) (path : List Int) (tn : Tree) :
    setPath t path tn = (modPath (setφ tn) t path).map (·.1) := rfl

theorem setIndex_spec {h : Heap} {v new : Val} {F : List Val} {t tn : Tree} (path : List Int)
    (i : Inv h (v :: new :: F)) (r : Rep h v t) (rn : Rep h new tn) :
    Tr0 h (setIndex h v path new).h [(setIndex h v path new).v] F ∧
    (match setPath t path tn with
     | some t' => (setIndex h v path new).ok = true ∧ Rep (setIndex h v path new).h (setIndex h v path new).v t'
     | none => (setIndex h v path new).ok = false ∧ Rep (setIndex h v path new).h (setIndex h v path new).v t) := by
  have W := walk_spec (setLeaf_spec new tn) (setLeaf_ins new tn) path h v F t
    (i.congr (fun k => by simp [occ_cons, occ_append])) r (by simpa using rn)
  dsimp only at W
  obtain ⟨Wtr, Wrep⟩ := W
  rw [setPath_eq]
  cases hm : modPath (setφ tn) t path with
  | some tr =>
    obtain ⟨t', r'⟩ := tr
    rw [hm] at Wrep
    dsimp only at Wrep
    have e : setIndex h v path new = walk (setLeaf new) h v path := by simp [setIndex, Wrep.1]
    rw [e]
    simp only [Option.map_some]
    refine ⟨⟨Wtr.inv.weaken (fun k => by simp [occ_cons, occ_append]; omega), Wtr.stable⟩, Wrep.1, Wrep.2.1⟩
  | none =>
    rw [hm] at Wrep
    dsimp only at Wrep
    have e : setIndex h v path new =
        ⟨drop (walk (setLeaf new) h v path).h new, (walk (setLeaf new) h v path).v, .null, false⟩ := by
      simp [setIndex, Wrep.1]
    rw [e]
    simp only [Option.map_none]
    have i1 : Inv (walk (setLeaf new) h v path).h (new :: ((walk (setLeaf new) h v path).v :: F)) := by
      refine Wtr.inv.weaken (fun k => ?_)
      simp [Wrep.1, occ_cons, occ_append]; omega
    have D := drop_tr i1
    refine ⟨⟨D.inv, Wtr.stable.trans (D.stable.mono (by intro v hv; simp [hv]))⟩, trivial, ?_⟩
    exact D.stable.rep (.root (by simp)) Wrep.2.1

/-! ### readPath -/

theorem getPath_nil (t : Tree) : getPath t [] = some t := by cases t <;> rfl
theorem getPath_list_cons (ts : List Tree) (i : Int) (rest : List Int) :
    getPath (.list ts) (i :: rest) =
      (match pyIdx ts.length i with
       | none => none
       | some j => getPath (ts.getD j .null) rest) := by
  rw [getPath]
  cases pyIdx ts.length i <;> rfl

theorem getPath_cont_cons {t : Tree} (hc : t.isCont = true) (i : Int) (rest : List Int) :
    getPath t (i :: rest) =
      (match treeSlot t i with
       | none => none
       | some j => getPath (t.kids.getD j .null) rest) := by
  cases t with
  | null => simp at hc
  | int n => simp at hc
  | list ts => rw [getPath_list_cons]; rfl
  | dict ks vs =>
    simp only [treeSlot, Tree.keysT_dict, Tree.kids_dict]
    cases hds : dictSlot ks vs.length i <;> simp only [getPath, hds]

theorem readPath_nil (h : Heap) (v : Val) : readPath h v [] = (h, some v) := by cases v <;> rfl

theorem readPath_spec : ∀ (path : List Int) {h : Heap} {v : Val} {F : List Val} {t : Tree},
    Inv h (v :: F) → Rep h v t →
    (match getPath t path with
     | some t' => ∃ c, (readPath h v path).2 = some c ∧ Tr0 h (readPath h v path).1 [c] F ∧
         Rep (readPath h v path).1 c t'
     | none => (readPath h v path).2 = none ∧ Tr0 h (readPath h v path).1 [] F) := by
  intro path
  induction path with
  | nil =>
    intro h v F t i r
    rw [getPath_nil, readPath_nil]
    exact ⟨v, rfl, Tr0.refl (by simpa using i), r⟩
  | cons ix rest ih =>
    intro h v F t i r
    cases v with
    | null =>
      have := Rep_null_inv r; subst this
      exact ⟨rfl, Tr0.refl (i.weaken (fun k => by simp))⟩
    | int n =>
      have := Rep_int_inv r; subst this
      exact ⟨rfl, Tr0.refl (i.weaken (fun k => by simp))⟩
    | ref id =>
      obtain ⟨hcont, hl, hk, _, a⟩ := Rep_ref_inv r
      have hlen : (payloadOf h id).length = t.kids.length := All2.length_eq a
      have hslot := slotOf_eq_treeSlot hk hlen ix
      rw [getPath_cont_cons hcont]
      cases hp : treeSlot t ix with
      | none =>
        have e : readPath h (.ref id) (ix :: rest) = (drop h (.ref id), none) := by
          simp only [readPath, hslot, hp]
        rw [e]
        exact ⟨rfl, (drop_tr i).tr0⟩
      | some j =>
        have hj : j < (payloadOf h id).length := slotOf_lt (by rw [hslot]; exact hp)
        have e : readPath h (.ref id) (ix :: rest) =
            readPath (drop (dup h ((payloadOf h id).getD j .null)) (.ref id)) ((payloadOf h id).getD j .null) rest := by
          simp only [readPath, hslot, hp]
        rw [e]
        dsimp only
        have hcm : (payloadOf h id).getD j .null ∈ payloadOf h id := getD_mem _ hj
        have hlive := i.live_of_payload hcm
        have i1 : Inv (dup h ((payloadOf h id).getD j .null)) (.ref id :: ((payloadOf h id).getD j .null :: F)) := by
          intro k
          have := i k
          rw [pocc_dup, rcOf_dup _ _ _ hlive]
          simp only [occ_cons, occ_nil] at this ⊢
          omega
        have D := drop_tr i1
        have rc1 : Rep (drop (dup h ((payloadOf h id).getD j .null)) (.ref id)) ((payloadOf h id).getD j .null)
            (t.kids.getD j .null) :=
          D.stable.rep (.root (by simp)) ((All2.getD j _ _ a hj).ext (PayloadExt.dup _ _))
        have I := ih (F := F) (by simpa using D.inv) rc1
        have s01 : Stable h (drop (dup h ((payloadOf h id).getD j .null)) (.ref id)) F :=
          ((PayloadExt.dup h _).stable F).trans (D.stable.mono (by intro v hv; simp [hv]))
        cases hg : getPath (t.kids.getD j .null) rest with
        | none =>
          rw [hg] at I
          exact ⟨I.1, ⟨I.2.inv, s01.trans I.2.stable⟩⟩
        | some t' =>
          rw [hg] at I
          obtain ⟨c, hc, tr, rc⟩ := I
          exact ⟨c, hc, ⟨tr.inv, s01.trans tr.stable⟩, rc⟩

/-! ### append -/

/-- the heap `appendOp` returns for a list first argument -/
def appendHeap (h : Heap) (id : Nat) (b : Val) : Heap :=
  ⟨(setPayload (makeMut h id).1 (makeMut h id).2 (payloadOf (makeMut h id).1 (makeMut h id).2 ++ [b])).allocs,
   (setPayload (makeMut h id).1 (makeMut h id).2 (payloadOf (makeMut h id).1 (makeMut h id).2 ++ [b])).copied,
   (setPayload (makeMut h id).1 (makeMut h id).2 (payloadOf (makeMut h id).1 (makeMut h id).2 ++ [b])).pushes + 1⟩

theorem appendOp_ref (h : Heap) (id : Nat) (b : Val) (hk : keysOf h id = none) :
    appendOp h (.ref id) b = (appendHeap h id b, some (.ref (makeMut h id).2)) := by
  simp only [appendOp, hk]; rfl

/-- `append` on a dict raises: both arguments are dropped -/
theorem appendOp_dict (h : Heap) (id : Nat) (b : Val) {ks : List Int} (hk : keysOf h id = some ks) :
    appendOp h (.ref id) b = (drop (drop h (.ref id)) b, none) := by
  simp only [appendOp, hk]

theorem appendHeap_allocs (h : Heap) (id : Nat) (b : Val) :
    (appendHeap h id b).allocs =
      (setPayload (makeMut h id).1 (makeMut h id).2 (payloadOf (makeMut h id).1 (makeMut h id).2 ++ [b])).allocs := rfl

theorem appendOp_spec {h : Heap} {a b : Val} {F : List Val} {ta tb : Tree}
    (i : Inv h (a :: b :: F)) (ra : Rep h a ta) (rb : Rep h b tb) :
    (match ta with
     | .list ts => ∃ c, (appendOp h a b).2 = some c ∧ Tr0 h (appendOp h a b).1 [c] F ∧
         Rep (appendOp h a b).1 c (.list (ts ++ [tb]))
     | _ => (appendOp h a b).2 = none ∧ Tr0 h (appendOp h a b).1 [] F) := by
  cases a with
  | null =>
    have := Rep_null_inv ra; subst this
    exact ⟨rfl, (drop_tr (i.weaken (fun k => by simp))).tr0⟩
  | int n =>
    have := Rep_int_inv ra; subst this
    exact ⟨rfl, (drop_tr (i.weaken (fun k => by simp))).tr0⟩
  | ref id =>
    obtain ⟨hc, hl, hk, _, a0⟩ := Rep_ref_inv ra
    cases ta with
    | null => simp at hc
    | int n => simp at hc
    | dict ks vs =>
      simp only [Tree.keysT_dict] at hk
      dsimp only
      rw [appendOp_dict h id b hk]
      have D1 := drop_tr i
      have D2 := drop_tr D1.inv
      exact ⟨rfl, ⟨D2.inv, (D1.stable.mono (by intro v hv; simp [hv])).trans D2.stable⟩⟩
    | list ts =>
    simp only [Tree.keysT_list, Tree.kids_list] at hk a0
    dsimp only
    have MS := makeMut_spec (h := h) (id := id) (F := b :: F) i
    have i0 : Inv (makeMut h id).1 (.ref (makeMut h id).2 :: [b] ++ F) := by simpa using MS.tr.inv
    obtain ⟨hz, hbf, hl0⟩ := unique_facts i0 MS.rc1
    have hbne : b ≠ .ref (makeMut h id).2 := by
      intro e; rw [e] at hbf; simp [occ_cons] at hbf
    have R := replace_payload (ins := [b]) (outs := []) (F := F)
      (payloadOf (makeMut h id).1 (makeMut h id).2 ++ [b]) i0 MS.rc1
      (fun k => by simp [occ_append])
    rw [appendOp_ref h id b hk]
    have ea := appendHeap_allocs h id b
    refine ⟨.ref (makeMut h id).2, rfl, ?_, ?_⟩
    · refine ⟨Inv.of_allocs_eq ea (R.inv.congr (fun k => by simp)), ?_⟩
      refine ((MS.tr.stable.mono (by intro v hv; simp [hv])).trans R.stable).trans ?_
      exact (PayloadExt.of_allocs_eq ea).stable F
    · refine (Rep.ext (PayloadExt.of_allocs_eq ea) ?_)
      apply Rep_ref_list (by simpa using MS.lt) (by rw [keysOf_setPayload, MS.keys]; exact hk)
      rw [payloadOf_setPayload]; simp only [hl0, and_true, if_true]
      rw [MS.pay]
      refine All2.append ?_ ?_
      · refine All2.mono (fun s _ hs r => slot_write_rep _ hz (r.ext MS.ext) ?_) a0
        exact ne_ref_of_pocc_zero hz (by rw [MS.pay]; exact hs)
      · simp only [All2.cons_cons, All2.nil_nil, and_true]
        exact slot_write_rep _ hz (rb.ext MS.ext) hbne

end Noulith.RcHeap
