/-
C03 helper lemmas, part 5: the `Expr::Chain` arm with an interpreter state (`chainArmS`): the
operator of every position is the value its expression has at that position of the left-to-right
evaluation order (`resolveOps`), the order of all `evaluate` calls is the source order, and the
stateless transcription (`chainArm`) is the special case of a state-independent `evaluate`.
-/
import NoulithModel.Lemmas.C03Arm

set_option linter.unusedSimpArgs false

namespace Noulith.Chain

variable {σ E F V : Type}

section armS
variable (J : LangS σ E F V)

/-- the general loop on a chain whose lookups and operands all evaluate: the evaluator is given,
position by position, exactly the triples `resolveOps` finds; and if it produces a value the state
is the one after the last operand -/
theorem generalLoopS_resolved : ∀ (ops : List (E × E)) (ev : CE F V) (s : σ)
    (ts : List (F × Precedence × V)) (s2 : σ), resolveOps J ops s = (some ts, s2) →
    (generalLoopS J ops ev s).1 = (giveAll J.run J.tryChain ts ev).bind (fun c => c.finish J.run) ∧
    (∀ r, (generalLoopS J ops ev s).1 = .ok r → (generalLoopS J ops ev s).2 = s2) := by
  intro ops
  induction ops with
  | nil =>
    intro ev s ts s2 h
    simp only [resolveOps, Prod.mk.injEq, Option.some.injEq] at h
    obtain ⟨rfl, rfl⟩ := h
    simp [generalLoopS, SM.lift, giveAll]
  | cons p ops ih =>
    intro ev s ts s2 h
    obtain ⟨oper, opd⟩ := p
    simp only [resolveOps] at h
    simp only [generalLoopS, SM.bind]
    rcases he : J.evaluate oper s with ⟨o, s1⟩
    rw [he] at h
    cases o with
    | ok w =>
      simp only at h ⊢
      cases hf : J.asFunc w with
      | none => simp [hf] at h
      | some fp =>
        obtain ⟨f, p⟩ := fp
        simp only [hf] at h ⊢
        simp only [SM.bind]
        rcases hv : J.evaluate opd s1 with ⟨o2, s2'⟩
        rw [hv] at h
        cases o2 with
        | ok v =>
          simp only at h ⊢
          rcases hr : resolveOps J ops s2' with ⟨ot, s3⟩
          rw [hr] at h
          cases ot with
          | none => simp at h
          | some ts' =>
            simp only [Prod.mk.injEq, Option.some.injEq] at h
            obtain ⟨rfl, rfl⟩ := h
            simp only [SM.bind, SM.lift, giveAll]
            cases hg : ev.give J.run J.tryChain f p v with
            | ok ev' => simp only [Out.bind_ok]; exact ih ev' s2' ts' s3 hr
            | throw => simp
            | panic => simp
        | throw => simp at h
        | panic => simp at h
    | throw => simp at h
    | panic => simp at h

/-- the one-operator fast path is the general path (given `run2 f a b = run f [a, b]`) -/
theorem fast_path_agrees_S (hrun2 : ∀ f a b, J.run2 f a b = J.run f [a, b]) (op1 oper opd : E) :
    fastPathS J op1 oper opd = generalPathS J op1 [(oper, opd)] := by
  unfold fastPathS generalPathS
  congr 1; funext lhs
  simp only [generalLoopS]
  congr 1; funext oprr
  cases J.asFunc oprr with
  | none => rfl
  | some bp =>
    obtain ⟨b, prec⟩ := bp
    simp only
    congr 1; funext oprd
    funext s
    simp only [SM.bind, SM.lift, CE.give, CE.new, giveLoop, CE.finish, finishLoop, runTopPopped,
      hrun2, List.nil_append, List.cons_append]
    cases J.run b [lhs, oprd] <;> rfl

theorem chainArmS_eq_generalPathS (hrun2 : ∀ f a b, J.run2 f a b = J.run f [a, b]) (op1 : E)
    (ops : List (E × E))
    (hno : (J.isUnderscore op1 || ops.any (fun p => J.isUnderscore p.2)) = false) :
    chainArmS J op1 ops = generalPathS J op1 ops := by
  unfold chainArmS
  simp only [hno, Bool.false_eq_true, if_false]
  split
  · exact fast_path_agrees_S J hrun2 _ _ _
  · rfl

/-- value and final state of a direct chain whose sub-expressions all evaluate -/
theorem chainArmS_resolved (hrun2 : ∀ f a b, J.run2 f a b = J.run f [a, b]) (op1 : E)
    (ops : List (E × E)) (s s1 s2 : σ) (v1 : V) (ts : List (F × Precedence × V))
    (hno : (J.isUnderscore op1 || ops.any (fun p => J.isUnderscore p.2)) = false)
    (h1 : J.evaluate op1 s = (.ok v1, s1)) (hr : resolveOps J ops s1 = (some ts, s2)) :
    (chainArmS J op1 ops s).1 = evalChain J.run J.tryChain v1 ts ∧
    (∀ r, (chainArmS J op1 ops s).1 = .ok r → (chainArmS J op1 ops s).2 = s2) := by
  rw [chainArmS_eq_generalPathS J hrun2 op1 ops hno]
  unfold generalPathS SM.bind
  simp only [h1]
  exact generalLoopS_resolved J ops (CE.new v1) s1 ts s2 hr

/-- the traced language resolves the same operators and records the sub-expressions in source
order -/
theorem resolve_traced : ∀ (ops : List (E × E)) (s s2 : σ) (ts : List (F × Precedence × V))
    (l : List E), resolveOps J ops s = (some ts, s2) →
    resolveOps J.traced ops (s, l) =
      (some ts, (s2, l ++ ops.flatMap (fun p => [p.1, p.2]))) := by
  intro ops
  induction ops with
  | nil =>
    intro s s2 ts l h
    simp only [resolveOps, Prod.mk.injEq, Option.some.injEq] at h
    obtain ⟨rfl, rfl⟩ := h
    simp [resolveOps]
  | cons p ops ih =>
    intro s s2 ts l h
    obtain ⟨oper, opd⟩ := p
    simp only [resolveOps] at h ⊢
    simp only [LangS.traced]
    rcases he : J.evaluate oper s with ⟨o, s1⟩
    rw [he] at h
    cases o with
    | ok w =>
      simp only at h ⊢
      cases hf : J.asFunc w with
      | none => simp [hf] at h
      | some fp =>
        obtain ⟨f, p⟩ := fp
        simp only [hf] at h ⊢
        rcases hv : J.evaluate opd s1 with ⟨o2, s2'⟩
        rw [hv] at h
        cases o2 with
        | ok v =>
          simp only at h ⊢
          rcases hr : resolveOps J ops s2' with ⟨ot, s3⟩
          rw [hr] at h
          cases ot with
          | none => simp at h
          | some ts' =>
            simp only [Prod.mk.injEq, Option.some.injEq] at h
            obtain ⟨rfl, rfl⟩ := h
            have := ih s2' s3 ts' (l ++ [oper] ++ [opd]) hr
            simp only [LangS.traced] at this
            rw [this]
            simp [List.append_assoc]
        | throw => simp at h
        | panic => simp at h
    | throw => simp at h
    | panic => simp at h

end armS

/-! #### a state-independent `evaluate`: the stateless transcription -/

section pure
variable (I : Lang E F V)

@[simp] theorem toS_evaluate (e : E) (s : σ) : (I.toS (σ := σ)).evaluate e s = (I.evaluate e, s) := rfl
@[simp] theorem toS_isUnderscore : (I.toS (σ := σ)).isUnderscore = I.isUnderscore := rfl
@[simp] theorem toS_asFunc : (I.toS (σ := σ)).asFunc = I.asFunc := rfl
@[simp] theorem toS_mkSection : (I.toS (σ := σ)).mkSection = I.mkSection := rfl
@[simp] theorem toS_run : (I.toS (σ := σ)).run = I.run := rfl
@[simp] theorem toS_run2 : (I.toS (σ := σ)).run2 = I.run2 := rfl
@[simp] theorem toS_tryChain : (I.toS (σ := σ)).tryChain = I.tryChain := rfl

theorem sectionOpsS_of_pure : ∀ (ops : List (E × E)) (s : σ),
    sectionOpsS (I.toS (σ := σ)) ops s = ((sectionOps I ops).2, s) := by
  intro ops
  induction ops with
  | nil => intro s; rfl
  | cons p ops ih =>
    intro s
    obtain ⟨oper, opd⟩ := p
    simp only [sectionOpsS, sectionOps, SM.bind, Tr.bind, evalT, toS_evaluate, toS_asFunc]
    cases I.evaluate oper with
    | throw => rfl
    | panic => rfl
    | ok w =>
      simp only
      cases I.asFunc w with
      | none => rfl
      | some fp =>
        obtain ⟨f, p⟩ := fp
        simp only
        by_cases hu : I.isUnderscore opd = true
        · have hu' : (I.toS (σ := σ)).isUnderscore opd = true := hu
          simp only [hu, hu', if_true, SM.bind, Tr.bind]
          rw [ih s]
          rcases sectionOps I ops with ⟨l, o⟩
          cases o <;> rfl
        · have hu' : ¬ (I.toS (σ := σ)).isUnderscore opd = true := hu
          simp only [hu, hu', Bool.false_eq_true, if_false, SM.bind, Tr.bind, toS_evaluate]
          cases I.evaluate opd with
          | throw => rfl
          | panic => rfl
          | ok v =>
            simp only [SM.bind]
            rw [ih s]
            rcases sectionOps I ops with ⟨l, o⟩
            cases o <;> rfl

theorem generalLoopS_of_pure : ∀ (ops : List (E × E)) (ev : CE F V) (s : σ),
    generalLoopS (I.toS (σ := σ)) ops ev s = ((generalLoop I ops ev).2, s) := by
  intro ops
  induction ops with
  | nil => intro ev s; rfl
  | cons p ops ih =>
    intro ev s
    obtain ⟨oper, opd⟩ := p
    simp only [generalLoopS, generalLoop, SM.bind, Tr.bind, evalT, toS_evaluate, toS_asFunc,
      toS_run, toS_tryChain]
    cases I.evaluate oper with
    | throw => rfl
    | panic => rfl
    | ok w =>
      simp only
      cases I.asFunc w with
      | none => rfl
      | some fp =>
        obtain ⟨f, p⟩ := fp
        simp only [SM.bind, Tr.bind, toS_evaluate]
        cases I.evaluate opd with
        | throw => rfl
        | panic => rfl
        | ok v =>
          simp only [SM.bind, SM.lift, Tr.bind, Tr.lift]
          cases ev.give I.run I.tryChain f p v with
          | throw => rfl
          | panic => rfl
          | ok ev' =>
            simp only
            rw [ih ev' s]

/-- with a state-independent `evaluate` the stateful arm is the stateless one -/
theorem chainArmS_of_pure (op1 : E) (ops : List (E × E)) (s : σ) :
    chainArmS (I.toS (σ := σ)) op1 ops s = ((chainArm I op1 ops).2, s) := by
  unfold chainArmS chainArm
  by_cases hsec : (I.isUnderscore op1 || ops.any (fun p => I.isUnderscore p.2)) = true
  · -- section path
    have hsec' : ((I.toS (σ := σ)).isUnderscore op1 ||
        ops.any (fun p => (I.toS (σ := σ)).isUnderscore p.2)) = true := hsec
    simp only [hsec, hsec', if_true]
    simp only [sectionPathS, sectionPath, toS_mkSection]
    by_cases hu1 : I.isUnderscore op1 = true
    · have hu1' : (I.toS (σ := σ)).isUnderscore op1 = true := hu1
      simp only [hu1, hu1', if_true, SM.bind, Tr.bind, SM.pure, Tr.pure]
      rw [sectionOpsS_of_pure (σ := σ) I ops s]
      rcases sectionOps I ops with ⟨l, o⟩
      cases o <;> rfl
    · have hu1' : ¬ (I.toS (σ := σ)).isUnderscore op1 = true := hu1
      simp only [hu1, hu1', Bool.false_eq_true, if_false, SM.bind, Tr.bind, evalT, toS_evaluate]
      cases I.evaluate op1 with
      | throw => rfl
      | panic => rfl
      | ok v =>
        simp only [SM.pure, Tr.pure, SM.bind]
        rw [sectionOpsS_of_pure (σ := σ) I ops s]
        rcases sectionOps I ops with ⟨l, o⟩
        cases o <;> rfl
  · have hsec' : ¬ ((I.toS (σ := σ)).isUnderscore op1 ||
        ops.any (fun p => (I.toS (σ := σ)).isUnderscore p.2)) = true := hsec
    simp only [hsec, hsec', Bool.false_eq_true, if_false]
    split
    · rename_i oper opd
      simp only [fastPathS, fastPath, SM.bind, Tr.bind, evalT, toS_evaluate, toS_asFunc, toS_run2,
        SM.lift, Tr.lift]
      cases I.evaluate op1 with
      | throw => rfl
      | panic => rfl
      | ok lhs =>
        simp only
        cases I.evaluate oper with
        | throw => rfl
        | panic => rfl
        | ok w =>
          simp only
          cases I.asFunc w with
          | none => rfl
          | some fp =>
            simp only [SM.bind, Tr.bind, toS_evaluate]
            cases I.evaluate opd with
            | throw => rfl
            | panic => rfl
            | ok v => rfl
    · simp only [generalPathS, generalPath, SM.bind, Tr.bind, evalT, toS_evaluate]
      cases I.evaluate op1 with
      | throw => rfl
      | panic => rfl
      | ok v1 =>
        simp only
        rw [generalLoopS_of_pure (σ := σ) I ops (CE.new v1) s]

end pure

end Noulith.Chain
