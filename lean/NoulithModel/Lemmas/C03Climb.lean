/-
C03 helper lemmas, part 4: precedence climbing (`climb`, the second executable spec) rebuilds
every `Valid` tree from its yield; with `shunt_is_valid`/`shunt_of_valid` this makes
`climbTree = shunt` for every chain.
-/
import NoulithModel.Lemmas.C03Shunt

namespace Noulith.Chain
open Tree

variable {F L : Type}

section climb
variable (tc : F → F → Option F)

/-- the unconsumed input never grows -/
theorem climb_len : ∀ (fuel : Nat) (ctx : Option Precedence) (lhs : Tree F L) (toks : List (Op F × L)),
    (climb tc fuel ctx lhs toks).2.length ≤ toks.length := by
  intro fuel
  induction fuel with
  | zero => intro ctx lhs toks; simp [climb]
  | succ n ih =>
    intro ctx lhs toks
    cases toks with
    | nil => simp [climb]
    | cons p more =>
      obtain ⟨h, x⟩ := p
      unfold climb
      split
      · have h1 := ih (some (headPrec lhs)) (leaf x) more
        have h2 := ih ctx (ext lhs h (climb tc n (some (headPrec lhs)) (leaf x) more).1)
          (climb tc n (some (headPrec lhs)) (leaf x) more).2
        simp only [List.length_cons]; omega
      · split
        · simp
        · have h1 := ih (some h.prec) (leaf x) more
          have h2 := ih ctx (bin lhs h (climb tc n (some h.prec) (leaf x) more).1)
            (climb tc n (some h.prec) (leaf x) more).2
          simp only [List.length_cons]; omega

/-- any fuel above the input length gives the same answer -/
theorem climb_fuel : ∀ (n m : Nat) (ctx : Option Precedence) (lhs : Tree F L)
    (toks : List (Op F × L)), toks.length < n → toks.length < m →
    climb tc n ctx lhs toks = climb tc m ctx lhs toks := by
  intro n
  induction n with
  | zero => intro m ctx lhs toks h; omega
  | succ n ih =>
    intro m ctx lhs toks hn hm
    cases m with
    | zero => omega
    | succ m =>
      cases toks with
      | nil => simp [climb]
      | cons p more =>
        obtain ⟨h, x⟩ := p
        simp only [List.length_cons] at hn hm
        have hn' : more.length < n := by omega
        have hm' : more.length < m := by omega
        unfold climb
        split
        · rw [ih m (some (headPrec lhs)) (leaf x) more hn' hm']
          have hl := climb_len tc m (some (headPrec lhs)) (leaf x) more
          exact ih m ctx _ _ (by omega) (by omega)
        · split
          · rfl
          · rw [ih m (some h.prec) (leaf x) more hn' hm']
            have hl := climb_len tc m (some h.prec) (leaf x) more
            exact ih m ctx _ _ (by omega) (by omega)

/-- `climb` with exactly enough fuel -/
def climbF (ctx : Option Precedence) (lhs : Tree F L) (toks : List (Op F × L)) :
    Tree F L × List (Op F × L) :=
  climb tc (toks.length + 1) ctx lhs toks

theorem climbF_nil (ctx : Option Precedence) (lhs : Tree F L) : climbF tc ctx lhs [] = (lhs, []) := by
  simp [climbF, climb]

/-- the recursion equation of `climb` without the fuel -/
theorem climbF_cons (ctx : Option Precedence) (lhs : Tree F L) (h : Op F) (x : L)
    (more : List (Op F × L)) :
    climbF tc ctx lhs ((h, x) :: more) =
      if (isNode lhs && tighter (headPrec lhs) h.prec && chains tc lhs h) = true then
        climbF tc ctx (ext lhs h (climbF tc (some (headPrec lhs)) (leaf x) more).1)
          (climbF tc (some (headPrec lhs)) (leaf x) more).2
      else if stops ctx h = true then (lhs, (h, x) :: more)
      else
        climbF tc ctx (bin lhs h (climbF tc (some h.prec) (leaf x) more).1)
          (climbF tc (some h.prec) (leaf x) more).2 := by
  unfold climbF
  simp only [List.length_cons]
  conv => lhs; unfold climb
  split
  · have hl := climb_len tc (more.length + 1) (some (headPrec lhs)) (leaf x) more
    exact climb_fuel tc _ _ ctx _ _ (by omega) (by omega)
  · split
    · rfl
    · have hl := climb_len tc (more.length + 1) (some h.prec) (leaf x) more
      exact climb_fuel tc _ _ ctx _ _ (by omega) (by omega)

/-- what the next unread operator must satisfy for the operand `t` to be complete below it:
the root application and everything on the right spine below it would be applied first -/
def NextOK (t : Tree F L) (more : List (Op F × L)) : Prop :=
  ∀ h' x' m, more = (h', x') :: m → isNode t = true →
    tighter (headPrec t) h'.prec = true ∧ AppliedBefore tc (lastKid t) h'

theorem rspine_node (t : Tree F L) (h : isNode t = true) : rspine t = t :: rspine (lastKid t) := by
  cases t <;> simp_all [isNode, rspine, lastKid]

/-- return form: at `more` the operand `t` is handed back to the context -/
theorem climbF_return (ctx : Option Precedence) (t : Tree F L) (more : List (Op F × L))
    (h : ∀ h' x' m, more = (h', x') :: m →
      (isNode t && tighter (headPrec t) h'.prec && chains tc t h') = false ∧ stops ctx h' = true) :
    climbF tc ctx t more = (t, more) := by
  cases more with
  | nil => exact climbF_nil tc ctx t
  | cons p m =>
    obtain ⟨h', x'⟩ := p
    obtain ⟨h1, h2⟩ := h h' x' m rfl
    rw [climbF_cons]
    simp [h1, h2]

/-- loop form: reading the yield of a valid tree at one level rebuilds it as the `lhs` -/
theorem climbF_valid : ∀ (t : Tree F L), Valid tc t →
    ∀ (ctx : Option Precedence) (more : List (Op F × L)),
      (∀ h ∈ lspine t, stops ctx h = false) → NextOK tc t more →
      climbF tc ctx (leaf (first t)) (rest t ++ more) = climbF tc ctx t more := by
  intro t
  induction t with
  | leaf v => intro _ ctx more _ _; simp [rest, first]
  | bin l g r ihl ihr =>
    intro hv ctx more hls hnext
    obtain ⟨hvl, hvr, hab, hwr⟩ := hv
    simp only [rest, first, List.append_assoc, List.cons_append]
    -- the left operand, at this level
    rw [ihl hvl ctx _ (fun h hh => hls h (by simp [lspine, hh]))
      (by
        intro h' x' m hm hn
        simp only [List.cons.injEq, Prod.mk.injEq] at hm
        obtain ⟨⟨rfl, _⟩, _⟩ := hm
        have hr := rspine_node l hn
        refine ⟨(hab l (by rw [hr]; simp)).1, ?_⟩
        intro u hu; exact hab u (by rw [hr]; simp [hu]))]
    rw [climbF_cons]
    have hnm : (isNode l && tighter (headPrec l) g.prec && chains tc l g) = false := by
      cases hn : isNode l
      · simp
      · have := (hab l (by rw [rspine_node l hn]; simp)).2
        simp [this]
    have hst : stops ctx g = false := hls g (by simp [lspine])
    simp only [hnm, Bool.false_eq_true, if_false, hst]
    -- the right operand, one level down
    have hnr : NextOK tc r more := by
      intro h' x' m hm hn
      obtain ⟨_, habr⟩ := hnext h' x' m hm (by simp [isNode])
      simp only [lastKid] at habr
      have hr := rspine_node r hn
      exact ⟨(habr r (by rw [hr]; simp)).1, fun u hu => habr u (by rw [hr]; simp [hu])⟩
    rw [ihr hvr (some g.prec) more (fun h hh => by simpa [stops] using hwr h hh) hnr]
    rw [climbF_return tc (some g.prec) r more
      (by
        intro h' x' m hm
        obtain ⟨hti, habr⟩ := hnext h' x' m hm (by simp [isNode])
        simp only [lastKid, headPrec] at habr hti
        refine ⟨?_, by simpa [stops] using hti⟩
        cases hn : isNode r
        · simp
        · have := (habr r (by rw [rspine_node r hn]; simp)).2
          simp [this])]
  | ext l g r ihl ihr =>
    intro hv ctx more hls hnext
    obtain ⟨hnode, hvl, hvr, ⟨hti, hch⟩, hab, hwr⟩ := hv
    simp only [rest, first, List.append_assoc, List.cons_append]
    rw [ihl hvl ctx _ (fun h hh => hls h (by simpa [lspine] using hh))
      (by
        intro h' x' m hm _
        simp only [List.cons.injEq, Prod.mk.injEq] at hm
        obtain ⟨⟨rfl, _⟩, _⟩ := hm
        exact ⟨hti, hab⟩)]
    rw [climbF_cons]
    simp only [hnode, hti, hch, Bool.and_self, if_true]
    have hnr : NextOK tc r more := by
      intro h' x' m hm hn
      obtain ⟨_, habr⟩ := hnext h' x' m hm (by simp [isNode])
      simp only [lastKid] at habr
      have hr := rspine_node r hn
      exact ⟨(habr r (by rw [hr]; simp)).1, fun u hu => habr u (by rw [hr]; simp [hu])⟩
    rw [ihr hvr (some (headPrec l)) more (fun h hh => by simpa [stops] using hwr h hh) hnr]
    rw [climbF_return tc (some (headPrec l)) r more
      (by
        intro h' x' m hm
        obtain ⟨hti', habr⟩ := hnext h' x' m hm (by simp [isNode])
        simp only [lastKid, headPrec] at habr hti'
        refine ⟨?_, by simpa [stops] using hti'⟩
        cases hn : isNode r
        · simp
        · have := (habr r (by rw [rspine_node r hn]; simp)).2
          simp [this])]

/-- precedence climbing rebuilds a valid tree from its yield -/
theorem climbTree_of_valid (t : Tree F L) (hv : Valid tc t) : climbTree tc (chain t) = t := by
  unfold climbTree chain
  simp only
  have h := climbF_valid tc t hv none [] (by intro h _; rfl) (by intro h' x' m hm; simp at hm)
  simp only [List.append_nil] at h
  unfold climbF at h
  rw [h]
  simp [climb]

theorem chain_shunt (c : ChainOf F L) : chain (shunt tc c) = c := by
  apply syms_inj
  rw [← yield_eq_syms, shunt_yield]

/-- climbing and the evaluator build the same tree, for every chain -/
theorem climbTree_eq_shunt (c : ChainOf F L) : climbTree tc c = shunt tc c := by
  have := climbTree_of_valid tc (shunt tc c) (shunt_is_valid tc c)
  rw [chain_shunt] at this
  exact this

end climb
end Noulith.Chain
