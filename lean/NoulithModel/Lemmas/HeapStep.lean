/-
C01 helper lemmas, part 8: the statement-level simulation — one lemma per building block of `step`
(`withCell` + `setIndex`, `withCell` + `walk`, `writeCell`, reading an lvalue) and tree lemmas about
the Spec's `setPath`.
-/
import NoulithModel.Lemmas.HeapEval

namespace Noulith.RcHeap
open Noulith.Store (Tree modPath pyIdx setφ takeφ popφ removeφ getPath setPath LeafT dictSlot)

/-- the count invariant of a state: cells and payloads account for every strong count -/
def SInv (s : State) : Prop := Inv s.h s.cells
/-- every cell represents the Spec's tree for that variable -/
def Sim (s : State) (σ : List Tree) : Prop := All2 (Rep s.h) s.cells σ
@[simp] theorem SInv_def (s : State) : SInv s = Inv s.h s.cells := rfl
@[simp] theorem Sim_def (s : State) (σ : List Tree) : Sim s σ = All2 (Rep s.h) s.cells σ := rfl

theorem getD_set_ne {α : Type} (l : List α) (x y : Nat) (v d : α) (hne : x ≠ y) : (l.set x v).getD y d = l.getD y d := by
  simp [List.getD, List.getElem?_set_ne hne]

/-! ### writing a whole cell -/

theorem writeCell_spec {h : Heap} {cells T : List Val} {σ : List Tree} {y : Nat} {v : Val} {t : Tree}
    (hy : y < cells.length) (i : Inv h (v :: T ++ cells)) (sim : All2 (Rep h) cells σ) (rv : Rep h v t) :
    Inv (writeCell h cells y v).h (T ++ (writeCell h cells y v).cells) ∧
    All2 (Rep (writeCell h cells y v).h) (writeCell h cells y v).cells (σ.set y t) ∧
    Stable h (writeCell h cells y v).h (T ++ cells.set y .null) := by
  have i1 : Inv h (cells.getD y .null :: (v :: T ++ cells.set y .null)) := by
    have := inv_take_cell (T := v :: T) hy (by simpa using i)
    simpa using this
  have D := drop_tr i1
  have st : Stable h (drop h (cells.getD y .null)) (T ++ cells.set y .null) :=
    D.stable.mono (by intro w hw; simp at hw ⊢; right; exact hw)
  refine ⟨?_, ?_, st⟩
  · exact inv_put_cell hy (by simpa [writeCell] using D.inv)
  · exact sim_put_cell sim st (D.stable.rep (.root (by simp)) rv)

/-! ### slot transformers applied to a cell -/

theorem withCell_setIndex {s : State} {h : Heap} {T : List Val} {σ : List Tree} {x : Nat} {new : Val}
    {tn : Tree} (path : List Int) (hx : x < s.cells.length)
    (i : Inv h (new :: T ++ s.cells)) (sim : All2 (Rep h) s.cells σ) (rn : Rep h new tn) :
    Inv (withCell s h x (fun h v => setIndex h v path new)).1.h
      (T ++ (withCell s h x (fun h v => setIndex h v path new)).1.cells) ∧
    Stable h (withCell s h x (fun h v => setIndex h v path new)).1.h (T ++ s.cells.set x .null) ∧
    (match setPath (σ.getD x .null) path tn with
     | some t' => (withCell s h x (fun h v => setIndex h v path new)).2.2 = true ∧
         All2 (Rep (withCell s h x (fun h v => setIndex h v path new)).1.h)
           (withCell s h x (fun h v => setIndex h v path new)).1.cells (σ.set x t')
     | none => (withCell s h x (fun h v => setIndex h v path new)).2.2 = false ∧
         All2 (Rep (withCell s h x (fun h v => setIndex h v path new)).1.h)
           (withCell s h x (fun h v => setIndex h v path new)).1.cells σ) := by
  have i1 : Inv h (s.cells.getD x .null :: new :: (T ++ s.cells.set x .null)) := by
    have := inv_take_cell (T := new :: T) hx (by simpa using i)
    simpa using this
  have rx : Rep h (s.cells.getD x .null) (σ.getD x .null) := All2.getD x _ _ sim hx
  obtain ⟨S1, S2⟩ := setIndex_spec path i1 rx rn
  simp only [withCell, cellOf]
  refine ⟨inv_put_cell hx (by simpa using S1.inv), S1.stable, ?_⟩
  cases hsp : setPath (σ.getD x .null) path tn with
  | some t' =>
    rw [hsp] at S2
    exact ⟨S2.1, sim_put_cell sim S1.stable S2.2⟩
  | none =>
    rw [hsp] at S2
    refine ⟨S2.1, ?_⟩
    have := sim_put_cell sim S1.stable S2.2
    rwa [set_getD_self] at this

theorem withCell_walk {leaf : Leaf} {φ : LeafT}
    (L : LeafSpec leaf.act [] [] φ.act) (LI : InsSpec leaf.ins φ.ins [] []) {s : State} {h : Heap} {T : List Val} {σ : List Tree} {x : Nat}
    (path : List Int) (hx : x < s.cells.length) (i : Inv h (T ++ s.cells)) (sim : All2 (Rep h) s.cells σ) :
    Stable h (withCell s h x (fun h v => walk leaf h v path)).1.h (T ++ s.cells.set x .null) ∧
    (withCell s h x (fun h v => walk leaf h v path)).1.cells.length = s.cells.length ∧
    (match modPath φ (σ.getD x .null) path with
     | some (t', r) => (withCell s h x (fun h v => walk leaf h v path)).2.2 = true ∧
         Inv (withCell s h x (fun h v => walk leaf h v path)).1.h
           ((withCell s h x (fun h v => walk leaf h v path)).2.1 :: T ++
             (withCell s h x (fun h v => walk leaf h v path)).1.cells) ∧
         All2 (Rep (withCell s h x (fun h v => walk leaf h v path)).1.h)
           (withCell s h x (fun h v => walk leaf h v path)).1.cells (σ.set x t') ∧
         Rep (withCell s h x (fun h v => walk leaf h v path)).1.h
           (withCell s h x (fun h v => walk leaf h v path)).2.1 r
     | none => (withCell s h x (fun h v => walk leaf h v path)).2.2 = false ∧
         Inv (withCell s h x (fun h v => walk leaf h v path)).1.h
           (T ++ (withCell s h x (fun h v => walk leaf h v path)).1.cells) ∧
         All2 (Rep (withCell s h x (fun h v => walk leaf h v path)).1.h)
           (withCell s h x (fun h v => walk leaf h v path)).1.cells σ) := by
  have i1 : Inv h (s.cells.getD x .null :: [] ++ (T ++ s.cells.set x .null)) := by
    have := inv_take_cell (T := T) hx i
    simpa using this
  have rx : Rep h (s.cells.getD x .null) (σ.getD x .null) := All2.getD x _ _ sim hx
  have W := walk_spec L LI path h (s.cells.getD x .null) (T ++ s.cells.set x .null) (σ.getD x .null) i1 rx trivial
  dsimp only at W
  obtain ⟨Wtr, Wrep⟩ := W
  simp only [withCell, cellOf]
  refine ⟨Wtr.stable, by simp, ?_⟩
  cases hm : modPath φ (σ.getD x .null) path with
  | some tr =>
    obtain ⟨t', r⟩ := tr
    rw [hm] at Wrep
    dsimp only at Wrep ⊢
    refine ⟨Wrep.1, ?_, sim_put_cell sim Wtr.stable Wrep.2.1, Wrep.2.2⟩
    have := inv_put_cell (T := (walk leaf h (s.cells.getD x .null) path).r :: T) (v := (walk leaf h (s.cells.getD x .null) path).v) hx
      (Wtr.inv.congr (fun k => by simp [occ_cons, occ_append] <;> omega))
    simpa using this
  | none =>
    rw [hm] at Wrep
    dsimp only at Wrep ⊢
    refine ⟨Wrep.1, ?_, ?_⟩
    · exact inv_put_cell hx (Wtr.inv.weaken (fun k => by simp [occ_cons, occ_append]))
    · have := sim_put_cell sim Wtr.stable Wrep.2.1
      rwa [set_getD_self] at this

/-! ### reading an lvalue: `eval_lvalue_as_obj` = variable read + `readPath` -/

theorem readLvalue_spec {s : State} {h : Heap} {T : List Val} {σ : List Tree} (x : Nat) (path : List Int)
    (i : Inv h (T ++ s.cells)) (sim : All2 (Rep h) s.cells σ) :
    (match getPath (σ.getD x .null) path with
     | some t' => ∃ c, (readPath (dup h (cellOf s x)) (cellOf s x) path).2 = some c ∧
         Inv (readPath (dup h (cellOf s x)) (cellOf s x) path).1 (c :: T ++ s.cells) ∧
         Stable h (readPath (dup h (cellOf s x)) (cellOf s x) path).1 (T ++ s.cells) ∧
         Rep (readPath (dup h (cellOf s x)) (cellOf s x) path).1 c t'
     | none => (readPath (dup h (cellOf s x)) (cellOf s x) path).2 = none ∧
         Inv (readPath (dup h (cellOf s x)) (cellOf s x) path).1 (T ++ s.cells) ∧
         Stable h (readPath (dup h (cellOf s x)) (cellOf s x) path).1 (T ++ s.cells)) := by
  obtain ⟨i1, e1, r1⟩ := evalAtom_spec (s := s) (T := T) (.var x) i sim
  simp only [evalAtom, Store.evalAtom, Store.get] at i1 e1 r1
  have R := readPath_spec path (F := T ++ s.cells) (by simpa using i1) r1
  cases hg : getPath (σ.getD x .null) path with
  | none =>
    rw [hg] at R
    exact ⟨R.1, by simpa using R.2.inv, (e1.stable _).trans R.2.stable⟩
  | some t' =>
    rw [hg] at R
    obtain ⟨c, hc, tr, rc⟩ := R
    exact ⟨c, hc, by simpa using tr.inv, (e1.stable _).trans tr.stable, rc⟩

/-! ### tree lemmas about the Spec's `setPath` -/

/-! #### well-formed trees: a dict has as many keys as values, at every depth -/

mutual
def treeWF : Tree → Prop
  | .null => True
  | .int _ => True
  | .list ts => treeWFList ts
  | .dict ks vs => ks.length = vs.length ∧ treeWFList vs
def treeWFList : List Tree → Prop
  | [] => True
  | t :: ts => treeWF t ∧ treeWFList ts
end

theorem treeWFList_getD : ∀ (ts : List Tree) (j : Nat), treeWFList ts → treeWF (ts.getD j .null)
  | [], j, _ => by simp [treeWF]
  | t :: ts, 0, h => by rw [treeWFList] at h; simpa using h.1
  | t :: ts, j + 1, h => by rw [treeWFList] at h; simpa using treeWFList_getD ts j h.2

theorem treeWF_kids {t : Tree} (h : treeWF t) : treeWFList t.kids := by
  cases t with
  | null => simp [Tree.kids, treeWFList]
  | int n => simp [Tree.kids, treeWFList]
  | list ts => rw [treeWF] at h; exact h
  | dict ks vs => rw [treeWF] at h; exact h.2

theorem treeWF_dictWF {t : Tree} (h : treeWF t) : t.dictWF := by
  cases t with
  | null => intro ks e; simp [Tree.keysT] at e
  | int n => intro ks e; simp [Tree.keysT] at e
  | list ts => exact Tree.dictWF_list ts
  | dict ks vs => rw [treeWF] at h; exact Tree.dictWF_dict h.1

theorem treeWF_of_parts {t : Tree} (hc : t.isCont = true) (hw : t.dictWF) (hk : treeWFList t.kids) : treeWF t := by
  cases t with
  | null => simp at hc
  | int n => simp at hc
  | list ts => rw [treeWF]; exact hk
  | dict ks vs => rw [treeWF]; exact ⟨by simpa [Tree.kids] using hw ks rfl, hk⟩

/-- every represented tree is well formed -/
theorem treeWF_of_repN : ∀ (k : Nat) {h : Heap} {v : Val} {t : Tree}, RepN k h v t → treeWF t := by
  intro k
  induction k with
  | zero => intro h v t r; cases v <;> simp at r <;> subst r <;> simp [treeWF]
  | succ k ih =>
    intro h v t r
    cases v with
    | null => simp at r; subst r; simp [treeWF]
    | int n => simp at r; subst r; simp [treeWF]
    | ref id =>
      simp only [RepN_ref_succ] at r
      have : ∀ (vs : List Val) (ts : List Tree), All2 (RepN k h) vs ts → treeWFList ts := by
        intro vs
        induction vs with
        | nil => intro ts a; cases ts <;> simp [treeWFList] at a ⊢
        | cons v vs ihv =>
          intro ts a
          cases ts with
          | nil => simp at a
          | cons t ts => simp only [All2.cons_cons] at a; rw [treeWFList]; exact ⟨ih a.1, ihv ts a.2⟩
      exact treeWF_of_parts r.1 r.2.2.2.1 (this _ _ r.2.2.2.2)

theorem treeWF_of_rep {h : Heap} {v : Val} {t : Tree} (r : Rep h v t) : treeWF t := by
  obtain ⟨k, r⟩ := r; exact treeWF_of_repN k r

theorem keyIdx_lt : ∀ {ks : List Int} {i : Int} {j : Nat}, Store.keyIdx ks i = some j → j < ks.length
  | [], _, _, h => by simp [Store.keyIdx] at h
  | k :: ks, i, j, h => by
    simp only [Store.keyIdx] at h
    split at h
    · injection h with h; subst h; simp
    · cases hk : Store.keyIdx ks i with
      | none => rw [hk] at h; simp at h
      | some j' => rw [hk] at h; simp at h; subst h; have := keyIdx_lt hk; simp; omega

theorem keyIdx_append_self : ∀ (ks : List Int) (i : Int), Store.keyIdx ks i = none →
    Store.keyIdx (ks ++ [i]) i = some ks.length
  | [], i, _ => by simp [Store.keyIdx]
  | k :: ks, i, h => by
    simp only [Store.keyIdx] at h
    split at h
    · cases h
    · rename_i hne
      cases hk : Store.keyIdx ks i with
      | some j => rw [hk] at h; simp at h
      | none => simp [Store.keyIdx, hne, keyIdx_append_self ks i hk]

theorem set_append_length {α : Type} (l : List α) (a b : α) : (l ++ [a]).set l.length b = l ++ [b] := by
  induction l with
  | nil => rfl
  | cons x xs ih => simp [ih]

/-- a second assignment along the same path overrides the first (on well-formed trees) -/
theorem modPath_set_set (a b : Tree) : ∀ (path : List Int) (t t1 : Tree) (r : Tree), treeWF t →
    modPath (setφ a) t path = some (t1, r) → modPath (setφ b) t1 path = modPath (setφ b) t path := by
  intro path
  induction path with
  | nil =>
    intro t t1 r _ h
    rw [modPath_nil] at h ⊢; rw [modPath_nil]
    simp [setφ]
  | cons ix rest ih =>
    intro t t1 r hw h
    by_cases hc : t.isCont = true
    · rw [modPath_cont_cons _ hc] at h
      cases hp : treeSlot t ix with
      | some j =>
        rw [hp] at h
        dsimp only at h
        cases hm : modPath (setφ a) (t.kids.getD j .null) rest with
        | none => rw [hm] at h; simp at h
        | some tr =>
          obtain ⟨t', r'⟩ := tr
          rw [hm] at h
          simp only [Option.some.injEq, Prod.mk.injEq] at h
          obtain ⟨rfl, rfl⟩ := h
          have hj : j < t.kids.length := by
            unfold treeSlot at hp
            cases hk : t.keysT with
            | none => rw [hk] at hp; exact pyIndex_lt (by rw [pyIndex_eq_pyIdx]; exact hp)
            | some ks =>
              rw [hk] at hp
              simp only [dictSlot] at hp
              cases hki : Store.keyIdx ks ix with
              | none => rw [hki] at hp; simp at hp
              | some j' =>
                rw [hki] at hp
                dsimp only at hp
                split at hp
                · injection hp with hp; omega
                · cases hp
          have hc' := Tree.withKids_isCont (t.kids.set j t') hc
          have hslot : treeSlot (t.withKids (t.kids.set j t')) ix = some j := by
            unfold treeSlot at hp ⊢
            rw [Tree.withKids_keysT, Tree.withKids_kids _ hc]
            simpa using hp
          rw [modPath_cont_cons _ hc', modPath_cont_cons _ hc, hslot, hp]
          dsimp only
          rw [Tree.withKids_kids _ hc, getD_set_self _ _ _ _ hj,
            ih _ _ _ (treeWFList_getD _ j (treeWF_kids hw)) hm]
          cases modPath (setφ b) (t.kids.getD j .null) rest with
          | none => rfl
          | some tr2 =>
            obtain ⟨t2, r2⟩ := tr2
            dsimp only
            rw [List.set_set]
            cases t <;> simp_all [Tree.withKids]
      | none =>
        rw [hp] at h
        dsimp only at h
        unfold modMissing at h
        cases hk : t.keysT with
        | none => rw [hk] at h; simp at h
        | some ks =>
          rw [hk] at h
          cases rest with
          | cons i2 r2 => simp at h
          | nil =>
            simp only [setφ, Option.some.injEq, Prod.mk.injEq] at h
            obtain ⟨rfl, rfl⟩ := h
            have hwl : ks.length = t.kids.length := treeWF_dictWF hw ks hk
            -- the key is really absent
            have hnone : Store.keyIdx ks ix = none := by
              unfold treeSlot at hp
              rw [hk] at hp
              simp only [dictSlot] at hp
              cases hki : Store.keyIdx ks ix with
              | none => rfl
              | some j' =>
                rw [hki] at hp
                have := keyIdx_lt hki
                simp only at hp
                split at hp
                · cases hp
                · omega
            have hslot : treeSlot (Tree.dict (ks ++ [ix]) (t.kids ++ [a])) ix = some t.kids.length := by
              simp only [treeSlot, Tree.keysT_dict, Tree.kids_dict, dictSlot, keyIdx_append_self ks ix hnone]
              simp [hwl]
            rw [modPath_cont_cons _ (by simp), modPath_cont_cons _ hc, hslot, hp]
            simp only [modPath_nil, setφ, Tree.kids_dict, Tree.withKids_dict, modMissing, hk,
              set_append_length]
    · -- not a container: both sides raise
      cases t with
      | null => simp [modPath] at h
      | int n => simp [modPath] at h
      | list ts => simp at hc
      | dict ks vs => simp at hc

theorem setPath_setPath {t t1 : Tree} {path : List Int} {a : Tree} (b : Tree) (hw : treeWF t)
    (h : setPath t path a = some t1) : setPath t1 path b = setPath t path b := by
  rw [setPath_eq] at h
  cases hm : modPath (setφ a) t path with
  | none => rw [hm] at h; simp at h
  | some tr =>
    obtain ⟨t', r⟩ := tr
    rw [hm] at h
    simp at h
    subst h
    rw [setPath_eq, setPath_eq, modPath_set_set a b path t t' r hw hm]

/-- whether an index assignment succeeds depends only on the path, not on the assigned value -/
theorem modPath_set_isSome (a b : Tree) : ∀ (path : List Int) (t : Tree),
    (modPath (setφ a) t path).isSome = (modPath (setφ b) t path).isSome := by
  intro path
  induction path with
  | nil => intro t; rw [modPath_nil, modPath_nil]; simp [setφ]
  | cons ix rest ih =>
    intro t
    by_cases hc : t.isCont = true
    · rw [modPath_cont_cons _ hc, modPath_cont_cons _ hc]
      cases hp : treeSlot t ix with
      | none =>
        dsimp only
        unfold modMissing
        cases t.keysT <;> cases rest <;> simp [setφ]
      | some j =>
        dsimp only
        have := ih (t.kids.getD j .null)
        cases h1 : modPath (setφ a) (t.kids.getD j .null) rest <;>
          cases h2 : modPath (setφ b) (t.kids.getD j .null) rest <;> rw [h1, h2] at this <;> simp at this ⊢
    · cases t with
      | null => simp [modPath]
      | int n => simp [modPath]
      | list ts => simp at hc
      | dict ks vs => simp at hc

theorem setPath_none_iff {t : Tree} {path : List Int} (a b : Tree) :
    setPath t path a = none ↔ setPath t path b = none := by
  have := modPath_set_isSome a b path t
  rw [setPath_eq, setPath_eq]
  cases h1 : modPath (setφ a) t path <;> cases h2 : modPath (setφ b) t path <;> simp [h1, h2] at this ⊢

end Noulith.RcHeap
