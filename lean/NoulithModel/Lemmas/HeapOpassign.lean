/-
C02 helper lemmas, part 3: operator-assignment through an index path (`x[i]…[j] append= v`).
* tree size ⇒ the value at the end of a non-empty path is never the container itself (acyclicity from
  the representation relation);
* heap extensionality and the exact effect of `eval_lvalue_as_obj` on a path of count-1 levels:
  `readPath (dup h v) v path = (dup h l, some l)` — every clone-then-drop pair cancels;
* what `set_index` does to the counts along / at the end of a count-1 path.
-/
import NoulithModel.Lemmas.HeapNested
import NoulithModel.Theorems.C01

namespace Noulith.RcHeap
open Noulith.Store (Tree modPath pyIdx setφ takeφ popφ removeφ getPath setPath LeafT dictSlot)

/-! ### tree size -/

mutual
def treeSize : Tree → Nat
  | .null => 1
  | .int _ => 1
  | .list ts => 1 + treeSizeList ts
  | .dict _ vs => 1 + treeSizeList vs
def treeSizeList : List Tree → Nat
  | [] => 0
  | t :: ts => treeSize t + treeSizeList ts
end

theorem treeSize_list (ts : List Tree) : treeSize (.list ts) = 1 + treeSizeList ts := by
  rw [treeSize]
theorem treeSize_cont {t : Tree} (hc : t.isCont = true) : treeSize t = 1 + treeSizeList t.kids := by
  cases t with
  | null => simp at hc
  | int n => simp at hc
  | list ts => rw [treeSize]; rfl
  | dict ks vs => rw [treeSize]; rfl
theorem treeSizeList_cons (t : Tree) (ts : List Tree) : treeSizeList (t :: ts) = treeSize t + treeSizeList ts := by
  rw [treeSizeList]
theorem treeSize_pos (t : Tree) : 0 < treeSize t := by
  cases t <;> simp [treeSize] <;> omega

theorem getD_size_le : ∀ (ts : List Tree) (j : Nat), j < ts.length → treeSize (ts.getD j .null) ≤ treeSizeList ts
  | [], j, hj => by simp at hj
  | t :: ts, 0, _ => by simp [treeSizeList_cons]
  | t :: ts, j + 1, hj => by
    have := getD_size_le ts j (by simpa using hj)
    simp [treeSizeList_cons] at this ⊢; omega

theorem treeSlot_lt {t : Tree} {i : Int} {j : Nat} (h : treeSlot t i = some j) : j < t.kids.length := by
  unfold treeSlot at h
  cases hk : t.keysT with
  | none => rw [hk] at h; exact pyIndex_lt (by rw [pyIndex_eq_pyIdx]; exact h)
  | some ks =>
    rw [hk] at h
    simp only [dictSlot] at h
    cases hki : Store.keyIdx ks i with
    | none => rw [hki] at h; simp at h
    | some j' =>
      rw [hki] at h
      dsimp only at h
      split at h
      · injection h with h; omega
      · cases h

theorem getPath_size : ∀ (path : List Int) (t t' : Tree), getPath t path = some t' →
    treeSize t' ≤ treeSize t ∧ (path ≠ [] → treeSize t' < treeSize t) := by
  intro path
  induction path with
  | nil => intro t t' h; rw [getPath_nil] at h; injection h with h; subst h; exact ⟨Nat.le_refl _, fun c => absurd rfl c⟩
  | cons i rest ih =>
    intro t t' h
    by_cases hc : t.isCont = true
    · rw [getPath_cont_cons hc] at h
      cases hp : treeSlot t i with
      | none => rw [hp] at h; simp at h
      | some j =>
        rw [hp] at h
        have hj := treeSlot_lt hp
        have := (ih _ _ h).1
        have := getD_size_le t.kids j hj
        rw [treeSize_cont hc]
        exact ⟨by omega, fun _ => by omega⟩
    · cases t with
      | null => simp [getPath] at h
      | int n => simp [getPath] at h
      | list ts => simp at hc
      | dict ks vs => simp at hc

/-! ### the value at the end of an index path -/

def valAt (h : Heap) : Val → List Int → Option Val
  | v, [] => some v
  | .ref id, i :: rest =>
    match slotOf h id i with
    | none => none
    | some j => valAt h ((payloadOf h id).getD j .null) rest
  | _, _ :: _ => none

theorem valAt_nil (h : Heap) (v : Val) : valAt h v [] = some v := by cases v <;> rfl
theorem valAt_ref_cons (h : Heap) (id : Nat) (i : Int) (rest : List Int) :
    valAt h (.ref id) (i :: rest) =
      (match slotOf h id i with
       | none => none
       | some j => valAt h ((payloadOf h id).getD j .null) rest) := by
  rw [valAt]

theorem valAt_rep : ∀ (path : List Int) {h : Heap} {v l : Val} {t : Tree}, Rep h v t → valAt h v path = some l →
    ∃ t', getPath t path = some t' ∧ Rep h l t' := by
  intro path
  induction path with
  | nil => intro h v l t r hv; rw [valAt_nil] at hv; injection hv with hv; subst hv; exact ⟨t, getPath_nil t, r⟩
  | cons i rest ih =>
    intro h v l t r hv
    cases v with
    | null => simp [valAt] at hv
    | int n => simp [valAt] at hv
    | ref id =>
      obtain ⟨hc, _, hk, _, a⟩ := Rep_ref_inv r
      rw [valAt_ref_cons] at hv
      rw [getPath_cont_cons hc, ← slotOf_eq_treeSlot hk (All2.length_eq a)]
      cases hp : slotOf h id i with
      | none => rw [hp] at hv; simp at hv
      | some j =>
        rw [hp] at hv
        exact ih (All2.getD j .null .null a (slotOf_lt hp)) hv

/-- acyclicity: the value at the end of a non-empty path below a represented list is not that list -/
theorem leaf_ne_self {h : Heap} {id : Nat} {t : Tree} {i : Int} {rest : List Int} {l : Val}
    (r : Rep h (.ref id) t) (hv : valAt h (.ref id) (i :: rest) = some l) : l ≠ .ref id := by
  intro e
  subst e
  obtain ⟨t', hg, r'⟩ := valAt_rep (i :: rest) r hv
  have := Noulith.C01.rep_functional r r'
  subst this
  have := (getPath_size (i :: rest) _ _ hg).2 (by simp)
  omega

theorem valAt_congr {h h' : Heap} (e : ∀ i, payloadOf h' i = payloadOf h i) (ek : ∀ i, keysOf h' i = keysOf h i) :
    ∀ (path : List Int) (v : Val), valAt h' v path = valAt h v path := by
  intro path
  induction path with
  | nil => intro v; rw [valAt_nil, valAt_nil]
  | cons i rest ih =>
    intro v
    cases v with
    | null => rfl
    | int n => rfl
    | ref id =>
      rw [valAt_ref_cons, valAt_ref_cons, slotOf_congr (ek id) (by rw [e]), e]
      cases slotOf h id i with
      | none => rfl
      | some j => exact ih _

theorem valAt_frame {h : Heap} {id1 : Nat} (a : Alloc) (hz : pocc id1 h = 0) :
    ∀ (path : List Int) (v : Val), v ≠ .ref id1 → valAt (setAlloc h id1 a) v path = valAt h v path := by
  intro path
  induction path with
  | nil => intro v _; rw [valAt_nil, valAt_nil]
  | cons i rest ih =>
    intro v hne
    cases v with
    | null => rfl
    | int n => rfl
    | ref id =>
      have hid : ¬ id = id1 := fun e => hne (by rw [e])
      rw [valAt_ref_cons, valAt_ref_cons, payloadOf_setAlloc, slotOf_setAlloc_ne h a hid]
      simp only [hid, false_and, if_false]
      cases hp : slotOf h id i with
      | none => rfl
      | some j => exact ih _ (ne_ref_of_pocc_zero hz (getD_mem _ (slotOf_lt hp)))

/-- the list at the end of a path satisfying `EndUniq` has count 1 -/
theorem endUniq_valAt : ∀ (path : List Int) {h : Heap} {v : Val} {m : Nat}, EndUniq h v path →
    valAt h v path = some (.ref m) → rcOf h m = 1 := by
  intro path
  induction path with
  | nil =>
    intro h v m eu hv
    rw [valAt_nil] at hv; injection hv with hv; subst hv
    simpa [EndUniq] using eu
  | cons i rest ih =>
    intro h v m eu hv
    cases v with
    | null => simp [valAt] at hv
    | int n => simp [valAt] at hv
    | ref id =>
      rw [valAt_ref_cons] at hv
      simp only [EndUniq] at eu
      cases hp : slotOf h id i with
      | none => rw [hp] at hv; simp at hv
      | some j => rw [hp] at hv; exact ih (eu j hp) hv

/-! ### heap extensionality; clone-then-drop cancels -/

theorem heap_ext {h1 h2 : Heap} (hl : h1.allocs.length = h2.allocs.length)
    (hr : ∀ i, rcOf h1 i = rcOf h2 i) (hp : ∀ i, payloadOf h1 i = payloadOf h2 i)
    (hk : ∀ i, keysOf h1 i = keysOf h2 i)
    (hc : h1.copied = h2.copied) (hpu : h1.pushes = h2.pushes) : h1 = h2 := by
  cases h1 with
  | mk a1 c1 p1 =>
    cases h2 with
    | mk a2 c2 p2 =>
      simp only at hl hc hpu
      subst hc; subst hpu
      congr 1
      apply List.ext_getElem hl
      intro i hi1 hi2
      have e1 := hr i
      have e2 := hp i
      have e3 := hk i
      simp only [rcOf, payloadOf, keysOf, List.getElem?_eq_getElem hi1, List.getElem?_eq_getElem hi2] at e1 e2 e3
      cases h1 : a1[i] with
      | mk pa ra ka =>
        cases h2 : a2[i] with
        | mk pb rb kb =>
          rw [h1, h2] at e1 e2 e3
          simp only at e1 e2 e3
          rw [e1, e2, e3]

theorem dup_pushes' (h : Heap) (v : Val) : (dup h v).pushes = h.pushes := by cases v <;> rfl

/-- `index` clones the element and then drops the container handle it was given; when that handle was
itself a clone (count ≥ 2 at that moment) the net effect is just the clone of the element -/
theorem drop_dup_dup {h : Heap} {id : Nat} {c : Val} (hr : 1 ≤ rcOf h id) (hne : c ≠ .ref id) (hlc : Live h c) :
    drop (dup (dup h (.ref id)) c) (.ref id) = dup h c := by
  have hl : id < h.allocs.length := lt_of_rcOf_pos (by omega)
  have hlid : Live h (.ref id) := fun j e => by injection e with e; subst e; exact hl
  have hlc' : Live (dup h (.ref id)) c := hlc.ext (by simp [dup_length])
  have hocc : occ id [c] = 0 := by
    cases c with
    | null => simp
    | int n => simp
    | ref j => have : ¬ j = id := fun e => hne (by rw [e]); simp [occ_cons_ref, this]
  have r2 : rcOf (dup (dup h (.ref id)) c) id = rcOf h id + 1 := by
    rw [rcOf_dup _ _ _ hlc', rcOf_dup _ _ _ hlid, hocc]; simp [occ_cons_ref]
  have hnot : ¬ rcOf (dup (dup h (.ref id)) c) id ≤ 1 := by omega
  have e : drop (dup (dup h (.ref id)) c) (.ref id) =
      setRc (dup (dup h (.ref id)) c) id (rcOf (dup (dup h (.ref id)) c) id - 1) := by
    simp [drop, dropVal, hnot]
  rw [e]
  apply heap_ext
  · simp [dup_length]
  · intro i
    rw [rcOf_setRc, rcOf_dup _ _ _ hlc]
    by_cases hi : i = id
    · subst hi
      simp only [dup_length, hl, and_self, if_true, r2, hocc]; omega
    · simp only [hi, false_and, if_false]
      rw [rcOf_dup _ _ _ hlc', rcOf_dup _ _ _ hlid]
      have : ¬ id = i := fun e => hi e.symm
      simp [occ_cons_ref, this]
  · intro i; simp [payloadOf_setRc, payloadOf_dup]
  · intro i; simp [keysOf_setRc, keysOf_dup]
  · simp [dup_copied]
  · simp [dup_pushes']

theorem slotOf_dup (h : Heap) (v : Val) (id : Nat) (i : Int) : slotOf (dup h v) id i = slotOf h id i :=
  slotOf_congr (keysOf_dup h v id) (by rw [payloadOf_dup]) i

theorem readPath_copied : ∀ (path : List Int) (h : Heap) (v : Val), (readPath h v path).1.copied = h.copied := by
  intro path
  induction path with
  | nil => intro h v; rw [readPath_nil]
  | cons ix rest ih =>
    intro h v
    cases v with
    | null => rfl
    | int n => rfl
    | ref id =>
      simp only [readPath]
      split
      · exact drop_copied _ _
      · rw [ih, drop_copied, dup_copied]

theorem Rep.live {h : Heap} {v : Val} {t : Tree} (r : Rep h v t) : Live h v := by
  intro j e; subst e
  obtain ⟨_, hl, _⟩ := Rep_ref_inv r
  exact hl

/-- **exact effect of reading an lvalue through count-1 levels**: `eval_lvalue_as_obj` on a variable
whose index path has strong count 1 at every level returns a clone of the addressed value and leaves
the heap exactly as it was except for that one clone. -/
theorem readPath_unique : ∀ (path : List Int) {h : Heap} {v : Val} {t : Tree}, Rep h v t → PathUniq h v path →
    (match valAt h v path with
     | some l => readPath (dup h v) v path = (dup h l, some l)
     | none => (readPath (dup h v) v path).2 = none) := by
  intro path
  induction path with
  | nil => intro h v t _ _; rw [valAt_nil, readPath_nil]
  | cons i rest ih =>
    intro h v t r pu
    cases v with
    | null => rfl
    | int n => rfl
    | ref id =>
      obtain ⟨_, hl, _, _, a⟩ := Rep_ref_inv r
      simp only [PathUniq] at pu
      rw [valAt_ref_cons]
      simp only [readPath, payloadOf_dup, slotOf_dup]
      cases hp : slotOf h id i with
      | none => rfl
      | some j =>
        dsimp only
        have hj := slotOf_lt hp
        have rc : Rep h ((payloadOf h id).getD j .null) (t.kids.getD j .null) := All2.getD j _ _ a hj
        have hv1 : valAt h (.ref id) [i] = some ((payloadOf h id).getD j .null) := by
          rw [valAt_ref_cons, hp]; exact valAt_nil _ _
        have hne := leaf_ne_self r hv1
        rw [drop_dup_dup (by omega) hne rc.live]
        exact ih rc (pu.2 j hp)

theorem drop_atom' (h : Heap) {v : Val} (hv : ∀ j, v ≠ .ref j) : drop h v = h := by
  cases v with
  | null => rfl
  | int n => rfl
  | ref j => exact absurd rfl (hv j)

/-! ### counts along the path after the read, after `drop_lhs`, after the operator -/

/-- cloning the value at the end of the path does not disturb the count-1 levels above it -/
theorem pathUniq_dup_leaf : ∀ (path : List Int) {h : Heap} {v l : Val} {t : Tree}, Rep h v t → PathUniq h v path →
    valAt h v path = some l → PathUniq (dup h l) v path := by
  intro path
  induction path with
  | nil => intro h v l t _ _ _; cases v <;> trivial
  | cons i rest ih =>
    intro h v l t r pu hv
    cases v with
    | null => trivial
    | int n => trivial
    | ref id =>
      obtain ⟨_, hl, _, _, a⟩ := Rep_ref_inv r
      have hne := leaf_ne_self r hv
      obtain ⟨t', _, rl⟩ := valAt_rep (i :: rest) r hv
      simp only [PathUniq] at pu ⊢
      rw [valAt_ref_cons] at hv
      have hocc : occ id [l] = 0 := by
        cases l with
        | null => simp
        | int n => simp
        | ref j => have : ¬ j = id := fun e => hne (by rw [e]); simp [occ_cons_ref, this]
      rw [rcOf_dup _ _ _ rl.live, payloadOf_dup, hocc]
      simp only [slotOf_dup]
      refine ⟨by simpa using pu.1, fun j hj => ?_⟩
      rw [hj] at hv
      exact ih (All2.getD j .null .null a (slotOf_lt hj)) (pu.2 j hj) hv

theorem PathUniq_allocs_eq {h h' : Heap} (e : h'.allocs = h.allocs) : ∀ (path : List Int) (v : Val),
    PathUniq h v path → PathUniq h' v path := by
  intro path
  induction path with
  | nil => intro v _; cases v <;> trivial
  | cons i rest ih =>
    intro v pu
    cases v with
    | null => trivial
    | int n => trivial
    | ref id =>
      simp only [PathUniq] at pu ⊢
      rw [rcOf_allocs_eq e, payloadOf_allocs_eq e]
      have es : slotOf h' id i = slotOf h id i :=
        slotOf_congr (keysOf_allocs_eq e id) (by rw [payloadOf_allocs_eq e]) i
      rw [es]
      exact ⟨pu.1, fun j hj => ih _ (pu.2 j hj)⟩

/-- `drop_lhs` through count-1 levels: the only count that changes is that of the old slot value — it
loses the slot's handle (2 → 1 when the only other handle is the operator's argument) -/
theorem walk_set_leaf_rc (new : Val) : ∀ (path : List Int) (h : Heap) (v : Val) (T : List Val) (m : Nat),
    Inv h (v :: T) → PathUniq h v path → valAt h v path = some (.ref m) → rcOf h m = 2 →
    rcOf (walk (setLeaf new) h v path).h m = 1 := by
  intro path
  induction path with
  | nil =>
    intro h v T m _ _ hv h2
    rw [valAt_nil] at hv; injection hv with hv; subst hv
    have hl : m < h.allocs.length := lt_of_rcOf_pos (by omega)
    simp [walk_nil, setLeaf, drop, dropVal, h2, rcOf_setRc, hl]
  | cons ix rest ih =>
    intro h v T m i pu hv h2
    cases v with
    | null => simp [valAt] at hv
    | int n => simp [valAt] at hv
    | ref id =>
      simp only [PathUniq] at pu
      rw [valAt_ref_cons] at hv
      rw [walk_ref_cons, makeMut_of_unique pu.1]
      dsimp only
      cases hp : slotOf h id ix with
      | none => rw [hp] at hv; simp at hv
      | some j =>
        rw [hp] at hv
        dsimp only [walkStep]
        rw [rcOf_setPayload]
        obtain ⟨hz, _, hl⟩ := unique_facts i pu.1
        have hj := slotOf_lt hp
        have hcm : (payloadOf h id).getD j .null ∈ payloadOf h id := getD_mem _ hj
        have hcne : (payloadOf h id).getD j .null ≠ .ref id := ne_ref_of_pocc_zero hz hcm
        have i1 : Inv (setPayload h id ((payloadOf h id).set j .null))
            ((payloadOf h id).getD j .null :: (.ref id :: T)) := by
          have := slot_write_inv (v := .null) (T := T) (j := j) (i.congr (fun k => by simp [occ_cons])) pu.1 hj
          exact this.congr (fun k => by simp only [occ_cons]; omega)
        refine ih _ _ _ m i1 (PathUniq_frame _ hz rfl _ _ hcne (pu.2 j hp)) ?_ (by rw [rcOf_setPayload]; exact h2)
        rw [setPayload, valAt_frame _ hz _ _ hcne]; exact hv

/-- after `set_index` through count-1 levels, the levels of the same path still have count 1 -/
theorem walk_set_pathUniq {new : Val} {tn : Tree} : ∀ (path : List Int) (h : Heap) (v : Val) (F : List Val) (t : Tree),
    Inv h (v :: [new] ++ F) → Rep h v t → Rep h new tn → PathUniq h v path →
    PathUniq (walk (setLeaf new) h v path).h (walk (setLeaf new) h v path).v path := by
  intro path
  induction path with
  | nil => intro h v F t _ _ _ _; cases (walk (setLeaf new) h v []).v <;> trivial
  | cons ix rest ih =>
    intro h v F t i r rn pu
    cases v with
    | null => rw [walk_null_cons]; trivial
    | int n => rw [walk_int_cons]; trivial
    | ref id =>
      have pu0 := pu
      simp only [PathUniq] at pu
      obtain ⟨_, hl, _, _, a⟩ := Rep_ref_inv r
      have i0 : Inv h (.ref id :: ([new] ++ F)) := i.congr (fun k => by simp [occ_cons, occ_append])
      obtain ⟨hz, hcf, _⟩ := unique_facts i0 pu.1
      have hcz : occ id [new] = 0 := by simp only [occ_append] at hcf; omega
      rw [walk_ref_cons, makeMut_of_unique pu.1]
      dsimp only
      cases hp : slotOf h id ix with
      | none =>
        dsimp only
        cases hk : keysOf h id with
        | none => simp only [walkMissing, hk]; exact pu0
        | some ks =>
          cases rest with
          | cons i2 r2 => simp only [walkMissing, hk]; exact pu0
          | nil =>
            simp only [walkMissing, hk, setLeaf]
            simp only [PathUniq, rcOf_setEntries]
            exact ⟨pu.1, fun _ _ => trivial⟩
      | some j =>
        dsimp only
        have hj := slotOf_lt hp
        have hcm : (payloadOf h id).getD j .null ∈ payloadOf h id := getD_mem _ hj
        have hcne : (payloadOf h id).getD j .null ≠ .ref id := ne_ref_of_pocc_zero hz hcm
        have i1 : Inv (setPayload h id ((payloadOf h id).set j .null))
            ((payloadOf h id).getD j .null :: [new] ++ (.ref id :: F)) := by
          have := slot_write_inv (v := .null) (T := [new] ++ F) (j := j)
            (i0.congr (fun k => by simp [occ_cons])) pu.1 hj
          exact this.congr (fun k => by simp only [occ_cons, occ_append, List.cons_append]; omega)
        have rc : Rep (setPayload h id ((payloadOf h id).set j .null)) ((payloadOf h id).getD j .null)
            (t.kids.getD j .null) := slot_write_rep _ hz (All2.getD j _ _ a hj) hcne
        have hnne : new ≠ .ref id := ne_ref_of_occ_zero hcz (by simp)
        have rn1 : Rep (setPayload h id ((payloadOf h id).set j .null)) new tn := slot_write_rep _ hz rn hnne
        have pu1 : PathUniq (setPayload h id ((payloadOf h id).set j .null)) ((payloadOf h id).getD j .null) rest :=
          PathUniq_frame _ hz rfl _ _ hcne (pu.2 j hp)
        have IH := ih _ _ (.ref id :: F) _ i1 rc rn1 pu1
        have W := walk_spec (setLeaf_spec new tn) (setLeaf_ins new tn) rest _ _ (.ref id :: F) _ i1 rc (by simpa using rn1)
        dsimp only at W
        obtain ⟨w, hw⟩ : ∃ w, walk (setLeaf new) (setPayload h id ((payloadOf h id).set j .null))
            ((payloadOf h id).getD j .null) rest = w := ⟨_, rfl⟩
        simp only [walkStep, hw] at IH W ⊢
        have hrc1 : rcOf (setPayload h id ((payloadOf h id).set j .null)) id = 1 := by
          rw [rcOf_setPayload]; exact pu.1
        have hpay1 : payloadOf (setPayload h id ((payloadOf h id).set j .null)) id = (payloadOf h id).set j .null := by
          simp [payloadOf_setPayload, hl]
        have rcw : rcOf w.h id = 1 := by
          have := W.1.tight id (by omega) (by simp [occ_cons_ref, hrc1])
          omega
        have payw : payloadOf w.h id = (payloadOf h id).set j .null := by
          rw [W.1.stable.pay id (by simpa using hl) (.root (by simp)), hpay1]
        have iw : Inv w.h (.ref id :: w.v :: (w.r :: (bif w.ok then [] else [new]) ++ F)) :=
          W.1.inv.congr (fun k => by simp only [occ_cons, occ_append, List.cons_append]; omega)
        obtain ⟨hzw, hcw, hlw⟩ := unique_facts iw rcw
        have hvne : w.v ≠ .ref id := by
          intro e; rw [e] at hcw; simp [occ_cons_ref] at hcw
        simp only [PathUniq, rcOf_setPayload, payloadOf_setPayload, hlw, and_self, if_true, payw,
          List.length_set, List.set_set]
        refine ⟨rcw, fun j' hj' => ?_⟩
        have hslot3 : slotOf (setPayload w.h id ((payloadOf h id).set j w.v)) id ix = slotOf h id ix :=
          slotOf_congr (by rw [keysOf_setPayload, W.1.stable.keys id (by simpa using hl) (.root (by simp)),
            keysOf_setPayload]) (by rw [payloadOf_setPayload]; simp [hlw]) ix
        rw [hslot3] at hj'
        have : j' = j := by rw [hp] at hj'; injection hj' with e; exact e.symm
        subst this
        rw [getD_set_self _ _ _ _ hj]
        exact PathUniq_frame _ hzw rfl _ _ hvne IH

theorem setIndex_atom (h : Heap) (v : Val) (path : List Int) (new : Val) (hn : ∀ j, new ≠ .ref j) :
    (setIndex h v path new).h = (walk (setLeaf new) h v path).h ∧
    (setIndex h v path new).v = (walk (setLeaf new) h v path).v := by
  unfold setIndex
  dsimp only
  split
  · exact ⟨rfl, rfl⟩
  · exact ⟨drop_atom' _ hn, rfl⟩

end Noulith.RcHeap
