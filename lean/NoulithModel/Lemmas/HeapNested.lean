/-
C02 helper lemmas, part 2: fully unshared NESTED values.  `UniqN k h v`: every allocation reachable
from `v` (to depth k) has strong count 1.  It is preserved for owned values next to any drop, and by
`walk` (set_index / modify_existing_index) on the value itself: walking a fully unshared value is in
place at every level and leaves it fully unshared.
-/
import NoulithModel.Lemmas.HeapCost

namespace Noulith.RcHeap
open Noulith.Store (Tree modPath pyIdx setφ takeφ popφ removeφ getPath setPath)

/-- every allocation reachable from `v` has strong count 1 (derivation of depth ≤ k) -/
def UniqN : Nat → Heap → Val → Prop
  | _, _, .null => True
  | _, _, .int _ => True
  | 0, _, .ref _ => False
  | k + 1, h, .ref id => rcOf h id = 1 ∧ ∀ c ∈ payloadOf h id, UniqN k h c

@[simp] theorem UniqN_null (k : Nat) (h : Heap) : UniqN k h .null = True := by cases k <;> rfl
@[simp] theorem UniqN_int (k : Nat) (h : Heap) (n : Int) : UniqN k h (.int n) = True := by cases k <;> rfl
@[simp] theorem UniqN_zero_ref (h : Heap) (id : Nat) : UniqN 0 h (.ref id) = False := rfl
@[simp] theorem UniqN_succ_ref (k : Nat) (h : Heap) (id : Nat) :
    UniqN (k + 1) h (.ref id) = (rcOf h id = 1 ∧ ∀ c ∈ payloadOf h id, UniqN k h c) := rfl

theorem UniqN_atom {k : Nat} {h : Heap} {v : Val} (hv : ∀ j, v ≠ .ref j) : UniqN k h v := by
  cases v with
  | null => simp
  | int n => simp
  | ref j => exact absurd rfl (hv j)

theorem UniqN_succ : ∀ {k : Nat} {h : Heap} {v : Val}, UniqN k h v → UniqN (k + 1) h v := by
  intro k
  induction k with
  | zero => intro h v u; cases v <;> simp at u ⊢
  | succ k ih =>
    intro h v u
    cases v with
    | null => simp
    | int n => simp
    | ref id =>
      simp only [UniqN_succ_ref] at u ⊢
      exact ⟨u.1, fun c hc => ih (u.2 c hc)⟩

/-- frame rule: rewriting an allocation no payload refers to is invisible from other values (the count
of other allocations is untouched) -/
theorem UniqN_frame {h : Heap} {id : Nat} (a : Alloc) (hz : pocc id h = 0) : ∀ {k : Nat} {v : Val},
    v ≠ .ref id → UniqN k h v → UniqN k (setAlloc h id a) v := by
  intro k
  induction k with
  | zero => intro v _ u; cases v <;> simp at u ⊢
  | succ k ih =>
    intro v hne u
    cases v with
    | null => simp
    | int n => simp
    | ref j =>
      have hj : ¬ j = id := fun e => hne (by rw [e])
      simp only [UniqN_succ_ref] at u ⊢
      rw [rcOf_setAlloc, payloadOf_setAlloc]
      simp only [hj, false_and, if_false]
      exact ⟨u.1, fun c hc => ih (ne_ref_of_pocc_zero hz hc) (u.2 c hc)⟩

theorem UniqN_setPayload {h : Heap} {id : Nat} (p : List Val) (hz : pocc id h = 0) {k : Nat} {v : Val}
    (hne : v ≠ .ref id) (u : UniqN k h v) : UniqN k (setPayload h id p) v :=
  UniqN_frame _ hz hne u

/-- changing the count of an allocation whose count is not 1 cannot be seen from a fully unshared value -/
theorem UniqN_setRc {h : Heap} {id n : Nat} (hr : rcOf h id ≠ 1) : ∀ {k : Nat} {v : Val},
    UniqN k h v → UniqN k (setRc h id n) v := by
  intro k
  induction k with
  | zero => intro v u; cases v <;> simp at u ⊢
  | succ k ih =>
    intro v u
    cases v with
    | null => simp
    | int n => simp
    | ref j =>
      simp only [UniqN_succ_ref] at u ⊢
      have hj : ¬ j = id := by intro e; rw [e] at u; exact hr u.1
      rw [rcOf_setRc, payloadOf_setRc]
      simp only [hj, false_and, if_false]
      exact ⟨u.1, fun c hc => ih (u.2 c hc)⟩

theorem UniqN_allocs_eq {h h' : Heap} (e : h'.allocs = h.allocs) : ∀ {k : Nat} {v : Val},
    UniqN k h v → UniqN k h' v := by
  intro k
  induction k with
  | zero => intro v u; cases v <;> simp at u ⊢
  | succ k ih =>
    intro v u
    cases v with
    | null => simp
    | int n => simp
    | ref j =>
      simp only [UniqN_succ_ref] at u ⊢
      rw [rcOf_allocs_eq e, payloadOf_allocs_eq e]
      exact ⟨u.1, fun c hc => ih (u.2 c hc)⟩

/-! ### a fully unshared value has count 1 on every path -/

theorem UniqN_pathUniq : ∀ (path : List Int) {k : Nat} {h : Heap} {v : Val}, UniqN k h v → PathUniq h v path := by
  intro path
  induction path with
  | nil => intro k h v _; cases v <;> trivial
  | cons i rest ih =>
    intro k h v u
    cases v with
    | null => trivial
    | int n => trivial
    | ref id =>
      cases k with
      | zero => simp at u
      | succ k =>
        simp only [UniqN_succ_ref] at u
        simp only [PathUniq]
        exact ⟨u.1, fun j hj => ih (u.2 _ (getD_mem _ (slotOf_lt hj)))⟩

theorem UniqN_endUniq : ∀ (path : List Int) {k : Nat} {h : Heap} {v : Val}, UniqN k h v → EndUniq h v path := by
  intro path
  induction path with
  | nil =>
    intro k h v u
    cases v with
    | null => trivial
    | int n => trivial
    | ref id =>
      cases k with
      | zero => simp at u
      | succ k => simp only [UniqN_succ_ref] at u; simpa [EndUniq] using u.1
  | cons i rest ih =>
    intro k h v u
    cases v with
    | null => trivial
    | int n => trivial
    | ref id =>
      cases k with
      | zero => simp at u
      | succ k =>
        simp only [UniqN_succ_ref] at u
        simp only [EndUniq]
        exact fun j hj => ih (u.2 _ (getD_mem _ (slotOf_lt hj)))

/-! ### dropping some other owned value -/

theorem dropList_uniq {f : Nat}
    (ih : ∀ (h : Heap) (v : Val) (F : List Val), Inv h (v :: F) →
      ∀ u ∈ F, ∀ k, UniqN k h u → UniqN k (dropVal f h v) u) :
    ∀ (p : List Val) (h : Heap) (F : List Val), Inv h (p ++ F) →
      ∀ u ∈ F, ∀ k, UniqN k h u → UniqN k (p.foldl (dropVal f) h) u := by
  intro p
  induction p with
  | nil => intro h F _ u _ k uu; exact uu
  | cons v vs ihp =>
    intro h F i u hu k uu
    have t1 := dropVal_tr f h v (vs ++ F) (by simpa using i)
    simp only [List.foldl_cons]
    exact ihp (dropVal f h v) F (by simpa using t1.inv) u hu k
      (ih h v (vs ++ F) (by simpa using i) u (by simp [hu]) k uu)

/-- dropping an owned value leaves every fully unshared value of the frame fully unshared -/
theorem dropVal_uniq : ∀ (f : Nat) (h : Heap) (v : Val) (F : List Val), Inv h (v :: F) →
    ∀ u ∈ F, ∀ k, UniqN k h u → UniqN k (dropVal f h v) u := by
  intro f
  induction f with
  | zero => intro h v F _ u _ k uu; exact uu
  | succ f ih =>
    intro h v F i u hu k uu
    cases v with
    | null => exact uu
    | int n => exact uu
    | ref id =>
      have hid := i id
      simp only [occ_cons_ref, if_true] at hid
      simp only [dropVal]
      by_cases hrc : rcOf h id ≤ 1
      · simp only [hrc, if_true]
        have hl : id < h.allocs.length := lt_of_rcOf_pos (by omega)
        have hpz : pocc id h = 0 := by omega
        have hfz : occ id F = 0 := by omega
        have hne : u ≠ .ref id := ne_ref_of_occ_zero hfz hu
        have i1 : Inv (setAlloc h id ⟨[], 0, none⟩) (payloadOf h id ++ F) := by
          intro j
          have hj := i j
          have hp := pocc_setAlloc h id j ⟨[], 0, none⟩ hl
          simp only [occ_nil, Nat.add_zero] at hp
          simp only [occ_append, rcOf_setAlloc, hl, and_true]
          simp only [occ_cons_ref] at hj
          by_cases e : j = id
          · subst e; simp; omega
          · have : ¬ id = j := fun x => e x.symm
            simp [e, this] at hj ⊢; omega
        exact dropList_uniq ih (payloadOf h id) _ F i1 u hu k (UniqN_frame _ hpz hne uu)
      · simp only [hrc, if_false]
        exact UniqN_setRc (by omega) uu

theorem drop_uniq {h : Heap} {v : Val} {F : List Val} (i : Inv h (v :: F)) {u : Val} (hu : u ∈ F) {k : Nat}
    (uu : UniqN k h u) : UniqN k (drop h v) u :=
  dropVal_uniq _ h v F i u hu k uu

/-! ### walking a fully unshared value -/

/-- contract of a leaf action on a fully unshared slot value: the new slot value and the result are
fully unshared, and every fully unshared value of the frame stays so -/
def LeafU (leaf : Leaf) (cap : List Val) : Prop :=
  ∀ (h : Heap) (c : Val) (F : List Val) (k : Nat), Inv h (c :: cap ++ F) → UniqN k h c →
    UniqN k (leaf.act h c).h (leaf.act h c).v ∧ UniqN k (leaf.act h c).h (leaf.act h c).r ∧
    ∀ u ∈ F, ∀ k', UniqN k' h u → UniqN k' (leaf.act h c).h u

/-- the value a leaf inserts under a new dict key is an atom -/
def InsAtom (leaf : Leaf) : Prop := ∀ new, leaf.ins = some new → ∀ j, new ≠ .ref j

theorem setLeaf_insAtom (new : Val) (hn : ∀ j, new ≠ .ref j) : InsAtom (setLeaf new) := by
  intro n e; simp [setLeaf] at e; subst e; exact hn
theorem popLeaf_insAtom : InsAtom popLeaf := by intro n e; simp [popLeaf] at e

theorem setLeaf_leafU (new : Val) (hn : ∀ j, new ≠ .ref j) : LeafU (setLeaf new) [new] := by
  intro h c F k i _
  refine ⟨UniqN_atom hn, by simp [setLeaf], fun u hu k' uu => ?_⟩
  exact drop_uniq (F := [new] ++ F) i (by simp [hu]) uu

theorem popLeaf_leafU : LeafU popLeaf [] := by
  intro h c F k i uc
  cases c with
  | null => exact ⟨by simp [popLeaf, popAct], by simp [popLeaf, popAct], fun u _ k' uu => uu⟩
  | int n => exact ⟨by simp [popLeaf, popAct], by simp [popLeaf, popAct], fun u _ k' uu => uu⟩
  | ref id =>
    cases k with
    | zero => simp at uc
    | succ k =>
      simp only [UniqN_succ_ref] at uc
      obtain ⟨hz, hf, hl⟩ := unique_facts (T := F) (by simpa using i) uc.1
      simp only [popLeaf, popAct, makeMut_of_unique uc.1]
      cases hkk : keysOf h id with
      | some ks => exact ⟨by simp [uc.1]; exact uc.2, by simp, fun u _ k' uu => uu⟩
      | none =>
      dsimp only
      cases hg : (payloadOf h id).getLast? with
      | none => exact ⟨by simp [uc.1]; exact uc.2, by simp, fun u _ k' uu => uu⟩
      | some xv =>
        dsimp only
        have hxm : xv ∈ payloadOf h id := mem_of_getLast? hg
        refine ⟨?_, ?_, fun u hu k' uu => UniqN_setPayload _ hz (ne_ref_of_occ_zero hf hu) uu⟩
        · simp only [UniqN_succ_ref, rcOf_setPayload, payloadOf_setPayload, hl, and_self, if_true]
          refine ⟨uc.1, fun c hc => ?_⟩
          have hcm := mem_of_mem_dropLast hc
          exact UniqN_setPayload _ hz (ne_ref_of_pocc_zero hz hcm) (uc.2 c hcm)
        · exact UniqN_succ (UniqN_setPayload _ hz (ne_ref_of_pocc_zero hz hxm) (uc.2 xv hxm))

/-- **walking a fully unshared value keeps it fully unshared** (and keeps every fully unshared value of
the frame so), at any depth -/
theorem walk_uniq {leaf : Leaf} {cap : List Val} {capT : List Tree}
    {φ : Store.LeafT} (L : LeafSpec leaf.act cap capT φ.act) (LI : InsSpec leaf.ins φ.ins cap capT)
    (LU : LeafU leaf cap) (LA : InsAtom leaf) :
    ∀ (path : List Int) (h : Heap) (v : Val) (F : List Val) (t : Tree) (k : Nat),
      Inv h (v :: cap ++ F) → Rep h v t → All2 (Rep h) cap capT → UniqN k h v →
      UniqN k (walk leaf h v path).h (walk leaf h v path).v ∧
      UniqN k (walk leaf h v path).h (walk leaf h v path).r ∧
      ∀ u ∈ F, ∀ k', UniqN k' h u → UniqN k' (walk leaf h v path).h u := by
  intro path
  induction path with
  | nil => intro h v F t k i _ _ uv; rw [walk_nil]; exact LU h v F k i uv
  | cons ix rest ih =>
    intro h v F t k i r rcap uv
    cases v with
    | null => exact ⟨by simp [walk_null_cons], by simp [walk_null_cons], fun u _ k' uu => uu⟩
    | int n => exact ⟨by simp [walk_int_cons], by simp [walk_int_cons], fun u _ k' uu => uu⟩
    | ref id =>
      cases k with
      | zero => simp at uv
      | succ k =>
        simp only [UniqN_succ_ref] at uv
        obtain ⟨hcont, hl, hkeys, hwf, a⟩ := Rep_ref_inv r
        have i0 : Inv h (.ref id :: (cap ++ F)) := i.congr (fun k => by simp [occ_cons, occ_append])
        obtain ⟨hz, hcf, _⟩ := unique_facts i0 uv.1
        have hcz : occ id cap = 0 := by simp only [occ_append] at hcf; omega
        have hfz : occ id F = 0 := by simp only [occ_append] at hcf; omega
        rw [walk_ref_cons, makeMut_of_unique uv.1]
        dsimp only
        cases hp : slotOf h id ix with
        | none =>
          dsimp only
          have fail : UniqN (k + 1) h (.ref id) ∧ UniqN (k + 1) h .null ∧
              ∀ u ∈ F, ∀ k', UniqN k' h u → UniqN k' h u :=
            ⟨by simp [uv.1]; exact uv.2, by simp, fun u _ k' uu => uu⟩
          cases hk : keysOf h id with
          | none => simp only [walkMissing, hk]; exact fail
          | some ks =>
            cases rest with
            | cons i2 r2 => simp only [walkMissing, hk]; exact fail
            | nil =>
              cases hi : leaf.ins with
              | none => simp only [walkMissing, hk, hi]; exact fail
              | some new =>
                simp only [walkMissing, hk, hi]
                have hna := LA new hi
                refine ⟨?_, by simp, fun u hu k' uu => ?_⟩
                · simp only [UniqN_succ_ref, rcOf_setEntries, payloadOf_setEntries, hl, and_self, if_true]
                  refine ⟨uv.1, fun c hc => ?_⟩
                  rcases List.mem_append.1 hc with hm | hm
                  · exact UniqN_frame _ hz (ne_ref_of_pocc_zero hz hm) (uv.2 c hm)
                  · simp at hm; subst hm; exact UniqN_atom hna
                · exact UniqN_frame _ hz (ne_ref_of_occ_zero hfz hu) uu
        | some j =>
          dsimp only
          have hj := slotOf_lt hp
          have hcm : (payloadOf h id).getD j .null ∈ payloadOf h id := getD_mem _ hj
          have hcne : (payloadOf h id).getD j .null ≠ .ref id := ne_ref_of_pocc_zero hz hcm
          have i1 : Inv (setPayload h id ((payloadOf h id).set j .null))
              ((payloadOf h id).getD j .null :: cap ++ (.ref id :: F)) := by
            have := slot_write_inv (v := .null) (T := cap ++ F) (j := j)
              (i0.congr (fun k => by simp [occ_cons])) uv.1 hj
            exact this.congr (fun k => by simp only [occ_cons, occ_append, List.cons_append]; omega)
          have rc : Rep (setPayload h id ((payloadOf h id).set j .null)) ((payloadOf h id).getD j .null)
              (t.kids.getD j .null) := slot_write_rep _ hz (All2.getD j _ _ a hj) hcne
          have rcap1 : All2 (Rep (setPayload h id ((payloadOf h id).set j .null))) cap capT :=
            All2.mono (fun cv _ hm r => slot_write_rep _ hz r (ne_ref_of_occ_zero hcz hm)) rcap
          have uc1 : UniqN k (setPayload h id ((payloadOf h id).set j .null)) ((payloadOf h id).getD j .null) :=
            UniqN_setPayload _ hz hcne (uv.2 _ hcm)
          -- the parent, with the slot nulled, is fully unshared in the intermediate heap
          have hpay1 : payloadOf (setPayload h id ((payloadOf h id).set j .null)) id = (payloadOf h id).set j .null := by
            simp [payloadOf_setPayload, hl]
          have up1 : UniqN (k + 1) (setPayload h id ((payloadOf h id).set j .null)) (.ref id) := by
            simp only [UniqN_succ_ref, rcOf_setPayload, hpay1]
            refine ⟨uv.1, fun c hc => ?_⟩
            rcases List.mem_or_eq_of_mem_set hc with hm | rfl
            · exact UniqN_setPayload _ hz (ne_ref_of_pocc_zero hz hm) (uv.2 c hm)
            · simp
          have IH := ih _ _ (.ref id :: F) _ k i1 rc rcap1 uc1
          have W := walk_spec L LI rest _ _ (.ref id :: F) _ i1 rc rcap1
          dsimp only at W
          obtain ⟨w, hw⟩ : ∃ w, walk leaf (setPayload h id ((payloadOf h id).set j .null))
              ((payloadOf h id).getD j .null) rest = w := ⟨_, rfl⟩
          simp only [walkStep, hw] at IH W ⊢
          obtain ⟨Uv, Ur, UF⟩ := IH
          have upw := UF (.ref id) (by simp) (k + 1) up1
          simp only [UniqN_succ_ref] at upw
          have iw : Inv w.h (.ref id :: w.v :: (w.r :: (bif w.ok then [] else cap) ++ F)) :=
            W.1.inv.congr (fun k => by simp only [occ_cons, occ_append, List.cons_append]; omega)
          obtain ⟨hzw, hcw, hlw⟩ := unique_facts iw upw.1
          have hvne : w.v ≠ .ref id := by
            intro e; rw [e] at hcw; simp [occ_cons_ref] at hcw
          have hrne : w.r ≠ .ref id := by
            intro e; rw [e] at hcw; simp [occ_cons] at hcw
          refine ⟨?_, ?_, fun u hu k' uu => ?_⟩
          · simp only [UniqN_succ_ref, rcOf_setPayload, payloadOf_setPayload, hlw, and_self, if_true]
            refine ⟨upw.1, fun c hc => ?_⟩
            rcases List.mem_or_eq_of_mem_set hc with hm | rfl
            · exact UniqN_setPayload _ hzw (ne_ref_of_pocc_zero hzw hm) (upw.2 c hm)
            · exact UniqN_setPayload _ hzw hvne Uv
          · exact UniqN_succ (UniqN_setPayload _ hzw hrne Ur)
          · have hune : u ≠ .ref id := ne_ref_of_occ_zero hfz hu
            have u1 := UniqN_setPayload ((payloadOf h id).set j .null) hz hune uu
            have u2 := UF u (by simp [hu]) k' u1
            exact UniqN_setPayload _ hzw hune u2

end Noulith.RcHeap
