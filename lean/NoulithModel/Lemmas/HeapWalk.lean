/-
C01 helper lemmas, part 4: in-place slot writes on a uniquely owned allocation, the contract of a
leaf action (`LeafSpec`), and the theorem that `walk` (set_index / modify_existing_index) lifts a leaf
contract along an index path to the Spec's `modPath`.
-/
import NoulithModel.Lemmas.HeapOps

namespace Noulith.RcHeap
open Noulith.Store (Tree modPath pyIdx LeafT keyIdx dictSlot)

theorem pyIndex_eq_pyIdx (n : Nat) (i : Int) : pyIndex n i = pyIdx n i := rfl

theorem pyIndex_lt {n : Nat} {i : Int} {j : Nat} (h : pyIndex n i = some j) : j < n := by
  unfold pyIndex at h
  split at h
  · injection h with h; omega
  · split at h
    · injection h with h; omega
    · cases h

theorem keyPos_eq_keyIdx : ∀ (ks : List Int) (i : Int), keyPos ks i = keyIdx ks i
  | [], _ => rfl
  | k :: ks, i => by simp [keyPos, keyIdx, keyPos_eq_keyIdx ks i]

theorem slotOf_lt {h : Heap} {id : Nat} {i : Int} {j : Nat} (hs : slotOf h id i = some j) :
    j < (payloadOf h id).length := by
  unfold slotOf at hs
  split at hs
  · exact pyIndex_lt hs
  · split at hs
    · split at hs
      · injection hs with hs; omega
      · cases hs
    · cases hs

/-- the slot an index / key addresses in a container tree -/
def treeSlot (t : Tree) (i : Int) : Option Nat :=
  match t.keysT with
  | none => pyIdx t.kids.length i
  | some ks => dictSlot ks t.kids.length i

theorem slotOf_eq_treeSlot {h : Heap} {id : Nat} {t : Tree} (hk : keysOf h id = t.keysT)
    (hlen : (payloadOf h id).length = t.kids.length) (i : Int) : slotOf h id i = treeSlot t i := by
  unfold slotOf treeSlot
  rw [hk, hlen]
  cases t.keysT with
  | none => rfl
  | some ks => simp only [dictSlot, keyPos_eq_keyIdx]; cases keyIdx ks i <;> rfl

/-- `slotOf` looks only at the keys and the payload length of the allocation -/
theorem slotOf_congr {h h' : Heap} {id : Nat} (hk : keysOf h' id = keysOf h id)
    (hp : (payloadOf h' id).length = (payloadOf h id).length) (i : Int) : slotOf h' id i = slotOf h id i := by
  unfold slotOf; rw [hk, hp]

theorem getD_mem {α : Type} {l : List α} {j : Nat} (d : α) (hj : j < l.length) : l.getD j d ∈ l := by
  simp [List.getD, List.getElem?_eq_getElem hj]

theorem set_getD_self {α : Type} (l : List α) (j : Nat) (d : α) : l.set j (l.getD j d) = l := by
  induction l generalizing j with
  | nil => simp
  | cons a as ih =>
    cases j with
    | zero => simp
    | succ n => have := ih n; simp [List.getD] at this ⊢; exact this

theorem getD_set_self {α : Type} (l : List α) (j : Nat) (v d : α) (hj : j < l.length) : (l.set j v).getD j d = v := by
  simp [List.getD, hj]

/-- moving part of the frame into the owned outputs -/
theorem Tr.to_outs {h h' : Heap} {o G F : List Val} (a : Tr h h' o (G ++ F)) : Tr h h' (o ++ G) F :=
  ⟨by simpa [List.append_assoc] using a.inv, a.stable.mono (by intro v hv; simp [hv]),
   fun id hp hle => a.tight id hp (by simp only [occ_append]; omega)⟩

/-- facts about a uniquely owned allocation -/
theorem unique_facts {h : Heap} {id : Nat} {T : List Val} (i : Inv h (.ref id :: T)) (h1 : rcOf h id = 1) :
    pocc id h = 0 ∧ occ id T = 0 ∧ id < h.allocs.length := by
  have := i id
  simp only [occ_cons_ref, if_true] at this
  exact ⟨by omega, by omega, lt_of_rcOf_pos (by omega)⟩

/-- writing element `j` of a uniquely owned allocation in place: the new element moves from the
owned values into the payload, the old element moves out -/
theorem slot_write_inv {h : Heap} {id j : Nat} {v : Val} {T : List Val}
    (i : Inv h (.ref id :: v :: T)) (h1 : rcOf h id = 1) (hj : j < (payloadOf h id).length) :
    Inv (setPayload h id ((payloadOf h id).set j v)) (.ref id :: (payloadOf h id).getD j .null :: T) := by
  obtain ⟨_, _, hl⟩ := unique_facts i h1
  intro k
  have hk := i k
  have e1 := pocc_setPayload h id k ((payloadOf h id).set j v) hl
  have e2 := occ_set k (payloadOf h id) j v hj
  rw [rcOf_setPayload]
  simp only [occ_cons, occ_nil, Nat.add_zero] at hk e2 ⊢
  omega

theorem slot_write_stable {h : Heap} {id : Nat} (p : List Val) {F : List Val}
    (hz : pocc id h = 0) (hf : occ id F = 0) : Stable h (setPayload h id p) F :=
  Stable.setAlloc _ (not_reach_of_zero hz hf)

theorem slot_write_repN {h : Heap} {id : Nat} (p : List Val) (hz : pocc id h = 0) {k : Nat} {v : Val} {t : Tree}
    (r : RepN k h v t) (hne : v ≠ .ref id) : RepN k (setPayload h id p) v t :=
  RepN_frame _ hz r hne

theorem slot_write_rep {h : Heap} {id : Nat} (p : List Val) (hz : pocc id h = 0) {v : Val} {t : Tree}
    (r : Rep h v t) (hne : v ≠ .ref id) : Rep (setPayload h id p) v t := by
  obtain ⟨k, r⟩ := r
  exact ⟨k, slot_write_repN p hz r hne⟩

theorem Rep.ext {h h' : Heap} (e : PayloadExt h h') {v : Val} {t : Tree} (r : Rep h v t) : Rep h' v t := by
  obtain ⟨k, r⟩ := r
  exact ⟨k, RepN_ext e r⟩

theorem Stable.rep {h h' : Heap} {F : List Val} (s : Stable h h' F) {v : Val} {t : Tree}
    (hr : Reach h F v) (r : Rep h v t) : Rep h' v t := by
  obtain ⟨k, r⟩ := r
  exact ⟨k, s.repN hr r⟩

theorem All2.rep_of_RepN {h : Heap} {k : Nat} {vs : List Val} {ts : List Tree} (a : All2 (RepN k h) vs ts) :
    All2 (Rep h) vs ts := All2.mono (fun _ _ _ r => ⟨k, r⟩) a

theorem Rep_ref_inv {h : Heap} {id : Nat} {t : Tree} (r : Rep h (.ref id) t) :
    t.isCont = true ∧ id < h.allocs.length ∧ keysOf h id = t.keysT ∧ t.dictWF ∧
      All2 (Rep h) (payloadOf h id) t.kids := by
  obtain ⟨k, r⟩ := r
  obtain ⟨k', _, hc, hl, hk, hw, a⟩ := RepN_ref_inv r
  exact ⟨hc, hl, hk, hw, All2.rep_of_RepN a⟩

theorem Rep_null {h : Heap} : Rep h .null .null := ⟨0, by simp⟩
theorem Rep_int {h : Heap} (n : Int) : Rep h (.int n) (.int n) := ⟨0, by simp⟩

theorem Rep_null_inv {h : Heap} {t : Tree} (r : Rep h .null t) : t = .null := by
  obtain ⟨k, r⟩ := r; simpa using r
theorem Rep_int_inv {h : Heap} {n : Int} {t : Tree} (r : Rep h (.int n) t) : t = .int n := by
  obtain ⟨k, r⟩ := r; simpa using r

/-- the contract of a slot transformer: it owns the slot value `c` and the captured values `cap`;
afterwards it owns the new slot value, the result, and (only if it raised) still the captured values.
On the tree side it computes `φ`. -/
def LeafSpec (leaf : Heap → Val → WalkRes) (cap : List Val) (capT : List Tree)
    (φ : Tree → Option (Tree × Tree)) : Prop :=
  ∀ (h : Heap) (c : Val) (F : List Val) (t : Tree),
    Inv h (c :: cap ++ F) → Rep h c t → All2 (Rep h) cap capT →
    Tr h (leaf h c).h ((leaf h c).v :: (leaf h c).r :: (bif (leaf h c).ok then [] else cap)) F ∧
    (match φ t with
     | some (t', r) => (leaf h c).ok = true ∧ Rep (leaf h c).h (leaf h c).v t' ∧ Rep (leaf h c).h (leaf h c).r r
     | none => (leaf h c).ok = false ∧ Rep (leaf h c).h (leaf h c).v t ∧ (leaf h c).r = .null)

theorem walk_nil (leaf : Leaf) (h : Heap) (v : Val) : walk leaf h v [] = leaf.act h v := by
  cases v <;> rfl

/-- the part of `walk` after `make_mut` and a successful bounds check -/
def walkStep (leaf : Leaf) (h0 : Heap) (id1 j : Nat) (rest : List Int) : WalkRes :=
  ⟨setPayload (walk leaf (setPayload h0 id1 ((payloadOf h0 id1).set j .null)) ((payloadOf h0 id1).getD j .null) rest).h
      id1
      ((payloadOf (walk leaf (setPayload h0 id1 ((payloadOf h0 id1).set j .null)) ((payloadOf h0 id1).getD j .null) rest).h
        id1).set j
        (walk leaf (setPayload h0 id1 ((payloadOf h0 id1).set j .null)) ((payloadOf h0 id1).getD j .null) rest).v),
    .ref id1,
    (walk leaf (setPayload h0 id1 ((payloadOf h0 id1).set j .null)) ((payloadOf h0 id1).getD j .null) rest).r,
    (walk leaf (setPayload h0 id1 ((payloadOf h0 id1).set j .null)) ((payloadOf h0 id1).getD j .null) rest).ok⟩

theorem walk_ref_cons (leaf : Leaf) (h : Heap) (id : Nat) (i : Int) (rest : List Int) :
    walk leaf h (.ref id) (i :: rest) =
      (match slotOf (makeMut h id).1 (makeMut h id).2 i with
       | none => walkMissing leaf (makeMut h id).1 (makeMut h id).2 i rest
       | some j => walkStep leaf (makeMut h id).1 (makeMut h id).2 j rest) := by
  rw [walk]
  cases slotOf (makeMut h id).1 (makeMut h id).2 i <;> rfl

theorem walk_null_cons (leaf : Leaf) (h : Heap) (i : Int) (rest : List Int) :
    walk leaf h .null (i :: rest) = ⟨h, .null, .null, false⟩ := rfl
theorem walk_int_cons (leaf : Leaf) (h : Heap) (n : Int) (i : Int) (rest : List Int) :
    walk leaf h (.int n) (i :: rest) = ⟨h, .int n, .null, false⟩ := rfl

theorem ne_ref_of_occ_zero {id : Nat} {vs : List Val} {v : Val} (hz : occ id vs = 0) (hv : v ∈ vs) : v ≠ .ref id :=
  (occ_eq_zero_iff id vs).1 hz v hv

/-- one level of `walk` below a uniquely owned allocation -/
theorem walkStep_spec {leaf : Leaf} {cap : List Val} {capT : List Tree}
    {ψ : Tree → Option (Tree × Tree)} {rest : List Int}
    (IH : LeafSpec (fun h v => walk leaf h v rest) cap capT ψ)
    {h0 : Heap} {id1 j : Nat} {F : List Val} {t0 : Tree}
    (i0 : Inv h0 (.ref id1 :: (cap ++ F))) (rc1 : rcOf h0 id1 = 1)
    (hj : j < (payloadOf h0 id1).length) (hcont : t0.isCont = true) (hkeys : keysOf h0 id1 = t0.keysT)
    (hwf : t0.dictWF)
    (a : All2 (Rep h0) (payloadOf h0 id1) t0.kids) (rcap : All2 (Rep h0) cap capT) :
    Tr h0 (walkStep leaf h0 id1 j rest).h
      ((walkStep leaf h0 id1 j rest).v :: (walkStep leaf h0 id1 j rest).r ::
        (bif (walkStep leaf h0 id1 j rest).ok then [] else cap)) F ∧
    (match ψ (t0.kids.getD j .null) with
     | some (t', r) => (walkStep leaf h0 id1 j rest).ok = true ∧
         Rep (walkStep leaf h0 id1 j rest).h (walkStep leaf h0 id1 j rest).v (t0.withKids (t0.kids.set j t')) ∧
         Rep (walkStep leaf h0 id1 j rest).h (walkStep leaf h0 id1 j rest).r r
     | none => (walkStep leaf h0 id1 j rest).ok = false ∧
         Rep (walkStep leaf h0 id1 j rest).h (walkStep leaf h0 id1 j rest).v t0 ∧
         (walkStep leaf h0 id1 j rest).r = .null) := by
  obtain ⟨hz, hcf, hl⟩ := unique_facts i0 rc1
  have hcz : occ id1 cap = 0 := by simp only [occ_append] at hcf; omega
  have hfz : occ id1 F = 0 := by simp only [occ_append] at hcf; omega
  -- take the element out of the slot
  have hcm : (payloadOf h0 id1).getD j .null ∈ payloadOf h0 id1 := getD_mem _ hj
  have hcne : (payloadOf h0 id1).getD j .null ≠ .ref id1 := ne_ref_of_pocc_zero hz hcm
  have i1 : Inv (setPayload h0 id1 ((payloadOf h0 id1).set j .null))
      ((payloadOf h0 id1).getD j .null :: cap ++ (.ref id1 :: F)) := by
    have := slot_write_inv (v := .null) (T := cap ++ F) (j := j)
      (i0.congr (fun k => by simp [occ_cons])) rc1 hj
    exact this.congr (fun k => by simp only [occ_cons, occ_append, List.cons_append]; omega)
  have rc : Rep (setPayload h0 id1 ((payloadOf h0 id1).set j .null)) ((payloadOf h0 id1).getD j .null)
      (t0.kids.getD j .null) := slot_write_rep _ hz (All2.getD j _ _ a hj) hcne
  have rcap1 : All2 (Rep (setPayload h0 id1 ((payloadOf h0 id1).set j .null))) cap capT :=
    All2.mono (fun cv _ hm r => slot_write_rep _ hz r (ne_ref_of_occ_zero hcz hm)) rcap
  have W := IH _ _ (.ref id1 :: F) _ i1 rc rcap1
  -- siblings keep their representation through take / inner walk
  have hpay1 : payloadOf (setPayload h0 id1 ((payloadOf h0 id1).set j .null)) id1 = (payloadOf h0 id1).set j .null := by
    simp [payloadOf_setPayload, hl]
  have hrc1 : rcOf (setPayload h0 id1 ((payloadOf h0 id1).set j .null)) id1 = 1 := by
    rw [rcOf_setPayload]; exact rc1
  dsimp only at W
  obtain ⟨w, hw⟩ : ∃ w, walk leaf (setPayload h0 id1 ((payloadOf h0 id1).set j .null))
      ((payloadOf h0 id1).getD j .null) rest = w := ⟨_, rfl⟩
  rw [hw] at W
  obtain ⟨Wtr, Wrep⟩ := W
  have rcw : rcOf w.h id1 = 1 := by
    have := Wtr.tight id1 (by omega) (by simp [occ_cons_ref, hrc1])
    omega
  have payw : payloadOf w.h id1 = (payloadOf h0 id1).set j .null := by
    rw [Wtr.stable.pay id1 (by simpa using hl) (.root (by simp)), hpay1]
  have iw : Inv w.h (.ref id1 :: w.v :: (w.r :: (bif w.ok then [] else cap) ++ F)) :=
    Wtr.inv.congr (fun k => by simp only [occ_cons, occ_append, List.cons_append]; omega)
  obtain ⟨hzw, hcw, hlw⟩ := unique_facts iw rcw
  have hvne : w.v ≠ .ref id1 := by
    intro e; rw [e] at hcw; simp [occ_cons_ref] at hcw
  have hrne : w.r ≠ .ref id1 := by
    intro e; rw [e] at hcw; simp [occ_cons] at hcw
  have hjw : j < (payloadOf w.h id1).length := by rw [payw]; simpa using hj
  have i3 := slot_write_inv iw rcw hjw
  have hnull : (payloadOf w.h id1).getD j .null = .null := by
    rw [payw]; exact getD_set_self _ _ _ _ hj
  rw [hnull] at i3
  have hset : (payloadOf w.h id1).set j w.v = (payloadOf h0 id1).set j w.v := by
    rw [payw, List.set_set]
  have e : walkStep leaf h0 id1 j rest =
      ⟨setPayload w.h id1 ((payloadOf w.h id1).set j w.v), .ref id1, w.r, w.ok⟩ := by
    simp only [walkStep, hw]
  rw [e]
  dsimp only
  -- the siblings (with the slot itself nulled) in the final heap
  have sib : All2 (Rep (setPayload w.h id1 ((payloadOf w.h id1).set j w.v)))
      ((payloadOf h0 id1).set j .null) (t0.kids.set j .null) := by
    have a0 : All2 (Rep h0) ((payloadOf h0 id1).set j .null) (t0.kids.set j .null) := All2.set j a Rep_null
    refine All2.mono (fun s t hs r => ?_) a0
    have hs1 : s ∈ payloadOf (setPayload h0 id1 ((payloadOf h0 id1).set j .null)) id1 := by rw [hpay1]; exact hs
    have hsne : s ≠ .ref id1 := by
      rcases List.mem_or_eq_of_mem_set hs with hm | rfl
      · exact ne_ref_of_pocc_zero hz hm
      · simp
    have r1 := slot_write_rep ((payloadOf h0 id1).set j .null) hz r hsne
    have r2 := Wtr.stable.rep (.step (.root (by simp)) hs1) r1
    exact slot_write_rep _ hzw r2 hsne
  have hpay3 : payloadOf (setPayload w.h id1 ((payloadOf w.h id1).set j w.v)) id1 = (payloadOf h0 id1).set j w.v := by
    rw [payloadOf_setPayload]; simp [hlw, hset]
  have hl3 : id1 < (setPayload w.h id1 ((payloadOf w.h id1).set j w.v)).allocs.length := by simpa using hlw
  have hkeys3 : keysOf (setPayload w.h id1 ((payloadOf w.h id1).set j w.v)) id1 = t0.keysT := by
    rw [keysOf_setPayload, Wtr.stable.keys id1 (by simpa using hl) (.root (by simp)), keysOf_setPayload, hkeys]
  have repv : ∀ t', Rep w.h w.v t' →
      Rep (setPayload w.h id1 ((payloadOf w.h id1).set j w.v)) (.ref id1) (t0.withKids (t0.kids.set j t')) := by
    intro t' rv
    apply Rep_ref_cont (Tree.withKids_isCont _ hcont) hl3 (by rw [Tree.withKids_keysT]; exact hkeys3)
      (Tree.dictWF_withKids hwf (by simp))
    rw [hpay3, Tree.withKids_kids _ hcont]
    have := All2.set j sib (slot_write_rep ((payloadOf w.h id1).set j w.v) hzw rv hvne)
    simpa [List.set_set] using this
  refine ⟨⟨?_, ?_, ?_⟩, ?_⟩
  · exact i3.congr (fun k => by simp [occ_cons, occ_append] <;> omega)
  · have s1 : Stable h0 (setPayload h0 id1 ((payloadOf h0 id1).set j .null)) F := slot_write_stable _ hz hfz
    have s2 : Stable (setPayload h0 id1 ((payloadOf h0 id1).set j .null)) w.h F :=
      Wtr.stable.mono (by intro v hv; simp [hv])
    have hfw : occ id1 F = 0 := hfz
    have s3 : Stable w.h (setPayload w.h id1 ((payloadOf w.h id1).set j w.v)) F := slot_write_stable _ hzw hfw
    exact (s1.trans s2).trans s3
  · intro k hp hle
    rw [rcOf_setPayload]
    have := Wtr.tight k (by rw [rcOf_setPayload]; exact hp)
      (by rw [rcOf_setPayload]; simp only [occ_cons]; omega)
    rw [rcOf_setPayload] at this
    exact this
  · cases hψ : ψ (t0.kids.getD j .null) with
    | none =>
      rw [hψ] at Wrep
      dsimp only at Wrep ⊢
      refine ⟨Wrep.1, ?_, Wrep.2.2⟩
      have := repv _ Wrep.2.1
      rwa [set_getD_self, Tree.withKids_self] at this
    | some tr =>
      obtain ⟨t', r⟩ := tr
      rw [hψ] at Wrep
      dsimp only at Wrep ⊢
      exact ⟨Wrep.1, repv _ Wrep.2.1, slot_write_rep _ hzw Wrep.2.2 hrne⟩

theorem modPath_nil (φ : LeafT) (t : Tree) : modPath φ t [] = φ.act t := by
  cases t <;> rfl

theorem modPath_list_cons (φ : LeafT) (ts : List Tree) (i : Int) (rest : List Int) :
    modPath φ (.list ts) (i :: rest) =
      (match pyIdx ts.length i with
       | none => none
       | some j =>
         match modPath φ (ts.getD j .null) rest with
         | none => none
         | some (t', r) => some (.list (ts.set j t'), r)) := by
  rw [modPath]
  cases pyIdx ts.length i with
  | none => rfl
  | some j => dsimp only; cases modPath φ (ts.getD j .null) rest <;> rfl

/-- the Spec side of a missing slot: an index assignment whose last index is a new dict key inserts it -/
def modMissing (φ : LeafT) (t : Tree) (i : Int) (rest : List Int) : Option (Tree × Tree) :=
  match t.keysT, rest, φ.ins with
  | some ks, [], some new => some (.dict (ks ++ [i]) (t.kids ++ [new]), .null)
  | _, _, _ => none

/-- `modPath` on a container, uniformly for lists and dicts -/
theorem modPath_cont_cons (φ : LeafT) {t : Tree} (hc : t.isCont = true) (i : Int) (rest : List Int) :
    modPath φ t (i :: rest) =
      (match treeSlot t i with
       | some j =>
         match modPath φ (t.kids.getD j .null) rest with
         | none => none
         | some (t', r) => some (t.withKids (t.kids.set j t'), r)
       | none => modMissing φ t i rest) := by
  cases t with
  | null => simp at hc
  | int n => simp at hc
  | list ts =>
    rw [modPath_list_cons]
    simp only [treeSlot, Tree.keysT_list, Tree.kids_list, Tree.withKids_list]
    cases pyIdx ts.length i with
    | none => simp [modMissing]
    | some j => rfl
  | dict ks vs =>
    simp only [treeSlot, Tree.keysT_dict, Tree.kids_dict, Tree.withKids_dict]
    cases hds : dictSlot ks vs.length i with
    | none =>
      simp only [modMissing, Tree.keysT_dict, Tree.kids_dict]
      cases rest <;> cases hi : φ.ins <;> simp [modPath, hds, hi]
    | some j =>
      dsimp only
      simp only [modPath, hds]
      cases modPath φ (vs.getD j .null) rest <;> rfl

theorem frame_rep {h : Heap} {id : Nat} (a : Alloc) (hz : pocc id h = 0) {v : Val} {t : Tree}
    (r : Rep h v t) (hne : v ≠ .ref id) : Rep (setAlloc h id a) v t := by
  obtain ⟨k, r⟩ := r
  exact ⟨k, RepN_frame a hz r hne⟩

/-- replacing a uniquely owned allocation (payload and keys; same count): the handles of the new
payload come from the old payload and the owned inputs -/
theorem replace_alloc {m : Heap} {id1 : Nat} {ins outs F : List Val} (a : Alloc) (ha : a.rc = rcOf m id1)
    (i : Inv m (.ref id1 :: ins ++ F)) (rc1 : rcOf m id1 = 1)
    (hocc : ∀ k, occ k a.payload + occ k outs = occ k (payloadOf m id1) + occ k ins) :
    Tr m (setAlloc m id1 a) (.ref id1 :: outs) F := by
  obtain ⟨hz, hf, hl⟩ := unique_facts i rc1
  have hf' : occ id1 ins + occ id1 F = 0 := by rw [← occ_append]; exact hf
  have hfz : occ id1 F = 0 := by omega
  refine ⟨fun k => ?_, Stable.setAlloc _ (not_reach_of_zero hz hfz), fun k _ _ => ?_⟩
  · have hk := i k
    have e1 := pocc_setAlloc m id1 k a hl
    have e2 := hocc k
    rw [rcOf_setAlloc]
    simp only [occ_cons, occ_append, List.cons_append] at hk ⊢
    by_cases e : k = id1
    · subst e; simp only [hl, and_self, if_true, ha]; omega
    · simp only [e, false_and, if_false]; omega
  · rw [rcOf_setAlloc]
    by_cases e : k = id1
    · subst e; simp [hl, ha]
    · simp [e]

/-- how the inserted value of the Impl leaf and of the Spec leaf relate to the captured values -/
def InsSpec (li : Option Val) (ti : Option Tree) (cap : List Val) (capT : List Tree) : Prop :=
  match li, ti with
  | none, none => True
  | some new, some tn => cap = [new] ∧ capT = [tn]
  | _, _ => False

/-- **`walk` lifts a leaf contract along an index path**: `set_index` / `modify_existing_index` with
`make_mut` at every level computes exactly the Spec's `modPath` on the represented tree (lists and
dicts, insertion of a new key at the last level included), preserves the count invariant, and touches
nothing reachable from the frame. -/
theorem walk_spec {leaf : Leaf} {cap : List Val} {capT : List Tree}
    {φ : LeafT} (L : LeafSpec leaf.act cap capT φ.act) (LI : InsSpec leaf.ins φ.ins cap capT) :
    ∀ path : List Int, LeafSpec (fun h v => walk leaf h v path) cap capT (fun t => modPath φ t path) := by
  intro path
  induction path with
  | nil =>
    intro h c F t i r rcap
    simp only [walk_nil, modPath_nil]
    exact L h c F t i r rcap
  | cons ix rest ih =>
    intro h c F t i r rcap
    dsimp only
    cases c with
    | null =>
      have := Rep_null_inv r; subst this
      rw [walk_null_cons]
      exact ⟨Tr.refl (i.congr (fun k => by simp [occ_cons, occ_append])), rfl, r, rfl⟩
    | int n =>
      have := Rep_int_inv r; subst this
      rw [walk_int_cons]
      exact ⟨Tr.refl (i.congr (fun k => by simp [occ_cons, occ_append])), rfl, r, rfl⟩
    | ref id =>
      obtain ⟨hc, hl, hk, hw, a⟩ := Rep_ref_inv r
      have MS := makeMut_spec (h := h) (id := id) (F := cap ++ F) (i.congr (fun k => by simp [occ_cons, occ_append]))
      have a0 : All2 (Rep (makeMut h id).1) (payloadOf (makeMut h id).1 (makeMut h id).2) t.kids := by
        rw [MS.pay]
        exact All2.mono (fun _ _ _ r => r.ext MS.ext) a
      have rcap0 : All2 (Rep (makeMut h id).1) cap capT := All2.mono (fun _ _ _ r => r.ext MS.ext) rcap
      have hlen : (payloadOf (makeMut h id).1 (makeMut h id).2).length = t.kids.length := All2.length_eq a0
      have hk0 : keysOf (makeMut h id).1 (makeMut h id).2 = t.keysT := by rw [MS.keys]; exact hk
      have i0 : Inv (makeMut h id).1 (.ref (makeMut h id).2 :: (cap ++ F)) :=
        MS.tr.inv.congr (fun k => by simp [occ_cons, occ_append])
      rw [walk_ref_cons, modPath_cont_cons φ hc, slotOf_eq_treeSlot hk0 hlen]
      cases hp : treeSlot t ix with
      | none =>
        dsimp only
        -- failure unless this is an index assignment of a new key at the last level
        have fail : Tr h (makeMut h id).1 (.ref (makeMut h id).2 :: .null :: cap) F ∧
            Rep (makeMut h id).1 (.ref (makeMut h id).2) t :=
          ⟨MS.tr.to_outs.outs_congr (fun k => by simp [occ_cons, occ_append]),
           Rep_ref_cont hc MS.lt hk0 hw a0⟩
        unfold walkMissing modMissing
        rw [hk0]
        cases hkt : t.keysT with
        | none => exact ⟨fail.1, rfl, fail.2, rfl⟩
        | some ks =>
          cases rest with
          | cons i2 r2 => exact ⟨fail.1, rfl, fail.2, rfl⟩
          | nil =>
            unfold InsSpec at LI
            cases hli : leaf.ins with
            | none =>
              rw [hli] at LI
              cases hti : φ.ins with
              | none => exact ⟨fail.1, rfl, fail.2, rfl⟩
              | some tn => rw [hti] at LI; exact absurd LI (by simp)
            | some new =>
              rw [hli] at LI
              cases hti : φ.ins with
              | none => rw [hti] at LI; exact absurd LI (by simp)
              | some tn =>
                rw [hti] at LI
                obtain ⟨rfl, rfl⟩ := LI
                dsimp only
                have rnew : Rep (makeMut h id).1 new tn := by simpa using rcap0
                obtain ⟨hz, hcf, hl0⟩ := unique_facts i0 MS.rc1
                have hnne : new ≠ .ref (makeMut h id).2 := by
                  intro e; rw [e] at hcf; simp [occ_cons_ref, occ_append] at hcf
                have R : Tr (makeMut h id).1 (setEntries (makeMut h id).1 (makeMut h id).2
                    (payloadOf (makeMut h id).1 (makeMut h id).2 ++ [new]) (ks ++ [ix]))
                    (.ref (makeMut h id).2 :: []) F :=
                  replace_alloc (ins := [new]) (outs := []) (F := F)
                    ⟨payloadOf (makeMut h id).1 (makeMut h id).2 ++ [new], rcOf (makeMut h id).1 (makeMut h id).2,
                      some (ks ++ [ix])⟩ rfl i0 MS.rc1 (fun k => by simp [occ_append])
                have hteq : t = .dict ks t.kids := by
                  cases t with
                  | null => simp at hc
                  | int n => simp at hc
                  | list ts => simp at hkt
                  | dict ks' vs => simp at hkt; simp [hkt]
                refine ⟨⟨R.inv.congr (fun k => by simp [occ_cons]), ?_, fun k hpk hle => ?_⟩, rfl, ?_, Rep_null⟩
                · exact (MS.tr.stable.mono (by intro v hv; simp [hv])).trans R.stable
                · have e1 := MS.tr.tight k hpk (by simp only [occ_append]; omega)
                  have := R.tight k (by omega) (by omega)
                  omega
                · have hwl : ks.length = t.kids.length := hw ks hkt
                  apply Rep_ref_dict (h := setEntries _ _ _ _) (by simpa using MS.lt)
                  · rw [keysOf_setEntries]; simp [hl0]
                  · simp [hwl]
                  · rw [payloadOf_setEntries]; simp only [hl0, and_self, if_true]
                    refine All2.append ?_ ?_
                    · exact All2.mono (fun s _ hs r => frame_rep _ hz r (ne_ref_of_pocc_zero hz hs)) a0
                    · simp only [All2.cons_cons, All2.nil_nil, and_true]
                      exact frame_rep _ hz rnew hnne
      | some j =>
        dsimp only
        have hj : j < (payloadOf (makeMut h id).1 (makeMut h id).2).length :=
          slotOf_lt (by rw [slotOf_eq_treeSlot hk0 hlen]; exact hp)
        have S := walkStep_spec (F := F) ih i0 MS.rc1 hj hc hk0 hw a0 rcap0
        obtain ⟨Str, Srep⟩ := S
        refine ⟨?_, ?_⟩
        · refine ⟨Str.inv, (MS.ext.stable F).trans Str.stable, fun k hpk hle => ?_⟩
          have e1 := MS.tr.tight k hpk (by simp only [occ_append]; omega)
          have := Str.tight k (by omega) (by omega)
          omega
        · cases hψ : modPath φ (t.kids.getD j .null) rest with
          | none => rw [hψ] at Srep; exact Srep
          | some tr => obtain ⟨t', r'⟩ := tr; rw [hψ] at Srep; exact Srep

end Noulith.RcHeap
