/-
C12 helper lemmas (kept apart from the property theorems in `Theorems/C12.lean`):
no-panic facts about the primitives, the analysis of `assign_all`'s pre-pass (`prePass_eq`,
`fill_lemma`, `splatIdxs_*`, `arrange_*`), and unfolding equations for `assignItems` /
`specAssignItems`.
-/
import NoulithModel.Spec.Match
import NoulithModel.Spec.TypedStore

namespace Noulith.C12

/-! ## §2 no panic (helpers) -/

theorem predEval_no_panic (p : Nat) (v : Val) : predEval p v ≠ .panic := by
  unfold predEval
  repeat' split
  all_goals simp

theorem isType_no_panic (T : Ty) (v : Val) : isType T v ≠ .panic := by
  cases T <;> cases v <;> simp [isType, predEval_no_panic]

theorem Out.map_ne_panic {α β} (f : α → β) (x : Out α) (h : x ≠ .panic) : x.map f ≠ .panic := by
  cases x <;> simp_all [Out.map]

theorem mapRange_no_panic (f : Val → Out Val) (hf : ∀ x, f x ≠ .panic) :
    ∀ (xs : List Val) (i lo hi : Nat), mapRange f xs i lo hi ≠ .panic := by
  intro xs
  induction xs with
  | nil => intro i lo hi; simp [mapRange]
  | cons x xs ih =>
    intro i lo hi
    unfold mapRange
    split
    · cases hx : f x with
      | ok y => simp only []; exact Out.map_ne_panic _ _ (ih _ _ _)
      | throw => simp
      | panic => exact absurd hx (hf x)
    · exact Out.map_ne_panic _ _ (ih _ _ _)

theorem setIndex_no_panic (lhs : Val) (ixs : List Ix) (value : Option Val) (every : Bool) :
    setIndex lhs ixs value every ≠ .panic := by
  induction ixs generalizing lhs with
  | nil => simp [setIndex]
  | cons i rest ih =>
    cases i with
    | idx i =>
      unfold setIndex
      repeat' split
      all_goals first | exact Out.map_ne_panic _ _ (ih _) | simp
    | slice lo hi =>
      unfold setIndex
      repeat' split
      all_goals first
        | exact Out.map_ne_panic _ _ (mapRange_no_panic _ (fun x => ih x) _ _ _ _)
        | simp

theorem insert_no_panic (e : Env) (x : Nat) (T : Ty) (v : Val) : (e.insert x T v).2 ≠ .panic := by
  unfold Env.insert
  split
  · simp
  · split <;> simp

theorem insertDeclare_no_panic (e : Env) (x : Nat) (T : Ty) (v : Val) :
    (insertDeclare e x T v).2 ≠ .panic := by
  unfold insertDeclare
  split
  · exact insert_no_panic _ _ _ _
  · simp
  · simp
  · next h => exact absurd h (isType_no_panic _ _)

theorem assignRespectingType_no_panic (e : Env) (x : Nat) (ixs : List Ix) (v : Val) (every : Bool := false) :
    (assignRespectingType e x ixs v every).2 ≠ .panic := by
  unfold assignRespectingType
  split
  · simp
  · split
    · split
      · simp
      · simp
      · simp
      · next h => exact absurd h (isType_no_panic _ _)
    · split
      · split
        · simp
        · simp
        · simp
        · next h => exact absurd h (isType_no_panic _ _)
      · simp
      · next h => exact absurd h (setIndex_no_panic _ _ _ _)

/-! ## §3 the arrangement -/

def nSplat : List Pat → Nat
  | [] => 0
  | p :: ps => (if isSplatItem p then 1 else 0) + nSplat ps

/-- defaults in play: `withDefault` items whose non-splat index (counted from `s`) is `≥ k` -/
def inPlayP (k : Nat) : List Pat → Nat → List Val
  | [], _ => []
  | p :: ps, s =>
    if isSplatItem p then inPlayP k ps s
    else (match p with
          | .withDefault _ d => if k ≤ s then [d] else []
          | _ => []) ++ inPlayP k ps (s + 1)

/-- a non-default, non-splat item follows a default in play -/
def violP (k : Nat) : List Pat → Nat → Bool → Bool
  | [], _, _ => false
  | p :: ps, s, started =>
    if isSplatItem p then violP k ps s started
    else match p with
      | .withDefault _ _ => violP k ps (s + 1) (started || decide (k ≤ s))
      | _ => started || violP k ps (s + 1) started

def firstSplat : List Pat → Nat → Option Nat
  | [], _ => none
  | p :: ps, i => if isSplatItem p then some i else firstSplat ps (i + 1)

def prePassSpec (k : Nat) (ps : List Pat) (s : Nat) (i : Nat) (splat : Option Nat) (defs : List Val) : Out PrePass :=
  if (splat.isSome && decide (nSplat ps ≥ 1)) || decide (nSplat ps ≥ 2) || violP k ps s (!defs.isEmpty) then .throw
  else .ok { splat := match splat with | some x => some x | none => firstSplat ps i, defaults := defs ++ inPlayP k ps s }

theorem prePass_splat (k : Nat) (p : Pat) (ps : List Pat) (i : Nat) (splat : Option Nat) (defs : List Val)
    (h : isSplatItem p = true) :
    prePass k (p :: ps) i splat defs =
      (match splat with
       | some _ => .throw
       | none => prePass k ps (i + 1) (some i) defs) := by
  cases p <;> simp [isSplatItem] at h
  · rename_i q t
    cases q <;> simp [isSplatItem] at h
    simp only [prePass]
    cases splat <;> rfl
  · simp only [prePass]
    cases splat <;> rfl

theorem prePass_default (k : Nat) (q : Pat) (d : Val) (ps : List Pat) (s i : Nat) (splat : Option Nat)
    (defs : List Val) (hi : i = s + (if splat.isSome then 1 else 0)) :
    prePass k (.withDefault q d :: ps) i splat defs =
      (if k ≤ s then prePass k ps (i + 1) splat (defs ++ [d]) else prePass k ps (i + 1) splat defs) := by
  simp only [prePass]
  cases splat <;> simp at hi <;> subst hi <;> simp <;> omega

theorem prePass_other (k : Nat) (p : Pat) (ps : List Pat) (i : Nat) (splat : Option Nat) (defs : List Val)
    (h1 : isSplatItem p = false) (h2 : defaultOf p = none) :
    prePass k (p :: ps) i splat defs =
      (if !defs.isEmpty then .throw else prePass k ps (i + 1) splat defs) := by
  cases p <;> simp [isSplatItem, defaultOf] at h1 h2 <;> try (simp only [prePass])
  rename_i q t
  cases q <;> simp [isSplatItem] at h1 <;> simp only [prePass]

theorem prePass_eq (k : Nat) (ps : List Pat) : ∀ (s i : Nat) (splat : Option Nat) (defs : List Val),
    i = s + (if splat.isSome then 1 else 0) →
    prePass k ps i splat defs = prePassSpec k ps s i splat defs := by
  induction ps with
  | nil =>
    intro s i splat defs _
    simp [prePass, prePassSpec, nSplat, violP, inPlayP, firstSplat]
    cases splat <;> rfl
  | cons p ps ih =>
    intro s i splat defs hi
    by_cases hsp : isSplatItem p = true
    · rw [prePass_splat k p ps i splat defs hsp]
      cases splat with
      | some x => simp [prePassSpec, nSplat, hsp]
      | none =>
        simp at hi
        subst hi
        rw [ih i (i + 1) (some i) defs (by simp)]
        simp only [prePassSpec, nSplat, violP, inPlayP, firstSplat, hsp, if_true]
        have e1 : (decide (nSplat ps ≥ 1)) = decide (1 + nSplat ps ≥ 2) := by
          apply decide_eq_decide.mpr; omega
        by_cases h2 : nSplat ps ≥ 2
        · have : nSplat ps ≥ 1 := by omega
          simp [h2, this]
          omega
        · by_cases h1 : nSplat ps ≥ 1
          · have : 1 + nSplat ps ≥ 2 := by omega
            simp [h1, this]
          · have : ¬ (1 + nSplat ps ≥ 2) := by omega
            simp [h1, h2, this]
    · have hsp' : isSplatItem p = false := by simpa using hsp
      cases hd : defaultOf p with
      | some d =>
        obtain ⟨q, rfl⟩ : ∃ q, p = .withDefault q d := by
          cases p <;> simp [defaultOf] at hd
          subst hd
          exact ⟨_, rfl⟩
        rw [prePass_default k q d ps s i splat defs hi]
        have hi' : i + 1 = (s + 1) + (if splat.isSome then 1 else 0) := by omega
        by_cases hk : k ≤ s
        · simp only [hk, if_true]
          rw [ih (s + 1) (i + 1) splat (defs ++ [d]) hi']
          have hne : (defs ++ [d]).isEmpty = false := by simp
          simp [prePassSpec, nSplat, violP, inPlayP, firstSplat, isSplatItem, hk, hne]
        · simp only [hk, if_false]
          rw [ih (s + 1) (i + 1) splat defs hi']
          simp [prePassSpec, nSplat, violP, inPlayP, firstSplat, isSplatItem, hk]
      | none =>
        rw [prePass_other k p ps i splat defs hsp' hd]
        have hi' : i + 1 = (s + 1) + (if splat.isSome then 1 else 0) := by omega
        have hv : violP k (p :: ps) s (!defs.isEmpty) = ((!defs.isEmpty) || violP k ps (s + 1) (!defs.isEmpty)) := by
          simp only [violP, hsp']
          cases p <;> simp [defaultOf] at hd <;> simp
        have hin : inPlayP k (p :: ps) s = inPlayP k ps (s + 1) := by
          simp only [inPlayP, hsp']
          cases p <;> simp [defaultOf] at hd <;> simp
        by_cases hde : defs.isEmpty = true
        · simp only [hde, Bool.not_true]
          rw [ih (s + 1) (i + 1) splat defs hi']
          have hv' : violP k (p :: ps) s false = violP k ps (s + 1) false := by simpa [hde] using hv
          simp [prePassSpec, hv', hin, nSplat, hsp', firstSplat, hde]
        · simp only [prePassSpec, hv]
          simp [hde]

/-! bridging to the declarative description -/

def NoSplatB (ps : List Pat) : Prop := ∀ p ∈ ps, isSplatItem p = false

theorem inPlayP_length_le (k : Nat) (qs : List Pat) (s : Nat) : (inPlayP k qs s).length ≤ qs.length := by
  induction qs generalizing s with
  | nil => simp [inPlayP]
  | cons q qs ih =>
    unfold inPlayP
    split
    · have := ih s; simp; omega
    · have := ih (s + 1)
      cases q <;> simp <;> try omega
      split <;> simp <;> omega

/-- once a default is in play, everything that follows must be a default -/
theorem started_lemma (k : Nat) (qs : List Pat) : ∀ s, k ≤ s → NoSplatB qs →
    (match qs.mapM defaultOf with
     | some ds => violP k qs s true = false ∧ inPlayP k qs s = ds
     | none => violP k qs s true = true) := by
  induction qs with
  | nil => intro s _ _; simp [violP, inPlayP]
  | cons q qs ih =>
    intro s hk hns
    have hq : isSplatItem q = false := hns q (by simp)
    have hns' : NoSplatB qs := fun p hp => hns p (by simp [hp])
    have ih' := ih (s + 1) (by omega) hns'
    cases hd : defaultOf q with
    | none =>
      have : violP k (q :: qs) s true = true := by
        simp only [violP, hq]
        cases q <;> simp [defaultOf] at hd <;> simp
      simp [List.mapM_cons, hd, this]
    | some d =>
      obtain ⟨q', rfl⟩ : ∃ q', q = .withDefault q' d := by
        cases q <;> simp [defaultOf] at hd
        subst hd; exact ⟨_, rfl⟩
      simp only [List.mapM_cons, hd]
      cases hm : qs.mapM defaultOf with
      | none =>
        simp only [hm] at ih'
        simp [violP, isSplatItem, ih']
      | some ds =>
        simp only [hm] at ih'
        simp [violP, inPlayP, isSplatItem, ih', hk]

theorem fill_lemma (k : Nat) (qs : List Pat) : ∀ s, NoSplatB qs →
    (match (qs.drop (k - s)).mapM defaultOf with
     | some ds => violP k qs s false = false ∧ inPlayP k qs s = ds
     | none => violP k qs s false = true ∨ (inPlayP k qs s).length + (k - s) < qs.length) := by
  induction qs with
  | nil => intro s _; simp [violP, inPlayP]
  | cons q qs ih =>
    intro s hns
    have hq : isSplatItem q = false := hns q (by simp)
    have hns' : NoSplatB qs := fun p hp => hns p (by simp [hp])
    by_cases hk : k ≤ s
    · have h0 : k - s = 0 := by omega
      simp only [h0, List.drop_zero]
      have st := started_lemma k qs (s + 1) (by omega) hns'
      cases hd : defaultOf q with
      | none =>
        simp only [List.mapM_cons, hd]
        right
        have h1 : inPlayP k (q :: qs) s = inPlayP k qs (s + 1) := by
          simp only [inPlayP, hq]
          cases q <;> simp [defaultOf] at hd <;> simp
        have := inPlayP_length_le k qs (s + 1)
        simp [h1]; omega
      | some d =>
        obtain ⟨q', rfl⟩ : ∃ q', q = .withDefault q' d := by
          cases q <;> simp [defaultOf] at hd
          subst hd; exact ⟨_, rfl⟩
        simp only [List.mapM_cons, hd]
        cases hm : qs.mapM defaultOf with
        | none =>
          simp only [hm] at st
          simp [violP, isSplatItem, st, hk]
        | some ds =>
          simp only [hm] at st
          simp [violP, inPlayP, isSplatItem, st, hk]
    · have h1 : k - s = (k - (s + 1)) + 1 := by omega
      have ih' := ih (s + 1) hns'
      rw [h1, List.drop_succ_cons]
      have hv : violP k (q :: qs) s false = violP k qs (s + 1) false := by
        simp only [violP, hq]
        cases q <;> simp [hk]
      have hin : inPlayP k (q :: qs) s = inPlayP k qs (s + 1) := by
        simp only [inPlayP, hq]
        cases q <;> simp [hk]
      rw [hv, hin]
      cases hm : (qs.drop (k - (s + 1))).mapM defaultOf with
      | none =>
        simp only [hm] at ih'
        rcases ih' with h | h
        · left; exact h
        · right; simp; omega
      | some ds =>
        simp only [hm] at ih'
        exact ih'

theorem splatIdxs_length (ps : List Pat) : ∀ i, (splatIdxs ps i).length = nSplat ps := by
  induction ps with
  | nil => intro i; rfl
  | cons p ps ih =>
    intro i
    unfold splatIdxs nSplat
    by_cases h : isSplatItem p = true <;> simp [h, ih (i + 1)] <;> omega

theorem splatIdxs_nil (ps : List Pat) : ∀ i, splatIdxs ps i = [] → NoSplatB ps ∧ firstSplat ps i = none := by
  induction ps with
  | nil => intro i _; exact ⟨fun p hp => (by cases hp), rfl⟩
  | cons p ps ih =>
    intro i h
    unfold splatIdxs at h
    by_cases hp : isSplatItem p = true
    · simp [hp] at h
    · simp [hp] at h
      obtain ⟨h1, h2⟩ := ih (i + 1) h
      refine ⟨?_, ?_⟩
      · intro q hq
        rcases List.mem_cons.mp hq with rfl | hq
        · simpa using hp
        · exact h1 q hq
      · simp [firstSplat, hp, h2]

theorem splatIdxs_single (k : Nat) (ps : List Pat) : ∀ i si, splatIdxs ps i = [si] →
    ∃ j, si = i + j ∧ j < ps.length ∧ firstSplat ps i = some si ∧
      NoSplatB (ps.take j ++ ps.drop (j + 1)) ∧
      (∀ s, inPlayP k ps s = inPlayP k (ps.take j ++ ps.drop (j + 1)) s) ∧
      (∀ s b, violP k ps s b = violP k (ps.take j ++ ps.drop (j + 1)) s b) := by
  induction ps with
  | nil => intro i si h; simp [splatIdxs] at h
  | cons p ps ih =>
    intro i si h
    unfold splatIdxs at h
    by_cases hp : isSplatItem p = true
    · simp only [hp, if_true] at h
      have h1 : i = si := by simpa using (List.cons.inj h).1
      have h2 : splatIdxs ps (i + 1) = [] := (List.cons.inj h).2
      obtain ⟨hns, _⟩ := splatIdxs_nil ps (i + 1) h2
      refine ⟨0, by omega, by simp, by simp [firstSplat, hp, h1], ?_, ?_, ?_⟩
      · simpa using hns
      · intro s; simp [inPlayP, hp]
      · intro s b; simp [violP, hp]
    · simp only [hp] at h
      have hp' : isSplatItem p = false := by simpa using hp
      obtain ⟨j, hj1, hj2, hj3, hj4, hj5, hj6⟩ := ih (i + 1) si h
      refine ⟨j + 1, by omega, by simp; omega, by simp [firstSplat, hp, hj3], ?_, ?_, ?_⟩
      · intro q hq
        simp only [List.take_succ_cons, List.drop_succ_cons, List.cons_append] at hq
        rcases List.mem_cons.mp hq with rfl | hq
        · exact hp'
        · exact hj4 q hq
      · intro s
        simp only [List.take_succ_cons, List.drop_succ_cons, List.cons_append, inPlayP, hp', hj5]
      · intro s b
        simp only [List.take_succ_cons, List.drop_succ_cons, List.cons_append, violP, hp', hj6]

def optToOut {α} : Option α → Out α
  | some a => .ok a
  | none => .throw

theorem prePass_init (k : Nat) (ps : List Pat) :
    prePass k ps 0 none [] =
      if nSplat ps ≥ 2 ∨ violP k ps 0 false = true then .throw
      else .ok { splat := firstSplat ps 0, defaults := inPlayP k ps 0 } := by
  rw [prePass_eq k ps 0 0 none [] (by simp)]
  simp [prePassSpec]

theorem arrange_throw (lhs : List Pat) (k : Nat) (rhs : List Val)
    (h : prePass k lhs 0 none [] = .throw) : arrange lhs k rhs = .throw := by
  unfold arrange; rw [h]

theorem arrange_noSplat (lhs : List Pat) (k : Nat) (rhs ds : List Val)
    (h : prePass k lhs 0 none [] = .ok { splat := none, defaults := ds }) :
    arrange lhs k rhs =
      if lhs.length = k + ds.length ∧ lhs.length = (rhs ++ ds).length then .ok (rhs ++ ds) else .throw := by
  unfold arrange; rw [h]
  simp only []
  by_cases h1 : lhs.length = k + ds.length
  · by_cases h2 : lhs.length = (rhs ++ ds).length
    · simp [h1, h2]
    · simp [h1, h2]
  · simp [h1]

theorem arrange_splat (lhs : List Pat) (k : Nat) (rhs ds : List Val) (si : Nat)
    (h : prePass k lhs 0 none [] = .ok { splat := some si, defaults := ds })
    (hsi : si < lhs.length) :
    arrange lhs k rhs =
      let F := rhs ++ ds
      if F.length + 1 < lhs.length then .throw
      else
        let nPost := lhs.length - (si + 1)
        .ok (F.take si ++ Val.list ((F.drop si).take (F.length - si - nPost)) :: F.drop (F.length - nPost)) := by
  unfold arrange; rw [h]
  simp only []
  generalize rhs ++ ds = F
  by_cases h1 : F.length + 1 < lhs.length
  · simp only [h1, if_true]
  · simp only [h1, if_false]
    have hF : lhs.length ≤ F.length + 1 := by omega
    have e1 : ((F.length : Int) + (si : Int) + 1 - (lhs.length : Int)) = ((F.length + si + 1 - lhs.length : Nat) : Int) := by omega
    rw [e1]
    simp only [Int.toNat_natCast]
    have c1 : ¬ (((F.length + si + 1 - lhs.length : Nat) : Int) < 0 ∨ ((F.length + si + 1 - lhs.length : Nat) : Int) > (F.length : Int)) := by omega
    simp only [c1, if_false]
    have c2 : ¬ (si > (List.take (F.length + si + 1 - lhs.length) F).length) := by
      simp; omega
    simp only [c2, if_false]
    have c3 : ¬ ((List.take si (List.take (F.length + si + 1 - lhs.length) F)).length != si) = true := by
      simp; omega
    simp only [c3]
    have c4 : ¬ ((List.drop (F.length + si + 1 - lhs.length) F).length != lhs.length - (si + 1)) = true := by
      simp; omega
    simp only [c4]
    simp only [Bool.false_eq_true, if_false]
    have t1 : List.take si (List.take (F.length + si + 1 - lhs.length) F) = List.take si F := by
      rw [List.take_take]; congr 1; omega
    have t2 : List.drop si (List.take (F.length + si + 1 - lhs.length) F)
        = List.take (F.length - si - (lhs.length - (si + 1))) (List.drop si F) := by
      rw [List.drop_take]; congr 1; omega
    have t3 : F.length + si + 1 - lhs.length = F.length - (lhs.length - (si + 1)) := by omega
    rw [t1, t2, t3]
    simp


def stepItems (r : Env × Out Unit) (k : Env → Env × Out Unit) : Env × Out Unit :=
  match r with
  | (e', .ok ()) => k e'
  | r => r

theorem assignItems_nil (e : Env) (rt : Option Ty) (vs : List Val) : assignItems e [] rt vs = (e, .ok ()) := by
  cases vs <;> rfl

theorem assignItems_cons_nil (e : Env) (p : Pat) (ps : List Pat) (rt : Option Ty) :
    assignItems e (p :: ps) rt [] = (e, .throw) := rfl

theorem assignItems_splat (e : Env) (inner : Pat) (ps : List Pat) (rt : Option Ty) (v : Val) (vs : List Val) :
    assignItems e (.splat inner :: ps) rt (v :: vs) =
      stepItems (assign e inner rt v) (fun e' => assignItems e' ps rt vs) := rfl

theorem assignItems_annoSplat (e : Env) (inner : Pat) (ann : Option Val) (ps : List Pat) (rt : Option Ty) (v : Val) (vs : List Val) :
    assignItems e (.anno (.splat inner) ann :: ps) rt (v :: vs) =
      stepItems (match ann with
         | none => assign e inner (some .any) v
         | some t =>
           match toType t with
           | .ok ty => assign e inner (some ty) v
           | .throw => (e, .throw)
           | .panic => (e, .panic)) (fun e' => assignItems e' ps rt vs) := rfl

theorem assignItems_other (e : Env) (p : Pat) (ps : List Pat) (rt : Option Ty) (v : Val) (vs : List Val)
    (h : isSplatItem p = false) :
    assignItems e (p :: ps) rt (v :: vs) =
      stepItems (assign e p rt v) (fun e' => assignItems e' ps rt vs) := by
  cases p with
  | anno q t => cases q <;> first | rfl | simp [isSplatItem] at h
  | splat q => simp [isSplatItem] at h
  | _ => rfl



theorem seq_view_cases (v : Val) :
    (∃ items, patLen v = some items.length ∧ seqItems v = some items) ∨ (patLen v = none ∧ seqItems v = none) := by
  cases v <;> simp [patLen, seqLen, seqItems]

theorem specAssignItems_nil (e : Env) (rt : Option Ty) : specAssignItems e [] rt [] = some e := rfl
theorem specAssignItems_nil_cons (e : Env) (rt : Option Ty) (v : Val) (vs : List Val) :
    specAssignItems e [] rt (v :: vs) = none := rfl
theorem specAssignItems_cons_nil (e : Env) (p : Pat) (ps : List Pat) (rt : Option Ty) :
    specAssignItems e (p :: ps) rt [] = none := rfl

theorem specAssignItems_splat (e : Env) (inner : Pat) (ps : List Pat) (rt : Option Ty) (v : Val) (vs : List Val) :
    specAssignItems e (.splat inner :: ps) rt (v :: vs) =
      (specAssign e inner rt v).bind (fun e' => specAssignItems e' ps rt vs) := by
  show (match specAssign e inner rt v with | some e' => specAssignItems e' ps rt vs | none => none) = _
  cases specAssign e inner rt v <;> rfl

theorem specAssignItems_annoSplat (e : Env) (inner : Pat) (ann : Option Val) (ps : List Pat) (rt : Option Ty) (v : Val) (vs : List Val) :
    specAssignItems e (.anno (.splat inner) ann :: ps) rt (v :: vs) =
      (match ann with
         | none => specAssign e inner (some .any) v
         | some t =>
           match toType t with
           | .ok ty => specAssign e inner (some ty) v
           | _ => none).bind (fun e' => specAssignItems e' ps rt vs) := by
  cases ann with
  | none =>
    show (match specAssign e inner (some .any) v with | some e' => specAssignItems e' ps rt vs | none => none) = _
    cases specAssign e inner (some .any) v <;> rfl
  | some t =>
    have h1 : specAssignItems e (.anno (.splat inner) (some t) :: ps) rt (v :: vs) =
        (match (match toType t with | .ok T' => specAssign e inner (some T') v | _ => none) with
          | some e' => specAssignItems e' ps rt vs | none => none) := rfl
    rw [h1]
    simp only []
    generalize toType t = tt
    cases tt with
    | ok ty => simp only []; cases specAssign e inner (some ty) v <;> rfl
    | throw => rfl
    | panic => rfl

theorem specAssignItems_other (e : Env) (p : Pat) (ps : List Pat) (rt : Option Ty) (v : Val) (vs : List Val)
    (h : isSplatItem p = false) :
    specAssignItems e (p :: ps) rt (v :: vs) =
      (specAssign e p rt v).bind (fun e' => specAssignItems e' ps rt vs) := by
  have key : ∀ q, (match specAssign e q rt v with | some e' => specAssignItems e' ps rt vs | none => none)
      = (specAssign e q rt v).bind (fun e' => specAssignItems e' ps rt vs) := by
    intro q; cases specAssign e q rt v <;> rfl
  cases p with
  | anno q t => cases q <;> first | exact key _ | simp [isSplatItem] at h
  | splat q => simp [isSplatItem] at h
  | _ => exact key _

theorem arith_no_panic (op : Rat → Rat → Rat) (a b : Val) : arith op a b ≠ .panic := by
  unfold arith; split <;> simp

theorem negVal_no_panic (v : Val) : negVal v ≠ .panic := by
  cases v <;> simp [negVal]

theorem remNum_no_panic (r a : Val) (h : isNonzero a = true) : remNum r a ≠ .panic := by
  unfold remNum
  split
  · next x y hx hy =>
    simp [isNonzero, hy] at h
    simp [h]
  · simp

theorem divFloorNum_no_panic (r a : Val) (h : isNonzero a = true) : divFloorNum r a ≠ .panic := by
  unfold divFloorNum
  split
  · next x y hx hy =>
    simp [isNonzero, hy] at h
    simp [h]
  · simp

theorem uncons_no_panic (v : Val) : uncons v ≠ .panic := by
  unfold uncons; split <;> simp

theorem unsnoc_no_panic (v : Val) : unsnoc v ≠ .panic := by
  unfold unsnoc; split <;> (try split) <;> simp

theorem ncmp_no_panic (a b : Val) : ncmp a b ≠ .panic := by
  unfold ncmp
  split <;> (try split) <;> simp

theorem accept_no_panic (op : CmpOp) (a b : Val) : op.accept a b ≠ .panic := by
  cases op <;> simp [CmpOp.accept] <;> exact Out.map_ne_panic _ _ (ncmp_no_panic a b)

theorem cmpChain_no_panic (ops : List CmpOp) : ∀ vs : List Val, cmpChain ops vs ≠ .panic := by
  induction ops with
  | nil => intro vs; simp [cmpChain]
  | cons op ops ih =>
    intro vs
    match vs with
    | [] => simp [cmpChain]
    | [_] => simp [cmpChain]
    | a :: b :: rest =>
      simp only [cmpChain]
      split
      · exact ih _
      · next r hr => 
        intro hp
        exact accept_no_panic op a b hp


end Noulith.C12
