/-
C15, soundness of the parser model on the expression fragment.

The fragment: token lists over literals, identifiers, `( ) [ ] ,`.  `D` is its grammar in
difference-list form (`D c ts rest`: a phrase of category `c` is a prefix of `ts`, `rest` follows);
`Lang c pre := D c pre []`.  `AllSound n`: at fuel `n` every function of the recogniser that the
fragment can reach consumes only phrases of its category (partial correctness, `SpecP`).  Proved by
induction on the fuel with symbolic execution of the `do` blocks (`pautoP`) and a small derivation
search at the leaves (`pleaf`).  Results: `single_sound`, `parseTokens_sound`, `D_cancel`/`D_lang`.
The operator position of a chain is an `OpAtom` (an identifier, possibly wrapped in parentheses: the
recogniser requires the operator expression to *be* an identifier, `+` or `(+)`); the posts therefore
also track "if the result is a bare identifier expression then the phrase is an `OpAtom`".
-/
import NoulithModel.Lemmas.C15ParseSpec
namespace Noulith.C15
open Noulith Noulith.Lex Noulith.Parse

/-! ### the expression fragment and its grammar -/

/-- literal tokens -/
def isLitTok : Token → Bool
  | .intLit _ => true | .ratLit _ => true | .floatLit _ => true | .imagLit _ => true
  | .stringLit _ => true | .bytesLit _ => true | .null => true
  | _ => false

/-- the alphabet of the expression fragment: literals, identifiers, `( ) [ ] ,` -/
def Frag : Token → Bool
  | .intLit _ => true | .ratLit _ => true | .floatLit _ => true | .imagLit _ => true
  | .stringLit _ => true | .bytesLit _ => true | .null => true
  | .ident _ => true
  | .leftParen => true | .rightParen => true | .leftBracket => true | .rightBracket => true
  | .comma => true
  | _ => false

theorem frag_null : Frag .null = true := rfl
theorem frag_leftParen : Frag .leftParen = true := rfl
theorem frag_rightParen : Frag .rightParen = true := rfl
theorem frag_leftBracket : Frag .leftBracket = true := rfl
theorem frag_rightBracket : Frag .rightBracket = true := rfl
theorem frag_comma : Frag .comma = true := rfl
theorem frag_intLit (x) : Frag (.intLit x) = true := rfl
theorem frag_ratLit (x) : Frag (.ratLit x) = true := rfl
theorem frag_floatLit (x) : Frag (.floatLit x) = true := rfl
theorem frag_imagLit (x) : Frag (.imagLit x) = true := rfl
theorem frag_stringLit (x) : Frag (.stringLit x) = true := rfl
theorem frag_bytesLit (x) : Frag (.bytesLit x) = true := rfl
theorem frag_ident (x) : Frag (.ident x) = true := rfl
theorem frag_bLeftBracket_ : Frag .bLeftBracket = false := rfl
theorem frag_leftBrace_ : Frag .leftBrace = false := rfl
theorem frag_rightBrace_ : Frag .rightBrace = false := rfl
theorem frag_backtick_ : Frag .backtick = false := rfl
theorem frag_and_ : Frag .and = false := rfl
theorem frag_or_ : Frag .or = false := rfl
theorem frag_coalesce_ : Frag .coalesce = false := rfl
theorem frag_while_ : Frag .while = false := rfl
theorem frag_for_ : Frag .for = false := rfl
theorem frag_yield_ : Frag .yield = false := rfl
theorem frag_into_ : Frag .into = false := rfl
theorem frag_if_ : Frag .if = false := rfl
theorem frag_else_ : Frag .else = false := rfl
theorem frag_switch_ : Frag .switch = false := rfl
theorem frag_case_ : Frag .case = false := rfl
theorem frag_try_ : Frag .try = false := rfl
theorem frag_catch_ : Frag .catch = false := rfl
theorem frag_break_ : Frag .break = false := rfl
theorem frag_continue_ : Frag .continue = false := rfl
theorem frag_return_ : Frag .return = false := rfl
theorem frag_throw_ : Frag .throw = false := rfl
theorem frag_bang_ : Frag .bang = false := rfl
theorem frag_questionMark_ : Frag .questionMark = false := rfl
theorem frag_colon_ : Frag .colon = false := rfl
theorem frag_leftArrow_ : Frag .leftArrow = false := rfl
theorem frag_rightArrow_ : Frag .rightArrow = false := rfl
theorem frag_doubleLeftArrow_ : Frag .doubleLeftArrow = false := rfl
theorem frag_doubleColon_ : Frag .doubleColon = false := rfl
theorem frag_semicolon_ : Frag .semicolon = false := rfl
theorem frag_ellipsis_ : Frag .ellipsis = false := rfl
theorem frag_lambda_ : Frag .lambda = false := rfl
theorem frag_lambdaEnd_ : Frag .lambdaEnd = false := rfl
theorem frag_assign_ : Frag .assign = false := rfl
theorem frag_consume_ : Frag .consume = false := rfl
theorem frag_pop_ : Frag .pop = false := rfl
theorem frag_remove_ : Frag .remove = false := rfl
theorem frag_swap_ : Frag .swap = false := rfl
theorem frag_every_ : Frag .every = false := rfl
theorem frag_struct_ : Frag .struct = false := rfl
theorem frag_freeze_ : Frag .freeze = false := rfl
theorem frag_import_ : Frag .import = false := rfl
theorem frag_literally_ : Frag .literally = false := rfl
theorem frag_underscore_ : Frag .underscore = false := rfl
theorem frag_internalFrame_ : Frag .internalFrame = false := rfl
theorem frag_internalPush_ : Frag .internalPush = false := rfl
theorem frag_internalPop_ : Frag .internalPop = false := rfl
theorem frag_internalPeek_ : Frag .internalPeek = false := rfl
theorem frag_internalWhile_ : Frag .internalWhile = false := rfl
theorem frag_internalFor_ : Frag .internalFor = false := rfl
theorem frag_internalCall_ : Frag .internalCall = false := rfl
theorem frag_internalLambda_ : Frag .internalLambda = false := rfl
theorem frag_invalid_ (x) : Frag (.invalid x) = false := rfl
theorem frag_formatString_ (x) : Frag (.formatString x) = false := rfl
theorem frag_internalPeekN_ (x) : Frag (.internalPeekN x) = false := rfl
theorem frag_comment_ (x) : Frag (.comment x) = false := rfl
theorem frag_panic_ (x) : Frag (.panic x) = false := rfl

def AllFrag (ts : List Token) : Prop := ∀ t ∈ ts, Frag t = true

@[simp] theorem allFrag_nil : AllFrag [] := by simp [AllFrag]
@[simp] theorem allFrag_cons (t : Token) (ts : List Token) : AllFrag (t :: ts) ↔ Frag t = true ∧ AllFrag ts := by
  simp [AllFrag]

/-- syntactic categories of the fragment -/
inductive Cat where
  | atom | opAtom | operand | chain | opTail | args1 | args
  deriving DecidableEq, Repr

/-- the grammar, in difference-list form: `D c ts rest` — a phrase of category `c` is a prefix of
`ts`, and `rest` is what follows it.

    Atom    ::= literal | ident | '(' Args ')' | '[' ']' | '[' Args ']'
    Operand ::= Atom | Operand '(' ')' | Operand '(' Args ')' | Operand '[' Chain ']'
    OpAtom  ::= ident | '(' OpAtom ')'
    Chain   ::= Operand | Operand Atom | Operand OpAtom Operand OpTail
    OpTail  ::= ε | OpAtom Operand OpTail
    Args1   ::= Chain | Args1 ',' Chain
    Args    ::= Args1 | Args1 ','                                                        -/
inductive D : Cat → List Token → List Token → Prop where
  | lit (t : Token) (r : List Token) : isLitTok t = true → D .atom (t :: r) r
  | ident (s : List Char) (r : List Token) : D .atom (.ident s :: r) r
  | paren (ts r : List Token) : D .args ts (.rightParen :: r) → D .atom (.leftParen :: ts) r
  | emptyList (r : List Token) : D .atom (.leftBracket :: .rightBracket :: r) r
  | list (ts r : List Token) : D .args ts (.rightBracket :: r) → D .atom (.leftBracket :: ts) r
  | operandAtom (ts r : List Token) : D .atom ts r → D .operand ts r
  | callEmpty (ts r : List Token) : D .operand ts (.leftParen :: .rightParen :: r) → D .operand ts r
  | call (ts m r : List Token) : D .operand ts (.leftParen :: m) → D .args m (.rightParen :: r) → D .operand ts r
  | index (ts m r : List Token) : D .operand ts (.leftBracket :: m) → D .chain m (.rightBracket :: r) → D .operand ts r
  | chainOperand (ts r : List Token) : D .operand ts r → D .chain ts r
  | juxtapose (ts m r : List Token) : D .operand ts m → D .atom m r → D .chain ts r
  | opIdent (s : List Char) (r : List Token) : D .opAtom (.ident s :: r) r
  | opParen (ts r : List Token) : D .opAtom ts (.rightParen :: r) → D .opAtom (.leftParen :: ts) r
  | chainOps (ts m1 m2 m3 r : List Token) : D .operand ts m1 → D .opAtom m1 m2 → D .operand m2 m3 →
      D .opTail m3 r → D .chain ts r
  | opNil (r : List Token) : D .opTail r r
  | opCons (ts m1 m2 r : List Token) : D .opAtom ts m1 → D .operand m1 m2 → D .opTail m2 r → D .opTail ts r
  | args1One (ts r : List Token) : D .chain ts r → D .args1 ts r
  | args1Snoc (ts m r : List Token) : D .args1 ts (.comma :: m) → D .chain m r → D .args1 ts r
  | argsOf (ts r : List Token) : D .args1 ts r → D .args ts r
  | argsTrailing (ts r : List Token) : D .args1 ts (.comma :: r) → D .args ts r

/-- partial correctness: if `r` is `ok` the postcondition holds -/
def SpecP {α} (r : Res α) (Q : α → List Token → Prop) : Prop :=
  match r with
  | .ok a rest => Q a rest
  | .err => True
  | .oof => True

theorem SpecP.mono {α} {r : Res α} {Q Q' : α → List Token → Prop} (h : SpecP r Q)
    (hq : ∀ a rest, Q a rest → Q' a rest) : SpecP r Q' := by
  cases r <;> simp_all [SpecP]

@[simp] theorem specP_ok {α} (a : α) (rest) (Q : α → List Token → Prop) : SpecP (.ok a rest) Q ↔ Q a rest := Iff.rfl
@[simp] theorem specP_err {α} (Q : α → List Token → Prop) : SpecP (.err : Res α) Q ↔ True := Iff.rfl
@[simp] theorem specP_oof {α} (Q : α → List Token → Prop) : SpecP (.oof : Res α) Q ↔ True := Iff.rfl

theorem specP_bind {α β} (m : P α) (f : α → P β) (ts : List Token) (Q : β → List Token → Prop) :
    SpecP ((m >>= f) ts) Q ↔ SpecP (m ts) (fun a r => SpecP (f a r) Q) := by
  show SpecP (match m ts with | .ok a rest => f a rest | .err => .err | .oof => .oof) Q ↔ _
  cases m ts <;> simp [SpecP]

theorem specP_pure {α} (a : α) (ts : List Token) (Q : α → List Token → Prop) :
    SpecP ((pure a : P α) ts) Q ↔ Q a ts := Iff.rfl
theorem specP_fail {α} (ts : List Token) (Q : α → List Token → Prop) : SpecP ((P.fail : P α) ts) Q ↔ True := Iff.rfl
theorem specP_outOfFuel {α} (ts : List Token) (Q : α → List Token → Prop) :
    SpecP ((P.outOfFuel : P α) ts) Q ↔ True := Iff.rfl

theorem specP_peek (ts : List Token) (Q : Option Token → List Token → Prop) :
    SpecP (peek ts) Q ↔ (ts = [] → Q none []) ∧ (∀ t tl o, ts = t :: tl → IsTok o t → Q o (t :: tl)) := by
  cases ts with
  | nil => simp [peek]
  | cons t tl =>
    simp only [peek, specP_ok, List.head?_cons, reduceCtorEq, false_implies, true_and, List.cons.injEq, isTok_def]
    constructor
    · intro h t' tl' o h1 h2; obtain ⟨rfl, rfl⟩ := h1; subst h2; exact h
    · intro h; exact h t tl (some t) ⟨rfl, rfl⟩ rfl

theorem specP_advance (ts : List Token) (Q : Unit → List Token → Prop) :
    SpecP (advance ts) Q ↔ Q () ts.tail := Iff.rfl

theorem specP_tryConsume (x : Token) (ts : List Token) (Q : Bool → List Token → Prop) :
    SpecP (tryConsume x ts) Q ↔ (ts = [] → Q false []) ∧
      (∀ t tl, ts = t :: tl → (t = x → Q true tl) ∧ (t ≠ x → Q false (t :: tl))) := by
  cases ts with
  | nil => simp [tryConsume]
  | cons t tl => by_cases h : t = x <;> simp [tryConsume, h]

theorem specP_require (x : Token) (ts : List Token) (Q : Unit → List Token → Prop) :
    SpecP (require x ts) Q ↔ (∀ tl, ts = x :: tl → Q () tl) := by
  cases ts with
  | nil => simp [require]
  | cons t tl =>
    by_cases h : t = x
    · simp [require, h]
    · simp [require, h]

theorem specP_peekIs (x : Token) (ts : List Token) (Q : Bool → List Token → Prop) :
    SpecP (peekIs x ts) Q ↔ (ts = [] → Q false []) ∧ (∀ t tl, ts = t :: tl → Q (decide (t = x)) (t :: tl)) := by
  cases ts with
  | nil => simp [peekIs]
  | cons t tl => simp [peekIs]

theorem specP_guardP (b : Bool) (ts : List Token) (Q : Unit → List Token → Prop) :
    SpecP (guardP b ts) Q ↔ (b = true → Q () ts) := by
  cases b <;> simp [guardP]

theorem specP_skip {α} (p : P α) (ts : List Token) (Q : Unit → List Token → Prop) :
    SpecP (skip p ts) Q ↔ SpecP (p ts) (fun _ r => Q () r) := by
  show SpecP ((p >>= fun _ => pure ()) ts) Q ↔ _
  rw [specP_bind]; rfl

/-- in the fragment there is no `::`, so `attach_symbol_accesses` does nothing -/
theorem attach_frag (e : PExpr) (ts : List Token) (h : AllFrag ts) : attachSymbolAccesses e ts = .ok e ts := by
  cases ts with
  | nil => rfl
  | cons t tl =>
    simp at h
    cases t <;> simp [Frag] at h <;> rfl


theorem specP_bind_attach {β} (e : PExpr) (f : PExpr → P β) (ts : List Token) (Q : β → List Token → Prop)
    (hf : AllFrag ts) (h : SpecP (f e ts) Q) :
    SpecP (((show P PExpr from attachSymbolAccesses e) >>= f) ts) Q := by
  refine (specP_bind _ _ _ _).mpr ?_
  show SpecP (attachSymbolAccesses e ts) _
  rw [attach_frag e ts hf]
  exact h

theorem isIdent_iff (e : PExpr) : e.isIdent = true ↔ e = .ident := by
  cases e <;> simp [PExpr.isIdent]

/-- postcondition "a phrase of category `c` was consumed from `ts`" (and the rest is still in the fragment) -/
def PostD (c : Cat) (ts : List Token) {α} : α → List Token → Prop := fun _ r => D c ts r ∧ AllFrag r
/-- … and if the result is a bare identifier expression, the phrase is an `OpAtom` -/
def PostI (c : Cat) (ts : List Token) : PExpr → List Token → Prop :=
  fun a r => D c ts r ∧ AllFrag r ∧ (a = .ident → D .opAtom ts r)
/-- postcondition "nothing was consumed and the accumulator is returned" -/
def PostSame {α} (e : α) (ts : List Token) : α → List Token → Prop := fun a r => r = ts ∧ a = e

/-- induction hypothesis for soundness at fuel `n` -/
structure AllSound (n : Nat) : Prop where
  atom : ∀ ts, AllFrag ts → SpecP (atom n ts) (PostI .atom ts)
  operand : ∀ ts, AllFrag ts → SpecP (operand n ts) (PostI .operand ts)
  operandLoop : ∀ ts0 cur ts, AllFrag ts → D .operand ts0 ts →
    SpecP (operandLoop n cur ts) (fun a r => D .operand ts0 r ∧ AllFrag r ∧ (a = .ident → cur = .ident ∧ r = ts))
  operator : ∀ ab ts, AllFrag ts →
    SpecP (operator n ab ts) (fun p r => D .atom ts r ∧ AllFrag r ∧ (p.1 = true → D .opAtom ts r))
  chain : ∀ ab ts, AllFrag ts → SpecP (chain n ab ts) (PostI .chain ts)
  chainLoop : ∀ ab ts, AllFrag ts → SpecP (chainLoop n ab ts) (PostD .opTail ts)
  logicAnd : ∀ ts, AllFrag ts → SpecP (logicAnd n ts) (PostI .chain ts)
  logicAndLoop : ∀ e ts, AllFrag ts → SpecP (logicAndLoop n e ts) (PostSame e ts)
  single : ∀ ts, AllFrag ts → SpecP (single n ts) (PostI .chain ts)
  singleLoop : ∀ e ts, AllFrag ts → SpecP (singleLoop n e ts) (PostSame e ts)
  acs : ∀ a ts, AllFrag ts → SpecP (acs n a ts)
    (fun p r => D .args ts r ∧ AllFrag r ∧ (∀ e, p.1 = [e] → p.2 = false → e = .ident → D .opAtom ts r))
  acsLoop : ∀ ts0 a x y c ts, AllFrag ts → D .args1 ts0 ts → SpecP (acsLoop n a x y c ts)
    (fun p r => D .args ts0 r ∧ AllFrag r ∧ (∀ e, p.1 = [e] → p.2 = false → r = ts ∧ x ++ y = [e] ∧ c = false))
  annotatedPattern : ∀ a ts, AllFrag ts → SpecP (annotatedPattern n a ts) (PostI .args ts)
  assignment : ∀ ts, AllFrag ts → SpecP (assignment n ts) (PostI .args ts)
  expression : ∀ ts, AllFrag ts → SpecP (expression n ts) (PostI .args ts)
  exprLoop : ∀ ts, AllFrag ts → SpecP (exprLoop n ts) (PostSame (false, false) ts)

attribute [irreducible] SpecP AllFrag
attribute [local irreducible] Parse.atom Parse.dictLoop Parse.switchCases Parse.structFields Parse.forIterations Parse.forIteration Parse.operand Parse.operandLoop Parse.updateLoop Parse.operator Parse.chain Parse.chainLoop Parse.logicAnd Parse.logicAndLoop Parse.single Parse.singleLoop Parse.acs Parse.acsLoop Parse.annotatedPattern Parse.assignment Parse.paramList Parse.paramLoop Parse.expression Parse.exprLoop Parse.formatString Parse.formatParts

/-- facts about the fragment: simplify hypotheses, closing the goal when a token outside the fragment appears -/
macro "pfrag" : tactic => `(tactic| simp only [PostD, PostI, PostSame, allFrag_cons, allFrag_nil, frag_null, frag_leftParen, frag_rightParen, frag_leftBracket, frag_rightBracket, frag_comma, frag_intLit, frag_ratLit, frag_floatLit, frag_imagLit, frag_stringLit, frag_bytesLit, frag_ident, frag_bLeftBracket_, frag_leftBrace_, frag_rightBrace_, frag_backtick_, frag_and_, frag_or_, frag_coalesce_, frag_while_, frag_for_, frag_yield_, frag_into_, frag_if_, frag_else_, frag_switch_, frag_case_, frag_try_, frag_catch_, frag_break_, frag_continue_, frag_return_, frag_throw_, frag_bang_, frag_questionMark_, frag_colon_, frag_leftArrow_, frag_rightArrow_, frag_doubleLeftArrow_, frag_doubleColon_, frag_semicolon_, frag_ellipsis_, frag_lambda_, frag_lambdaEnd_, frag_assign_, frag_consume_, frag_pop_, frag_remove_, frag_swap_, frag_every_, frag_struct_, frag_freeze_, frag_import_, frag_literally_, frag_underscore_, frag_internalFrame_, frag_internalPush_, frag_internalPop_, frag_internalPeek_, frag_internalWhile_, frag_internalFor_, frag_internalCall_, frag_internalLambda_, frag_invalid_, frag_formatString_, frag_internalPeekN_, frag_comment_, frag_panic_, isTok_some_iff, isTok_none, isIdent_iff, true_implies, forall_const,
    Bool.false_eq_true, false_and, and_false, and_true, true_and, decide_eq_true_eq, reduceCtorEq,
    Bool.and_eq_true, Bool.or_eq_true, Option.some.injEq, Bool.and_false, Bool.or_false] at *)

/-- a grammar leaf: build the derivation from the facts in the context -/
macro "dsolve" : tactic => `(tactic| first
  | assumption
  | rfl
  | exact D.ident _ _
  | exact D.emptyList _
  | exact D.opNil _
  | exact D.opIdent _ _
  | (apply D.opParen; assumption)
  | (apply D.lit; rfl)
  | (apply D.paren; assumption)
  | (apply D.list; assumption)
  | (apply D.callEmpty; assumption)
  | (apply D.call <;> assumption)
  | (apply D.index <;> assumption)
  | (apply D.operandAtom; assumption)
  | (apply D.chainOperand; assumption)
  | (apply D.juxtapose <;> assumption)
  | (apply D.chainOps <;> assumption)
  | (apply D.opCons <;> assumption)
  | (apply D.args1Snoc <;> assumption)
  | (apply D.args1One; assumption)
  | (apply D.argsTrailing; assumption)
  | (apply D.argsOf; assumption))

macro "pstepP" : tactic => `(tactic| first
  | simp only [specP_bind, specP_pure, specP_fail, specP_peek, specP_advance, specP_tryConsume,
      specP_require, specP_peekIs, specP_guardP, specP_skip, specP_ok, specP_err, List.tail_cons, List.tail_nil,
      Bool.not_eq_true', reduceCtorEq, false_implies, true_implies, implies_true, and_true, true_and,
      ne_eq, not_true_eq_false, not_false_eq_true, if_true, if_false, Bool.false_eq_true, decide_true, decide_false,
      List.cons.injEq, and_imp, forall_eq', forall_eq, forall_apply_eq_imp_iff, forall_eq_apply_imp_iff, imp_false]
  | (apply And.intro)
  | (intro h; first | (have ⟨h1, h2, h3⟩ : _ ∧ _ ∧ _ := h; clear h) | (have ⟨h1, h2⟩ : _ ∧ _ := h; clear h) | (try subst h))
  | (split <;> (try (simp only [isTok_some_iff] at *)) <;> (try subst_vars))
  | (generalize (toLvalue _) = x at *; split))

macro "pcallP" ih:ident : tactic => `(tactic| first
  | refine SpecP.mono (AllSound.atom $ih _ (by first | assumption | (pfrag <;> simp_all) | simp_all)) ?_
  | refine SpecP.mono (AllSound.operand $ih _ (by first | assumption | (pfrag <;> simp_all) | simp_all)) ?_
  | refine SpecP.mono (AllSound.operator $ih _ _ (by first | assumption | (pfrag <;> simp_all) | simp_all)) ?_
  | refine SpecP.mono (AllSound.chain $ih _ _ (by first | assumption | (pfrag <;> simp_all) | simp_all)) ?_
  | refine SpecP.mono (AllSound.chainLoop $ih _ _ (by first | assumption | (pfrag <;> simp_all) | simp_all)) ?_
  | refine SpecP.mono (AllSound.logicAnd $ih _ (by first | assumption | (pfrag <;> simp_all) | simp_all)) ?_
  | refine SpecP.mono (AllSound.logicAndLoop $ih _ _ (by first | assumption | (pfrag <;> simp_all) | simp_all)) ?_
  | refine SpecP.mono (AllSound.single $ih _ (by first | assumption | (pfrag <;> simp_all) | simp_all)) ?_
  | refine SpecP.mono (AllSound.singleLoop $ih _ _ (by first | assumption | (pfrag <;> simp_all) | simp_all)) ?_
  | refine SpecP.mono (AllSound.acs $ih _ _ (by first | assumption | (pfrag <;> simp_all) | simp_all)) ?_
  | refine SpecP.mono (AllSound.annotatedPattern $ih _ _ (by first | assumption | (pfrag <;> simp_all) | simp_all)) ?_
  | refine SpecP.mono (AllSound.assignment $ih _ (by first | assumption | (pfrag <;> simp_all) | simp_all)) ?_
  | refine SpecP.mono (AllSound.expression $ih _ (by first | assumption | (pfrag <;> simp_all) | simp_all)) ?_
  | refine SpecP.mono (AllSound.exprLoop $ih _ (by first | assumption | (pfrag <;> simp_all) | simp_all)) ?_
  | (refine SpecP.mono (AllSound.operandLoop $ih ?ts0 _ _ ?hf ?hd) ?post
     case hd => dsolve
     case hf => first | assumption | (pfrag <;> simp_all; done))
  | (refine SpecP.mono (AllSound.acsLoop $ih ?ts0 _ _ _ _ _ ?hf ?hd) ?post
     case hd => dsolve
     case hf => first | assumption | (pfrag <;> simp_all; done))
  | (exfalso; pfrag <;> simp_all; done))

macro "dgrind" : tactic => `(tactic| grind [D.paren, D.list, D.callEmpty, D.call, D.index, D.operandAtom, D.chainOperand,
  D.juxtapose, D.chainOps, D.opCons, D.args1Snoc, D.args1One, D.argsTrailing, D.argsOf, D.opParen, D.opIdent, D.ident,
  D.emptyList, D.opNil])

macro "pleaf" : tactic => `(tactic| (
  (try pfrag) <;> (try subst_vars) <;> (try pfrag) <;>
  (try (first
    | dsolve
    | (refine ⟨?_, ?_, ?_⟩ <;> (first | dsolve | (simp_all; done) | dgrind))
    | (refine ⟨?_, ?_⟩ <;> (first | dsolve | (simp_all; done) | dgrind))
    | dgrind))))

macro "pautoP" ih:ident : tactic => `(tactic| (repeat' (first | pstepP | pcallP $ih)))

theorem sound_operand (n : Nat) (ih : AllSound n) : ∀ ts, AllFrag ts → SpecP (operand (n + 1)  ts) (PostI .operand ts) := by
  intro ts hf
  unfold operand
  pautoP ih
  all_goals pleaf

theorem sound_operator (n : Nat) (ih : AllSound n) : ∀ ab ts, AllFrag ts → SpecP (operator (n + 1) ab ts) (fun p r => D .atom ts r ∧ AllFrag r ∧ (p.1 = true → D .opAtom ts r)) := by
  intro ab ts hf
  unfold operator
  pautoP ih
  all_goals pleaf

theorem sound_chainLoop (n : Nat) (ih : AllSound n) : ∀ ab ts, AllFrag ts → SpecP (chainLoop (n + 1) ab ts) (PostD .opTail ts) := by
  intro ab ts hf
  unfold chainLoop
  pautoP ih
  all_goals pleaf

theorem sound_logicAnd (n : Nat) (ih : AllSound n) : ∀ ts, AllFrag ts → SpecP (logicAnd (n + 1)  ts) (PostI .chain ts) := by
  intro ts hf
  unfold logicAnd
  pautoP ih
  all_goals pleaf

theorem sound_logicAndLoop (n : Nat) (ih : AllSound n) : ∀ e ts, AllFrag ts → SpecP (logicAndLoop (n + 1) e ts) (PostSame e ts) := by
  intro e ts hf
  unfold logicAndLoop
  pautoP ih
  all_goals pleaf

theorem sound_single (n : Nat) (ih : AllSound n) : ∀ ts, AllFrag ts → SpecP (single (n + 1)  ts) (PostI .chain ts) := by
  intro ts hf
  unfold single
  pautoP ih
  all_goals pleaf

theorem sound_singleLoop (n : Nat) (ih : AllSound n) : ∀ e ts, AllFrag ts → SpecP (singleLoop (n + 1) e ts) (PostSame e ts) := by
  intro e ts hf
  unfold singleLoop
  pautoP ih
  all_goals pleaf

theorem sound_acs (n : Nat) (ih : AllSound n) : ∀ a ts, AllFrag ts → SpecP (acs (n + 1) a ts) (fun p r => D .args ts r ∧ AllFrag r ∧ (∀ e, p.1 = [e] → p.2 = false → e = .ident → D .opAtom ts r)) := by
  intro a ts hf
  unfold acs
  pautoP ih
  all_goals pleaf

theorem sound_assignment (n : Nat) (ih : AllSound n) : ∀ ts, AllFrag ts → SpecP (assignment (n + 1)  ts) (PostI .args ts) := by
  intro ts hf
  unfold assignment
  pautoP ih
  all_goals pleaf

theorem sound_expression (n : Nat) (ih : AllSound n) : ∀ ts, AllFrag ts → SpecP (expression (n + 1)  ts) (PostI .args ts) := by
  intro ts hf
  unfold expression
  pautoP ih
  all_goals pleaf

theorem sound_exprLoop (n : Nat) (ih : AllSound n) : ∀ ts, AllFrag ts → SpecP (exprLoop (n + 1)  ts) (PostSame (false, false) ts) := by
  intro ts hf
  unfold exprLoop
  pautoP ih
  all_goals pleaf

theorem sound_annotatedPattern (n : Nat) (ih : AllSound n) : ∀ a ts, AllFrag ts → SpecP (annotatedPattern (n + 1) a ts) (PostI .args ts) := by
  intro a ts hf
  unfold annotatedPattern
  refine (specP_bind _ _ _ _).mpr ?_
  pcallP ih
  intro ⟨exs, c⟩ r ⟨h1, h2, h3⟩
  dsimp only at h3 ⊢
  split <;> pautoP ih <;> pleaf

theorem sound_chain (n : Nat) (ih : AllSound n) : ∀ ab ts, AllFrag ts → SpecP (chain (n + 1) ab ts) (PostI .chain ts) := by
  intro ab ts hf
  unfold chain
  pautoP ih
  all_goals (try (apply specP_bind_attach _ _ _ _ (by assumption); pautoP ih))
  all_goals pleaf

theorem sound_operandLoop (n : Nat) (ih : AllSound n) : ∀ ts0 cur ts, AllFrag ts → D .operand ts0 ts →
    SpecP (operandLoop (n + 1) cur ts) (fun a r => D .operand ts0 r ∧ AllFrag r ∧ (a = .ident → cur = .ident ∧ r = ts)) := by
  intro ts0 cur ts hf hd
  unfold operandLoop
  apply specP_bind_attach _ _ _ _ hf
  pautoP ih
  all_goals pleaf

theorem sound_acsLoop (n : Nat) (ih : AllSound n) : ∀ ts0 a x y c ts, AllFrag ts → D .args1 ts0 ts →
    SpecP (acsLoop (n + 1) a x y c ts)
      (fun p r => D .args ts0 r ∧ AllFrag r ∧ (∀ e, p.1 = [e] → p.2 = false → r = ts ∧ x ++ y = [e] ∧ c = false)) := by
  intro ts0 a x y c ts hf hd
  unfold acsLoop
  pautoP ih
  all_goals pleaf

set_option maxHeartbeats 1000000 in
theorem sound_atom (n : Nat) (ih : AllSound n) : ∀ ts, AllFrag ts → SpecP (atom (n + 1) ts) (PostI .atom ts) := by
  intro ts hf
  unfold atom
  split
  · simp only [specP_err]
  · split
    all_goals (try (solve | pfrag))
    all_goals (try (solve | (pautoP ih <;> pleaf)))

theorem allSound_zero : AllSound 0 where
  atom := by intros; unfold Parse.atom; exact (specP_outOfFuel _ _).mpr trivial
  operand := by intros; unfold Parse.operand; exact (specP_outOfFuel _ _).mpr trivial
  operandLoop := by intros; unfold Parse.operandLoop; exact (specP_outOfFuel _ _).mpr trivial
  operator := by intros; unfold Parse.operator; exact (specP_outOfFuel _ _).mpr trivial
  chain := by intros; unfold Parse.chain; exact (specP_outOfFuel _ _).mpr trivial
  chainLoop := by intros; unfold Parse.chainLoop; exact (specP_outOfFuel _ _).mpr trivial
  logicAnd := by intros; unfold Parse.logicAnd; exact (specP_outOfFuel _ _).mpr trivial
  logicAndLoop := by intros; unfold Parse.logicAndLoop; exact (specP_outOfFuel _ _).mpr trivial
  single := by intros; unfold Parse.single; exact (specP_outOfFuel _ _).mpr trivial
  singleLoop := by intros; unfold Parse.singleLoop; exact (specP_outOfFuel _ _).mpr trivial
  acs := by intros; unfold Parse.acs; exact (specP_outOfFuel _ _).mpr trivial
  acsLoop := by intros; unfold Parse.acsLoop; exact (specP_outOfFuel _ _).mpr trivial
  annotatedPattern := by intros; unfold Parse.annotatedPattern; exact (specP_outOfFuel _ _).mpr trivial
  assignment := by intros; unfold Parse.assignment; exact (specP_outOfFuel _ _).mpr trivial
  expression := by intros; unfold Parse.expression; exact (specP_outOfFuel _ _).mpr trivial
  exprLoop := by intros; unfold Parse.exprLoop; exact (specP_outOfFuel _ _).mpr trivial

theorem allSound_succ (n : Nat) (ih : AllSound n) : AllSound (n + 1) where
  atom := sound_atom n ih
  operand := sound_operand n ih
  operandLoop := sound_operandLoop n ih
  operator := sound_operator n ih
  chain := sound_chain n ih
  chainLoop := sound_chainLoop n ih
  logicAnd := sound_logicAnd n ih
  logicAndLoop := sound_logicAndLoop n ih
  single := sound_single n ih
  singleLoop := sound_singleLoop n ih
  acs := sound_acs n ih
  acsLoop := sound_acsLoop n ih
  annotatedPattern := sound_annotatedPattern n ih
  assignment := sound_assignment n ih
  expression := sound_expression n ih
  exprLoop := sound_exprLoop n ih

/-- at every fuel the recogniser is sound for the expression fragment -/
theorem allSound (n : Nat) : AllSound n := by
  induction n with
  | zero => exact allSound_zero
  | succ n ih => exact allSound_succ n ih

theorem specP_ok_iff {α} {r : Res α} {Q : α → List Token → Prop} (h : SpecP r Q) (a : α) (rest : List Token)
    (hr : r = .ok a rest) : Q a rest := by
  subst hr; exact (specP_ok _ _ _).mp h


/-! ### from difference lists to languages -/

/-- the language of a category: the token lists that are exactly one phrase of it -/
def Lang (c : Cat) (pre : List Token) : Prop := D c pre []

/-- `D` does not look at what follows the phrase: the consumed prefix is a phrase in every context -/
theorem D_cancel {c : Cat} {ts r : List Token} (h : D c ts r) :
    ∃ pre, ts = pre ++ r ∧ ∀ r', D c (pre ++ r') r' := by
  induction h with
  | lit t r hl => exact ⟨[t], rfl, fun r' => D.lit t r' hl⟩
  | ident s r => exact ⟨[.ident s], rfl, fun r' => D.ident s r'⟩
  | paren ts r _ ih =>
    obtain ⟨p, hp, hq⟩ := ih
    refine ⟨.leftParen :: p ++ [.rightParen], by simp [hp], fun r' => ?_⟩
    have := D.paren _ _ (hq (.rightParen :: r'))
    simpa using this
  | emptyList r => exact ⟨[.leftBracket, .rightBracket], rfl, fun r' => D.emptyList r'⟩
  | list ts r _ ih =>
    obtain ⟨p, hp, hq⟩ := ih
    refine ⟨.leftBracket :: p ++ [.rightBracket], by simp [hp], fun r' => ?_⟩
    have := D.list _ _ (hq (.rightBracket :: r'))
    simpa using this
  | operandAtom ts r _ ih =>
    obtain ⟨p, hp, hq⟩ := ih
    exact ⟨p, hp, fun r' => D.operandAtom _ _ (hq r')⟩
  | callEmpty ts r _ ih =>
    obtain ⟨p, hp, hq⟩ := ih
    refine ⟨p ++ [.leftParen, .rightParen], by simp [hp], fun r' => ?_⟩
    have := D.callEmpty _ _ (hq (.leftParen :: .rightParen :: r'))
    simpa using this
  | call ts m r _ _ ih1 ih2 =>
    obtain ⟨p1, hp1, hq1⟩ := ih1
    obtain ⟨p2, hp2, hq2⟩ := ih2
    refine ⟨p1 ++ .leftParen :: p2 ++ [.rightParen], by simp [hp1, hp2], fun r' => ?_⟩
    have := D.call _ _ _ (hq1 (.leftParen :: (p2 ++ .rightParen :: r'))) (hq2 (.rightParen :: r'))
    simpa using this
  | index ts m r _ _ ih1 ih2 =>
    obtain ⟨p1, hp1, hq1⟩ := ih1
    obtain ⟨p2, hp2, hq2⟩ := ih2
    refine ⟨p1 ++ .leftBracket :: p2 ++ [.rightBracket], by simp [hp1, hp2], fun r' => ?_⟩
    have := D.index _ _ _ (hq1 (.leftBracket :: (p2 ++ .rightBracket :: r'))) (hq2 (.rightBracket :: r'))
    simpa using this
  | chainOperand ts r _ ih =>
    obtain ⟨p, hp, hq⟩ := ih
    exact ⟨p, hp, fun r' => D.chainOperand _ _ (hq r')⟩
  | juxtapose ts m r _ _ ih1 ih2 =>
    obtain ⟨p1, hp1, hq1⟩ := ih1
    obtain ⟨p2, hp2, hq2⟩ := ih2
    refine ⟨p1 ++ p2, by simp [hp1, hp2], fun r' => ?_⟩
    have := D.juxtapose _ _ _ (hq1 (p2 ++ r')) (hq2 r')
    simpa using this
  | opIdent s r => exact ⟨[.ident s], rfl, fun r' => D.opIdent s r'⟩
  | opParen ts r _ ih =>
    obtain ⟨p, hp, hq⟩ := ih
    refine ⟨.leftParen :: p ++ [.rightParen], by simp [hp], fun r' => ?_⟩
    have := D.opParen _ _ (hq (.rightParen :: r'))
    simpa using this
  | chainOps ts m1 m2 m3 r _ _ _ _ ih1 ih2 ih3 ih4 =>
    obtain ⟨p1, hp1, hq1⟩ := ih1
    obtain ⟨p2, hp2, hq2⟩ := ih2
    obtain ⟨p3, hp3, hq3⟩ := ih3
    obtain ⟨p4, hp4, hq4⟩ := ih4
    refine ⟨p1 ++ p2 ++ p3 ++ p4, by simp [hp1, hp2, hp3, hp4], fun r' => ?_⟩
    have := D.chainOps _ _ _ _ _ (hq1 (p2 ++ (p3 ++ (p4 ++ r')))) (hq2 (p3 ++ (p4 ++ r'))) (hq3 (p4 ++ r')) (hq4 r')
    simpa using this
  | opNil r => exact ⟨[], rfl, fun r' => D.opNil r'⟩
  | opCons ts m1 m2 r _ _ _ ih1 ih2 ih3 =>
    obtain ⟨p1, hp1, hq1⟩ := ih1
    obtain ⟨p2, hp2, hq2⟩ := ih2
    obtain ⟨p3, hp3, hq3⟩ := ih3
    refine ⟨p1 ++ p2 ++ p3, by simp [hp1, hp2, hp3], fun r' => ?_⟩
    have := D.opCons _ _ _ _ (hq1 (p2 ++ (p3 ++ r'))) (hq2 (p3 ++ r')) (hq3 r')
    simpa using this
  | args1One ts r _ ih =>
    obtain ⟨p, hp, hq⟩ := ih
    exact ⟨p, hp, fun r' => D.args1One _ _ (hq r')⟩
  | args1Snoc ts m r _ _ ih1 ih2 =>
    obtain ⟨p1, hp1, hq1⟩ := ih1
    obtain ⟨p2, hp2, hq2⟩ := ih2
    refine ⟨p1 ++ .comma :: p2, by simp [hp1, hp2], fun r' => ?_⟩
    have := D.args1Snoc _ _ _ (hq1 (.comma :: (p2 ++ r'))) (hq2 r')
    simpa using this
  | argsOf ts r _ ih =>
    obtain ⟨p, hp, hq⟩ := ih
    exact ⟨p, hp, fun r' => D.argsOf _ _ (hq r')⟩
  | argsTrailing ts r _ ih =>
    obtain ⟨p, hp, hq⟩ := ih
    refine ⟨p ++ [.comma], by simp [hp], fun r' => ?_⟩
    have := D.argsTrailing _ _ (hq (.comma :: r'))
    simpa using this

/-- a difference-list derivation is a phrase of the language followed by the rest -/
theorem D_lang {c : Cat} {ts r : List Token} (h : D c ts r) : ∃ pre, ts = pre ++ r ∧ Lang c pre := by
  obtain ⟨pre, hp, hq⟩ := D_cancel h
  exact ⟨pre, hp, by have := hq []; simpa [Lang] using this⟩

/-- **soundness of the recogniser on the expression fragment** (`single`: one expression): whenever
`single` succeeds on a token list over the fragment's alphabet, what it consumed is a `Chain` phrase
of the grammar `D` -/
theorem single_sound (n : Nat) (ts : List Token) (hf : AllFrag ts) (e : PExpr) (rest : List Token)
    (h : single n ts = .ok e rest) : ∃ pre, ts = pre ++ rest ∧ Lang .chain pre := by
  have := specP_ok_iff ((allSound n).single ts hf) e rest h
  exact D_lang this.1

/-- **soundness of `parse` on the expression fragment**: a non-empty token list over the fragment's
alphabet that the parser model accepts (with any fuel) is an `Args` phrase — a comma-separated
sequence of operator chains of operands built from literals, identifiers, calls, indexing,
parentheses and lists -/
theorem parseTokens_sound (fuel : Nat) (tokens : List Token) (hf : AllFrag tokens) (hne : tokens ≠ [])
    (h : Parse.parseTokens fuel tokens = .ok) : Lang .args tokens := by
  unfold Parse.parseTokens at h
  have hne' : tokens.isEmpty = false := by cases tokens <;> simp_all
  rw [hne'] at h
  simp only [Bool.false_eq_true, if_false] at h
  split at h
  · rename_i e hr
    exact (specP_ok_iff ((allSound fuel).expression tokens hf) e [] hr).1
  all_goals cases h

end Noulith.C15
