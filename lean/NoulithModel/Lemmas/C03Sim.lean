/-
C03 helper lemmas, part 2: the Impl model of `ChainEvaluator`, under ANY interpretation
`run : F → List V → Out V` of the operators (total or failing), returns exactly the bottom-up
(post-order, first failure wins) value `semM` of the tree that `shunt` builds.

Proof: a simulation between the evaluator's stack of values and `shunt`'s stack of partial
trees (every operand value is the `semM` of the corresponding subtree), plus a "poison" argument
for failures: once an application has failed, evaluating the subtrees of the tree-level state left
to right fails the same way, and that is preserved by everything `shunt` does afterwards.
-/
import NoulithModel.Lemmas.C03Shunt

namespace Noulith

namespace Out
variable {α β γ : Type}
@[simp] theorem bind_ok (a : α) (f : α → Out β) : (Out.ok a).bind f = f a := rfl
@[simp] theorem bind_throw (f : α → Out β) : (Out.throw : Out α).bind f = .throw := rfl
@[simp] theorem bind_panic (f : α → Out β) : (Out.panic : Out α).bind f = .panic := rfl
theorem bind_assoc (x : Out α) (f : α → Out β) (g : β → Out γ) :
    (x.bind f).bind g = x.bind (fun a => (f a).bind g) := by cases x <;> rfl
/-- forget the value, keep the outcome class -/
def void (x : Out α) : Out Unit := x.bind (fun _ => .ok ())
@[simp] theorem void_ok (a : α) : (Out.ok a).void = .ok () := rfl
@[simp] theorem void_throw : (Out.throw : Out α).void = .throw := rfl
@[simp] theorem void_panic : (Out.panic : Out α).void = .panic := rfl
theorem eq_of_void_err {x y : Out α} (hx : x.void ≠ .ok ()) (hxy : y.void = x.void) : y = x := by
  cases x <;> cases y <;> simp_all [void, Out.bind]
theorem void_bind_err {x : Out α} (f : α → Out β) (hx : x.void ≠ .ok ()) :
    (x.bind f).void = x.void := by
  cases x <;> simp_all
end Out

namespace Chain
open Tree

variable {F L V : Type}

section sim
variable (run : F → List V → Out V) (tc : F → F → Option F) (lv : L → V)

/-- values of the operands a frame already holds -/
def fkidsM (t : Frame F L) : Out (List V) :=
  if t.isExt then kidsM run tc lv t.l else (semM run tc lv t.l).bind (fun a => .ok [a])

theorem semM_plug (t : Frame F L) (r : Tree F L) :
    semM run tc lv (t.plug r) =
      (fkidsM run tc lv t).bind fun as => (semM run tc lv r).bind fun b =>
        match t.merged tc with
        | some f => run f (as ++ [b])
        | none => .throw := by
  unfold Frame.plug fkidsM Frame.merged
  cases h : t.isExt
  · simp only [Bool.false_eq_true, if_false, semM]
    cases semM run tc lv t.l <;> simp
  · simp only [if_true, semM, Tree.merged]
    rfl

theorem kidsM_plug (t : Frame F L) (r : Tree F L) :
    kidsM run tc lv (t.plug r) =
      (fkidsM run tc lv t).bind fun as => (semM run tc lv r).bind fun b => .ok (as ++ [b]) := by
  unfold Frame.plug fkidsM
  cases h : t.isExt
  · simp only [Bool.false_eq_true, if_false, kidsM]
    cases semM run tc lv t.l <;> simp
  · simp only [if_true, kidsM]

/-- an evaluator entry and a frame describe the same partial application -/
def EntryRel (e : Entry F V) (t : Frame F L) : Prop :=
  fkidsM run tc lv t = .ok e.operands ∧ t.merged tc = some e.op ∧ e.prec = t.prec

def StackRel : List (Entry F V) → List (Frame F L) → Prop
  | [], [] => True
  | e :: es, t :: ts => EntryRel run tc lv e t ∧ StackRel es ts
  | _, _ => False

/-- evaluate, bottom of the stack first, every operand the stack holds -/
def belowM : List (Frame F L) → Out Unit
  | [] => .ok ()
  | t :: rest => (belowM rest).bind fun _ => (fkidsM run tc lv t).void

/-- … and then the rightmost operand -/
def stateM (fr : List (Frame F L)) (rm : Tree F L) : Out Unit :=
  (belowM run tc lv fr).bind fun _ => (semM run tc lv rm).void

theorem belowM_of_rel : ∀ (es : List (Entry F V)) (ts : List (Frame F L)),
    StackRel run tc lv es ts → belowM run tc lv ts = .ok () := by
  intro es
  induction es with
  | nil => intro ts h; cases ts with
    | nil => rfl
    | cons t ts => simp [StackRel] at h
  | cons e es ih =>
    intro ts h
    cases ts with
    | nil => simp [StackRel] at h
    | cons t ts =>
      obtain ⟨he, hr⟩ := h
      simp [belowM, ih ts hr, he.1]

/-- popping a frame keeps a failure: the failing prefix is evaluated in the same order -/
theorem stateM_pop (t : Frame F L) (rest : List (Frame F L)) (rm : Tree F L)
    (he : stateM run tc lv (t :: rest) rm ≠ .ok ()) :
    stateM run tc lv rest (t.plug rm) = stateM run tc lv (t :: rest) rm := by
  unfold stateM at *
  simp only [belowM, Out.bind_assoc] at *
  rw [semM_plug]
  cases hb : belowM run tc lv rest <;> simp_all
  cases hk : fkidsM run tc lv t <;> simp_all
  cases hs : semM run tc lv rm <;> simp_all

theorem stateM_give (g : Op F) (x : L) :
    ∀ (fr : List (Frame F L)) (rm : Tree F L), stateM run tc lv fr rm ≠ .ok () →
      stateM run tc lv (sgiveLoop tc g x fr rm).1 (sgiveLoop tc g x fr rm).2 =
        stateM run tc lv fr rm := by
  intro fr
  induction fr with
  | nil =>
    intro rm h
    unfold stateM at *
    simp only [sgiveLoop, belowM, fkidsM, Out.bind_ok] at *
    cases hs : semM run tc lv rm <;> simp_all
  | cons t rest ih =>
    intro rm h
    have hp := stateM_pop run tc lv t rest rm h
    unfold sgiveLoop
    split
    · split
      · -- merge: the operands of `plug t rm` are evaluated in the same order
        unfold stateM at *
        simp only [belowM, fkidsM, if_true, Out.bind_assoc] at *
        rw [kidsM_plug]
        cases hb : belowM run tc lv rest <;> simp_all
        cases hk : (if t.isExt = true then kidsM run tc lv t.l
          else (semM run tc lv t.l).bind fun a => Out.ok [a]) <;> simp_all [fkidsM]
        cases hs : semM run tc lv rm <;> simp_all
      · rw [ih _ (by rw [hp]; exact h), hp]
    · unfold stateM at *
      simp only [belowM, fkidsM, Out.bind_assoc] at *
      cases hb : belowM run tc lv rest <;> simp_all
      cases hk : (if t.isExt = true then kidsM run tc lv t.l
        else (semM run tc lv t.l).bind fun a => Out.ok [a]) <;> simp_all
      cases hs : semM run tc lv rm <;> simp_all

theorem stateM_feed :
    ∀ (more : List (Op F × L)) (s : List (Frame F L) × Tree F L),
      stateM run tc lv s.1 s.2 ≠ .ok () →
      stateM run tc lv (sfeed tc more s).1 (sfeed tc more s).2 = stateM run tc lv s.1 s.2 := by
  intro more
  induction more with
  | nil => intro s _; rfl
  | cons p more ih =>
    intro s h
    obtain ⟨g, x⟩ := p
    simp only [sfeed]
    have hg := stateM_give run tc lv g x s.1 s.2 h
    rw [ih _ (by rw [hg]; exact h), hg]

theorem stateM_finish :
    ∀ (fr : List (Frame F L)) (rm : Tree F L), stateM run tc lv fr rm ≠ .ok () →
      (semM run tc lv (sfinish fr rm)).void = stateM run tc lv fr rm := by
  intro fr
  induction fr with
  | nil => intro rm _; simp [stateM, belowM, sfinish]
  | cons t rest ih =>
    intro rm h
    simp only [sfinish]
    have hp := stateM_pop run tc lv t rest rm h
    rw [ih _ (by rw [hp]; exact h), hp]

/-- one `give`: either both sides proceed to related states, or the evaluator fails and the
tree-level state is poisoned with the same failure -/
theorem give_sim (g : Op F) (x : L) :
    ∀ (ts : List (Frame F L)) (es : List (Entry F V)) (rmV : V) (rmT : Tree F L),
      StackRel run tc lv es ts → semM run tc lv rmT = .ok rmV →
      (∃ s', giveLoop run tc g.fn g.prec (lv x) es rmV = .ok s' ∧
          StackRel run tc lv s'.pending (sgiveLoop tc g x ts rmT).1 ∧ s'.rightmost = lv x) ∨
      ((giveLoop run tc g.fn g.prec (lv x) es rmV).void ≠ .ok () ∧
        stateM run tc lv (sgiveLoop tc g x ts rmT).1 (sgiveLoop tc g x ts rmT).2 =
          (giveLoop run tc g.fn g.prec (lv x) es rmV).void) := by
  intro ts
  induction ts with
  | nil =>
    intro es rmV rmT hrel hrm
    cases es with
    | cons e es => simp [StackRel] at hrel
    | nil =>
      left
      refine ⟨_, rfl, ?_, rfl⟩
      simp [sgiveLoop, StackRel, EntryRel, fkidsM, hrm, Frame.merged, Frame.prec]
  | cons t ts ih =>
    intro es rmV rmT hrel hrm
    cases es with
    | nil => simp [StackRel] at hrel
    | cons e es =>
      obtain ⟨⟨hk, hm, hp⟩, hrest⟩ := hrel
      unfold giveLoop sgiveLoop
      rw [hp]
      by_cases hti : tighter t.prec g.prec = true
      · simp only [hti, if_true]
        have hch : chains tc (t.plug rmT) g = (tc e.op g.fn).isSome := by
          simp [chains, hm]
        rw [hch]
        cases htc : tc e.op g.fn with
        | some newOp =>
          left
          simp only [Option.isSome_some, if_true]
          refine ⟨_, rfl, ?_, rfl⟩
          refine ⟨⟨?_, ?_, ?_⟩, hrest⟩
          · show kidsM run tc lv (t.plug rmT) = _
            rw [kidsM_plug, hk, hrm]; rfl
          · show (Tree.merged tc (t.plug rmT)).bind (fun f => tc f g.fn) = some newOp
            rw [merged_plug, hm]; exact htc
          · simp [Frame.prec]
        | none =>
          simp only [Option.isSome_none, Bool.false_eq_true, if_false, runTopPopped]
          have hsem : semM run tc lv (t.plug rmT) = run e.op (e.operands ++ [rmV]) := by
            rw [semM_plug, hk, hrm, hm]; rfl
          cases hr : run e.op (e.operands ++ [rmV]) with
          | ok v =>
            simp only [Out.bind_ok]
            exact ih es v (t.plug rmT) hrest (by rw [hsem, hr])
          | throw =>
            right
            simp only [Out.bind_throw, Out.void_throw]
            refine ⟨by simp, ?_⟩
            have hst : stateM run tc lv ts (t.plug rmT) = .throw := by
              simp [stateM, belowM_of_rel run tc lv es ts hrest, hsem, hr]
            rw [stateM_give run tc lv g x ts _ (by rw [hst]; simp), hst]
          | panic =>
            right
            simp only [Out.bind_panic, Out.void_panic]
            refine ⟨by simp, ?_⟩
            have hst : stateM run tc lv ts (t.plug rmT) = .panic := by
              simp [stateM, belowM_of_rel run tc lv es ts hrest, hsem, hr]
            rw [stateM_give run tc lv g x ts _ (by rw [hst]; simp), hst]
      · left
        simp only [hti, Bool.false_eq_true, if_false]
        refine ⟨_, rfl, ?_, rfl⟩
        refine ⟨⟨?_, ?_, ?_⟩, ⟨hk, hm, hp⟩, hrest⟩
        · simp [fkidsM, hrm]
        · simp [Frame.merged]
        · simp [Frame.prec]

theorem finish_sim :
    ∀ (ts : List (Frame F L)) (es : List (Entry F V)) (rmV : V) (rmT : Tree F L),
      StackRel run tc lv es ts → semM run tc lv rmT = .ok rmV →
      finishLoop run es rmV = semM run tc lv (sfinish ts rmT) := by
  intro ts
  induction ts with
  | nil =>
    intro es rmV rmT hrel hrm
    cases es with
    | cons e es => simp [StackRel] at hrel
    | nil => simp [finishLoop, sfinish, hrm]
  | cons t ts ih =>
    intro es rmV rmT hrel hrm
    cases es with
    | nil => simp [StackRel] at hrel
    | cons e es =>
      obtain ⟨⟨hk, hm, hp⟩, hrest⟩ := hrel
      have hsem : semM run tc lv (t.plug rmT) = run e.op (e.operands ++ [rmV]) := by
        rw [semM_plug, hk, hrm, hm]; rfl
      simp only [finishLoop, sfinish, runTopPopped]
      cases hr : run e.op (e.operands ++ [rmV]) with
      | ok v =>
        simp only [Out.bind_ok]
        exact ih es v (t.plug rmT) hrest (by rw [hsem, hr])
      | throw =>
        simp only [Out.bind_throw]
        have hst : stateM run tc lv ts (t.plug rmT) = .throw := by
          simp [stateM, belowM_of_rel run tc lv es ts hrest, hsem, hr]
        have := stateM_finish run tc lv ts (t.plug rmT) (by rw [hst]; simp)
        rw [hst] at this
        cases hs : semM run tc lv (sfinish ts (t.plug rmT)) <;> simp_all
      | panic =>
        simp only [Out.bind_panic]
        have hst : stateM run tc lv ts (t.plug rmT) = .panic := by
          simp [stateM, belowM_of_rel run tc lv es ts hrest, hsem, hr]
        have := stateM_finish run tc lv ts (t.plug rmT) (by rw [hst]; simp)
        rw [hst] at this
        cases hs : semM run tc lv (sfinish ts (t.plug rmT)) <;> simp_all

/-- the operands/operators of a chain as the evaluator receives them -/
def givenOps (more : List (Op F × L)) : List (F × Precedence × V) :=
  more.map fun p => (p.1.fn, p.1.prec, lv p.2)

theorem givenOps_cons (g : Op F) (x : L) (more : List (Op F × L)) :
    givenOps lv ((g, x) :: more) = (g.fn, g.prec, lv x) :: givenOps lv more := rfl

theorem feed_sim :
    ∀ (more : List (Op F × L)) (ts : List (Frame F L)) (es : List (Entry F V)) (rmV : V)
      (rmT : Tree F L),
      StackRel run tc lv es ts → semM run tc lv rmT = .ok rmV →
      (giveAll run tc (givenOps lv more) ⟨es, rmV⟩).bind (fun s => s.finish run) =
        semM run tc lv (sfinish (sfeed tc more (ts, rmT)).1 (sfeed tc more (ts, rmT)).2) := by
  intro more
  induction more with
  | nil =>
    intro ts es rmV rmT hrel hrm
    simpa [givenOps, giveAll, CE.finish, sfeed] using finish_sim run tc lv ts es rmV rmT hrel hrm
  | cons p more ih =>
    intro ts es rmV rmT hrel hrm
    obtain ⟨g, x⟩ := p
    rw [givenOps_cons]
    simp only [giveAll, CE.give, sfeed]
    rcases give_sim run tc lv g x ts es rmV rmT hrel hrm with ⟨s', hs', hrel', hrm'⟩ | ⟨hne, hst⟩
    · rw [hs']
      simp only [Out.bind_ok]
      have := ih (sgiveLoop tc g x ts rmT).1 s'.pending s'.rightmost (sgiveLoop tc g x ts rmT).2
        hrel' (by rw [sgiveLoop_snd, hrm']; rfl)
      exact this
    · -- the evaluator failed inside this `give`
      have hne' : stateM run tc lv (sgiveLoop tc g x ts rmT).1 (sgiveLoop tc g x ts rmT).2 ≠ .ok () := by
        rw [hst]; exact hne
      have h1 := stateM_feed run tc lv more (sgiveLoop tc g x ts rmT) hne'
      have h2 := stateM_finish run tc lv _ _ (by rw [h1]; exact hne')
      rw [h1, hst] at h2
      have h3 := Out.void_bind_err (fun s' => (giveAll run tc (givenOps lv more) s').bind
        (fun s => s.finish run)) hne
      rw [Out.bind_assoc]
      symm
      apply Out.eq_of_void_err (by rw [h3]; exact hne)
      rw [h3]; exact h2

/-- **the evaluator computes the post-order value of the tree it groups the chain into**, for
every interpretation of the operators, failing or not -/
theorem evalChain_eq_sem (c : ChainOf F L) :
    evalChain run tc (lv c.first) (givenOps lv c.rest) = semM run tc lv (shunt tc c) := by
  unfold evalChain shunt CE.new
  exact feed_sim run tc lv c.rest [] [] (lv c.first) (leaf c.first) trivial rfl

end sim
end Chain
end Noulith
