/-
C15, parser termination: with the linear fuel `fuelFor` the parser model never runs out of fuel.

`step_f`: if every function of the mutual block is safe at fuel `n` (`AllOK n`), then `f` is safe at
fuel `n + 1` — by symbolic execution of its `do` block (`pauto`).  `allOK` closes the induction;
`parse_never_out_of_fuel` is the result.  The measure: fuel ≥ 10 · (weight of the remaining tokens) +
(grammar level of the function), where a format-string token weighs twice its body length + 2 (its
body is lexed and parsed recursively) and every other token 1; every recursive call either happens on
a strictly lighter token list or descends at least one grammar level.
-/
import NoulithModel.Lemmas.C15ParseSpec
namespace Noulith.C15
open Noulith Noulith.Lex Noulith.Parse

/-- the largest `2 * index + weight` over the embedded expressions of a part list starting at index `i` -/
def pmax : Nat → List FmtPart → Nat
  | _, [] => 0
  | i, .lit _ :: r => pmax (i + 1) r
  | i, .expr toks _ :: r => max (2 * i + W toks) (pmax (i + 1) r)

theorem pneed_le (i : Nat) (r : List FmtPart) :
    pneed r + 20 * i ≤ max (r.length + 1 + 20 * i) (10 * pmax i r + 11) := by
  induction r generalizing i with
  | nil => simp only [pneed, pmax, List.length_nil]; omega
  | cons p r ih =>
    have := ih (i + 1)
    cases p with
    | lit c => simp only [pneed, pmax, List.length_cons]; omega
    | expr toks fl => simp only [pneed, pmax, List.length_cons]; omega

theorem pmax_append_lit (i : Nat) (a : List FmtPart) (c : Char) : pmax i (a ++ [.lit c]) = pmax i a := by
  induction a generalizing i with
  | nil => simp [pmax]
  | cons p a ih => cases p <;> simp [pmax, ih]

theorem pmax_append_expr (i : Nat) (a : List FmtPart) (toks : List Token) (fl : FmtFlags) :
    pmax i (a ++ [.expr toks fl]) = max (pmax i a) (2 * (i + a.length) + W toks) := by
  induction a generalizing i with
  | nil => simp [pmax]
  | cons p a ih =>
    cases p with
    | lit c => simp only [List.cons_append, pmax, ih, List.length_cons]; congr 2; omega
    | expr t f => simp only [List.cons_append, pmax, ih, List.length_cons]; omega

theorem fmtExpr_W (acc : List Char) (part : FmtPart) (h : fmtExpr acc = .ok part) :
    ∃ toks fl, part = .expr toks fl ∧ W toks ≤ 2 * acc.length := by
  unfold fmtExpr at h
  simp only at h
  split at h
  · cases h
  · split at h
    · cases h
    · split at h
      · rename_i fl hfl
        cases h
        exact ⟨_, fl, rfl, Nat.le_trans (W_stripComments_le _) (W_lex_le acc)⟩
      · cases h

/-- invariant of the scanner after `p` characters -/
def FInv (p : Nat) (st : FmtState) : Prop :=
  st.ret.length + st.exprAcc.length ≤ p ∧ pmax 0 st.ret ≤ 2 * p

theorem FInv_mono (p q : Nat) (st : FmtState) (h : p ≤ q) (hi : FInv p st) : FInv q st := by
  unfold FInv at *; omega

theorem tail_length_of_head (cs : List Char) (c : Char) (h : cs.head? = some c) :
    cs.tail.length + 1 = cs.length := by
  cases cs <;> simp_all

theorem fmtLoop_inv (st : FmtState) (cs : List Char) (st' : FmtState) (p : Nat)
    (h : fmtLoop st cs = .ok st') (hi : FInv p st) : FInv (p + cs.length) st' := by
  fun_induction fmtLoop st cs generalizing p
  case case1 => cases h; simpa using hi
  case case2 st cs h0 hh ih =>
    have ht := tail_length_of_head cs _ hh
    have := ih (p + 2) h (by simp only [FInv, List.length_append, List.length_singleton, pmax_append_lit] at *; omega)
    simp only [List.length_cons]; rw [← ht]
    exact FInv_mono _ _ _ (by omega) this
  case case3 st cs h0 hh ih =>
    have := ih (p + 1) h (by simp only [FInv] at *; omega)
    exact FInv_mono _ _ _ (by simp only [List.length_cons]; omega) this
  case case4 st cs h0 hh _ ih =>
    have ht := tail_length_of_head cs _ hh
    have := ih (p + 2) h (by simp only [FInv, List.length_append, List.length_singleton, pmax_append_lit] at *; omega)
    simp only [List.length_cons]; rw [← ht]
    exact FInv_mono _ _ _ (by omega) this
  case case5 => cases h
  case case6 st c cs h0 _ _ ih =>
    have := ih (p + 1) h (by simp only [FInv, List.length_append, List.length_singleton, pmax_append_lit] at *; omega)
    exact FInv_mono _ _ _ (by simp only [List.length_cons]; omega) this
  case case7 st cs h0 ih =>
    have := ih (p + 1) h (by simp only [FInv, List.length_append, List.length_singleton] at *; omega)
    exact FInv_mono _ _ _ (by simp only [List.length_cons]; omega) this
  case case8 st cs h0 h1 part hpart _ ih =>
    obtain ⟨toks, fl, rfl, hw⟩ := fmtExpr_W _ _ hpart
    have := ih (p + 1) h (by
      simp only [FInv, List.length_append, List.length_singleton, pmax_append_expr, List.length_nil] at *; omega)
    exact FInv_mono _ _ _ (by simp only [List.length_cons]; omega) this
  case case9 => cases h
  case case10 st cs h0 h1 _ ih =>
    have := ih (p + 1) h (by simp only [FInv, List.length_append, List.length_singleton] at *; omega)
    exact FInv_mono _ _ _ (by simp only [List.length_cons]; omega) this
  case case11 st c cs h0 _ _ ih =>
    have := ih (p + 1) h (by simp only [FInv, List.length_append, List.length_singleton] at *; omega)
    exact FInv_mono _ _ _ (by simp only [List.length_cons]; omega) this

/-- the fuel `formatParts` needs on the parts of a format string is linear in the body length -/
theorem pneed_fmtScan (s : List Char) (parts : List FmtPart) (h : fmtScan s = .ok parts) :
    pneed parts ≤ 20 * s.length + 11 := by
  unfold fmtScan at h
  split at h
  · rename_i st hst
    split at h
    · cases h
    · cases h
      have hinv := fmtLoop_inv {} s st 0 hst (by simp [FInv, pmax])
      have hp := pneed_le 0 st.ret
      simp only [FInv] at hinv
      omega
  · cases h


attribute [local irreducible] Parse.atom Parse.dictLoop Parse.switchCases Parse.structFields Parse.forIterations Parse.forIteration Parse.operand Parse.operandLoop Parse.updateLoop Parse.operator Parse.chain Parse.chainLoop Parse.logicAnd Parse.logicAndLoop Parse.single Parse.singleLoop Parse.acs Parse.acsLoop Parse.annotatedPattern Parse.assignment Parse.paramList Parse.paramLoop Parse.expression Parse.exprLoop Parse.formatString Parse.formatParts

theorem step_dictLoop (n : Nat) (ih : AllOK n) : ∀ ts, Bud (n + 1) ts 7 → SpecR (dictLoop (n + 1)  ts) (Le ts) := by
  intro ts hb
  unfold dictLoop
  pauto ih

theorem step_switchCases (n : Nat) (ih : AllOK n) : ∀ ts, Bud (n + 1) ts 1 → SpecR (switchCases (n + 1)  ts) (Le ts) := by
  intro ts hb
  unfold switchCases
  pauto ih

theorem step_structFields (n : Nat) (ih : AllOK n) : ∀ ts, Bud (n + 1) ts 1 → SpecR (structFields (n + 1)  ts) (Le ts) := by
  intro ts hb
  unfold structFields
  pauto ih

theorem step_forIterations (n : Nat) (ih : AllOK n) : ∀ ts, Bud (n + 1) ts 10 → SpecR (forIterations (n + 1)  ts) (Le ts) := by
  intro ts hb
  unfold forIterations
  pauto ih

theorem step_forIteration (n : Nat) (ih : AllOK n) : ∀ ts, Bud (n + 1) ts 9 → SpecR (forIteration (n + 1)  ts) (Le ts) := by
  intro ts hb
  unfold forIteration
  pauto ih

theorem step_operand (n : Nat) (ih : AllOK n) : ∀ ts, Bud (n + 1) ts 2 → SpecR (operand (n + 1)  ts) (Lt ts) := by
  intro ts hb
  unfold operand
  pauto ih

theorem step_updateLoop (n : Nat) (ih : AllOK n) : ∀ ts, Bud (n + 1) ts 7 → SpecR (updateLoop (n + 1)  ts) (Le ts) := by
  intro ts hb
  unfold updateLoop
  pauto ih

theorem step_operator (n : Nat) (ih : AllOK n) : ∀ ab ts, Bud (n + 1) ts 2 → SpecR (operator (n + 1) ab ts) (Lt ts) := by
  intro ab ts hb
  unfold operator
  pauto ih

theorem step_chainLoop (n : Nat) (ih : AllOK n) : ∀ ab ts, Bud (n + 1) ts 3 → SpecR (chainLoop (n + 1) ab ts) (Le ts) := by
  intro ab ts hb
  unfold chainLoop
  pauto ih

theorem step_logicAnd (n : Nat) (ih : AllOK n) : ∀ ts, Bud (n + 1) ts 5 → SpecR (logicAnd (n + 1)  ts) (Lt ts) := by
  intro ts hb
  unfold logicAnd
  pauto ih

theorem step_logicAndLoop (n : Nat) (ih : AllOK n) : ∀ e ts, Bud (n + 1) ts 1 → SpecR (logicAndLoop (n + 1) e ts) (Le ts) := by
  intro e ts hb
  unfold logicAndLoop
  pauto ih

theorem step_single (n : Nat) (ih : AllOK n) : ∀ ts, Bud (n + 1) ts 6 → SpecR (single (n + 1)  ts) (Lt ts) := by
  intro ts hb
  unfold single
  pauto ih

theorem step_singleLoop (n : Nat) (ih : AllOK n) : ∀ e ts, Bud (n + 1) ts 1 → SpecR (singleLoop (n + 1) e ts) (Le ts) := by
  intro e ts hb
  unfold singleLoop
  pauto ih

theorem step_acs (n : Nat) (ih : AllOK n) : ∀ a ts, Bud (n + 1) ts 7 → SpecR (acs (n + 1) a ts) (Lt ts) := by
  intro a ts hb
  unfold acs
  pauto ih

theorem step_acsLoop (n : Nat) (ih : AllOK n) : ∀ a x y c ts, Bud (n + 1) ts 1 → SpecR (acsLoop (n + 1) a x y c ts) (Le ts) := by
  intro a x y c ts hb
  unfold acsLoop
  pauto ih

theorem step_annotatedPattern (n : Nat) (ih : AllOK n) : ∀ a ts, Bud (n + 1) ts 8 → SpecR (annotatedPattern (n + 1) a ts) (Lt ts) := by
  intro a ts hb
  unfold annotatedPattern
  refine (specR_bind _ _ _ _).mpr ?_
  pcall ih
  intro ⟨exs, c⟩ r h
  dsimp only
  split <;> pauto ih

theorem step_assignment (n : Nat) (ih : AllOK n) : ∀ ts, Bud (n + 1) ts 9 → SpecR (assignment (n + 1)  ts) (Lt ts) := by
  intro ts hb
  unfold assignment
  pauto ih

theorem step_paramList (n : Nat) (ih : AllOK n) : ∀ ts, Bud (n + 1) ts 8 → SpecR (paramList (n + 1)  ts) (Le ts) := by
  intro ts hb
  unfold paramList
  pauto ih

theorem step_paramLoop (n : Nat) (ih : AllOK n) : ∀ ts, Bud (n + 1) ts 7 → SpecR (paramLoop (n + 1)  ts) (Le ts) := by
  intro ts hb
  unfold paramLoop
  pauto ih

theorem step_expression (n : Nat) (ih : AllOK n) : ∀ ts, Bud (n + 1) ts 10 → SpecR (expression (n + 1)  ts) (Lt ts) := by
  intro ts hb
  unfold expression
  pauto ih

theorem step_exprLoop (n : Nat) (ih : AllOK n) : ∀ ts, Bud (n + 1) ts 1 → SpecR (exprLoop (n + 1)  ts) (Le ts) := by
  intro ts hb
  unfold exprLoop
  pauto ih

theorem step_operandLoop (n : Nat) (ih : AllOK n) : ∀ cur ts, Bud (n + 1) ts 1 → SpecR (operandLoop (n + 1) cur ts) (Le ts) := by
  intro cur ts hb
  unfold operandLoop
  refine (specR_bind _ _ _ _).mpr ?_
  apply specR_attach
  pauto ih

theorem step_chain (n : Nat) (ih : AllOK n) : ∀ ab ts, Bud (n + 1) ts 4 → SpecR (chain (n + 1) ab ts) (Lt ts) := by
  intro ab ts hb
  unfold chain
  pauto ih
  all_goals (apply specR_bind_attach; pauto ih)

set_option maxHeartbeats 1000000 in
theorem step_atom (n : Nat) (ih : AllOK n) : ∀ ts, Bud (n + 1) ts 1 → SpecR (atom (n + 1) ts) (Lt ts) := by
  intro ts hb
  unfold atom
  split
  · pauto ih
  · split
    all_goals (try (solve | (pauto ih)))
    · -- a format string: the nested parse has fuel enough by `AllOK.formatString`
      rename_i s
      have hfs := ih.formatString s (by pbud)
      cases hr : formatString n s with
      | ok b rest => cases b <;> simp only [specR_ok, specR_err] <;> pbud
      | err => simp only [specR_err]
      | oof => exact absurd hr hfs
    · -- `break break … [continue | expr]`
      rename_i ts' _
      have hsk := W_skipBreaks ts'
      simp only
      generalize skipBreaks ts' = ts2 at *
      split
      · pauto ih
      · split
        · pauto ih
        · pauto ih
    · -- `B[ … ]`
      pauto ih
      all_goals (apply specR_bind_bytesTail; pauto ih)


theorem step_formatParts (n : Nat) (ih : AllOK n) : ∀ parts, pneed parts ≤ n + 1 → formatParts (n + 1) parts ≠ .oof := by
  intro parts hp
  unfold formatParts
  split
  · simp
  · rename_i c rest
    apply ih.formatParts
    simp only [pneed] at hp; omega
  · rename_i toks fl rest
    simp only [pneed] at hp
    have he := specR_ne_oof (ih.expression toks (by simp only [Bud]; omega))
    have hr := ih.formatParts rest (by omega)
    split
    · exact hr
    · simp
    · simp
    · rename_i h; exact absurd h he

theorem step_formatString (n : Nat) (ih : AllOK n) : ∀ s, 20 * s.length + 12 ≤ n + 1 → formatString (n + 1) s ≠ .oof := by
  intro s hs
  unfold formatString
  split
  · simp
  · simp
  · rename_i parts hparts
    apply ih.formatParts
    have := pneed_fmtScan s parts hparts
    omega

theorem allOK_zero : AllOK 0 := by
  constructor
  all_goals first
    | (intros; rename_i hb; simp only [Bud] at hb; omega)
    | (intro s hs; omega)
    | (intro parts hp; cases parts with
        | nil => simp [pneed] at hp
        | cons p r => cases p <;> simp [pneed] at hp <;> omega)

theorem allOK_succ (n : Nat) (ih : AllOK n) : AllOK (n + 1) where
  atom := step_atom n ih
  dictLoop := step_dictLoop n ih
  switchCases := step_switchCases n ih
  structFields := step_structFields n ih
  forIterations := step_forIterations n ih
  forIteration := step_forIteration n ih
  operand := step_operand n ih
  operandLoop := step_operandLoop n ih
  updateLoop := step_updateLoop n ih
  operator := step_operator n ih
  chain := step_chain n ih
  chainLoop := step_chainLoop n ih
  logicAnd := step_logicAnd n ih
  logicAndLoop := step_logicAndLoop n ih
  single := step_single n ih
  singleLoop := step_singleLoop n ih
  acs := step_acs n ih
  acsLoop := step_acsLoop n ih
  annotatedPattern := step_annotatedPattern n ih
  assignment := step_assignment n ih
  paramList := step_paramList n ih
  paramLoop := step_paramLoop n ih
  expression := step_expression n ih
  exprLoop := step_exprLoop n ih
  formatString := step_formatString n ih
  formatParts := step_formatParts n ih

/-- at every fuel, every function of the parser model is safe within its budget -/
theorem allOK (n : Nat) : AllOK n := by
  induction n with
  | zero => exact allOK_zero
  | succ n ih => exact allOK_succ n ih

/-- `expression` on a token list never runs out of fuel when given `10 * weight + 10` -/
theorem expression_fuel (n : Nat) (ts : List Token) (h : 10 * W ts + 10 ≤ n) : expression n ts ≠ .oof :=
  specR_ne_oof ((allOK n).expression ts h)

/-- **the parser model never runs out of fuel**: `fuelFor code = 32 * |code| + 64` always suffices -/
theorem parse_never_out_of_fuel (code : List Char) : Parse.parse code ≠ .outOfFuel := by
  unfold Parse.parse Parse.parseTokens
  split
  · simp
  · have hw : W (stripComments (lex code)).1 ≤ 2 * code.length :=
      Nat.le_trans (W_stripComments_le _) (W_lex_le code)
    have := expression_fuel (fuelFor code) (stripComments (lex code)).1 (by unfold fuelFor; omega)
    split
    · simp
    · simp
    · simp
    · rename_i h; exact absurd h this

end Noulith.C15
