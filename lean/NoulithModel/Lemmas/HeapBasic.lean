/-
C01 helper lemmas, part 1: occurrence counting, heap primitives (lookup after update), the
reference-count invariant `Inv`, the representation relation `RepN`/`Rep`, reachability and `Stable`.
-/
import NoulithModel.Impl.HeapAbs

namespace Noulith.RcHeap
open Noulith.Store (Tree)

/-! ### occurrences of a handle in a list of values -/

/-- number of handles to allocation `id` in a list of values -/
def occ (id : Nat) : List Val → Nat
  | [] => 0
  | v :: vs => (if v = .ref id then 1 else 0) + occ id vs

@[simp] theorem occ_nil (id : Nat) : occ id [] = 0 := rfl
theorem occ_cons (id : Nat) (v : Val) (vs : List Val) :
    occ id (v :: vs) = (if v = .ref id then 1 else 0) + occ id vs := rfl
@[simp] theorem occ_cons_null (id : Nat) (vs : List Val) : occ id (.null :: vs) = occ id vs := by
  simp [occ_cons]
@[simp] theorem occ_cons_int (id : Nat) (n : Int) (vs : List Val) : occ id (.int n :: vs) = occ id vs := by
  simp [occ_cons]
theorem occ_cons_ref (id j : Nat) (vs : List Val) :
    occ id (.ref j :: vs) = (if j = id then 1 else 0) + occ id vs := by
  simp [occ_cons]

theorem occ_append (id : Nat) (as bs : List Val) : occ id (as ++ bs) = occ id as + occ id bs := by
  induction as with
  | nil => simp
  | cons a as ih => simp [occ_cons, ih]; omega

theorem occ_eq_zero_iff (id : Nat) (vs : List Val) : occ id vs = 0 ↔ ∀ v ∈ vs, v ≠ .ref id := by
  induction vs with
  | nil => simp
  | cons a as ih =>
    simp only [occ_cons, List.mem_cons, forall_eq_or_imp]
    by_cases h : a = .ref id <;> simp [h, ih]

theorem occ_pos_of_mem {id : Nat} {vs : List Val} (h : Val.ref id ∈ vs) : 0 < occ id vs := by
  rcases Nat.eq_zero_or_pos (occ id vs) with h0 | h0
  · exact absurd rfl ((occ_eq_zero_iff id vs).1 h0 _ h)
  · exact h0

/-- replacing element `j`: additive form (no subtraction) -/
theorem occ_set (id : Nat) (vs : List Val) (j : Nat) (v : Val) (hj : j < vs.length) :
    occ id (vs.set j v) + occ id [vs.getD j .null] = occ id vs + occ id [v] := by
  induction vs generalizing j with
  | nil => simp at hj
  | cons a as ih =>
    cases j with
    | zero => simp [occ_cons]; omega
    | succ j =>
      have := ih j (by simpa using hj)
      simp [occ_cons] at this ⊢; omega

theorem occ_eraseIdx (id : Nat) (vs : List Val) (j : Nat) (hj : j < vs.length) :
    occ id (vs.eraseIdx j) + occ id [vs.getD j .null] = occ id vs := by
  induction vs generalizing j with
  | nil => simp at hj
  | cons a as ih =>
    cases j with
    | zero => simp [occ_cons]; omega
    | succ j =>
      have := ih j (by simpa using hj)
      simp [occ_cons] at this ⊢; omega

theorem occ_replicate (id : Nat) (n : Nat) (v : Val) :
    occ id (List.replicate n v) = n * occ id [v] := by
  induction n with
  | zero => simp
  | succ n ih => simp [List.replicate_succ, occ_cons, ih, Nat.succ_mul]; omega

theorem occ_dropLast_getLast (id : Nat) (vs : List Val) (x : Val) (h : vs.getLast? = some x) :
    occ id vs.dropLast + occ id [x] = occ id vs := by
  have : vs = vs.dropLast ++ [x] := by
    rcases List.eq_nil_or_concat vs with rfl | ⟨l, a, rfl⟩
    · simp at h
    · simp at h; simp [h]
  conv => rhs; rw [this]
  rw [occ_append]

/-! ### heap primitives -/

theorem rcOf_eq_zero_of_ge {h : Heap} {id : Nat} (hge : h.allocs.length ≤ id) : rcOf h id = 0 := by
  simp [rcOf, List.getElem?_eq_none hge]

theorem lt_of_rcOf_pos {h : Heap} {id : Nat} (hp : 0 < rcOf h id) : id < h.allocs.length := by
  rcases Nat.lt_or_ge id h.allocs.length with hl | hl
  · exact hl
  · rw [rcOf_eq_zero_of_ge hl] at hp; omega

theorem payloadOf_eq_nil_of_ge {h : Heap} {id : Nat} (hge : h.allocs.length ≤ id) : payloadOf h id = [] := by
  simp [payloadOf, List.getElem?_eq_none hge]

@[simp] theorem setAlloc_length (h : Heap) (id : Nat) (a : Alloc) :
    (setAlloc h id a).allocs.length = h.allocs.length := by simp [setAlloc]
@[simp] theorem setAlloc_copied (h : Heap) (id : Nat) (a : Alloc) : (setAlloc h id a).copied = h.copied := rfl
@[simp] theorem setAlloc_pushes (h : Heap) (id : Nat) (a : Alloc) : (setAlloc h id a).pushes = h.pushes := rfl

theorem rcOf_setAlloc (h : Heap) (id i : Nat) (a : Alloc) :
    rcOf (setAlloc h id a) i = if i = id ∧ id < h.allocs.length then a.rc else rcOf h i := by
  unfold rcOf setAlloc
  simp only [List.getElem?_set]
  by_cases hi : id = i
  · subst hi
    by_cases hl : id < h.allocs.length <;> simp [hl]
  · have : ¬ i = id := fun e => hi e.symm
    simp [hi, this]

theorem payloadOf_setAlloc (h : Heap) (id i : Nat) (a : Alloc) :
    payloadOf (setAlloc h id a) i = if i = id ∧ id < h.allocs.length then a.payload else payloadOf h i := by
  unfold payloadOf setAlloc
  simp only [List.getElem?_set]
  by_cases hi : id = i
  · subst hi
    by_cases hl : id < h.allocs.length <;> simp [hl]
  · have : ¬ i = id := fun e => hi e.symm
    simp [hi, this]

theorem keysOf_eq_none_of_ge {h : Heap} {id : Nat} (hge : h.allocs.length ≤ id) : keysOf h id = none := by
  simp [keysOf, List.getElem?_eq_none hge]

theorem keysOf_setAlloc (h : Heap) (id i : Nat) (a : Alloc) :
    keysOf (setAlloc h id a) i = if i = id ∧ id < h.allocs.length then a.keys else keysOf h i := by
  unfold keysOf setAlloc
  simp only [List.getElem?_set]
  by_cases hi : id = i
  · subst hi
    by_cases hl : id < h.allocs.length <;> simp [hl]
  · have : ¬ i = id := fun e => hi e.symm
    simp [hi, this]

/-- handles to `id` held in payloads of all allocations -/
def pocc (id : Nat) (h : Heap) : Nat := (h.allocs.map (fun a => occ id a.payload)).sum

theorem sum_set_add (l : List Nat) (j x : Nat) (hj : j < l.length) :
    (l.set j x).sum + l[j] = l.sum + x := by
  induction l generalizing j with
  | nil => simp at hj
  | cons a as ih =>
    cases j with
    | zero => simp; omega
    | succ j =>
      have := ih j (by simpa using hj)
      simp at this ⊢; omega

theorem pocc_setAlloc (h : Heap) (id i : Nat) (a : Alloc) (hl : id < h.allocs.length) :
    pocc i (setAlloc h id a) + occ i (payloadOf h id) = pocc i h + occ i a.payload := by
  unfold pocc setAlloc payloadOf
  simp only [List.map_set]
  have := sum_set_add (h.allocs.map (fun a => occ i a.payload)) id (occ i a.payload) (by simpa using hl)
  simp only [List.getElem_map] at this
  simp [List.getElem?_eq_getElem hl]
  exact this

theorem pocc_setAlloc_ge (h : Heap) (id i : Nat) (a : Alloc) (hl : h.allocs.length ≤ id) :
    pocc i (setAlloc h id a) = pocc i h := by
  unfold pocc setAlloc
  rw [List.set_eq_of_length_le hl]

theorem pocc_push (h : Heap) (i : Nat) (a : Alloc) (c p : Nat) :
    pocc i ⟨h.allocs ++ [a], c, p⟩ = pocc i h + occ i a.payload := by
  simp [pocc]

theorem le_sum_of_mem {l : List Nat} {x : Nat} (hx : x ∈ l) : x ≤ l.sum := by
  induction l with
  | nil => simp at hx
  | cons a as ih =>
    rcases List.mem_cons.1 hx with rfl | h
    · simp
    · have := ih h; simp; omega

theorem occ_le_pocc {h : Heap} {id i : Nat} (hl : id < h.allocs.length) :
    occ i (payloadOf h id) ≤ pocc i h := by
  unfold pocc payloadOf
  simp only [List.getElem?_eq_getElem hl]
  have : occ i (h.allocs[id]).payload ∈ h.allocs.map (fun a => occ i a.payload) :=
    List.mem_map.2 ⟨_, List.getElem_mem hl, rfl⟩
  exact le_sum_of_mem this

theorem occ_payload_le_pocc (h : Heap) (id i : Nat) : occ i (payloadOf h id) ≤ pocc i h := by
  rcases Nat.lt_or_ge id h.allocs.length with hl | hl
  · exact occ_le_pocc hl
  · simp [payloadOf_eq_nil_of_ge hl]

/-- no payload holds a handle to `i` ⇒ no element of any payload is that handle -/
theorem ne_ref_of_pocc_zero {h : Heap} {i id : Nat} {c : Val} (hz : pocc i h = 0)
    (hc : c ∈ payloadOf h id) : c ≠ .ref i := by
  have := occ_payload_le_pocc h id i
  have h0 : occ i (payloadOf h id) = 0 := by omega
  exact (occ_eq_zero_iff _ _).1 h0 c hc

end Noulith.RcHeap
